/-
Machine-level gas lemmas: `frameStep`, `finish`, `smallStep`; the potential of the whole
machine (current VM + suspended parents), its invariant, the "unpaid refund" event, and the
lexicographic termination measure.
-/
import BytomModel.Lemmas.VMStep
namespace BytomModel.VM
open OpM
set_option linter.unusedSimpArgs false
set_option linter.unusedVariables false
set_option linter.unnecessarySeqFocus false
set_option linter.unusedTactic false
set_option linter.unreachableTactic false

section
variable {μ ι : Type} (M : MemOps μ ι) (ctx : Context ι)

/-! ### CHECKMULTISIG leaves nextPC alone (it is the only opcode that can be free) -/

def KeepNP {α : Type} (m : OpM (St μ ι) α) : Prop :=
  ∀ s a s', m s = .ok a s' → s'.f.nextPC = s.f.nextPC

theorem KeepNP_bind {α β : Type} (m : OpM (St μ ι) α) (f : α → OpM (St μ ι) β)
    (h1 : KeepNP m) (h2 : ∀ a, KeepNP (f a)) : KeepNP (m >>= f) := by
  intro s b s2 hb
  rw [bind_run] at hb
  cases hm : m s with
  | panic => rw [hm] at hb; simp at hb
  | err e s1 => rw [hm] at hb; simp at hb
  | ok a s1 =>
    rw [hm] at hb; simp only [Res.bindK_ok] at hb
    rw [h2 a s1 b s2 hb, h1 s a s1 hm]

theorem KeepNP_ite {α : Type} (c : Prop) [Decidable c] (x y : OpM (St μ ι) α)
    (h1 : KeepNP x) (h2 : KeepNP y) : KeepNP (if c then x else y) := by
  split <;> assumption

theorem KeepNP_throwE {α : Type} (e : Err) : KeepNP (throwE e : OpM (St μ ι) α) := by
  intro s a s' h; simp at h

theorem KeepNP_pure {α : Type} (a : α) : KeepNP (pure a : OpM (St μ ι) α) := by
  intro s b s' h; simp at h; obtain ⟨_, rfl⟩ := h; rfl

theorem KeepNP_applyCost (n : Int) : KeepNP (applyCost n : OpM (St μ ι) Unit) := by
  intro s a s' h
  rw [applyCost_run] at h
  split at h
  · cases h
  · cases h; rfl

theorem KeepNP_pop (d : Bool) : KeepNP (pop M d) := by
  intro s a s' h
  unfold pop at h
  split at h
  · cases h
  · split at h <;> (cases h; rfl)

theorem KeepNP_readItem (x : ι) : KeepNP (readItem M x) := by
  intro s a s' h; simp at h; obtain ⟨_, rfl⟩ := h; rfl

theorem KeepNP_ofExcept {α : Type} (x : Except Err α) : KeepNP (ofExcept x : OpM (St μ ι) α) := by
  intro s a s' h
  cases x with
  | error e => simp at h
  | ok v => simp at h; obtain ⟨_, rfl⟩ := h; rfl

theorem KeepNP_popBytes (d : Bool) : KeepNP (popBytes M d) :=
  KeepNP_bind _ _ (KeepNP_pop M d) (fun x => KeepNP_readItem M x)

theorem KeepNP_popInt64 (d : Bool) : KeepNP (popInt64 M d) :=
  KeepNP_bind _ _ (KeepNP_bind _ _ (KeepNP_popBytes M d) (fun b => KeepNP_ofExcept _)) (fun n => KeepNP_ofExcept _)

theorem KeepNP_popN (k : Nat) : KeepNP (popN M k) := by
  induction k with
  | zero => exact KeepNP_pure _
  | succ k ih =>
    exact KeepNP_bind _ _ (KeepNP_popBytes M true) (fun x => KeepNP_bind _ _ ih (fun xs => KeepNP_pure _))

theorem KeepNP_pushBool (b : Bool) : KeepNP (pushBool M b true) := by
  intro s a s' h
  simp [pushBool, pushBytes, bind_run, pushItem_def] at h
  obtain ⟨_, rfl⟩ := h; rfl

theorem KeepNP_opCheckMultiSig : KeepNP (opCheckMultiSig M ctx) := by
  unfold opCheckMultiSig
  refine KeepNP_bind _ _ (KeepNP_popInt64 M true) (fun np => KeepNP_ite _ _ _ (KeepNP_throwE _) ?_)
  unfold cmsTail1
  refine KeepNP_bind _ _ (KeepNP_applyCost _) (fun _ => KeepNP_bind _ _ (KeepNP_popInt64 M true)
    (fun ns => KeepNP_ite _ _ _ (KeepNP_throwE _) ?_))
  unfold cmsTail2
  refine KeepNP_bind _ _ (KeepNP_popN M _) (fun pks => KeepNP_bind _ _ (KeepNP_popBytes M true)
    (fun msg => KeepNP_ite _ _ _ (KeepNP_throwE _) (KeepNP_bind _ _ (KeepNP_popN M _)
      (fun sigs => KeepNP_ite _ _ _ (KeepNP_pushBool M _) (KeepNP_pushBool M _)))))

/-! ### one step of one VM -/

/-- what one instruction takes from the potential at least -/
def stepCost (op : Nat) : Int := if isExpansion op then 1 else baseCost op

def Ctl3 (f f' : Frame ι) : Prop := f'.prog = f.prog ∧ f'.depth = f.depth ∧ f'.expRes = f.expRes

def FrameOK (s : St μ ι) : Res (St μ ι) (Action ι) → Prop :=
  ResP (fun a s' => match a with
      | .continue_ => ∃ inst, parseOpL (M.len s.f.prog) (M.read s.mem s.f.prog) s.f.pc = .ok inst ∧
          frameA M s'.f + stepCost inst.op ≤ frameA M s.f ∧ 0 ≤ s'.f.runLimit ∧ Ctl3 s.f s'.f ∧
          (frameA M s'.f + 1 ≤ frameA M s.f ∨ s'.f.pc = s.f.pc + inst.len)
      | .enterChild c => frameA M s'.f - s'.f.deferred + 64 + c.limit ≤ frameA M s.f ∧
          0 ≤ s'.f.runLimit ∧ 0 ≤ c.limit ∧ s'.f.deferred + 216 ≤ 0 ∧ c.n ≤ s'.f.data.length ∧
          Ctl3 s.f s'.f)
    (fun _ s' => 0 ≤ s'.f.runLimit ∧ Ctl3 s.f s'.f ∧ (frameA M s'.f ≤ frameA M s.f ∨ s'.f.runLimit = 0))

theorem baseCost_pos (op : Nat) (h : op ≠ 0xad) : 1 ≤ baseCost op := by
  unfold baseCost
  repeat' split
  all_goals first | omega | simp_all

theorem epilogue_run (s : St μ ι) : (epilogue : OpM (St μ ι) Unit) s =
    if s.f.deferred > s.f.runLimit then .err .runLimitExceeded { s with f := { s.f with runLimit := 0 } }
    else .ok () { s with f := { s.f with runLimit := s.f.runLimit - s.f.deferred, pc := s.f.nextPC } } := by
  simp only [epilogue, bind_run, getF_run, Res.bindK_ok, applyCost_run]
  split <;> simp

/-- the expansion-opcode branch of `step()` -/
theorem frameStep_expansion (s : St μ ι) (h : 0 ≤ s.f.runLimit) (inst : Inst)
    (hp : parseOpL (M.len s.f.prog) (M.read s.mem s.f.prog) s.f.pc = .ok inst)
    (hx : isExpansion inst.op = true) :
    FrameOK M s ((if s.f.expRes then throwE .disallowedOpcode else do
        modifyF fun f => { f with pc := f.nextPC }
        applyCost 1
        pure Action.continue_ : OpM (St μ ι) (Action ι))
      ⟨s.mem, { s.f with nextPC := s.f.pc + inst.len }⟩) := by
  obtain ⟨mem, ⟨prog, pc, nextPC, rl, d, data, alt, depth, er⟩⟩ := s
  dsimp only at h hp ⊢
  by_cases he : er = true
  · simp [he, FrameOK, Ctl3, frameA]; exact h
  · have he' : er = false := by simpa using he
    simp only [he', opm_ite_apply, bind_run, modifyF_run, Res.bindK_ok, applyCost_run]
    by_cases hc : (1 : Int) > rl
    · simp [hc, FrameOK, Ctl3]
    · simp only [hc, if_false, Res.bindK_ok, pure_run, FrameOK, ResP_ok]
      refine ⟨inst, hp, ?_, ?_, ⟨rfl, rfl, rfl⟩, Or.inl ?_⟩
      · simp [frameA, stepCost, hx]; omega
      · simp at hc ⊢; omega
      · simp [frameA]; omega

/-- the ordinary-opcode branch: handler, then the deferred charge -/
theorem frameStep_op (L : MemLaws M) (s : St μ ι) (h : 0 ≤ s.f.runLimit) (inst : Inst)
    (hp : parseOpL (M.len s.f.prog) (M.read s.mem s.f.prog) s.f.pc = .ok inst)
    (hx : isExpansion inst.op = false) (hcp : inst.op ≠ opCheckPredicateCode) :
    FrameOK M s ((do
        execOp M ctx inst.op inst.data
        epilogue
        pure Action.continue_ : OpM (St μ ι) (Action ι))
      ⟨s.mem, { s.f with nextPC := s.f.pc + inst.len, deferred := 0 }⟩) := by
  have hdef : isDefinedOp inst.op = true := by
    unfold isExpansion at hx; simpa using hx
  have hop := execOp_ok M ctx L inst.op inst.data
    ⟨s.mem, { s.f with nextPC := s.f.pc + inst.len, deferred := 0 }⟩ h hdef hcp
  have hnp : inst.op = 0xad → ∀ u s1, execOp M ctx inst.op inst.data
      ⟨s.mem, { s.f with nextPC := s.f.pc + inst.len, deferred := 0 }⟩ = .ok u s1 →
      s1.f.nextPC = s.f.pc + inst.len := by
    intro h173 u s1 hs
    rw [h173] at hs
    have : execOp M ctx 0xad inst.data = opCheckMultiSig M ctx := by
      unfold execOp; simp
    rw [this] at hs
    exact KeepNP_opCheckMultiSig M ctx _ u s1 hs
  rw [bind_run]
  cases hex : execOp M ctx inst.op inst.data
      ⟨s.mem, { s.f with nextPC := s.f.pc + inst.len, deferred := 0 }⟩ with
  | panic => simp [FrameOK]
  | err e s1 =>
    rw [hex] at hop
    simp only [OpOK, SameCtl] at hop
    obtain ⟨h1, h2, a, b, c, _⟩ := hop
    simp only [Res.bindK_err, FrameOK, ResP_err]
    exact ⟨h2, ⟨a, b, c⟩, Or.inl (by simpa [frameA] using h1)⟩
  | ok u s1 =>
    rw [hex] at hop
    simp only [OpOK, SameCtl] at hop
    obtain ⟨h1, h2, a, b, c, dpc⟩ := hop
    simp only [Res.bindK_ok, bind_run, epilogue_run]
    by_cases hc : s1.f.deferred > s1.f.runLimit
    · simp only [hc, if_true, Res.bindK_err, FrameOK, ResP_err]
      exact ⟨le_refl _, ⟨a, b, c⟩, by simp⟩
    · simp only [hc, if_false, Res.bindK_ok, pure_run, FrameOK, ResP_ok]
      have hcost : stepCost inst.op = baseCost inst.op := by simp [stepCost, hx]
      refine ⟨inst, hp, ?_, ?_, ⟨a, b, c⟩, ?_⟩
      · simp [frameA] at h1 ⊢; rw [hcost]; omega
      · simp at hc ⊢; omega
      · by_cases h173 : inst.op = 0xad
        · right
          have := hnp h173 u s1 hex
          simp [this, dpc]
        · left
          have := baseCost_pos inst.op h173
          simp [frameA] at h1 ⊢; omega

/-- the CHECKPREDICATE branch, up to the start of the child -/
theorem frameStep_cp (s : St μ ι) (h : 0 ≤ s.f.runLimit) (inst : Inst) :
    FrameOK M s ((do
        let c ← cpPrelude M
        pure (Action.enterChild c) : OpM (St μ ι) (Action ι))
      ⟨s.mem, { s.f with nextPC := s.f.pc + inst.len, deferred := 0 }⟩) := by
  have hpre := cpPrelude_ok M ⟨s.mem, { s.f with nextPC := s.f.pc + inst.len, deferred := 0 }⟩ h
  rw [bind_run]
  cases hc : cpPrelude M ⟨s.mem, { s.f with nextPC := s.f.pc + inst.len, deferred := 0 }⟩ with
  | panic => simp [FrameOK]
  | err e s1 =>
    rw [hc] at hpre
    simp only [PreludeOK, ResP_err, SameCtl] at hpre
    obtain ⟨h1, h2, a, b, c, _⟩ := hpre
    simp only [Res.bindK_err, FrameOK, ResP_err]
    exact ⟨h2, ⟨a, b, c⟩, Or.inl (by simpa [frameA] using h1)⟩
  | ok c s1 =>
    rw [hc] at hpre
    simp only [PreludeOK, ResP_ok, SameCtl] at hpre
    obtain ⟨h1, h2, h3, h4, h5, ⟨a, b, cc, _⟩, _⟩ := hpre
    simp only [Res.bindK_ok, pure_run, FrameOK, ResP_ok]
    refine ⟨?_, h2, h3, ?_, h5, a, b, cc⟩
    · simp [frameA] at h1 ⊢; omega
    · simpa using h4

theorem frameStep_ok (L : MemLaws M) (s : St μ ι) (h : 0 ≤ s.f.runLimit) :
    FrameOK M s (frameStep M ctx s) := by
  unfold frameStep
  rw [bind_run, get_run, Res.bindK_ok, bind_run, ofExcept_run]
  cases hp : parseOpL (M.len s.f.prog) (M.read s.mem s.f.prog) s.f.pc with
  | error e => simp [FrameOK, Ctl3]; exact h
  | ok inst =>
    simp only [exceptK_ok, Res.bindK_ok, bind_run, modifyF_run]
    by_cases hx : isExpansion inst.op = true
    · simp only [hx, if_true]
      exact frameStep_expansion M s h inst hp hx
    · have hx' : isExpansion inst.op = false := by simpa using hx
      simp only [hx', Bool.false_eq_true, if_false, bind_run, modifyF_run, Res.bindK_ok]
      by_cases hcp : inst.op = opCheckPredicateCode
      · simp only [hcp, if_true]
        exact frameStep_cp M s h inst
      · simp only [hcp, if_false]
        exact frameStep_op M ctx L s h inst hp hx' hcp

end
end BytomModel.VM
