/-
Memory footprint of the VM, generic in the memory model: every opcode handler, `step`,
CHECKPREDICATE and `run` change the memory only through `fresh`.  Stated for an
arbitrary preorder `R` on memories that contains the `fresh` steps.
-/
import BytomModel.Lemmas.VMGas
namespace BytomModel.VM
open OpM
set_option linter.unusedVariables false

structure MemRel {μ ι : Type} (M : MemOps μ ι) (R : μ → μ → Prop) : Prop where
  refl : ∀ m, R m m
  trans : ∀ a b c, R a b → R b c → R a c
  fresh : ∀ m b e, R m (M.fresh m b e).1

section
variable {μ ι : Type} {M : MemOps μ ι} {R : μ → μ → Prop} (H : MemRel M R)

/-- the memory after running `m` (successfully or not) is `R`-related to the memory before -/
structure MemR (R : μ → μ → Prop) {α : Type} (m : OpM (St μ ι) α) : Prop where
  h : ∀ s, ResP (fun _ s' => R s.mem s'.mem) (fun _ s' => R s.mem s'.mem) (m s)

include H

theorem MemR_bind {α β : Type} (m : OpM (St μ ι) α) (f : α → OpM (St μ ι) β)
    (h1 : MemR R m) (h2 : ∀ a, MemR R (f a)) : MemR R (m >>= f) := by
  constructor
  intro s
  rw [bind_run]
  have := h1.h s
  cases hm : m s with
  | panic => simp
  | err e s1 => rw [hm] at this; simpa using this
  | ok a s1 =>
    rw [hm] at this
    simp only [Res.bindK_ok]
    have h3 := (h2 a).h s1
    cases hf : f a s1 with
    | panic => simp
    | err e s2 => rw [hf] at h3; simp at this h3 ⊢; exact H.trans _ _ _ this h3
    | ok b s2 => rw [hf] at h3; simp at this h3 ⊢; exact H.trans _ _ _ this h3

theorem MemR_same {α : Type} (m : OpM (St μ ι) α)
    (h : ∀ s, ResP (fun _ s' => s'.mem = s.mem) (fun _ s' => s'.mem = s.mem) (m s)) : MemR R m := by
  constructor
  intro s
  have := h s
  cases hm : m s with
  | panic => simp
  | err e s1 => rw [hm] at this; simp at this ⊢; rw [this]; exact H.refl _
  | ok a s1 => rw [hm] at this; simp at this ⊢; rw [this]; exact H.refl _

theorem MemR_pure {α : Type} (a : α) : MemR R (pure a : OpM (St μ ι) α) :=
  MemR_same H _ (by intro s; simp)
theorem MemR_throwE {α : Type} (e : Err) : MemR R (throwE e : OpM (St μ ι) α) :=
  MemR_same H _ (by intro s; simp)
omit H in
theorem MemR_panicM {α : Type} : MemR R (panicM : OpM (St μ ι) α) := by constructor; intro s; simp
theorem MemR_get : MemR R (OpM.get : OpM (St μ ι) _) := MemR_same H _ (by intro s; simp)
theorem MemR_getF : MemR R (getF : OpM (St μ ι) _) := MemR_same H _ (by intro s; simp)
theorem MemR_modifyF (g : Frame ι → Frame ι) : MemR R (modifyF g : OpM (St μ ι) Unit) :=
  MemR_same H _ (by intro s; simp)
theorem MemR_deferCost (n : Int) : MemR R (deferCost n : OpM (St μ ι) Unit) :=
  MemR_same H _ (by intro s; simp)
theorem MemR_applyCost (n : Int) : MemR R (applyCost n : OpM (St μ ι) Unit) :=
  MemR_same H _ (by intro s; rw [applyCost_run]; split <;> simp)
theorem MemR_readItem (x : ι) : MemR R (readItem M x) := MemR_same H _ (by intro s; simp)
theorem MemR_ofExcept {α : Type} (x : Except Err α) : MemR R (ofExcept x : OpM (St μ ι) α) :=
  MemR_same H _ (by intro s; cases x <;> simp)
theorem MemR_pop (d : Bool) : MemR R (pop M d) :=
  MemR_same H _ (by
    intro s; unfold pop
    split
    · simp
    · split <;> simp)
theorem MemR_top : MemR R (top : OpM (St μ ι) ι) :=
  MemR_same H _ (by intro s; unfold top; split <;> simp)
theorem MemR_allocBytes (b : Bytes) (e : Nat) : MemR R (allocBytes M b e) := by
  constructor; intro s; simp; exact H.fresh _ _ _

omit H in
theorem MemR_ite {α : Type} (c : Prop) [Decidable c] (x y : OpM (St μ ι) α)
    (h1 : MemR R x) (h2 : MemR R y) : MemR R (if c then x else y) := by
  split <;> assumption

/-- structural proof search: all handlers are built from the primitives above -/
syntax "memr" term:max : tactic
macro_rules
  | `(tactic| memr $H) => `(tactic| repeat' (first
      | assumption
      | apply MemR_bind $H
      | apply MemR_pure $H
      | apply MemR_throwE $H
      | apply MemR_panicM
      | apply MemR_get $H
      | apply MemR_getF $H
      | apply MemR_modifyF $H
      | apply MemR_deferCost $H
      | apply MemR_applyCost $H
      | apply MemR_readItem $H
      | apply MemR_ofExcept $H
      | apply MemR_pop $H
      | apply MemR_top $H
      | apply MemR_allocBytes $H
      | apply MemR_ite
      | intro _
      | split))

theorem MemR_popBytes (d : Bool) : MemR R (popBytes M d) := by unfold popBytes; memr H
theorem MemR_popBigInt (d : Bool) : MemR R (popBigInt M d) := by
  unfold popBigInt; have := MemR_popBytes H d; memr H
theorem MemR_popInt64 (d : Bool) : MemR R (popInt64 M d) := by
  unfold popInt64; have := MemR_popBigInt H d; memr H
theorem MemR_pushItem (x : ι) (d : Bool) : MemR R (pushItem M x d) := by unfold pushItem; memr H
theorem MemR_pushAlt (x : ι) : MemR R (pushAlt M x) := by unfold pushAlt; memr H
theorem MemR_pushBytes (b : Bytes) (d : Bool) (e : Nat) : MemR R (pushBytes M b d e) := by
  unfold pushBytes; have := fun x => MemR_pushItem H x d; memr H
theorem MemR_pushBool (b d : Bool) : MemR R (pushBool M b d) := MemR_pushBytes H _ _ _
theorem MemR_pushBigInt (n : Nat) (d : Bool) : MemR R (pushBigInt M n d) := MemR_pushBytes H _ _ _
theorem MemR_pushNth (l : List ι) (i : Nat) : MemR R (pushNth M l i) := by
  unfold pushNth; have := fun x => MemR_pushItem H x false; memr H
theorem MemR_dupLoop (idx k : Nat) : MemR R (dupLoop M idx k) := by
  induction k with
  | zero => unfold dupLoop; memr H
  | succ k ih => unfold dupLoop; have := fun x => MemR_pushItem H x false; memr H
theorem MemR_popN (k : Nat) : MemR R (popN M k) := by
  induction k with
  | zero => unfold popN; memr H
  | succ k ih => unfold popN; have := MemR_popBytes H true; memr H
theorem MemR_rot (n : Int) : MemR R (rot n : OpM (St μ ι) Unit) := by
  unfold rot; memr H; dsimp only; memr H

/-- every op handler (`hs`: the helper facts above, put in the context for `assumption`) -/
syntax "memr_op" term:max "[" ident,* "]" : tactic
macro_rules
  | `(tactic| memr_op $H [$ds,*]) => `(tactic| (
      unfold $ds*
      have h1 := MemR_popBytes $H
      have h2 := MemR_popBigInt $H
      have h3 := MemR_popInt64 $H
      have h4 := MemR_pushItem $H
      have h5 := MemR_pushBytes $H
      have h6 := MemR_pushBool $H
      have h7 := MemR_pushBigInt $H
      have h8 := MemR_pushNth $H
      have h9 := MemR_dupLoop $H
      have h10 := MemR_popN $H
      have h11 := @MemR_rot _ _ _ _ $H
      have h12 := MemR_pushAlt $H
      repeat' (first
        | apply h1 | apply h2 | apply h3 | apply h4 | apply h5 | apply h6 | apply h7 | apply h8
        | apply h9 | apply h10 | apply h11 | apply h12
        | apply MemR_bind $H
        | apply MemR_pure $H
        | apply MemR_throwE $H
        | apply MemR_panicM
        | apply MemR_get $H
        | apply MemR_getF $H
        | apply MemR_modifyF $H
        | apply MemR_deferCost $H
        | apply MemR_applyCost $H
        | apply MemR_readItem $H
        | apply MemR_ofExcept $H
        | apply MemR_pop $H
        | apply MemR_top $H
        | apply MemR_allocBytes $H
          | apply MemR_ite
        | intro _
        | split)))

variable (ctx : Context ι)

theorem MemR_opFalse : MemR R (opFalse M) := by memr_op H [opFalse]
theorem MemR_opPushdata (b : Bytes) : MemR R (opPushdata M b) := by memr_op H [opPushdata]
theorem MemR_opNop : MemR R (opNop : OpM (St μ ι) Unit) := by memr_op H [opNop]
theorem MemR_opVerify : MemR R (opVerify M) := by memr_op H [opVerify]
theorem MemR_opFail : MemR R (opFail : OpM (St μ ι) Unit) := by memr_op H [opFail]
theorem MemR_opJump (b : Bytes) : MemR R (opJump b : OpM (St μ ι) Unit) := by memr_op H [opJump]
theorem MemR_opJumpIf (b : Bytes) : MemR R (opJumpIf M b) := by memr_op H [opJumpIf]
theorem MemR_opToAltStack : MemR R (opToAltStack : OpM (St μ ι) Unit) := by memr_op H [opToAltStack]
theorem MemR_opFromAltStack : MemR R (opFromAltStack : OpM (St μ ι) Unit) := by memr_op H [opFromAltStack]
theorem MemR_op2Drop : MemR R (op2Drop M) := by memr_op H [op2Drop]
theorem MemR_nDup (n : Nat) : MemR R (nDup M n) := by memr_op H [nDup]
theorem MemR_op2Over : MemR R (op2Over M) := by memr_op H [op2Over]
theorem MemR_op2Rot : MemR R (op2Rot : OpM (St μ ι) Unit) := by memr_op H [op2Rot]
theorem MemR_op2Swap : MemR R (op2Swap : OpM (St μ ι) Unit) := by memr_op H [op2Swap]
theorem MemR_opIfDup : MemR R (opIfDup M) := by memr_op H [opIfDup]
theorem MemR_opDepth : MemR R (opDepth M) := by memr_op H [opDepth]
theorem MemR_opDrop : MemR R (opDrop M) := by memr_op H [opDrop]
theorem MemR_opNip : MemR R (opNip M) := by memr_op H [opNip]
theorem MemR_opOver : MemR R (opOver M) := by memr_op H [opOver]
theorem MemR_opPick : MemR R (opPick M) := by memr_op H [opPick]
theorem MemR_opRoll : MemR R (opRoll M) := by memr_op H [opRoll]
theorem MemR_opRot : MemR R (opRot : OpM (St μ ι) Unit) := by memr_op H [opRot]
theorem MemR_opSwap : MemR R (opSwap : OpM (St μ ι) Unit) := by memr_op H [opSwap]
theorem MemR_opTuck : MemR R (opTuck M) := by memr_op H [opTuck]
theorem MemR_opCat : MemR R (opCat M) := by memr_op H [opCat]
theorem MemR_opCatpushdata : MemR R (opCatpushdata M) := by memr_op H [opCatpushdata]
theorem MemR_opSubstr : MemR R (opSubstr M) := by memr_op H [opSubstr]
theorem MemR_opLeft : MemR R (opLeft M) := by memr_op H [opLeft]
theorem MemR_opRight : MemR R (opRight M) := by memr_op H [opRight]
theorem MemR_opSize : MemR R (opSize M) := by memr_op H [opSize]
theorem MemR_opInvert : MemR R (opInvert M) := by memr_op H [opInvert]
theorem MemR_opAnd : MemR R (opAnd M) := by memr_op H [opAnd]
theorem MemR_doOr (x : Bool) : MemR R (doOr M x) := by memr_op H [doOr]
theorem MemR_doEqual : MemR R (doEqual M) := by memr_op H [doEqual]
theorem MemR_opEqual : MemR R (opEqual M) := by have := MemR_doEqual H; memr_op H [opEqual]
theorem MemR_opEqualVerify : MemR R (opEqualVerify M) := by have := MemR_doEqual H; memr_op H [opEqualVerify]
theorem MemR_unaryNum (c : Int) (fn : Nat → Except Err Bytes) : MemR R (unaryNum M c fn) := by memr_op H [unaryNum]
theorem MemR_binaryNum (c : Int) (fn : Nat → Nat → Except Err Bytes) : MemR R (binaryNum M c fn) := by
  memr_op H [binaryNum]
theorem MemR_opBoolBin (p : Bool → Bool → Bool) : MemR R (opBoolBin M p) := by memr_op H [opBoolBin]
theorem MemR_opNumEqualVerify : MemR R (opNumEqualVerify M) := by memr_op H [opNumEqualVerify]
theorem MemR_opWithin : MemR R (opWithin M) := by memr_op H [opWithin]
theorem MemR_doHash (hf : Bytes → Bytes) : MemR R (doHash M hf) := by memr_op H [doHash]
theorem MemR_opHash160 : MemR R (opHash160 M ctx) := by memr_op H [opHash160]
theorem MemR_opCheckSig : MemR R (opCheckSig M ctx) := by memr_op H [opCheckSig]
theorem MemR_cmsTail2 (a b : Int) : MemR R (cmsTail2 M ctx a b) := by memr_op H [cmsTail2]
theorem MemR_cmsTail1 (a : Int) : MemR R (cmsTail1 M ctx a) := by
  have := MemR_cmsTail2 H ctx a; memr_op H [cmsTail1]
theorem MemR_opCheckMultiSig : MemR R (opCheckMultiSig M ctx) := by
  have := MemR_cmsTail1 H ctx; memr_op H [opCheckMultiSig]
theorem MemR_opTxSigHash : MemR R (opTxSigHash M ctx) := by memr_op H [opTxSigHash]
theorem MemR_opCheckOutput : MemR R (opCheckOutput M ctx) := by memr_op H [opCheckOutput]
theorem MemR_pushCtxItem (x : Option ι) : MemR R (pushCtxItem M x) := by memr_op H [pushCtxItem]
theorem MemR_pushCtxNum (x : Option Nat) : MemR R (pushCtxNum M x) := by memr_op H [pushCtxNum]

end
end BytomModel.VM
