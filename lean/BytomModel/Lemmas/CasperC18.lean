/-
C18 invariant on the `Micro` steps: among the votes recorded inside the in-memory checkpoint tree
(validator order, source height of the link, height of the checkpoint) no vote of a validator
strictly surrounds another vote of the same validator.  Core Lean only.
-/
import BytomModel.Lemmas.CasperInv

namespace BytomModel.Node

/-- validator `o` has a vote from source height `sH` to a checkpoint of height `tH` inside the tree -/
def HasVote (t : Tree) (o sH tH : Nat) : Prop :=
  ∃ c ∈ t.flatten, c.height = tH ∧ ∃ l ∈ c.sup, l.srcHeight = sH ∧ hasSlot l o = true

def NoSurround (t : Tree) : Prop :=
  ∀ o a b c d, HasVote t o a b → HasVote t o c d → ¬ (a < c ∧ d < b)

def Inv18 (U : Universe) (s : State) : Prop :=
  Base U s ∧ (∀ c ∈ s.tree.flatten, ∀ l ∈ c.sup, l.srcHeight = U.height l.src) ∧ NoSurround s.tree

theorem spanBad_false {o sH tH : Nat} {c : Ckpt} (h : spanBad o sH tH c = false) :
    ∀ l ∈ c.sup, hasSlot l o = true →
      ¬ (c.height < tH ∧ l.srcHeight > sH) ∧ ¬ (c.height > tH ∧ l.srcHeight < sH) := by
  intro l hl hs
  unfold spanBad at h
  by_cases hc : c.height = tH
  · constructor <;> (intro hh; omega)
  · have hne : (c.height != tH) = true := by simpa using hc
    rw [hne, Bool.true_and] at h
    have := List.any_eq_false.mp h l hl
    simp only [hs, Bool.true_and, Bool.or_eq_true, Bool.and_eq_true, decide_eq_true_eq, not_or] at this
    exact this

theorem addSupLink_srcHeight {ls : List SupLink} {src h : Nat} {s : Sig} {l' : SupLink}
    (hm : l' ∈ addSupLink ls src h s) :
    l' ∈ ls ∨ (l'.src = src ∧ (l'.srcHeight = h ∨ ∃ l0 ∈ ls, l0.src = src ∧ l0.srcHeight = l'.srcHeight)) := by
  induction ls with
  | nil =>
    simp only [addSupLink, List.mem_singleton] at hm
    subst hm; exact Or.inr ⟨rfl, Or.inl rfl⟩
  | cons a ls ih =>
    unfold addSupLink at hm
    by_cases ha : a.src = src
    · simp only [ha, beq_self_eq_true, if_true, List.mem_cons] at hm
      rcases hm with rfl | hm
      · exact Or.inr ⟨rfl, Or.inr ⟨a, List.mem_cons_self, ha, rfl⟩⟩
      · exact Or.inl (List.mem_cons_of_mem _ hm)
    · have hb : (a.src == src) = false := by simpa using ha
      simp only [hb, Bool.false_eq_true, if_false, List.mem_cons] at hm
      rcases hm with rfl | hm
      · exact Or.inl List.mem_cons_self
      · rcases ih hm with h1 | ⟨h1, h2⟩
        · exact Or.inl (List.mem_cons_of_mem _ h1)
        · refine Or.inr ⟨h1, ?_⟩
          rcases h2 with h2 | ⟨l0, hl0, h3⟩
          · exact Or.inl h2
          · exact Or.inr ⟨l0, List.mem_cons_of_mem _ hl0, h3⟩

theorem hasSlot_iff {l : SupLink} {o : Nat} : hasSlot l o = true ↔ ∃ sg ∈ l.sigs, sg.slot = o := by
  unfold hasSlot
  simp [List.any_eq_true]

/-- a vote of the tree after the signature was added is an old vote or the new one -/
theorem hasVote_addSig {U : Universe} {t : Tree} {tgt o src srcH : Nat} {tn : Tree}
    (hf : t.find (byHash tgt) = some tn)
    (hlink : ∀ c ∈ t.flatten, ∀ l ∈ c.sup, l.srcHeight = U.height l.src) (hsrc : srcH = U.height src)
    {o' a b : Nat}
    (hv : HasVote (t.update (byHash tgt) (fun c => { c with sup := addSupLink c.sup src srcH { slot := o, valid := true } })) o' a b) :
    HasVote t o' a b ∨ (o' = o ∧ a = srcH ∧ b = tn.ckpt.height) := by
  obtain ⟨c, hc, hcb, l, hl, hla, hs⟩ := hv
  rcases Tree.mem_update hc with hc | ⟨r, hr, rfl⟩
  · exact Or.inl ⟨c, hc, hcb, l, hl, hla, hs⟩
  · have : r = tn := Option.some.inj (hr.symm.trans hf)
    subst this
    have hrm := Tree.find_mem hr
    simp only at hl hcb
    rcases mem_addSupLink hl with hl0 | ⟨hls, hsigs⟩
    · exact Or.inl ⟨r.ckpt, hrm, hcb, l, hl0, hla, hs⟩
    · obtain ⟨sg, hsg, hso⟩ := hasSlot_iff.mp hs
      rcases hsigs sg hsg with rfl | ⟨l0, hl0, hl0s, hl0h, hsg0⟩
      · right
        refine ⟨hso.symm, ?_, hcb.symm⟩
        rcases addSupLink_srcHeight hl with h1 | ⟨_, h2 | ⟨l1, hl1, hl1s, hl1h⟩⟩
        · rw [← hla, hlink _ hrm l h1, hls, hsrc]
        · rw [← hla, h2]
        · rw [← hla, ← hl1h, hlink _ hrm l1 hl1, hl1s, hsrc]
      · left
        exact ⟨r.ckpt, hrm, hcb, l0, hl0, by rw [hl0h, hla], hasSlot_iff.mpr ⟨sg, hsg0, hso⟩⟩

theorem Micro.preserves_Inv18 {U : Universe} {Vp : Nat → Nat → Nat → Prop} {s s' : State}
    (hi : Inv18 U s) (m : Micro U Vp s s') : Inv18 U s' := by
  obtain ⟨hb, hlink, hns⟩ := hi
  refine ⟨Micro.preserves_Base hb m, ?_⟩
  have hst := hb.2.2.1
  -- a step that only drops nodes / changes statuses / adds sup-less nodes keeps both parts
  have keep : (∀ x ∈ s'.tree.flatten, x.sup = [] ∨ ∃ y ∈ s.tree.flatten, y.height = x.height ∧ y.sup = x.sup) →
      (∀ c ∈ s'.tree.flatten, ∀ l ∈ c.sup, l.srcHeight = U.height l.src) ∧ NoSurround s'.tree := by
    intro h
    have hv : ∀ o a b, HasVote s'.tree o a b → HasVote s.tree o a b := by
      intro o a b ⟨c, hc, hcb, l, hl, hla, hs⟩
      rcases h c hc with h0 | ⟨y, hy, hyh, hys⟩
      · rw [h0] at hl; cases hl
      · exact ⟨y, hy, hyh.trans hcb, l, hys ▸ hl, hla, hs⟩
    refine ⟨?_, fun o a b c d h1 h2 => hns o a b c d (hv _ _ _ h1) (hv _ _ _ h2)⟩
    intro c hc l hl
    rcases h c hc with h0 | ⟨y, hy, _, hys⟩
    · rw [h0] at hl; cases hl
    · exact hlink y hy l (hys ▸ hl)
  cases m with
  | frame e => rw [e.2.1]; exact ⟨hlink, hns⟩
  | grow b hbU hm =>
    apply keep
    intro x hx
    rcases Tree.mem_update hx with hx | ⟨r, hr, rfl⟩
    · exact Or.inr ⟨x, hx, rfl, rfl⟩
    · obtain ⟨hg, _⟩ := hb.grow_target hbU hm hr
      left; simp [increase, (hst _ (Tree.find_mem hr)).2 hg]
  | child b pn hbU hm hf =>
    apply keep
    intro x hx
    rcases Tree.mem_addChild _ _ _ _ hx with hx | rfl
    · exact Or.inr ⟨x, hx, rfl, rfl⟩
    · left; simp [increase, newCkpt]
  | addSig tgt o src srcH tn shd hshd hshh hf ho h1 h2 h3 hsp hv =>
    have hsrc : srcH = U.height src := by
      have hm := lookupHeader_mem hshd
      rw [← hshh, hb.2.2.2.1 shd hm.1, hm.2]
    constructor
    · intro c hc l hl
      rcases Tree.mem_update hc with hc | ⟨r, hr, rfl⟩
      · exact hlink c hc l hl
      · have hrm := Tree.find_mem hr
        rcases addSupLink_srcHeight hl with h | ⟨hls, h | ⟨l0, hl0, hl0s, hl0h⟩⟩
        · exact hlink _ hrm l h
        · rw [h, hls, hsrc]
        · rw [← hl0h, hlink _ hrm l0 hl0, hl0s, hls]
    · intro o' a b c d hv1 hv2
      have hspan := spanOK_iff.mp hsp
      -- an old vote of validator `o` against the new vote (srcH → height of the target)
      have old_vs_new : ∀ a b, HasVote s.tree o a b →
          ¬ (srcH < a ∧ b < tn.ckpt.height) ∧ ¬ (a < srcH ∧ tn.ckpt.height < b) := by
        intro a b ⟨y, hy, hyb, l, hl, hla, hs⟩
        have := spanBad_false (hspan y hy) l hl hs
        rw [hyb, hla] at this
        exact ⟨fun h => this.1 ⟨h.2, h.1⟩, fun h => this.2 ⟨h.2, h.1⟩⟩
      rcases hasVote_addSig hf hlink hsrc hv1 with h1' | ⟨e1, e2, e3⟩
      · rcases hasVote_addSig hf hlink hsrc hv2 with h2' | ⟨f1, f2, f3⟩
        · exact hns o' a b c d h1' h2'
        · subst f1 f2 f3
          exact (old_vs_new a b h1').2
      · rcases hasVote_addSig hf hlink hsrc hv2 with h2' | ⟨f1, f2, f3⟩
        · subst e1 e2 e3
          exact (old_vs_new c d h2').1
        · subst e2 e3 f2 f3
          intro h; omega
  | justify tgt src tn source hd hf _ _ _ _ _ _ _ =>
    apply keep
    intro x hx
    rcases Tree.mem_update hx with hx | ⟨r, hr, rfl⟩
    · exact Or.inr ⟨x, hx, rfl, rfl⟩
    · exact Or.inr ⟨r.ckpt, Tree.find_mem hr, rfl, rfl⟩
  | reroot tgt tn source hd c cs _ _ _ _ _ _ _ _ _ hf =>
    apply keep
    have hsub := Tree.find_sub _ _ _ hf
    intro x hx
    simp only [Tree.flatten, List.mem_cons] at hx
    rcases hx with rfl | hx
    · exact Or.inr ⟨c, hsub c (by simp [Tree.flatten]), rfl, rfl⟩
    · exact Or.inr ⟨x, hsub x (by simp [Tree.flatten, hx]), rfl, rfl⟩
  | saveTarget _ _ _ => exact ⟨hlink, hns⟩
  | saveSource _ _ => exact ⟨hlink, hns⟩
  | storeHeader _ _ => exact ⟨hlink, hns⟩
  | voteHeader _ _ _ _ _ _ _ => exact ⟨hlink, hns⟩
  | post _ _ => exact ⟨hlink, hns⟩

theorem Inv18_init (U : Universe) (cfg : Config) (genesis : Header) (he : 2 ≤ cfg.epoch)
    (hg : genesis.id = U.g) (h0 : genesis.height = 0) : Inv18 U (State.init cfg genesis) := by
  refine ⟨Base_init U cfg genesis he hg h0, ?_, ?_⟩
  · intro c hc
    simp only [State.init, Tree.flatten, Tree.flattenList, List.mem_cons, List.not_mem_nil, or_false] at hc
    subst hc; intro l hl; simp at hl
  · intro o a b c d ⟨x, hx, _, l, hl, _⟩
    simp only [State.init, Tree.flatten, Tree.flattenList, List.mem_cons, List.not_mem_nil, or_false] at hx
    subst hx; simp at hl

end BytomModel.Node
