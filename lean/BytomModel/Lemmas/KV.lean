/-
Helper lemmas for M-KV: the byte order is a total order; insertion sort yields THE strictly
ascending list of a duplicate-free key set; strictly ascending lists are determined by their
members.
-/
import BytomModel.Model.KV

namespace BytomModel.Lemmas.KV
open BytomModel.KV

/-! ### `ble` is a total order -/

@[simp] theorem ble_nil_left (b : Bytes) : ble [] b = true := by cases b <;> rfl

@[simp] theorem ble_cons_nil (a : UInt8) (as : Bytes) : ble (a :: as) [] = false := rfl

theorem ble_cons_cons (a b : UInt8) (as bs : Bytes) :
    ble (a :: as) (b :: bs) =
      if a.toNat < b.toNat then true else if a.toNat = b.toNat then ble as bs else false := rfl

theorem ble_refl : ∀ a : Bytes, ble a a = true
  | [] => rfl
  | a :: as => by rw [ble_cons_cons]; simp [ble_refl as]

theorem ble_total : ∀ a b : Bytes, ble a b = true ∨ ble b a = true
  | [], _ => Or.inl (ble_nil_left _)
  | _ :: _, [] => Or.inr (ble_nil_left _)
  | a :: as, b :: bs => by
    rw [ble_cons_cons, ble_cons_cons]
    rcases Nat.lt_trichotomy a.toNat b.toNat with h | h | h
    · left; simp [h]
    · have := ble_total as bs
      simp [h]; exact this
    · right; simp [h]

theorem ble_antisymm : ∀ a b : Bytes, ble a b = true → ble b a = true → a = b
  | [], [], _, _ => rfl
  | [], _ :: _, _, h => by simp at h
  | _ :: _, [], h, _ => by simp at h
  | a :: as, b :: bs, h1, h2 => by
    rw [ble_cons_cons] at h1 h2
    rcases Nat.lt_trichotomy a.toNat b.toNat with h | h | h
    · have : ¬ b.toNat < a.toNat := by omega
      have h' : ¬ b.toNat = a.toNat := by omega
      simp [this, h'] at h2
    · have e : a = b := UInt8.toNat_inj.mp h
      subst e
      simp at h1 h2
      rw [ble_antisymm as bs h1 h2]
    · have : ¬ a.toNat < b.toNat := by omega
      have h' : ¬ a.toNat = b.toNat := by omega
      simp [this, h'] at h1

theorem ble_trans : ∀ a b c : Bytes, ble a b = true → ble b c = true → ble a c = true
  | [], _, _, _, _ => ble_nil_left _
  | _ :: _, [], _, h, _ => by simp at h
  | _ :: _, _ :: _, [], _, h => by simp at h
  | a :: as, b :: bs, c :: cs, h1, h2 => by
    rw [ble_cons_cons] at h1 h2 ⊢
    by_cases ab : a.toNat < b.toNat
    · by_cases bc : b.toNat < c.toNat
      · have : a.toNat < c.toNat := by omega
        simp [this]
      · by_cases bc' : b.toNat = c.toNat
        · have : a.toNat < c.toNat := by omega
          simp [this]
        · simp [bc, bc'] at h2
    · by_cases ab' : a.toNat = b.toNat
      · simp [ab'] at h1
        by_cases bc : b.toNat < c.toNat
        · have : a.toNat < c.toNat := by omega
          simp [this]
        · by_cases bc' : b.toNat = c.toNat
          · simp [bc'] at h2
            have n1 : ¬ a.toNat < c.toNat := by omega
            have n2 : a.toNat = c.toNat := by omega
            simp [n2]
            exact ble_trans as bs cs h1 h2
          · simp [bc, bc'] at h2
      · simp [ab, ab'] at h1

theorem blt_iff (a b : Bytes) : blt a b = true ↔ ble a b = true ∧ a ≠ b := by
  unfold blt
  constructor
  · intro h
    have hba : ble b a = false := by simpa using h
    refine ⟨?_, ?_⟩
    · rcases ble_total a b with t | t
      · exact t
      · rw [hba] at t; cases t
    · intro e; subst e; rw [ble_refl] at hba; cases hba
  · rintro ⟨h, ne⟩
    cases hba : ble b a with
    | false => rfl
    | true => exact absurd (ble_antisymm a b h hba) ne

theorem blt_irrefl (a : Bytes) : blt a a = false := by simp [blt, ble_refl]

theorem blt_false_iff (a b : Bytes) : blt a b = false ↔ ble b a = true := by
  unfold blt; cases ble b a <;> simp

theorem blt_trans (a b c : Bytes) (h1 : blt a b = true) (h2 : blt b c = true) : blt a c = true := by
  rw [blt_iff] at *
  refine ⟨ble_trans _ _ _ h1.1 h2.1, ?_⟩
  intro e; subst e
  exact h1.2 (ble_antisymm _ _ h1.1 h2.1)

theorem blt_of_blt_of_ble (a b c : Bytes) (h1 : blt a b = true) (h2 : ble b c = true) : blt a c = true := by
  rw [blt_iff] at *
  refine ⟨ble_trans _ _ _ h1.1 h2, ?_⟩
  intro e; subst e
  exact h1.2 (ble_antisymm _ _ h1.1 h2)

theorem blt_of_ble_of_blt (a b c : Bytes) (h1 : ble a b = true) (h2 : blt b c = true) : blt a c = true := by
  rw [blt_iff] at *
  refine ⟨ble_trans _ _ _ h1 h2.1, ?_⟩
  intro e; subst e
  exact h2.2 (ble_antisymm _ _ h2.1 h1)

/-! ### strictly ascending key lists -/

/-- strictly ascending -/
def Asc (l : List Bytes) : Prop := l.Pairwise (fun a b => blt a b = true)

/-- strictly ascending lists with the same members are equal -/
theorem asc_ext : ∀ (l₁ l₂ : List Bytes), Asc l₁ → Asc l₂ → (∀ x, x ∈ l₁ ↔ x ∈ l₂) → l₁ = l₂
  | [], [], _, _, _ => rfl
  | [], y :: _, _, _, h => by have := (h y).mpr (by simp); simp at this
  | x :: _, [], _, _, h => by have := (h x).mp (by simp); simp at this
  | x :: xs, y :: ys, h1, h2, h => by
    unfold Asc at h1 h2
    rw [List.pairwise_cons] at h1 h2
    have hxy : x = y := by
      have hx : x ∈ y :: ys := (h x).mp (by simp)
      have hy : y ∈ x :: xs := (h y).mpr (by simp)
      rcases List.mem_cons.mp hx with e | hx'
      · exact e
      · rcases List.mem_cons.mp hy with e | hy'
        · exact e.symm
        · have a := h2.1 x hx'
          have b := h1.1 y hy'
          have := blt_trans _ _ _ a b
          rw [blt_irrefl] at this; cases this
    subst hxy
    congr 1
    apply asc_ext xs ys h1.2 h2.2
    intro z
    constructor
    · intro hz
      have : z ∈ x :: ys := (h z).mp (List.mem_cons_of_mem _ hz)
      rcases List.mem_cons.mp this with e | r
      · subst e; have := h1.1 z hz; rw [blt_irrefl] at this; cases this
      · exact r
    · intro hz
      have : z ∈ x :: xs := (h z).mpr (List.mem_cons_of_mem _ hz)
      rcases List.mem_cons.mp this with e | r
      · subst e; have := h2.1 z hz; rw [blt_irrefl] at this; cases this
      · exact r

/-! ### insertion sort -/

theorem mem_insertKey (k x : Bytes) : ∀ l : List Bytes, x ∈ insertKey k l ↔ x = k ∨ x ∈ l
  | [] => by simp [insertKey]
  | y :: ys => by
    unfold insertKey
    split
    · simp
    · simp [mem_insertKey k x ys]
      constructor
      · rintro (h | h | h) <;> simp [h]
      · rintro (h | h | h) <;> simp [h]

theorem mem_sortKeys (x : Bytes) : ∀ l : List Bytes, x ∈ sortKeys l ↔ x ∈ l
  | [] => by simp [sortKeys]
  | k :: ks => by simp [sortKeys, mem_insertKey, mem_sortKeys x ks]

/-- inserting a key that is not yet present keeps the list strictly ascending -/
theorem insertKey_asc (k : Bytes) : ∀ l : List Bytes, Asc l → k ∉ l → Asc (insertKey k l)
  | [], _, _ => by simp [insertKey, Asc]
  | y :: ys, h, hk => by
    unfold Asc at h
    have h' := List.pairwise_cons.mp h
    unfold insertKey
    split
    · rename_i hle
      have hlt : blt k y = true := (blt_iff k y).mpr ⟨hle, fun e => hk (by simp [e])⟩
      unfold Asc
      refine List.pairwise_cons.mpr ⟨?_, h⟩
      intro z hz
      rcases List.mem_cons.mp hz with e | hz'
      · rw [e]; exact hlt
      · exact blt_trans _ _ _ hlt (h'.1 z hz')
    · rename_i hle
      have hyk : blt y k = true := by
        unfold blt; simpa using hle
      have ih := insertKey_asc k ys h'.2 (fun m => hk (List.mem_cons_of_mem _ m))
      unfold Asc
      refine List.pairwise_cons.mpr ⟨?_, ih⟩
      intro z hz
      rcases (mem_insertKey k z ys).mp hz with e | hz'
      · rw [e]; exact hyk
      · exact h'.1 z hz'

theorem sortKeys_asc : ∀ l : List Bytes, l.Nodup → Asc (sortKeys l)
  | [], _ => by simp [sortKeys, Asc]
  | k :: ks, h => by
    have h' := List.nodup_cons.mp h
    unfold sortKeys
    exact insertKey_asc k _ (sortKeys_asc ks h'.2) (fun m => h'.1 ((mem_sortKeys k ks).mp m))

/-- `sort.Strings` of a duplicate-free key set is THE ascending list with these members -/
theorem sortKeys_eq (l l' : List Bytes) (hl : l.Nodup) (hl' : Asc l') (h : ∀ x, x ∈ l ↔ x ∈ l') :
    sortKeys l = l' :=
  asc_ext _ _ (sortKeys_asc l hl) hl' (fun x => (mem_sortKeys x l).trans (h x))

theorem nodup_filter {α : Type} (p : α → Bool) (l : List α) (h : l.Nodup) : (l.filter p).Nodup :=
  List.Pairwise.filter p h

end BytomModel.Lemmas.KV
