/-
Helper lemmas about Model/Asm (C09).
-/
import BytomModel.Model.Asm

namespace BytomModel.Lemmas.Asm
open BytomModel.Asm BytomModel.Gen BytomModel.Fixed

/-- the regenerated `checked.AddUint32`, on uint32 operands, is exact addition with an
    overflow flag -/
theorem addU32_eq (a b : Nat) (ha : a < 4294967296) :
    addU32 a b = if a + b < 4294967296 then some (a + b) else none := by
  unfold addU32 Checked.AddUint32 wrapU
  simp only [Int.ofNat_eq_natCast]
  split <;> rename_i h
  · split <;> rename_i h2
    · simp at h2
    · have : ¬ (a + b < 4294967296) := by omega
      simp [this]
  · split <;> rename_i h2
    · have : a + b < 4294967296 := by omega
      simp only [this, if_true]
      congr 1
      omega
    · simp at h2

/-! ### ParseOp as a decoder of the program suffix

`specOp pc s` reads one instruction off the head of `s = prog[pc:]`.  It depends on `pc` only
to tell `ErrOverflow` from `ErrShortProgram` in the PUSHDATA4 branch. -/

def specData (op : UInt8) (hdr n : Nat) (r : Bytes) : Except PErr Inst :=
  if n ≤ r.length then .ok ⟨op, n + hdr, r.take n⟩ else .error .short

def specOp (pc : Nat) : Bytes → Except PErr Inst
  | [] => .error .short
  | op :: rest =>
    let o := op.toNat
    if Ops.OP_1 ≤ o ∧ o ≤ Ops.OP_16 then .ok ⟨op, 1, [byte (o - 80)]⟩
    else if Ops.OP_DATA_1 ≤ o ∧ o ≤ Ops.OP_DATA_75 then specData op 1 o rest
    else if o = Ops.OP_PUSHDATA1 then
      match rest with
      | n :: r => specData op 2 n.toNat r
      | [] => .error .short
    else if o = Ops.OP_PUSHDATA2 then
      match rest with
      | a :: b :: r => specData op 3 (le16 a b) r
      | _ => .error .short
    else if o = Ops.OP_PUSHDATA4 then
      match rest with
      | a :: b :: c :: d :: r =>
        if 4294967296 ≤ pc + 5 + le32 a b c d then .error .overflow
        else specData op 5 (le32 a b c d) r
      | _ => .error .short
    else if o = Ops.OP_JUMP ∨ o = Ops.OP_JUMPIF then specData op 1 4 rest
    else .ok ⟨op, 1, []⟩

theorem u32_id {n : Nat} (h : n < 4294967296) : u32 n = n := Nat.mod_eq_of_lt h

theorem le16_lt (a b : UInt8) : le16 a b < 65536 := by
  unfold le16; have := a.toNat_lt; have := b.toNat_lt; omega

theorem le32_lt (a b c d : UInt8) : le32 a b c d < 4294967296 := by
  unfold le32; have := a.toNat_lt; have := b.toNat_lt; have := c.toNat_lt; have := d.toNat_lt; omega

/-- `finishData` on a program `pre ++ hd ++ r` whose data starts right after the `k` header
    bytes `hd` -/
theorem finishData_eq (pre hd r : Bytes) (op : UInt8) (n k : Nat)
    (hk : hd.length = k) (hn : n < 4294967296) (hlen : (pre ++ hd ++ r).length ≤ maxInt32) :
    finishData (pre ++ hd ++ r) (pre ++ hd ++ r).length pre.length op (n + k) (pre.length + k)
      = if 4294967296 ≤ pre.length + (n + k) then .error .overflow else specData op k n r := by
  unfold finishData
  have hpre : pre.length < 4294967296 := by
    simp only [List.length_append, maxInt32] at hlen; omega
  rw [addU32_eq _ _ hpre]
  by_cases hov : 4294967296 ≤ pre.length + (n + k)
  · have : ¬ (pre.length + (n + k) < 4294967296) := by omega
    simp only [this, if_false, hov, if_true]
  · have : pre.length + (n + k) < 4294967296 := by omega
    simp only [this, if_true, hov, if_false]
    unfold specData slice?
    simp only [List.length_append, hk]
    by_cases hfit : n ≤ r.length
    · have h1 : ¬ (pre.length + (n + k) > pre.length + k + r.length) := by omega
      have h2 : pre.length + k ≤ pre.length + (n + k) ∧ pre.length + (n + k) ≤ pre.length + k + r.length := by omega
      simp only [h1, if_false, h2, and_self, if_true, hfit]
      have hd' : List.drop (pre.length + k) (pre ++ hd ++ r) = r := by
        have : pre.length + k = (pre ++ hd).length := by simp [hk]
        rw [this, List.drop_left]
      rw [hd']
      have : pre.length + (n + k) - (pre.length + k) = n := by omega
      rw [this]
    · have h1 : pre.length + (n + k) > pre.length + k + r.length := by omega
      simp only [h1, if_true, hfit, if_false]


theorem getElem?_pre (pre s : Bytes) (k : Nat) : (pre ++ s)[pre.length + k]? = s[k]? := by
  rw [List.getElem?_append_right (by omega)]
  congr 1; omega

/-- `ParseOp(prog, pc)` is the suffix decoder on `prog[pc:]` (programs within the int32 bound) -/
theorem parseOp_eq (pre s : Bytes) (hlen : (pre ++ s).length ≤ maxInt32) (hs : s ≠ []) :
    parseOp (pre ++ s) pre.length = specOp pre.length s := by
  cases s with
  | nil => exact absurd rfl hs
  | cons op rest =>
  have hlen' := hlen
  simp only [List.length_append, List.length_cons, maxInt32] at hlen'
  have hl : u32 (pre ++ op :: rest).length = (pre ++ op :: rest).length := by
    apply u32_id; simp only [List.length_append, List.length_cons]; omega
  have hu : ∀ k, k ≤ 5 → u32 (pre.length + k) = pre.length + k := fun k hk => u32_id (by omega)
  have h0 : (pre ++ op :: rest)[pre.length]? = some op := by
    have := getElem?_pre pre (op :: rest) 0; simpa using this
  unfold parseOp specOp
  simp only [hl]
  have c1 : ¬ ((pre ++ op :: rest).length > maxInt32) := by omega
  have c2 : ¬ (pre.length ≥ (pre ++ op :: rest).length) := by
    simp only [List.length_append, List.length_cons]; omega
  simp only [c1, c2, if_false, h0]
  have ho := op.toNat_lt
  by_cases b1 : Ops.OP_1 ≤ op.toNat ∧ op.toNat ≤ Ops.OP_16
  · simp only [b1, and_self, if_true]
    simp only [Ops.OP_1, Ops.OP_16] at b1
    have : u8 (u8 (op.toNat + 256 - Ops.OP_1) + 1) = op.toNat - 80 := by
      simp only [u8, Ops.OP_1]; omega
    rw [this]
  simp only [b1, if_false]
  by_cases b2 : Ops.OP_DATA_1 ≤ op.toNat ∧ op.toNat ≤ Ops.OP_DATA_75
  · simp only [b2, and_self, if_true]
    simp only [Ops.OP_DATA_1, Ops.OP_DATA_75] at b2
    have e1 : u32 (1 + u8 (u8 (op.toNat + 256 - Ops.OP_DATA_1) + 1)) = op.toNat + 1 := by
      simp only [u8, u32, Ops.OP_DATA_1]; omega
    rw [e1, hu 1 (by omega)]
    have := finishData_eq pre [op] rest op op.toNat 1 rfl (by omega) (by simpa using hlen)
    simp only [List.append_assoc, List.singleton_append] at this
    rw [this]
    have : ¬ (4294967296 ≤ pre.length + (op.toNat + 1)) := by omega
    simp only [this, if_false]
  simp only [b2, if_false]
  by_cases b3 : op.toNat = Ops.OP_PUSHDATA1
  · simp only [b3, if_true]
    cases rest with
    | nil =>
      have hL := hlen; simp only [List.length_append, List.length_cons, List.length_nil, maxInt32] at hL
      have : pre.length = u32 ((pre ++ [op]).length + 4294967295) := by
        simp only [u32, List.length_append, List.length_cons, List.length_nil]; omega
      simp only [← this, if_true]
    | cons n r =>
      have hL := hlen; simp only [List.length_append, List.length_cons, List.length_nil, maxInt32] at hL
      have : ¬ (pre.length = u32 ((pre ++ op :: n :: r).length + 4294967295)) := by
        simp only [u32, List.length_append, List.length_cons]; omega
      simp only [this, if_false, hu 1 (by omega), hu 2 (by omega)]
      have h1 : (pre ++ op :: n :: r)[pre.length + 1]? = some n := by
        have := getElem?_pre pre (op :: n :: r) 1; simpa using this
      simp only [h1]
      have hn := n.toNat_lt
      have e1 : u32 (1 + u32 (n.toNat + 1)) = n.toNat + 2 := by simp only [u32]; omega
      rw [e1]
      have := finishData_eq pre [op, n] r op n.toNat 2 rfl (by omega) (by simpa using hlen)
      simp only [List.append_assoc, List.cons_append, List.nil_append] at this
      rw [this]
      have : ¬ (4294967296 ≤ pre.length + (n.toNat + 2)) := by
        simp only [List.length_cons] at hlen'; omega
      simp only [this, if_false]
  simp only [b3, if_false]
  by_cases b4 : op.toNat = Ops.OP_PUSHDATA2
  · simp only [b4, if_true]
    match rest with
    | [] =>
      have hL := hlen; simp only [List.length_append, List.length_cons, List.length_nil, maxInt32] at hL
      have : (pre ++ [op]).length < 3 ∨ pre.length > u32 ((pre ++ [op]).length + 4294967293) := by
        simp only [u32, List.length_append, List.length_cons, List.length_nil]; omega
      simp only [this, if_true]
    | [a] =>
      have hL := hlen; simp only [List.length_append, List.length_cons, List.length_nil, maxInt32] at hL
      have : (pre ++ [op, a]).length < 3 ∨ pre.length > u32 ((pre ++ [op, a]).length + 4294967293) := by
        simp only [u32, List.length_append, List.length_cons, List.length_nil]; omega
      simp only [this, if_true]
    | a :: b :: r =>
      have hL := hlen; simp only [List.length_append, List.length_cons, List.length_nil, maxInt32] at hL
      have : ¬ ((pre ++ op :: a :: b :: r).length < 3 ∨ pre.length > u32 ((pre ++ op :: a :: b :: r).length + 4294967293)) := by
        simp only [u32, List.length_append, List.length_cons]; omega
      simp only [this, if_false, hu 1 (by omega), hu 2 (by omega), hu 3 (by omega)]
      have h1 : (pre ++ op :: a :: b :: r)[pre.length + 1]? = some a := by
        have := getElem?_pre pre (op :: a :: b :: r) 1; simpa using this
      have h2 : (pre ++ op :: a :: b :: r)[pre.length + 2]? = some b := by
        have := getElem?_pre pre (op :: a :: b :: r) 2; simpa using this
      simp only [h1, h2]
      have hn := le16_lt a b
      have e1 : u32 (1 + u32 (le16 a b + 2)) = le16 a b + 3 := by simp only [u32]; omega
      rw [e1]
      have := finishData_eq pre [op, a, b] r op (le16 a b) 3 rfl (by omega) (by simpa using hlen)
      simp only [List.append_assoc, List.cons_append, List.nil_append] at this
      rw [this]
      have : ¬ (4294967296 ≤ pre.length + (le16 a b + 3)) := by
        simp only [List.length_cons] at hlen'; omega
      simp only [this, if_false]
  simp only [b4, if_false]
  by_cases b5 : op.toNat = Ops.OP_PUSHDATA4
  · simp only [b5, if_true]
    match rest with
    | [] =>
      have hL := hlen; simp only [List.length_append, List.length_cons, List.length_nil, maxInt32] at hL
      have : (pre ++ [op]).length < 5 ∨ pre.length > u32 ((pre ++ [op]).length + 4294967291) := by
        simp only [u32, List.length_append, List.length_cons, List.length_nil]; omega
      simp only [this, if_true]
    | [a] =>
      have hL := hlen; simp only [List.length_append, List.length_cons, List.length_nil, maxInt32] at hL
      have : (pre ++ [op, a]).length < 5 ∨ pre.length > u32 ((pre ++ [op, a]).length + 4294967291) := by
        simp only [u32, List.length_append, List.length_cons, List.length_nil]; omega
      simp only [this, if_true]
    | [a, b] =>
      have hL := hlen; simp only [List.length_append, List.length_cons, List.length_nil, maxInt32] at hL
      have : (pre ++ [op, a, b]).length < 5 ∨ pre.length > u32 ((pre ++ [op, a, b]).length + 4294967291) := by
        simp only [u32, List.length_append, List.length_cons, List.length_nil]; omega
      simp only [this, if_true]
    | [a, b, c] =>
      have hL := hlen; simp only [List.length_append, List.length_cons, List.length_nil, maxInt32] at hL
      have : (pre ++ [op, a, b, c]).length < 5 ∨ pre.length > u32 ((pre ++ [op, a, b, c]).length + 4294967291) := by
        simp only [u32, List.length_append, List.length_cons, List.length_nil]; omega
      simp only [this, if_true]
    | a :: b :: c :: d :: r =>
      have hL := hlen; simp only [List.length_append, List.length_cons, List.length_nil, maxInt32] at hL
      have : ¬ ((pre ++ op :: a :: b :: c :: d :: r).length < 5 ∨ pre.length > u32 ((pre ++ op :: a :: b :: c :: d :: r).length + 4294967291)) := by
        simp only [u32, List.length_append, List.length_cons]; omega
      simp only [this, if_false, hu 1 (by omega), hu 2 (by omega), hu 3 (by omega), hu 4 (by omega), hu 5 (by omega)]
      have h1 : (pre ++ op :: a :: b :: c :: d :: r)[pre.length + 1]? = some a := by
        have := getElem?_pre pre (op :: a :: b :: c :: d :: r) 1; simpa using this
      have h2 : (pre ++ op :: a :: b :: c :: d :: r)[pre.length + 2]? = some b := by
        have := getElem?_pre pre (op :: a :: b :: c :: d :: r) 2; simpa using this
      have h3 : (pre ++ op :: a :: b :: c :: d :: r)[pre.length + 3]? = some c := by
        have := getElem?_pre pre (op :: a :: b :: c :: d :: r) 3; simpa using this
      have h4 : (pre ++ op :: a :: b :: c :: d :: r)[pre.length + 4]? = some d := by
        have := getElem?_pre pre (op :: a :: b :: c :: d :: r) 4; simpa using this
      simp only [h1, h2, h3, h4]
      have hn := le32_lt a b c d
      rw [addU32_eq 5 _ (by omega)]
      by_cases hov : 5 + le32 a b c d < 4294967296
      · simp only [hov, if_true]
        have := finishData_eq pre [op, a, b, c, d] r op (le32 a b c d) 5 rfl hn (by simpa using hlen)
        simp only [List.append_assoc, List.cons_append, List.nil_append] at this
        rw [Nat.add_comm 5 (le32 a b c d), this]
        have e : pre.length + (le32 a b c d + 5) = pre.length + 5 + le32 a b c d := by omega
        rw [e]
      · have : 4294967296 ≤ pre.length + 5 + le32 a b c d := by omega
        simp only [hov, if_false, this, if_true]
  simp only [b5, if_false]
  by_cases b6 : op.toNat = Ops.OP_JUMP ∨ op.toNat = Ops.OP_JUMPIF
  · simp only [b6, if_true, hu 1 (by omega)]
    have := finishData_eq pre [op] rest op 4 1 rfl (by omega) (by simpa using hlen)
    simp only [List.append_assoc, List.singleton_append] at this
    rw [this]
    have : ¬ (4294967296 ≤ pre.length + (4 + 1)) := by omega
    simp only [this, if_false]
  simp only [b6, if_false]


/-! ### what a successfully decoded instruction says about the bytes it was read from -/

def hdrLen (op : UInt8) : Nat :=
  if op.toNat = Ops.OP_PUSHDATA1 then 2
  else if op.toNat = Ops.OP_PUSHDATA2 then 3
  else if op.toNat = Ops.OP_PUSHDATA4 then 5
  else 1

def IsSmallInt (op : UInt8) : Prop := Ops.OP_1 ≤ op.toNat ∧ op.toNat ≤ Ops.OP_16
instance (op : UInt8) : Decidable (IsSmallInt op) := by unfold IsSmallInt; infer_instance

/-- instruction `i` is encoded by exactly the bytes `bs`: `bs` has `i.Len ≥ 1` bytes, starts
    with the opcode, and `i.Data` is everything after the opcode's header bytes — except for
    OP_1..OP_16, whose one data byte is the number and is not in the program -/
structure Encodes (i : Inst) (bs : Bytes) : Prop where
  len_eq : bs.length = i.len
  pos : 1 ≤ i.len
  head : bs.head? = some i.op
  data : if IsSmallInt i.op then i.data = [byte (i.op.toNat - 80)] ∧ i.len = 1
         else i.data = bs.drop (hdrLen i.op) ∧ hdrLen i.op ≤ i.len

theorem specData_ok {op : UInt8} {hdr n : Nat} {r : Bytes} {i : Inst}
    (h : specData op hdr n r = .ok i) : n ≤ r.length ∧ i = ⟨op, n + hdr, r.take n⟩ := by
  unfold specData at h
  split at h
  · rename_i hn; injection h with h; exact ⟨hn, h.symm⟩
  · cases h

theorem specOp_ok {pc : Nat} {s : Bytes} {i : Inst} (h : specOp pc s = .ok i) :
    i.len ≤ s.length ∧ Encodes i (s.take i.len) := by
  cases s with
  | nil => simp [specOp] at h
  | cons op rest =>
  unfold specOp at h
  simp only [] at h
  have ho := op.toNat_lt
  by_cases b1 : Ops.OP_1 ≤ op.toNat ∧ op.toNat ≤ Ops.OP_16
  · simp only [b1, and_self, if_true] at h
    injection h with h; subst h
    refine ⟨by simp, ⟨by simp, by simp, by simp, ?_⟩⟩
    have : IsSmallInt op := b1
    simp only [this, if_true, and_self]
  simp only [b1, if_false] at h
  have ns : ¬ IsSmallInt op := b1
  by_cases b2 : Ops.OP_DATA_1 ≤ op.toNat ∧ op.toNat ≤ Ops.OP_DATA_75
  · simp only [b2, and_self, if_true] at h
    obtain ⟨hn, rfl⟩ := specData_ok h
    simp only [Ops.OP_DATA_1, Ops.OP_DATA_75] at b2
    have hh : hdrLen op = 1 := by
      simp only [hdrLen, Ops.OP_PUSHDATA1, Ops.OP_PUSHDATA2, Ops.OP_PUSHDATA4]
      have : ¬ op.toNat = 76 := by omega
      have : ¬ op.toNat = 77 := by omega
      have : ¬ op.toNat = 78 := by omega
      simp [*]
    refine ⟨by simp; omega, ⟨by simp; omega, by simp, by simp, ?_⟩⟩
    simp only [ns, if_false, hh]
    simp
  simp only [b2, if_false] at h
  by_cases b3 : op.toNat = Ops.OP_PUSHDATA1
  · simp only [b3, if_true] at h
    cases rest with
    | nil => simp at h
    | cons n r =>
      simp only [] at h
      obtain ⟨hn, rfl⟩ := specData_ok h
      have hh : hdrLen op = 2 := by simp [hdrLen, b3]
      refine ⟨by simp; omega, ⟨by simp; omega, by simp, by simp, ?_⟩⟩
      simp only [ns, if_false, hh]
      simp
  simp only [b3, if_false] at h
  by_cases b4 : op.toNat = Ops.OP_PUSHDATA2
  · simp only [b4, if_true] at h
    match rest, h with
    | [], h => simp at h
    | [_], h => simp at h
    | a :: b :: r, h =>
      simp only [] at h
      obtain ⟨hn, rfl⟩ := specData_ok h
      have hh : hdrLen op = 3 := by
        simp only [hdrLen, b4]; simp [Ops.OP_PUSHDATA1, Ops.OP_PUSHDATA2]
      refine ⟨by simp; omega, ⟨by simp; omega, by simp, by simp, ?_⟩⟩
      simp only [ns, if_false, hh]
      simp
  simp only [b4, if_false] at h
  by_cases b5 : op.toNat = Ops.OP_PUSHDATA4
  · simp only [b5, if_true] at h
    match rest, h with
    | [], h => simp at h
    | [_], h => simp at h
    | [_, _], h => simp at h
    | [_, _, _], h => simp at h
    | a :: b :: c :: d :: r, h =>
      simp only [] at h
      split at h
      · cases h
      obtain ⟨hn, rfl⟩ := specData_ok h
      have hh : hdrLen op = 5 := by
        simp only [hdrLen, b5]; simp [Ops.OP_PUSHDATA1, Ops.OP_PUSHDATA2, Ops.OP_PUSHDATA4]
      refine ⟨by simp; omega, ⟨by simp; omega, by simp, by simp, ?_⟩⟩
      simp only [ns, if_false, hh]
      simp
  simp only [b5, if_false] at h
  have hh : hdrLen op = 1 := by simp [hdrLen, b3, b4, b5]
  by_cases b6 : op.toNat = Ops.OP_JUMP ∨ op.toNat = Ops.OP_JUMPIF
  · simp only [b6, if_true] at h
    obtain ⟨hn, rfl⟩ := specData_ok h
    refine ⟨by simp; omega, ⟨by simp; omega, by simp, by simp, ?_⟩⟩
    simp only [ns, if_false, hh]
    simp
  simp only [b6, if_false] at h
  injection h with h; subst h
  refine ⟨by simp, ⟨by simp, by simp, by simp, ?_⟩⟩
  simp only [ns, if_false, hh]
  simp


/-! ### ParseProgram as iterated suffix decoding -/

def specProg : Nat → Nat → Bytes → Except PErr (List Inst)
  | 0, _, _ => .error .diverge
  | fuel + 1, pc, s =>
    match s with
    | [] => .ok []
    | b :: t =>
      match specOp pc (b :: t) with
      | .error e => .error e
      | .ok i =>
        match specProg fuel (pc + i.len) ((b :: t).drop i.len) with
        | .error e => .error e
        | .ok rest => .ok (i :: rest)

theorem parseLoop_eq (fuel : Nat) : ∀ (pre s : Bytes), (pre ++ s).length ≤ maxInt32 →
    parseLoop (pre ++ s) fuel pre.length = specProg fuel pre.length s := by
  induction fuel with
  | zero => intro pre s _; rfl
  | succ fuel ih =>
    intro pre s hlen
    have hlen' := hlen
    simp only [List.length_append, maxInt32] at hlen'
    have hl : u32 (pre ++ s).length = (pre ++ s).length := u32_id (by simp only [List.length_append]; omega)
    unfold parseLoop specProg
    cases s with
    | nil =>
      simp only [List.append_nil] at hl ⊢
      simp [hl]
    | cons b t =>
      have c : pre.length < u32 (pre ++ b :: t).length := by
        rw [hl]; simp
      simp only [c, if_true]
      rw [parseOp_eq pre (b :: t) hlen (by simp)]
      cases hsp : specOp pre.length (b :: t) with
      | error e => rfl
      | ok i =>
        simp only []
        obtain ⟨hle, henc⟩ := specOp_ok hsp
        rw [addU32_eq _ _ (by omega)]
        have : pre.length + i.len < 4294967296 := by omega
        simp only [this, if_true]
        have hsplit : pre ++ b :: t = (pre ++ (b :: t).take i.len) ++ (b :: t).drop i.len := by
          rw [List.append_assoc, List.take_append_drop]
        have hlen2 : (pre ++ (b :: t).take i.len).length = pre.length + i.len := by
          rw [List.length_append, List.length_take]; omega
        have := ih (pre ++ (b :: t).take i.len) ((b :: t).drop i.len) (by rw [← hsplit]; exact hlen)
        rw [← hsplit, hlen2] at this
        rw [this]
        rfl

/-- `ParseProgram` of a program within the int32 bound -/
theorem parseProgram_eq (p : Bytes) (hlen : p.length ≤ maxInt32) :
    parseProgram p = specProg (p.length + 1) 0 p := by
  have := parseLoop_eq (p.length + 1) [] p (by simpa using hlen)
  simpa [parseProgram] using this

/-- a program longer than int32 (but shorter than 2^32) is rejected -/
theorem parseProgram_long (p : Bytes) (h1 : maxInt32 < p.length) (h2 : p.length < 4294967296) :
    parseProgram p = .error .long := by
  unfold parseProgram parseLoop
  have hl : u32 p.length = p.length := u32_id h2
  have : 0 < u32 p.length := by rw [hl]; unfold maxInt32 at h1; omega
  simp only [this, if_true]
  unfold parseOp
  simp only [hl, h1, gt_iff_lt, if_true]

/-- `Tiling is p`: `p` is the concatenation of the encodings of the instructions `is` -/
inductive Tiling : List Inst → Bytes → Prop
  | nil : Tiling [] []
  | cons {i : Inst} {bs : Bytes} {is : List Inst} {rest : Bytes} :
      Encodes i bs → Tiling is rest → Tiling (i :: is) (bs ++ rest)

theorem Tiling.length_sum {is : List Inst} {p : Bytes} (h : Tiling is p) :
    (is.map (·.len)).sum = p.length := by
  induction h with
  | nil => rfl
  | cons he _ ih => simp [ih, he.len_eq]

/-- successful suffix decoding tiles the suffix -/
theorem specProg_tiles (fuel : Nat) : ∀ (pc : Nat) (s : Bytes) (is : List Inst),
    specProg fuel pc s = .ok is → Tiling is s := by
  induction fuel with
  | zero => intro pc s is h; simp [specProg] at h
  | succ fuel ih =>
    intro pc s is h
    unfold specProg at h
    cases s with
    | nil =>
      simp only [] at h
      injection h with h; subst h
      exact Tiling.nil
    | cons b t =>
      simp only [] at h
      cases hsp : specOp pc (b :: t) with
      | error e => rw [hsp] at h; cases h
      | ok i =>
        rw [hsp] at h
        simp only [] at h
        cases hrec : specProg fuel (pc + i.len) ((b :: t).drop i.len) with
        | error e => rw [hrec] at h; cases h
        | ok rest =>
          rw [hrec] at h
          injection h with h; subst h
          obtain ⟨_, henc⟩ := specOp_ok hsp
          have := Tiling.cons henc (ih _ _ _ hrec)
          rwa [List.take_append_drop] at this

/-- suffix decoding never panics -/
theorem specOp_total {pc : Nat} {s : Bytes} {e : PErr} (h : specOp pc s = .error e) :
    e ≠ .panic ∧ e ≠ .diverge := by
  cases s with
  | nil => simp [specOp] at h; subst h; simp
  | cons op rest =>
    unfold specOp specData at h
    simp only [] at h
    repeat' split at h
    all_goals first | (injection h with h; subst h; simp) | cases h

theorem specProg_total (fuel : Nat) : ∀ (pc : Nat) (s : Bytes) (e : PErr), s.length < fuel →
    specProg fuel pc s = .error e → e ≠ .panic ∧ e ≠ .diverge := by
  induction fuel with
  | zero => intro pc s e h; omega
  | succ fuel ih =>
    intro pc s e hf h
    unfold specProg at h
    cases s with
    | nil => simp at h
    | cons b t =>
      simp only [] at h
      cases hsp : specOp pc (b :: t) with
      | error e' =>
        rw [hsp] at h
        injection h with h; subst h
        exact specOp_total hsp
      | ok i =>
        rw [hsp] at h
        simp only [] at h
        obtain ⟨hle, henc⟩ := specOp_ok hsp
        have hpos := henc.pos
        cases hrec : specProg fuel (pc + i.len) ((b :: t).drop i.len) with
        | error e' =>
          rw [hrec] at h
          injection h with h; subst h
          exact ih _ _ _ (by rw [List.length_drop]; simp only [List.length_cons] at hf ⊢; omega) hrec
        | ok rest => rw [hrec] at h; cases h


/-! ### single-instruction programs, PushDataBytes -/

theorem byte_toNat {n : Nat} (h : n < 256) : (byte n).toNat = n := by
  unfold byte; rw [UInt8.toNat_ofNat']; omega

theorem specProg_single {fuel pc : Nat} {s : Bytes} {i : Inst}
    (h : specOp pc s = .ok i) (hl : i.len = s.length) : specProg (fuel + 2) pc s = .ok [i] := by
  cases s with
  | nil => simp [specOp] at h
  | cons b t =>
    unfold specProg
    simp only [h]
    rw [hl, List.drop_length]
    rfl

/-- the opcode PushDataBytes chooses for `n` data bytes -/
def pushOp (n : Nat) : UInt8 :=
  if n = 0 then byte Ops.OP_0 else if n ≤ 75 then byte n
  else if n < 256 then byte Ops.OP_PUSHDATA1 else if n < 65536 then byte Ops.OP_PUSHDATA2 else byte Ops.OP_PUSHDATA4

/-- … and the number of header bytes before the data -/
def pushHdr (n : Nat) : Nat :=
  if n ≤ 75 then 1 else if n < 256 then 2 else if n < 65536 then 3 else 5

theorem pushHdr_bounds (n : Nat) : 1 ≤ pushHdr n ∧ pushHdr n ≤ 5 := by
  unfold pushHdr; split <;> (try split) <;> (try split) <;> omega

theorem pushDataBytes_length (d : Bytes) : (pushDataBytes d).length = d.length + pushHdr d.length := by
  unfold pushDataBytes pushHdr
  simp only []
  split
  · rename_i h; simp [h]
  split
  · simp
  split
  · rename_i h1 h2 h3; simp <;> omega
  split
  · rename_i h1 h2 h3 h4; simp <;> omega
  · rename_i h1 h2 h3 h4; simp [le32Bytes] <;> omega

/-- decoding the output of PushDataBytes gives back the data, whatever follows it and
    wherever it stands -/
theorem specOp_pushData (pc : Nat) (d tl : Bytes) (hd : pc + d.length + 5 < 4294967296) :
    specOp pc (pushDataBytes d ++ tl) = .ok ⟨pushOp d.length, d.length + pushHdr d.length, d⟩ := by
  unfold pushDataBytes pushOp pushHdr
  simp only []
  by_cases h0 : d.length = 0
  · have : d = [] := List.eq_nil_of_length_eq_zero h0
    subst this
    simp [specOp, Ops.OP_0, Ops.OP_1, Ops.OP_16, Ops.OP_DATA_1, Ops.OP_DATA_75, Ops.OP_PUSHDATA1,
      Ops.OP_PUSHDATA2, Ops.OP_PUSHDATA4, Ops.OP_JUMP, Ops.OP_JUMPIF, byte]
  simp only [h0, if_false]
  by_cases h1 : d.length ≤ 75
  · simp only [h1, if_true]
    have e : u8 (u8 (Ops.OP_DATA_1 + u8 d.length) + 255) = d.length := by
      simp only [u8, Ops.OP_DATA_1]; omega
    rw [e]
    have hb : (byte d.length).toNat = d.length := byte_toNat (by omega)
    simp only [List.cons_append, specOp, hb]
    have c1 : ¬ (Ops.OP_1 ≤ d.length ∧ d.length ≤ Ops.OP_16) := by simp only [Ops.OP_1]; omega
    have c2 : Ops.OP_DATA_1 ≤ d.length ∧ d.length ≤ Ops.OP_DATA_75 := by
      simp only [Ops.OP_DATA_1, Ops.OP_DATA_75]; omega
    simp only [c1, if_false, c2, and_self, if_true, specData]
    simp
  simp only [h1, if_false]
  by_cases h2 : d.length < 256
  · simp only [h2, if_true]
    have hb : (byte Ops.OP_PUSHDATA1).toNat = 76 := by rw [byte_toNat] <;> simp [Ops.OP_PUSHDATA1]
    have hn : (byte (u8 d.length)).toNat = d.length := by
      rw [byte_toNat] <;> simp only [u8] <;> omega
    simp only [List.cons_append, specOp, hb, hn]
    simp [Ops.OP_1, Ops.OP_16, Ops.OP_DATA_1, Ops.OP_DATA_75, Ops.OP_PUSHDATA1, specData]
  simp only [h2, if_false]
  by_cases h3 : d.length < 65536
  · simp only [h3, if_true]
    have hb : (byte Ops.OP_PUSHDATA2).toNat = 77 := by rw [byte_toNat] <;> simp [Ops.OP_PUSHDATA2]
    have hn : le16 (byte (d.length % 256)) (byte (d.length / 256 % 256)) = d.length := by
      unfold le16; rw [byte_toNat (by omega), byte_toNat (by omega)]; omega
    simp only [List.cons_append, specOp, hb, hn]
    simp [Ops.OP_1, Ops.OP_16, Ops.OP_DATA_1, Ops.OP_DATA_75, Ops.OP_PUSHDATA1, Ops.OP_PUSHDATA2, specData]
  simp only [h3, if_false]
  have hb : (byte Ops.OP_PUSHDATA4).toNat = 78 := by rw [byte_toNat] <;> simp [Ops.OP_PUSHDATA4]
  have hu : u32 d.length = d.length := u32_id (by omega)
  have hn : le32 (byte (d.length % 256)) (byte (d.length / 256 % 256)) (byte (d.length / 65536 % 256))
      (byte (d.length / 16777216 % 256)) = d.length := by
    unfold le32
    rw [byte_toNat (by omega), byte_toNat (by omega), byte_toNat (by omega), byte_toNat (by omega)]; omega
  simp only [le32Bytes, hu, List.cons_append, List.nil_append, specOp, hb, hn]
  have : ¬ (4294967296 ≤ pc + 5 + d.length) := by omega
  simp [Ops.OP_1, Ops.OP_16, Ops.OP_DATA_1, Ops.OP_DATA_75, Ops.OP_PUSHDATA1, Ops.OP_PUSHDATA2,
    Ops.OP_PUSHDATA4, specData, this]


/-! ### decoding programs built piece by piece -/

theorem specProg_nil (fuel pc : Nat) : specProg (fuel + 1) pc [] = .ok [] := rfl

theorem specProg_step {fuel pc : Nat} {a tl : Bytes} {i : Inst}
    (h : specOp pc (a ++ tl) = .ok i) (hl : i.len = a.length) (ha : a ≠ []) :
    specProg (fuel + 1) pc (a ++ tl) =
      match specProg fuel (pc + a.length) tl with
      | .error e => .error e
      | .ok r => .ok (i :: r) := by
  cases a with
  | nil => exact absurd rfl ha
  | cons b t =>
    have e : (b :: t) ++ tl = b :: (t ++ tl) := rfl
    rw [e] at h ⊢
    conv => lhs; unfold specProg
    simp only [h]
    rw [hl, ← e, List.drop_left]

theorem specProg_push {fuel pc : Nat} (d tl : Bytes) (hd : pc + d.length + 5 < 4294967296) :
    specProg (fuel + 1) pc (pushDataBytes d ++ tl) =
      match specProg fuel (pc + (d.length + pushHdr d.length)) tl with
      | .error e => .error e
      | .ok r => .ok (⟨pushOp d.length, d.length + pushHdr d.length, d⟩ :: r) := by
  have hne : pushDataBytes d ≠ [] := by
    intro h0; have := congrArg List.length h0
    rw [pushDataBytes_length] at this; have hb := (pushHdr_bounds d.length).1
    simp only [List.length_nil] at this; omega
  have := @specProg_step fuel pc _ tl _ (specOp_pushData pc d tl hd) (by simp [pushDataBytes_length]) hne
  rw [this, pushDataBytes_length]

/-- a one-byte instruction without data -/
def IsPlain (op : UInt8) : Prop :=
  ¬ (Ops.OP_1 ≤ op.toNat ∧ op.toNat ≤ Ops.OP_16) ∧ ¬ (Ops.OP_DATA_1 ≤ op.toNat ∧ op.toNat ≤ Ops.OP_DATA_75) ∧
  op.toNat ≠ Ops.OP_PUSHDATA1 ∧ op.toNat ≠ Ops.OP_PUSHDATA2 ∧ op.toNat ≠ Ops.OP_PUSHDATA4 ∧
  ¬ (op.toNat = Ops.OP_JUMP ∨ op.toNat = Ops.OP_JUMPIF)
instance (op : UInt8) : Decidable (IsPlain op) := by unfold IsPlain; infer_instance

theorem specOp_plain {pc : Nat} {op : UInt8} (tl : Bytes) (h : IsPlain op) :
    specOp pc (op :: tl) = .ok ⟨op, 1, []⟩ := by
  obtain ⟨h1, h2, h3, h4, h5, h6⟩ := h
  unfold specOp
  simp only [h1, h2, h3, h4, h5, h6, if_false]

theorem specProg_plain {fuel pc : Nat} {op : UInt8} (tl : Bytes) (h : IsPlain op) :
    specProg (fuel + 1) pc (op :: tl) =
      match specProg fuel (pc + 1) tl with
      | .error e => .error e
      | .ok r => .ok (⟨op, 1, []⟩ :: r) := by
  have := @specProg_step fuel pc [op] tl _ (specOp_plain tl h) rfl (by simp)
  simpa using this

theorem pushOp_toNat (n : Nat) : (pushOp n).toNat =
    if n = 0 then 0 else if n ≤ 75 then n else if n < 256 then 76 else if n < 65536 then 77 else 78 := by
  unfold pushOp
  split
  · simp [byte, Ops.OP_0]
  split
  · exact byte_toNat (by omega)
  split
  · simp [byte, Ops.OP_PUSHDATA1]
  split
  · simp [byte, Ops.OP_PUSHDATA2]
  · simp [byte, Ops.OP_PUSHDATA4]

/-- fuel beyond what was needed does not change a successful result -/
theorem specProg_mono (fuel : Nat) : ∀ (pc : Nat) (s : Bytes) (r : List Inst) (k : Nat),
    specProg fuel pc s = .ok r → specProg (fuel + k) pc s = .ok r := by
  induction fuel with
  | zero => intro pc s r k h; simp [specProg] at h
  | succ fuel ih =>
    intro pc s r k h
    have e : fuel + 1 + k = (fuel + k) + 1 := by omega
    rw [e]
    unfold specProg at h ⊢
    cases s with
    | nil => exact h
    | cons b t =>
      simp only [] at h ⊢
      cases hsp : specOp pc (b :: t) with
      | error e' => rw [hsp] at h; cases h
      | ok i =>
        rw [hsp] at h
        simp only [] at h ⊢
        cases hrec : specProg fuel (pc + i.len) ((b :: t).drop i.len) with
        | error e' => rw [hrec] at h; cases h
        | ok rest =>
          rw [hrec] at h
          rw [ih _ _ _ k hrec]
          exact h

/-- ParseProgram through the suffix decoder with any sufficient fuel -/
theorem parseProgram_of_spec {p : Bytes} {r : List Inst} {fuel : Nat} (hlen : p.length ≤ maxInt32)
    (hf : fuel ≤ p.length + 1) (h : specProg fuel 0 p = .ok r) : parseProgram p = .ok r := by
  rw [parseProgram_eq p hlen]
  have := specProg_mono fuel 0 p r (p.length + 1 - fuel) h
  have e : fuel + (p.length + 1 - fuel) = p.length + 1 := by omega
  rwa [e] at this


/-! ### Disassemble through the suffix decoder -/

def collectLabels : List (Nat × Nat) → List Inst → Except PErr (List (Nat × Nat))
  | ls, [] => .ok ls
  | ls, i :: r =>
    match stepLabels ls i with
    | .error e => .error e
    | .ok ls' => collectLabels ls' r

theorem disPass1_eq (fuel : Nat) : ∀ (pre s : Bytes) (ls : List (Nat × Nat)) (is : List Inst),
    (pre ++ s).length ≤ maxInt32 → specProg fuel pre.length s = .ok is →
    disPass1 (pre ++ s) fuel pre.length ls =
      match collectLabels ls is with
      | .error e => .error e
      | .ok lf => .ok (is, lf) := by
  induction fuel with
  | zero => intro pre s ls is _ h; simp [specProg] at h
  | succ fuel ih =>
    intro pre s ls is hlen h
    have hlen' := hlen
    simp only [List.length_append, maxInt32] at hlen'
    have hl : u32 (pre ++ s).length = (pre ++ s).length := u32_id (by simp only [List.length_append]; omega)
    unfold disPass1
    unfold specProg at h
    cases s with
    | nil =>
      simp only [] at h
      injection h with h; subst h
      simp only [List.append_nil] at hl ⊢
      simp [hl, collectLabels]
    | cons b t =>
      simp only [] at h
      have c : pre.length < u32 (pre ++ b :: t).length := by rw [hl]; simp
      simp only [c, if_true]
      rw [parseOp_eq pre (b :: t) hlen (by simp)]
      cases hsp : specOp pre.length (b :: t) with
      | error e => rw [hsp] at h; cases h
      | ok i =>
        rw [hsp] at h
        simp only [] at h ⊢
        cases hrec : specProg fuel (pre.length + i.len) ((b :: t).drop i.len) with
        | error e => rw [hrec] at h; cases h
        | ok rest =>
          rw [hrec] at h
          injection h with h; subst h
          obtain ⟨hle, henc⟩ := specOp_ok hsp
          have hu : u32 (pre.length + i.len) = pre.length + i.len := u32_id (by omega)
          have hsplit : pre ++ b :: t = (pre ++ (b :: t).take i.len) ++ (b :: t).drop i.len := by
            rw [List.append_assoc, List.take_append_drop]
          have hlen2 : (pre ++ (b :: t).take i.len).length = pre.length + i.len := by
            rw [List.length_append, List.length_take]; omega
          have hrec' := hrec
          rw [← hlen2] at hrec'
          simp only [collectLabels]
          cases hst : stepLabels ls i with
          | error e => rfl
          | ok ls' =>
            simp only []
            have := ih (pre ++ (b :: t).take i.len) ((b :: t).drop i.len) ls' rest (by rw [← hsplit]; exact hlen) hrec'
            rw [← hsplit, hlen2] at this
            rw [hu, this]
            cases collectLabels ls' rest <;> rfl

theorem specProg_mem (fuel : Nat) : ∀ (pc : Nat) (s : Bytes) (is : List Inst),
    specProg fuel pc s = .ok is → ∀ i ∈ is, ∃ pc' s', specOp pc' s' = .ok i := by
  induction fuel with
  | zero => intro pc s is h; simp [specProg] at h
  | succ fuel ih =>
    intro pc s is h
    unfold specProg at h
    cases s with
    | nil => simp only [] at h; injection h with h; subst h; intro i hi; cases hi
    | cons b t =>
      simp only [] at h
      cases hsp : specOp pc (b :: t) with
      | error e => rw [hsp] at h; cases h
      | ok i0 =>
        rw [hsp] at h
        simp only [] at h
        cases hrec : specProg fuel (pc + i0.len) ((b :: t).drop i0.len) with
        | error e => rw [hrec] at h; cases h
        | ok rest =>
          rw [hrec] at h
          injection h with h; subst h
          intro i hi
          cases hi with
          | head => exact ⟨_, _, hsp⟩
          | tail _ hm => exact ih _ _ _ hrec i hm


/-! ### the tokenizer on space-separated plain words -/

theorem forall_uint8 {P : UInt8 → Prop} (h : ∀ n, n < 256 → P (UInt8.ofNat n)) : ∀ b, P b := by
  intro b
  have := h b.toNat b.toNat_lt
  rwa [UInt8.ofNat_toNat] at this

/-- printable, non-space ASCII -/
def isWordByte (b : UInt8) : Bool := 0x21 ≤ b && b ≤ 0x7e

/-- a token the Scanner returns unchanged: non-empty, printable non-space ASCII, not starting
    with a quote -/
structure IsWord (w : Bytes) : Prop where
  ne : w ≠ []
  bytes : ∀ b ∈ w, isWordByte b = true
  noquote : w.head? ≠ some 0x27

theorem wordByte_facts : ∀ b : UInt8, isWordByte b = true →
    isAsciiSpace b = false ∧ (b == 0xC2) = false ∧ (b == 0xE1) = false ∧ (b == 0xE2) = false ∧
    (b == 0xE3) = false ∧ latin1Space b = false := by
  apply forall_uint8
  decide +kernel

theorem spaceWidth_word {b : UInt8} (rest : Bytes) (h : isWordByte b = true) : spaceWidth (b :: rest) = 0 := by
  obtain ⟨h1, h2, h3, h4, h5, _⟩ := wordByte_facts b h
  simp [spaceWidth, h1, h2, h3, h4, h5]

theorem spaceWidth_space (rest : Bytes) : spaceWidth (spaceB :: rest) = 1 := by
  simp [spaceWidth, spaceB, isAsciiSpace]

theorem wordLen_word (w tl : Bytes) (hw : ∀ b ∈ w, isWordByte b = true) :
    wordLen (w ++ tl) = ((wordLen tl).1 + w.length, (wordLen tl).2) := by
  induction w with
  | nil => simp
  | cons b t ih =>
    have hb := hw b (by simp)
    have := ih (fun x hx => hw x (by simp [hx]))
    simp only [List.cons_append, wordLen, spaceWidth_word _ hb]
    simp [this]; omega

theorem wordLen_space (r : Bytes) : wordLen (spaceB :: r) = (0, 1) := by
  simp [wordLen, spaceWidth_space]

theorem scanWords_word_space (w r : Bytes) (eof : Bool) (hw : IsWord w) :
    scanWords (w ++ spaceB :: r) eof = (w.length + 1, some w) := by
  obtain ⟨b, t, rfl⟩ : ∃ b t, w = b :: t := by
    cases w with
    | nil => exact absurd rfl hw.ne
    | cons b t => exact ⟨b, t, rfl⟩
  have hb := hw.bytes b (by simp)
  have hls : leadSpaces 0 ((b :: t) ++ spaceB :: r) = 0 := by
    simp [leadSpaces, spaceWidth_word _ hb]
  unfold scanWords
  simp only [hls, List.drop_zero]
  rw [wordLen_word _ _ hw.bytes, wordLen_space]
  simp

theorem scanWords_word_eof (w : Bytes) (hw : IsWord w) :
    scanWords w true = (w.length, some w) := by
  obtain ⟨b, t, rfl⟩ : ∃ b t, w = b :: t := by
    cases w with
    | nil => exact absurd rfl hw.ne
    | cons b t => exact ⟨b, t, rfl⟩
  have hb := hw.bytes b (by simp)
  have hls : leadSpaces 0 (b :: t) = 0 := by
    simp [leadSpaces, spaceWidth_word _ hb]
  unfold scanWords
  simp only [hls, List.drop_zero]
  have := wordLen_word (b :: t) [] hw.bytes
  rw [List.append_nil] at this
  rw [this]
  simp [wordLen]

theorem split_of_scanWords (inp w : Bytes) (eof : Bool) (adv : Nat) (hw : IsWord w)
    (hsw : scanWords inp eof = (adv, some w)) (hpre : ∃ tl, inp = w ++ tl) :
    split inp eof = .tok adv w := by
  obtain ⟨b, t, rfl⟩ : ∃ b t, w = b :: t := by
    cases w with
    | nil => exact absurd rfl hw.ne
    | cons b t => exact ⟨b, t, rfl⟩
  obtain ⟨tl, rfl⟩ := hpre
  have hb := hw.bytes b (by simp)
  have hq : b ≠ 0x27 := by
    intro h; apply hw.noquote; simp [h]
  unfold split
  simp only [hsw]
  by_cases hd : (decide ((b :: t).length > 1) && (b :: t).head? != some 0x27) = true
  · simp only [hd, if_true]
  · simp only [hd]
    have hl : latin1Skip (b :: (t ++ tl)) = 0 := by
      simp [latin1Skip, (wordByte_facts b hb).2.2.2.2.2]
    simp only [List.cons_append, hl, List.drop_zero]
    simp [hq]

theorem split_word_space (w r : Bytes) (eof : Bool) (hw : IsWord w) :
    split (w ++ spaceB :: r) eof = .tok (w.length + 1) w :=
  split_of_scanWords _ w eof _ hw (scanWords_word_space w r eof hw) ⟨_, rfl⟩

theorem split_word_eof (w : Bytes) (hw : IsWord w) : split w true = .tok w.length w :=
  split_of_scanWords _ w true _ hw (scanWords_word_eof w hw) ⟨[], by simp⟩

theorem split_nil : split [] true = .more 0 := by
  simp [split, scanWords, leadSpaces, wordLen, latin1Skip]


theorem take_word_space (w tl : Bytes) (x : UInt8) (n : Nat) (h : w.length + 1 ≤ n) :
    (w ++ x :: tl).take n = w ++ x :: tl.take (n - (w.length + 1)) := by
  rw [List.take_append]
  have h1 : w.take n = w := List.take_of_length_le (by omega)
  have h2 : n - w.length = (n - (w.length + 1)) + 1 := by omega
  rw [h1, h2, List.take_succ_cons]

theorem drop_word_space (w tl : Bytes) (x : UInt8) : (w ++ x :: tl).drop (w.length + 1) = tl := by
  rw [List.drop_append]
  have h1 : w.drop (w.length + 1) = [] := List.drop_of_length_le (by omega)
  have h2 : w.length + 1 - w.length = 1 := by omega
  rw [h1, h2]; rfl

/-- the Scanner splits a single-space-separated sequence of plain words (each shorter than
    the 64 KiB token limit) back into exactly those words, without error -/
theorem scanAll_words : ∀ (ws : List Bytes) (fuel : Nat),
    (∀ w ∈ ws, IsWord w ∧ w.length < maxScanTokenSize) → (joinSp ws).length < fuel →
    scanAll fuel (joinSp ws) = (ws, none) := by
  intro ws
  induction ws with
  | nil =>
    intro fuel _ hf
    cases fuel with
    | zero => omega
    | succ f => simp [joinSp, scanAll, maxScanTokenSize, split_nil]
  | cons w rest ih =>
    intro fuel hws hf
    obtain ⟨hw, hwl⟩ := hws w (by simp)
    have hwpos : 1 ≤ w.length := by
      cases w with
      | nil => exact absurd rfl hw.ne
      | cons _ _ => simp
    cases rest with
    | nil =>
      simp only [joinSp] at hf ⊢
      cases fuel with
      | zero => omega
      | succ f =>
        unfold scanAll
        have : ¬ (w.length ≥ maxScanTokenSize) := by omega
        simp only [this, if_false, split_word_eof w hw, List.drop_length]
        cases f with
        | zero => omega
        | succ f' => simp [scanAll, maxScanTokenSize, split_nil]
    | cons w2 rest2 =>
      have hjs : joinSp (w :: w2 :: rest2) = w ++ spaceB :: joinSp (w2 :: rest2) := rfl
      rw [hjs] at hf ⊢
      cases fuel with
      | zero => omega
      | succ f =>
        have hrec := ih f (fun x hx => hws x (by simp [hx])) (by
          simp only [List.length_append, List.length_cons] at hf; omega)
        unfold scanAll
        by_cases hbig : (w ++ spaceB :: joinSp (w2 :: rest2)).length ≥ maxScanTokenSize
        · simp only [hbig, if_true]
          rw [take_word_space _ _ _ _ (by unfold maxScanTokenSize at hwl ⊢; omega), split_word_space _ _ _ hw]
          simp only [drop_word_space, hrec]
        · simp only [hbig, if_false, split_word_space _ _ _ hw, drop_word_space, hrec]


/-! ### the tokens Disassemble prints for jump-free programs, and what Assemble does with them -/

/-- text of a non-jump instruction (`instText` with no labels) -/
def textOf (i : Inst) : Bytes :=
  if i.data.length > 0 then [0x30, 0x78] ++ hexEncode i.data else opName i.op

/-- the bytes Assemble emits for that text -/
def canonBytes (i : Inst) : Bytes :=
  if i.data.length > 0 then pushDataBytes i.data else [i.op]

/-- the instruction those bytes parse to -/
def canonInst (i : Inst) : Inst :=
  if i.data.length > 0 then ⟨pushOp i.data.length, i.data.length + pushHdr i.data.length, i.data⟩ else i

/-- the assembler knows the opcode's printed name and maps it back to the opcode -/
def Nameable (op : UInt8) : Bool :=
  lookupName (opName op) == some op.toNat &&
  !(strPUSHDATA.isPrefixOf (opName op) || strJUMP.isPrefixOf (opName op))

def isWordB (w : Bytes) : Bool := !w.isEmpty && w.all isWordByte && w.head? != some 0x27

theorem isWord_of_B {w : Bytes} (h : isWordB w = true) : IsWord w := by
  simp only [isWordB, Bool.and_eq_true, Bool.not_eq_true', List.all_eq_true, bne_iff_ne] at h
  exact ⟨by intro h0; rw [h0] at h; simp at h, h.1.2, h.2⟩

theorem opName_word : ∀ op : UInt8, isWordB (opName op) = true ∧ (opName op).length < 32 := by
  apply forall_uint8
  decide +kernel

theorem hexDigit_facts : ∀ n, n < 16 → isWordByte (hexDigit n) = true ∧ hexVal (hexDigit n) = some n := by
  decide

theorem hexEncode_bytes (d : Bytes) : ∀ b ∈ hexEncode d, isWordByte b = true := by
  induction d with
  | nil => intro b hb; cases hb
  | cons x t ih =>
    intro b hb
    simp only [hexEncode, List.mem_cons] at hb
    have hx := x.toNat_lt
    rcases hb with rfl | rfl | hb
    · exact (hexDigit_facts _ (by omega)).1
    · exact (hexDigit_facts _ (by omega)).1
    · exact ih b hb

theorem hexEncode_length (d : Bytes) : (hexEncode d).length = 2 * d.length := by
  induction d with
  | nil => rfl
  | cons x t ih => simp [hexEncode, ih]; omega

theorem hexDecode_encode (d : Bytes) : hexDecode (hexEncode d) = some d := by
  induction d with
  | nil => rfl
  | cons x t ih =>
    have hx := x.toNat_lt
    simp only [hexEncode, hexDecode, (hexDigit_facts _ (show x.toNat / 16 < 16 by omega)).2,
      (hexDigit_facts _ (show x.toNat % 16 < 16 by omega)).2, ih]
    have : x.toNat / 16 * 16 + x.toNat % 16 = x.toNat := by omega
    simp [this, byte]

theorem hexToken_word (d : Bytes) : IsWord ([0x30, 0x78] ++ hexEncode d) := by
  refine ⟨by simp, ?_, by simp⟩
  intro b hb
  simp only [List.cons_append, List.nil_append, List.mem_cons] at hb
  rcases hb with rfl | rfl | hb
  · decide
  · decide
  · exact hexEncode_bytes d b hb

theorem textOf_word (i : Inst) (hl : i.data.length < 32767) :
    IsWord (textOf i) ∧ (textOf i).length < maxScanTokenSize := by
  unfold textOf
  split
  · refine ⟨hexToken_word _, ?_⟩
    simp [hexEncode_length, maxScanTokenSize]; omega
  · exact ⟨isWord_of_B (opName_word i.op).1, by have := (opName_word i.op).2; unfold maxScanTokenSize; omega⟩

theorem lookup_none_of_pred {α β : Type} [BEq α] [LawfulBEq α] (f : α → Bool) :
    ∀ (l : List (α × β)) (t : α), l.all (fun kv => !f kv.1) = true → f t = true → l.lookup t = none := by
  intro l
  induction l with
  | nil => intro t _ _; rfl
  | cons kv r ih =>
    intro t hall ht
    simp only [List.all_cons, Bool.and_eq_true, Bool.not_eq_true'] at hall
    obtain ⟨k, v⟩ := kv
    have hne : (t == k) = false := by
      cases hk : t == k with
      | false => rfl
      | true => have := eq_of_beq hk; subst this; rw [ht] at hall; cases hall.1
    simp only [List.lookup, hne]
    exact ih t hall.2 ht

theorem no_name_starts_0x : Ops.opsByName.all (fun kv => !(([0x30, 0x78] : Bytes).isPrefixOf kv.1)) = true := by
  decide +kernel

theorem lookupName_hex (d : Bytes) : lookupName ([0x30, 0x78] ++ hexEncode d) = none :=
  lookup_none_of_pred (fun t => ([0x30, 0x78] : Bytes).isPrefixOf t) _ _ no_name_starts_0x (by simp [List.isPrefixOf])

theorem asmToken_hex (st : AState) (d : Bytes) :
    asmToken st ([0x30, 0x78] ++ hexEncode d) = .ok { st with res := st.res ++ pushDataBytes d } := by
  unfold asmToken
  rw [lookupName_hex]
  simp [strJUMPc, strJUMPIFc, List.isPrefixOf, dollar, hexDecode_encode]

theorem asmToken_name (st : AState) (op : UInt8) (h : Nameable op = true) :
    asmToken st (opName op) = .ok { st with res := st.res ++ [op] } := by
  unfold Nameable at h
  simp only [Bool.and_eq_true, beq_iff_eq, Bool.not_eq_true'] at h
  unfold asmToken
  rw [h.1]
  simp only [h.2]
  simp [byte]

theorem asmTokens_text (is : List Inst) : ∀ (st : AState),
    (∀ i ∈ is, i.data.length = 0 → Nameable i.op = true) →
    asmTokens st (is.map textOf) = .ok { st with res := st.res ++ (is.map canonBytes).flatten } := by
  induction is with
  | nil => intro st _; simp [asmTokens]
  | cons i r ih =>
    intro st h
    have hr := fun st' => ih st' (fun x hx => h x (by simp [hx]))
    simp only [List.map_cons, asmTokens, List.flatten_cons]
    by_cases hd : i.data.length > 0
    · have e1 : textOf i = [0x30, 0x78] ++ hexEncode i.data := by simp [textOf, hd]
      have e2 : canonBytes i = pushDataBytes i.data := by simp [canonBytes, hd]
      rw [e1, asmToken_hex, e2]
      simp only []
      rw [hr]
      simp [List.append_assoc]
    · have e1 : textOf i = opName i.op := by simp [textOf, hd]
      have e2 : canonBytes i = [i.op] := by simp [canonBytes, hd]
      rw [e1, asmToken_name _ _ (h i (by simp) (by omega)), e2]
      simp only []
      rw [hr]
      simp [List.append_assoc]


/-! ### jump-free programs: Disassemble, then parsing the re-assembled bytes -/

theorem collectLabels_nojump (is : List Inst) (ls : List (Nat × Nat))
    (h : ∀ i ∈ is, isJump i.op = false) : collectLabels ls is = .ok ls := by
  induction is with
  | nil => rfl
  | cons i r ih =>
    simp only [collectLabels, stepLabels, h i (by simp)]
    exact ih (fun x hx => h x (by simp [hx]))

theorem instText_nojump (i : Inst) (hi : isJump i.op = false) : instText [] i = .ok (textOf i) := by
  unfold instText textOf
  simp only [hi]
  by_cases hd : i.data.length > 0 <;> simp [hd]

theorem disPass2_nojump (is : List Inst) (loc : Nat) (h : ∀ i ∈ is, isJump i.op = false) :
    disPass2 [] is loc = .ok (is.map textOf) := by
  induction is generalizing loc with
  | nil => rfl
  | cons i r ih =>
    have hi := h i (by simp)
    simp only [disPass2, List.lookup, instText_nojump i hi]
    rw [ih _ (fun x hx => h x (by simp [hx]))]
    simp

theorem nameable_facts : ∀ op : UInt8, Nameable op = true →
    op.toNat ≠ Ops.OP_PUSHDATA1 ∧ op.toNat ≠ Ops.OP_PUSHDATA2 ∧ op.toNat ≠ Ops.OP_PUSHDATA4 ∧ isJump op = false := by
  apply forall_uint8
  decide +kernel

/-- a parsed instruction without data that the assembler can name is a plain one-byte op -/
theorem specOp_nodata {pc : Nat} {s : Bytes} {i : Inst} (h : specOp pc s = .ok i)
    (hd : i.data.length = 0) (hn : Nameable i.op = true) : IsPlain i.op ∧ i.len = 1 := by
  cases s with
  | nil => simp [specOp] at h
  | cons op rest =>
  unfold specOp at h
  simp only [] at h
  by_cases b1 : Ops.OP_1 ≤ op.toNat ∧ op.toNat ≤ Ops.OP_16
  · simp only [b1, and_self, if_true] at h
    injection h with h; subst h; simp at hd
  simp only [b1, if_false] at h
  by_cases b2 : Ops.OP_DATA_1 ≤ op.toNat ∧ op.toNat ≤ Ops.OP_DATA_75
  · simp only [b2, and_self, if_true] at h
    obtain ⟨hle, rfl⟩ := specData_ok h
    simp only [Ops.OP_DATA_1] at b2
    simp only [List.length_take] at hd
    omega
  simp only [b2, if_false] at h
  by_cases b3 : op.toNat = Ops.OP_PUSHDATA1
  · exfalso
    simp only [b3, if_true] at h
    have : i.op = op := by
      cases rest with
      | nil => simp at h
      | cons n r => simp only [] at h; obtain ⟨_, rfl⟩ := specData_ok h; rfl
    rw [this] at hn
    exact (nameable_facts op hn).1 b3
  simp only [b3, if_false] at h
  by_cases b4 : op.toNat = Ops.OP_PUSHDATA2
  · exfalso
    simp only [b4, if_true] at h
    have : i.op = op := by
      match rest, h with
      | [], h => simp at h
      | [_], h => simp at h
      | a :: b :: r, h => simp only [] at h; obtain ⟨_, rfl⟩ := specData_ok h; rfl
    rw [this] at hn
    exact (nameable_facts op hn).2.1 b4
  simp only [b4, if_false] at h
  by_cases b5 : op.toNat = Ops.OP_PUSHDATA4
  · exfalso
    simp only [b5, if_true] at h
    have : i.op = op := by
      match rest, h with
      | [], h => simp at h
      | [_], h => simp at h
      | [_, _], h => simp at h
      | [_, _, _], h => simp at h
      | a :: b :: c :: d :: r, h =>
        simp only [] at h
        split at h
        · cases h
        · obtain ⟨_, rfl⟩ := specData_ok h; rfl
    rw [this] at hn
    exact (nameable_facts op hn).2.2.1 b5
  simp only [b5, if_false] at h
  by_cases b6 : op.toNat = Ops.OP_JUMP ∨ op.toNat = Ops.OP_JUMPIF
  · simp only [b6, if_true] at h
    obtain ⟨hle, rfl⟩ := specData_ok h
    simp only [List.length_take] at hd
    omega
  simp only [b6, if_false] at h
  injection h with h; subst h
  exact ⟨⟨b1, b2, b3, b4, b5, b6⟩, rfl⟩

theorem canonBytes_length (i : Inst) :
    1 ≤ (canonBytes i).length ∧ (canonBytes i).length ≤ i.data.length + 5 := by
  unfold canonBytes
  split
  · rw [pushDataBytes_length]; have := pushHdr_bounds i.data.length; omega
  · simp

/-- parsing the concatenated canonical encodings gives the canonical instructions -/
theorem specProg_canon (is : List Inst) : ∀ (fuel pc : Nat),
    (∀ i ∈ is, (∃ pc' s', specOp pc' s' = .ok i) ∧ (i.data.length = 0 → Nameable i.op = true)) →
    is.length < fuel → pc + ((is.map canonBytes).flatten).length + 5 < 4294967296 →
    specProg fuel pc ((is.map canonBytes).flatten) = .ok (is.map canonInst) := by
  induction is with
  | nil =>
    intro fuel pc _ hf _
    cases fuel with
    | zero => omega
    | succ f => rfl
  | cons i r ih =>
    intro fuel pc h hf hb
    cases fuel with
    | zero => omega
    | succ f =>
      obtain ⟨⟨pc', s', hsp⟩, hn⟩ := h i (by simp)
      simp only [List.map_cons, List.flatten_cons, List.length_append] at hb ⊢
      simp only [List.length_cons] at hf
      by_cases hd : i.data.length > 0
      · have e2 : canonBytes i = pushDataBytes i.data := by simp [canonBytes, hd]
        have e3 : canonInst i = ⟨pushOp i.data.length, i.data.length + pushHdr i.data.length, i.data⟩ := by
          simp [canonInst, hd]
        rw [e2] at hb ⊢
        rw [pushDataBytes_length] at hb
        rw [specProg_push _ _ (by omega), ih f _ (fun x hx => h x (by simp [hx])) (by omega) (by omega), e3]
      · have hd0 : i.data.length = 0 := by omega
        obtain ⟨hpl, hl1⟩ := specOp_nodata hsp hd0 (hn hd0)
        have e2 : canonBytes i = [i.op] := by simp [canonBytes, hd]
        have e3 : canonInst i = ⟨i.op, 1, []⟩ := by
          have : i.data = [] := List.eq_nil_of_length_eq_zero hd0
          simp only [canonInst, hd, if_false]
          cases i; simp_all
        rw [e2] at hb ⊢
        simp only [List.singleton_append, List.length_cons, List.length_nil] at hb ⊢
        rw [specProg_plain _ hpl, ih f _ (fun x hx => h x (by simp [hx])) (by omega) (by omega), e3]

theorem Tiling.canon_length {is : List Inst} {p : Bytes} (h : Tiling is p) :
    is.length ≤ ((is.map canonBytes).flatten).length ∧
    ((is.map canonBytes).flatten).length ≤ 6 * p.length := by
  induction h with
  | nil => simp
  | @cons i bs is rest he _ ih =>
    have hc := canonBytes_length i
    have hdl : i.data.length ≤ i.len := by
      have hdat := he.data
      split at hdat
      · rw [hdat.1, hdat.2]; simp
      · rw [hdat.1, List.length_drop, he.len_eq]; omega
    have hpos := he.pos
    have hle := he.len_eq
    simp only [List.map_cons, List.flatten_cons, List.length_append, List.length_cons]
    omega

end BytomModel.Lemmas.Asm
