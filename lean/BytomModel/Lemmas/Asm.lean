/-
Helper lemmas about Model/Asm (C09).
-/
import BytomModel.Model.Asm

namespace BytomModel.Lemmas.Asm
open BytomModel.Asm BytomModel.Gen BytomModel.Fixed

/-- the regenerated `checked.AddUint32`, on uint32 operands, is exact addition with an
    overflow flag -/
theorem addU32_eq (a b : Nat) (ha : a < 4294967296) :
    addU32 a b = if a + b < 4294967296 then some (a + b) else none := by
  unfold addU32 Checked.AddUint32 wrapU
  simp only [Int.ofNat_eq_natCast]
  split <;> rename_i h
  · split <;> rename_i h2
    · simp at h2
    · have : ¬ (a + b < 4294967296) := by omega
      simp [this]
  · split <;> rename_i h2
    · have : a + b < 4294967296 := by omega
      simp only [this, if_true]
      congr 1
      omega
    · simp at h2

/-! ### ParseOp as a decoder of the program suffix

`specOp pc s` reads one instruction off the head of `s = prog[pc:]`.  It depends on `pc` only
to tell `ErrOverflow` from `ErrShortProgram` in the PUSHDATA4 branch. -/

def specData (op : UInt8) (hdr n : Nat) (r : Bytes) : Except PErr Inst :=
  if n ≤ r.length then .ok ⟨op, n + hdr, r.take n⟩ else .error .short

def specOp (pc : Nat) : Bytes → Except PErr Inst
  | [] => .error .short
  | op :: rest =>
    let o := op.toNat
    if Ops.OP_1 ≤ o ∧ o ≤ Ops.OP_16 then .ok ⟨op, 1, [byte (o - 80)]⟩
    else if Ops.OP_DATA_1 ≤ o ∧ o ≤ Ops.OP_DATA_75 then specData op 1 o rest
    else if o = Ops.OP_PUSHDATA1 then
      match rest with
      | n :: r => specData op 2 n.toNat r
      | [] => .error .short
    else if o = Ops.OP_PUSHDATA2 then
      match rest with
      | a :: b :: r => specData op 3 (le16 a b) r
      | _ => .error .short
    else if o = Ops.OP_PUSHDATA4 then
      match rest with
      | a :: b :: c :: d :: r =>
        if 4294967296 ≤ pc + 5 + le32 a b c d then .error .overflow
        else specData op 5 (le32 a b c d) r
      | _ => .error .short
    else if o = Ops.OP_JUMP ∨ o = Ops.OP_JUMPIF then specData op 1 4 rest
    else .ok ⟨op, 1, []⟩

theorem u32_id {n : Nat} (h : n < 4294967296) : u32 n = n := Nat.mod_eq_of_lt h

theorem le16_lt (a b : UInt8) : le16 a b < 65536 := by
  unfold le16; have := a.toNat_lt; have := b.toNat_lt; omega

theorem le32_lt (a b c d : UInt8) : le32 a b c d < 4294967296 := by
  unfold le32; have := a.toNat_lt; have := b.toNat_lt; have := c.toNat_lt; have := d.toNat_lt; omega

/-- `finishData` on a program `pre ++ hd ++ r` whose data starts right after the `k` header
    bytes `hd` -/
theorem finishData_eq (pre hd r : Bytes) (op : UInt8) (n k : Nat)
    (hk : hd.length = k) (hn : n < 4294967296) (hlen : (pre ++ hd ++ r).length ≤ maxInt32) :
    finishData (pre ++ hd ++ r) (pre ++ hd ++ r).length pre.length op (n + k) (pre.length + k)
      = if 4294967296 ≤ pre.length + (n + k) then .error .overflow else specData op k n r := by
  unfold finishData
  have hpre : pre.length < 4294967296 := by
    simp only [List.length_append, maxInt32] at hlen; omega
  rw [addU32_eq _ _ hpre]
  by_cases hov : 4294967296 ≤ pre.length + (n + k)
  · have : ¬ (pre.length + (n + k) < 4294967296) := by omega
    simp only [this, if_false, hov, if_true]
  · have : pre.length + (n + k) < 4294967296 := by omega
    simp only [this, if_true, hov, if_false]
    unfold specData slice?
    simp only [List.length_append, hk]
    by_cases hfit : n ≤ r.length
    · have h1 : ¬ (pre.length + (n + k) > pre.length + k + r.length) := by omega
      have h2 : pre.length + k ≤ pre.length + (n + k) ∧ pre.length + (n + k) ≤ pre.length + k + r.length := by omega
      simp only [h1, if_false, h2, and_self, if_true, hfit]
      have hd' : List.drop (pre.length + k) (pre ++ hd ++ r) = r := by
        have : pre.length + k = (pre ++ hd).length := by simp [hk]
        rw [this, List.drop_left]
      rw [hd']
      have : pre.length + (n + k) - (pre.length + k) = n := by omega
      rw [this]
    · have h1 : pre.length + (n + k) > pre.length + k + r.length := by omega
      simp only [h1, if_true, hfit, if_false]


theorem getElem?_pre (pre s : Bytes) (k : Nat) : (pre ++ s)[pre.length + k]? = s[k]? := by
  rw [List.getElem?_append_right (by omega)]
  congr 1; omega

/-- `ParseOp(prog, pc)` is the suffix decoder on `prog[pc:]` (programs within the int32 bound) -/
theorem parseOp_eq (pre s : Bytes) (hlen : (pre ++ s).length ≤ maxInt32) (hs : s ≠ []) :
    parseOp (pre ++ s) pre.length = specOp pre.length s := by
  cases s with
  | nil => exact absurd rfl hs
  | cons op rest =>
  have hlen' := hlen
  simp only [List.length_append, List.length_cons, maxInt32] at hlen'
  have hl : u32 (pre ++ op :: rest).length = (pre ++ op :: rest).length := by
    apply u32_id; simp only [List.length_append, List.length_cons]; omega
  have hu : ∀ k, k ≤ 5 → u32 (pre.length + k) = pre.length + k := fun k hk => u32_id (by omega)
  have h0 : (pre ++ op :: rest)[pre.length]? = some op := by
    have := getElem?_pre pre (op :: rest) 0; simpa using this
  unfold parseOp specOp
  simp only [hl]
  have c1 : ¬ ((pre ++ op :: rest).length > maxInt32) := by omega
  have c2 : ¬ (pre.length ≥ (pre ++ op :: rest).length) := by
    simp only [List.length_append, List.length_cons]; omega
  simp only [c1, c2, if_false, h0]
  have ho := op.toNat_lt
  by_cases b1 : Ops.OP_1 ≤ op.toNat ∧ op.toNat ≤ Ops.OP_16
  · simp only [b1, and_self, if_true]
    simp only [Ops.OP_1, Ops.OP_16] at b1
    have : u8 (u8 (op.toNat + 256 - Ops.OP_1) + 1) = op.toNat - 80 := by
      simp only [u8, Ops.OP_1]; omega
    rw [this]
  simp only [b1, if_false]
  by_cases b2 : Ops.OP_DATA_1 ≤ op.toNat ∧ op.toNat ≤ Ops.OP_DATA_75
  · simp only [b2, and_self, if_true]
    simp only [Ops.OP_DATA_1, Ops.OP_DATA_75] at b2
    have e1 : u32 (1 + u8 (u8 (op.toNat + 256 - Ops.OP_DATA_1) + 1)) = op.toNat + 1 := by
      simp only [u8, u32, Ops.OP_DATA_1]; omega
    rw [e1, hu 1 (by omega)]
    have := finishData_eq pre [op] rest op op.toNat 1 rfl (by omega) (by simpa using hlen)
    simp only [List.append_assoc, List.singleton_append] at this
    rw [this]
    have : ¬ (4294967296 ≤ pre.length + (op.toNat + 1)) := by omega
    simp only [this, if_false]
  simp only [b2, if_false]
  by_cases b3 : op.toNat = Ops.OP_PUSHDATA1
  · simp only [b3, if_true]
    cases rest with
    | nil =>
      have hL := hlen; simp only [List.length_append, List.length_cons, List.length_nil, maxInt32] at hL
      have : pre.length = u32 ((pre ++ [op]).length + 4294967295) := by
        simp only [u32, List.length_append, List.length_cons, List.length_nil]; omega
      simp only [← this, if_true]
    | cons n r =>
      have hL := hlen; simp only [List.length_append, List.length_cons, List.length_nil, maxInt32] at hL
      have : ¬ (pre.length = u32 ((pre ++ op :: n :: r).length + 4294967295)) := by
        simp only [u32, List.length_append, List.length_cons]; omega
      simp only [this, if_false, hu 1 (by omega), hu 2 (by omega)]
      have h1 : (pre ++ op :: n :: r)[pre.length + 1]? = some n := by
        have := getElem?_pre pre (op :: n :: r) 1; simpa using this
      simp only [h1]
      have hn := n.toNat_lt
      have e1 : u32 (1 + u32 (n.toNat + 1)) = n.toNat + 2 := by simp only [u32]; omega
      rw [e1]
      have := finishData_eq pre [op, n] r op n.toNat 2 rfl (by omega) (by simpa using hlen)
      simp only [List.append_assoc, List.cons_append, List.nil_append] at this
      rw [this]
      have : ¬ (4294967296 ≤ pre.length + (n.toNat + 2)) := by
        simp only [List.length_cons] at hlen'; omega
      simp only [this, if_false]
  simp only [b3, if_false]
  by_cases b4 : op.toNat = Ops.OP_PUSHDATA2
  · simp only [b4, if_true]
    match rest with
    | [] =>
      have hL := hlen; simp only [List.length_append, List.length_cons, List.length_nil, maxInt32] at hL
      have : (pre ++ [op]).length < 3 ∨ pre.length > u32 ((pre ++ [op]).length + 4294967293) := by
        simp only [u32, List.length_append, List.length_cons, List.length_nil]; omega
      simp only [this, if_true]
    | [a] =>
      have hL := hlen; simp only [List.length_append, List.length_cons, List.length_nil, maxInt32] at hL
      have : (pre ++ [op, a]).length < 3 ∨ pre.length > u32 ((pre ++ [op, a]).length + 4294967293) := by
        simp only [u32, List.length_append, List.length_cons, List.length_nil]; omega
      simp only [this, if_true]
    | a :: b :: r =>
      have hL := hlen; simp only [List.length_append, List.length_cons, List.length_nil, maxInt32] at hL
      have : ¬ ((pre ++ op :: a :: b :: r).length < 3 ∨ pre.length > u32 ((pre ++ op :: a :: b :: r).length + 4294967293)) := by
        simp only [u32, List.length_append, List.length_cons]; omega
      simp only [this, if_false, hu 1 (by omega), hu 2 (by omega), hu 3 (by omega)]
      have h1 : (pre ++ op :: a :: b :: r)[pre.length + 1]? = some a := by
        have := getElem?_pre pre (op :: a :: b :: r) 1; simpa using this
      have h2 : (pre ++ op :: a :: b :: r)[pre.length + 2]? = some b := by
        have := getElem?_pre pre (op :: a :: b :: r) 2; simpa using this
      simp only [h1, h2]
      have hn := le16_lt a b
      have e1 : u32 (1 + u32 (le16 a b + 2)) = le16 a b + 3 := by simp only [u32]; omega
      rw [e1]
      have := finishData_eq pre [op, a, b] r op (le16 a b) 3 rfl (by omega) (by simpa using hlen)
      simp only [List.append_assoc, List.cons_append, List.nil_append] at this
      rw [this]
      have : ¬ (4294967296 ≤ pre.length + (le16 a b + 3)) := by
        simp only [List.length_cons] at hlen'; omega
      simp only [this, if_false]
  simp only [b4, if_false]
  by_cases b5 : op.toNat = Ops.OP_PUSHDATA4
  · simp only [b5, if_true]
    match rest with
    | [] =>
      have hL := hlen; simp only [List.length_append, List.length_cons, List.length_nil, maxInt32] at hL
      have : (pre ++ [op]).length < 5 ∨ pre.length > u32 ((pre ++ [op]).length + 4294967291) := by
        simp only [u32, List.length_append, List.length_cons, List.length_nil]; omega
      simp only [this, if_true]
    | [a] =>
      have hL := hlen; simp only [List.length_append, List.length_cons, List.length_nil, maxInt32] at hL
      have : (pre ++ [op, a]).length < 5 ∨ pre.length > u32 ((pre ++ [op, a]).length + 4294967291) := by
        simp only [u32, List.length_append, List.length_cons, List.length_nil]; omega
      simp only [this, if_true]
    | [a, b] =>
      have hL := hlen; simp only [List.length_append, List.length_cons, List.length_nil, maxInt32] at hL
      have : (pre ++ [op, a, b]).length < 5 ∨ pre.length > u32 ((pre ++ [op, a, b]).length + 4294967291) := by
        simp only [u32, List.length_append, List.length_cons, List.length_nil]; omega
      simp only [this, if_true]
    | [a, b, c] =>
      have hL := hlen; simp only [List.length_append, List.length_cons, List.length_nil, maxInt32] at hL
      have : (pre ++ [op, a, b, c]).length < 5 ∨ pre.length > u32 ((pre ++ [op, a, b, c]).length + 4294967291) := by
        simp only [u32, List.length_append, List.length_cons, List.length_nil]; omega
      simp only [this, if_true]
    | a :: b :: c :: d :: r =>
      have hL := hlen; simp only [List.length_append, List.length_cons, List.length_nil, maxInt32] at hL
      have : ¬ ((pre ++ op :: a :: b :: c :: d :: r).length < 5 ∨ pre.length > u32 ((pre ++ op :: a :: b :: c :: d :: r).length + 4294967291)) := by
        simp only [u32, List.length_append, List.length_cons]; omega
      simp only [this, if_false, hu 1 (by omega), hu 2 (by omega), hu 3 (by omega), hu 4 (by omega), hu 5 (by omega)]
      have h1 : (pre ++ op :: a :: b :: c :: d :: r)[pre.length + 1]? = some a := by
        have := getElem?_pre pre (op :: a :: b :: c :: d :: r) 1; simpa using this
      have h2 : (pre ++ op :: a :: b :: c :: d :: r)[pre.length + 2]? = some b := by
        have := getElem?_pre pre (op :: a :: b :: c :: d :: r) 2; simpa using this
      have h3 : (pre ++ op :: a :: b :: c :: d :: r)[pre.length + 3]? = some c := by
        have := getElem?_pre pre (op :: a :: b :: c :: d :: r) 3; simpa using this
      have h4 : (pre ++ op :: a :: b :: c :: d :: r)[pre.length + 4]? = some d := by
        have := getElem?_pre pre (op :: a :: b :: c :: d :: r) 4; simpa using this
      simp only [h1, h2, h3, h4]
      have hn := le32_lt a b c d
      rw [addU32_eq 5 _ (by omega)]
      by_cases hov : 5 + le32 a b c d < 4294967296
      · simp only [hov, if_true]
        have := finishData_eq pre [op, a, b, c, d] r op (le32 a b c d) 5 rfl hn (by simpa using hlen)
        simp only [List.append_assoc, List.cons_append, List.nil_append] at this
        rw [Nat.add_comm 5 (le32 a b c d), this]
        have e : pre.length + (le32 a b c d + 5) = pre.length + 5 + le32 a b c d := by omega
        rw [e]
      · have : 4294967296 ≤ pre.length + 5 + le32 a b c d := by omega
        simp only [hov, if_false, this, if_true]
  simp only [b5, if_false]
  by_cases b6 : op.toNat = Ops.OP_JUMP ∨ op.toNat = Ops.OP_JUMPIF
  · simp only [b6, if_true, hu 1 (by omega)]
    have := finishData_eq pre [op] rest op 4 1 rfl (by omega) (by simpa using hlen)
    simp only [List.append_assoc, List.singleton_append] at this
    rw [this]
    have : ¬ (4294967296 ≤ pre.length + (4 + 1)) := by omega
    simp only [this, if_false]
  simp only [b6, if_false]


/-! ### what a successfully decoded instruction says about the bytes it was read from -/

def hdrLen (op : UInt8) : Nat :=
  if op.toNat = Ops.OP_PUSHDATA1 then 2
  else if op.toNat = Ops.OP_PUSHDATA2 then 3
  else if op.toNat = Ops.OP_PUSHDATA4 then 5
  else 1

def IsSmallInt (op : UInt8) : Prop := Ops.OP_1 ≤ op.toNat ∧ op.toNat ≤ Ops.OP_16
instance (op : UInt8) : Decidable (IsSmallInt op) := by unfold IsSmallInt; infer_instance

/-- instruction `i` is encoded by exactly the bytes `bs`: `bs` has `i.Len ≥ 1` bytes, starts
    with the opcode, and `i.Data` is everything after the opcode's header bytes — except for
    OP_1..OP_16, whose one data byte is the number and is not in the program -/
structure Encodes (i : Inst) (bs : Bytes) : Prop where
  len_eq : bs.length = i.len
  pos : 1 ≤ i.len
  head : bs.head? = some i.op
  data : if IsSmallInt i.op then i.data = [byte (i.op.toNat - 80)] ∧ i.len = 1
         else i.data = bs.drop (hdrLen i.op) ∧ hdrLen i.op ≤ i.len

theorem specData_ok {op : UInt8} {hdr n : Nat} {r : Bytes} {i : Inst}
    (h : specData op hdr n r = .ok i) : n ≤ r.length ∧ i = ⟨op, n + hdr, r.take n⟩ := by
  unfold specData at h
  split at h
  · rename_i hn; injection h with h; exact ⟨hn, h.symm⟩
  · cases h

theorem specOp_ok {pc : Nat} {s : Bytes} {i : Inst} (h : specOp pc s = .ok i) :
    i.len ≤ s.length ∧ Encodes i (s.take i.len) := by
  cases s with
  | nil => simp [specOp] at h
  | cons op rest =>
  unfold specOp at h
  simp only [] at h
  have ho := op.toNat_lt
  by_cases b1 : Ops.OP_1 ≤ op.toNat ∧ op.toNat ≤ Ops.OP_16
  · simp only [b1, and_self, if_true] at h
    injection h with h; subst h
    refine ⟨by simp, ⟨by simp, by simp, by simp, ?_⟩⟩
    have : IsSmallInt op := b1
    simp only [this, if_true, and_self]
  simp only [b1, if_false] at h
  have ns : ¬ IsSmallInt op := b1
  by_cases b2 : Ops.OP_DATA_1 ≤ op.toNat ∧ op.toNat ≤ Ops.OP_DATA_75
  · simp only [b2, and_self, if_true] at h
    obtain ⟨hn, rfl⟩ := specData_ok h
    simp only [Ops.OP_DATA_1, Ops.OP_DATA_75] at b2
    have hh : hdrLen op = 1 := by
      simp only [hdrLen, Ops.OP_PUSHDATA1, Ops.OP_PUSHDATA2, Ops.OP_PUSHDATA4]
      have : ¬ op.toNat = 76 := by omega
      have : ¬ op.toNat = 77 := by omega
      have : ¬ op.toNat = 78 := by omega
      simp [*]
    refine ⟨by simp; omega, ⟨by simp; omega, by simp, by simp, ?_⟩⟩
    simp only [ns, if_false, hh]
    simp
  simp only [b2, if_false] at h
  by_cases b3 : op.toNat = Ops.OP_PUSHDATA1
  · simp only [b3, if_true] at h
    cases rest with
    | nil => simp at h
    | cons n r =>
      simp only [] at h
      obtain ⟨hn, rfl⟩ := specData_ok h
      have hh : hdrLen op = 2 := by simp [hdrLen, b3]
      refine ⟨by simp; omega, ⟨by simp; omega, by simp, by simp, ?_⟩⟩
      simp only [ns, if_false, hh]
      simp
  simp only [b3, if_false] at h
  by_cases b4 : op.toNat = Ops.OP_PUSHDATA2
  · simp only [b4, if_true] at h
    match rest, h with
    | [], h => simp at h
    | [_], h => simp at h
    | a :: b :: r, h =>
      simp only [] at h
      obtain ⟨hn, rfl⟩ := specData_ok h
      have hh : hdrLen op = 3 := by
        simp only [hdrLen, b4]; simp [Ops.OP_PUSHDATA1, Ops.OP_PUSHDATA2]
      refine ⟨by simp; omega, ⟨by simp; omega, by simp, by simp, ?_⟩⟩
      simp only [ns, if_false, hh]
      simp
  simp only [b4, if_false] at h
  by_cases b5 : op.toNat = Ops.OP_PUSHDATA4
  · simp only [b5, if_true] at h
    match rest, h with
    | [], h => simp at h
    | [_], h => simp at h
    | [_, _], h => simp at h
    | [_, _, _], h => simp at h
    | a :: b :: c :: d :: r, h =>
      simp only [] at h
      split at h
      · cases h
      obtain ⟨hn, rfl⟩ := specData_ok h
      have hh : hdrLen op = 5 := by
        simp only [hdrLen, b5]; simp [Ops.OP_PUSHDATA1, Ops.OP_PUSHDATA2, Ops.OP_PUSHDATA4]
      refine ⟨by simp; omega, ⟨by simp; omega, by simp, by simp, ?_⟩⟩
      simp only [ns, if_false, hh]
      simp
  simp only [b5, if_false] at h
  have hh : hdrLen op = 1 := by simp [hdrLen, b3, b4, b5]
  by_cases b6 : op.toNat = Ops.OP_JUMP ∨ op.toNat = Ops.OP_JUMPIF
  · simp only [b6, if_true] at h
    obtain ⟨hn, rfl⟩ := specData_ok h
    refine ⟨by simp; omega, ⟨by simp; omega, by simp, by simp, ?_⟩⟩
    simp only [ns, if_false, hh]
    simp
  simp only [b6, if_false] at h
  injection h with h; subst h
  refine ⟨by simp, ⟨by simp, by simp, by simp, ?_⟩⟩
  simp only [ns, if_false, hh]
  simp


/-! ### ParseProgram as iterated suffix decoding -/

def specProg : Nat → Nat → Bytes → Except PErr (List Inst)
  | 0, _, _ => .error .diverge
  | fuel + 1, pc, s =>
    match s with
    | [] => .ok []
    | b :: t =>
      match specOp pc (b :: t) with
      | .error e => .error e
      | .ok i =>
        match specProg fuel (pc + i.len) ((b :: t).drop i.len) with
        | .error e => .error e
        | .ok rest => .ok (i :: rest)

theorem parseLoop_eq (fuel : Nat) : ∀ (pre s : Bytes), (pre ++ s).length ≤ maxInt32 →
    parseLoop (pre ++ s) fuel pre.length = specProg fuel pre.length s := by
  induction fuel with
  | zero => intro pre s _; rfl
  | succ fuel ih =>
    intro pre s hlen
    have hlen' := hlen
    simp only [List.length_append, maxInt32] at hlen'
    have hl : u32 (pre ++ s).length = (pre ++ s).length := u32_id (by simp only [List.length_append]; omega)
    unfold parseLoop specProg
    cases s with
    | nil =>
      simp only [List.append_nil] at hl ⊢
      simp [hl]
    | cons b t =>
      have c : pre.length < u32 (pre ++ b :: t).length := by
        rw [hl]; simp
      simp only [c, if_true]
      rw [parseOp_eq pre (b :: t) hlen (by simp)]
      cases hsp : specOp pre.length (b :: t) with
      | error e => rfl
      | ok i =>
        simp only []
        obtain ⟨hle, henc⟩ := specOp_ok hsp
        rw [addU32_eq _ _ (by omega)]
        have : pre.length + i.len < 4294967296 := by omega
        simp only [this, if_true]
        have hsplit : pre ++ b :: t = (pre ++ (b :: t).take i.len) ++ (b :: t).drop i.len := by
          rw [List.append_assoc, List.take_append_drop]
        have hlen2 : (pre ++ (b :: t).take i.len).length = pre.length + i.len := by
          rw [List.length_append, List.length_take]; omega
        have := ih (pre ++ (b :: t).take i.len) ((b :: t).drop i.len) (by rw [← hsplit]; exact hlen)
        rw [← hsplit, hlen2] at this
        rw [this]
        rfl

/-- `ParseProgram` of a program within the int32 bound -/
theorem parseProgram_eq (p : Bytes) (hlen : p.length ≤ maxInt32) :
    parseProgram p = specProg (p.length + 1) 0 p := by
  have := parseLoop_eq (p.length + 1) [] p (by simpa using hlen)
  simpa [parseProgram] using this

/-- a program longer than int32 (but shorter than 2^32) is rejected -/
theorem parseProgram_long (p : Bytes) (h1 : maxInt32 < p.length) (h2 : p.length < 4294967296) :
    parseProgram p = .error .long := by
  unfold parseProgram parseLoop
  have hl : u32 p.length = p.length := u32_id h2
  have : 0 < u32 p.length := by rw [hl]; unfold maxInt32 at h1; omega
  simp only [this, if_true]
  unfold parseOp
  simp only [hl, h1, gt_iff_lt, if_true]

/-- `Tiling is p`: `p` is the concatenation of the encodings of the instructions `is` -/
inductive Tiling : List Inst → Bytes → Prop
  | nil : Tiling [] []
  | cons {i : Inst} {bs : Bytes} {is : List Inst} {rest : Bytes} :
      Encodes i bs → Tiling is rest → Tiling (i :: is) (bs ++ rest)

theorem Tiling.length_sum {is : List Inst} {p : Bytes} (h : Tiling is p) :
    (is.map (·.len)).sum = p.length := by
  induction h with
  | nil => rfl
  | cons he _ ih => simp [ih, he.len_eq]

/-- successful suffix decoding tiles the suffix -/
theorem specProg_tiles (fuel : Nat) : ∀ (pc : Nat) (s : Bytes) (is : List Inst),
    specProg fuel pc s = .ok is → Tiling is s := by
  induction fuel with
  | zero => intro pc s is h; simp [specProg] at h
  | succ fuel ih =>
    intro pc s is h
    unfold specProg at h
    cases s with
    | nil =>
      simp only [] at h
      injection h with h; subst h
      exact Tiling.nil
    | cons b t =>
      simp only [] at h
      cases hsp : specOp pc (b :: t) with
      | error e => rw [hsp] at h; cases h
      | ok i =>
        rw [hsp] at h
        simp only [] at h
        cases hrec : specProg fuel (pc + i.len) ((b :: t).drop i.len) with
        | error e => rw [hrec] at h; cases h
        | ok rest =>
          rw [hrec] at h
          injection h with h; subst h
          obtain ⟨_, henc⟩ := specOp_ok hsp
          have := Tiling.cons henc (ih _ _ _ hrec)
          rwa [List.take_append_drop] at this

/-- suffix decoding never panics -/
theorem specOp_total {pc : Nat} {s : Bytes} {e : PErr} (h : specOp pc s = .error e) :
    e ≠ .panic ∧ e ≠ .diverge := by
  cases s with
  | nil => simp [specOp] at h; subst h; simp
  | cons op rest =>
    unfold specOp specData at h
    simp only [] at h
    repeat' split at h
    all_goals first | (injection h with h; subst h; simp) | cases h

theorem specProg_total (fuel : Nat) : ∀ (pc : Nat) (s : Bytes) (e : PErr), s.length < fuel →
    specProg fuel pc s = .error e → e ≠ .panic ∧ e ≠ .diverge := by
  induction fuel with
  | zero => intro pc s e h; omega
  | succ fuel ih =>
    intro pc s e hf h
    unfold specProg at h
    cases s with
    | nil => simp at h
    | cons b t =>
      simp only [] at h
      cases hsp : specOp pc (b :: t) with
      | error e' =>
        rw [hsp] at h
        injection h with h; subst h
        exact specOp_total hsp
      | ok i =>
        rw [hsp] at h
        simp only [] at h
        obtain ⟨hle, henc⟩ := specOp_ok hsp
        have hpos := henc.pos
        cases hrec : specProg fuel (pc + i.len) ((b :: t).drop i.len) with
        | error e' =>
          rw [hrec] at h
          injection h with h; subst h
          exact ih _ _ _ (by rw [List.length_drop]; simp only [List.length_cons] at hf ⊢; omega) hrec
        | ok rest => rw [hrec] at h; cases h


/-! ### single-instruction programs, PushDataBytes -/

theorem byte_toNat {n : Nat} (h : n < 256) : (byte n).toNat = n := by
  unfold byte; rw [UInt8.toNat_ofNat']; omega

theorem specProg_single {fuel pc : Nat} {s : Bytes} {i : Inst}
    (h : specOp pc s = .ok i) (hl : i.len = s.length) : specProg (fuel + 2) pc s = .ok [i] := by
  cases s with
  | nil => simp [specOp] at h
  | cons b t =>
    unfold specProg
    simp only [h]
    rw [hl, List.drop_length]
    rfl

/-- the opcode PushDataBytes chooses for `n` data bytes -/
def pushOp (n : Nat) : UInt8 :=
  if n = 0 then byte Ops.OP_0 else if n ≤ 75 then byte n
  else if n < 256 then byte Ops.OP_PUSHDATA1 else if n < 65536 then byte Ops.OP_PUSHDATA2 else byte Ops.OP_PUSHDATA4

/-- … and the number of header bytes before the data -/
def pushHdr (n : Nat) : Nat :=
  if n ≤ 75 then 1 else if n < 256 then 2 else if n < 65536 then 3 else 5

theorem pushHdr_bounds (n : Nat) : 1 ≤ pushHdr n ∧ pushHdr n ≤ 5 := by
  unfold pushHdr; split <;> (try split) <;> (try split) <;> omega

theorem pushDataBytes_length (d : Bytes) : (pushDataBytes d).length = d.length + pushHdr d.length := by
  unfold pushDataBytes pushHdr
  simp only []
  split
  · rename_i h; simp [h]
  split
  · simp
  split
  · rename_i h1 h2 h3; simp <;> omega
  split
  · rename_i h1 h2 h3 h4; simp <;> omega
  · rename_i h1 h2 h3 h4; simp [le32Bytes] <;> omega

/-- decoding the output of PushDataBytes gives back the data, whatever follows it and
    wherever it stands -/
theorem specOp_pushData (pc : Nat) (d tl : Bytes) (hd : pc + d.length + 5 < 4294967296) :
    specOp pc (pushDataBytes d ++ tl) = .ok ⟨pushOp d.length, d.length + pushHdr d.length, d⟩ := by
  unfold pushDataBytes pushOp pushHdr
  simp only []
  by_cases h0 : d.length = 0
  · have : d = [] := List.eq_nil_of_length_eq_zero h0
    subst this
    simp [specOp, Ops.OP_0, Ops.OP_1, Ops.OP_16, Ops.OP_DATA_1, Ops.OP_DATA_75, Ops.OP_PUSHDATA1,
      Ops.OP_PUSHDATA2, Ops.OP_PUSHDATA4, Ops.OP_JUMP, Ops.OP_JUMPIF, byte]
  simp only [h0, if_false]
  by_cases h1 : d.length ≤ 75
  · simp only [h1, if_true]
    have e : u8 (u8 (Ops.OP_DATA_1 + u8 d.length) + 255) = d.length := by
      simp only [u8, Ops.OP_DATA_1]; omega
    rw [e]
    have hb : (byte d.length).toNat = d.length := byte_toNat (by omega)
    simp only [List.cons_append, specOp, hb]
    have c1 : ¬ (Ops.OP_1 ≤ d.length ∧ d.length ≤ Ops.OP_16) := by simp only [Ops.OP_1]; omega
    have c2 : Ops.OP_DATA_1 ≤ d.length ∧ d.length ≤ Ops.OP_DATA_75 := by
      simp only [Ops.OP_DATA_1, Ops.OP_DATA_75]; omega
    simp only [c1, if_false, c2, and_self, if_true, specData]
    simp
  simp only [h1, if_false]
  by_cases h2 : d.length < 256
  · simp only [h2, if_true]
    have hb : (byte Ops.OP_PUSHDATA1).toNat = 76 := by rw [byte_toNat] <;> simp [Ops.OP_PUSHDATA1]
    have hn : (byte (u8 d.length)).toNat = d.length := by
      rw [byte_toNat] <;> simp only [u8] <;> omega
    simp only [List.cons_append, specOp, hb, hn]
    simp [Ops.OP_1, Ops.OP_16, Ops.OP_DATA_1, Ops.OP_DATA_75, Ops.OP_PUSHDATA1, specData]
  simp only [h2, if_false]
  by_cases h3 : d.length < 65536
  · simp only [h3, if_true]
    have hb : (byte Ops.OP_PUSHDATA2).toNat = 77 := by rw [byte_toNat] <;> simp [Ops.OP_PUSHDATA2]
    have hn : le16 (byte (d.length % 256)) (byte (d.length / 256 % 256)) = d.length := by
      unfold le16; rw [byte_toNat (by omega), byte_toNat (by omega)]; omega
    simp only [List.cons_append, specOp, hb, hn]
    simp [Ops.OP_1, Ops.OP_16, Ops.OP_DATA_1, Ops.OP_DATA_75, Ops.OP_PUSHDATA1, Ops.OP_PUSHDATA2, specData]
  simp only [h3, if_false]
  have hb : (byte Ops.OP_PUSHDATA4).toNat = 78 := by rw [byte_toNat] <;> simp [Ops.OP_PUSHDATA4]
  have hu : u32 d.length = d.length := u32_id (by omega)
  have hn : le32 (byte (d.length % 256)) (byte (d.length / 256 % 256)) (byte (d.length / 65536 % 256))
      (byte (d.length / 16777216 % 256)) = d.length := by
    unfold le32
    rw [byte_toNat (by omega), byte_toNat (by omega), byte_toNat (by omega), byte_toNat (by omega)]; omega
  simp only [le32Bytes, hu, List.cons_append, List.nil_append, specOp, hb, hn]
  have : ¬ (4294967296 ≤ pc + 5 + d.length) := by omega
  simp [Ops.OP_1, Ops.OP_16, Ops.OP_DATA_1, Ops.OP_DATA_75, Ops.OP_PUSHDATA1, Ops.OP_PUSHDATA2,
    Ops.OP_PUSHDATA4, specData, this]


/-! ### decoding programs built piece by piece -/

theorem specProg_nil (fuel pc : Nat) : specProg (fuel + 1) pc [] = .ok [] := rfl

theorem specProg_step {fuel pc : Nat} {a tl : Bytes} {i : Inst}
    (h : specOp pc (a ++ tl) = .ok i) (hl : i.len = a.length) (ha : a ≠ []) :
    specProg (fuel + 1) pc (a ++ tl) =
      match specProg fuel (pc + a.length) tl with
      | .error e => .error e
      | .ok r => .ok (i :: r) := by
  cases a with
  | nil => exact absurd rfl ha
  | cons b t =>
    have e : (b :: t) ++ tl = b :: (t ++ tl) := rfl
    rw [e] at h ⊢
    conv => lhs; unfold specProg
    simp only [h]
    rw [hl, ← e, List.drop_left]

theorem specProg_push {fuel pc : Nat} (d tl : Bytes) (hd : pc + d.length + 5 < 4294967296) :
    specProg (fuel + 1) pc (pushDataBytes d ++ tl) =
      match specProg fuel (pc + (d.length + pushHdr d.length)) tl with
      | .error e => .error e
      | .ok r => .ok (⟨pushOp d.length, d.length + pushHdr d.length, d⟩ :: r) := by
  have hne : pushDataBytes d ≠ [] := by
    intro h0; have := congrArg List.length h0
    rw [pushDataBytes_length] at this; have hb := (pushHdr_bounds d.length).1
    simp only [List.length_nil] at this; omega
  have := @specProg_step fuel pc _ tl _ (specOp_pushData pc d tl hd) (by simp [pushDataBytes_length]) hne
  rw [this, pushDataBytes_length]

/-- a one-byte instruction without data -/
def IsPlain (op : UInt8) : Prop :=
  ¬ (Ops.OP_1 ≤ op.toNat ∧ op.toNat ≤ Ops.OP_16) ∧ ¬ (Ops.OP_DATA_1 ≤ op.toNat ∧ op.toNat ≤ Ops.OP_DATA_75) ∧
  op.toNat ≠ Ops.OP_PUSHDATA1 ∧ op.toNat ≠ Ops.OP_PUSHDATA2 ∧ op.toNat ≠ Ops.OP_PUSHDATA4 ∧
  ¬ (op.toNat = Ops.OP_JUMP ∨ op.toNat = Ops.OP_JUMPIF)
instance (op : UInt8) : Decidable (IsPlain op) := by unfold IsPlain; infer_instance

theorem specOp_plain {pc : Nat} {op : UInt8} (tl : Bytes) (h : IsPlain op) :
    specOp pc (op :: tl) = .ok ⟨op, 1, []⟩ := by
  obtain ⟨h1, h2, h3, h4, h5, h6⟩ := h
  unfold specOp
  simp only [h1, h2, h3, h4, h5, h6, if_false]

theorem specProg_plain {fuel pc : Nat} {op : UInt8} (tl : Bytes) (h : IsPlain op) :
    specProg (fuel + 1) pc (op :: tl) =
      match specProg fuel (pc + 1) tl with
      | .error e => .error e
      | .ok r => .ok (⟨op, 1, []⟩ :: r) := by
  have := @specProg_step fuel pc [op] tl _ (specOp_plain tl h) rfl (by simp)
  simpa using this

theorem pushOp_toNat (n : Nat) : (pushOp n).toNat =
    if n = 0 then 0 else if n ≤ 75 then n else if n < 256 then 76 else if n < 65536 then 77 else 78 := by
  unfold pushOp
  split
  · simp [byte, Ops.OP_0]
  split
  · exact byte_toNat (by omega)
  split
  · simp [byte, Ops.OP_PUSHDATA1]
  split
  · simp [byte, Ops.OP_PUSHDATA2]
  · simp [byte, Ops.OP_PUSHDATA4]

/-- fuel beyond what was needed does not change a successful result -/
theorem specProg_mono (fuel : Nat) : ∀ (pc : Nat) (s : Bytes) (r : List Inst) (k : Nat),
    specProg fuel pc s = .ok r → specProg (fuel + k) pc s = .ok r := by
  induction fuel with
  | zero => intro pc s r k h; simp [specProg] at h
  | succ fuel ih =>
    intro pc s r k h
    have e : fuel + 1 + k = (fuel + k) + 1 := by omega
    rw [e]
    unfold specProg at h ⊢
    cases s with
    | nil => exact h
    | cons b t =>
      simp only [] at h ⊢
      cases hsp : specOp pc (b :: t) with
      | error e' => rw [hsp] at h; cases h
      | ok i =>
        rw [hsp] at h
        simp only [] at h ⊢
        cases hrec : specProg fuel (pc + i.len) ((b :: t).drop i.len) with
        | error e' => rw [hrec] at h; cases h
        | ok rest =>
          rw [hrec] at h
          rw [ih _ _ _ k hrec]
          exact h

/-- ParseProgram through the suffix decoder with any sufficient fuel -/
theorem parseProgram_of_spec {p : Bytes} {r : List Inst} {fuel : Nat} (hlen : p.length ≤ maxInt32)
    (hf : fuel ≤ p.length + 1) (h : specProg fuel 0 p = .ok r) : parseProgram p = .ok r := by
  rw [parseProgram_eq p hlen]
  have := specProg_mono fuel 0 p r (p.length + 1 - fuel) h
  have e : fuel + (p.length + 1 - fuel) = p.length + 1 := by omega
  rwa [e] at this

end BytomModel.Lemmas.Asm
