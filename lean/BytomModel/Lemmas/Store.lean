/-
Helper lemmas for M-Store: association lists, LRU membership, the invariant "every cached entry
equals the DB record" and its preservation by every read and (compatible) write.
-/
import BytomModel.Model.Store

namespace BytomModel.Lemmas.Store
open BytomModel.Store

variable {κ β : Type} [DecidableEq κ]

theorem aGet_aSet (l : List (κ × β)) (k k' : κ) (v : β) :
    aGet (aSet l k v) k' = if k' = k then some v else aGet l k' := by
  induction l with
  | nil => simp [aSet, aGet, eq_comm]
  | cons e l ih =>
    obtain ⟨a, b⟩ := e
    unfold aSet
    by_cases h1 : a = k
    · subst h1
      by_cases h2 : k' = a
      · subst h2; simp [aGet]
      · have : ¬ a = k' := fun e => h2 e.symm
        simp [aGet, h2, this]
    · rw [if_neg h1]
      by_cases h4 : a = k'
      · subst h4; simp [aGet, h1]
      · simp [aGet, h4, ih]

theorem mem_of_aGet (l : List (κ × β)) (k : κ) (v : β) (h : aGet l k = some v) : (k, v) ∈ l := by
  induction l with
  | nil => simp [aGet] at h
  | cons e l ih =>
    obtain ⟨a, b⟩ := e
    unfold aGet at h
    by_cases h1 : a = k
    · simp only [h1, if_true, Option.some.injEq] at h
      subst h; subst h1; simp
    · simp only [h1, if_false] at h
      exact List.mem_cons_of_mem _ (ih h)

theorem aDel_cons (a : κ) (b : β) (l : List (κ × β)) (k : κ) :
    aDel ((a, b) :: l) k = if a = k then aDel l k else (a, b) :: aDel l k := rfl

theorem mem_aDel (l : List (κ × β)) (k : κ) (e : κ × β) (h : e ∈ aDel l k) : e ∈ l ∧ e.1 ≠ k := by
  induction l with
  | nil => cases h
  | cons x l ih =>
    obtain ⟨a, b⟩ := x
    rw [aDel_cons] at h
    by_cases h1 : a = k
    · rw [if_pos h1] at h
      exact ⟨List.mem_cons_of_mem _ (ih h).1, (ih h).2⟩
    · rw [if_neg h1] at h
      rcases List.mem_cons.mp h with h | h
      · subst h; exact ⟨by simp, h1⟩
      · exact ⟨List.mem_cons_of_mem _ (ih h).1, (ih h).2⟩

/-! ### LRU membership -/

theorem lru_get_some (c : Lru κ β) (k : κ) (v : β) (h : (c.get k).1 = some v) : (k, v) ∈ c.items := by
  unfold Lru.get at h
  cases hg : aGet c.items k with
  | none => simp [hg] at h
  | some v' =>
    simp only [hg, Option.some.injEq] at h
    subst h
    exact mem_of_aGet _ _ _ hg

theorem lru_get_none (c : Lru κ β) (k : κ) (h : (c.get k).1 = none) : aGet c.items k = none := by
  unfold Lru.get at h
  cases hg : aGet c.items k with
  | none => rfl
  | some v' => simp [hg] at h

theorem mem_lru_get (c : Lru κ β) (k : κ) (e : κ × β) (h : e ∈ (c.get k).2.items) : e ∈ c.items := by
  unfold Lru.get at h
  cases hg : aGet c.items k with
  | none => simpa [hg] using h
  | some v' =>
    simp only [hg] at h
    rcases List.mem_cons.mp h with h | h
    · subst h; exact mem_of_aGet _ _ _ hg
    · exact (mem_aDel _ _ _ h).1

theorem mem_lru_add (c : Lru κ β) (k : κ) (v : β) (e : κ × β) (h : e ∈ (c.add k v).items) :
    e = (k, v) ∨ (e ∈ c.items ∧ e.1 ≠ k) := by
  unfold Lru.add at h
  simp only at h
  have h' : e ∈ (k, v) :: aDel c.items k := by
    split at h
    · exact List.dropLast_subset _ h
    · exact h
  rcases List.mem_cons.mp h' with h1 | h1
  · exact Or.inl h1
  · exact Or.inr (mem_aDel _ _ _ h1)

theorem mem_lru_remove (c : Lru κ β) (k : κ) (e : κ × β) (h : e ∈ (c.remove k).items) :
    e ∈ c.items ∧ e.1 ≠ k := mem_aDel _ _ _ h

/-! ### the invariant -/

structure CacheOK (s : Store) : Prop where
  hdr : ∀ e ∈ s.cHdr.items, aGet s.db.hdr e.1 = some e.2
  txs : ∀ e ∈ s.cTxs.items, aGet s.db.txs e.1 = some e.2
  hashes : ∀ e ∈ s.cHashes.items, (aGet s.db.hashes e.1).getD [] = e.2
  main : ∀ e ∈ s.cMain.items, aGet s.db.main e.1 = some e.2
  ckpt : ∀ e ∈ s.cCkpt.items, aGet s.db.ckpt e.1 = some e.2.c ∧ e.2.sl = []
  keyed : ∀ b h, aGet s.db.hdr b = some h → h.hash = b

theorem cacheOK_fresh (caps : Caps) (db : DB) (hk : ∀ b h, aGet db.hdr b = some h → h.hash = b) :
    CacheOK (Store.fresh caps db) :=
  ⟨fun _ h => (by cases h), fun _ h => (by cases h), fun _ h => (by cases h), fun _ h => (by cases h),
   fun _ h => (by cases h), hk⟩

/-! ### reads: answer = DB record, invariant kept, DB untouched -/

theorem getHeader_spec {s : Store} (ok : CacheOK s) (b : Nat) :
    (getHeader s b).1 = aGet s.db.hdr b ∧ CacheOK (getHeader s b).2 ∧ (getHeader s b).2.db = s.db := by
  unfold getHeader
  cases hc : (s.cHdr.get b).1 with
  | some h =>
    have hm := lru_get_some _ _ _ hc
    have : s.cHdr.get b = (some h, (s.cHdr.get b).2) := by rw [← hc]
    rw [this]
    refine ⟨(ok.hdr _ hm).symm, ⟨?_, ok.txs, ok.hashes, ok.main, ok.ckpt, ok.keyed⟩, rfl⟩
    intro e he
    exact ok.hdr e (mem_lru_get _ _ _ he)
  | none =>
    have : s.cHdr.get b = (none, (s.cHdr.get b).2) := by rw [← hc]
    rw [this]
    simp only
    cases hd : aGet s.db.hdr b with
    | none => exact ⟨rfl, ok, rfl⟩
    | some h =>
      refine ⟨rfl, ⟨?_, ok.txs, ok.hashes, ok.main, ok.ckpt, ok.keyed⟩, rfl⟩
      intro e he
      rcases mem_lru_add _ _ _ _ he with h1 | h1
      · subst h1
        simp only
        rw [ok.keyed b h hd]; exact hd
      · exact ok.hdr e h1.1

theorem getTxs_spec {s : Store} (ok : CacheOK s) (b : Nat) :
    (getTxs s b).1 = aGet s.db.txs b ∧ CacheOK (getTxs s b).2 ∧ (getTxs s b).2.db = s.db := by
  unfold getTxs
  cases hc : (s.cTxs.get b).1 with
  | some h =>
    have hm := lru_get_some _ _ _ hc
    have : s.cTxs.get b = (some h, (s.cTxs.get b).2) := by rw [← hc]
    rw [this]
    refine ⟨(ok.txs _ hm).symm, ⟨ok.hdr, ?_, ok.hashes, ok.main, ok.ckpt, ok.keyed⟩, rfl⟩
    intro e he
    exact ok.txs e (mem_lru_get _ _ _ he)
  | none =>
    have : s.cTxs.get b = (none, (s.cTxs.get b).2) := by rw [← hc]
    rw [this]
    simp only
    cases hd : aGet s.db.txs b with
    | none => exact ⟨rfl, ok, rfl⟩
    | some h =>
      refine ⟨rfl, ⟨ok.hdr, ?_, ok.hashes, ok.main, ok.ckpt, ok.keyed⟩, rfl⟩
      intro e he
      rcases mem_lru_add _ _ _ _ he with h1 | h1
      · subst h1; exact hd
      · exact ok.txs e h1.1

theorem getHashes_spec {s : Store} (ok : CacheOK s) (h : Nat) :
    (getHashes s h).1 = (aGet s.db.hashes h).getD [] ∧ CacheOK (getHashes s h).2 ∧ (getHashes s h).2.db = s.db := by
  unfold getHashes
  cases hc : (s.cHashes.get h).1 with
  | some l =>
    have hm := lru_get_some _ _ _ hc
    have : s.cHashes.get h = (some l, (s.cHashes.get h).2) := by rw [← hc]
    rw [this]
    refine ⟨(ok.hashes _ hm).symm, ⟨ok.hdr, ok.txs, ?_, ok.main, ok.ckpt, ok.keyed⟩, rfl⟩
    intro e he
    exact ok.hashes e (mem_lru_get _ _ _ he)
  | none =>
    have : s.cHashes.get h = (none, (s.cHashes.get h).2) := by rw [← hc]
    rw [this]
    refine ⟨rfl, ⟨ok.hdr, ok.txs, ?_, ok.main, ok.ckpt, ok.keyed⟩, rfl⟩
    intro e he
    rcases mem_lru_add _ _ _ _ he with h1 | h1
    · subst h1; rfl
    · exact ok.hashes e h1.1

theorem getMain_spec {s : Store} (ok : CacheOK s) (h : Nat) :
    (getMain s h).1 = aGet s.db.main h ∧ CacheOK (getMain s h).2 ∧ (getMain s h).2.db = s.db := by
  unfold getMain
  cases hc : (s.cMain.get h).1 with
  | some b =>
    have hm := lru_get_some _ _ _ hc
    have : s.cMain.get h = (some b, (s.cMain.get h).2) := by rw [← hc]
    rw [this]
    refine ⟨(ok.main _ hm).symm, ⟨ok.hdr, ok.txs, ok.hashes, ?_, ok.ckpt, ok.keyed⟩, rfl⟩
    intro e he
    exact ok.main e (mem_lru_get _ _ _ he)
  | none =>
    have : s.cMain.get h = (none, (s.cMain.get h).2) := by rw [← hc]
    rw [this]
    simp only
    cases hd : aGet s.db.main h with
    | none => exact ⟨rfl, ok, rfl⟩
    | some b =>
      refine ⟨rfl, ⟨ok.hdr, ok.txs, ok.hashes, ?_, ok.ckpt, ok.keyed⟩, rfl⟩
      intro e he
      rcases mem_lru_add _ _ _ _ he with h1 | h1
      · subst h1; exact hd
      · exact ok.main e h1.1

/-- what `GetBlock` answers, as a function of the DB -/
def pureBlock (db : DB) (b : Nat) : Option (Header × List Nat) :=
  match aGet db.hdr b with
  | none => none
  | some h => match aGet db.txs b with
    | none => none
    | some t => some (h, t)

theorem getBlock_spec {s : Store} (ok : CacheOK s) (b : Nat) :
    (getBlock s b).1 = pureBlock s.db b ∧ CacheOK (getBlock s b).2 ∧ (getBlock s b).2.db = s.db := by
  unfold getBlock pureBlock
  obtain ⟨h1, ok1, d1⟩ := getHeader_spec ok b
  cases hh : getHeader s b with
  | mk r s1 =>
    rw [hh] at h1 ok1 d1
    simp only at h1 ok1 d1
    cases r with
    | none => simp only; rw [← h1]; exact ⟨rfl, ok1, d1⟩
    | some h =>
      simp only
      obtain ⟨h2, ok2, d2⟩ := getTxs_spec ok1 b
      cases ht : getTxs s1 b with
      | mk r2 s2 =>
        rw [ht] at h2 ok2 d2
        simp only at h2 ok2 d2
        rw [← h1]
        simp only
        rw [d1] at h2
        cases r2 with
        | none => simp only; rw [← h2]; exact ⟨rfl, ok2, by rw [d2, d1]⟩
        | some t => simp only; rw [← h2]; exact ⟨rfl, ok2, by rw [d2, d1]⟩

/-- what `loadCheckpointsFromIter` answers, as a function of the DB -/
def pureLoad (db : DB) : List Ckpt → Option (List CkptObj)
  | [] => some []
  | c :: cs =>
    match aGet db.hdr c.hash with
    | none => none
    | some h => match pureLoad db cs with
      | none => none
      | some l => some (⟨c, h.sl⟩ :: l)

theorem loadCkpts_spec : ∀ (cs : List Ckpt) {s : Store} (_ : CacheOK s),
    (loadCkpts s cs).1 = pureLoad s.db cs ∧ CacheOK (loadCkpts s cs).2 ∧ (loadCkpts s cs).2.db = s.db
  | [], s, ok => ⟨rfl, ok, rfl⟩
  | c :: cs, s, ok => by
    unfold loadCkpts pureLoad
    obtain ⟨h1, ok1, d1⟩ := getHeader_spec ok c.hash
    cases hh : getHeader s c.hash with
    | mk r s1 =>
      rw [hh] at h1 ok1 d1
      simp only at h1 ok1 d1
      rw [← h1]
      cases r with
      | none => exact ⟨rfl, ok1, d1⟩
      | some h =>
        simp only
        obtain ⟨h2, ok2, d2⟩ := loadCkpts_spec cs ok1
        cases hl : loadCkpts s1 cs with
        | mk r2 s2 =>
          rw [hl] at h2 ok2 d2
          simp only at h2 ok2 d2
          rw [d1] at h2
          rw [← h2]
          cases r2 with
          | none => exact ⟨rfl, ok2, by rw [d2, d1]⟩
          | some l => exact ⟨rfl, ok2, by rw [d2, d1]⟩

/-- what `GetCheckpoint` answers, as a function of the DB: the stored checkpoint with the
    SupLinks of the stored header -/
def pureCkpt (db : DB) (b : Nat) : Option CkptObj :=
  match aGet db.hdr b with
  | none => none
  | some h => match aGet db.ckpt (h.height, b) with
    | none => none
    | some c => some ⟨c, h.sl⟩

theorem getCheckpoint_spec {s : Store} (ok : CacheOK s) (b : Nat) :
    (getCheckpoint s b).1 = pureCkpt s.db b ∧ CacheOK (getCheckpoint s b).2 ∧
      (getCheckpoint s b).2.db = s.db := by
  unfold getCheckpoint pureCkpt
  obtain ⟨h1, ok1, d1⟩ := getHeader_spec ok b
  cases hh : getHeader s b with
  | mk r s1 =>
    rw [hh] at h1 ok1 d1
    simp only at h1 ok1 d1
    rw [← h1]
    cases r with
    | none => exact ⟨rfl, ok1, d1⟩
    | some h =>
      simp only
      cases hc : (s1.cCkpt.get (h.height, b)).1 with
      | some o =>
        have hm := lru_get_some _ _ _ hc
        have e : s1.cCkpt.get (h.height, b) = (some o, (s1.cCkpt.get (h.height, b)).2) := by rw [← hc]
        rw [e]
        simp only
        obtain ⟨hrec, hsl⟩ := ok1.ckpt _ hm
        simp only at hrec hsl
        refine ⟨?_, ⟨ok1.hdr, ok1.txs, ok1.hashes, ok1.main, ?_, ok1.keyed⟩, d1⟩
        · rw [← d1, hrec, hsl]
          cases o; simp
        · intro e' he'
          exact ok1.ckpt e' (mem_lru_get _ _ _ he')
      | none =>
        have e : s1.cCkpt.get (h.height, b) = (none, (s1.cCkpt.get (h.height, b)).2) := by rw [← hc]
        rw [e]
        simp only
        cases hd : aGet s1.db.ckpt (h.height, b) with
        | none => simp only; exact ⟨by rw [← d1, hd], ok1, d1⟩
        | some c =>
          simp only
          refine ⟨by rw [← d1, hd]; simp, ⟨ok1.hdr, ok1.txs, ok1.hashes, ok1.main, ?_, ok1.keyed⟩, d1⟩
          intro e' he'
          rcases mem_lru_add _ _ _ _ he' with h3 | h3
          · subst h3; exact ⟨hd, rfl⟩
          · exact ok1.ckpt e' h3.1

end BytomModel.Lemmas.Store
