/-
Helper lemmas for the dispatcher model (`Model/Event.lean`): list surgery (`modAt`, folds of
`modAt`), the type table (`lookup`/`insert`/`delSub`/`register`) and its well-formedness.
-/
import BytomModel.Model.Event

namespace BytomModel.Lemmas.Event
open BytomModel.Event

/-! ### modAt -/

theorem length_modAt {α} (f : α → α) (l : List α) (n : Nat) : (modAt f l n).length = l.length := by
  induction l generalizing n with
  | nil => rfl
  | cons x xs ih => cases n <;> simp [modAt, ih]

theorem getElem?_modAt {α} (f : α → α) (l : List α) (n i : Nat) :
    (modAt f l n)[i]? = if i = n then (l[i]?).map f else l[i]? := by
  induction l generalizing n i with
  | nil => simp [modAt]
  | cons x xs ih =>
    cases n with
    | zero => cases i <;> simp [modAt]
    | succ n =>
      cases i with
      | zero => simp [modAt]
      | succ i => simp [modAt, ih]

/-- folding `modAt f` over a duplicate-free index list applies `f` exactly once to every
    listed position and leaves the others alone -/
theorem getElem?_foldl_modAt {α} (f : α → α) (ids : List Nat) (hnd : ids.Nodup) (l : List α) (i : Nat) :
    (ids.foldl (fun acc id => modAt f acc id) l)[i]? = if i ∈ ids then (l[i]?).map f else l[i]? := by
  induction ids generalizing l with
  | nil => simp
  | cons a as ih =>
    have hnd' := (List.nodup_cons.mp hnd)
    simp only [List.foldl_cons]
    rw [ih hnd'.2, getElem?_modAt]
    by_cases hia : i = a
    · subst hia
      simp [hnd'.1]
    · by_cases him : i ∈ as <;> simp [hia, him]

/-- same for an idempotent `f`, duplicates allowed -/
theorem getElem?_foldl_modAt_idem {α} (f : α → α) (hf : ∀ x, f (f x) = f x) (ids : List Nat) (l : List α) (i : Nat) :
    (ids.foldl (fun acc id => modAt f acc id) l)[i]? = if i ∈ ids then (l[i]?).map f else l[i]? := by
  induction ids generalizing l with
  | nil => simp
  | cons a as ih =>
    simp only [List.foldl_cons]
    rw [ih, getElem?_modAt]
    by_cases hia : i = a
    · subst hia
      by_cases him : i ∈ as
      · cases h : l[i]? <;> simp [him, hf]
      · simp [him]
    · by_cases him : i ∈ as <;> simp [hia, him]

theorem length_foldl_modAt {α} (f : α → α) (ids : List Nat) (l : List α) :
    (ids.foldl (fun acc id => modAt f acc id) l).length = l.length := by
  induction ids generalizing l with
  | nil => rfl
  | cons a as ih => simp [List.foldl_cons, ih, length_modAt]

/-! ### the type table -/

def keys (m : List (Nat × List Nat)) : List Nat := m.map (·.1)

/-- keys pairwise different, every subscriber list duplicate-free -/
def WF (m : List (Nat × List Nat)) : Prop :=
  (keys m).Nodup ∧ ∀ p ∈ m, p.2.Nodup

theorem lookup_of_not_key (m : List (Nat × List Nat)) (t : Nat) (h : t ∉ keys m) : lookup m t = [] := by
  induction m with
  | nil => rfl
  | cons p m ih =>
    obtain ⟨k, l⟩ := p
    simp only [keys, List.map_cons, List.mem_cons, not_or] at h
    simp only [lookup]
    rw [if_neg (fun e => h.1 e.symm)]
    exact ih h.2

theorem lookup_mem (m : List (Nat × List Nat)) (hk : (keys m).Nodup) (t : Nat) (l : List Nat)
    (h : (t, l) ∈ m) : lookup m t = l := by
  induction m with
  | nil => cases h
  | cons p m ih =>
    obtain ⟨k, l0⟩ := p
    simp only [keys, List.map_cons, List.nodup_cons] at hk
    simp only [lookup]
    rcases List.mem_cons.mp h with h | h
    · cases h; simp
    · have : k ≠ t := by
        intro e; subst e
        exact hk.1 (List.mem_map.mpr ⟨(k, l), h, rfl⟩)
      rw [if_neg this]
      exact ih hk.2 h

theorem lookup_nodup (m : List (Nat × List Nat)) (hw : WF m) (t : Nat) : (lookup m t).Nodup := by
  induction m with
  | nil => simp [lookup]
  | cons p m ih =>
    obtain ⟨k, l⟩ := p
    simp only [lookup]
    split
    · exact hw.2 (k, l) (by simp)
    · apply ih
      refine ⟨?_, fun p hp => hw.2 p (List.mem_cons_of_mem _ hp)⟩
      have := hw.1
      simp only [keys, List.map_cons, List.nodup_cons] at this
      exact this.2

theorem lookup_insert (m : List (Nat × List Nat)) (t : Nat) (l : List Nat) (t' : Nat) :
    lookup (setKey m t l) t' = if t = t' then l else lookup m t' := by
  induction m with
  | nil => simp [setKey, lookup]
  | cons p m ih =>
    obtain ⟨k, l0⟩ := p
    simp only [setKey]
    by_cases hk : k = t
    · subst hk
      simp only [if_true, lookup]
      by_cases h2 : k = t' <;> simp [h2]
    · simp only [if_neg hk, lookup, ih]
      by_cases h2 : k = t'
      · subst h2; simp [Ne.symm hk]
      · simp [h2]

theorem keys_insert (m : List (Nat × List Nat)) (t : Nat) (l : List Nat) :
    keys (setKey m t l) = if t ∈ keys m then keys m else keys m ++ [t] := by
  induction m with
  | nil => simp [setKey, keys]
  | cons p m ih =>
    obtain ⟨k, l0⟩ := p
    simp only [setKey]
    by_cases hk : k = t
    · subst hk; simp [keys]
    · simp only [if_neg hk]
      simp only [keys, List.map_cons, List.mem_cons] at ih ⊢
      rw [ih]
      have : ¬ t = k := fun e => hk e.symm
      by_cases hm : t ∈ List.map (·.1) m <;> simp [hm, this]

theorem mem_insert (m : List (Nat × List Nat)) (t : Nat) (l : List Nat) (p : Nat × List Nat)
    (h : p ∈ setKey m t l) : p ∈ m ∨ p = (t, l) := by
  induction m with
  | nil => simp [setKey] at h; exact Or.inr h
  | cons q m ih =>
    obtain ⟨k, l0⟩ := q
    simp only [setKey] at h
    by_cases hk : k = t
    · subst hk
      simp only [if_true, List.mem_cons] at h
      rcases h with h | h
      · exact Or.inr h
      · exact Or.inl (List.mem_cons_of_mem _ h)
    · simp only [if_neg hk, List.mem_cons] at h
      rcases h with h | h
      · exact Or.inl (by simp [h])
      · rcases ih h with h | h
        · exact Or.inl (List.mem_cons_of_mem _ h)
        · exact Or.inr h

theorem WF_insert (m : List (Nat × List Nat)) (hw : WF m) (t : Nat) (l : List Nat) (hl : l.Nodup) :
    WF (setKey m t l) := by
  refine ⟨?_, ?_⟩
  · rw [keys_insert]
    split
    · exact hw.1
    · rename_i h
      exact List.nodup_append.mpr ⟨hw.1, by simp, by
        intro a ha b hb
        simp only [List.mem_singleton] at hb
        subst hb
        intro e; subst e; exact h ha⟩
  · intro p hp
    rcases mem_insert m t l p hp with h | h
    · exact hw.2 p h
    · subst h; exact hl

theorem keys_delSub_sub (m : List (Nat × List Nat)) (id : Nat) : ∀ t, t ∈ keys (delSub m id) → t ∈ keys m := by
  induction m with
  | nil => intro t h; exact h
  | cons p m ih =>
    obtain ⟨k, l⟩ := p
    intro t h
    simp only [delSub] at h
    simp only [keys, List.map_cons, List.mem_cons]
    split at h
    · split at h
      · exact Or.inr (ih t h)
      · simp only [keys, List.map_cons, List.mem_cons] at h
        rcases h with h | h
        · exact Or.inl h
        · exact Or.inr (ih t h)
    · simp only [keys, List.map_cons, List.mem_cons] at h
      rcases h with h | h
      · exact Or.inl h
      · exact Or.inr (ih t h)

theorem keys_delSub_nodup (m : List (Nat × List Nat)) (id : Nat) (hk : (keys m).Nodup) :
    (keys (delSub m id)).Nodup := by
  induction m with
  | nil => simp [delSub, keys]
  | cons p m ih =>
    obtain ⟨k, l⟩ := p
    simp only [keys, List.map_cons, List.nodup_cons] at hk
    have hk1 : k ∉ keys (delSub m id) := fun h => hk.1 (keys_delSub_sub m id k h)
    simp only [delSub]
    split
    · split
      · exact ih hk.2
      · simp only [keys, List.map_cons, List.nodup_cons]
        exact ⟨hk1, ih hk.2⟩
    · simp only [keys, List.map_cons, List.nodup_cons]
      exact ⟨hk1, ih hk.2⟩

theorem mem_delSub (m : List (Nat × List Nat)) (id : Nat) (p : Nat × List Nat)
    (h : p ∈ delSub m id) : ∃ q ∈ m, p.1 = q.1 ∧ (p.2 = q.2 ∨ p.2 = q.2.erase id) := by
  induction m with
  | nil => cases h
  | cons q m ih =>
    obtain ⟨k, l⟩ := q
    simp only [delSub] at h
    have tail : p ∈ delSub m id → ∃ q ∈ (k, l) :: m, p.1 = q.1 ∧ (p.2 = q.2 ∨ p.2 = q.2.erase id) := by
      intro h
      obtain ⟨q, hq, e⟩ := ih h
      exact ⟨q, List.mem_cons_of_mem _ hq, e⟩
    split at h
    · split at h
      · exact tail h
      · rcases List.mem_cons.mp h with h | h
        · exact ⟨(k, l), by simp, by simp [h]⟩
        · exact tail h
    · rcases List.mem_cons.mp h with h | h
      · exact ⟨(k, l), by simp, by simp [h]⟩
      · exact tail h

theorem WF_delSub (m : List (Nat × List Nat)) (hw : WF m) (id : Nat) : WF (delSub m id) := by
  refine ⟨keys_delSub_nodup m id hw.1, ?_⟩
  intro p hp
  obtain ⟨q, hq, _, e | e⟩ := mem_delSub m id p hp
  · rw [e]; exact hw.2 q hq
  · rw [e]; exact (hw.2 q hq).erase id

/-- `del` removes the subscription from every type's list and nothing else -/
theorem mem_lookup_delSub (m : List (Nat × List Nat)) (hw : WF m) (id : Nat) (t : Nat) (i : Nat) :
    i ∈ lookup (delSub m id) t ↔ i ≠ id ∧ i ∈ lookup m t := by
  induction m with
  | nil => simp [delSub, lookup]
  | cons p m ih =>
    obtain ⟨k, l⟩ := p
    have hw' : WF m := by
      refine ⟨?_, fun p hp => hw.2 p (List.mem_cons_of_mem _ hp)⟩
      have := hw.1
      simp only [keys, List.map_cons, List.nodup_cons] at this
      exact this.2
    have hkm : k ∉ keys m := by
      have := hw.1
      simp only [keys, List.map_cons, List.nodup_cons] at this
      exact this.1
    have hl : l.Nodup := hw.2 (k, l) (by simp)
    simp only [delSub]
    by_cases hkt : k = t
    · subst hkt
      have hnot : lookup (delSub m id) k = [] :=
        lookup_of_not_key _ _ (fun h => hkm (keys_delSub_sub m id k h))
      by_cases hid : id ∈ l
      · rw [if_pos hid]
        by_cases hlen : l.length = 1
        · rw [if_pos hlen, hnot]
          simp only [lookup, if_true]
          -- l = [id]
          match l, hlen, hid with
          | [a], _, hid =>
            simp only [List.mem_singleton] at hid
            subst hid
            simp
        · rw [if_neg hlen]
          simp only [lookup, if_true]
          rw [hl.mem_erase_iff]
      · rw [if_neg hid]
        simp only [lookup, if_true]
        constructor
        · intro h; exact ⟨fun e => hid (e ▸ h), h⟩
        · intro h; exact h.2
    · have step : i ∈ lookup (delSub m id) t ↔ i ≠ id ∧ i ∈ lookup ((k, l) :: m) t := by
        rw [ih hw']; simp [lookup, hkt]
      split
      · split
        · exact step
        · simp only [lookup, if_neg hkt]; rw [ih hw']
      · simp only [lookup, if_neg hkt]; rw [ih hw']

theorem mem_registered (m : List (Nat × List Nat)) (hk : (keys m).Nodup) (i : Nat) :
    i ∈ registered m ↔ ∃ t, i ∈ lookup m t := by
  unfold registered
  simp only [List.mem_flatten, List.mem_map]
  constructor
  · rintro ⟨l, ⟨p, hp, rfl⟩, hi⟩
    exact ⟨p.1, by rw [lookup_mem m hk p.1 p.2 hp]; exact hi⟩
  · rintro ⟨t, hi⟩
    by_cases ht : t ∈ keys m
    · obtain ⟨p, hp, rfl⟩ := List.mem_map.mp ht
      exact ⟨p.2, ⟨p, hp, rfl⟩, by rw [lookup_mem m hk p.1 p.2 hp] at hi; exact hi⟩
    · rw [lookup_of_not_key m t ht] at hi; cases hi

/-! ### the registration loop of `Subscribe` -/

theorem register_spec (id : Nat) (ts : List Nat) :
    ∀ (m : List (Nat × List Nat)) (seen : List Nat), WF m →
      (∀ t, id ∈ lookup m t ↔ t ∈ seen) →
      WF (register id m ts).1 ∧
      (∀ t, id ∈ lookup (register id m ts).1 t ↔ t ∈ seen ∨ t ∈ dupFreePrefix seen ts) ∧
      (∀ t i, i ≠ id → (i ∈ lookup (register id m ts).1 t ↔ i ∈ lookup m t)) ∧
      ((register id m ts).2 = false ↔ dupFreePrefix seen ts = ts) := by
  induction ts with
  | nil =>
    intro m seen hw hs
    exact ⟨hw, by simpa [register, dupFreePrefix] using hs, by simp [register], by simp [register, dupFreePrefix]⟩
  | cons t ts ih =>
    intro m seen hw hs
    by_cases hts : t ∈ seen
    · have hid : id ∈ lookup m t := (hs t).mpr hts
      simp only [register, if_pos hid, dupFreePrefix, if_pos hts]
      exact ⟨hw, by simpa using hs, by simp, by simp⟩
    · have hid : id ∉ lookup m t := fun h => hts ((hs t).mp h)
      have hw' : WF (setKey m t (lookup m t ++ [id])) := by
        apply WF_insert m hw
        exact List.nodup_append.mpr ⟨lookup_nodup m hw t, by simp, by
          intro a ha b hb
          simp only [List.mem_singleton] at hb
          subst hb
          intro e; subst e; exact hid ha⟩
      have hs' : ∀ t', id ∈ lookup (setKey m t (lookup m t ++ [id])) t' ↔ t' ∈ t :: seen := by
        intro t'
        rw [lookup_insert]
        by_cases e : t = t'
        · subst e; simp
        · rw [if_neg e, hs t']
          simp only [List.mem_cons]
          constructor
          · exact Or.inr
          · rintro (h | h)
            · exact absurd h.symm e
            · exact h
      obtain ⟨r1, r2, r3, r4⟩ := ih _ _ hw' hs'
      simp only [register, if_neg hid, dupFreePrefix, if_neg hts]
      refine ⟨r1, ?_, ?_, ?_⟩
      · intro t'
        rw [r2 t']
        simp only [List.mem_cons]
        constructor
        · rintro ((h | h) | h)
          · exact Or.inr (Or.inl h)
          · exact Or.inl h
          · exact Or.inr (Or.inr h)
        · rintro (h | h | h)
          · exact Or.inl (Or.inr h)
          · exact Or.inl (Or.inl h)
          · exact Or.inr h
      · intro t' i hi
        rw [r3 t' i hi, lookup_insert]
        by_cases e : t = t'
        · subst e; simp [hi]
        · rw [if_neg e]
      · rw [r4]
        simp

theorem dupFreePrefix_eq_self (seen ts : List Nat) :
    dupFreePrefix seen ts = ts ↔ ts.Nodup ∧ ∀ t ∈ ts, t ∉ seen := by
  induction ts generalizing seen with
  | nil => simp [dupFreePrefix]
  | cons t ts ih =>
    simp only [dupFreePrefix]
    by_cases h : t ∈ seen
    · simp [h]
    · simp only [if_neg h, List.cons.injEq, true_and, ih, List.nodup_cons, List.mem_cons, not_or]
      constructor
      · rintro ⟨h1, h2⟩
        refine ⟨⟨fun hm => (h2 t hm).1 rfl, h1⟩, ?_⟩
        rintro x (rfl | hx)
        · exact h
        · exact (h2 x hx).2
      · rintro ⟨⟨h1, h2⟩, h3⟩
        refine ⟨h2, fun x hx => ⟨?_, h3 x (Or.inr hx)⟩⟩
        intro e; subst e; exact h1 hx

/-! ### refinement: global dispatcher state vs. the single-subscriber view -/

/-- representation invariant of the dispatcher state -/
structure Inv (s : State) : Prop where
  wf : WF s.subm
  reg : ∀ t i, i ∈ lookup s.subm t → ∃ sub, s.subs[i]? = some sub ∧ sub.closed = false

/-- the view `v` of subscription `id` describes the state `s` -/
structure Rel (s : State) (id : Nat) (v : View) : Prop where
  nextId : v.nextId = s.subs.length
  stopped : v.stopped = s.stopped
  created : v.created = decide (id < s.subs.length)
  sub : ∀ sub, s.subs[id]? = some sub → sub.closed = v.closed ∧ sub.buf = v.delivered.drop v.taken
  taken : v.taken ≤ v.delivered.length
  types : ∀ t, id ∈ lookup s.subm t ↔ t ∈ v.types
  fresh : s.subs.length ≤ id → v.delivered = [] ∧ v.taken = 0

theorem inv_init (cap : Nat) : Inv (init cap) :=
  ⟨⟨by simp [init, keys], by simp [init]⟩, by simp [init, lookup]⟩

theorem rel_init (cap : Nat) (id : Nat) : Rel (init cap) id View.init :=
  ⟨rfl, rfl, by simp [View.init, init], by simp [init], by simp [View.init], by simp [init, lookup, View.init],
   by simp [View.init]⟩

theorem Rel.types_nil_of_fresh {s id v} (hi : Inv s) (hr : Rel s id v) (h : s.subs.length ≤ id) : v.types = [] := by
  cases ht : v.types with
  | nil => rfl
  | cons t ts =>
    have : id ∈ lookup s.subm t := (hr.types t).mpr (by simp [ht])
    obtain ⟨sub, hs, _⟩ := hi.reg t id this
    have := List.getElem?_eq_some_iff.mp hs
    obtain ⟨hlt, _⟩ := this
    omega

theorem step_subscribe {s id v} (ts : List Nat) (hi : Inv s) (hr : Rel s id v) :
    Inv (subscribe s ts).1 ∧ Rel (subscribe s ts).1 id (View.step s.cap id v (.subscribe ts)) := by
  have hnot : ∀ t, ¬ s.subs.length ∈ lookup s.subm t := by
    intro t h
    obtain ⟨sub, hs, _⟩ := hi.reg t _ h
    have := (List.getElem?_eq_some_iff.mp hs).1
    omega
  unfold subscribe
  by_cases hst : s.stopped = true
  · simp only [hst, if_true]
    refine ⟨⟨hi.wf, ?_⟩, ?_⟩
    · intro t i h
      obtain ⟨sub, hs, hc⟩ := hi.reg t i h
      have hlt := (List.getElem?_eq_some_iff.mp hs).1
      exact ⟨sub, by simp only []; rw [List.getElem?_append_left hlt]; exact hs, hc⟩
    · have hvs : v.stopped = true := by rw [hr.stopped]; exact hst
      by_cases hid : v.nextId = id
      · have hid' : s.subs.length = id := by rw [← hr.nextId]; exact hid
        simp only [View.step, hid, if_true, hvs]
        have hf := hr.fresh (by omega)
        refine ⟨by simp [hid'], by simp [hvs, hst], by simp [hid'], ?_, by simp [hf.1, hf.2], ?_, ?_⟩
        · intro sub hs
          simp only [] at hs
          rw [← hid', List.getElem?_append_right (Nat.le_refl _)] at hs
          simp at hs
          subst hs
          simp [hf.1]
        · intro t
          simp only [List.not_mem_nil, iff_false]
          rw [← hid']; exact hnot t
        · intro h; simp at h; omega
      · have hid' : s.subs.length ≠ id := by rw [← hr.nextId]; exact hid
        simp only [View.step, if_neg hid]
        refine ⟨by simp [hr.nextId], by simp [hvs], ?_, ?_, hr.taken, hr.types, ?_⟩
        · simp only [hr.created, List.length_append, List.length_singleton]
          apply decide_eq_decide.mpr
          constructor <;> intro h <;> omega
        · intro sub hs
          simp only [] at hs
          by_cases h : id < s.subs.length
          · rw [List.getElem?_append_left h] at hs; exact hr.sub sub hs
          · have : s.subs.length < id := by omega
            rw [List.getElem?_append_right (by omega)] at hs
            have : id - s.subs.length ≠ 0 := by omega
            cases hh : id - s.subs.length with
            | zero => omega
            | succ k => rw [hh] at hs; simp at hs
        · intro h; simp at h; exact hr.fresh (by omega)
  · have hst' : s.stopped = false := by cases h : s.stopped <;> simp_all
    simp only [hst', Bool.false_eq_true, if_false]
    obtain ⟨r1, r2, r3, _⟩ := register_spec s.subs.length ts s.subm [] hi.wf (by
      intro t; simp only [List.not_mem_nil, iff_false]; exact hnot t)
    generalize hreg : register s.subs.length s.subm ts = rr at r1 r2 r3
    obtain ⟨m, dup⟩ := rr
    simp only [] at r1 r2 r3 ⊢
    refine ⟨⟨r1, ?_⟩, ?_⟩
    · intro t i h
      by_cases hii : i = s.subs.length
      · subst hii
        exact ⟨{ closed := false, buf := [] }, by simp, rfl⟩
      · have := (r3 t i hii).mp h
        obtain ⟨sub, hs, hc⟩ := hi.reg t i this
        have hlt := (List.getElem?_eq_some_iff.mp hs).1
        exact ⟨sub, by rw [List.getElem?_append_left hlt]; exact hs, hc⟩
    · have hvs : v.stopped = false := by rw [hr.stopped]; exact hst'
      by_cases hid : v.nextId = id
      · have hid' : s.subs.length = id := by rw [← hr.nextId]; exact hid
        simp only [View.step, hid, if_true, hvs, Bool.false_eq_true, if_false]
        have hf := hr.fresh (by omega)
        refine ⟨by simp [hid'], by simp [hvs, hst'], by simp [hid'], ?_, by simp [hf.1, hf.2], ?_, ?_⟩
        · intro sub hs
          rw [← hid', List.getElem?_append_right (Nat.le_refl _)] at hs
          simp at hs
          subst hs
          simp [hf.1]
        · intro t
          rw [← hid', r2 t]; simp
        · intro h; simp at h; omega
      · have hid' : s.subs.length ≠ id := by rw [← hr.nextId]; exact hid
        simp only [View.step, if_neg hid]
        refine ⟨by simp [hr.nextId], by simp [hvs, hst'], ?_, ?_, hr.taken, ?_, ?_⟩
        · simp only [hr.created, List.length_append, List.length_singleton]
          apply decide_eq_decide.mpr
          constructor <;> intro h <;> omega
        · intro sub hs
          by_cases h : id < s.subs.length
          · rw [List.getElem?_append_left h] at hs; exact hr.sub sub hs
          · rw [List.getElem?_append_right (by omega)] at hs
            cases hh : id - s.subs.length with
            | zero => omega
            | succ k => rw [hh] at hs; simp at hs
        · intro t
          rw [r3 t id (fun e => hid' e.symm)]; exact hr.types t
        · intro h; simp at h; exact hr.fresh (by omega)

theorem deliver_closed (cap : Nat) (e : Ev) (x : Sub) : (deliver cap e x).closed = x.closed := by
  unfold deliver; split
  · rfl
  · split <;> rfl

theorem step_post {s id v} (e : Ev) (hi : Inv s) (hr : Rel s id v) :
    Inv (post s e).1 ∧ Rel (post s e).1 id (View.step s.cap id v (.post e)) := by
  unfold post
  by_cases hst : s.stopped = true
  · have hvs : v.stopped = true := by rw [hr.stopped]; exact hst
    simp only [hst, if_true, View.step, hvs, Bool.not_true, Bool.false_and, Bool.false_eq_true, if_false]
    exact ⟨hi, hr⟩
  · have hst' : s.stopped = false := by cases h : s.stopped <;> simp_all
    have hvs : v.stopped = false := by rw [hr.stopped]; exact hst'
    simp only [hst', Bool.false_eq_true, if_false]
    have hnd := lookup_nodup s.subm hi.wf e.typ
    have hget := fun i => getElem?_foldl_modAt (deliver s.cap e) (lookup s.subm e.typ) hnd s.subs i
    refine ⟨⟨hi.wf, ?_⟩, ?_⟩
    · intro t i h
      obtain ⟨sub, hs, hc⟩ := hi.reg t i h
      simp only []
      rw [hget i, hs]
      split
      · exact ⟨deliver s.cap e sub, rfl, by rw [deliver_closed]; exact hc⟩
      · exact ⟨sub, rfl, hc⟩
    · by_cases hmem : e.typ ∈ v.types
      · have hin : id ∈ lookup s.subm e.typ := (hr.types _).mpr hmem
        obtain ⟨sub0, hs0, hc0⟩ := hi.reg _ _ hin
        obtain ⟨hcl, hbuf⟩ := hr.sub sub0 hs0
        have hlen : sub0.buf.length = v.delivered.length - v.taken := by rw [hbuf]; simp
        simp only [View.step, hvs, Bool.not_false, Bool.true_and, hmem, decide_true, if_true]
        by_cases hroom : v.delivered.length - v.taken < s.cap
        · simp only [hroom, if_true]
          refine ⟨by simp [hr.nextId, length_foldl_modAt], by simp [hvs], by simp [hr.created, length_foldl_modAt], ?_, ?_, hr.types, ?_⟩
          · intro sub hs
            simp only [] at hs
            rw [hget id, if_pos hin, hs0] at hs
            simp only [Option.map_some, Option.some.injEq] at hs
            subst hs
            have : deliver s.cap e sub0 = { sub0 with buf := sub0.buf ++ [e] } := by
              unfold deliver; simp [hc0, hlen, hroom]
            rw [this]
            refine ⟨hcl, ?_⟩
            simp only []
            rw [hbuf, List.drop_append_of_le_length hr.taken]
          · simp only [List.length_append, List.length_singleton]; have := hr.taken; omega
          · intro h
            simp only [length_foldl_modAt] at h
            have := (List.getElem?_eq_some_iff.mp hs0).1
            omega
        · simp only [hroom, if_false]
          refine ⟨by simp [hr.nextId, length_foldl_modAt], by simp [hvs], by simp [hr.created, length_foldl_modAt], ?_, hr.taken, hr.types, ?_⟩
          · intro sub hs
            simp only [] at hs
            rw [hget id, if_pos hin, hs0] at hs
            simp only [Option.map_some, Option.some.injEq] at hs
            subst hs
            have : deliver s.cap e sub0 = sub0 := by
              unfold deliver; simp [hc0, hlen, hroom]
            rw [this]; exact ⟨hcl, hbuf⟩
          · intro h
            simp only [length_foldl_modAt] at h
            exact hr.fresh h
      · have hin : id ∉ lookup s.subm e.typ := fun h => hmem ((hr.types _).mp h)
        simp only [View.step, hvs, Bool.not_false, Bool.true_and, hmem, decide_false, Bool.false_eq_true, if_false]
        refine ⟨by simp [hr.nextId, length_foldl_modAt], by simp [hvs], by simp [hr.created, length_foldl_modAt], ?_, hr.taken, hr.types, ?_⟩
        · intro sub hs
          simp only [] at hs
          rw [hget id, if_neg hin] at hs
          exact hr.sub sub hs
        · intro h
          simp only [length_foldl_modAt] at h
          exact hr.fresh h

theorem step_unsubscribe {s id v} (i : Nat) (hi : Inv s) (hr : Rel s id v) :
    Inv (unsubscribe s i).1 ∧ Rel (unsubscribe s i).1 id (View.step s.cap id v (.unsubscribe i)) := by
  unfold unsubscribe
  by_cases hlt : i < s.subs.length
  · simp only [hlt, if_true]
    refine ⟨⟨WF_delSub _ hi.wf i, ?_⟩, ?_⟩
    · intro t j h
      obtain ⟨hne, hj⟩ := (mem_lookup_delSub s.subm hi.wf i t j).mp h
      obtain ⟨sub, hs, hc⟩ := hi.reg t j hj
      exact ⟨sub, by simp only []; rw [getElem?_modAt, if_neg hne]; exact hs, hc⟩
    · by_cases hid : i = id
      · subst hid
        have hcr : v.created = true := by rw [hr.created]; exact decide_eq_true hlt
        simp only [View.step, hcr, and_self, if_true]
        refine ⟨by simp [hr.nextId, length_modAt], hr.stopped, by simp [hcr, hlt, length_modAt], ?_, hr.taken, ?_, ?_⟩
        · intro sub hs
          simp only [] at hs
          rw [getElem?_modAt, if_pos rfl] at hs
          cases h0 : s.subs[i]? with
          | none => rw [h0] at hs; simp at hs
          | some sub0 =>
            rw [h0] at hs
            simp only [Option.map_some, Option.some.injEq] at hs
            subst hs
            exact ⟨rfl, (hr.sub sub0 h0).2⟩
        · intro t
          simp only [List.not_mem_nil, iff_false]
          intro h
          exact ((mem_lookup_delSub s.subm hi.wf i t i).mp h).1 rfl
        · intro h; simp only [length_modAt] at h; omega
      · have : ¬ (i = id ∧ v.created = true) := fun h => hid h.1
        simp only [View.step, this, if_false]
        refine ⟨by simp [hr.nextId, length_modAt], hr.stopped, by simp [hr.created, length_modAt], ?_, hr.taken, ?_, ?_⟩
        · intro sub hs
          simp only [] at hs
          rw [getElem?_modAt, if_neg (fun e => hid e.symm)] at hs
          exact hr.sub sub hs
        · intro t
          rw [mem_lookup_delSub s.subm hi.wf i t id, ← hr.types t]
          constructor
          · exact fun h => h.2
          · exact fun h => ⟨fun e => hid e.symm, h⟩
        · intro h; simp only [length_modAt] at h; exact hr.fresh h
  · simp only [hlt, if_false]
    refine ⟨hi, ?_⟩
    have : ¬ (i = id ∧ v.created = true) := by
      rintro ⟨rfl, hc⟩
      rw [hr.created] at hc
      simp at hc; omega
    simp only [View.step, this, if_false]
    exact hr

theorem closeSub_idem (x : Sub) : closeSub (closeSub x) = closeSub x := rfl

theorem step_stop {s id v} (hi : Inv s) (hr : Rel s id v) :
    Inv (stop s).1 ∧ Rel (stop s).1 id (View.step s.cap id v .stop) := by
  unfold stop
  refine ⟨⟨⟨by simp [keys], by simp⟩, by simp [lookup]⟩, ?_⟩
  have hget := fun i => getElem?_foldl_modAt_idem closeSub closeSub_idem (registered s.subm) s.subs i
  simp only [View.step]
  refine ⟨by simp [hr.nextId, length_foldl_modAt], rfl, by simp [hr.created, length_foldl_modAt], ?_, hr.taken, by simp [lookup], ?_⟩
  · intro sub hs
    simp only [] at hs
    rw [hget id] at hs
    by_cases hreg : id ∈ registered s.subm
    · rw [if_pos hreg] at hs
      obtain ⟨t, ht⟩ := (mem_registered s.subm hi.wf.1 id).mp hreg
      have htm : t ∈ v.types := (hr.types t).mp ht
      have hne : v.types.isEmpty = false := by
        cases hh : v.types with
        | nil => rw [hh] at htm; cases htm
        | cons a b => rfl
      cases h0 : s.subs[id]? with
      | none => rw [h0] at hs; simp at hs
      | some sub0 =>
        rw [h0] at hs
        simp only [Option.map_some, Option.some.injEq] at hs
        subst hs
        simp only [hne, Bool.not_false, Bool.or_true]
        exact ⟨rfl, (hr.sub sub0 h0).2⟩
    · rw [if_neg hreg] at hs
      have hnil : v.types = [] := by
        cases hh : v.types with
        | nil => rfl
        | cons a b =>
          exfalso; apply hreg
          exact (mem_registered s.subm hi.wf.1 id).mpr ⟨a, (hr.types a).mpr (by simp [hh])⟩
      simp only [hnil, List.isEmpty_nil, Bool.not_true, Bool.or_false]
      exact hr.sub sub hs
  · intro h; simp only [length_foldl_modAt] at h; exact hr.fresh h

theorem step_recv {s id v} (i : Nat) (hi : Inv s) (hr : Rel s id v) :
    Inv (recv s i).1 ∧ Rel (recv s i).1 id (View.step s.cap id v (.recv i)) ∧
    (∀ r, View.expect id v (.recv i) = some r → (recv s i).2 = r) := by
  unfold recv
  cases h0 : s.subs[i]? with
  | none =>
    simp only []
    have hge : s.subs.length ≤ i := by
      rcases Nat.lt_or_ge i s.subs.length with h | h
      · have := List.getElem?_eq_getElem h; rw [this] at h0; cases h0
      · exact h
    have hnc : ¬ (i = id ∧ v.taken < v.delivered.length) := by
      rintro ⟨rfl, h⟩
      have := hr.fresh hge
      rw [this.1, this.2] at h; simp at h
    simp only [View.step, hnc, if_false]
    refine ⟨hi, hr, ?_⟩
    intro r hexp
    simp only [View.expect] at hexp
    split at hexp
    · rename_i hc
      obtain ⟨rfl, hcr⟩ := hc
      rw [hr.created] at hcr; simp at hcr; omega
    · cases hexp
  | some sub0 =>
    simp only []
    cases hb : sub0.buf with
    | nil =>
      simp only []
      have hnc : ¬ (i = id ∧ v.taken < v.delivered.length) := by
        rintro ⟨rfl, h⟩
        have := (hr.sub sub0 h0).2
        rw [hb] at this
        have hl := congrArg List.length this
        simp at hl; omega
      simp only [View.step, hnc, if_false]
      refine ⟨hi, hr, ?_⟩
      intro r hexp
      simp only [View.expect] at hexp
      split at hexp
      · rename_i hc
        obtain ⟨rfl, _⟩ := hc
        obtain ⟨hcl, hbuf⟩ := hr.sub sub0 h0
        rw [hb] at hbuf
        have hnone : v.delivered[v.taken]? = none := by
          have hl := congrArg List.length hbuf
          simp at hl
          exact List.getElem?_eq_none (by omega)
        rw [hnone] at hexp
        simp only [Option.some.injEq] at hexp
        rw [← hexp, hcl]
      · cases hexp
    | cons e rest =>
      simp only []
      refine ⟨⟨hi.wf, ?_⟩, ?_, ?_⟩
      · intro t j h
        obtain ⟨sub, hs, hc⟩ := hi.reg t j h
        rw [getElem?_modAt]
        split
        · rw [hs]; exact ⟨_, rfl, hc⟩
        · exact ⟨sub, hs, hc⟩
      · by_cases hid : i = id
        · subst hid
          obtain ⟨hcl, hbuf⟩ := hr.sub sub0 h0
          rw [hb] at hbuf
          have hl := congrArg List.length hbuf
          simp at hl
          have hlt : v.taken < v.delivered.length := by omega
          simp only [View.step, hlt, and_self, if_true]
          refine ⟨by simp [hr.nextId, length_modAt], hr.stopped, by simp [hr.created, length_modAt], ?_, by simp; omega, hr.types, ?_⟩
          · intro sub hs
            rw [getElem?_modAt, if_pos rfl, h0] at hs
            simp only [Option.map_some, Option.some.injEq] at hs
            subst hs
            refine ⟨hcl, ?_⟩
            simp only []
            have : v.delivered.drop (v.taken + 1) = (v.delivered.drop v.taken).tail := by
              rw [List.tail_drop]
            rw [this, ← hbuf]; rfl
          · intro h; simp only [length_modAt] at h
            have := (List.getElem?_eq_some_iff.mp h0).1
            omega
        · have hnc : ¬ (i = id ∧ v.taken < v.delivered.length) := fun h => hid h.1
          simp only [View.step, hnc, if_false]
          refine ⟨by simp [hr.nextId, length_modAt], hr.stopped, by simp [hr.created, length_modAt], ?_, hr.taken, hr.types, ?_⟩
          · intro sub hs
            rw [getElem?_modAt, if_neg (fun e => hid e.symm)] at hs
            exact hr.sub sub hs
          · intro h; simp only [length_modAt] at h; exact hr.fresh h
      · intro r hexp
        simp only [View.expect] at hexp
        split at hexp
        · rename_i hc
          obtain ⟨rfl, _⟩ := hc
          obtain ⟨hcl, hbuf⟩ := hr.sub sub0 h0
          rw [hb] at hbuf
          have hsome : v.delivered[v.taken]? = some e := by
            have := List.getElem?_drop (xs := v.delivered) (i := v.taken) (j := 0)
            rw [← hbuf] at this
            simpa using this.symm
          rw [hsome] at hexp
          simp only [Option.some.injEq] at hexp
          exact hexp
        · cases hexp

theorem step_isClosed {s id v} (i : Nat) (hi : Inv s) (hr : Rel s id v) :
    Inv (isClosed s i).1 ∧ Rel (isClosed s i).1 id (View.step s.cap id v (.isClosed i)) ∧
    (∀ r, View.expect id v (.isClosed i) = some r → (isClosed s i).2 = r) := by
  unfold isClosed
  cases h0 : s.subs[i]? with
  | none =>
    refine ⟨hi, hr, ?_⟩
    intro r hexp
    simp only [View.expect] at hexp
    split at hexp
    · rename_i hc
      obtain ⟨rfl, hcr⟩ := hc
      rw [hr.created] at hcr
      simp at hcr
      have := List.getElem?_eq_getElem hcr
      rw [this] at h0; cases h0
    · cases hexp
  | some sub0 =>
    refine ⟨hi, hr, ?_⟩
    intro r hexp
    simp only [View.expect] at hexp
    split at hexp
    · rename_i hc
      obtain ⟨rfl, _⟩ := hc
      simp only [Option.some.injEq] at hexp
      simp only [← hexp, (hr.sub sub0 h0).1]
    · cases hexp

theorem step_cap (s : State) (o : Op) : (step s o).1.cap = s.cap := by
  cases o <;> simp only [step]
  · unfold subscribe; split
    · rfl
    · rfl
  · unfold post; split <;> rfl
  · unfold unsubscribe; split <;> rfl
  · rfl
  · unfold recv; split
    · rfl
    · split <;> rfl
  · unfold isClosed; split <;> rfl

/-- one step of the dispatcher is one step of every subscriber's view -/
theorem step_refines {s id v} (o : Op) (hi : Inv s) (hr : Rel s id v) :
    Inv (step s o).1 ∧ Rel (step s o).1 id (View.step s.cap id v o) ∧
    (∀ r, View.expect id v o = some r → (step s o).2 = r) := by
  cases o with
  | subscribe ts => exact ⟨(step_subscribe ts hi hr).1, (step_subscribe ts hi hr).2, by simp [View.expect]⟩
  | post e => exact ⟨(step_post e hi hr).1, (step_post e hi hr).2, by simp [View.expect]⟩
  | unsubscribe i => exact ⟨(step_unsubscribe i hi hr).1, (step_unsubscribe i hi hr).2, by simp [View.expect]⟩
  | stop => exact ⟨(step_stop hi hr).1, (step_stop hi hr).2, by simp [View.expect]⟩
  | recv i => exact step_recv i hi hr
  | isClosed i => exact step_isClosed i hi hr

end BytomModel.Lemmas.Event
