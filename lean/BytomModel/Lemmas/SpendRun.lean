/-
C02: frame-level runs (`FSteps`, `FFinal`) of CHECKPREDICATE-free code, their lifting to the
small-step machine under any stack of suspended parents, CHECKPREDICATE itself, the initial
pushes of `Verify`, and `verifyFuel`.
-/
import BytomModel.Lemmas.SpendOps

namespace BytomModel.Lemmas.SpendExec
open BytomModel.VM OpM

abbrev Fr := Frame Bytes
abbrev Mach := Machine Unit Bytes

/-- `k` instructions of one VM, none of them CHECKPREDICATE, none failing -/
inductive FSteps (ctx : Context Bytes) : Nat → Fr → Fr → Prop
  | refl (f : Fr) : FSteps ctx 0 f f
  | step {k : Nat} {f g h : Fr} : f.pc < progLen valueMem f →
      frameStep valueMem ctx ⟨(), f⟩ = .ok .continue_ ⟨(), g⟩ → FSteps ctx k g h → FSteps ctx (k + 1) f h

/-- how `run()` of one VM ends at frame `g`: the pc ran off the program, or the instruction fails -/
inductive FFinal (ctx : Context Bytes) : Fr → Fr → Option Err → Prop
  | done {g : Fr} : ¬ g.pc < progLen valueMem g → FFinal ctx g g none
  | fail {g f' : Fr} {er : Err} : g.pc < progLen valueMem g →
      frameStep valueMem ctx ⟨(), g⟩ = .err er ⟨(), f'⟩ → FFinal ctx g f' (some er)

theorem FSteps.one {ctx : Context Bytes} {f g : Fr} (hpc : f.pc < progLen valueMem f)
    (h : frameStep valueMem ctx ⟨(), f⟩ = .ok .continue_ ⟨(), g⟩) : FSteps ctx 1 f g :=
  .step hpc h (.refl g)

theorem FSteps.trans {ctx : Context Bytes} {j k : Nat} {f g h : Fr} (a : FSteps ctx j f g) (b : FSteps ctx k g h) :
    FSteps ctx (j + k) f h := by
  induction a with
  | refl f => simpa using b
  | @step j f g' h' hpc hs _ ih =>
    have := FSteps.step hpc hs (ih b)
    rw [show j + 1 + k = j + k + 1 by omega]
    exact this

theorem smallStep_cont {ctx : Context Bytes} {f g : Fr} (parents : List Fr) (hpc : f.pc < progLen valueMem f)
    (h : frameStep valueMem ctx ⟨(), f⟩ = .ok .continue_ ⟨(), g⟩) :
    smallStep valueMem ctx ⟨(), f, parents⟩ = .inl ⟨(), g, parents⟩ := by
  unfold smallStep
  have : ¬ f.pc ≥ progLen valueMem f := by omega
  simp only [this, if_false, h]

theorem smallStep_final {ctx : Context Bytes} {g f' : Fr} {er : Option Err} (parents : List Fr) (h : FFinal ctx g f' er) :
    smallStep valueMem ctx ⟨(), g, parents⟩ = finish valueMem () f' er parents := by
  cases h with
  | done hpc =>
    unfold smallStep
    have : g.pc ≥ progLen valueMem g := by omega
    simp only [this, if_true]
  | fail hpc hs =>
    unfold smallStep
    have : ¬ g.pc ≥ progLen valueMem g := by omega
    simp only [this, if_false, hs]

/-- the machine follows the frame-level run whatever the suspended parents are -/
theorem runFuel_FSteps {ctx : Context Bytes} {k : Nat} {f g : Fr} (h : FSteps ctx k f g) (parents : List Fr) (fuel : Nat) :
    runFuel valueMem ctx (fuel + k) ⟨(), f, parents⟩ = runFuel valueMem ctx fuel ⟨(), g, parents⟩ := by
  induction h with
  | refl f => rfl
  | @step k f g' h' hpc hs _ ih =>
    rw [show fuel + (k + 1) = (fuel + k) + 1 by omega]
    simp only [runFuel, smallStep_cont parents hpc hs]
    exact ih

theorem runFuel_final {ctx : Context Bytes} {g f' : Fr} {er : Option Err} (h : FFinal ctx g f' er) (parents : List Fr)
    (fuel : Nat) :
    runFuel valueMem ctx (fuel + 1) ⟨(), g, parents⟩ =
      match finish valueMem () f' er parents with
      | .inl m' => runFuel valueMem ctx fuel m'
      | .inr fin => some fin := by
  simp only [runFuel, smallStep_final parents h]
  cases finish valueMem () f' er parents <;> rfl

/-! ### one instruction as a frame step -/

/-- assemble a frame step from the handler's result -/
theorem frameStep_of_exec (ctx : Context Bytes) (P : Bytes) (pc np : Nat) (rl df : Int) (data alt : List Bytes) (d : Nat)
    (e : Bool) (inst : Inst) (hparse : parseOpL P.length P pc = .ok inst) (hexp : isExpansion inst.op = false)
    (hcp : inst.op ≠ 0xc0) (rl' df' : Int) (data' : List Bytes)
    (hexec : execOp valueMem ctx inst.op inst.data ⟨(), ⟨P, pc, pc + inst.len, rl, 0, data, alt, d, e⟩⟩ =
      .ok () ⟨(), ⟨P, pc, pc + inst.len, rl', df', data', alt, d, e⟩⟩)
    (hdf : df' ≤ rl') :
    frameStep valueMem ctx ⟨(), ⟨P, pc, np, rl, df, data, alt, d, e⟩⟩ =
      .ok .continue_ ⟨(), ⟨P, pc + inst.len, pc + inst.len, rl' - df', df', data', alt, d, e⟩⟩ := by
  rw [frameStep_op ctx _ inst hparse hexp hcp]
  simp only [hexec]
  rw [applyCost_ok _ _ _ _ _ _ _ _ _ _ hdf]

theorem frameStep_of_exec_err (ctx : Context Bytes) (P : Bytes) (pc np : Nat) (rl df : Int) (data alt : List Bytes) (d : Nat)
    (e : Bool) (inst : Inst) (hparse : parseOpL P.length P pc = .ok inst) (hexp : isExpansion inst.op = false)
    (hcp : inst.op ≠ 0xc0) (er : Err) (s' : VS)
    (hexec : execOp valueMem ctx inst.op inst.data ⟨(), ⟨P, pc, pc + inst.len, rl, 0, data, alt, d, e⟩⟩ = .err er s') :
    frameStep valueMem ctx ⟨(), ⟨P, pc, np, rl, df, data, alt, d, e⟩⟩ = .err er s' := by
  rw [frameStep_op ctx _ inst hparse hexp hcp]
  simp only [hexec]

theorem progLen_lt (P : Bytes) (pc np : Nat) (rl df : Int) (data alt : List Bytes) (d : Nat) (e : Bool)
    (hlen : P.length ≤ maxInt32) (h : pc < P.length) :
    (⟨P, pc, np, rl, df, data, alt, d, e⟩ : Fr).pc < progLen valueMem ⟨P, pc, np, rl, df, data, alt, d, e⟩ := by
  simp only [progLen, vlen, len_mod _ hlen]
  exact h

theorem progLen_end (P : Bytes) (np : Nat) (rl df : Int) (data alt : List Bytes) (d : Nat) (e : Bool)
    (hlen : P.length ≤ maxInt32) :
    ¬ (⟨P, P.length, np, rl, df, data, alt, d, e⟩ : Fr).pc < progLen valueMem ⟨P, P.length, np, rl, df, data, alt, d, e⟩ := by
  simp only [progLen, vlen, len_mod _ hlen]
  omega

/-- positional forms of the parse lemmas -/
theorem parse_plain' (P pre suf : Bytes) (b : UInt8) (pc n : Nat) (hP : P = pre ++ b :: suf) (hpc : pc = pre.length)
    (hn : b.toNat = n) (hlen : P.length ≤ maxInt32)
    (h1 : ¬ (0x51 ≤ n ∧ n ≤ 0x60)) (h2 : ¬ (1 ≤ n ∧ n ≤ 0x4e)) (h3 : n ≠ 0x63) (h4 : n ≠ 0x64) :
    parseOpL P.length P pc = .ok ⟨n, 1, []⟩ := by
  subst hP hpc hn
  exact parse_plain pre suf b hlen h1 h2 h3 h4

theorem parse_small' (P pre suf : Bytes) (b : UInt8) (pc n : Nat) (hP : P = pre ++ b :: suf) (hpc : pc = pre.length)
    (hn : b.toNat = n) (hlen : P.length ≤ maxInt32) (h1 : 0x51 ≤ n ∧ n ≤ 0x60) :
    parseOpL P.length P pc = .ok ⟨n, 1, [UInt8.ofNat (n - 0x51 + 1)]⟩ := by
  subst hP hpc hn
  exact parse_small pre suf b hlen h1

theorem parse_push' (P pre dt suf : Bytes) (b : UInt8) (pc : Nat) (hP : P = pre ++ b :: (dt ++ suf)) (hpc : pc = pre.length)
    (hb : b.toNat = dt.length) (hd1 : 1 ≤ dt.length) (hd2 : dt.length ≤ 75) (hlen : P.length ≤ maxInt32) :
    parseOpL P.length P pc = .ok ⟨dt.length, 1 + dt.length, dt⟩ := by
  subst hP hpc
  exact parse_push pre dt suf b hb hd1 hd2 hlen

/-- one successful instruction as a one-step frame run -/
theorem fstep (ctx : Context Bytes) (P : Bytes) (pc np : Nat) (rl df : Int) (data alt : List Bytes) (d : Nat)
    (e : Bool) (op len : Nat) (dt : Bytes) (hparse : parseOpL P.length P pc = .ok ⟨op, len, dt⟩)
    (hexp : isExpansion op = false) (hcp : op ≠ 0xc0) (rl' df' : Int) (data' : List Bytes)
    (hexec : execOp valueMem ctx op dt ⟨(), ⟨P, pc, pc + len, rl, 0, data, alt, d, e⟩⟩ =
      .ok () ⟨(), ⟨P, pc, pc + len, rl', df', data', alt, d, e⟩⟩)
    (hdf : df' ≤ rl') (hlen : P.length ≤ maxInt32) (hpc : pc < P.length) :
    FSteps ctx 1 ⟨P, pc, np, rl, df, data, alt, d, e⟩
      ⟨P, pc + len, pc + len, rl' - df', df', data', alt, d, e⟩ :=
  FSteps.one (progLen_lt P pc np rl df data alt d e hlen hpc)
    (frameStep_of_exec ctx P pc np rl df data alt d e ⟨op, len, dt⟩ hparse hexp hcp rl' df' data' hexec hdf)

/-- one failing instruction ends the frame's run -/
theorem ffail (ctx : Context Bytes) (P : Bytes) (pc np : Nat) (rl df : Int) (data alt : List Bytes) (d : Nat)
    (e : Bool) (op len : Nat) (dt : Bytes) (hparse : parseOpL P.length P pc = .ok ⟨op, len, dt⟩)
    (hexp : isExpansion op = false) (hcp : op ≠ 0xc0) (er : Err) (f' : Fr)
    (hexec : execOp valueMem ctx op dt ⟨(), ⟨P, pc, pc + len, rl, 0, data, alt, d, e⟩⟩ = .err er ⟨(), f'⟩)
    (hlen : P.length ≤ maxInt32) (hpc : pc < P.length) :
    FFinal ctx ⟨P, pc, np, rl, df, data, alt, d, e⟩ f' (some er) :=
  FFinal.fail (progLen_lt P pc np rl df data alt d e hlen hpc)
    (frameStep_of_exec_err ctx P pc np rl df data alt d e ⟨op, len, dt⟩ hparse hexp hcp er ⟨(), f'⟩ hexec)

/-- `ffail` at the frame a run has reached (the run only fixes the frame for unification) -/
theorem FSteps.fail {ctx : Context Bytes} {k : Nat} {f : Fr} {P : Bytes} {pc np : Nat} {rl df : Int} {data alt : List Bytes}
    {d : Nat} {e : Bool} (_c : FSteps ctx k f ⟨P, pc, np, rl, df, data, alt, d, e⟩)
    (op len : Nat) (dt : Bytes) (hparse : parseOpL P.length P pc = .ok ⟨op, len, dt⟩)
    (hexp : isExpansion op = false) (hcp : op ≠ 0xc0) (er : Err) (f' : Fr)
    (hexec : execOp valueMem ctx op dt ⟨(), ⟨P, pc, pc + len, rl, 0, data, alt, d, e⟩⟩ = .err er ⟨(), f'⟩)
    (hlen : P.length ≤ maxInt32) (hpc : pc < P.length) :
    FFinal ctx ⟨P, pc, np, rl, df, data, alt, d, e⟩ f' (some er) :=
  ffail ctx P pc np rl df data alt d e op len dt hparse hexp hcp er f' hexec hlen hpc

/-- the run has reached the end of the program -/
theorem FSteps.done {ctx : Context Bytes} {k : Nat} {f : Fr} {P : Bytes} {pc np : Nat} {rl df : Int} {data alt : List Bytes}
    {d : Nat} {e : Bool} (_c : FSteps ctx k f ⟨P, pc, np, rl, df, data, alt, d, e⟩)
    (hlen : P.length ≤ maxInt32) (hpc : pc = P.length) :
    FFinal ctx ⟨P, pc, np, rl, df, data, alt, d, e⟩ ⟨P, pc, np, rl, df, data, alt, d, e⟩ none := by
  subst hpc
  exact FFinal.done (progLen_end P np rl df data alt d e hlen)

/-! ### the initial pushes of `Verify` -/

theorem pushItem_nd (x : Bytes) (P : Bytes) (pc np : Nat) (rl df : Int) (data alt : List Bytes) (d : Nat) (e : Bool)
    (hg : 8 + (x.length : Int) ≤ rl) :
    pushItem valueMem x false (⟨(), ⟨P, pc, np, rl, df, data, alt, d, e⟩⟩ : VS) =
      .ok () ⟨(), ⟨P, pc, np, rl - (8 + x.length), df, x :: data, alt, d, e⟩⟩ := by
  simp (disch := omega) [pushItem, itemCost, applyCost_ok]

theorem pushAlt_ok (x : Bytes) (P : Bytes) (pc np : Nat) (rl df : Int) (data alt : List Bytes) (d : Nat) (e : Bool)
    (hg : 8 + (x.length : Int) ≤ rl) :
    pushAlt valueMem x (⟨(), ⟨P, pc, np, rl, df, data, alt, d, e⟩⟩ : VS) =
      .ok () ⟨(), ⟨P, pc, np, rl - (8 + x.length), df, data, x :: alt, d, e⟩⟩ := by
  simp (disch := omega) [pushAlt, itemCost, applyCost_ok]

theorem pushArgs_ok (xs : List Bytes) (P : Bytes) (pc np : Nat) (rl df : Int) (data alt : List Bytes) (d : Nat) (e : Bool)
    (hg : stackCost List.length xs ≤ rl) :
    pushAll (fun x => pushItem valueMem x false) xs (⟨(), ⟨P, pc, np, rl, df, data, alt, d, e⟩⟩ : VS) =
      .ok () ⟨(), ⟨P, pc, np, rl - stackCost List.length xs, df, xs.reverse ++ data, alt, d, e⟩⟩ := by
  induction xs generalizing rl data with
  | nil => simp [pushAll, stackCost]
  | cons x xs ih =>
    have hc : 0 ≤ stackCost List.length xs := by
      clear ih hg
      induction xs with
      | nil => simp [stackCost]
      | cons y ys ih => simp [stackCost]; omega
    simp only [stackCost] at hg
    simp only [pushAll, bind_def]
    rw [pushItem_nd _ _ _ _ _ _ _ _ _ _ (by omega)]
    simp only []
    rw [ih _ _ (by omega)]
    simp [stackCost]; omega

theorem pushAlts_ok (xs : List Bytes) (P : Bytes) (pc np : Nat) (rl df : Int) (data alt : List Bytes) (d : Nat) (e : Bool)
    (hg : stackCost List.length xs ≤ rl) :
    pushAll (pushAlt valueMem) xs (⟨(), ⟨P, pc, np, rl, df, data, alt, d, e⟩⟩ : VS) =
      .ok () ⟨(), ⟨P, pc, np, rl - stackCost List.length xs, df, data, xs.reverse ++ alt, d, e⟩⟩ := by
  induction xs generalizing rl alt with
  | nil => simp [pushAll, stackCost]
  | cons x xs ih =>
    have hc : 0 ≤ stackCost List.length xs := by
      clear ih hg
      induction xs with
      | nil => simp [stackCost]
      | cons y ys ih => simp [stackCost]; omega
    simp only [stackCost] at hg
    simp only [pushAll, bind_def]
    rw [pushAlt_ok _ _ _ _ _ _ _ _ _ _ (by omega)]
    simp only []
    rw [ih _ _ (by omega)]
    simp [stackCost]; omega

theorem stackCost_nonneg (xs : List Bytes) : 0 ≤ stackCost List.length xs := by
  induction xs with
  | nil => simp [stackCost]
  | cons y ys ih => simp [stackCost]; omega

/-- `Verify` up to the call of `run()` -/
theorem initPushes_ok (ctx : Context Bytes) (G : Int)
    (hg : stackCost List.length ctx.stateData + stackCost List.length ctx.arguments ≤ G) :
    initPushes valueMem ctx ⟨(), initFrame ctx G⟩ =
      .ok () ⟨(), ⟨ctx.code, 0, 0, G - stackCost List.length ctx.stateData - stackCost List.length ctx.arguments, 0,
        ctx.arguments.reverse, ctx.stateData.reverse, 0, expansionReserved ctx⟩⟩ := by
  have h1 := stackCost_nonneg ctx.stateData
  have h2 := stackCost_nonneg ctx.arguments
  unfold initPushes initFrame
  simp only [bind_def]
  rw [pushAlts_ok _ _ _ _ _ _ _ _ _ _ (by omega)]
  simp only []
  rw [pushArgs_ok _ _ _ _ _ _ _ _ _ _ (by omega)]
  simp

/-- what `Verify` reports after `run()` returned `er` in frame `f'` -/
def verdict (f' : Fr) (er : Option Err) : Option Err :=
  match er with
  | some e => some e
  | none => if falseResult valueMem () f' then some .falseVMResult else none

/-- the verdict of `Verify` from a halting run of the outermost VM -/
theorem verifyFuel_of_run (ctx : Context Bytes) (G : Int) (hv : ctx.vmVersion = 1)
    (hg : stackCost List.length ctx.stateData + stackCost List.length ctx.arguments ≤ G)
    (fuel : Nat) (f' : Fr) (er : Option Err)
    (hrun : runFuel valueMem ctx fuel ⟨(), ⟨ctx.code, 0, 0,
        G - stackCost List.length ctx.stateData - stackCost List.length ctx.arguments, 0,
        ctx.arguments.reverse, ctx.stateData.reverse, 0, expansionReserved ctx⟩, []⟩ = some (.done () f' er)) :
    verifyFuel valueMem ctx fuel () G = some ⟨f'.runLimit, verdict f' er, some ((), f')⟩ := by
  unfold verifyFuel
  have : ¬ ctx.vmVersion ≠ 1 := by simp [hv]
  simp only [this, if_false, initPushes_ok ctx G hg, hrun]
  cases er <;> rfl

theorem stackCost_reverse (xs : List Bytes) : stackCost List.length xs.reverse = stackCost List.length xs := by
  induction xs with
  | nil => rfl
  | cons x xs ih => simp [stackCost_append, stackCost, ih]; omega

/-- `Verify` when the outermost VM's run is CHECKPREDICATE-free -/
theorem verify_of_frame (ctx : Context Bytes) (G : Int) (hv : ctx.vmVersion = 1)
    (hg : stackCost List.length ctx.stateData + stackCost List.length ctx.arguments ≤ G)
    (k : Nat) (g f' : Fr) (er : Option Err)
    (hs : FSteps ctx k ⟨ctx.code, 0, 0, G - stackCost List.length ctx.stateData - stackCost List.length ctx.arguments, 0,
        ctx.arguments.reverse, ctx.stateData.reverse, 0, expansionReserved ctx⟩ g)
    (hfin : FFinal ctx g f' er) (fuel : Nat) (hfuel : k + 1 ≤ fuel) :
    verifyFuel valueMem ctx fuel () G = some ⟨f'.runLimit, verdict f' er, some ((), f')⟩ := by
  apply verifyFuel_of_run ctx G hv hg
  obtain ⟨j, rfl⟩ : ∃ j, fuel = (j + 1) + k := ⟨fuel - k - 1, by omega⟩
  rw [runFuel_FSteps hs [] (j + 1), runFuel_final hfin [] j]
  rfl

end BytomModel.Lemmas.SpendExec
