/-
Invariants of the interleaving model of the dispatcher (`Model/EventConc.lean`).
-/
import BytomModel.Model.EventConc
import BytomModel.Lemmas.Event

namespace BytomModel.Lemmas.EventConc
open BytomModel.Event BytomModel.EventConc BytomModel.Lemmas.Event

/-- the part of the sequential representation invariant that survives interleaving -/
structure SInv (s : State) : Prop where
  wf : WF s.subm
  bound : ∀ t i, i ∈ lookup s.subm t → i < s.subs.length

theorem sinv_init (cap : Nat) : SInv (init cap) :=
  ⟨⟨by simp [init, keys], by simp [init]⟩, by simp [init, lookup]⟩

theorem sinv_subs {s : State} (h : SInv s) (subs' : List Sub) (hl : subs'.length = s.subs.length) :
    SInv { s with subs := subs' } :=
  ⟨h.wf, fun t i hi => by simpa [hl] using h.bound t i hi⟩

theorem sinv_subscribe {s : State} (h : SInv s) (ts : List Nat) : SInv (subscribe s ts).1 := by
  unfold subscribe
  by_cases hst : s.stopped = true
  · simp only [hst, if_true]
    exact ⟨h.wf, fun t i hi => by simp; exact Nat.lt_succ_of_lt (h.bound t i hi)⟩
  · have hst' : s.stopped = false := by cases hh : s.stopped <;> simp_all
    simp only [hst', Bool.false_eq_true, if_false]
    have hnot : ∀ t, s.subs.length ∈ lookup s.subm t ↔ t ∈ ([] : List Nat) := by
      intro t
      simp only [List.not_mem_nil, iff_false]
      intro hm
      exact Nat.lt_irrefl _ (h.bound t _ hm)
    obtain ⟨r1, r2, r3, _⟩ := register_spec s.subs.length ts s.subm [] h.wf hnot
    generalize register s.subs.length s.subm ts = rr at r1 r2 r3
    obtain ⟨m, dup⟩ := rr
    simp only [] at r1 r2 r3 ⊢
    refine ⟨r1, ?_⟩
    intro t i hi
    simp only [List.length_append, List.length_singleton]
    by_cases hii : i = s.subs.length
    · omega
    · exact Nat.lt_succ_of_lt (h.bound t i ((r3 t i hii).mp hi))

theorem sinv_delSub {s : State} (h : SInv s) (id : Nat) : SInv { s with subm := delSub s.subm id } :=
  ⟨WF_delSub _ h.wf id, fun t i hi => h.bound t i ((mem_lookup_delSub s.subm h.wf id t i).mp hi).2⟩

theorem sinv_stop {s : State} (_h : SInv s) : SInv (stop s).1 :=
  ⟨⟨by simp [stop, keys], by simp [stop]⟩, by simp [stop, lookup]⟩

theorem sinv_recv {s : State} (h : SInv s) (id : Nat) : SInv (recv s id).1 := by
  unfold recv
  split
  · exact h
  · split
    · exact sinv_subs h _ (length_modAt _ _ _)
    · exact h

/-- what thread `p` has put into the channels so far, per subscription (`D sid`), is
    consistent with where the thread is in its program -/
def ThreadOK (D : Nat → List Ev) (t : Thread) : Prop :=
  match t.pc with
  | .delivering e todo =>
    todo.Nodup ∧ ∃ prev, t.posted = prev ++ [e] ∧ ∀ sid, ∃ L0, L0.Sublist prev ∧
      (D sid = L0 ∨ (D sid = L0 ++ [e] ∧ sid ∉ todo))
  | _ => ∀ sid, (D sid).Sublist t.posted

structure CInv (c : CState) : Prop where
  sinv : SInv c.s
  threads : ∀ p t, c.threads[p]? = some t → ThreadOK (deliveredFrom c p) t

theorem cinv_init (cap : Nat) (progs : List (List COp)) : CInv (initC cap progs) := by
  refine ⟨sinv_init cap, ?_⟩
  intro p t ht
  simp only [initC, List.getElem?_map] at ht
  cases hp : progs[p]? with
  | none => simp [hp] at ht
  | some pr =>
    simp only [hp, Option.map_some, Option.some.injEq] at ht
    subst ht
    intro sid
    simp [deliveredFrom, initC]

/-- the conclusion every thread state allows: in order, each at most once -/
theorem ThreadOK.sublist {D : Nat → List Ev} {t : Thread} (h : ThreadOK D t) (sid : Nat) :
    (D sid).Sublist t.posted := by
  unfold ThreadOK at h
  split at h
  · obtain ⟨_, prev, hp, hs⟩ := h
    obtain ⟨L0, hl, hd | ⟨hd, _⟩⟩ := hs sid
    · rw [hd, hp]; exact hl.trans (List.sublist_append_left _ _)
    · rw [hd, hp]; exact List.Sublist.append hl (List.Sublist.refl _)
  · exact h sid

theorem deliveredFrom_log (c : CState) (s' : State) (th : List Thread) (p : Nat) :
    deliveredFrom { s := s', threads := th, log := c.log } p = deliveredFrom c p := rfl

theorem deliveredFrom_append (c : CState) (s' : State) (th : List Thread) (i sid0 : Nat) (e : Ev) (p sid : Nat) :
    deliveredFrom { s := s', threads := th, log := c.log ++ [(i, sid0, e)] } p sid =
      deliveredFrom c p sid ++ (if i = p ∧ sid0 = sid then [e] else []) := by
  simp only [deliveredFrom, List.filter_append, List.map_append, List.filter_cons, List.filter_nil]
  by_cases h1 : i = p <;> by_cases h2 : sid0 = sid <;> simp [h1, h2]

/-- a step of thread `i` leaves the obligations of every other thread untouched -/
theorem threadOK_other {c c' : CState} {i : Nat}
    (hth : ∀ p, p ≠ i → c'.threads[p]? = c.threads[p]?)
    (hlog : c'.log = c.log ∨ ∃ sid e, c'.log = c.log ++ [(i, sid, e)])
    (h : CInv c) (p : Nat) (hp : p ≠ i) (t : Thread) (ht : c'.threads[p]? = some t) :
    ThreadOK (deliveredFrom c' p) t := by
  rw [hth p hp] at ht
  have hD : deliveredFrom c' p = deliveredFrom c p := by
    funext sid
    rcases hlog with hl | ⟨sid0, e, hl⟩
    · simp only [deliveredFrom, hl]
    · have := deliveredFrom_append c c'.s c'.threads i sid0 e p sid
      have hc' : c' = { s := c'.s, threads := c'.threads, log := c.log ++ [(i, sid0, e)] } := by
        cases c'; simp_all
      rw [hc', this]
      simp [Ne.symm hp]
  rw [hD]
  exact h.threads p t ht

/-- packaging: a step of thread `i` that replaces its record by `tnew`, the dispatcher state
    by `s'` and appends at most one entry of its own to the log -/
theorem cinv_of {c : CState} (h : CInv c) {i : Nat} {t : Thread} (hth : c.threads[i]? = some t)
    (s' : State) (tnew : Thread) (log' : List (Nat × Nat × Ev)) (hs : SInv s')
    (hlog : log' = c.log ∨ ∃ sid e, log' = c.log ++ [(i, sid, e)])
    (hnew : ThreadOK (deliveredFrom { s := s', threads := c.threads.set i tnew, log := log' } i) tnew) :
    CInv { s := s', threads := c.threads.set i tnew, log := log' } := by
  have hi : i < c.threads.length := (List.getElem?_eq_some_iff.mp hth).1
  refine ⟨hs, ?_⟩
  intro p t' ht'
  by_cases hp : p = i
  · subst hp
    simp only [List.getElem?_set_self hi, Option.some.injEq] at ht'
    subst ht'
    exact hnew
  · exact threadOK_other (c := c) (i := i)
      (fun q hq => by simp only []; exact List.getElem?_set_ne (Ne.symm hq))
      hlog h p hp t' ht'

theorem cinv_step (c : CState) (i : Nat) (h : CInv c) : CInv (stepThread c i) := by
  unfold stepThread
  cases hth : c.threads[i]? with
  | none => exact h
  | some t =>
    have hok := h.threads i t hth
    simp only []
    cases hpc : t.pc with
    | closing id =>
      simp only []
      apply cinv_of h hth _ _ _ (sinv_subs h.sinv _ (length_modAt _ _ _)) (Or.inl rfl)
      rw [deliveredFrom_log]
      unfold ThreadOK at hok ⊢
      simp only [hpc] at hok ⊢
      exact hok
    | delivering e todo =>
      unfold ThreadOK at hok
      simp only [hpc] at hok
      obtain ⟨hnd, prev, hposted, hall⟩ := hok
      cases todo with
      | nil =>
        simp only []
        have : ({ s := c.s, threads := c.threads.set i { prog := t.prog, pc := PC.idle, posted := t.posted }, log := c.log } : CState)
            = { s := c.s, threads := c.threads.set i { t with pc := .idle }, log := c.log } := rfl
        apply cinv_of h hth c.s _ c.log h.sinv (Or.inl rfl)
        rw [deliveredFrom_log]
        unfold ThreadOK
        simp only []
        intro sid
        obtain ⟨L0, hl, hd | ⟨hd, _⟩⟩ := hall sid
        · rw [hd, hposted]; exact hl.trans (List.sublist_append_left _ _)
        · rw [hd, hposted]; exact List.Sublist.append hl (List.Sublist.refl _)
      | cons sid0 todo =>
        simp only []
        have hnd' := List.nodup_cons.mp hnd
        apply cinv_of h hth _ _ _ (sinv_subs h.sinv _ (length_modAt _ _ _))
          (by by_cases ha : accepts c.s sid0 = true
              · simp only [ha, if_true]; exact Or.inr ⟨sid0, e, rfl⟩
              · simp only [ha, if_false]; exact Or.inl rfl)
        unfold ThreadOK
        simp only []
        refine ⟨hnd'.2, prev, hposted, ?_⟩
        intro sid
        obtain ⟨L0, hl, hd⟩ := hall sid
        by_cases ha : accepts c.s sid0 = true
        · simp only [ha, if_true, deliveredFrom_append, true_and]
          by_cases hs : sid0 = sid
          · subst hs
            rcases hd with hd | ⟨_, hnot⟩
            · exact ⟨L0, hl, Or.inr ⟨by simp [hd], hnd'.1⟩⟩
            · exact absurd (List.mem_cons_self) hnot
          · simp only [hs, if_false, List.append_nil]
            rcases hd with hd | ⟨hd, hnot⟩
            · exact ⟨L0, hl, Or.inl hd⟩
            · exact ⟨L0, hl, Or.inr ⟨hd, fun hm => hnot (List.mem_cons_of_mem _ hm)⟩⟩
        · simp only [ha, if_false, deliveredFrom_log]
          rcases hd with hd | ⟨hd, hnot⟩
          · exact ⟨L0, hl, Or.inl hd⟩
          · exact ⟨L0, hl, Or.inr ⟨hd, fun hm => hnot (List.mem_cons_of_mem _ hm)⟩⟩
    | idle =>
      unfold ThreadOK at hok
      simp only [hpc] at hok
      simp only []
      cases hprog : t.prog with
      | nil => exact h
      | cons op rest =>
        cases op with
        | post e =>
          simp only []
          by_cases hst : c.s.stopped = true
          · simp only [hst, if_true]
            apply cinv_of h hth c.s _ c.log h.sinv (Or.inl rfl)
            rw [deliveredFrom_log]
            unfold ThreadOK; simp only [hpc]; exact hok
          · simp only [hst, if_false]
            apply cinv_of h hth c.s _ c.log h.sinv (Or.inl rfl)
            rw [deliveredFrom_log]
            unfold ThreadOK; simp only []
            exact ⟨lookup_nodup _ h.sinv.wf _, t.posted, rfl, fun sid => ⟨_, hok sid, Or.inl rfl⟩⟩
        | subscribe ts =>
          simp only []
          apply cinv_of h hth _ _ c.log (sinv_subscribe h.sinv ts) (Or.inl rfl)
          rw [deliveredFrom_log]
          unfold ThreadOK; simp only [hpc]; exact hok
        | unsubscribe id =>
          simp only []
          by_cases hid : id < c.s.subs.length
          · simp only [hid, if_true]
            apply cinv_of h hth _ _ c.log (sinv_delSub h.sinv id) (Or.inl rfl)
            rw [deliveredFrom_log]
            unfold ThreadOK; simp only []; exact hok
          · simp only [hid, if_false]
            apply cinv_of h hth c.s _ c.log h.sinv (Or.inl rfl)
            rw [deliveredFrom_log]
            unfold ThreadOK; simp only [hpc]; exact hok
        | stop =>
          simp only []
          apply cinv_of h hth _ _ c.log (sinv_stop h.sinv) (Or.inl rfl)
          rw [deliveredFrom_log]
          unfold ThreadOK; simp only [hpc]; exact hok
        | recv id =>
          simp only []
          apply cinv_of h hth _ _ c.log (sinv_recv h.sinv id) (Or.inl rfl)
          rw [deliveredFrom_log]
          unfold ThreadOK; simp only [hpc]; exact hok

/-- a step of thread `j` does not touch the record of another thread `i` -/
theorem step_other_thread (c : CState) (i j : Nat) (h : i ≠ j) :
    (stepThread c j).threads[i]? = c.threads[i]? := by
  unfold stepThread
  cases hth : c.threads[j]? with
  | none => rfl
  | some t =>
    simp only []
    cases hpc : t.pc with
    | closing id => simp only []; exact List.getElem?_set_ne (Ne.symm h)
    | delivering e todo =>
      cases todo with
      | nil => simp only []; exact List.getElem?_set_ne (Ne.symm h)
      | cons a b => simp only []; exact List.getElem?_set_ne (Ne.symm h)
    | idle =>
      simp only []
      cases hprog : t.prog with
      | nil => rfl
      | cons op rest =>
        cases op with
        | post e =>
          simp only []
          split <;> exact List.getElem?_set_ne (Ne.symm h)
        | subscribe ts => simp only []; exact List.getElem?_set_ne (Ne.symm h)
        | unsubscribe id =>
          simp only []
          split <;> exact List.getElem?_set_ne (Ne.symm h)
        | stop => simp only []; exact List.getElem?_set_ne (Ne.symm h)
        | recv id => simp only []; exact List.getElem?_set_ne (Ne.symm h)

theorem step_closing (c : CState) (i id : Nat) (t : Thread) (ht : c.threads[i]? = some t)
    (hpc : t.pc = .closing id) : (stepThread c i).threads[i]? = some { t with pc := .idle } := by
  have hi : i < c.threads.length := (List.getElem?_eq_some_iff.mp ht).1
  unfold stepThread
  simp only [ht, hpc]
  exact List.getElem?_set_self hi

theorem step_unsubscribe (c : CState) (i id : Nat) (t : Thread) (rest : List COp) (ht : c.threads[i]? = some t)
    (hpc : t.pc = .idle) (hprog : t.prog = .unsubscribe id :: rest) :
    (stepThread c i).threads[i]? =
      some (if id < c.s.subs.length then { t with prog := rest, pc := .closing id } else { t with prog := rest }) := by
  have hi : i < c.threads.length := (List.getElem?_eq_some_iff.mp ht).1
  unfold stepThread
  simp only [ht, hpc, hprog]
  split <;> exact List.getElem?_set_self hi

theorem step_post_stopped (c : CState) (i : Nat) (t : Thread) (e : Ev) (rest : List COp)
    (ht : c.threads[i]? = some t) (hpc : t.pc = .idle) (hprog : t.prog = .post e :: rest)
    (hs : c.s.stopped = true) :
    (stepThread c i).threads[i]? = some { t with prog := rest } ∧ (stepThread c i).log = c.log := by
  have hi : i < c.threads.length := (List.getElem?_eq_some_iff.mp ht).1
  unfold stepThread
  simp only [ht, hpc, hprog, hs, if_true]
  exact ⟨List.getElem?_set_self hi, trivial⟩

theorem run_other_threads (sched : List Nat) (i : Nat) (h : i ∉ sched) : ∀ c,
    (runSched c sched).threads[i]? = c.threads[i]? := by
  induction sched with
  | nil => intro c; rfl
  | cons j js ih =>
    intro c
    simp only [List.mem_cons, not_or] at h
    simp only [runSched, List.foldl_cons]
    have := ih h.2 (stepThread c j)
    simp only [runSched] at this
    rw [this, step_other_thread c i j h.1]

/-- once stopped, the dispatcher stays stopped under every step of every thread -/
theorem step_stopped (c : CState) (j : Nat) (h : c.s.stopped = true) : (stepThread c j).s.stopped = true := by
  unfold stepThread
  cases hth : c.threads[j]? with
  | none => exact h
  | some t =>
    simp only []
    cases hpc : t.pc with
    | closing id => exact h
    | delivering e todo =>
      cases todo with
      | nil => exact h
      | cons a b => exact h
    | idle =>
      simp only []
      cases hprog : t.prog with
      | nil => exact h
      | cons op rest =>
        cases op with
        | post e => simp only []; split <;> exact h
        | subscribe ts => simp only [subscribe, h, if_true]
        | unsubscribe id => simp only []; split <;> exact h
        | stop => rfl
        | recv id =>
          simp only [recv]
          split
          · exact h
          · split <;> exact h

theorem run_stopped (sched : List Nat) : ∀ c, c.s.stopped = true → (runSched c sched).s.stopped = true := by
  induction sched with
  | nil => intro c h; exact h
  | cons j js ih => intro c h; exact ih _ (step_stopped c j h)

theorem cinv_run (sched : List Nat) : ∀ c, CInv c → CInv (runSched c sched) := by
  induction sched with
  | nil => intro c h; exact h
  | cons i is ih => intro c h; exact ih _ (cinv_step c i h)

end BytomModel.Lemmas.EventConc
