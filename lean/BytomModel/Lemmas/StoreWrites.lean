/-
M-Store: the writes keep "every cached entry equals the DB record" (SaveBlock: when it does not
re-write the transaction list of a stored hash with a different one — a hash determines its
transactions), and so does every history of such operations.
-/
import BytomModel.Lemmas.Store

namespace BytomModel.Lemmas.Store
open BytomModel.Store

theorem saveBlockHeader_ok {s : Store} (ok : CacheOK s) (h : Header) : CacheOK (saveBlockHeader s h) := by
  unfold saveBlockHeader
  refine ⟨?_, ok.txs, ok.hashes, ok.main, ok.ckpt, ?_⟩
  · intro e he
    obtain ⟨hm, hk⟩ := mem_lru_remove _ _ _ he
    simp only
    rw [aGet_aSet]
    simp only [hk, if_false]
    exact ok.hdr e hm
  · intro b h' hg
    simp only at hg
    rw [aGet_aSet] at hg
    by_cases e : b = h.hash
    · simp only [e, if_true, Option.some.injEq] at hg
      rw [← hg, e]
    · simp only [e, if_false] at hg
      exact ok.keyed b h' hg

/-- `SaveBlock` does not change the already stored tx list of the same hash (the hash commits to
    the transactions; the header fields it does not commit to MAY change) -/
def Compatible (s : Store) : Op → Prop
  | .saveBlock h txs => ∀ t0, aGet s.db.txs h.hash = some t0 → t0 = txs
  | _ => True

theorem forall_some_iff {α : Type} (o : Option α) (v : α) :
    (∀ x, o = some x → x = v) ↔ (o = none ∨ o = some v) := by
  cases o with
  | none => simp
  | some y =>
    constructor
    · intro h; exact Or.inr (by rw [h y rfl])
    · rintro (h | h) x hx
      · cases h
      · cases h; cases hx; rfl

instance decForallSome {α : Type} [DecidableEq α] (o : Option α) (v : α) : Decidable (∀ x, o = some x → x = v) :=
  decidable_of_iff _ (forall_some_iff o v).symm

instance decCompatible (s : Store) (op : Op) : Decidable (Compatible s op) := by
  cases op <;> unfold Compatible <;> infer_instance

theorem saveBlock_ok {s : Store} (ok : CacheOK s) (h : Header) (txs : List Nat)
    (hc : Compatible s (.saveBlock h txs)) : CacheOK (saveBlock s h txs) := by
  unfold saveBlock
  obtain ⟨_, ok1, d1⟩ := getHashes_spec ok h.height
  cases hh : getHashes s h.height with
  | mk l s1 =>
    rw [hh] at ok1 d1
    simp only at ok1 d1 ⊢
    have hc2 := hc
    unfold Compatible at hc2
    rw [← d1] at hc2
    refine ⟨?_, ?_, ?_, ok1.main, ok1.ckpt, ?_⟩
    · intro e he
      obtain ⟨hm, hk⟩ := mem_lru_remove _ _ _ he
      simp only
      rw [aGet_aSet]
      simp only [hk, if_false]
      exact ok1.hdr e hm
    · intro e he
      simp only
      rw [aGet_aSet]
      by_cases hk : e.1 = h.hash
      · simp only [hk, if_true]
        have := ok1.txs e he
        rw [hk] at this
        rw [hc2 _ this]
      · simp only [hk, if_false]
        exact ok1.txs e he
    · intro e he
      obtain ⟨hm, hk⟩ := mem_lru_remove _ _ _ he
      simp only
      rw [aGet_aSet]
      simp only [hk, if_false]
      exact ok1.hashes e hm
    · intro b h' hg
      simp only at hg
      rw [aGet_aSet] at hg
      by_cases e : b = h.hash
      · simp only [e, if_true, Option.some.injEq] at hg
        rw [← hg, e]
      · simp only [e, if_false] at hg
        exact ok1.keyed b h' hg

theorem aGet_foldSet_notin {κ β α : Type} [DecidableEq κ] (key : α → κ) (val : α → β) :
    ∀ (xs : List α) (m : List (κ × β)) (k : κ), k ∉ xs.map key →
      aGet (xs.foldl (fun m x => aSet m (key x) (val x)) m) k = aGet m k
  | [], _, _, _ => rfl
  | x :: xs, m, k, hk => by
    simp only [List.foldl_cons]
    have h1 : k ≠ key x := fun e => hk (by simp [e])
    have h2 : k ∉ xs.map key := fun h => hk (by simp only [List.map_cons, List.mem_cons]; exact Or.inr h)
    rw [aGet_foldSet_notin key val xs _ k h2, aGet_aSet]
    simp [h1]

theorem mem_foldRemove {κ β α : Type} [DecidableEq κ] (key : α → κ) :
    ∀ (xs : List α) (c : Lru κ β) (e : κ × β), e ∈ (xs.foldl (fun c x => c.remove (key x)) c).items →
      e ∈ c.items ∧ e.1 ∉ xs.map key
  | [], _, _, h => ⟨h, by simp⟩
  | x :: xs, c, e, h => by
    simp only [List.foldl_cons] at h
    obtain ⟨h1, h2⟩ := mem_foldRemove key xs _ e h
    obtain ⟨h3, h4⟩ := mem_lru_remove _ _ _ h1
    refine ⟨h3, ?_⟩
    simp only [List.map_cons, List.mem_cons, not_or]
    exact ⟨h4, h2⟩

theorem saveChainStatus_ok {s : Store} (ok : CacheOK s) (hs : List Header) : CacheOK (saveChainStatus s hs) := by
  unfold saveChainStatus
  refine ⟨ok.hdr, ok.txs, ok.hashes, ?_, ok.ckpt, ok.keyed⟩
  intro e he
  obtain ⟨hm, hk⟩ := mem_foldRemove (fun h : Header => h.height) hs _ e he
  simp only
  rw [aGet_foldSet_notin (fun h : Header => h.height) (fun h : Header => h.hash) hs _ _ hk]
  exact ok.main e hm

theorem saveCheckpoints_ok {s : Store} (ok : CacheOK s) (cs : List Ckpt) : CacheOK (saveCheckpoints s cs) := by
  unfold saveCheckpoints
  refine ⟨ok.hdr, ok.txs, ok.hashes, ok.main, ?_, ok.keyed⟩
  intro e he
  obtain ⟨hm, hk⟩ := mem_foldRemove (fun c : Ckpt => (c.height, c.hash)) cs _ e he
  simp only
  rw [aGet_foldSet_notin (fun c : Ckpt => (c.height, c.hash)) (fun c : Ckpt => c) cs _ _ hk]
  exact ok.ckpt e hm

theorem getCheckpointsByHeight_spec {s : Store} (ok : CacheOK s) (h : Nat) :
    CacheOK (getCheckpointsByHeight s h).2 ∧ (getCheckpointsByHeight s h).2.db = s.db := by
  unfold getCheckpointsByHeight
  exact (loadCkpts_spec _ ok).2

theorem step_hdr_fst (s : Store) (b : Nat) : (step s (.hdr b)).1 = (getHeader s b).2 := by
  simp only [step]
  cases getHeader s b with
  | mk r s' => cases r <;> rfl

theorem step_txs_fst (s : Store) (b : Nat) : (step s (.txs b)).1 = (getTxs s b).2 := by
  simp only [step]
  cases getTxs s b with
  | mk r s' => cases r <;> rfl

theorem step_main_fst (s : Store) (h : Nat) : (step s (.main h)).1 = (getMain s h).2 := by
  simp only [step]
  cases getMain s h with
  | mk r s' => cases r <;> rfl

theorem step_block_fst (s : Store) (b : Nat) : (step s (.block b)).1 = (getBlock s b).2 := by
  simp only [step]
  cases getBlock s b with
  | mk r s' =>
    cases r with
    | none => rfl
    | some p => cases p; rfl

theorem step_ckpt_fst (s : Store) (b : Nat) : (step s (.ckpt b)).1 = (getCheckpoint s b).2 := by
  simp only [step]
  cases getCheckpoint s b with
  | mk r s' => cases r <;> rfl

theorem step_ckptsAt_fst (s : Store) (h : Nat) : (step s (.ckptsAt h)).1 = (getCheckpointsByHeight s h).2 := by
  simp only [step]
  cases getCheckpointsByHeight s h with
  | mk r s' => cases r <;> rfl

theorem step_ok {s : Store} (ok : CacheOK s) (op : Op) (hc : Compatible s op) : CacheOK (step s op).1 := by
  cases op with
  | saveBlock h t => exact saveBlock_ok ok h t hc
  | saveHeader h => exact saveBlockHeader_ok ok h
  | saveStatus hs => exact saveChainStatus_ok ok hs
  | saveCkpts cs => exact saveCheckpoints_ok ok cs
  | hdr b => rw [step_hdr_fst]; exact (getHeader_spec ok b).2.1
  | txs b => rw [step_txs_fst]; exact (getTxs_spec ok b).2.1
  | hashes h => exact (getHashes_spec ok h).2.1
  | main h => rw [step_main_fst]; exact (getMain_spec ok h).2.1
  | block b => rw [step_block_fst]; exact (getBlock_spec ok b).2.1
  | ckpt b => rw [step_ckpt_fst]; exact (getCheckpoint_spec ok b).2.1
  | ckptsAt h => rw [step_ckptsAt_fst]; exact (getCheckpointsByHeight_spec ok h).1

/-- every `SaveBlock` of the history is compatible with the DB at the time it is executed -/
def GoodRun : Store → List Op → Prop
  | _, [] => True
  | s, op :: ops => Compatible s op ∧ GoodRun (step s op).1 ops

instance decGoodRun : (s : Store) → (ops : List Op) → Decidable (GoodRun s ops)
  | _, [] => isTrue trivial
  | s, op :: ops =>
    have : Decidable (GoodRun (step s op).1 ops) := decGoodRun _ ops
    by unfold GoodRun; exact inferInstance

theorem runFrom_ok : ∀ (ops : List Op) {s : Store}, CacheOK s → GoodRun s ops → CacheOK (runFrom s ops)
  | [], _, ok, _ => ok
  | op :: ops, _, ok, hg => by
    unfold runFrom
    exact runFrom_ok ops (step_ok ok op hg.1) hg.2

end BytomModel.Lemmas.Store
