/-
Gas accounting lemmas for the VM model, generic in the memory (only `MemLaws` is used).

`frameA f`  = runLimit + stackCost data + stackCost alt      (the potential Φ of one VM)
`OpOK k s r`: the outcome `r` of running an op handler from state `s`
   * success:  Φ' − deferred' + k ≤ Φ − deferred   (the deferred cost is charged by the epilogue)
   * error  :  Φ' ≤ Φ
   * in both cases runLimit' ≥ 0 and prog / depth / expRes / pc are untouched.
-/
import BytomModel.Model.VM.Run
import Mathlib.Tactic.Linarith
namespace BytomModel.VM
open OpM

section
variable {μ ι : Type} (M : MemOps μ ι)

def SameCtl (f f' : Frame ι) : Prop :=
  f'.prog = f.prog ∧ f'.depth = f.depth ∧ f'.expRes = f.expRes ∧ f'.pc = f.pc

def OpOK {α : Type} (k : Int) (s : St μ ι) : Res (St μ ι) α → Prop
  | .ok _ s' => frameA M s'.f - s'.f.deferred + k ≤ frameA M s.f - s.f.deferred ∧ 0 ≤ s'.f.runLimit ∧ SameCtl s.f s'.f
  | .err _ s' => frameA M s'.f ≤ frameA M s.f ∧ 0 ≤ s'.f.runLimit ∧ SameCtl s.f s'.f
  | .panic => True

theorem stackCost_nonneg (l : List ι) : 0 ≤ stackCost M.len l := by
  induction l with
  | nil => simp [stackCost]
  | cons x xs ih => simp only [stackCost]; omega

/-! symbolic execution: results are threaded with `Res.bindK`, which commutes with `ite` -/

end

def Res.bindK {σ α β : Type} (r : Res σ α) (f : α → σ → Res σ β) : Res σ β :=
  match r with
  | .ok a s => f a s
  | .err e s => .err e s
  | .panic => .panic

@[simp] theorem Res.bindK_ok {σ α β : Type} (a : α) (s : σ) (f : α → σ → Res σ β) :
    (Res.ok a s).bindK f = f a s := rfl
@[simp] theorem Res.bindK_err {σ α β : Type} (e : Err) (s : σ) (f : α → σ → Res σ β) :
    (Res.err e s : Res σ α).bindK f = .err e s := rfl
@[simp] theorem Res.bindK_panic {σ α β : Type} (f : α → σ → Res σ β) :
    (Res.panic : Res σ α).bindK f = .panic := rfl
@[simp] theorem Res.bindK_ite {σ α β : Type} (c : Prop) [Decidable c] (x y : Res σ α) (f : α → σ → Res σ β) :
    (if c then x else y).bindK f = if c then x.bindK f else y.bindK f := by
  split <;> rfl

@[simp] theorem Res.bindK_assoc {σ α β γ : Type} (r : Res σ α) (f : α → σ → Res σ β) (g : β → σ → Res σ γ) :
    (r.bindK f).bindK g = r.bindK (fun a s => (f a s).bindK g) := by
  cases r <;> rfl

/-- `match x with | .ok a => A a | .error e => B e` as a function, so that simp lemmas can talk about it -/
def exceptK {ρ α : Type} (x : Except Err α) (A : α → ρ) (B : Err → ρ) : ρ :=
  match x with
  | .ok a => A a
  | .error e => B e

@[simp] theorem exceptK_ok {ρ α : Type} (a : α) (A : α → ρ) (B : Err → ρ) : exceptK (.ok a) A B = A a := rfl
@[simp] theorem exceptK_error {ρ α : Type} (e : Err) (A : α → ρ) (B : Err → ρ) :
    exceptK (.error e : Except Err α) A B = B e := rfl
@[simp] theorem Res.bindK_exceptK {σ α β γ : Type} (x : Except Err γ) (A : γ → Res σ α) (B : Err → Res σ α)
    (f : α → σ → Res σ β) :
    (exceptK x A B).bindK f = exceptK x (fun a => (A a).bindK f) (fun e => (B e).bindK f) := by
  cases x <;> rfl

/-- `match x with | some a => A a | none => B` as a function -/
def optionK {ρ α : Type} (x : Option α) (A : α → ρ) (B : ρ) : ρ :=
  match x with
  | some a => A a
  | none => B
@[simp] theorem optionK_some {ρ α : Type} (a : α) (A : α → ρ) (B : ρ) : optionK (some a) A B = A a := rfl
@[simp] theorem optionK_none {ρ α : Type} (A : α → ρ) (B : ρ) : optionK (none : Option α) A B = B := rfl
@[simp] theorem Res.bindK_optionK {σ α β γ : Type} (x : Option γ) (A : γ → Res σ α) (B : Res σ α)
    (f : α → σ → Res σ β) :
    (optionK x A B).bindK f = optionK x (fun a => (A a).bindK f) (B.bindK f) := by
  cases x <;> rfl

/-- generic postcondition on an outcome (success / error; a panic satisfies everything) -/
def ResP {σ α : Type} (Q : α → σ → Prop) (E : Err → σ → Prop) : Res σ α → Prop
  | .ok a s => Q a s
  | .err e s => E e s
  | .panic => True

@[simp] theorem ResP_ok {σ α : Type} (Q : α → σ → Prop) (E : Err → σ → Prop) (a : α) (s : σ) :
    ResP Q E (.ok a s) ↔ Q a s := Iff.rfl
@[simp] theorem ResP_err {σ α : Type} (Q : α → σ → Prop) (E : Err → σ → Prop) (e : Err) (s : σ) :
    ResP Q E (.err e s : Res σ α) ↔ E e s := Iff.rfl
@[simp] theorem ResP_panic {σ α : Type} (Q : α → σ → Prop) (E : Err → σ → Prop) :
    ResP Q E (.panic : Res σ α) := trivial
@[simp] theorem ResP_ite {σ α : Type} (Q : α → σ → Prop) (E : Err → σ → Prop) (c : Prop) [Decidable c]
    (x y : Res σ α) : ResP Q E (if c then x else y) ↔ (c → ResP Q E x) ∧ (¬ c → ResP Q E y) := by
  split <;> simp_all
@[simp] theorem ResP_exceptK {σ α γ : Type} (Q : α → σ → Prop) (E : Err → σ → Prop) (x : Except Err γ)
    (A : γ → Res σ α) (B : Err → Res σ α) :
    ResP Q E (exceptK x A B) ↔ (∀ a, x = .ok a → ResP Q E (A a)) ∧ (∀ e, x = .error e → ResP Q E (B e)) := by
  cases x <;> simp
@[simp] theorem ResP_optionK {σ α γ : Type} (Q : α → σ → Prop) (E : Err → σ → Prop) (x : Option γ)
    (A : γ → Res σ α) (B : Res σ α) :
    ResP Q E (optionK x A B) ↔ (∀ a, x = some a → ResP Q E (A a)) ∧ (x = none → ResP Q E B) := by
  cases x <;> simp

section
variable {μ ι : Type} (M : MemOps μ ι)

@[simp] theorem OpOK_ite {α : Type} (k : Int) (s : St μ ι) (c : Prop) [Decidable c] (x y : Res (St μ ι) α) :
    OpOK M k s (if c then x else y) ↔ (c → OpOK M k s x) ∧ (¬ c → OpOK M k s y) := by
  split <;> simp_all
@[simp] theorem OpOK_exceptK {α γ : Type} (k : Int) (s : St μ ι) (x : Except Err γ)
    (A : γ → Res (St μ ι) α) (B : Err → Res (St μ ι) α) :
    OpOK M k s (exceptK x A B) ↔ (∀ a, x = .ok a → OpOK M k s (A a)) ∧ (∀ e, x = .error e → OpOK M k s (B e)) := by
  cases x <;> simp
@[simp] theorem OpOK_optionK {α γ : Type} (k : Int) (s : St μ ι) (x : Option γ)
    (A : γ → Res (St μ ι) α) (B : Res (St μ ι) α) :
    OpOK M k s (optionK x A B) ↔ (∀ a, x = some a → OpOK M k s (A a)) ∧ (x = none → OpOK M k s B) := by
  cases x <;> simp
@[simp] theorem OpOK_panic {α : Type} (k : Int) (s : St μ ι) : OpOK M k s (Res.panic : Res (St μ ι) α) := trivial

theorem bind_run {α β : Type} (m : OpM (St μ ι) α) (f : α → OpM (St μ ι) β) (s : St μ ι) :
    (m >>= f) s = (m s).bindK (fun a s' => f a s') := by
  show OpM.bind' m f s = _
  unfold OpM.bind' Res.bindK
  cases m s <;> rfl

@[simp] theorem pure_run {α : Type} (a : α) (s : St μ ι) : (pure a : OpM (St μ ι) α) s = .ok a s := rfl
@[simp] theorem throwE_run {α : Type} (e : Err) (s : St μ ι) : (throwE e : OpM (St μ ι) α) s = .err e s := rfl
@[simp] theorem panicM_run {α : Type} (s : St μ ι) : (panicM : OpM (St μ ι) α) s = .panic := rfl
@[simp] theorem get_run (s : St μ ι) : (OpM.get : OpM (St μ ι) _) s = .ok s s := rfl
@[simp] theorem getF_run (s : St μ ι) : (getF : OpM (St μ ι) _) s = .ok s.f s := rfl
@[simp] theorem modifyF_run (g : Frame ι → Frame ι) (s : St μ ι) :
    modifyF g s = .ok () { s with f := g s.f } := rfl
@[simp] theorem ofExcept_run {α : Type} (x : Except Err α) (s : St μ ι) :
    (ofExcept x : OpM (St μ ι) α) s = exceptK x (fun a => .ok a s) (fun e => .err e s) := by
  cases x <;> rfl
@[simp] theorem readItem_run (x : ι) (s : St μ ι) : readItem M x s = .ok (M.read s.mem x) s := rfl
@[simp] theorem deferCost_run (n : Int) (s : St μ ι) :
    deferCost n s = .ok () { s with f := { s.f with deferred := s.f.deferred + n } } := rfl
@[simp] theorem allocBytes_run (b : Bytes) (e : Nat) (s : St μ ι) :
    allocBytes M b e s = .ok (M.fresh s.mem b e).2 { s with mem := (M.fresh s.mem b e).1 } := rfl

@[simp] theorem opm_ite_apply {α : Type} (c : Prop) [Decidable c] (x y : OpM (St μ ι) α) (s : St μ ι) :
    (if c then x else y) s = if c then x s else y s := by
  split <;> rfl

theorem pushNth_run (l : List ι) (i : Nat) (s : St μ ι) :
    pushNth M l i s = optionK l[i]? (fun x => pushItem M x false s) .panic := by
  unfold pushNth; cases l[i]? <;> rfl

theorem applyCost_run (n : Int) (s : St μ ι) :
    applyCost n s = if n > s.f.runLimit then .err .runLimitExceeded { s with f := { s.f with runLimit := 0 } }
      else .ok () { s with f := { s.f with runLimit := s.f.runLimit - n } } := rfl

@[simp] theorem pop_nil (d : Bool) (mem : μ) (prog : ι) (pc nextPC : Nat) (rl df : Int) (alt : List ι) (depth : Nat) (er : Bool) :
    pop M d ⟨mem, ⟨prog, pc, nextPC, rl, df, [], alt, depth, er⟩⟩
      = .err .dataStackUnderflow ⟨mem, ⟨prog, pc, nextPC, rl, df, [], alt, depth, er⟩⟩ := rfl
@[simp] theorem pop_cons_def (mem : μ) (prog : ι) (pc nextPC : Nat) (rl df : Int) (x : ι) (xs alt : List ι) (depth : Nat) (er : Bool) :
    pop M true ⟨mem, ⟨prog, pc, nextPC, rl, df, x :: xs, alt, depth, er⟩⟩
      = .ok x ⟨mem, ⟨prog, pc, nextPC, rl, df - itemCost M x, xs, alt, depth, er⟩⟩ := rfl
@[simp] theorem pop_cons_imm (mem : μ) (prog : ι) (pc nextPC : Nat) (rl df : Int) (x : ι) (xs alt : List ι) (depth : Nat) (er : Bool) :
    pop M false ⟨mem, ⟨prog, pc, nextPC, rl, df, x :: xs, alt, depth, er⟩⟩
      = .ok x ⟨mem, ⟨prog, pc, nextPC, rl + itemCost M x, df, xs, alt, depth, er⟩⟩ := rfl
@[simp] theorem top_nil (mem : μ) (prog : ι) (pc nextPC : Nat) (rl df : Int) (alt : List ι) (depth : Nat) (er : Bool) :
    (top : OpM (St μ ι) ι) ⟨mem, ⟨prog, pc, nextPC, rl, df, [], alt, depth, er⟩⟩
      = .err .dataStackUnderflow ⟨mem, ⟨prog, pc, nextPC, rl, df, [], alt, depth, er⟩⟩ := rfl
@[simp] theorem top_cons (mem : μ) (prog : ι) (pc nextPC : Nat) (rl df : Int) (x : ι) (xs alt : List ι) (depth : Nat) (er : Bool) :
    (top : OpM (St μ ι) ι) ⟨mem, ⟨prog, pc, nextPC, rl, df, x :: xs, alt, depth, er⟩⟩
      = .ok x ⟨mem, ⟨prog, pc, nextPC, rl, df, x :: xs, alt, depth, er⟩⟩ := rfl

theorem pushItem_def (x : ι) (s : St μ ι) : pushItem M x true s =
    .ok () { s with f := { s.f with data := x :: s.f.data, deferred := s.f.deferred + itemCost M x } } := rfl

theorem pushItem_imm (x : ι) (s : St μ ι) : pushItem M x false s =
    if itemCost M x > s.f.runLimit then .err .runLimitExceeded { s with f := { s.f with runLimit := 0 } }
    else .ok () { s with f := { s.f with runLimit := s.f.runLimit - itemCost M x, data := x :: s.f.data } } := by
  show (applyCost (itemCost M x) >>= fun _ => modifyF _) s = _
  rw [bind_run, applyCost_run]
  split <;> simp


/-- sequential composition of `OpOK` facts; the first part must not raise the potential -/
theorem OpOK_bind {α β : Type} (m : OpM (St μ ι) α) (f : α → OpM (St μ ι) β) (s : St μ ι) (k1 k2 : Int)
    (h1 : OpOK M k1 s (m s))
    (hA : ∀ a s1, m s = .ok a s1 → frameA M s1.f ≤ frameA M s.f)
    (h2 : ∀ a s1, m s = .ok a s1 → 0 ≤ s1.f.runLimit → OpOK M k2 s1 (f a s1)) :
    OpOK M (k1 + k2) s ((m >>= f) s) := by
  rw [bind_run]
  cases hm : m s with
  | panic => simp
  | err e s1 => rw [hm] at h1; simpa [OpOK] using h1
  | ok a s1 =>
    rw [hm] at h1
    simp only [OpOK] at h1
    have hA' := hA a s1 hm
    have h2' := h2 a s1 hm h1.2.1
    simp only [Res.bindK_ok]
    obtain ⟨h11, h12, c1, c2, c3, c4⟩ := h1
    cases hf : f a s1 with
    | panic => simp
    | err e s2 =>
      rw [hf] at h2'
      simp only [OpOK, SameCtl] at h2' ⊢
      obtain ⟨g1, g2, d1, d2, d3, d4⟩ := h2'
      refine ⟨by omega, g2, ?_, ?_, ?_, ?_⟩
      · rw [d1, c1]
      · rw [d2, c2]
      · rw [d3, c3]
      · rw [d4, c4]
    | ok b s2 =>
      rw [hf] at h2'
      simp only [OpOK, SameCtl] at h2' ⊢
      obtain ⟨g1, g2, d1, d2, d3, d4⟩ := h2'
      refine ⟨by omega, g2, ?_, ?_, ?_, ?_⟩
      · rw [d1, c1]
      · rw [d2, c2]
      · rw [d3, c3]
      · rw [d4, c4]

theorem applyCost_ok (n : Int) (hn : 0 ≤ n) (s : St μ ι) (h : 0 ≤ s.f.runLimit) :
    OpOK M n s (applyCost n s) := by
  rw [applyCost_run]
  split <;> simp [OpOK, frameA, SameCtl] <;> omega

theorem applyCost_mono (n : Int) (hn : 0 ≤ n) (s : St μ ι) (u : Unit) (s1 : St μ ι)
    (h : applyCost n s = .ok u s1) : frameA M s1.f ≤ frameA M s.f := by
  rw [applyCost_run] at h
  split at h
  · cases h
  · cases h; simp [frameA]; omega

/-- weakening of the cost -/
theorem OpOK_mono {α : Type} (k k' : Int) (hk : k' ≤ k) (s : St μ ι) (r : Res (St μ ι) α) (h : OpOK M k s r) :
    OpOK M k' s r := by
  cases r <;> simp_all [OpOK] <;> omega

end
end BytomModel.VM
