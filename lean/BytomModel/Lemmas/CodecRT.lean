/-
Round trips of the composite ledger structures: for every well-formed value `v` and any
trailing bytes `r`, `decode (encode v ++ r) = (canon v, r)` where `canon` is the identity
except that the code AS IT IS writes a spend/veto commitment suffix twice (`dbl…`).
-/
import BytomModel.Lemmas.Codec

namespace BytomModel.Lemmas.Codec
open BytomModel.Codec
set_option linter.unusedSimpArgs false

/-- `H` produces 32-byte digests -/
def Hash32 (H : Bytes → Bytes) : Prop := ∀ x, (H x).length = 32

structure WFSC (sc : SpendCommitment) : Prop where
  src : sc.sourceID.length = 32
  asset : sc.assetID.length = 32
  amount : sc.amount ≤ max63
  pos : sc.sourcePos ≤ max63
  vm : sc.vmVersion = 1
  prog : sc.program.length ≤ max31
  state : WFList sc.stateData

theorem decSCFields_enc (sc : SpendCommitment) (h : WFSC sc) (r : Bytes) :
    (decSCFields (encSCFields sc ++ r)).out = .ok sc r := by
  unfold decSCFields encSCFields
  simp only [List.append_assoc]
  rw [bind_ok (readHash_app _ _ h.src), bind_ok (by rw [charge_out]; exact readHash_app _ _ h.asset),
    bind_ok (readVarint63_put _ h.amount _), bind_ok (readVarint63_put _ h.pos _),
    bind_ok (readVarint63_put _ (by rw [h.vm]; decide) _)]
  rw [if_neg (by simp [h.vm])]
  rw [bind_ok (readVarstr31_enc _ h.prog _), bind_ok (readVarstrList_enc _ h.state _)]
  simp

/-- the spend commitment as the code writes it: suffix twice -/
theorem decSC_enc (sc : SpendCommitment) (suf : Bytes) (h : WFSC sc)
    (hl : (encSCFields sc ++ suf ++ suf).length ≤ max31) (r : Bytes) :
    (decSC (encSC sc suf ++ r)).out = .ok (sc, suf ++ suf) r := by
  unfold decSC encSC encExt
  apply readExt_enc' _ _ _ _ _ _ hl
  rw [List.append_assoc]
  exact decSCFields_enc sc h _

/-! ### inputs -/

def WFTyped : TypedInput → Prop
  | .issuance nonce amount assetDef vm prog args =>
    nonce.length ≤ max31 ∧ amount ≤ max63 ∧ assetDef.length ≤ max31 ∧ vm ≤ max63 ∧ prog.length ≤ max31 ∧ WFList args
  | .spend sc suf args => WFSC sc ∧ (encSCFields sc ++ suf ++ suf).length ≤ max31 ∧ WFList args
  | .coinbase arb => arb.length ≤ max31
  | .veto sc suf vote args => WFSC sc ∧ (encSCFields sc ++ suf ++ suf).length ≤ max31 ∧ vote.length ≤ max31 ∧ WFList args

/-- what decoding an encoded typed input yields today: commitment suffix doubled -/
def dblTyped : TypedInput → TypedInput
  | .spend sc suf args => .spend sc (suf ++ suf) args
  | .veto sc suf vote args => .veto sc (suf ++ suf) vote args
  | t => t

def commitOf (H : Bytes → Bytes) : TypedInput → Commit
  | .issuance nonce amount assetDef vm prog _ => .issuance nonce (issuanceAssetID H assetDef vm prog) amount
  | .spend sc suf _ => .spend sc (suf ++ suf)
  | .coinbase arb => .coinbase arb
  | .veto sc suf vote _ => .veto sc (suf ++ suf) vote

theorem readInType_cons (t : UInt8) (r : Bytes) (h : ¬ t > 3) : (chargeOk aTyped readInType (t :: r)).out = .ok t r := by
  rw [chargeOk_out]
  unfold readInType
  rw [bind_ok (readByte_cons _ _), if_neg h]
  rfl

theorem readOutType_cons (t : UInt8) (r : Bytes) (h : ¬ (t ≠ 0 ∧ t ≠ 1)) : (chargeOk 32 readOutType (t :: r)).out = .ok t r := by
  rw [chargeOk_out]
  unfold readOutType
  rw [bind_ok (readByte_cons _ _), if_neg h]
  rfl

theorem decCommit_enc (H : Bytes → Bytes) (hH : Hash32 H) (t : TypedInput) (h : WFTyped t) (r : Bytes) :
    (decCommit (encCommitment H t ++ r)).out = .ok (commitOf H t) r := by
  unfold decCommit
  cases t with
  | issuance nonce amount assetDef vm prog args =>
    obtain ⟨h1, h2, h3, h4, h5, h6⟩ := h
    simp only [encCommitment, List.append_assoc, List.singleton_append, List.cons_append, List.nil_append]
    rw [bind_ok (readInType_cons _ _ (by decide))]
    rw [if_pos rfl]
    rw [bind_ok (readVarstr31_enc _ h1 _), bind_ok (readHash_app (issuanceAssetID H assetDef vm prog) _ (hH _)), bind_ok (readVarint63_put _ h2 _)]
    rfl
  | spend sc suf args =>
    obtain ⟨h1, h2, h3⟩ := h
    simp only [encCommitment, List.append_assoc, List.singleton_append, List.cons_append, List.nil_append]
    rw [bind_ok (readInType_cons _ _ (by decide))]
    rw [if_neg (by decide), if_pos rfl]
    rw [bind_ok (decSC_enc sc suf h1 h2 r)]
    rfl
  | coinbase arb =>
    simp only [encCommitment, List.append_assoc, List.singleton_append, List.cons_append, List.nil_append]
    rw [bind_ok (readInType_cons _ _ (by decide))]
    rw [if_neg (by decide), if_neg (by decide), if_pos rfl]
    rw [bind_ok (readVarstr31_enc _ h _)]
    rfl
  | veto sc suf vote args =>
    obtain ⟨h1, h2, h3, h4⟩ := h
    simp only [encCommitment, List.append_assoc, List.singleton_append, List.cons_append, List.nil_append]
    rw [bind_ok (readInType_cons _ _ (by decide))]
    rw [if_neg (by decide), if_neg (by decide), if_neg (by decide), if_pos rfl]
    rw [bind_ok (decSC_enc sc suf h1 h2 _), bind_ok (readVarstr31_enc _ h3 _)]
    rfl

theorem decWitness_enc (H : Bytes → Bytes) (t : TypedInput) (h : WFTyped t) (r : Bytes) :
    (decWitness H (commitOf H t) (encWitness t ++ r)).out = .ok (dblTyped t) r := by
  cases t with
  | issuance nonce amount assetDef vm prog args =>
    obtain ⟨h1, h2, h3, h4, h5, h6⟩ := h
    simp only [commitOf, decWitness, encWitness, List.append_assoc]
    rw [bind_ok (readVarstr31_enc _ h3 _), bind_ok (readVarint63_put _ h4 _), bind_ok (readVarstr31_enc _ h5 _)]
    rw [if_neg (by simp)]
    rw [bind_ok (readVarstrList_enc _ h6 _)]
    rfl
  | spend sc suf args =>
    obtain ⟨h1, h2, h3⟩ := h
    simp only [commitOf, decWitness, encWitness]
    rw [bind_ok (readVarstrList_enc _ h3 _)]
    rfl
  | coinbase arb =>
    simp only [commitOf, decWitness, encWitness, List.nil_append]
    rfl
  | veto sc suf vote args =>
    obtain ⟨h1, h2, h3, h4⟩ := h
    simp only [commitOf, decWitness, encWitness]
    rw [bind_ok (readVarstrList_enc _ h4 _)]
    rfl

def WFInput (H : Bytes → Bytes) (i : TxInput) : Prop :=
  i.assetVersion ≤ max63 ∧
  match i.typed with
  | some t => i.assetVersion = 1 ∧ WFTyped t ∧ (encCommitment H t ++ i.commitmentSuffix).length ≤ max31 ∧
      (encWitness t ++ i.witnessSuffix).length ≤ max31
  | none => i.assetVersion ≠ 1 ∧ i.commitmentSuffix.length ≤ max31 ∧ i.witnessSuffix.length ≤ max31

def dblInput (i : TxInput) : TxInput := { i with typed := i.typed.map dblTyped }

theorem decInput_enc (H : Bytes → Bytes) (hH : Hash32 H) (i : TxInput) (h : WFInput H i) (r : Bytes) :
    (decInput H (encInput H i ++ r)).out = .ok (dblInput i) r := by
  obtain ⟨av, typed, cs, ws⟩ := i
  obtain ⟨hav, h⟩ := h
  unfold decInput encInput
  cases typed with
  | none =>
    obtain ⟨h1, h2, h3⟩ := h
    simp only at h1 h2 h3 hav
    simp only [List.append_assoc]
    rw [bind_ok (readVarint63_put _ hav _)]
    rw [bind_ok (readExt_enc _ [] cs none _ (by rw [if_pos h1]; rfl) (by simpa using h2))]
    simp only
    rw [bind_ok (readExt_enc _ [] ws none _ (by rfl) (by simpa using h3))]
    rfl
  | some t =>
    obtain ⟨h1, h2, h3, h4⟩ := h
    simp only at h1 h2 h3 h4 hav
    subst h1
    simp only [if_true, List.append_assoc]
    rw [bind_ok (readVarint63_put _ hav _)]
    rw [bind_ok (readExt_enc _ (encCommitment H t) cs (some (commitOf H t)) _
      (by rw [if_neg (by simp)]; rw [bind_ok (decCommit_enc H hH t h2 cs)]; rfl) h3)]
    simp only
    rw [bind_ok (readExt_enc _ (encWitness t) ws (some (dblTyped t)) _
      (by rw [bind_ok (decWitness_enc H t h2 ws)]; rfl) h4)]
    rfl

/-! ### outputs -/

structure WFOC (oc : OutputCommitment) : Prop where
  asset : oc.assetID.length = 32
  amount : oc.amount ≤ max63
  vm : oc.vmVersion = 1
  prog : oc.program.length ≤ max31
  state : WFList oc.stateData

theorem decOC_enc (oc : OutputCommitment) (h : WFOC oc) (r : Bytes) :
    (decOC (encOC oc ++ r)).out = .ok oc r := by
  unfold decOC encOC
  simp only [List.append_assoc]
  rw [bind_ok (by rw [charge_out]; exact readHash_app _ _ h.asset),
    bind_ok (readVarint63_put _ h.amount _), bind_ok (readVarint63_put _ (by rw [h.vm]; decide) _)]
  rw [if_neg (by simp [h.vm])]
  rw [bind_ok (readVarstr31_enc _ h.prog _), bind_ok (readVarstrList_enc _ h.state _)]
  simp

def WFTypedOut : TypedOutput → Prop
  | .original => True
  | .vote v => v.length ≤ max31

def WFOutput (o : TxOutput) : Prop :=
  o.assetVersion ≤ max63 ∧ WFTypedOut o.typed ∧ (encOutBody o ++ o.commitmentSuffix).length ≤ max31 ∧
  match o.commitment with
  | some oc => o.assetVersion = 1 ∧ WFOC oc
  | none => o.assetVersion ≠ 1

theorem decOutBody_enc (av : Nat) (oc : Option OutputCommitment) (cs : Bytes) (typed : TypedOutput) (rest : Bytes)
    (ht : WFTypedOut typed)
    (hc : match oc with
      | some oc => av = 1 ∧ WFOC oc
      | none => av ≠ 1) :
    (decOutBody typed.tag av (encOutBody ⟨av, oc, cs, typed⟩ ++ rest)).out = .ok (typed, oc) rest := by
  unfold decOutBody encOutBody
  have h1 : ∀ rest, ((if typed.tag = 1 then do
          let v ← readVarstr31
          pure (TypedOutput.vote v)
        else (pure TypedOutput.original : Dec TypedOutput)) (encTypedOutput typed ++ rest)).out = .ok typed rest := by
    intro rest
    cases typed with
    | original => simp [TypedOutput.tag, encTypedOutput]
    | vote v =>
      have ht1 : (TypedOutput.vote v).tag = 1 := rfl
      rw [if_pos ht1]
      simp only [encTypedOutput]
      rw [bind_ok (readVarstr31_enc _ ht _)]
      rfl
  rw [List.append_assoc, bind_ok (h1 _)]
  cases oc with
  | none =>
    simp only at hc
    simp only [List.nil_append]
    rw [if_neg hc]
    rfl
  | some c =>
    obtain ⟨hc1, hc2⟩ := hc
    subst hc1
    simp only [if_true]
    rw [bind_ok (by rw [bind_ok (decOC_enc c hc2 rest)]; rfl)]
    rfl

theorem decOutput_enc (o : TxOutput) (h : WFOutput o) (r : Bytes) :
    (decOutput (encOutput o ++ r)).out = .ok o r := by
  obtain ⟨hav, ht, hl, hc⟩ := h
  unfold decOutput encOutput
  simp only [List.append_assoc, List.singleton_append, List.cons_append, List.nil_append]
  have htag : ¬ (o.typed.tag ≠ 0 ∧ o.typed.tag ≠ 1) := by cases o.typed <;> simp [TypedOutput.tag]
  rw [bind_ok (readVarint63_put _ hav _), bind_ok (readOutType_cons _ _ htag)]
  rw [bind_ok (readExt_enc _ _ o.commitmentSuffix (o.typed, o.commitment) _
    (decOutBody_enc o.assetVersion o.commitment o.commitmentSuffix o.typed _ ht hc) hl)]
  simp only
  rw [bind_ok (readVarstr31_enc [] (by decide) r)]
  rfl

/-! ### transactions -/

structure WFTx (H : Bytes → Bytes) (tx : TxData) : Prop where
  version : tx.version ≤ max63
  timeRange : tx.timeRange ≤ max63
  nIn : tx.inputs.length ≤ max31
  nOut : tx.outputs.length ≤ max31
  ins : ∀ i ∈ tx.inputs, WFInput H i
  outs : ∀ o ∈ tx.outputs, WFOutput o

/-- what decoding the encoding of `tx` yields: recorded size = encoded length, spend/veto
    commitment suffixes doubled -/
def canonTx (H : Bytes → Bytes) (tx : TxData) : TxData :=
  { tx with serializedSize := (encTx H tx).length, inputs := tx.inputs.map dblInput }

theorem decTx_enc (H : Bytes → Bytes) (hH : Hash32 H) (tx : TxData) (h : WFTx H tx) (r : Bytes) :
    (decTx H (encTx H tx ++ r)).out = .ok (canonTx H tx) r := by
  unfold decTx
  rw [bind_ok (remaining_out _)]
  have henc : encTx H tx ++ r = 7 :: (putUvarint tx.version ++ (putUvarint tx.timeRange ++
      (putUvarint tx.inputs.length ++ ((tx.inputs.map (encInput H)).flatten ++
      (putUvarint tx.outputs.length ++ ((tx.outputs.map encOutput).flatten ++ r)))))) := by
    unfold encTx; simp only [List.append_assoc, List.singleton_append, List.cons_append, List.nil_append]
  rw [henc, bind_ok (readByte_cons _ _), if_neg (by decide)]
  rw [bind_ok (readVarint63_put _ h.version _), bind_ok (readVarint63_put _ h.timeRange _),
    bind_ok (readVarint31_put _ h.nIn _)]
  rw [bind_ok (readN_enc' _ (decInput H) (encInput H) dblInput tx.inputs _
    (fun i hi r => decInput_enc H hH i (h.ins i hi) r))]
  rw [bind_ok (readVarint31_put _ h.nOut _)]
  rw [bind_ok (readN_enc _ decOutput encOutput tx.outputs _
    (fun o ho r => decOutput_enc o (h.outs o ho) r))]
  rw [bind_ok (remaining_out _)]
  rw [← henc]
  simp only [pure_out, canonTx, List.length_append, Nat.add_sub_cancel]

/-! ### suplinks, header -/

theorem decSigs_enc : ∀ (l : List Bytes) (r : Bytes), (∀ s ∈ l, s.length ≤ max31) →
    (decSigs l.length ((l.map encVarstr).flatten ++ r)).out = .ok l r := by
  intro l
  induction l with
  | nil => intro r _; simp [decSigs]
  | cons s l ih =>
    intro r h
    simp only [List.length_cons, List.map_cons, List.flatten_cons, List.append_assoc, decSigs]
    rw [bind_ok (readVarstr31_enc s (h s (by simp)) _), bind_ok (ih r (fun x hx => h x (by simp [hx])))]
    rfl

structure WFSupLink (s : SupLink) : Prop where
  height : s.sourceHeight ≤ max63
  hash : s.sourceHash.length = 32
  nSigs : s.signatures.length = maxValidators
  sigs : ∀ x ∈ s.signatures, x.length ≤ max31

theorem decSupLink_enc (s : SupLink) (h : WFSupLink s) (r : Bytes) :
    (decSupLink (encSupLink s ++ r)).out = .ok s r := by
  unfold decSupLink encSupLink
  simp only [List.append_assoc]
  rw [bind_ok (readVarint63_put _ h.height _), bind_ok (readHash_app _ _ h.hash)]
  rw [← h.nSigs, bind_ok (decSigs_enc _ _ h.sigs)]
  rfl

theorem decSupLinks_enc (l : List SupLink) (hn : l.length ≤ max31) (h : ∀ s ∈ l, WFSupLink s) (r : Bytes) :
    (decSupLinks (encSupLinks l ++ r)).out = .ok l r := by
  unfold decSupLinks encSupLinks
  simp only [List.append_assoc]
  rw [bind_ok (readVarint31_put _ hn _), bind_ok (tick_out _ _)]
  exact readN_enc _ decSupLink encSupLink l r (fun s hs r => decSupLink_enc s (h s hs) r)

structure WFHeader (h : BlockHeader) : Prop where
  version : h.version ≤ max63
  height : h.height ≤ max63
  prev : h.prevHash.length = 32
  ts : h.timestamp ≤ max63
  root : h.txRoot.length = 32
  wit : h.witness.length ≤ max31
  witExt : (encVarstr h.witness).length ≤ max31
  nSup : h.supLinks.length ≤ max31
  sup : ∀ s ∈ h.supLinks, WFSupLink s
  supExt : (encSupLinks h.supLinks).length ≤ max31

theorem decHeader_enc (f : UInt8) (hf : f = 1 ∨ f = 3) (h : BlockHeader) (wf : WFHeader h) (r : Bytes) :
    (decHeader (encHeader f h ++ r)).out = .ok (f, h) r := by
  have hf2 : ¬ f = 2 := by rcases hf with rfl | rfl <;> decide
  have hf13 : ¬ (f ≠ 1 ∧ f ≠ 3) := by rcases hf with rfl | rfl <;> decide
  unfold decHeader encHeader encHeaderBody
  rw [if_neg hf2]
  simp only [List.append_assoc, List.singleton_append, List.cons_append, List.nil_append]
  rw [bind_ok (readByte_cons _ _), if_neg hf2, if_neg hf13]
  rw [bind_ok (readVarint63_put _ wf.version _), bind_ok (readVarint63_put _ wf.height _),
    bind_ok (readHash_app _ _ wf.prev), bind_ok (readVarint63_put _ wf.ts _)]
  rw [bind_ok (readExt_enc readHash h.txRoot [] h.txRoot _
    (by simpa using readHash_app h.txRoot [] wf.root) (by simp [wf.root, max31]))]
  simp only
  rw [bind_ok (readExt_enc readVarstr31 (encVarstr h.witness) [] h.witness _
    (by simpa using readVarstr31_enc h.witness wf.wit []) (by simpa using wf.witExt))]
  simp only
  rw [bind_ok (readExt_enc decSupLinks (encSupLinks h.supLinks) [] h.supLinks _
    (by simpa using decSupLinks_enc h.supLinks wf.nSup wf.sup []) (by simpa using wf.supExt))]
  rfl

theorem decHeader_enc2 (h : BlockHeader) (r : Bytes) :
    (decHeader (encHeader 2 h ++ r)).out = .ok (2, BlockHeader.zero) r := by
  unfold decHeader encHeader
  rw [if_pos rfl]
  simp only [List.singleton_append]
  rw [bind_ok (readByte_cons _ _), if_pos rfl]
  rfl

/-! ### blocks -/

def AllTyped (tx : TxData) : Prop := ∀ i ∈ tx.inputs, i.typed.isSome = true

theorem mapTxPanics_canon (H : Bytes → Bytes) (tx : TxData) (h : AllTyped tx) : mapTxPanics (canonTx H tx) = false := by
  unfold mapTxPanics canonTx
  simp only [List.any_eq_false, List.mem_map]
  rintro i ⟨j, hj, rfl⟩
  have := h j hj
  unfold dblInput
  cases hjt : j.typed with
  | none => rw [hjt] at this; simp at this
  | some t => simp

theorem decBlockTx_enc (H : Bytes → Bytes) (hH : Hash32 H) (tx : TxData) (h : WFTx H tx) (ht : AllTyped tx) (r : Bytes) :
    (decBlockTx H (encTx H tx ++ r)).out = .ok (canonTx H tx) r := by
  unfold decBlockTx decBlockTxWith
  rw [bind_ok (decTx_enc H hH tx h r)]
  have : (mapTxD (canonTx H tx) r).out = .ok () r := by
    unfold mapTxD
    rw [mapTxPanics_canon H tx ht]
    rfl
  rw [bind_ok this]
  rfl

structure WFBlock (H : Bytes → Bytes) (b : Block) : Prop where
  header : WFHeader b.header
  nTx : b.txs.length ≤ max31
  txs : ∀ t ∈ b.txs, WFTx H t ∧ AllTyped t

theorem decBlock_enc3 (H : Bytes → Bytes) (hH : Hash32 H) (b : Block) (wf : WFBlock H b) (r : Bytes) :
    (decBlock H (encBlock H 3 b ++ r)).out = .ok (3, ⟨b.header, b.txs.map (canonTx H)⟩) r := by
  unfold decBlock decBlockWith encBlock
  rw [if_neg (by decide)]
  simp only [List.append_assoc]
  rw [bind_ok (decHeader_enc 3 (Or.inr rfl) b.header wf.header _)]
  simp only
  rw [if_neg (by decide), bind_ok (readVarint31_put _ wf.nTx _)]
  rw [bind_ok (readN_enc' _ (decBlockTxWith mapTxD H) (encTx H) (canonTx H) b.txs r
    (fun t ht r => decBlockTx_enc H hH t (wf.txs t ht).1 (wf.txs t ht).2 r))]
  rfl

theorem decBlock_enc1 (H : Bytes → Bytes) (b : Block) (wf : WFHeader b.header) (r : Bytes) :
    (decBlock H (encBlock H 1 b ++ r)).out = .ok (1, ⟨b.header, []⟩) r := by
  unfold decBlock decBlockWith encBlock
  rw [if_pos rfl]
  simp only [List.append_nil]
  rw [bind_ok (decHeader_enc 1 (Or.inl rfl) b.header wf _)]
  simp only
  rw [if_pos trivial]
  rfl

theorem decBlock_enc2 (H : Bytes → Bytes) (hH : Hash32 H) (b : Block) (hn : b.txs.length ≤ max31)
    (wf : ∀ t ∈ b.txs, WFTx H t ∧ AllTyped t) (r : Bytes) :
    (decBlock H (encBlock H 2 b ++ r)).out = .ok (2, ⟨BlockHeader.zero, b.txs.map (canonTx H)⟩) r := by
  unfold decBlock decBlockWith encBlock
  rw [if_neg (by decide)]
  simp only [List.append_assoc]
  rw [bind_ok (decHeader_enc2 b.header _)]
  simp only
  rw [if_neg (by decide), bind_ok (readVarint31_put _ hn _)]
  rw [bind_ok (readN_enc' _ (decBlockTxWith mapTxD H) (encTx H) (canonTx H) b.txs r
    (fun t ht r => decBlockTx_enc H hH t (wf t ht).1 (wf t ht).2 r))]
  rfl

/-! ### hex text layer -/

theorem unhex_hexDigit (n : Nat) (h : n < 16) : unhex (hexDigit n) = some n := by
  have : n = 0 ∨ n = 1 ∨ n = 2 ∨ n = 3 ∨ n = 4 ∨ n = 5 ∨ n = 6 ∨ n = 7 ∨ n = 8 ∨ n = 9 ∨ n = 10 ∨
      n = 11 ∨ n = 12 ∨ n = 13 ∨ n = 14 ∨ n = 15 := by omega
  rcases this with rfl | rfl | rfl | rfl | rfl | rfl | rfl | rfl | rfl | rfl | rfl | rfl | rfl | rfl | rfl | rfl <;> decide

theorem hexDecode_encode (bs : Bytes) : hexDecode (hexEncode bs) = some bs := by
  induction bs with
  | nil => rfl
  | cons b r ih =>
    simp only [hexEncode, hexDecode]
    have hb := b.toNat_lt
    rw [unhex_hexDigit _ (by omega), unhex_hexDigit _ (Nat.mod_lt _ (by norm_num)), ih]
    simp only
    congr 2
    have : b.toNat / 16 * 16 + b.toNat % 16 = b.toNat := by omega
    rw [this]
    simp

theorem fromText_hex {α} (d : Dec α) (bs : Bytes) : (fromText d (hexEncode bs)).out = (d bs).out := by
  unfold fromText
  rw [hexDecode_encode]

end BytomModel.Lemmas.Codec
