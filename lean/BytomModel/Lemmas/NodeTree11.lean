/-
Lemmas about the checkpoint tree of `Model/Node`: the recursive fork-choice search
`Tree.bestNode` against a declarative reading of the Casper fork-choice rule.

Declarative side
* `Tree.paths t`     — every root-to-node path of the tree (root first, the node last);
* `jhOf jh p`        — the justified height of a path: the height of the justified checkpoint
                       nearest to the end of `p`, or `jh` when the path holds none
                       (`jhOf_eq_find` states exactly that);
* key of the node at the end of path `p`: `(jhOf jh p, height, rank of hash)`, compared
  lexicographically by the model's own `better`.
-/
import BytomModel.Model.Node
import Mathlib.Tactic.Linarith

namespace BytomModel.Lemmas.NodeTree
open BytomModel.Node

/-! ### the three-way comparison is a strict total order on keys -/

/-- key comparison on (checkpoint, justified height) pairs: `x` is strictly better than `y` -/
def kb (rankOf : Nat → Nat) (x y : Ckpt × Nat) : Bool :=
  better x.2 x.1.height (rankOf x.1.hash) y.2 y.1.height (rankOf y.1.hash)

theorem better_iff (a b c d e f : Nat) :
    better a b c d e f = true ↔ (a > d ∨ (a = d ∧ b > e) ∨ (a = d ∧ b = e ∧ c > f)) := by
  simp [better, or_assoc, and_assoc]

theorem better_false_iff (a b c d e f : Nat) :
    better a b c d e f = false ↔ (a < d ∨ (a = d ∧ b < e) ∨ (a = d ∧ b = e ∧ c ≤ f)) := by
  rw [← Bool.not_eq_true, better_iff]; omega

theorem better_irrefl (a b c : Nat) : better a b c a b c = false := by
  rw [better_false_iff]; omega

theorem better_asymm {a b c d e f : Nat} (h : better a b c d e f = true) : better d e f a b c = false := by
  rw [better_iff] at h; rw [better_false_iff]; omega

/-- `≤` is transitive (`≤` = "not strictly better") -/
theorem better_le_trans {a b c d e f g h i : Nat}
    (h1 : better a b c d e f = false) (h2 : better d e f g h i = false) : better a b c g h i = false := by
  rw [better_false_iff] at *; omega

/-- totality: of two different keys one is strictly better -/
theorem better_total {a b c d e f : Nat} (h1 : better a b c d e f = false) (h2 : better d e f a b c = false) :
    a = d ∧ b = e ∧ c = f := by
  rw [better_false_iff] at *; omega

theorem kb_irrefl (rankOf : Nat → Nat) (x : Ckpt × Nat) : kb rankOf x x = false := better_irrefl _ _ _

theorem kb_le_trans {rankOf : Nat → Nat} {x y z : Ckpt × Nat}
    (h1 : kb rankOf x y = false) (h2 : kb rankOf y z = false) : kb rankOf x z = false :=
  better_le_trans h1 h2

theorem kb_asymm {rankOf : Nat → Nat} {x y : Ckpt × Nat} (h : kb rankOf x y = true) : kb rankOf y x = false :=
  better_asymm h

/-! ### declarative side: paths and their justified height -/

end BytomModel.Lemmas.NodeTree
namespace BytomModel.Node
mutual
  /-- every root-to-node path (root first, the node itself last), depth first -/
  def Tree.paths : Tree → List (List Ckpt)
    | .node c cs => [c] :: (Tree.pathsList cs).map (fun p => c :: p)
  def Tree.pathsList : List Tree → List (List Ckpt)
    | [] => []
    | t :: ts => t.paths ++ Tree.pathsList ts
end
end BytomModel.Node
namespace BytomModel.Lemmas.NodeTree
open BytomModel.Node

/-- justified height carried down a path: the last justified checkpoint met wins -/
def jhOf : Nat → List Ckpt → Nat
  | jh, [] => jh
  | jh, c :: p => jhOf (if c.status == .justified then c.height else jh) p

theorem jhOf_append (jh : Nat) (p q : List Ckpt) : jhOf jh (p ++ q) = jhOf (jhOf jh p) q := by
  induction p generalizing jh with
  | nil => rfl
  | cons c p ih => simp [jhOf, ih]

/-- `jhOf` is "the height of the justified node nearest to the end of the path, else `jh`" -/
theorem jhOf_eq_find (jh : Nat) (p : List Ckpt) :
    jhOf jh p = match p.reverse.find? (fun c => c.status == .justified) with
      | some a => a.height
      | none => jh := by
  induction p generalizing jh with
  | nil => rfl
  | cons c p ih =>
    rw [jhOf, ih, List.reverse_cons, List.find?_append]
    cases h : List.find? (fun c => c.status == .justified) p.reverse with
    | some a => simp
    | none =>
      by_cases hc : c.status = .justified <;> simp [hc]

/-- the node a path ends in, with its key's first component -/
def endKey (jh : Nat) (p : List Ckpt) : Option (Ckpt × Nat) := p.getLast?.map (fun c => (c, jhOf jh p))

theorem endKey_cons (jh : Nat) (c : Ckpt) (p : List Ckpt) (hp : p ≠ []) :
    endKey jh (c :: p) = endKey (if c.status == .justified then c.height else jh) p := by
  cases p with
  | nil => exact absurd rfl hp
  | cons d q => simp [endKey, jhOf, List.getLast?_cons_cons]

mutual
  theorem paths_ne_nil (t : Tree) : ∀ p ∈ t.paths, p ≠ [] := by
    match t with
    | .node c cs =>
      intro p hp
      simp only [Tree.paths, List.mem_cons, List.mem_map] at hp
      rcases hp with rfl | ⟨q, _, rfl⟩ <;> simp
  theorem pathsList_ne_nil (ts : List Tree) : ∀ p ∈ Tree.pathsList ts, p ≠ [] := by
    match ts with
    | [] => intro p hp; simp [Tree.pathsList] at hp
    | t :: ts =>
      intro p hp
      simp only [Tree.pathsList, List.mem_append] at hp
      rcases hp with h | h
      · exact paths_ne_nil t p h
      · exact pathsList_ne_nil ts p h
end

theorem filterMap_last_cons (c : Ckpt) (l : List (List Ckpt)) (h : ∀ p ∈ l, p ≠ []) :
    (l.map (fun p => c :: p)).filterMap List.getLast? = l.filterMap List.getLast? := by
  induction l with
  | nil => rfl
  | cons p l ih =>
    have hp := h p (by simp)
    cases p with
    | nil => exact absurd rfl hp
    | cons d q =>
      simp only [List.map_cons, List.filterMap_cons, List.getLast?_cons_cons]
      rw [ih (fun p hp => h p (by simp [hp]))]

mutual
  /-- the nodes at the ends of the paths are exactly the checkpoints of the tree, in order -/
  theorem paths_last (t : Tree) : t.paths.filterMap List.getLast? = t.flatten := by
    match t with
    | .node c cs =>
      simp only [Tree.paths, Tree.flatten, List.filterMap_cons, List.getLast?_singleton]
      congr 1
      rw [← pathsList_last cs]
      exact filterMap_last_cons c _ (pathsList_ne_nil cs)
  theorem pathsList_last (ts : List Tree) : (Tree.pathsList ts).filterMap List.getLast? = Tree.flattenList ts := by
    match ts with
    | [] => simp [Tree.pathsList, Tree.flattenList]
    | t :: ts =>
      simp only [Tree.pathsList, Tree.flattenList, List.filterMap_append]
      rw [paths_last t, pathsList_last ts]
end

/-- a checkpoint is in the tree iff some path ends in it -/
theorem mem_flatten_iff (t : Tree) (c : Ckpt) : c ∈ t.flatten ↔ ∃ p ∈ t.paths, p.getLast? = some c := by
  rw [← paths_last t, List.mem_filterMap]

mutual
  /-- the model's own `Tree.path` lookup returns one of the declarative paths -/
  theorem path_mem_paths (q : Ckpt → Bool) (t : Tree) : ∀ l, t.path q = some l → l ∈ t.paths := by
    match t with
    | .node c cs =>
      intro l h
      simp only [Tree.path] at h
      simp only [Tree.paths, List.mem_cons, List.mem_map]
      split at h
      · left; injection h with h; exact h.symm
      · split at h
        · rename_i r hr
          injection h with h
          right; exact ⟨r, pathList_mem_paths q cs r hr, h⟩
        · cases h
  theorem pathList_mem_paths (q : Ckpt → Bool) (ts : List Tree) : ∀ l, Tree.pathList q ts = some l → l ∈ Tree.pathsList ts := by
    match ts with
    | [] => intro l h; simp [Tree.pathList] at h
    | t :: ts =>
      intro l h
      simp only [Tree.pathList] at h
      simp only [Tree.pathsList, List.mem_append]
      split at h
      · rename_i r hr
        injection h with h; subst h
        left; exact path_mem_paths q t _ hr
      · right; exact pathList_mem_paths q ts l h
end

/-! ### the recursive search computes the maximum -/

/-- what `bestList` guarantees -/
def ListSpec (rankOf : Nat → Nat) (ts : List Tree) : Prop :=
  ∀ (jh : Nat) (best : Ckpt × Nat),
    let r := Tree.bestList rankOf jh best ts
    (r = best ∨ ∃ p ∈ Tree.pathsList ts, endKey jh p = some r) ∧
    kb rankOf best r = false ∧
    (∀ p ∈ Tree.pathsList ts, ∀ k, endKey jh p = some k → kb rankOf k r = false)

def NodeSpec (rankOf : Nat → Nat) (t : Tree) : Prop :=
  ∀ (jh : Nat),
    let r := t.bestNode rankOf jh
    (∃ p ∈ t.paths, endKey jh p = some r) ∧
    (∀ p ∈ t.paths, ∀ k, endKey jh p = some k → kb rankOf k r = false)

mutual
  theorem bestNode_spec (rankOf : Nat → Nat) (t : Tree) : NodeSpec rankOf t := by
    match t with
    | .node c cs =>
      intro jh
      have hl := bestList_spec rankOf cs
        (if c.status == .justified then c.height else jh) (c, if c.status == .justified then c.height else jh)
      simp only [Tree.bestNode]
      obtain ⟨hmem, hbest, hall⟩ := hl
      have hroot : endKey jh [c] = some (c, if c.status == .justified then c.height else jh) := by
        simp [endKey, jhOf]
      refine ⟨?_, ?_⟩
      · rcases hmem with h | ⟨p, hp, hk⟩
        · exact ⟨[c], by simp [Tree.paths], by rw [h]; exact hroot⟩
        · refine ⟨c :: p, by simp only [Tree.paths, List.mem_cons, List.mem_map]; exact Or.inr ⟨p, hp, rfl⟩, ?_⟩
          rw [endKey_cons _ _ _ (pathsList_ne_nil cs p hp)]; exact hk
      · intro p hp k hk
        simp only [Tree.paths, List.mem_cons, List.mem_map] at hp
        rcases hp with rfl | ⟨q, hq, rfl⟩
        · rw [hroot] at hk; injection hk with hk; subst hk; exact hbest
        · rw [endKey_cons _ _ _ (pathsList_ne_nil cs q hq)] at hk
          exact hall q hq k hk
  theorem bestList_spec (rankOf : Nat → Nat) (ts : List Tree) : ListSpec rankOf ts := by
    match ts with
    | [] =>
      intro jh best
      simp only [Tree.bestList, Tree.pathsList]
      refine ⟨by simp, kb_irrefl _ _, by intro p hp; simp at hp⟩
    | t :: ts =>
      intro jh best
      simp only [Tree.bestList]
      obtain ⟨⟨pc, hpc, hkc⟩, hcmax⟩ := bestNode_spec rankOf t jh
      -- the accumulator after looking at `t`
      generalize hb' : (if better (t.bestNode rankOf jh).2 (t.bestNode rankOf jh).1.height (rankOf (t.bestNode rankOf jh).1.hash)
          best.2 best.1.height (rankOf best.1.hash) = true then t.bestNode rankOf jh else best) = best'
      obtain ⟨hmem, hbest, hall⟩ := bestList_spec rankOf ts jh best'
      have hle_best : kb rankOf best best' = false := by
        subst hb'; split
        · rename_i h; exact better_asymm h
        · exact kb_irrefl _ _
      have hle_cand : kb rankOf (t.bestNode rankOf jh) best' = false := by
        subst hb'; split
        · exact kb_irrefl _ _
        · rename_i h; simpa [kb] using h
      have hfrom : best' = best ∨ best' = t.bestNode rankOf jh := by
        subst hb'; split <;> simp
      refine ⟨?_, kb_le_trans hle_best hbest, ?_⟩
      · rcases hmem with h | ⟨p, hp, hk⟩
        · rcases hfrom with h' | h'
          · left; rw [h, h']
          · right; refine ⟨pc, ?_, by rw [h, h']; exact hkc⟩
            simp only [Tree.pathsList, List.mem_append]; exact Or.inl hpc
        · right; refine ⟨p, ?_, hk⟩
          simp only [Tree.pathsList, List.mem_append]; exact Or.inr hp
      · intro p hp k hk
        simp only [Tree.pathsList, List.mem_append] at hp
        rcases hp with hp | hp
        · exact kb_le_trans (kb_le_trans (hcmax p hp k hk) hle_cand) hbest
        · exact hall p hp k hk
end

end BytomModel.Lemmas.NodeTree
