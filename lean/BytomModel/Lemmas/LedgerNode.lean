/-
`NodeLedger.State.ledgerReorg` in terms of the block lists it is given; `replay`; the
contract half of the reorganisation theorem.
Core Lean only.
-/
import BytomModel.Model.NodeLedger
import BytomModel.Lemmas.LedgerReorg
import BytomModel.Lemmas.LedgerContracts
namespace BytomModel.Lemmas.Ledger
open BytomModel.Ledger BytomModel.Node BytomModel.NodeLedger

def contractDetachAll (det : List (List Tx)) (cd : CMap) : CMap := det.foldl (fun cd txs => contractDetach txs cd) cd
def contractAttachAll (att : List Blk) (ca : CMap) : CMap := att.foldl (fun ca b => contractAttach b.2 ca) ca

/-- `ledgerReorg` on explicit block lists: `att` ascending (height, transactions), `det` tip
    first (transactions) -/
def reorgCore (p : Params) (kindOf : Nat → OutKind) (db : View) (cdb : CMap) (att : List Blk) (det : List (List Tx)) :
    Option (View × CMap) :=
  match reorgView p kindOf db att det with
  | none => none
  | some v2 => some (saveView db v2, saveContracts cdb (contractAttachAll att []) (contractDetachAll det []))

theorem step1_eq (s : NodeLedger.State) (det : List Header) (v : View) (cd : CMap) :
    det.foldl (fun (acc : Option (View × CMap)) d =>
      match acc with
      | none => none
      | some (v, cd) =>
        let txs := s.txsOf d.id
        match detachBlockTxs s.kindOf txs (loadSpent s.utxo txs v) with
        | none => none
        | some v' => some (v', contractDetach txs cd)) (some (v, cd)) =
    match detachViews s.kindOf s.utxo (det.map (fun d => s.txsOf d.id)) v with
    | none => none
    | some v1 => some (v1, contractDetachAll (det.map (fun d => s.txsOf d.id)) cd) := by
  induction det generalizing v cd with
  | nil => rfl
  | cons d det ih =>
    rw [List.foldl_cons, List.map_cons]
    unfold detachViews contractDetachAll
    rw [List.foldl_cons]
    dsimp only
    cases h : detachBlockTxs s.kindOf (s.txsOf d.id) (loadSpent s.utxo (s.txsOf d.id) v) with
    | none =>
      dsimp only
      clear ih h
      induction det with
      | nil => rfl
      | cons d' det ih' => rw [List.foldl_cons]; exact ih'
    | some v' =>
      dsimp only
      rw [ih]
      rfl

theorem step2_eq (s : NodeLedger.State) (att : List Header) (v : View) (ca : CMap) :
    att.foldl (fun (acc : Option (View × CMap)) a =>
      match acc with
      | none => none
      | some (v, ca) =>
        let txs := s.txsOf a.id
        match applyBlockTxs s.params a.height true txs (loadSpent s.utxo txs v) with
        | none => none
        | some v' => some (v', contractAttach txs ca)) (some (v, ca)) =
    match attachViews s.params s.utxo (att.map (fun a => (a.height, s.txsOf a.id))) v with
    | none => none
    | some v2 => some (v2, contractAttachAll (att.map (fun a => (a.height, s.txsOf a.id))) ca) := by
  induction att generalizing v ca with
  | nil => rfl
  | cons a att ih =>
    rw [List.foldl_cons, List.map_cons]
    unfold attachViews contractAttachAll
    rw [List.foldl_cons]
    dsimp only
    cases h : applyBlockTxs s.params a.height true (s.txsOf a.id) (loadSpent s.utxo (s.txsOf a.id) v) with
    | none =>
      dsimp only
      clear ih h
      induction att with
      | nil => rfl
      | cons a' att ih' => rw [List.foldl_cons]; exact ih'
    | some v' =>
      dsimp only
      rw [ih]
      rfl

/-- the model's `ledgerReorg` is `reorgCore` on the transactions of the named blocks -/
theorem ledgerReorg_eq (s : NodeLedger.State) (att det : List Header) :
    s.ledgerReorg att det =
      reorgCore s.params s.kindOf s.utxo s.contracts
        (att.map (fun a => (a.height, s.txsOf a.id))) (det.map (fun d => s.txsOf d.id)) := by
  unfold NodeLedger.State.ledgerReorg reorgCore reorgView
  dsimp only
  generalize hX : List.foldl _ (some (([] : View), ([] : CMap))) det = X
  have h1 : X = _ := hX.symm.trans (step1_eq s det [] [])
  rw [h1]
  cases detachViews s.kindOf s.utxo (det.map (fun d => s.txsOf d.id)) [] with
  | none => rfl
  | some v1 =>
    dsimp only
    generalize hY : List.foldl _ (some (v1, ([] : CMap))) att = Y
    have h2 : Y = _ := hY.symm.trans (step2_eq s att v1 [])
    rw [h2]
    cases attachViews s.params s.utxo (att.map (fun a => (a.height, s.txsOf a.id))) v1 with
    | none => rfl
    | some v2 => rfl

/-! ### replay -/

/-- the node extends its chain by one block: a reorganisation with nothing to detach -/
def extend (p : Params) (st : View × CMap) (b : Blk) : Option (View × CMap) :=
  reorgCore p (fun _ => OutKind.retire) st.1 st.2 [b] []

/-- apply the chain block by block, persisting after every block, as a node does that never
    sees a fork -/
def replayFrom (p : Params) : List Blk → View × CMap → Option (View × CMap)
  | [], st => some st
  | b :: rest, st =>
    match extend p st b with
    | none => none
    | some st' => replayFrom p rest st'

def replay (p : Params) (chain : List Blk) : Option (View × CMap) := replayFrom p chain ([], [])

def replayC (C : List Blk) (cdb : CMap) : CMap := C.foldl (fun c b => saveContracts c (contractAttach b.2 []) []) cdb

theorem extend_eq (p : Params) (st : View × CMap) (b : Blk) :
    extend p st b = match extendU p st.1 b with
      | none => none
      | some db' => some (db', saveContracts st.2 (contractAttach b.2 []) []) := by
  unfold extend reorgCore reorgView extendU
  simp only [detachViews, attachViews, contractAttachAll, contractDetachAll, List.foldl_cons, List.foldl_nil]
  cases applyBlockTxs p b.1 true b.2 (loadSpent st.1 b.2 []) <;> rfl

theorem replayFrom_eq (p : Params) (C : List Blk) (st : View × CMap) :
    replayFrom p C st = match replayU p C st.1 with
      | none => none
      | some db' => some (db', replayC C st.2) := by
  induction C generalizing st with
  | nil => rfl
  | cons b C ih =>
    unfold replayFrom replayU replayC
    rw [extend_eq, List.foldl_cons]
    cases extendU p st.1 b with
    | none => rfl
    | some db' => dsimp only; rw [ih]; rfl

def blkTxs (C : List Blk) : List Tx := C.flatMap (·.2)

theorem blkTxs_append (A B : List Blk) : blkTxs (A ++ B) = blkTxs A ++ blkTxs B := by simp [blkTxs]

theorem replayC_get (C : List Blk) (cdb : CMap) (k : Nat) :
    cget (replayC C cdb) k = (cget cdb k).or (firstReg (blkTxs C) k) := by
  induction C generalizing cdb with
  | nil => simp [replayC, blkTxs, firstReg]
  | cons b C ih =>
    unfold replayC
    rw [List.foldl_cons]
    have := ih (saveContracts cdb (contractAttach b.2 []) [])
    unfold replayC at this
    rw [this]
    have h1 : cget (saveContracts cdb (contractAttach b.2 []) []) k = (cget cdb k).or (firstReg b.2 k) := by
      apply saveContracts_reorg (contractAttach_nodup b.2 nodupKeys_nil) nodupKeys_nil (fA := none)
      · simp
      · rfl
      · rw [contractAttach_get]; rfl
      · intro x y _ h; cases h
    rw [h1]
    have : blkTxs (b :: C) = b.2 ++ blkTxs C := by simp [blkTxs]
    rw [this, firstReg_append]
    cases cget cdb k <;> cases firstReg b.2 k <;> rfl

theorem contractAttachAll_eq (att : List Blk) (ca : CMap) : contractAttachAll att ca = contractAttach (blkTxs att) ca := by
  induction att generalizing ca with
  | nil => rfl
  | cons b att ih =>
    unfold contractAttachAll at *
    rw [List.foldl_cons, ih]
    have : blkTxs (b :: att) = b.2 ++ blkTxs att := by simp [blkTxs]
    rw [this, contractAttach_append]

theorem contractDetachAll_eq (det : List (List Tx)) (cd : CMap) :
    contractDetachAll det cd = (det.flatMap List.reverse).foldl detachStepC cd := by
  induction det generalizing cd with
  | nil => rfl
  | cons txs det ih =>
    unfold contractDetachAll at *
    rw [List.foldl_cons, ih, List.flatMap_cons, List.foldl_append, contractDetach_eq]

theorem det_txs (A : List Blk) : (A.reverse.map (·.2)).flatMap List.reverse = (blkTxs A).reverse := by
  induction A with
  | nil => rfl
  | cons b A ih =>
    have : blkTxs (b :: A) = b.2 ++ blkTxs A := by simp [blkTxs]
    rw [List.reverse_cons, List.map_append, List.flatMap_append, ih, this, List.reverse_append]
    simp

theorem attachAll_get (B : List Blk) (k : Nat) : cget (contractAttachAll B []) k = firstReg (blkTxs B) k := by
  rw [contractAttachAll_eq, contractAttach_get]; rfl

theorem detachAll_get (A : List Blk) (k : Nat) :
    cget (contractDetachAll (A.reverse.map (·.2)) []) k = firstReg (blkTxs A) k := by
  rw [contractDetachAll_eq, det_txs, detachFold_get, List.reverse_reverse]
  cases firstReg (blkTxs A) k <;> rfl

/-- the hypothesis the code relies on ("rollback is forbidden if contract register
    transaction id is different"): the transaction that registered a contract in the common
    prefix does not occur again — with the same id — as a registration of the same contract on
    the branch being left.  In the real system a transaction cannot occur twice in one chain. -/
def NoReuse (P A : List Blk) : Prop :=
  ∀ k x y, firstReg (blkTxs P) k = some x → firstReg (blkTxs A) k = some y → x ≠ y

/-- contract half: from the table a replay of `P ++ A` leaves, the reorganisation to `P ++ B`
    writes the table a replay of `P ++ B` leaves -/
theorem reorg_contracts {P A B : List Blk} (h : NoReuse P A) (k : Nat) :
    cget (saveContracts (replayC (P ++ A) []) (contractAttachAll B []) (contractDetachAll (A.reverse.map (·.2)) [])) k =
      cget (replayC (P ++ B) []) k := by
  rw [replayC_get (P ++ B), blkTxs_append, firstReg_append]
  have e : cget ([] : CMap) k = none := rfl
  rw [e, Option.none_or]
  apply saveContracts_reorg
  · rw [contractAttachAll_eq]; exact contractAttach_nodup _ nodupKeys_nil
  · rw [contractDetachAll_eq]; exact detachFold_nodup _ nodupKeys_nil
  · rw [replayC_get, blkTxs_append, firstReg_append, e, Option.none_or]
  · exact detachAll_get A k
  · exact attachAll_get B k
  · exact h k

theorem replayC_nil_get (C : List Blk) (k : Nat) : cget (replayC C []) k = firstReg (blkTxs C) k := by
  rw [replayC_get]; rfl

/-- contract half from any table that holds the first registrations of `P ++ A` -/
theorem reorg_contracts_general {P A B : List Blk} {cdb : CMap}
    (hc : ∀ k, cget cdb k = firstReg (blkTxs (P ++ A)) k) (h : NoReuse P A) (k : Nat) :
    cget (saveContracts cdb (contractAttachAll B []) (contractDetachAll (A.reverse.map (·.2)) [])) k =
      firstReg (blkTxs (P ++ B)) k := by
  rw [blkTxs_append, firstReg_append]
  apply saveContracts_reorg
  · rw [contractAttachAll_eq]; exact contractAttach_nodup _ nodupKeys_nil
  · rw [contractDetachAll_eq]; exact detachFold_nodup _ nodupKeys_nil
  · rw [hc, blkTxs_append, firstReg_append]
  · exact detachAll_get A k
  · exact attachAll_get B k
  · exact h k

/-! ### every history of extensions and reorganisations -/

/-- `Reach p kindOf C st`: the node's persisted ledger is `st` and its main chain is `C`, after
    some history of chain extensions (a reorganisation with `A = []`) and reorganisations
    (leave branch `A`, adopt branch `B` above the common prefix `P`) that its ledger accepted.
    The side conditions are facts about the block tree that hold by hashing in the real
    system: output ids are created once per chain (`WF`), a spending transaction knows the
    kind of the output it spends (`KindsOK`), a transaction does not occur twice in a chain
    (`NoReuse`, only needed for contract registrations). -/
inductive Reach (p : Params) (kindOf : Nat → OutKind) : List Blk → View × CMap → Prop
  | genesis : Reach p kindOf [] ([], [])
  | reorg {P A B : List Blk} {st st' : View × CMap} :
      Reach p kindOf (P ++ A) st →
      WF (flat (P ++ A)) → WF (flat (P ++ B)) → KindsOK kindOf (flat (P ++ A)) → NoReuse P A →
      reorgCore p kindOf st.1 st.2 B (A.reverse.map (·.2)) = some st' →
      Reach p kindOf (P ++ B) st'

structure ReachInv (p : Params) (C : List Blk) (st : View × CMap) : Prop where
  wf : WF (flat C)
  replays : ∃ d, replayU p C [] = some d
  good : Good (flat C) (vget st.1)
  struct : Struct (flat C)
  contracts : ∀ k, cget st.2 k = firstReg (blkTxs C) k

theorem reach_inv {p : Params} {kindOf : Nat → OutKind} {C : List Blk} {st : View × CMap}
    (h : Reach p kindOf C st) : ReachInv p C st := by
  induction h with
  | genesis =>
    refine ⟨by simp [WF, flat, created, NodupKeys, keys], ⟨[], rfl⟩, ?_, by trivial, fun k => rfl⟩
    simp only [flat, List.flatMap_nil]
    rw [vget_nil_eq]; exact good_nil
  | @reorg P A B st st' _ hwA hwB hk hnr hre ih =>
    obtain ⟨d, hd⟩ := ih.replays
    rw [replayU_append] at hd
    cases hP : replayU p P [] with
    | none => rw [hP] at hd; simp at hd
    | some dP =>
      have hgen := reorg_general (B := B) hP ih.good ih.struct hwA hwB hk
      unfold reorgCore at hre
      cases hv : reorgView p kindOf st.1 B (A.reverse.map (·.2)) with
      | none => rw [hv] at hre; simp at hre
      | some v2 =>
        rw [hv] at hre hgen
        simp only [Option.some.injEq] at hre
        cases hB : replayU p B dP with
        | none => rw [hB] at hgen; exact False.elim hgen
        | some dB =>
          rw [hB] at hgen
          obtain ⟨g, s, _⟩ := hgen
          subst hre
          refine ⟨hwB, ⟨dB, by rw [replayU_append, hP]; exact hB⟩, g, s, ?_⟩
          intro k
          exact reorg_contracts_general ih.contracts hnr k

end BytomModel.Lemmas.Ledger
