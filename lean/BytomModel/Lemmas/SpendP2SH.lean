/-
C02: `Verify` of the pay-to-script-hash program
  DUP SHA3 <h:32> EQUALVERIFY 0 SWAP 0 CHECKPREDICATE
for an arbitrary redeem script whose own run (as the child VM) is CHECKPREDICATE-free.
-/
import BytomModel.Lemmas.SpendRun
import BytomModel.Lemmas.VMMachine

namespace BytomModel.Lemmas.SpendExec
open BytomModel.VM OpM

theorem valueLaws : MemLaws valueMem := ⟨fun _ _ _ => rfl, fun _ _ => Nat.le_refl _⟩

/-! ### run limits stay non-negative (from the C07 step invariant) -/

theorem frameStep_nonneg (ctx : Context Bytes) (f : Fr) (h : 0 ≤ f.runLimit) :
    match frameStep valueMem ctx ⟨(), f⟩ with
    | .ok _ s => 0 ≤ s.f.runLimit
    | .err _ s => 0 ≤ s.f.runLimit
    | .panic => True := by
  have := BytomModel.VM.frameStep_ok valueMem ctx valueLaws ⟨(), f⟩ h
  unfold FrameOK at this
  cases hs : frameStep valueMem ctx ⟨(), f⟩ with
  | ok a s =>
    rw [hs] at this
    simp only [ResP_ok] at this
    cases a with
    | continue_ => obtain ⟨_, _, _, h3, _⟩ := this; exact h3
    | enterChild c => exact this.2.1
  | err er s =>
    rw [hs] at this
    simp only [ResP_err] at this
    exact this.1
  | panic => trivial

theorem FSteps.nonneg {ctx : Context Bytes} {k : Nat} {f g : Fr} (c : FSteps ctx k f g) (h : 0 ≤ f.runLimit) :
    0 ≤ g.runLimit := by
  induction c with
  | refl f => exact h
  | @step k f g' h' _ hs _ ih =>
    have := frameStep_nonneg ctx f h
    rw [hs] at this
    exact ih this

theorem FFinal.nonneg {ctx : Context Bytes} {g f' : Fr} {er : Option Err} (c : FFinal ctx g f' er) (h : 0 ≤ g.runLimit) :
    0 ≤ f'.runLimit := by
  cases c with
  | done _ => exact h
  | fail _ hs =>
    have := frameStep_nonneg ctx g h
    rw [hs] at this
    exact this

/-! ### CHECKPREDICATE with limit 0 and count 0 -/

theorem asBigInt_nil : asBigInt [] = .ok 0 := by decide

/-- `CHECKPREDICATE` on the stack `0 script 0 rest…`: the child VM gets the whole remaining
    stack and all the gas that is left after the 256 of the instruction -/
theorem frameStep_cp0 (ctx : Context Bytes) (P : Bytes) (pc np : Nat) (rl df : Int) (script : Bytes) (rest alt : List Bytes)
    (d : Nat) (e : Bool) (hparse : parseOpL P.length P pc = .ok ⟨0xc0, 1, []⟩) (hg : 256 ≤ rl) :
    frameStep valueMem ctx ⟨(), ⟨P, pc, np, rl, df, [] :: script :: [] :: rest, alt, d, e⟩⟩ =
      .ok (.enterChild ⟨rl - 256, script, rest.length⟩)
        ⟨(), ⟨P, pc, pc + 1, 0, -192 - 8 - (8 + script.length) - 8, rest, alt, d, e⟩⟩ := by
  unfold frameStep
  simp only [bind_def, get_def, vlen, vread, hparse, ofExcept_ok, modifyF_def, pure_def]
  have hx : isExpansion 0xc0 = false := by decide
  simp only [hx, Bool.false_eq_true, if_false, bind_def, modifyF_def, opCheckPredicateCode, if_true, cpPrelude]
  have p0 : ∀ (dd : Int) (tl : List Bytes), popInt64 valueMem true
      (⟨(), ⟨P, pc, pc + 1, rl - 256, dd, [] :: tl, alt, d, e⟩⟩ : VS) =
      .ok (0 : Int) ⟨(), ⟨P, pc, pc + 1, rl - 256, dd - 8, tl, alt, d, e⟩⟩ := by
    intro dd tl
    have := popInt64_ok P pc (pc + 1) (rl - 256) alt d e [] tl dd 0 asBigInt_nil (by decide)
    simpa using this
  simp (disch := omega) [applyCost_ok, deferCost, p0, pop, itemCost]

/-- the child VM returned: the parent pushes the result, is refunded the child's run limit and
    stacks, and moves on -/
theorem finish_cp (child : Fr) (er : Option Err) (P : Bytes) (pc : Nat) (D : Int) (alt : List Bytes) (d : Nat) (e : Bool)
    (hD : D + 9 ≤ 0) (hc : 0 ≤ child.runLimit) :
    finish valueMem () child er [⟨P, pc, pc + 1, 0, D, [], alt, d, e⟩] =
      .inl ⟨(), ⟨P, pc + 1, pc + 1,
        0 - (D - child.runLimit - stackCost List.length child.data - stackCost List.length child.alt +
          (8 + (boolBytes (er.isNone && !falseResult valueMem () child)).length)),
        D - child.runLimit - stackCost List.length child.data - stackCost List.length child.alt +
          (8 + (boolBytes (er.isNone && !falseResult valueMem () child)).length),
        [boolBytes (er.isNone && !falseResult valueMem () child)], alt, d, e⟩, []⟩ := by
  have h1 := stackCost_nonneg child.data
  have h2 := stackCost_nonneg child.alt
  have hbb : ((boolBytes (er.isNone && !falseResult valueMem () child)).length : Int) ≤ 1 := by
    cases (er.isNone && !falseResult valueMem () child) <;> simp [boolBytes]
  have sc : ∀ xs : List Bytes, stackCost valueMem.len xs = stackCost List.length xs := fun _ => rfl
  unfold finish
  simp (disch := omega) [cpPostlude, deferCost, pushBool, pushBytes, allocBytes, pushItem, itemCost, epilogue, sc]
  rw [applyCost_ok _ _ _ _ _ _ _ _ _ _ (by omega)]
  simp
  omega

theorem runFuel_inl {ctx : Context Bytes} {m m' : Mach} (h : smallStep valueMem ctx m = .inl m') (fuel : Nat) :
    runFuel valueMem ctx (fuel + 1) m = runFuel valueMem ctx fuel m' := by
  simp only [runFuel, h]

theorem smallStep_cp0 (ctx : Context Bytes) (P : Bytes) (pc np : Nat) (rl df : Int) (script : Bytes) (rest alt : List Bytes)
    (d : Nat) (e : Bool) (parents : List Fr) (hparse : parseOpL P.length P pc = .ok ⟨0xc0, 1, []⟩) (hg : 256 ≤ rl)
    (hlen : P.length ≤ maxInt32) (hpc : pc < P.length) :
    smallStep valueMem ctx ⟨(), ⟨P, pc, np, rl, df, [] :: script :: [] :: rest, alt, d, e⟩, parents⟩ =
      .inl ⟨(), ⟨script, 0, 0, rl - 256, 0, rest, [], d + 1, false⟩,
        ⟨P, pc, pc + 1, 0, -192 - 8 - (8 + script.length) - 8, [], alt, d, e⟩ :: parents⟩ := by
  unfold smallStep
  have hlt := progLen_lt P pc np rl df ([] :: script :: [] :: rest) alt d e hlen hpc
  have : ¬ (⟨P, pc, np, rl, df, [] :: script :: [] :: rest, alt, d, e⟩ : Fr).pc ≥
      progLen valueMem ⟨P, pc, np, rl, df, [] :: script :: [] :: rest, alt, d, e⟩ := by omega
  simp only [this, if_false, frameStep_cp0 ctx P pc np rl df script rest alt d e hparse hg]
  simp

theorem FFinal_at_end (ctx : Context Bytes) (fr : Fr) (hpc : fr.pc = fr.prog.length) (hlen : fr.prog.length ≤ maxInt32) :
    FFinal ctx fr fr none := by
  apply FFinal.done
  simp only [progLen, vlen, len_mod _ hlen]
  omega

theorem asBool_boolBytes (b : Bool) : asBool (boolBytes b) = b := by cases b <;> rfl

/-- from the frame in front of `0 script 0 CHECKPREDICATE <end>` to the end of `Verify`'s run,
    given the run of the child VM -/
theorem cp_tail (ctx : Context Bytes) (k0 : Nat) (F0 : Fr) (P : Bytes) (pc : Nat) (R D : Int) (script : Bytes)
    (rest alt : List Bytes) (e : Bool)
    (c : FSteps ctx k0 F0 ⟨P, pc, pc, R, D, [] :: script :: [] :: rest, alt, 0, e⟩)
    (hparse : parseOpL P.length P pc = .ok ⟨0xc0, 1, []⟩) (hend : pc + 1 = P.length) (hlen : P.length ≤ maxInt32)
    (hR : 256 ≤ R) (k : Nat) (g f' : Fr) (er : Option Err)
    (hc : FSteps ctx k ⟨script, 0, 0, R - 256, 0, rest, [], 0 + 1, false⟩ g) (hf : FFinal ctx g f' er)
    (fuel : Nat) (hfuel : k0 + k + 3 ≤ fuel) :
    ∃ fin : Fr, runFuel valueMem ctx fuel ⟨(), F0, []⟩ = some (.done () fin none) ∧
      verdict fin none = if (er.isNone && !falseResult valueMem () f') then none else some .falseVMResult := by
  obtain ⟨j, rfl⟩ : ∃ j, fuel = ((((j + 1) + 1) + k) + 1) + k0 := ⟨fuel - k0 - k - 3, by omega⟩
  have hnn : 0 ≤ f'.runLimit := hf.nonneg (hc.nonneg (by simp only []; omega))
  have hfin := finish_cp f' er P pc (-192 - 8 - (8 + (script.length : Int)) - 8) alt 0 e (by omega) hnn
  obtain ⟨par, hpar, hpdata, hppc, hpprog⟩ : ∃ par : Fr,
      finish valueMem () f' er [⟨P, pc, pc + 1, 0, -192 - 8 - (8 + (script.length : Int)) - 8, [], alt, 0, e⟩] =
        .inl ⟨(), par, []⟩ ∧ par.data = [boolBytes (er.isNone && !falseResult valueMem () f')] ∧ par.pc = pc + 1 ∧
        par.prog = P := ⟨_, hfin, rfl, rfl, rfl⟩
  refine ⟨par, ?_, ?_⟩
  · rw [runFuel_FSteps c [] _,
      runFuel_inl (smallStep_cp0 ctx P pc pc R D script rest alt 0 e [] hparse hR hlen (by omega)) _,
      runFuel_FSteps hc _ _, runFuel_final hf _ _, hpar]
    simp only []
    rw [runFuel_final (FFinal_at_end ctx par (by rw [hppc, hpprog]; omega) (by rw [hpprog]; exact hlen)) [] j]
    rfl
  · generalize (er.isNone && !falseResult valueMem () f') = b at hpdata
    simp only [verdict, falseResult, hpdata, vread, asBool_boolBytes]
    cases b <;> simp

/-- `vmutil.P2SHProgram(h)` for a 32-byte `h` (tied to the real builder in Ties/C02) -/
def p2shCode (h : Bytes) : Bytes := [0x76, 0xaa, 0x20] ++ h ++ [0x88, 0x00, 0x7c, 0x00, 0xc0]

/-- the verdict of the program; `childOk script rest` = the redeem script, run as a child VM
    on the remaining witness items, ends without error and with a true top item -/
def p2shSpec (sha3 : Bytes → Bytes) (h : Bytes) (childOk : Bytes → List Bytes → Bool) (args : List Bytes) : Option Err :=
  match args.reverse with
  | [] => some .dataStackUnderflow
  | script :: rest =>
    if sha3 script ≠ h then some .verifyFailed
    else if childOk script rest then none else some .falseVMResult

section
variable (h : Bytes) (hh : h.length = 32)
include hh

theorem p2sh_len : (p2shCode h).length = 40 := by simp [p2shCode, hh]
theorem p2sh_len_ok : (p2shCode h).length ≤ maxInt32 := by rw [p2sh_len h hh]; decide

theorem ps0 : parseOpL (p2shCode h).length (p2shCode h) 0 = .ok ⟨0x76, 1, []⟩ :=
  parse_plain' _ [] (0xaa :: 0x20 :: (h ++ [0x88, 0x00, 0x7c, 0x00, 0xc0])) 0x76 0 0x76 (by simp [p2shCode]) rfl (by decide)
    (p2sh_len_ok h hh) (by decide) (by decide) (by decide) (by decide)
theorem ps1 : parseOpL (p2shCode h).length (p2shCode h) 1 = .ok ⟨0xaa, 1, []⟩ :=
  parse_plain' _ [0x76] (0x20 :: (h ++ [0x88, 0x00, 0x7c, 0x00, 0xc0])) 0xaa 1 0xaa (by simp [p2shCode]) rfl (by decide)
    (p2sh_len_ok h hh) (by decide) (by decide) (by decide) (by decide)
theorem ps2 : parseOpL (p2shCode h).length (p2shCode h) 2 = .ok ⟨h.length, 1 + h.length, h⟩ :=
  parse_push' _ [0x76, 0xaa] h [0x88, 0x00, 0x7c, 0x00, 0xc0] 0x20 2 (by simp [p2shCode]) rfl (by rw [hh]; decide)
    (by omega) (by omega) (p2sh_len_ok h hh)
theorem ps35 : parseOpL (p2shCode h).length (p2shCode h) 35 = .ok ⟨0x88, 1, []⟩ :=
  parse_plain' _ ([0x76, 0xaa, 0x20] ++ h) [0x00, 0x7c, 0x00, 0xc0] 0x88 35 0x88 (by simp [p2shCode]) (by simp [hh]) (by decide)
    (p2sh_len_ok h hh) (by decide) (by decide) (by decide) (by decide)
theorem ps36 : parseOpL (p2shCode h).length (p2shCode h) 36 = .ok ⟨0x00, 1, []⟩ :=
  parse_plain' _ ([0x76, 0xaa, 0x20] ++ h ++ [0x88]) [0x7c, 0x00, 0xc0] 0x00 36 0x00 (by simp [p2shCode]) (by simp [hh]) (by decide)
    (p2sh_len_ok h hh) (by decide) (by decide) (by decide) (by decide)
theorem ps37 : parseOpL (p2shCode h).length (p2shCode h) 37 = .ok ⟨0x7c, 1, []⟩ :=
  parse_plain' _ ([0x76, 0xaa, 0x20] ++ h ++ [0x88, 0x00]) [0x00, 0xc0] 0x7c 37 0x7c (by simp [p2shCode]) (by simp [hh]) (by decide)
    (p2sh_len_ok h hh) (by decide) (by decide) (by decide) (by decide)
theorem ps38 : parseOpL (p2shCode h).length (p2shCode h) 38 = .ok ⟨0x00, 1, []⟩ :=
  parse_plain' _ ([0x76, 0xaa, 0x20] ++ h ++ [0x88, 0x00, 0x7c]) [0xc0] 0x00 38 0x00 (by simp [p2shCode]) (by simp [hh]) (by decide)
    (p2sh_len_ok h hh) (by decide) (by decide) (by decide) (by decide)
theorem ps39 : parseOpL (p2shCode h).length (p2shCode h) 39 = .ok ⟨0xc0, 1, []⟩ :=
  parse_plain' _ ([0x76, 0xaa, 0x20] ++ h ++ [0x88, 0x00, 0x7c, 0x00]) [] 0xc0 39 0xc0 (by simp [p2shCode]) (by simp [hh]) (by decide)
    (p2sh_len_ok h hh) (by decide) (by decide) (by decide) (by decide)

/-- **`vm.Verify` of the P2SH program** for a redeem script whose child run is known -/
theorem p2sh_verify (ctx : Context Bytes) (hcode : ctx.code = p2shCode h) (hv : ctx.vmVersion = 1)
    (hs3 : ∀ x, (ctx.sha3 x).length = 32) (G : Int) (K : Nat) (childOk : Bytes → List Bytes → Bool)
    (hchild : ∀ script rest L, ctx.arguments.reverse = script :: rest → ctx.sha3 script = h →
      G - stackCost List.length ctx.stateData - 3 * stackCost List.length ctx.arguments - 800 ≤ L → 0 ≤ L →
      ∃ k g f' er, k ≤ K ∧ FSteps ctx k ⟨script, 0, 0, L, 0, rest, [], 1, false⟩ g ∧ FFinal ctx g f' er ∧
        (er.isNone && !falseResult valueMem () f') = childOk script rest)
    (hg : stackCost List.length ctx.stateData + 3 * stackCost List.length ctx.arguments + 800 ≤ G)
    (fuel : Nat) (hfuel : K + 12 ≤ fuel) :
    ∃ r, verifyFuel valueMem ctx fuel () G = some r ∧ r.err = p2shSpec ctx.sha3 h childOk ctx.arguments := by
  have hlen := p2sh_len_ok h hh
  have hl40 := p2sh_len h hh
  have h1 := stackCost_nonneg ctx.stateData
  have h2 := stackCost_nonneg ctx.arguments
  have hrev := stackCost_reverse ctx.arguments
  unfold p2shSpec
  cases hst : ctx.arguments.reverse with
  | nil =>
    have ff := ffail ctx (p2shCode h) 0 0
      (G - stackCost List.length ctx.stateData - stackCost List.length ctx.arguments) 0 [] ctx.stateData.reverse 0
      (expansionReserved ctx) _ _ _ (ps0 h hh) (by decide) (by decide) .dataStackUnderflow _
      (by rw [e76]; exact dup_empty _ _ _ _ _ _ _ (by omega)) hlen (by omega)
    refine ⟨_, verify_of_frame ctx G hv (by omega) 0 _ _ _ (by rw [hcode, hst]; exact .refl _) ff fuel (by omega), rfl⟩
  | cons script rest =>
    simp only []
    rw [hst] at hrev
    simp only [stackCost] at hrev
    have hrn := stackCost_nonneg rest
    have hS := hs3 script
    have c1 := fstep ctx (p2shCode h) 0 0
      (G - stackCost List.length ctx.stateData - stackCost List.length ctx.arguments) 0 (script :: rest)
      ctx.stateData.reverse 0 (expansionReserved ctx) _ _ _ (ps0 h hh) (by decide) (by decide) _ _ _
      (by rw [e76]; exact dup_ok _ _ _ _ _ _ _ script rest (by omega)) (by omega) hlen (by omega)
    have c2 := c1.trans (fstep ctx _ _ _ _ _ _ _ _ _ _ _ _ (ps1 h hh) (by decide) (by decide) _ _ _
      (by rw [eaa]; exact hash_ok _ _ _ _ _ _ _ ctx.sha3 script (script :: rest) (by omega)) (by omega) hlen (by omega))
    have c3 := c2.trans (fstep ctx _ _ _ _ _ _ _ _ _ _ _ _ (ps2 h hh) (by rw [hh]; decide) (by rw [hh]; decide) _ _ _
      (by rw [epush ctx h h.length (by omega) (by omega)]; exact pushdata_ok _ _ _ _ _ _ _ h _ (by omega)) (by omega) hlen
      (by omega))
    have hev := equalverify_run (p2shCode h) (0 + 1 + 1 + (1 + h.length)) (0 + 1 + 1 + (1 + h.length) + 1)
      (G - stackCost List.length ctx.stateData - stackCost List.length ctx.arguments - (9 + script.length) - 0 + 8 +
        script.length - ((max 64 script.length : Nat) : Int) - (8 + (ctx.sha3 script).length) - 0 -
        (9 + h.length) - 0) ctx.stateData.reverse 0 (expansionReserved ctx) (ctx.sha3 script) h (script :: rest) (by omega)
    by_cases hhash : ctx.sha3 script = h
    · rw [if_pos hhash] at hev
      simp only [hhash, ne_eq, not_true_eq_false, if_false]
      have c4 := c3.trans (fstep ctx _ _ _ _ _ _ _ _ _ _ _ _ (by rw [hh]; exact ps35 h hh) (by decide) (by decide) _ _ _
        (by rw [e88]; exact hev) (by omega) hlen (by omega))
      have c5 := c4.trans (fstep ctx _ _ _ _ _ _ _ _ _ _ _ _ (by rw [hh]; exact ps36 h hh) (by decide) (by decide) _ _ _
        (by rw [e00]; exact false_ok _ _ _ _ _ _ _ _ (by omega)) (by omega) hlen (by omega))
      have c6 := c5.trans (fstep ctx _ _ _ _ _ _ _ _ _ _ _ _ (by rw [hh]; exact ps37 h hh) (by decide) (by decide) _ _ _
        (by rw [e7c]; exact swap_ok _ _ _ _ _ _ _ [] script rest (by omega)) (by omega) hlen (by omega))
      have c7 := c6.trans (fstep ctx _ _ _ _ _ _ _ _ _ _ _ _ (by rw [hh]; exact ps38 h hh) (by decide) (by decide) _ _ _
        (by rw [e00]; exact false_ok _ _ _ _ _ _ _ _ (by omega)) (by omega) hlen (by omega))
      rw [hh] at c7
      have hm1 := Nat.le_max_left 64 script.length
      have hm2 := Nat.le_max_right 64 script.length
      have hm3 : max 64 script.length ≤ 64 + script.length := by omega
      obtain ⟨R, D, c7', hRlo⟩ : ∃ R D, FSteps ctx (1 + 1 + 1 + 1 + 1 + 1 + 1)
          ⟨p2shCode h, 0, 0, G - stackCost List.length ctx.stateData - stackCost List.length ctx.arguments, 0,
            script :: rest, ctx.stateData.reverse, 0, expansionReserved ctx⟩
          ⟨p2shCode h, 39, 39, R, D, [] :: script :: [] :: rest, ctx.stateData.reverse, 0, expansionReserved ctx⟩ ∧
          G - stackCost List.length ctx.stateData - 3 * stackCost List.length ctx.arguments - 544 ≤ R :=
        ⟨_, _, c7, by omega⟩
      obtain ⟨k, g, f', er, hk, hc, hf, hok⟩ := hchild script rest (R - 256) hst hhash (by omega) (by omega)
      obtain ⟨fin, hrun, hver⟩ := cp_tail ctx _ _ (p2shCode h) 39 R D script rest _ _ c7' (ps39 h hh) (by rw [hl40])
        hlen (by omega) k g f' er hc hf fuel (by omega)
      refine ⟨_, verifyFuel_of_run ctx G hv (by omega) fuel fin none (by rw [hcode, hst]; exact hrun), ?_⟩
      simp only [hver, hok]
    · rw [if_neg hhash] at hev
      simp only [hhash, ne_eq, not_false_eq_true, if_true]
      have ff := c3.fail _ _ _ (by rw [hh]; exact ps35 h hh) (by decide) (by decide) .verifyFailed _
        (by rw [e88]; exact hev) hlen (by omega)
      exact ⟨_, verify_of_frame ctx G hv (by omega) _ _ _ _ (by rw [hcode, hst]; exact c3) ff fuel (by omega), rfl⟩

end
end BytomModel.Lemmas.SpendExec
