/-
Helper lemmas for the secret-connection model (`Model/SecretConn.lean`): framing, chunking,
the wire produced by `Write`, and one `Read` step against a wire that consists of sealed
frames (simulation by the abstract state "buffer + list of chunks still on the wire").
-/
import BytomModel.Model.SecretConn

namespace BytomModel.Lemmas.SecretConn
open BytomModel.SecretConn

/-- what the theorems assume about the AEAD (`secretbox`): opening a sealed box under the
    same key and nonce gives the plaintext back; a box is `overhead` bytes longer. -/
structure Good (a : Aead) : Prop where
  roundtrip : ∀ k n m, a.dec k n (a.enc k n m) = some m
  length : ∀ k n m, (a.enc k n m).length = m.length + overhead

/-! ### framing -/

theorem frameOf_length (c : Bytes) (h : c.length ≤ dataMaxSize) : (frameOf c).length = totalFrameSize := by
  simp only [frameOf, be16, List.length_append, List.length_cons, List.length_nil, List.length_replicate,
    totalFrameSize, dataLenSize, dataMaxSize] at *
  omega

theorem frameOf_eq (c : Bytes) :
    frameOf c = UInt8.ofNat (c.length / 256) :: UInt8.ofNat (c.length % 256) ::
      (c ++ List.replicate (dataMaxSize - c.length) 0) := by
  simp [frameOf, be16]

theorem be16_decode (n : Nat) (h : n ≤ dataMaxSize) :
    (UInt8.ofNat (n / 256)).toNat * 256 + (UInt8.ofNat (n % 256)).toNat = n := by
  simp only [dataMaxSize] at h
  simp [UInt8.toNat_ofNat']
  omega

theorem drop_take_length (l : Bytes) (n : Nat) : l.drop (l.take n).length = l.drop n := by
  simp [List.length_take]

/-! ### chunking -/

theorem chunksAux_flatten (fuel : Nat) (data : Bytes) (h : data.length ≤ fuel) :
    (chunksAux fuel data).flatten = data := by
  induction fuel generalizing data with
  | zero =>
    have : data = [] := List.length_eq_zero_iff.mp (by omega)
    simp [chunksAux, this]
  | succ f ih =>
    simp only [chunksAux]
    split
    · rename_i h0; simp [h0]
    · rename_i h0
      have hlen : 0 < data.length := by
        cases data with
        | nil => exact absurd rfl h0
        | cons _ _ => simp
      simp only [List.flatten_cons]
      rw [ih (data.drop dataMaxSize) (by simp [List.length_drop, dataMaxSize]; omega)]
      exact List.take_append_drop _ _

theorem chunksAux_sizes (fuel : Nat) (data : Bytes) :
    ∀ c ∈ chunksAux fuel data, 0 < c.length ∧ c.length ≤ dataMaxSize := by
  induction fuel generalizing data with
  | zero => intro c hc; simp [chunksAux] at hc
  | succ f ih =>
    intro c hc
    simp only [chunksAux] at hc
    split at hc
    · cases hc
    · rename_i h0
      rcases List.mem_cons.mp hc with rfl | hc
      · have hlen : 0 < data.length := by
          cases data with
          | nil => exact absurd rfl h0
          | cons _ _ => simp
        simp only [List.length_take, dataMaxSize]
        omega
      · exact ih _ c hc

theorem chunks_flatten (data : Bytes) : (chunks data).flatten = data :=
  chunksAux_flatten _ _ (Nat.le_refl _)

theorem chunks_sizes (data : Bytes) : ∀ c ∈ chunks data, 0 < c.length ∧ c.length ≤ dataMaxSize :=
  chunksAux_sizes _ _

/-! ### the wire -/

theorem encode_append (a : Aead) (key : Bytes) (xs ys : List Bytes) (n : Bytes) :
    encode a key n (xs ++ ys) = encode a key n xs ++ encode a key (advance n xs.length) ys := by
  induction xs generalizing n with
  | nil => simp [encode, advance]
  | cons x xs ih => simp [encode, advance, ih, List.append_assoc]

theorem advance_add (n : Bytes) (i j : Nat) : advance (advance n i) j = advance n (i + j) := by
  induction i generalizing n with
  | zero => simp [advance]
  | succ i ih => rw [Nat.succ_add]; simp only [advance]; exact ih _

/-- `Write` on an open connection: all of `data` is accepted, the wire gets the sealed frames
    of `chunks data` under consecutive nonces, the send nonce advances by one step per frame -/
theorem write_open (a : Aead) (key : Bytes) (s : Sender) (data : Bytes) (h : s.connOpen = true) :
    (write a key s data).2.n = data.length ∧ (write a key s data).2.err = .none ∧
    (write a key s data).2.wire = encode a key s.nonce (chunks data) ∧
    (write a key s data).1.nonce = advance s.nonce (chunks data).length ∧
    (write a key s data).1.connOpen = true := by
  unfold write
  split
  · rename_i hc
    have : data = [] := by rw [← chunks_flatten data, hc]; rfl
    have hn : data.length = 0 := by rw [this]; rfl
    simp [hc, hn, encode, advance, h]
  · simp [h]

/-- a sequence of writes -/
def writeMany (a : Aead) (key : Bytes) : Sender → List Bytes → Sender × Bytes
  | s, [] => (s, [])
  | s, d :: ds =>
    let x := write a key s d
    let y := writeMany a key x.1 ds
    (y.1, x.2.wire ++ y.2)

theorem writeMany_open (a : Aead) (key : Bytes) (datas : List Bytes) : ∀ (s : Sender), s.connOpen = true →
    (writeMany a key s datas).2 = encode a key s.nonce (datas.flatMap chunks) ∧
    (writeMany a key s datas).1.nonce = advance s.nonce (datas.flatMap chunks).length := by
  induction datas with
  | nil => intro s _; simp [writeMany, encode, advance]
  | cons d ds ih =>
    intro s h
    obtain ⟨_, _, hw, hn, ho⟩ := write_open a key s d h
    obtain ⟨i1, i2⟩ := ih (write a key s d).1 ho
    simp only [writeMany, List.flatMap_cons, List.length_append]
    rw [i1, i2, hw, hn, encode_append, advance_add]
    exact ⟨rfl, rfl⟩

theorem flatMap_chunks_flatten (datas : List Bytes) : (datas.flatMap chunks).flatten = datas.flatten := by
  induction datas with
  | nil => rfl
  | cons d ds ih => simp [List.flatMap_cons, List.flatten_append, chunks_flatten, ih]

theorem flatMap_chunks_sizes (datas : List Bytes) : ∀ c ∈ datas.flatMap chunks, c.length ≤ dataMaxSize := by
  intro c hc
  obtain ⟨d, _, hd⟩ := List.mem_flatMap.mp hc
  exact (chunks_sizes d c hd).2

/-! ### one `Read` against a wire of sealed frames -/

/-- the receiver state `r` holds `buf` and its connection still carries the frames of `cs` -/
structure Holds (a : Aead) (key : Bytes) (r : Receiver) (cs : List Bytes) : Prop where
  wire : r.wire = encode a key r.nonce cs
  sizes : ∀ c ∈ cs, c.length ≤ dataMaxSize

/-- the buffered branch: serves `recvBuffer`, reports what it copied, touches nothing else -/
theorem read_buffered (a : Aead) (key : Bytes) (r : Receiver) (len : Nat) (hb : r.buf ≠ []) :
    read a key r len =
      ({ r with buf := r.buf.drop len }, { n := (r.buf.take len).length, err := .none, written := r.buf.take len }) := by
  simp [SecretConn.read, hb, drop_take_length]

/-- empty buffer, nothing on the wire: nothing is delivered and nothing changes but `wire = []` -/
theorem readFrame_empty (a : Aead) (key : Bytes) (r : Receiver) (len : Nat) (hw : r.wire = []) :
    (readFrame a key r len).1 = r ∧ (readFrame a key r len).2.n = 0 ∧ (readFrame a key r len).2.written = [] := by
  unfold readFrame
  simp only [hw, List.length_nil, sealedFrameSize, totalFrameSize, dataMaxSize, dataLenSize, overhead]
  cases he : r.eof
  · simp
  · simp only [if_true]
    refine ⟨?_, rfl, rfl⟩
    cases r; simp_all

/-- empty buffer, a frame with chunk `c` first on the wire: the chunk is opened, the first
    `len` bytes are copied out and counted, the rest is buffered, the nonce advances -/
theorem readFrame_cons (a : Aead) (ha : Good a) (key : Bytes) (r : Receiver) (len : Nat) (c : Bytes) (cs : List Bytes)
    (hc : c.length ≤ dataMaxSize) (hw : r.wire = encode a key r.nonce (c :: cs)) :
    readFrame a key r len =
      ({ buf := c.drop len, nonce := incr2Nonce r.nonce, wire := encode a key (incr2Nonce r.nonce) cs, eof := r.eof },
       { n := (c.take len).length, err := .none, written := c.take len }) := by
  have hlen : (a.enc key r.nonce (frameOf c)).length = sealedFrameSize := by
    rw [ha.length, frameOf_length c hc]; rfl
  have htake : r.wire.take sealedFrameSize = a.enc key r.nonce (frameOf c) := by
    rw [hw]; simp only [encode]; exact List.take_left' hlen
  have hdrop : r.wire.drop sealedFrameSize = encode a key (incr2Nonce r.nonce) cs := by
    rw [hw]; simp only [encode]; exact List.drop_left' hlen
  have hge : ¬ r.wire.length < sealedFrameSize := by
    rw [hw]; simp only [encode, List.length_append, hlen]; omega
  unfold readFrame
  simp only [hge, if_false, htake, hdrop, ha.roundtrip, frameOf_eq]
  have hdec := be16_decode c.length hc
  have hnot : ¬ ((UInt8.ofNat (c.length / 256)).toNat * 256 + (UInt8.ofNat (c.length % 256)).toNat > dataMaxSize) := by
    rw [hdec]; omega
  have hrest : ¬ ((c ++ List.replicate (dataMaxSize - c.length) (0 : UInt8)).length <
      (UInt8.ofNat (c.length / 256)).toNat * 256 + (UInt8.ofNat (c.length % 256)).toNat) := by
    rw [hdec]; simp
  have h1 : ¬ c.length > dataMaxSize := by omega
  have h2 : ¬ (c ++ List.replicate (dataMaxSize - c.length) (0 : UInt8)).length < c.length := by simp
  simp only [hdec, h1, h2, if_false]
  have hchunk : (c ++ List.replicate (dataMaxSize - c.length) (0 : UInt8)).take c.length = c :=
    List.take_left' rfl
  simp only [hchunk, drop_take_length]

theorem readFrame_n (a : Aead) (key : Bytes) (r : Receiver) (len : Nat) :
    (readFrame a key r len).2.n = (readFrame a key r len).2.written.length := by
  unfold readFrame
  split
  · split <;> rfl
  · dsimp only
    split
    · rfl
    · split
      · split
        · rfl
        · split <;> rfl
      · rfl

/-- every `Read` reports exactly the number of bytes it copied into the caller's buffer -/
theorem read_n (a : Aead) (key : Bytes) (r : Receiver) (len : Nat) :
    (read a key r len).2.n = (read a key r len).2.written.length := by
  unfold SecretConn.read
  by_cases hb : r.buf = []
  · simp [hb, readFrame_n]
  · simp [hb]

/-- the abstract effect of one `Read` on "buffer + chunks still on the wire" -/
theorem read_step (a : Aead) (ha : Good a) (key : Bytes) (r : Receiver) (cs : List Bytes) (len : Nat)
    (h : Holds a key r cs) :
    ∃ cs', Holds a key (read a key r len).1 cs' ∧
      (read a key r len).2.written ++ ((read a key r len).1.buf ++ cs'.flatten) = r.buf ++ cs.flatten ∧
      (r.buf = [] → dataMaxSize ≤ len → (read a key r len).1.buf = []) ∧
      ((cs' = cs ∧ (read a key r len).1.nonce = r.nonce) ∨
        (∃ c, cs = c :: cs' ∧ (read a key r len).1.nonce = incr2Nonce r.nonce)) := by
  by_cases hb : r.buf = []
  · cases cs with
    | nil =>
      have hw : r.wire = [] := by rw [h.wire]; rfl
      obtain ⟨e1, e2, e3⟩ := readFrame_empty a key r len hw
      refine ⟨[], ?_, ?_, ?_, ?_⟩ <;> simp only [SecretConn.read, hb, ne_eq, not_true_eq_false, if_false]
      · rw [e1]; exact h
      · rw [e1, e3, hb]; simp
      · intro _ _; rw [e1]; exact hb
      · left; rw [e1]; simp
    | cons c cs =>
      have hc : c.length ≤ dataMaxSize := h.sizes c (by simp)
      have e := readFrame_cons a ha key r len c cs hc h.wire
      refine ⟨cs, ?_, ?_, ?_, ?_⟩ <;>
        simp only [SecretConn.read, hb, ne_eq, not_true_eq_false, if_false, e]
      · exact ⟨rfl, fun x hx => h.sizes x (List.mem_cons_of_mem _ hx)⟩
      · rw [← List.append_assoc, List.take_append_drop]; simp
      · intro _ hl
        exact List.drop_eq_nil_of_le (by omega)
      · right; simp
  · refine ⟨cs, ?_, ?_, ?_, ?_⟩
    · rw [read_buffered a key r len hb]; exact ⟨h.wire, h.sizes⟩
    · rw [read_buffered a key r len hb]; simp only []; rw [← List.append_assoc, List.take_append_drop]
    · intro h0; exact absurd h0 hb
    · left; rw [read_buffered a key r len hb]; exact ⟨rfl, rfl⟩

end BytomModel.Lemmas.SecretConn
