/-
Lemmas for the base32 (std encoding) round trip: the 5-byte ↔ 8-group bit shuffling as
arithmetic, the quantum reader on encoder output, and the quantum-by-quantum induction.
-/
import BytomModel.Model.Base32
import Mathlib.Tactic.Linarith

namespace BytomModel.Lemmas.Base32
open BytomModel.Base32

/-! ### `|` of disjoint bit ranges is `+` -/

theorem or_eq_add_k (k a b : Nat) (ha : a % 2 ^ k = 0) (hb : b < 2 ^ k) : a ||| b = a + b := by
  have e : a = (a / 2 ^ k) <<< k := by
    rw [Nat.shiftLeft_eq, Nat.div_mul_cancel (Nat.dvd_of_mod_eq_zero ha)]
  rw [e]
  exact (Nat.shiftLeft_add_eq_or_of_lt hb _).symm

theorem or_add_1 (a b : Nat) (ha : a % 2 = 0) (hb : b < 2) : a ||| b = a + b := or_eq_add_k 1 a b ha hb
theorem or_add_2 (a b : Nat) (ha : a % 4 = 0) (hb : b < 4) : a ||| b = a + b := or_eq_add_k 2 a b ha hb
theorem or_add_3 (a b : Nat) (ha : a % 8 = 0) (hb : b < 8) : a ||| b = a + b := or_eq_add_k 3 a b ha hb
theorem or_add_4 (a b : Nat) (ha : a % 16 = 0) (hb : b < 16) : a ||| b = a + b := or_eq_add_k 4 a b ha hb
theorem or_add_5 (a b : Nat) (ha : a % 32 = 0) (hb : b < 32) : a ||| b = a + b := or_eq_add_k 5 a b ha hb
theorem or_add_6 (a b : Nat) (ha : a % 64 = 0) (hb : b < 64) : a ||| b = a + b := or_eq_add_k 6 a b ha hb
theorem or_add_7 (a b : Nat) (ha : a % 128 = 0) (hb : b < 128) : a ||| b = a + b := or_eq_add_k 7 a b ha hb
theorem or_add_1' (a b : Nat) (ha : a < 2) (hb : b % 2 = 0) : a ||| b = a + b := by
  rw [Nat.or_comm, or_add_1 b a hb ha, Nat.add_comm]
theorem or_add_2' (a b : Nat) (ha : a < 4) (hb : b % 4 = 0) : a ||| b = a + b := by
  rw [Nat.or_comm, or_add_2 b a hb ha, Nat.add_comm]
theorem or_add_3' (a b : Nat) (ha : a < 8) (hb : b % 8 = 0) : a ||| b = a + b := by
  rw [Nat.or_comm, or_add_3 b a hb ha, Nat.add_comm]
theorem or_add_4' (a b : Nat) (ha : a < 16) (hb : b % 16 = 0) : a ||| b = a + b := by
  rw [Nat.or_comm, or_add_4 b a hb ha, Nat.add_comm]

theorem and31 (x : Nat) : x &&& 0x1F = x % 32 := by
  have : (0x1F : Nat) = 2 ^ 5 - 1 := by decide
  rw [this, Nat.and_two_pow_sub_one_eq_mod]

/-- rewrite the bit operations of `groups` / `pack` into arithmetic -/
macro "b32arith" : tactic => `(tactic| (
  simp only [groups, pack, List.take, List.getD_cons_zero, List.getD_cons_succ, List.getD_nil, if_true,
    and31, Nat.shiftLeft_eq, Nat.shiftRight_eq_div_pow, Nat.reducePow, Nat.reduceEqDiff, if_false,
    Nat.zero_div, Nat.zero_mul, Nat.zero_mod, Nat.zero_or, Nat.or_zero, Nat.zero_add, Nat.add_zero]
  try simp (disch := omega) only [or_add_1', or_add_2', or_add_3', or_add_4']
  try simp (disch := omega) only [or_add_1, or_add_2, or_add_3, or_add_4, or_add_5, or_add_6, or_add_7]))

variable (s0 s1 s2 s3 s4 : Nat)

/-- **a full quantum**: packing the eight groups of five bytes gives the five bytes back -/
theorem pack_groups_5 (h0 : s0 < 256) (h1 : s1 < 256) (h2 : s2 < 256) (h3 : s3 < 256) (h4 : s4 < 256) :
    pack (groups s0 s1 s2 s3 s4) 8 = [s0, s1, s2, s3, s4] := by
  b32arith
  simp only [List.cons.injEq, and_true]
  refine ⟨?_, ?_, ?_, ?_, ?_⟩ <;> omega

theorem pack_groups_4 (h0 : s0 < 256) (h1 : s1 < 256) (h2 : s2 < 256) (h3 : s3 < 256) :
    pack ((groups s0 s1 s2 s3 0).take 7) 7 = [s0, s1, s2, s3] := by
  b32arith
  simp only [List.cons.injEq, and_true]
  refine ⟨?_, ?_, ?_, ?_⟩ <;> omega

theorem pack_groups_3 (h0 : s0 < 256) (h1 : s1 < 256) (h2 : s2 < 256) :
    pack ((groups s0 s1 s2 0 0).take 5) 5 = [s0, s1, s2] := by
  b32arith
  simp only [List.cons.injEq, and_true]
  refine ⟨?_, ?_, ?_⟩ <;> omega

theorem pack_groups_2 (h0 : s0 < 256) (h1 : s1 < 256) :
    pack ((groups s0 s1 0 0 0).take 4) 4 = [s0, s1] := by
  b32arith
  simp only [List.cons.injEq, and_true]
  refine ⟨?_, ?_⟩ <;> omega

theorem pack_groups_1 (h0 : s0 < 256) : pack ((groups s0 0 0 0 0).take 2) 2 = [s0] := by
  b32arith
  simp only [List.cons.injEq, and_true]
  omega

theorem groups_lt (h0 : s0 < 256) (h1 : s1 < 256) (h2 : s2 < 256) (h3 : s3 < 256) (h4 : s4 < 256) :
    ∀ g ∈ groups s0 s1 s2 s3 s4, g < 32 := by
  intro g hg
  revert hg
  b32arith
  simp only [List.mem_cons, List.not_mem_nil, or_false]
  rintro (h | h | h | h | h | h | h | h) <;> omega

/-! ### the quantum reader on encoder output -/

/-- the alphabet character of a 5-bit group -/
def alph (v : Nat) : Nat := alphabet.getD v 0

theorem alph_table : ∀ v, v < 32 → alph v ≠ padChar ∧ decodeChar (alph v) = some v := by decide

/-- no character the encoder can emit is `\r` or `\n` -/
theorem alph_not_newline (v : Nat) : alph v ≠ 13 ∧ alph v ≠ 10 := by
  unfold alph
  rw [List.getD_eq_getElem?_getD]
  cases h : alphabet[v]? with
  | none => simp
  | some c =>
    have hm : c ∈ alphabet := List.mem_of_getElem? h
    have : ∀ c ∈ alphabet, c ≠ 13 ∧ c ≠ 10 := by decide
    simpa using this c hm

/-- reading alphabet characters: each one is decoded and appended -/
theorem readQuantum_prefix (olen : Nat) : ∀ (vals : List Nat) (j : Nat) (dbuf : List Nat) (fuel : Nat) (rest : Bytes),
    (∀ v ∈ vals, v < 32) → vals.length < fuel → j + vals.length ≤ 8 →
    readQuantum olen fuel j dbuf (vals.map alph ++ rest)
      = readQuantum olen (fuel - vals.length) (j + vals.length) (dbuf ++ vals) rest
  | [], j, dbuf, fuel, rest, _, _, _ => by simp
  | v :: vs, j, dbuf, fuel, rest, hv, hf, hj => by
    obtain ⟨f, rfl⟩ : ∃ f, fuel = f + 1 := ⟨fuel - 1, by simp only [List.length_cons] at hf; omega⟩
    simp only [List.length_cons] at hf hj
    have hv0 := alph_table v (hv v (by simp))
    have hj8 : ¬ j ≥ 8 := by omega
    simp only [List.map_cons, List.cons_append, readQuantum, hj8, if_false]
    rw [if_neg (fun h => hv0.1 h.1), hv0.2]
    simp only
    rw [readQuantum_prefix olen vs (j + 1) (dbuf ++ [v]) f rest (fun x hx => hv x (by simp [hx])) (by omega)
      (by omega)]
    simp only [List.length_cons, List.append_assoc, List.singleton_append]
    congr 1 <;> omega

/-- a complete quantum of eight alphabet characters -/
theorem readQuantum_full (olen : Nat) (vals : List Nat) (rest : Bytes) (hv : ∀ v ∈ vals, v < 32)
    (hl : vals.length = 8) :
    readQuantum olen 9 0 [] (vals.map alph ++ rest) = .ok vals 8 false rest := by
  rw [readQuantum_prefix olen vals 0 [] 9 rest hv (by omega) (by omega), hl]
  simp [readQuantum]

/-- a final quantum: `k` alphabet characters and `8 - k` padding characters at the end of input -/
theorem readQuantum_padded (olen : Nat) (vals : List Nat) (hv : ∀ v ∈ vals, v < 32)
    (hk : vals.length = 2 ∨ vals.length = 4 ∨ vals.length = 5 ∨ vals.length = 7) :
    readQuantum olen 9 0 [] (vals.map alph ++ List.replicate (8 - vals.length) padChar)
      = .ok vals vals.length true (List.replicate (7 - vals.length) padChar) := by
  rw [readQuantum_prefix olen vals 0 [] 9 _ hv (by omega) (by omega)]
  rcases hk with h | h | h | h <;> rw [h] <;> simp [readQuantum, padChar, List.replicate, List.range, List.range.loop]

/-! ### the encoder's quanta -/

theorem encodeQuantum_5 (a b c d e : Nat) (rest : Bytes) :
    encodeQuantum (a :: b :: c :: d :: e :: rest) = (groups a b c d e).map alph := by
  simp [encodeQuantum, alph]

theorem encodeQuantum_4 (a b c d : Nat) :
    encodeQuantum [a, b, c, d] = ((groups a b c d 0).take 7).map alph ++ List.replicate 1 padChar := by
  simp [encodeQuantum, alph, groups, List.take]

theorem encodeQuantum_3 (a b c : Nat) :
    encodeQuantum [a, b, c] = ((groups a b c 0 0).take 5).map alph ++ List.replicate 3 padChar := by
  simp [encodeQuantum, alph, groups, List.take, List.replicate]

theorem encodeQuantum_2 (a b : Nat) :
    encodeQuantum [a, b] = ((groups a b 0 0 0).take 4).map alph ++ List.replicate 4 padChar := by
  simp [encodeQuantum, alph, groups, List.take, List.replicate]

theorem encodeQuantum_1 (a : Nat) :
    encodeQuantum [a] = ((groups a 0 0 0 0).take 2).map alph ++ List.replicate 6 padChar := by
  simp [encodeQuantum, alph, groups, List.take, List.replicate]

theorem take_lt {l : List Nat} {n : Nat} (h : ∀ g ∈ l, g < 32) : ∀ g ∈ l.take n, g < 32 :=
  fun g hg => h g (List.mem_of_mem_take hg)

/-- decoding one final padded quantum -/
theorem decodeF_padded (olen fD : Nat) (acc : Bytes) (vals : List Nat) (hv : ∀ v ∈ vals, v < 32)
    (hk : vals.length = 2 ∨ vals.length = 4 ∨ vals.length = 5 ∨ vals.length = 7) :
    decodeF olen (fD + 1) acc (vals.map alph ++ List.replicate (8 - vals.length) padChar)
      = (acc ++ pack vals vals.length, none) := by
  have hne : vals.map alph ++ List.replicate (8 - vals.length) padChar ≠ [] := by
    rcases hk with h | h | h | h <;> (cases vals <;> simp at h ⊢)
  obtain ⟨c, cs, hc⟩ := List.exists_cons_of_ne_nil hne
  have := readQuantum_padded olen vals hv hk
  rw [hc] at this ⊢
  simp only [decodeF, this, if_true]

/-- **encode then decode, quantum by quantum** -/
theorem decodeF_encodeF (olen : Nat) : ∀ (fE : Nat) (src acc : Bytes) (fD : Nat), (∀ b ∈ src, b < 256) →
    src.length < fE → (encodeF fE src).length < fD →
    decodeF olen fD acc (encodeF fE src) = (acc ++ src, none) := by
  intro fE
  induction fE with
  | zero => intro src acc fD _ h; omega
  | succ f ih =>
    intro src acc fD hb hE hD
    match src, hb, hE, hD with
    | [], _, _, _ => cases fD <;> simp [encodeF, decodeF]
    | [a], hb, _, hD =>
      obtain ⟨g, rfl⟩ : ∃ g, fD = g + 1 := ⟨fD - 1, by omega⟩
      have ha : a < 256 := hb a (by simp)
      have hv := take_lt (n := 2) (groups_lt a 0 0 0 0 ha (by decide) (by decide) (by decide) (by decide))
      have := decodeF_padded olen g acc ((groups a 0 0 0 0).take 2) hv (by simp [groups])
      simp only [encodeF, encodeQuantum_1, List.length_cons, List.length_nil, Nat.zero_add, Nat.reduceLeDiff,
        if_true, List.append_nil]
      have hl : ((groups a 0 0 0 0).take 2).length = 2 := by simp [groups]
      rw [hl] at this
      rw [this, pack_groups_1 a ha]
    | [a, b], hb, _, hD =>
      obtain ⟨g, rfl⟩ : ∃ g, fD = g + 1 := ⟨fD - 1, by omega⟩
      have ha : a < 256 := hb a (by simp)
      have hb' : b < 256 := hb b (by simp)
      have hv := take_lt (n := 4) (groups_lt a b 0 0 0 ha hb' (by decide) (by decide) (by decide))
      have := decodeF_padded olen g acc ((groups a b 0 0 0).take 4) hv (by simp [groups])
      simp only [encodeF, encodeQuantum_2, List.length_cons, List.length_nil, Nat.zero_add, Nat.reduceLeDiff,
        if_true, List.append_nil]
      have hl : ((groups a b 0 0 0).take 4).length = 4 := by simp [groups]
      rw [hl] at this
      rw [this, pack_groups_2 a b ha hb']
    | [a, b, c], hb, _, hD =>
      obtain ⟨g, rfl⟩ : ∃ g, fD = g + 1 := ⟨fD - 1, by omega⟩
      have ha : a < 256 := hb a (by simp)
      have hb' : b < 256 := hb b (by simp)
      have hc : c < 256 := hb c (by simp)
      have hv := take_lt (n := 5) (groups_lt a b c 0 0 ha hb' hc (by decide) (by decide))
      have := decodeF_padded olen g acc ((groups a b c 0 0).take 5) hv (by simp [groups])
      simp only [encodeF, encodeQuantum_3, List.length_cons, List.length_nil, Nat.zero_add, Nat.reduceLeDiff,
        if_true, List.append_nil]
      have hl : ((groups a b c 0 0).take 5).length = 5 := by simp [groups]
      rw [hl] at this
      rw [this, pack_groups_3 a b c ha hb' hc]
    | [a, b, c, d], hb, _, hD =>
      obtain ⟨g, rfl⟩ : ∃ g, fD = g + 1 := ⟨fD - 1, by omega⟩
      have ha : a < 256 := hb a (by simp)
      have hb' : b < 256 := hb b (by simp)
      have hc : c < 256 := hb c (by simp)
      have hd : d < 256 := hb d (by simp)
      have hv := take_lt (n := 7) (groups_lt a b c d 0 ha hb' hc hd (by decide))
      have := decodeF_padded olen g acc ((groups a b c d 0).take 7) hv (by simp [groups])
      simp only [encodeF, encodeQuantum_4, List.length_cons, List.length_nil, Nat.zero_add, Nat.reduceLeDiff,
        if_true, List.append_nil]
      have hl : ((groups a b c d 0).take 7).length = 7 := by simp [groups]
      rw [hl] at this
      rw [this, pack_groups_4 a b c d ha hb' hc hd]
    | a :: b :: c :: d :: e :: rest, hb, hE, hD =>
      have ha : a < 256 := hb a (by simp)
      have hb' : b < 256 := hb b (by simp)
      have hc : c < 256 := hb c (by simp)
      have hd : d < 256 := hb d (by simp)
      have he : e < 256 := hb e (by simp)
      have hrest : ∀ x ∈ rest, x < 256 := fun x hx => hb x (by simp [hx])
      have hv := groups_lt a b c d e ha hb' hc hd he
      have hgl : (groups a b c d e).length = 8 := by simp [groups]
      have henc : encodeF (f + 1) (a :: b :: c :: d :: e :: rest)
          = (groups a b c d e).map alph ++ (if rest = [] then [] else encodeF f rest) := by
        simp only [encodeF, encodeQuantum_5, List.length_cons, List.drop_succ_cons, List.drop_zero]
        congr 1
        cases rest with
        | nil => simp
        | cons x r => simp
      rw [henc] at hD ⊢
      obtain ⟨g, rfl⟩ : ∃ g, fD = g + 1 := ⟨fD - 1, by omega⟩
      have hne : (groups a b c d e).map alph ++ (if rest = [] then [] else encodeF f rest) ≠ [] := by
        simp [groups]
      obtain ⟨c0, cs0, hc0⟩ := List.exists_cons_of_ne_nil hne
      have hrq := readQuantum_full olen (groups a b c d e) (if rest = [] then [] else encodeF f rest) hv hgl
      rw [hc0] at hrq
      have hstep : decodeF olen (g + 1) acc (c0 :: cs0)
          = decodeF olen g (acc ++ [a, b, c, d, e]) (if rest = [] then [] else encodeF f rest) := by
        simp only [decodeF, hrq, Bool.false_eq_true, if_false, pack_groups_5 a b c d e ha hb' hc hd he]
      rw [← hc0] at hstep
      rw [hstep]
      by_cases hr : rest = []
      · subst hr
        simp only [if_true]
        cases g <;> simp [decodeF]
      · simp only [hr, if_false]
        simp only [List.length_append, List.length_map, hgl, hr, if_false] at hD
        simp only [List.length_cons] at hE
        rw [ih rest (acc ++ [a, b, c, d, e]) g hrest (by omega) (by omega)]
        simp

/-- no `\r` / `\n` in encoder output, so `DecodeString`'s newline filter leaves it unchanged -/
theorem encodeQuantum_no_newline (src : Bytes) : ∀ c ∈ encodeQuantum src, c ≠ 13 ∧ c ≠ 10 := by
  intro c hc
  unfold encodeQuantum at hc
  simp only at hc
  have key : ∀ (l : List Nat) (n : Nat) (p : List Nat), (∀ x ∈ p, x = padChar) →
      ∀ c ∈ (l.map (fun b => alphabet.getD b 0)).take n ++ p, c ≠ 13 ∧ c ≠ 10 := by
    intro l n p hp c hc
    rcases List.mem_append.mp hc with h | h
    · obtain ⟨b, _, rfl⟩ := List.mem_map.mp (List.mem_of_mem_take h)
      exact alph_not_newline b
    · rw [hp c h]; decide
  split at hc
  · obtain ⟨b, _, rfl⟩ := List.mem_map.mp hc
    exact alph_not_newline b
  · split at hc
    · exact key _ 7 _ (by simp) c hc
    · split at hc
      · exact key _ 5 _ (by simp) c hc
      · split at hc
        · exact key _ 4 _ (by simp) c hc
        · exact key _ 2 _ (by simp) c hc

theorem encodeF_no_newline : ∀ (f : Nat) (src : Bytes), ∀ c ∈ encodeF f src, c ≠ 13 ∧ c ≠ 10
  | 0, _ => by intro c hc; simp [encodeF] at hc
  | f + 1, [] => by intro c hc; simp [encodeF] at hc
  | f + 1, x :: r => by
    intro c hc
    simp only [encodeF] at hc
    rcases List.mem_append.mp hc with h | h
    · exact encodeQuantum_no_newline _ c h
    · split at h
      · simp at h
      · exact encodeF_no_newline f _ c h

end BytomModel.Lemmas.Base32
