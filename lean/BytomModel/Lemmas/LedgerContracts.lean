/-
The registered-contract table: `ContractViewpoint.ApplyBlock` / `DetachBlock`,
`deleteContractView` + `saveContractView` (`Ledger.saveContracts`).
`firstReg txs h` = the first transaction of `txs` that registers contract hash `h`.
Core Lean only.
-/
import BytomModel.Lemmas.LedgerAlist
namespace BytomModel.Lemmas.Ledger
open BytomModel.Ledger

def registers (h : Nat) (t : Tx) : Bool := decide (h ∈ contractsOf t)

/-- id of the first transaction of the list that registers `h` -/
def firstReg (txs : List Tx) (h : Nat) : Option Nat := (txs.find? (registers h)).map (·.id)

theorem firstReg_append (A B : List Tx) (h : Nat) : firstReg (A ++ B) h = (firstReg A h).or (firstReg B h) := by
  unfold firstReg
  rw [List.find?_append]
  cases List.find? (registers h) A <;> rfl

theorem firstReg_nil (h : Nat) : firstReg [] h = none := rfl

theorem cget_cset (m : CMap) (k v j : Nat) : cget (cset m k v) j = if j = k then some v else cget m j := by
  rw [cget_eq, cset_eq, aget_aset]; rfl

theorem cget_cdel (m : CMap) (k j : Nat) : cget (cdel m k) j = if j = k then none else cget m j := by
  rw [cget_eq, cdel_eq, aget_adel]; rfl

/-! ### attach: first registration wins -/

def attachStep (id : Nat) (a : CMap) (h : Nat) : CMap :=
  match cget a h with
  | some _ => a
  | none => cset a h id

theorem attachStep_nodup {a : CMap} (hn : NodupKeys a) (id h : Nat) : NodupKeys (attachStep id a h) := by
  unfold attachStep
  split
  · exact hn
  · rw [cset_eq]; exact nodupKeys_aset hn _ _

theorem attachInner_get (id : Nat) (hs : List Nat) (a : CMap) (k : Nat) :
    cget (hs.foldl (attachStep id) a) k =
      match cget a k with
      | some x => some x
      | none => if k ∈ hs then some id else none := by
  induction hs generalizing a with
  | nil => simp; cases cget a k <;> rfl
  | cons h hs ih =>
    rw [List.foldl_cons, ih]
    unfold attachStep
    cases hah : cget a h with
    | some x =>
      simp only
      cases hak : cget a k with
      | some y => rfl
      | none =>
        have : k ≠ h := by intro e; rw [e, hah] at hak; cases hak
        simp [this]
    | none =>
      simp only
      rw [cget_cset]
      by_cases hk : k = h
      · subst hk; simp [hah]
      · simp only [hk, if_false]
        cases hak : cget a k with
        | some y => rfl
        | none => simp [hk]

theorem attachInner_nodup (id : Nat) (hs : List Nat) {a : CMap} (hn : NodupKeys a) :
    NodupKeys (hs.foldl (attachStep id) a) := by
  induction hs generalizing a with
  | nil => exact hn
  | cons h hs ih => exact ih (attachStep_nodup hn id h)

theorem contractAttach_eq (txs : List Tx) (att : CMap) :
    contractAttach txs att = txs.foldl (fun a t => (contractsOf t).foldl (attachStep t.id) a) att := rfl

theorem contractAttach_get (txs : List Tx) (att : CMap) (k : Nat) :
    cget (contractAttach txs att) k =
      match cget att k with
      | some x => some x
      | none => firstReg txs k := by
  rw [contractAttach_eq]
  induction txs generalizing att with
  | nil => simp [firstReg]; cases cget att k <;> rfl
  | cons t ts ih =>
    rw [List.foldl_cons, ih, attachInner_get]
    cases hak : cget att k with
    | some x => rfl
    | none =>
      simp only
      unfold firstReg
      rw [List.find?_cons]
      by_cases hr : k ∈ contractsOf t
      · simp [hr, registers]
      · simp [hr, registers]

theorem contractAttach_nodup (txs : List Tx) {att : CMap} (hn : NodupKeys att) : NodupKeys (contractAttach txs att) := by
  rw [contractAttach_eq]
  induction txs generalizing att with
  | nil => exact hn
  | cons t ts ih => exact ih (attachInner_nodup t.id _ hn)

theorem contractAttach_append (A B : List Tx) (att : CMap) :
    contractAttach (A ++ B) att = contractAttach B (contractAttach A att) := by
  rw [contractAttach_eq, contractAttach_eq, contractAttach_eq, List.foldl_append]

/-! ### detach: later writes overwrite, transactions in reverse order -/

def detachStepC (d : CMap) (t : Tx) : CMap := (contractsOf t).foldl (fun d1 h => cset d1 h t.id) d

theorem detachInner_get (id : Nat) (hs : List Nat) (d : CMap) (k : Nat) :
    cget (hs.foldl (fun d1 h => cset d1 h id) d) k = if k ∈ hs then some id else cget d k := by
  induction hs generalizing d with
  | nil => simp
  | cons h hs ih =>
    rw [List.foldl_cons, ih, cget_cset]
    by_cases hk : k = h
    · subst hk; simp
    · by_cases hc : k ∈ hs
      · simp [hc]
      · simp [hc, hk]

theorem detachInner_nodup (id : Nat) (hs : List Nat) {d : CMap} (hn : NodupKeys d) :
    NodupKeys (hs.foldl (fun d1 h => cset d1 h id) d) := by
  induction hs generalizing d with
  | nil => exact hn
  | cons h hs ih => exact ih (nodupKeys_aset hn _ _)

theorem detachFold_get (ts : List Tx) (d : CMap) (k : Nat) :
    cget (ts.foldl detachStepC d) k =
      match firstReg ts.reverse k with
      | some x => some x
      | none => cget d k := by
  induction ts generalizing d with
  | nil => rfl
  | cons t ts ih =>
    rw [List.foldl_cons, ih, List.reverse_cons, firstReg_append]
    cases firstReg ts.reverse k with
    | some x => rfl
    | none =>
      simp only [Option.none_or]
      unfold detachStepC
      rw [detachInner_get]
      unfold firstReg
      rw [List.find?_cons]
      by_cases hr : k ∈ contractsOf t
      · simp [hr, registers]
      · simp [hr, registers]

theorem detachFold_nodup (ts : List Tx) {d : CMap} (hn : NodupKeys d) : NodupKeys (ts.foldl detachStepC d) := by
  induction ts generalizing d with
  | nil => exact hn
  | cons t ts ih => exact ih (detachInner_nodup t.id _ hn)

theorem contractDetach_eq (txs : List Tx) (det : CMap) : contractDetach txs det = txs.reverse.foldl detachStepC det := rfl

/-! ### `saveContracts` -/

/-- `saveContractView` writes an attach entry for `h`: no record, or the record is the one
    being deleted in the same batch -/
def writesB (db det : CMap) (h : Nat) : Bool :=
  match cget db h with
  | none => true
  | some x => cget det h == some x

/-- `deleteContractView` deletes the record of `h`: it is the one the detached branch wrote -/
def deletesB (db det : CMap) (h : Nat) : Bool :=
  match cget db h with
  | none => false
  | some x => cget det h == some x

theorem cget_cons (q : Nat × Nat) (m : CMap) (k : Nat) :
    cget (q :: m) k = if q.1 = k then some q.2 else cget m k := by
  rw [cget_eq, aget_cons]; rfl

theorem afterDel_get (db : CMap) (det : CMap) (hn : NodupKeys det) (d : CMap) (k : Nat) :
    cget (det.foldl (fun d (p : Nat × Nat) => if cget db p.1 == some p.2 then cdel d p.1 else d) d) k =
      if deletesB db det k then none else cget d k := by
  induction det generalizing d with
  | nil =>
    have : deletesB db [] k = false := by
      unfold deletesB; cases cget db k <;> rfl
    simp [this]
  | cons q det ih =>
    have hn' : q.1 ∉ keys det ∧ NodupKeys det := by simpa [NodupKeys, keys] using hn
    rw [List.foldl_cons, ih hn'.2]
    unfold deletesB
    rw [cget_cons]
    by_cases hk : q.1 = k
    · subst hk
      have hnone : cget det q.1 = none := by rw [cget_eq]; exact (aget_none_iff det q.1).mpr hn'.1
      rw [hnone]
      cases hdb : cget db q.1 with
      | none => simp
      | some x =>
        by_cases hx : x = q.2
        · subst hx; simp [cget_cdel]
        · have : ¬ q.2 = x := fun e => hx e.symm
          simp [hx, this]
    · have hk' : ¬ k = q.1 := fun e => hk e.symm
      simp only [hk, if_false]
      have : cget (if (cget db q.1 == some q.2) = true then cdel d q.1 else d) k = cget d k := by
        split
        · rw [cget_cdel]; simp [hk']
        · rfl
      rw [this]

/-- one step of the `saveContractView` loop -/
def saveStep (db det : CMap) (d : CMap) (p : Nat × Nat) : CMap :=
  let data := cget db p.1
  let d1 := if data.isNone then cset d p.1 p.2 else d
  match cget det p.1 with
  | some dv => if data == some dv then cset d1 p.1 p.2 else d1
  | none => d1

theorem saveStep_eq (db det d : CMap) (p : Nat × Nat) :
    saveStep db det d p = if writesB db det p.1 then cset d p.1 p.2 else d := by
  unfold saveStep writesB
  dsimp only
  cases cget db p.1 with
  | none =>
    cases cget det p.1 with
    | none => simp
    | some dv => simp
  | some x =>
    cases cget det p.1 with
    | none => simp
    | some dv =>
      by_cases hx : x = dv
      · subst hx; simp
      · have : ¬ dv = x := fun e => hx e.symm
        simp [hx, this]

theorem saveFold_get (db det : CMap) (att : CMap) (hn : NodupKeys att) (d : CMap) (k : Nat) :
    cget (att.foldl (saveStep db det) d) k =
      if writesB db det k then (match cget att k with | some tx => some tx | none => cget d k) else cget d k := by
  induction att generalizing d with
  | nil => simp [cget_eq]
  | cons q att ih =>
    have hn' : q.1 ∉ keys att ∧ NodupKeys att := by simpa [NodupKeys, keys] using hn
    rw [List.foldl_cons, ih hn'.2, saveStep_eq, cget_cons]
    by_cases hk : q.1 = k
    · subst hk
      have : cget att q.1 = none := by rw [cget_eq]; exact (aget_none_iff att q.1).mpr hn'.1
      rw [this]
      cases hw : writesB db det q.1
      · simp
      · simp [cget_cset]
    · have hk' : ¬ k = q.1 := fun e => hk e.symm
      simp only [hk, if_false]
      cases hw : writesB db det q.1
      · simp
      · simp only [if_true, cget_cset, hk', if_false]

theorem saveContracts_eq (db att det : CMap) :
    saveContracts db att det =
      att.foldl (saveStep db det)
        (det.foldl (fun d (p : Nat × Nat) => if cget db p.1 == some p.2 then cdel d p.1 else d) db) := rfl

/-- what `SaveChainStatus` leaves in the contract table -/
theorem saveContracts_get (db att det : CMap) (ha : NodupKeys att) (hd : NodupKeys det) (k : Nat) :
    cget (saveContracts db att det) k =
      if writesB db det k then
        (match cget att k with
         | some tx => some tx
         | none => if deletesB db det k then none else cget db k)
      else (if deletesB db det k then none else cget db k) := by
  rw [saveContracts_eq, saveFold_get db det att ha, afterDel_get db det hd]

/-- the case analysis behind `reorg_contracts_eq_replay`: the table holds the first
    registration of `P ++ A`, the views hold the first registrations of `A` (detach) and `B`
    (attach); provided a transaction of `A` never carries the id of the registering
    transaction of `P`, the new table holds the first registration of `P ++ B` -/
theorem saveContracts_reorg {db att det : CMap} (ha : NodupKeys att) (hd : NodupKeys det)
    {fP fA fB : Option Nat} {k : Nat}
    (hdb : cget db k = fP.or fA) (hdet : cget det k = fA) (hatt : cget att k = fB)
    (hne : ∀ x y, fP = some x → fA = some y → x ≠ y) :
    cget (saveContracts db att det) k = fP.or fB := by
  rw [saveContracts_get db att det ha hd]
  unfold writesB deletesB
  rw [hdb, hdet, hatt]
  cases fP with
  | some x =>
    cases fA with
    | none => simp
    | some y =>
      have h1 : ¬ x = y := hne x y rfl rfl
      have h2 : ¬ y = x := fun e => h1 e.symm
      simp [h1, h2]
  | none =>
    cases fA with
    | none => cases fB <;> simp
    | some y => cases fB <;> simp

end BytomModel.Lemmas.Ledger
