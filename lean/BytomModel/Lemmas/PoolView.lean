/-
C38 helper layer 1: utxo views as functions.  `vget` is the abstraction function from the
association-list views of `Model/Ledger` to `Nat → Option Entry`; `applySpend`, `applySpendGo`
(the Go loop that leaves its marks behind on an error), `applyOutput`, `loadSpent` and
`applyBlockTxs` are characterised on that level, where extensional equality is equality.
-/
import BytomModel.Model.NodePool

namespace BytomModel.Lemmas.PoolView
open BytomModel.Ledger BytomModel.NodePool

abbrev FV := Nat → Option Entry

def fset (f : FV) (k : Nat) (e : Entry) : FV := fun k' => if k' = k then some e else f k'

/-! ### `vget` of `vset` -/

theorem find_map_repl (v : View) (k k' : Nat) (e : Entry) (hne : k' ≠ k) :
    ((v.map (fun p => if p.1 == k then (k, e) else p)).find? (fun p => p.1 == k')).map (·.2)
      = (v.find? (fun p => p.1 == k')).map (·.2) := by
  induction v with
  | nil => rfl
  | cons p v ih =>
    simp only [List.map_cons]
    by_cases h1 : p.1 = k
    · have hk' : ¬ p.1 = k' := fun e2 => hne (e2.symm.trans h1)
      simp only [h1, beq_self_eq_true, if_true, List.find?_cons]
      have hb : (k == k') = false := by simpa using fun e2 => hne e2.symm
      have hb2 : (p.1 == k') = false := by simpa using hk'
      simp only [hb]
      simpa [h1] using ih
    · have hb : (p.1 == k) = false := by simpa using h1
      simp only [hb, Bool.false_eq_true, if_false, List.find?_cons]
      cases hq : (p.1 == k')
      · simpa [hb] using ih
      · rfl

theorem find_map_hit (v : View) (k : Nat) (e : Entry) (hany : v.any (fun p => p.1 == k) = true) :
    (v.map (fun p => if p.1 == k then (k, e) else p)).find? (fun p => p.1 == k) = some (k, e) := by
  induction v with
  | nil => simp at hany
  | cons p v ih =>
    simp only [List.map_cons, List.find?_cons]
    by_cases h1 : p.1 = k
    · simp [h1]
    · have hb : (p.1 == k) = false := by simpa using h1
      simp only [hb, Bool.false_eq_true, if_false]
      apply ih
      simpa [List.any_cons, hb] using hany

theorem vget_vset (v : View) (k : Nat) (e : Entry) (k' : Nat) :
    vget (vset v k e) k' = if k' = k then some e else vget v k' := by
  unfold vget vset
  by_cases hany : v.any (fun p => p.1 == k) = true
  · simp only [hany, if_true]
    by_cases hk : k' = k
    · subst hk
      rw [find_map_hit v k' e hany]
      simp
    · simp only [hk, if_false]
      exact find_map_repl v k k' e hk
  · simp only [hany, Bool.false_eq_true, if_false]
    have hnone : v.find? (fun p => p.1 == k) = none := by
      rw [List.find?_eq_none]
      intro x hx hxk
      apply hany
      rw [List.any_eq_true]
      exact ⟨x, hx, hxk⟩
    rw [List.find?_append]
    by_cases hk : k' = k
    · subst hk
      simp [hnone]
    · simp only [hk, if_false]
      have hb : (k == k') = false := by simpa using fun e2 => hk e2.symm
      cases hf : v.find? (fun p => p.1 == k') with
      | some x => simp
      | none => simp [hb]

theorem vget_vset_fun (v : View) (k : Nat) (e : Entry) : vget (vset v k e) = fset (vget v) k e := by
  funext k'
  exact vget_vset v k e k'

theorem vget_nil : vget ([] : View) = fun _ => none := by
  funext k; rfl

/-! ### spending -/

/-- the three tests of `applySpendUtxo` on one entry -/
def spendOk (p : Params) (h : Nat) (e : Entry) : Bool :=
  !e.spent && !(e.typ == 1 && e.height + p.coinbasePending > h) && !(e.typ == 2 && e.height + p.votePending > h)

/-- `applySpendUtxo` on functions: (view with the marks made so far, success) -/
def spendF (p : Params) (h : Nat) : List Nat → FV → FV × Bool
  | [], f => (f, true)
  | o :: os, f =>
    match f o with
    | none => (f, false)
    | some e => if spendOk p h e then spendF p h os (fset f o { e with spent := true }) else (f, false)

theorem applySpendGo_F (p : Params) (h : Nat) : ∀ (ins : List Nat) (v : View),
    (vget (applySpendGo p h ins v).1, (applySpendGo p h ins v).2) = spendF p h ins (vget v)
  | [], v => rfl
  | o :: os, v => by
    unfold applySpendGo spendF
    cases hg : vget v o with
    | none => rfl
    | some e =>
      simp only
      unfold spendOk
      cases hs : e.spent
      · by_cases h1 : (e.typ == 1 && decide (e.height + p.coinbasePending > h)) = true
        · simp [h1]
        · by_cases h2 : (e.typ == 2 && decide (e.height + p.votePending > h)) = true
          · simp [h1, h2]
          · simp only [Bool.false_eq_true, if_false, h1, h2, Bool.not_false, Bool.and_self, if_true]
            rw [applySpendGo_F p h os, vget_vset_fun]
      · simp

theorem applySpend_eq_Go (p : Params) (h : Nat) : ∀ (ins : List Nat) (v : View),
    applySpend p h ins v = if (applySpendGo p h ins v).2 then some (applySpendGo p h ins v).1 else none
  | [], v => rfl
  | o :: os, v => by
    unfold applySpend applySpendGo
    cases vget v o with
    | none => rfl
    | some e =>
      simp only
      split
      · rfl
      · split
        · rfl
        · split
          · rfl
          · exact applySpend_eq_Go p h os _

/-! ### outputs -/

def outF (h : Nat) (cb : Bool) : List TxOut → FV → FV
  | [], f => f
  | o :: os, f =>
    match utxoType o.kind with
    | none => outF h cb os f
    | some t =>
      if o.amount == 0 then outF h cb os f
      else outF h cb os (fset f o.id { typ := if cb then 1 else t, height := h, spent := false })

theorem applyOutput_F (h : Nat) (cb : Bool) : ∀ (outs : List TxOut) (v : View),
    vget (applyOutput h cb outs v) = outF h cb outs (vget v)
  | [], v => rfl
  | o :: os, v => by
    unfold applyOutput outF
    cases utxoType o.kind with
    | none => exact applyOutput_F h cb os v
    | some t =>
      simp only
      split
      · exact applyOutput_F h cb os v
      · rw [applyOutput_F h cb os, vget_vset_fun]

/-- outputs outside the created ids are untouched -/
theorem outF_other (h : Nat) (cb : Bool) : ∀ (outs : List TxOut) (f : FV) (k : Nat),
    k ∉ outs.map (·.id) → outF h cb outs f k = f k
  | [], f, k, _ => rfl
  | o :: os, f, k, hk => by
    have hk1 : k ≠ o.id := fun e => hk (by simp [e])
    have hk2 : k ∉ os.map (·.id) := fun e => hk (by simp [e])
    unfold outF
    cases utxoType o.kind with
    | none => exact outF_other h cb os f k hk2
    | some t =>
      simp only
      split
      · exact outF_other h cb os f k hk2
      · rw [outF_other h cb os _ k hk2]
        simp [fset, hk1]

/-! ### loading -/

/-- `getTransactionsUtxo` on functions: inputs the view does not hold are read from the store -/
def loadF (db : FV) (ins : List Nat) (f : FV) : FV :=
  fun k => if k ∈ ins then (match f k with | some e => some e | none => db k) else f k

def loadStep (db : View) (v1 : View) (o : Nat) : View :=
  match vget v1 o with
  | some _ => v1
  | none => match vget db o with
    | some e => vset v1 o e
    | none => v1

theorem loadStep_F (db v : View) (o : Nat) : vget (loadStep db v o) = loadF (vget db) [o] (vget v) := by
  funext k
  unfold loadStep loadF
  by_cases hk : k = o
  · subst hk
    simp only [List.mem_singleton, if_true]
    cases hv : vget v k with
    | some e => simp [hv]
    | none =>
      simp only
      cases hd : vget db k with
      | some e => simp [vget_vset]
      | none => simp [hv]
  · simp only [List.mem_singleton, hk, if_false]
    cases hv : vget v o with
    | some e => rfl
    | none =>
      simp only
      cases hd : vget db o with
      | some e => simp [vget_vset, hk]
      | none => rfl

theorem loadF_append (db : FV) (a b : List Nat) (f : FV) : loadF db b (loadF db a f) = loadF db (a ++ b) f := by
  funext k
  unfold loadF
  by_cases ha : k ∈ a <;> by_cases hb : k ∈ b <;> simp [ha, hb]
  · cases f k with
    | some e => rfl
    | none => simp only; cases db k <;> rfl

theorem loadIns_F (db : View) : ∀ (ins : List Nat) (v : View),
    vget (ins.foldl (loadStep db) v) = loadF (vget db) ins (vget v)
  | [], v => by funext k; simp [loadF]
  | o :: os, v => by
    simp only [List.foldl_cons]
    rw [loadIns_F db os, loadStep_F, loadF_append]
    rfl

theorem loadSpent_F (db : View) : ∀ (txs : List Tx) (v : View),
    vget (loadSpent db txs v) = loadF (vget db) (txs.flatMap (·.ins)) (vget v)
  | [], v => by funext k; simp [loadSpent, loadF]
  | t :: ts, v => by
    have h1 : loadSpent db (t :: ts) v = loadSpent db ts (t.ins.foldl (loadStep db) v) := by
      unfold loadSpent
      simp only [List.foldl_cons]
      rfl
    rw [h1, loadSpent_F db ts, loadIns_F, loadF_append]
    rfl

/-! ### a whole block -/

/-- `UtxoViewpoint.ApplyBlock` succeeds -/
def attachF (p : Params) (h : Nat) : Bool → List Tx → FV → Bool
  | _, [], _ => true
  | first, t :: ts, f =>
    (spendF p h t.ins f).2 && attachF p h false ts (outF h first t.outs (spendF p h t.ins f).1)

theorem applyBlockTxs_F (p : Params) (h : Nat) : ∀ (first : Bool) (txs : List Tx) (v : View),
    (applyBlockTxs p h first txs v).isSome = attachF p h first txs (vget v)
  | _, [], _ => rfl
  | first, t :: ts, v => by
    unfold applyBlockTxs attachF
    rw [applySpend_eq_Go]
    have hF := applySpendGo_F p h t.ins v
    have h1 : vget (applySpendGo p h t.ins v).1 = (spendF p h t.ins (vget v)).1 := congrArg Prod.fst hF
    have h2 : (applySpendGo p h t.ins v).2 = (spendF p h t.ins (vget v)).2 := congrArg Prod.snd hF
    cases hok : (applySpendGo p h t.ins v).2
    · rw [← h2, hok]; rfl
    · simp only [if_true]
      rw [applyBlockTxs_F p h false ts, applyOutput_F, h1, ← h2, hok]
      rfl

end BytomModel.Lemmas.PoolView
