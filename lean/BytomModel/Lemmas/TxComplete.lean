/-
Completeness lemmas for the balance stage of M-TxVal: when amounts are in range and the true
totals balance, the three loops of `case *bc.Mux` succeed (no false rejection).
-/
import BytomModel.Lemmas.TxValidate

namespace BytomModel.Lemmas.TxComplete
open BytomModel.Fixed BytomModel.Gen.Checked BytomModel.Model.TxValidate BytomModel.Lemmas.TxValidate
open BytomModel.Props.C31 (Exact mulInt64_exact)

def NonNeg (m : PMap) : Prop := ∀ a v, pget m a = some v → 0 ≤ v

theorem nonNeg_nil : NonNeg [] := by intro a v h; simp [pget] at h

theorem nonNeg_pset {m : PMap} {a : Nat} {v : Int} (h : NonNeg m) (hv : 0 ≤ v) : NonNeg (pset m a v) := by
  intro b w hb
  by_cases e : a = b
  · subst e; rw [pget_pset_same] at hb; cases hb; exact hv
  · rw [pget_pset_other m v e] at hb; exact h b w hb

theorem getD_nonneg {m : PMap} (h : NonNeg m) (a : Nat) : 0 ≤ (pget m a).getD 0 := by
  cases e : pget m a with
  | none => simp
  | some v => exact h a v e

theorem addSources_complete : ∀ (l : List (Nat × Nat)) (m : PMap), InRange m → NonNeg m →
    (∀ a, (pget m a).getD 0 + ((sumOf a l : Nat) : Int) ≤ 9223372036854775807) → ∃ m', addSources m l = .ok m'
  | [], m, _, _, _ => ⟨m, rfl⟩
  | (a, amt) :: t, m, hr, hn, hs => by
    have h0 := getD_nonneg hn a
    have ha := hs a
    simp only [sumOf, if_true] at ha
    have hamt : ¬ amt > maxInt64 := by unfold maxInt64; omega
    have hfit : inI 64 ((pget m a).getD 0 + (amt : Int)) := by rw [inI64_iff]; omega
    have hadd := addInt64_fits (inRange_getD hr a) (inI64_amount hamt) hfit
    simp only [addSources, hamt, if_false, hadd]
    apply addSources_complete t _ (inRange_pset hr hfit) (nonNeg_pset hn (by omega))
    intro b
    by_cases e : a = b
    · subst e; rw [pget_pset_same]; simp only [Option.getD_some]; omega
    · rw [pget_pset_other m _ e]
      have := hs b
      simp only [sumOf, e, if_false, Nat.zero_add] at this
      exact this

theorem subDests_complete : ∀ (l : List (Nat × Nat)) (m : PMap), InRange m →
    (∀ p ∈ l, p.2 ≤ maxInt64 ∧ p.1 ∈ keys m) →
    (∀ a, ((sumOf a l : Nat) : Int) ≤ (pget m a).getD 0) → ∃ m', subDests m l = .ok m'
  | [], m, _, _, _ => ⟨m, rfl⟩
  | (a, amt) :: t, m, hr, hk, hs => by
    obtain ⟨hamt, hkey⟩ := hk (a, amt) (by simp)
    have hne : pget m a ≠ none := fun c => (pget_none_iff m a).mp c hkey
    cases e : pget m a with
    | none => exact absurd e hne
    | some sum =>
      have hsr := hr a sum e
      have ha := hs a
      simp only [sumOf, if_true, e, Option.getD_some] at ha
      have hamt' : ¬ amt > maxInt64 := by omega
      rw [inI64_iff] at hsr
      have hfit : inI 64 (sum - (amt : Int)) := by rw [inI64_iff]; omega
      have hsub := subInt64_fits ((inI64_iff sum).mpr hsr) (inI64_amount hamt') hfit
      simp only [subDests, e, hamt', if_false, hsub]
      apply subDests_complete t _ (inRange_pset hr hfit)
      · intro p hp
        refine ⟨(hk p (List.mem_cons_of_mem _ hp)).1, ?_⟩
        rw [keys_pset]; simp only [hkey, if_true]
        exact (hk p (List.mem_cons_of_mem _ hp)).2
      · intro b
        by_cases eb : a = b
        · subst eb; rw [pget_pset_same]; simp only [Option.getD_some]; omega
        · rw [pget_pset_other m _ eb]
          have := hs b
          simp only [sumOf, eb, if_false, Nat.zero_add] at this
          exact this

theorem setGas_complete (g : Gas) {v sz : Int} (h0 : 0 ≤ v) (hsz : inI 64 sz) : ∃ g', setGas g v sz = .ok g' := by
  have hd : (DivInt64 v vmGasRate).2 = true := by
    unfold DivInt64 vmGasRate
    have w : wrapI 64 (-1) = -1 := by decide
    rw [w]
    have : ¬ ((200 : Int) = 0 ∨ (v = -9223372036854775808 ∧ (200 : Int) = -1)) := by omega
    simp only [this, if_false]
  have hm : (MulInt64 sz storageGasRate).2 = true := by
    have e := mulInt64_exact sz 1 hsz (by rw [inI64_iff]; omega)
    unfold Exact at e
    have hf : inI 64 (sz * 1) := by rw [Int.mul_one]; exact hsz
    unfold storageGasRate
    rw [e.1 hf]
  unfold setGas
  have hneg : ¬ v < 0 := by omega
  simp only [hneg, if_false, hd, hm, Bool.true_eq_false]
  exact ⟨_, rfl⟩

theorem parityLoop_complete {sz : Int} (hsz : inI 64 sz) : ∀ (m : PMap) (g : Gas),
    (∀ p ∈ m, (p.1 = btm → 0 ≤ p.2) ∧ (p.1 ≠ btm → p.2 = 0)) → ∃ g', parityLoop sz g m = .ok g'
  | [], g, _ => ⟨g, rfl⟩
  | (a, v) :: t, g, h => by
    have hh := h (a, v) (by simp)
    have ht : ∀ p ∈ t, (p.1 = btm → 0 ≤ p.2) ∧ (p.1 ≠ btm → p.2 = 0) := fun p hp => h p (List.mem_cons_of_mem _ hp)
    simp only [parityLoop]
    by_cases e : a = btm
    · obtain ⟨g1, hg1⟩ := setGas_complete g (hh.1 e) hsz
      simp only [e, if_true, hg1]
      exact parityLoop_complete hsz t g1 ht
    · have hv : v = 0 := hh.2 e
      simp only [e, if_false, hv, ne_eq, not_true_eq_false]
      exact parityLoop_complete hsz t g ht

end BytomModel.Lemmas.TxComplete
