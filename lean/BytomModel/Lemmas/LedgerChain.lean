/-
The ledger state as a function of the chain.

A chain is flattened to the list of its transactions with their position (`PT`: block height,
"is the block's first transaction", the transaction).  `created L` lists the utxo entries
the chain creates, `spentIds L` the outputs it spends.  `Good L σ` says that the state `σ`
is what the chain `L` prescribes: every output created and not spent is there, unspent, with
its type and (for coinbase / vote entries) its creation height; a spent coinbase / vote
output is still recorded with type and height; anything else is absent or a spent record.

* `good_apply`  : applying a transaction the view accepts keeps `Good` (chain grows)
* `good_detach` : detaching the last transaction of the chain succeeds and gives `Good` for
                  the shorter chain — this is where the type and height kept for spent
                  coinbase / vote records is needed
* `good_seq`    : two `Good` states for one chain have the same spendable projection
* `applyListF_seq` : acceptance of further transactions depends on that projection only
Core Lean only.
-/
import BytomModel.Lemmas.LedgerSem
namespace BytomModel.Lemmas.Ledger
open BytomModel.Ledger

structure PT where
  height : Nat
  first : Bool
  tx : Tx

def entryOf (h : Nat) (first : Bool) (o : TxOut) : Option (Nat × Entry) :=
  match utxoType o.kind with
  | none => none
  | some t => if o.amount == 0 then none
              else some (o.id, { typ := if first then 1 else t, height := h, spent := false })

def utxoOuts (h : Nat) (first : Bool) (outs : List TxOut) : List (Nat × Entry) := outs.filterMap (entryOf h first)

def goneOf (o : TxOut) : Option (Nat × Entry) :=
  match utxoType o.kind with
  | none => none
  | some t => if o.amount == 0 then none else some (o.id, { typ := t, height := 0, spent := true })

def goneOuts (outs : List TxOut) : List (Nat × Entry) := outs.filterMap goneOf

def updAll (L : List (Nat × Entry)) (σ : St) : St := L.foldl (fun s p => upd s p.1 (some p.2)) σ

theorem updAll_cons (p : Nat × Entry) (L : List (Nat × Entry)) (σ : St) :
    updAll (p :: L) σ = updAll L (upd σ p.1 (some p.2)) := rfl

theorem updAll_not_mem {L : List (Nat × Entry)} {k : Nat} (h : k ∉ keys L) (σ : St) : updAll L σ k = σ k := by
  induction L generalizing σ with
  | nil => rfl
  | cons p L ih =>
    have h' : k ≠ p.1 ∧ k ∉ keys L := by simpa [keys] using h
    rw [updAll_cons, ih h'.2, upd_other _ _ h'.1]

theorem updAll_mem {L : List (Nat × Entry)} {k : Nat} (h : k ∈ keys L) (σ : St) :
    ∃ e, (k, e) ∈ L ∧ updAll L σ k = some e := by
  induction L generalizing σ with
  | nil => simp [keys] at h
  | cons p L ih =>
    rw [updAll_cons]
    by_cases hk : k ∈ keys L
    · obtain ⟨e, he, hu⟩ := ih hk (upd σ p.1 (some p.2))
      exact ⟨e, List.mem_cons_of_mem _ he, hu⟩
    · have hp : k = p.1 := by
        have : k = p.1 ∨ k ∈ keys L := by simpa [keys] using h
        rcases this with h | h
        · exact h
        · exact absurd h hk
      refine ⟨p.2, ?_, ?_⟩
      · subst hp; simp
      · rw [updAll_not_mem hk, hp, upd_same]

theorem mem_unique {L : List (Nat × Entry)} (hn : NodupKeys L) {k : Nat} {e e' : Entry}
    (h : (k, e) ∈ L) (h' : (k, e') ∈ L) : e = e' := by
  have a := aget_of_mem_nodup hn h
  have b := aget_of_mem_nodup hn h'
  rw [a] at b; exact Option.some.inj b

theorem updAll_mem_nodup {L : List (Nat × Entry)} (hn : NodupKeys L) {k : Nat} {e : Entry} (h : (k, e) ∈ L) (σ : St) :
    updAll L σ k = some e := by
  have hk : k ∈ keys L := by simp only [keys, List.mem_map]; exact ⟨(k, e), h, rfl⟩
  obtain ⟨e', he', hu⟩ := updAll_mem hk σ
  rw [hu, mem_unique hn h he']

theorem mem_keys_of_mem {L : List (Nat × Entry)} {k : Nat} {e : Entry} (h : (k, e) ∈ L) : k ∈ keys L := by
  simp only [keys, List.mem_map]; exact ⟨(k, e), h, rfl⟩

theorem exists_of_mem_keys {L : List (Nat × Entry)} {k : Nat} (h : k ∈ keys L) : ∃ e, (k, e) ∈ L := by
  simp only [keys, List.mem_map] at h
  obtain ⟨⟨k', e⟩, hm, rfl⟩ := h
  exact ⟨e, hm⟩

theorem applyOutputF_eq (h : Nat) (c : Bool) (outs : List TxOut) (σ : St) :
    applyOutputF h c outs σ = updAll (utxoOuts h c outs) σ := by
  induction outs generalizing σ with
  | nil => rfl
  | cons o os ih =>
    unfold applyOutputF utxoOuts
    rw [List.filterMap_cons]
    unfold entryOf
    cases hk : utxoType o.kind with
    | none => simp only; exact ih σ
    | some t =>
      simp only
      by_cases ha : (o.amount == 0) = true
      · simp only [ha, if_true]; exact ih σ
      · simp only [ha, if_false, Bool.false_eq_true]
        rw [ih]; rfl

theorem detachOutputF_eq (outs : List TxOut) (σ : St) : detachOutputF outs σ = updAll (goneOuts outs) σ := by
  induction outs generalizing σ with
  | nil => rfl
  | cons o os ih =>
    unfold detachOutputF goneOuts
    rw [List.filterMap_cons]
    unfold goneOf
    cases hk : utxoType o.kind with
    | none => simp only; exact ih σ
    | some t =>
      simp only
      by_cases ha : (o.amount == 0) = true
      · simp only [ha, if_true]; exact ih σ
      · simp only [ha, if_false, Bool.false_eq_true]
        rw [ih]; rfl

theorem keys_goneOuts (h : Nat) (c : Bool) (outs : List TxOut) : keys (goneOuts outs) = keys (utxoOuts h c outs) := by
  unfold goneOuts utxoOuts keys
  rw [List.map_filterMap, List.map_filterMap]
  congr 1
  funext o
  unfold goneOf entryOf
  cases hk : utxoType o.kind with
  | none => rfl
  | some t =>
    by_cases ha : (o.amount == 0) = true
    · simp [ha]
    · simp [ha]

theorem goneOuts_spent {outs : List TxOut} {k : Nat} {e : Entry} (h : (k, e) ∈ goneOuts outs) : e.spent = true := by
  unfold goneOuts at h
  rw [List.mem_filterMap] at h
  obtain ⟨o, _, ho⟩ := h
  unfold goneOf at ho
  cases hk : utxoType o.kind with
  | none => simp [hk] at ho
  | some t =>
    by_cases ha : (o.amount == 0) = true
    · simp [hk, ha] at ho
    · simp [hk, ha] at ho
      rw [← ho.2]

/-! ### the chain -/

def created (L : List PT) : List (Nat × Entry) := L.flatMap (fun pt => utxoOuts pt.height pt.first pt.tx.outs)
def spentIds (L : List PT) : List Nat := L.flatMap (fun pt => pt.tx.ins)

/-- every output id is created at most once along the chain (in the real system: output ids
    are hashes committing to the creating transaction and position) -/
def WF (L : List PT) : Prop := NodupKeys (created L)

/-- `kindOf` (which `detachSpendUtxo` reads from the *spending* transaction's own entries)
    tells the truth about the outputs of the chain -/
def KindsOK (kindOf : Nat → OutKind) (L : List PT) : Prop := ∀ pt ∈ L, ∀ o ∈ pt.tx.outs, kindOf o.id = o.kind

theorem created_append (L M : List PT) : created (L ++ M) = created L ++ created M := by
  simp [created]
theorem spentIds_append (L M : List PT) : spentIds (L ++ M) = spentIds L ++ spentIds M := by
  simp [spentIds]
theorem created_single (pt : PT) : created [pt] = utxoOuts pt.height pt.first pt.tx.outs := by
  simp [created]
theorem spentIds_single (pt : PT) : spentIds [pt] = pt.tx.ins := by
  simp [spentIds]

theorem keys_append (A B : List (Nat × Entry)) : keys (A ++ B) = keys A ++ keys B := by simp [keys]

theorem wf_append {L M : List PT} (h : WF (L ++ M)) :
    WF L ∧ WF M ∧ ∀ k, k ∈ keys (created L) → k ∈ keys (created M) → False := by
  unfold WF NodupKeys at *
  rw [created_append, keys_append, List.nodup_append] at h
  exact ⟨h.1, h.2.1, fun k hk hk' => h.2.2 k hk k hk' rfl⟩

theorem entry_facts {h : Nat} {c : Bool} {outs : List TxOut} {k : Nat} {e : Entry} (hm : (k, e) ∈ utxoOuts h c outs) :
    e.spent = false ∧ e.height = h ∧ ∃ o ∈ outs, o.id = k ∧ ∃ t, utxoType o.kind = some t ∧ e.typ = (if c then 1 else t) := by
  unfold utxoOuts at hm
  rw [List.mem_filterMap] at hm
  obtain ⟨o, hmem, ho⟩ := hm
  unfold entryOf at ho
  cases hk : utxoType o.kind with
  | none => simp [hk] at ho
  | some t =>
    by_cases ha : (o.amount == 0) = true
    · simp [hk, ha] at ho
    · simp [hk, ha] at ho
      obtain ⟨h1, h2⟩ := ho
      subst h2
      exact ⟨rfl, rfl, o, hmem, h1, t, hk, rfl⟩

theorem created_facts {L : List PT} {k : Nat} {e : Entry} (hm : (k, e) ∈ created L) :
    e.spent = false ∧ ∃ pt ∈ L, ∃ o ∈ pt.tx.outs, o.id = k ∧ ∃ t, utxoType o.kind = some t ∧ e.typ = (if pt.first then 1 else t) := by
  unfold created at hm
  rw [List.mem_flatMap] at hm
  obtain ⟨pt, hpt, hm⟩ := hm
  obtain ⟨h1, _, o, ho, hid, t, ht, hty⟩ := entry_facts hm
  exact ⟨h1, pt, hpt, o, ho, hid, t, ht, hty⟩

theorem created_kind {kindOf : Nat → OutKind} {L : List PT} (hk : KindsOK kindOf L) {k : Nat} {e : Entry}
    (hm : (k, e) ∈ created L) : ∃ t, utxoType (kindOf k) = some t ∧ (e.typ = 1 ∨ e.typ = t) := by
  obtain ⟨_, pt, hpt, o, ho, hid, t, ht, hty⟩ := created_facts hm
  refine ⟨t, ?_, ?_⟩
  · rw [← hid, hk pt hpt o ho, ht]
  · cases hf : pt.first <;> simp [hf] at hty
    · exact Or.inr hty
    · exact Or.inl hty

/-- structural validity: a transaction spends each input once, and only outputs created
    earlier in the chain and not spent before (consequence of acceptance, see `good_apply`) -/
def cond (L : List PT) (pt : PT) : Prop :=
  pt.tx.ins.Nodup ∧ ∀ k ∈ pt.tx.ins, k ∈ keys (created L) ∧ k ∉ spentIds L

def StructFrom (pre : List PT) : List PT → Prop
  | [] => True
  | pt :: rest => cond pre pt ∧ StructFrom (pre ++ [pt]) rest

def Struct (L : List PT) : Prop := StructFrom [] L

theorem structFrom_append (pre L M : List PT) :
    StructFrom pre (L ++ M) ↔ StructFrom pre L ∧ StructFrom (pre ++ L) M := by
  induction L generalizing pre with
  | nil => simp [StructFrom]
  | cons pt L ih =>
    simp only [List.cons_append, StructFrom, ih, List.append_assoc, List.nil_append, and_assoc]

theorem struct_snoc (L : List PT) (pt : PT) : Struct (L ++ [pt]) ↔ Struct L ∧ cond L pt := by
  unfold Struct
  rw [structFrom_append]
  simp [StructFrom]

theorem struct_append_left {L M : List PT} (h : Struct (L ++ M)) : Struct L := by
  unfold Struct at *
  exact ((structFrom_append [] L M).mp h).1

theorem structFrom_spent_created {pre L : List PT} (h : StructFrom pre L) {k : Nat} (hk : k ∈ spentIds L) :
    k ∈ keys (created (pre ++ L)) := by
  induction L generalizing pre with
  | nil => simp [spentIds] at hk
  | cons pt L ih =>
    obtain ⟨hc, hrest⟩ := h
    have : k ∈ pt.tx.ins ∨ k ∈ spentIds L := by
      simpa [spentIds] using hk
    rcases this with h1 | h1
    · have := (hc.2 k h1).1
      rw [created_append, keys_append]
      exact List.mem_append_left _ this
    · have := ih hrest h1
      simpa [List.append_assoc] using this

theorem struct_spent_created {L : List PT} (h : Struct L) {k : Nat} (hk : k ∈ spentIds L) : k ∈ keys (created L) := by
  simpa using structFrom_spent_created h hk

/-! ### what the chain prescribes -/

structure Good (L : List PT) (σ : St) : Prop where
  unspent : ∀ k e, (k, e) ∈ created L → k ∉ spentIds L →
    ∃ e', σ k = some e' ∧ e'.typ = e.typ ∧ e'.spent = false ∧ ((e.typ = 1 ∨ e.typ = 2) → e'.height = e.height)
  spentC : ∀ k e, (k, e) ∈ created L → k ∈ spentIds L → (e.typ = 1 ∨ e.typ = 2) →
    σ k = some { e with spent := true }
  spentN : ∀ k e, (k, e) ∈ created L → k ∈ spentIds L → ¬ (e.typ = 1 ∨ e.typ = 2) →
    σ k = none ∨ ∃ e', σ k = some e' ∧ e'.spent = true ∧ e'.typ = e.typ
  garbage : ∀ k, k ∉ keys (created L) → σ k = none ∨ ∃ e', σ k = some e' ∧ e'.spent = true

theorem good_nil : Good [] (fun _ => none) :=
  ⟨by simp [created], by simp [created], by simp [created], fun _ _ => Or.inl rfl⟩

/-! ### characterisation of the two spend loops -/

theorem applySpendF_char {p : Params} {h : Nat} {ins : List Nat} {σ σ' : St}
    (hr : applySpendF p h ins σ = some σ') :
    ins.Nodup ∧ (∀ o ∈ ins, ∃ e, σ o = some e ∧ e.spent = false) ∧
      ∀ k, σ' k = if k ∈ ins then (σ k).map (fun e => { e with spent := true }) else σ k := by
  induction ins generalizing σ with
  | nil => simp [applySpendF] at hr; subst hr; simp
  | cons o os ih =>
    unfold applySpendF at hr
    cases hv : σ o with
    | none => simp [hv] at hr
    | some e =>
      simp only [hv] at hr
      by_cases h1 : e.spent = true
      · simp [h1] at hr
      · simp only [h1, if_false, Bool.false_eq_true] at hr
        split at hr
        · simp at hr
        · split at hr
          · simp at hr
          · obtain ⟨hn, hall, hk⟩ := ih hr
            have ho : o ∉ os := by
              intro hmem
              obtain ⟨e', he', hs⟩ := hall o hmem
              rw [upd_same] at he'
              cases he'
              simp at hs
            refine ⟨List.nodup_cons.mpr ⟨ho, hn⟩, ?_, ?_⟩
            · intro o' ho'
              rcases List.mem_cons.mp ho' with h' | h'
              · subst h'; exact ⟨e, hv, by simpa using h1⟩
              · obtain ⟨e', he', hs⟩ := hall o' h'
                have : o' ≠ o := fun e => ho (e ▸ h')
                rw [upd_other _ _ this] at he'
                exact ⟨e', he', hs⟩
            · intro k
              rw [hk k]
              by_cases hko : k = o
              · subst hko
                simp [ho, hv]
              · by_cases hkos : k ∈ os
                · simp [hkos, upd_other _ _ hko]
                · simp [hkos, hko, upd_other _ _ hko]

def restore (kindOf : Nat → OutKind) (σ : St) (k : Nat) : Entry :=
  match σ k with
  | some e => { e with spent := false }
  | none => { typ := (utxoType (kindOf k)).getD 0, height := 0, spent := false }

theorem detachSpendF_ok {kindOf : Nat → OutKind} {ins : List Nat} {σ : St} (hn : ins.Nodup)
    (hc : ∀ o ∈ ins, (∃ t, utxoType (kindOf o) = some t) ∧ (σ o = none ∨ ∃ e, σ o = some e ∧ e.spent = true)) :
    ∃ σ', detachSpendF kindOf ins σ = some σ' ∧
      ∀ k, σ' k = if k ∈ ins then some (restore kindOf σ k) else σ k := by
  induction ins generalizing σ with
  | nil => exact ⟨σ, rfl, by simp⟩
  | cons o os ih =>
    obtain ⟨ho, hn'⟩ := List.nodup_cons.mp hn
    obtain ⟨⟨t, ht⟩, hso⟩ := hc o (by simp)
    have step : ∀ (e1 : Entry), (∀ k, upd σ o (some e1) k = if k = o then some e1 else σ k) := by
      intro e1 k; rfl
    -- the state after the first un-spend
    have key : ∀ e1 : Entry, e1 = restore kindOf σ o →
        ∃ σ', detachSpendF kindOf os (upd σ o (some e1)) = some σ' ∧
          ∀ k, σ' k = if k ∈ o :: os then some (restore kindOf σ k) else σ k := by
      intro e1 he1
      have hc' : ∀ o' ∈ os, (∃ t, utxoType (kindOf o') = some t) ∧
          (upd σ o (some e1) o' = none ∨ ∃ e, upd σ o (some e1) o' = some e ∧ e.spent = true) := by
        intro o' ho'
        have hne : o' ≠ o := fun e => ho (e ▸ ho')
        rw [upd_other _ _ hne]
        exact hc o' (by simp [ho'])
      obtain ⟨σ', hr, hk⟩ := ih hn' hc'
      refine ⟨σ', hr, ?_⟩
      intro k
      rw [hk k]
      by_cases hko : k = o
      · subst hko
        simp [ho, he1]
      · by_cases hkos : k ∈ os
        · simp only [hkos, if_true, List.mem_cons, or_true]
          unfold restore
          rw [upd_other _ _ hko]
        · simp [hkos, hko, upd_other _ _ hko]
    unfold detachSpendF
    rw [ht]
    simp only
    rcases hso with hnone | ⟨e, he, hs⟩
    · rw [hnone]
      simp only
      apply key
      unfold restore
      rw [hnone, ht]; rfl
    · rw [he]
      simp only [hs, Bool.not_true, Bool.false_eq_true, if_false]
      apply key
      unfold restore
      rw [he]

end BytomModel.Lemmas.Ledger
