/-
The ledger state as a function of the chain.

A chain is flattened to the list of its transactions with their position (`PT`: block height,
"is the block's first transaction", the transaction).  `created L` lists the utxo entries
the chain creates, `spentIds L` the outputs it spends.  `Good L σ` says that the state `σ`
is what the chain `L` prescribes: every output created and not spent is there, unspent, with
its type and (for coinbase / vote entries) its creation height; a spent coinbase / vote
output is still recorded with type and height; anything else is absent or a spent record.

* `good_apply`  : applying a transaction the view accepts keeps `Good` (chain grows)
* `good_detach` : detaching the last transaction of the chain succeeds and gives `Good` for
                  the shorter chain — this is where the type and height kept for spent
                  coinbase / vote records is needed
* `good_seq`    : two `Good` states for one chain have the same spendable projection
* `applyListF_seq` : acceptance of further transactions depends on that projection only
Core Lean only.
-/
import BytomModel.Lemmas.LedgerSem
namespace BytomModel.Lemmas.Ledger
open BytomModel.Ledger

structure PT where
  height : Nat
  first : Bool
  tx : Tx

def entryOf (h : Nat) (first : Bool) (o : TxOut) : Option (Nat × Entry) :=
  match utxoType o.kind with
  | none => none
  | some t => if o.amount == 0 then none
              else some (o.id, { typ := if first then 1 else t, height := h, spent := false })

def utxoOuts (h : Nat) (first : Bool) (outs : List TxOut) : List (Nat × Entry) := outs.filterMap (entryOf h first)

def goneOf (o : TxOut) : Option (Nat × Entry) :=
  match utxoType o.kind with
  | none => none
  | some t => if o.amount == 0 then none else some (o.id, { typ := t, height := 0, spent := true })

def goneOuts (outs : List TxOut) : List (Nat × Entry) := outs.filterMap goneOf

def updAll (L : List (Nat × Entry)) (σ : St) : St := L.foldl (fun s p => upd s p.1 (some p.2)) σ

theorem updAll_cons (p : Nat × Entry) (L : List (Nat × Entry)) (σ : St) :
    updAll (p :: L) σ = updAll L (upd σ p.1 (some p.2)) := rfl

theorem updAll_not_mem {L : List (Nat × Entry)} {k : Nat} (h : k ∉ keys L) (σ : St) : updAll L σ k = σ k := by
  induction L generalizing σ with
  | nil => rfl
  | cons p L ih =>
    have h' : k ≠ p.1 ∧ k ∉ keys L := by simpa [keys] using h
    rw [updAll_cons, ih h'.2, upd_other _ _ h'.1]

theorem updAll_mem {L : List (Nat × Entry)} {k : Nat} (h : k ∈ keys L) (σ : St) :
    ∃ e, (k, e) ∈ L ∧ updAll L σ k = some e := by
  induction L generalizing σ with
  | nil => simp [keys] at h
  | cons p L ih =>
    rw [updAll_cons]
    by_cases hk : k ∈ keys L
    · obtain ⟨e, he, hu⟩ := ih hk (upd σ p.1 (some p.2))
      exact ⟨e, List.mem_cons_of_mem _ he, hu⟩
    · have hp : k = p.1 := by
        have : k = p.1 ∨ k ∈ keys L := by simpa [keys] using h
        rcases this with h | h
        · exact h
        · exact absurd h hk
      refine ⟨p.2, ?_, ?_⟩
      · subst hp; simp
      · rw [updAll_not_mem hk, hp, upd_same]

theorem mem_unique {L : List (Nat × Entry)} (hn : NodupKeys L) {k : Nat} {e e' : Entry}
    (h : (k, e) ∈ L) (h' : (k, e') ∈ L) : e = e' := by
  have a := aget_of_mem_nodup hn h
  have b := aget_of_mem_nodup hn h'
  rw [a] at b; exact Option.some.inj b

theorem updAll_mem_nodup {L : List (Nat × Entry)} (hn : NodupKeys L) {k : Nat} {e : Entry} (h : (k, e) ∈ L) (σ : St) :
    updAll L σ k = some e := by
  have hk : k ∈ keys L := by simp only [keys, List.mem_map]; exact ⟨(k, e), h, rfl⟩
  obtain ⟨e', he', hu⟩ := updAll_mem hk σ
  rw [hu, mem_unique hn h he']

theorem mem_keys_of_mem {L : List (Nat × Entry)} {k : Nat} {e : Entry} (h : (k, e) ∈ L) : k ∈ keys L := by
  simp only [keys, List.mem_map]; exact ⟨(k, e), h, rfl⟩

theorem exists_of_mem_keys {L : List (Nat × Entry)} {k : Nat} (h : k ∈ keys L) : ∃ e, (k, e) ∈ L := by
  simp only [keys, List.mem_map] at h
  obtain ⟨⟨k', e⟩, hm, rfl⟩ := h
  exact ⟨e, hm⟩

theorem applyOutputF_eq (h : Nat) (c : Bool) (outs : List TxOut) (σ : St) :
    applyOutputF h c outs σ = updAll (utxoOuts h c outs) σ := by
  induction outs generalizing σ with
  | nil => rfl
  | cons o os ih =>
    unfold applyOutputF utxoOuts
    rw [List.filterMap_cons]
    unfold entryOf
    cases hk : utxoType o.kind with
    | none => simp only; exact ih σ
    | some t =>
      simp only
      by_cases ha : (o.amount == 0) = true
      · simp only [ha, if_true]; exact ih σ
      · simp only [ha, if_false, Bool.false_eq_true]
        rw [ih]; rfl

theorem detachOutputF_eq (outs : List TxOut) (σ : St) : detachOutputF outs σ = updAll (goneOuts outs) σ := by
  induction outs generalizing σ with
  | nil => rfl
  | cons o os ih =>
    unfold detachOutputF goneOuts
    rw [List.filterMap_cons]
    unfold goneOf
    cases hk : utxoType o.kind with
    | none => simp only; exact ih σ
    | some t =>
      simp only
      by_cases ha : (o.amount == 0) = true
      · simp only [ha, if_true]; exact ih σ
      · simp only [ha, if_false, Bool.false_eq_true]
        rw [ih]; rfl

theorem keys_goneOuts (h : Nat) (c : Bool) (outs : List TxOut) : keys (goneOuts outs) = keys (utxoOuts h c outs) := by
  unfold goneOuts utxoOuts keys
  rw [List.map_filterMap, List.map_filterMap]
  congr 1
  funext o
  unfold goneOf entryOf
  cases hk : utxoType o.kind with
  | none => rfl
  | some t =>
    by_cases ha : (o.amount == 0) = true
    · simp [ha]
    · simp [ha]

theorem goneOuts_spent {outs : List TxOut} {k : Nat} {e : Entry} (h : (k, e) ∈ goneOuts outs) : e.spent = true := by
  unfold goneOuts at h
  rw [List.mem_filterMap] at h
  obtain ⟨o, _, ho⟩ := h
  unfold goneOf at ho
  cases hk : utxoType o.kind with
  | none => simp [hk] at ho
  | some t =>
    by_cases ha : (o.amount == 0) = true
    · simp [hk, ha] at ho
    · simp [hk, ha] at ho
      rw [← ho.2]

/-! ### the chain -/

def created (L : List PT) : List (Nat × Entry) := L.flatMap (fun pt => utxoOuts pt.height pt.first pt.tx.outs)
def spentIds (L : List PT) : List Nat := L.flatMap (fun pt => pt.tx.ins)

/-- every output id is created at most once along the chain (in the real system: output ids
    are hashes committing to the creating transaction and position) -/
def WF (L : List PT) : Prop := NodupKeys (created L)

/-- `kindOf` (which `detachSpendUtxo` reads from the *spending* transaction's own entries)
    tells the truth about the outputs of the chain -/
def KindsOK (kindOf : Nat → OutKind) (L : List PT) : Prop := ∀ pt ∈ L, ∀ o ∈ pt.tx.outs, kindOf o.id = o.kind

theorem created_append (L M : List PT) : created (L ++ M) = created L ++ created M := by
  simp [created]
theorem spentIds_append (L M : List PT) : spentIds (L ++ M) = spentIds L ++ spentIds M := by
  simp [spentIds]
theorem created_single (pt : PT) : created [pt] = utxoOuts pt.height pt.first pt.tx.outs := by
  simp [created]
theorem spentIds_single (pt : PT) : spentIds [pt] = pt.tx.ins := by
  simp [spentIds]

theorem keys_append (A B : List (Nat × Entry)) : keys (A ++ B) = keys A ++ keys B := by simp [keys]

theorem wf_append {L M : List PT} (h : WF (L ++ M)) :
    WF L ∧ WF M ∧ ∀ k, k ∈ keys (created L) → k ∈ keys (created M) → False := by
  unfold WF NodupKeys at *
  rw [created_append, keys_append, List.nodup_append] at h
  exact ⟨h.1, h.2.1, fun k hk hk' => h.2.2 k hk k hk' rfl⟩

theorem entry_facts {h : Nat} {c : Bool} {outs : List TxOut} {k : Nat} {e : Entry} (hm : (k, e) ∈ utxoOuts h c outs) :
    e.spent = false ∧ e.height = h ∧ ∃ o ∈ outs, o.id = k ∧ ∃ t, utxoType o.kind = some t ∧ e.typ = (if c then 1 else t) := by
  unfold utxoOuts at hm
  rw [List.mem_filterMap] at hm
  obtain ⟨o, hmem, ho⟩ := hm
  unfold entryOf at ho
  cases hk : utxoType o.kind with
  | none => simp [hk] at ho
  | some t =>
    by_cases ha : (o.amount == 0) = true
    · simp [hk, ha] at ho
    · simp [hk, ha] at ho
      obtain ⟨h1, h2⟩ := ho
      subst h2
      exact ⟨rfl, rfl, o, hmem, h1, t, hk, rfl⟩

theorem created_facts {L : List PT} {k : Nat} {e : Entry} (hm : (k, e) ∈ created L) :
    e.spent = false ∧ ∃ pt ∈ L, ∃ o ∈ pt.tx.outs, o.id = k ∧ ∃ t, utxoType o.kind = some t ∧ e.typ = (if pt.first then 1 else t) := by
  unfold created at hm
  rw [List.mem_flatMap] at hm
  obtain ⟨pt, hpt, hm⟩ := hm
  obtain ⟨h1, _, o, ho, hid, t, ht, hty⟩ := entry_facts hm
  exact ⟨h1, pt, hpt, o, ho, hid, t, ht, hty⟩

theorem created_kind {kindOf : Nat → OutKind} {L : List PT} (hk : KindsOK kindOf L) {k : Nat} {e : Entry}
    (hm : (k, e) ∈ created L) : ∃ t, utxoType (kindOf k) = some t ∧ (e.typ = 1 ∨ e.typ = t) := by
  obtain ⟨_, pt, hpt, o, ho, hid, t, ht, hty⟩ := created_facts hm
  refine ⟨t, ?_, ?_⟩
  · rw [← hid, hk pt hpt o ho, ht]
  · cases hf : pt.first <;> simp [hf] at hty
    · exact Or.inr hty
    · exact Or.inl hty

/-- structural validity: a transaction spends each input once, and only outputs created
    earlier in the chain and not spent before (consequence of acceptance, see `good_apply`) -/
def cond (L : List PT) (pt : PT) : Prop :=
  pt.tx.ins.Nodup ∧ ∀ k ∈ pt.tx.ins, k ∈ keys (created L) ∧ k ∉ spentIds L

def StructFrom (pre : List PT) : List PT → Prop
  | [] => True
  | pt :: rest => cond pre pt ∧ StructFrom (pre ++ [pt]) rest

def Struct (L : List PT) : Prop := StructFrom [] L

theorem structFrom_append (pre L M : List PT) :
    StructFrom pre (L ++ M) ↔ StructFrom pre L ∧ StructFrom (pre ++ L) M := by
  induction L generalizing pre with
  | nil => simp [StructFrom]
  | cons pt L ih =>
    simp only [List.cons_append, StructFrom, ih, List.append_assoc, List.nil_append, and_assoc]

theorem struct_snoc (L : List PT) (pt : PT) : Struct (L ++ [pt]) ↔ Struct L ∧ cond L pt := by
  unfold Struct
  rw [structFrom_append]
  simp [StructFrom]

theorem struct_append_left {L M : List PT} (h : Struct (L ++ M)) : Struct L := by
  unfold Struct at *
  exact ((structFrom_append [] L M).mp h).1

theorem structFrom_spent_created {pre L : List PT} (h : StructFrom pre L) {k : Nat} (hk : k ∈ spentIds L) :
    k ∈ keys (created (pre ++ L)) := by
  induction L generalizing pre with
  | nil => simp [spentIds] at hk
  | cons pt L ih =>
    obtain ⟨hc, hrest⟩ := h
    have : k ∈ pt.tx.ins ∨ k ∈ spentIds L := by
      simpa [spentIds] using hk
    rcases this with h1 | h1
    · have := (hc.2 k h1).1
      rw [created_append, keys_append]
      exact List.mem_append_left _ this
    · have := ih hrest h1
      simpa [List.append_assoc] using this

theorem struct_spent_created {L : List PT} (h : Struct L) {k : Nat} (hk : k ∈ spentIds L) : k ∈ keys (created L) := by
  simpa using structFrom_spent_created h hk

/-! ### what the chain prescribes -/

structure Good (L : List PT) (σ : St) : Prop where
  unspent : ∀ k e, (k, e) ∈ created L → k ∉ spentIds L →
    ∃ e', σ k = some e' ∧ e'.typ = e.typ ∧ e'.spent = false ∧ ((e.typ = 1 ∨ e.typ = 2) → e'.height = e.height)
  spentC : ∀ k e, (k, e) ∈ created L → k ∈ spentIds L → (e.typ = 1 ∨ e.typ = 2) →
    σ k = some { e with spent := true }
  spentN : ∀ k e, (k, e) ∈ created L → k ∈ spentIds L → ¬ (e.typ = 1 ∨ e.typ = 2) →
    σ k = none ∨ ∃ e', σ k = some e' ∧ e'.spent = true ∧ e'.typ = e.typ
  garbage : ∀ k, k ∉ keys (created L) → σ k = none ∨ ∃ e', σ k = some e' ∧ e'.spent = true

theorem good_nil : Good [] (fun _ => none) :=
  ⟨by simp [created], by simp [created], by simp [created], fun _ _ => Or.inl rfl⟩

/-! ### characterisation of the two spend loops -/

theorem applySpendF_char {p : Params} {h : Nat} {ins : List Nat} {σ σ' : St}
    (hr : applySpendF p h ins σ = some σ') :
    ins.Nodup ∧ (∀ o ∈ ins, ∃ e, σ o = some e ∧ e.spent = false) ∧
      ∀ k, σ' k = if k ∈ ins then (σ k).map (fun e => { e with spent := true }) else σ k := by
  induction ins generalizing σ with
  | nil => simp [applySpendF] at hr; subst hr; simp
  | cons o os ih =>
    unfold applySpendF at hr
    cases hv : σ o with
    | none => simp [hv] at hr
    | some e =>
      simp only [hv] at hr
      by_cases h1 : e.spent = true
      · simp [h1] at hr
      · simp only [h1, if_false, Bool.false_eq_true] at hr
        split at hr
        · simp at hr
        · split at hr
          · simp at hr
          · obtain ⟨hn, hall, hk⟩ := ih hr
            have ho : o ∉ os := by
              intro hmem
              obtain ⟨e', he', hs⟩ := hall o hmem
              rw [upd_same] at he'
              cases he'
              simp at hs
            refine ⟨List.nodup_cons.mpr ⟨ho, hn⟩, ?_, ?_⟩
            · intro o' ho'
              rcases List.mem_cons.mp ho' with h' | h'
              · subst h'; exact ⟨e, hv, by simpa using h1⟩
              · obtain ⟨e', he', hs⟩ := hall o' h'
                have : o' ≠ o := fun e => ho (e ▸ h')
                rw [upd_other _ _ this] at he'
                exact ⟨e', he', hs⟩
            · intro k
              rw [hk k]
              by_cases hko : k = o
              · subst hko
                simp [ho, hv]
              · by_cases hkos : k ∈ os
                · simp [hkos, upd_other _ _ hko]
                · simp [hkos, hko, upd_other _ _ hko]

def restore (kindOf : Nat → OutKind) (σ : St) (k : Nat) : Entry :=
  match σ k with
  | some e => { e with spent := false }
  | none => { typ := (utxoType (kindOf k)).getD 0, height := 0, spent := false }

theorem detachSpendF_ok {kindOf : Nat → OutKind} {ins : List Nat} {σ : St} (hn : ins.Nodup)
    (hc : ∀ o ∈ ins, (∃ t, utxoType (kindOf o) = some t) ∧ (σ o = none ∨ ∃ e, σ o = some e ∧ e.spent = true)) :
    ∃ σ', detachSpendF kindOf ins σ = some σ' ∧
      ∀ k, σ' k = if k ∈ ins then some (restore kindOf σ k) else σ k := by
  induction ins generalizing σ with
  | nil => exact ⟨σ, rfl, by simp⟩
  | cons o os ih =>
    obtain ⟨ho, hn'⟩ := List.nodup_cons.mp hn
    obtain ⟨⟨t, ht⟩, hso⟩ := hc o (by simp)
    have step : ∀ (e1 : Entry), (∀ k, upd σ o (some e1) k = if k = o then some e1 else σ k) := by
      intro e1 k; rfl
    -- the state after the first un-spend
    have key : ∀ e1 : Entry, e1 = restore kindOf σ o →
        ∃ σ', detachSpendF kindOf os (upd σ o (some e1)) = some σ' ∧
          ∀ k, σ' k = if k ∈ o :: os then some (restore kindOf σ k) else σ k := by
      intro e1 he1
      have hc' : ∀ o' ∈ os, (∃ t, utxoType (kindOf o') = some t) ∧
          (upd σ o (some e1) o' = none ∨ ∃ e, upd σ o (some e1) o' = some e ∧ e.spent = true) := by
        intro o' ho'
        have hne : o' ≠ o := fun e => ho (e ▸ ho')
        rw [upd_other _ _ hne]
        exact hc o' (by simp [ho'])
      obtain ⟨σ', hr, hk⟩ := ih hn' hc'
      refine ⟨σ', hr, ?_⟩
      intro k
      rw [hk k]
      by_cases hko : k = o
      · subst hko
        simp [ho, he1]
      · by_cases hkos : k ∈ os
        · simp only [hkos, if_true, List.mem_cons, or_true]
          unfold restore
          rw [upd_other _ _ hko]
        · simp [hkos, hko, upd_other _ _ hko]
    unfold detachSpendF
    rw [ht]
    simp only
    rcases hso with hnone | ⟨e, he, hs⟩
    · rw [hnone]
      simp only
      apply key
      unfold restore
      rw [hnone, ht]; rfl
    · rw [he]
      simp only [hs, Bool.not_true, Bool.false_eq_true, if_false]
      apply key
      unfold restore
      rw [he]

/-! ### one transaction forward -/

def applyTxF (p : Params) (pt : PT) (σ : St) : Option St :=
  match applySpendF p pt.height pt.tx.ins σ with
  | none => none
  | some σ1 => some (applyOutputF pt.height pt.first pt.tx.outs σ1)

theorem entry_eq_of {e e' : Entry} (ht : e'.typ = e.typ) (hh : e'.height = e.height) (hs : e.spent = false) :
    ({ e' with spent := true } : Entry) = { e with spent := true } := by
  cases e; cases e'; simp_all

theorem good_apply {p : Params} {L : List PT} {pt : PT} {σ σ' : St}
    (hg : Good L σ) (hs : Struct L) (hw : WF (L ++ [pt])) (hr : applyTxF p pt σ = some σ') :
    Good (L ++ [pt]) σ' ∧ Struct (L ++ [pt]) := by
  unfold applyTxF at hr
  cases hsp : applySpendF p pt.height pt.tx.ins σ with
  | none => simp [hsp] at hr
  | some σ1 =>
    simp only [hsp, Option.some.injEq] at hr
    obtain ⟨hnd, hall, hσ1⟩ := applySpendF_char hsp
    obtain ⟨hwL, hwU, hdisj⟩ := wf_append hw
    rw [created_single] at hdisj
    have hwU' : NodupKeys (utxoOuts pt.height pt.first pt.tx.outs) := by
      have := hwU; unfold WF at this; rwa [created_single] at this
    -- inputs were created earlier and not spent before
    have hA : ∀ o ∈ pt.tx.ins, o ∈ keys (created L) ∧ o ∉ spentIds L := by
      intro o ho
      obtain ⟨e', he', hsp'⟩ := hall o ho
      have hc : o ∈ keys (created L) := by
        apply Classical.byContradiction
        intro hc
        rcases hg.garbage o hc with h | ⟨e2, h, h2⟩
        · rw [h] at he'; cases he'
        · rw [h] at he'; cases he'; rw [h2] at hsp'; cases hsp'
      refine ⟨hc, ?_⟩
      intro hsI
      obtain ⟨e, he⟩ := exists_of_mem_keys hc
      by_cases hC : e.typ = 1 ∨ e.typ = 2
      · have := hg.spentC o e he hsI hC
        rw [this] at he'; cases he'; simp at hsp'
      · rcases hg.spentN o e he hsI hC with h | ⟨e2, h, h2, _⟩
        · rw [h] at he'; cases he'
        · rw [h] at he'; cases he'; rw [h2] at hsp'; cases hsp'
    have hstruct : Struct (L ++ [pt]) := (struct_snoc L pt).mpr ⟨hs, hnd, hA⟩
    refine ⟨?_, hstruct⟩
    -- value of the new state
    have hσ' : ∀ k, k ∉ keys (utxoOuts pt.height pt.first pt.tx.outs) →
        σ' k = if k ∈ pt.tx.ins then (σ k).map (fun e => { e with spent := true }) else σ k := by
      intro k hk
      rw [← hr, applyOutputF_eq, updAll_not_mem hk, hσ1]
    have hnew : ∀ k e, (k, e) ∈ utxoOuts pt.height pt.first pt.tx.outs → σ' k = some e := by
      intro k e hm
      rw [← hr, applyOutputF_eq, updAll_mem_nodup hwU' hm]
    have hnotU : ∀ k, k ∈ keys (created L) → k ∉ keys (utxoOuts pt.height pt.first pt.tx.outs) :=
      fun k hk hk' => hdisj k hk hk'
    have hnewfresh : ∀ k e, (k, e) ∈ utxoOuts pt.height pt.first pt.tx.outs →
        k ∉ spentIds (L ++ [pt]) := by
      intro k e hm hsI
      have hkU := mem_keys_of_mem hm
      rw [spentIds_append, spentIds_single, List.mem_append] at hsI
      rcases hsI with h | h
      · exact hdisj k (struct_spent_created hs h) hkU
      · exact hdisj k (hA k h).1 hkU
    constructor
    · -- unspent
      intro k e hm hns
      rw [created_append, created_single, List.mem_append] at hm
      rw [spentIds_append, spentIds_single, List.mem_append, not_or] at hns
      rcases hm with hm | hm
      · have := hσ' k (hnotU k (mem_keys_of_mem hm))
        rw [if_neg hns.2] at this
        rw [this]
        exact hg.unspent k e hm hns.1
      · refine ⟨e, hnew k e hm, rfl, (entry_facts hm).1, fun _ => rfl⟩
    · -- spentC
      intro k e hm hsI hC
      rw [created_append, created_single, List.mem_append] at hm
      rcases hm with hm | hm
      · have hk := hσ' k (hnotU k (mem_keys_of_mem hm))
        by_cases hin : k ∈ pt.tx.ins
        · rw [if_pos hin] at hk
          obtain ⟨e', he', ht, hsp', hh⟩ := hg.unspent k e hm (hA k hin).2
          rw [hk, he']
          simp only [Option.map_some]
          rw [entry_eq_of ht (hh hC) (created_facts hm).1]
        · rw [if_neg hin] at hk
          rw [hk]
          rw [spentIds_append, spentIds_single, List.mem_append] at hsI
          rcases hsI with h | h
          · exact hg.spentC k e hm h hC
          · exact absurd h hin
      · exact absurd hsI (hnewfresh k e hm)
    · -- spentN
      intro k e hm hsI hC
      rw [created_append, created_single, List.mem_append] at hm
      rcases hm with hm | hm
      · have hk := hσ' k (hnotU k (mem_keys_of_mem hm))
        by_cases hin : k ∈ pt.tx.ins
        · rw [if_pos hin] at hk
          obtain ⟨e', he', ht, hsp', hh⟩ := hg.unspent k e hm (hA k hin).2
          right
          refine ⟨{ e' with spent := true }, ?_, rfl, ht⟩
          rw [hk, he']; rfl
        · rw [if_neg hin] at hk
          rw [hk]
          rw [spentIds_append, spentIds_single, List.mem_append] at hsI
          rcases hsI with h | h
          · exact hg.spentN k e hm h hC
          · exact absurd h hin
      · exact absurd hsI (hnewfresh k e hm)
    · -- garbage
      intro k hk
      rw [created_append, created_single, keys_append, List.mem_append, not_or] at hk
      have h1 := hσ' k hk.2
      have hin : k ∉ pt.tx.ins := fun h => hk.1 (hA k h).1
      rw [if_neg hin] at h1
      rw [h1]
      exact hg.garbage k hk.1

/-! ### one transaction backward -/

theorem good_detach {kindOf : Nat → OutKind} {L : List PT} {pt : PT} {σ : St}
    (hg : Good (L ++ [pt]) σ) (hs : Struct (L ++ [pt])) (hw : WF (L ++ [pt])) (hk : KindsOK kindOf L) :
    ∃ σ', detachTxF kindOf pt.tx σ = some σ' ∧ Good L σ' := by
  obtain ⟨hsL, hnd, hA⟩ := (struct_snoc L pt).mp hs
  obtain ⟨hwL, hwU, hdisj⟩ := wf_append hw
  rw [created_single] at hdisj
  have hmemL : ∀ k e, (k, e) ∈ created L → (k, e) ∈ created (L ++ [pt]) := by
    intro k e h; rw [created_append]; exact List.mem_append_left _ h
  have hinSpent : ∀ k, k ∈ pt.tx.ins → k ∈ spentIds (L ++ [pt]) := by
    intro k h; rw [spentIds_append, spentIds_single]; exact List.mem_append_right _ h
  -- the spend loop succeeds
  have hc : ∀ o ∈ pt.tx.ins, (∃ t, utxoType (kindOf o) = some t) ∧
      (σ o = none ∨ ∃ e, σ o = some e ∧ e.spent = true) := by
    intro o ho
    obtain ⟨e, he⟩ := exists_of_mem_keys (hA o ho).1
    obtain ⟨t, ht, _⟩ := created_kind hk he
    refine ⟨⟨t, ht⟩, ?_⟩
    by_cases hC : e.typ = 1 ∨ e.typ = 2
    · right
      exact ⟨_, hg.spentC o e (hmemL o e he) (hinSpent o ho) hC, rfl⟩
    · rcases hg.spentN o e (hmemL o e he) (hinSpent o ho) hC with h | ⟨e', h, h2, _⟩
      · exact Or.inl h
      · exact Or.inr ⟨e', h, h2⟩
  obtain ⟨σ1, hr1, hσ1⟩ := detachSpendF_ok hnd hc
  refine ⟨detachOutputF pt.tx.outs σ1, by unfold detachTxF; rw [hr1], ?_⟩
  have hkeys := keys_goneOuts pt.height pt.first pt.tx.outs
  have hσ' : ∀ k, k ∉ keys (utxoOuts pt.height pt.first pt.tx.outs) →
      detachOutputF pt.tx.outs σ1 k = if k ∈ pt.tx.ins then some (restore kindOf σ k) else σ k := by
    intro k hk'
    rw [detachOutputF_eq, updAll_not_mem (by rw [hkeys]; exact hk'), hσ1]
  have hnotU : ∀ k, k ∈ keys (created L) → k ∉ keys (utxoOuts pt.height pt.first pt.tx.outs) :=
    fun k hk hk' => hdisj k hk hk'
  constructor
  · -- unspent
    intro k e hm hns
    have hk' := hσ' k (hnotU k (mem_keys_of_mem hm))
    by_cases hin : k ∈ pt.tx.ins
    · rw [if_pos hin] at hk'
      rw [hk']
      by_cases hC : e.typ = 1 ∨ e.typ = 2
      · have := hg.spentC k e (hmemL k e hm) (hinSpent k hin) hC
        refine ⟨restore kindOf σ k, rfl, ?_, ?_, ?_⟩ <;> (unfold restore; rw [this])
        · intro _; rfl
      · obtain ⟨t, ht, hty⟩ := created_kind hk hm
        have hte : e.typ = t := by
          rcases hty with h | h
          · exact absurd (Or.inl h) hC
          · exact h
        rcases hg.spentN k e (hmemL k e hm) (hinSpent k hin) hC with h | ⟨e', h, _, h3⟩
        · refine ⟨restore kindOf σ k, rfl, ?_, ?_, ?_⟩
          · unfold restore; rw [h, ht]; simp [hte]
          · unfold restore; rw [h]
          · intro hC'; exact absurd hC' hC
        · refine ⟨restore kindOf σ k, rfl, ?_, ?_, ?_⟩
          · unfold restore; rw [h]; exact h3
          · unfold restore; rw [h]
          · intro hC'; exact absurd hC' hC
    · rw [if_neg hin] at hk'
      rw [hk']
      apply hg.unspent k e (hmemL k e hm)
      rw [spentIds_append, spentIds_single, List.mem_append, not_or]
      exact ⟨hns, hin⟩
  · -- spentC
    intro k e hm hsI hC
    have hin : k ∉ pt.tx.ins := fun h => (hA k h).2 hsI
    have hk' := hσ' k (hnotU k (mem_keys_of_mem hm))
    rw [if_neg hin] at hk'
    rw [hk']
    apply hg.spentC k e (hmemL k e hm) _ hC
    rw [spentIds_append]; exact List.mem_append_left _ hsI
  · -- spentN
    intro k e hm hsI hC
    have hin : k ∉ pt.tx.ins := fun h => (hA k h).2 hsI
    have hk' := hσ' k (hnotU k (mem_keys_of_mem hm))
    rw [if_neg hin] at hk'
    rw [hk']
    apply hg.spentN k e (hmemL k e hm) _ hC
    rw [spentIds_append]; exact List.mem_append_left _ hsI
  · -- garbage: the detached transaction's own outputs become spent records
    intro k hkL
    by_cases hU : k ∈ keys (utxoOuts pt.height pt.first pt.tx.outs)
    · right
      rw [← hkeys] at hU
      obtain ⟨e, he, hu⟩ := updAll_mem hU σ1
      exact ⟨e, by rw [detachOutputF_eq, hu], goneOuts_spent he⟩
    · have hk' := hσ' k hU
      have hin : k ∉ pt.tx.ins := fun h => hkL (hA k h).1
      rw [if_neg hin] at hk'
      rw [hk']
      apply hg.garbage
      rw [created_append, created_single, keys_append, List.mem_append, not_or]
      exact ⟨hkL, hU⟩

/-! ### lists of transactions -/

def applyListF (p : Params) : List PT → St → Option St
  | [], σ => some σ
  | pt :: rest, σ =>
    match applyTxF p pt σ with
    | none => none
    | some σ1 => applyListF p rest σ1

theorem applyListF_append (p : Params) (L M : List PT) (σ : St) :
    applyListF p (L ++ M) σ = (applyListF p L σ).bind (applyListF p M) := by
  induction L generalizing σ with
  | nil => rfl
  | cons pt L ih =>
    simp only [List.cons_append, applyListF]
    cases applyTxF p pt σ with
    | none => rfl
    | some σ1 => exact ih σ1

theorem good_applyList {p : Params} {L M : List PT} {σ σ' : St}
    (hg : Good L σ) (hs : Struct L) (hw : WF (L ++ M)) (hr : applyListF p M σ = some σ') :
    Good (L ++ M) σ' ∧ Struct (L ++ M) := by
  induction M generalizing L σ with
  | nil => simp [applyListF] at hr; subst hr; simpa using ⟨hg, hs⟩
  | cons pt M ih =>
    unfold applyListF at hr
    cases h1 : applyTxF p pt σ with
    | none => simp [h1] at hr
    | some σ1 =>
      simp only [h1] at hr
      have hw' : WF ((L ++ [pt]) ++ M) := by simpa using hw
      obtain ⟨hg1, hs1⟩ := good_apply hg hs (wf_append hw').1 h1
      have := ih hg1 hs1 hw' hr
      simpa using this

/-- detaching the transactions `R.reverse` of the chain `L ++ R.reverse`, last one first -/
theorem good_detachList {kindOf : Nat → OutKind} {L R : List PT} {σ : St}
    (hg : Good (L ++ R.reverse) σ) (hs : Struct (L ++ R.reverse)) (hw : WF (L ++ R.reverse))
    (hk : KindsOK kindOf (L ++ R.reverse)) :
    ∃ σ', detachListF kindOf (R.map (·.tx)) σ = some σ' ∧ Good L σ' := by
  induction R generalizing σ with
  | nil => exact ⟨σ, rfl, by simpa using hg⟩
  | cons pt R ih =>
    have e : L ++ (pt :: R).reverse = (L ++ R.reverse) ++ [pt] := by simp
    rw [e] at hg hs hw hk
    have hk' : KindsOK kindOf (L ++ R.reverse) := fun q hq => hk q (List.mem_append_left _ hq)
    obtain ⟨σ1, h1, hg1⟩ := good_detach hg hs hw hk'
    obtain ⟨σ', h2, hg2⟩ := ih hg1 (struct_append_left hs) (wf_append hw).1 hk'
    refine ⟨σ', ?_, hg2⟩
    simp only [List.map_cons, detachListF, h1, h2]

/-! ### the spendable projection -/

/-- what a future spend can observe of an entry: nothing if it is spent (or absent), else its
    type and — for coinbase and vote entries, the only ones with a height rule — its height -/
def spendProj : Option Entry → Option (Nat × Nat)
  | none => none
  | some e => if e.spent then none else some (e.typ, if e.typ = 1 ∨ e.typ = 2 then e.height else 0)

def SEq (σ τ : St) : Prop := ∀ k, spendProj (σ k) = spendProj (τ k)

theorem SEq.refl (σ : St) : SEq σ σ := fun _ => rfl
theorem SEq.symm {σ τ : St} (h : SEq σ τ) : SEq τ σ := fun k => (h k).symm
theorem SEq.trans {σ τ ρ : St} (h : SEq σ τ) (h' : SEq τ ρ) : SEq σ ρ := fun k => (h k).trans (h' k)

theorem spendProj_spent {e : Entry} (h : e.spent = true) : spendProj (some e) = none := by simp [spendProj, h]

theorem good_seq {L : List PT} {σ τ : St} (h1 : Good L σ) (h2 : Good L τ) : SEq σ τ := by
  intro k
  by_cases hk : k ∈ keys (created L)
  · obtain ⟨e, he⟩ := exists_of_mem_keys hk
    by_cases hs : k ∈ spentIds L
    · by_cases hC : e.typ = 1 ∨ e.typ = 2
      · rw [h1.spentC k e he hs hC, h2.spentC k e he hs hC]
      · have a : spendProj (σ k) = none := by
          rcases h1.spentN k e he hs hC with h | ⟨e', h, h', _⟩
          · rw [h]; rfl
          · rw [h]; exact spendProj_spent h'
        have b : spendProj (τ k) = none := by
          rcases h2.spentN k e he hs hC with h | ⟨e', h, h', _⟩
          · rw [h]; rfl
          · rw [h]; exact spendProj_spent h'
        rw [a, b]
    · obtain ⟨e1, hσ, t1, s1, g1⟩ := h1.unspent k e he hs
      obtain ⟨e2, hτ, t2, s2, g2⟩ := h2.unspent k e he hs
      rw [hσ, hτ]
      simp only [spendProj, s1, s2, Bool.false_eq_true, if_false, t1, t2]
      by_cases hC : e.typ = 1 ∨ e.typ = 2
      · simp [hC, g1 hC, g2 hC]
      · simp [hC]
  · have a : spendProj (σ k) = none := by
      rcases h1.garbage k hk with h | ⟨e', h, h'⟩
      · rw [h]; rfl
      · rw [h]; exact spendProj_spent h'
    have b : spendProj (τ k) = none := by
      rcases h2.garbage k hk with h | ⟨e', h, h'⟩
      · rw [h]; rfl
      · rw [h]; exact spendProj_spent h'
    rw [a, b]

/-- `OptRel R a b`: both fail, or both succeed with related results -/
def OptRel {α : Type} (R : α → α → Prop) : Option α → Option α → Prop
  | some x, some y => R x y
  | none, none => True
  | _, _ => False

/-- the test `applySpendUtxo` makes on an entry -/
def spendable (p : Params) (height : Nat) (e : Entry) : Bool :=
  !e.spent && !(e.typ == 1 && e.height + p.coinbasePending > height) &&
    !(e.typ == 2 && e.height + p.votePending > height)

theorem applySpendF_cons (p : Params) (h : Nat) (o : Nat) (os : List Nat) (σ : St) :
    applySpendF p h (o :: os) σ =
      match σ o with
      | none => none
      | some e => if spendable p h e then applySpendF p h os (upd σ o (some { e with spent := true })) else none := by
  rw [applySpendF]
  cases σ o with
  | none => rfl
  | some e =>
    simp only [spendable]
    by_cases h1 : e.spent = true
    · simp [h1]
    · by_cases h2 : (e.typ == 1 && decide (e.height + p.coinbasePending > h)) = true
      · simp [h1, h2]
      · by_cases h3 : (e.typ == 2 && decide (e.height + p.votePending > h)) = true
        · simp [h1, h2, h3]
        · simp [h1, h2, h3]

theorem spendable_of_proj {p : Params} {h : Nat} {e1 e2 : Entry}
    (hp : spendProj (some e1) = spendProj (some e2)) : spendable p h e1 = spendable p h e2 := by
  unfold spendProj at hp
  unfold spendable
  by_cases s1 : e1.spent = true
  · by_cases s2 : e2.spent = true
    · simp [s1, s2]
    · simp [s1, s2] at hp
  · by_cases s2 : e2.spent = true
    · simp [s1, s2] at hp
    · simp only [s1, s2, Bool.false_eq_true, if_false, Option.some.injEq, Prod.mk.injEq] at hp
      obtain ⟨ht, hh⟩ := hp
      rw [← ht] at hh
      by_cases hC : e1.typ = 1 ∨ e1.typ = 2
      · simp only [hC, if_true] at hh
        simp [s1, s2, ← ht, hh]
      · have n1 : ¬ e1.typ = 1 := fun h => hC (Or.inl h)
        have n2 : ¬ e1.typ = 2 := fun h => hC (Or.inr h)
        have b1 : (e1.typ == 1) = false := by simp [n1]
        have b2 : (e1.typ == 2) = false := by simp [n2]
        simp [s1, s2, ← ht, b1, b2]

theorem spendable_unspent {p : Params} {h : Nat} {e : Entry} (hs : spendable p h e = true) : e.spent = false := by
  unfold spendable at hs
  cases h' : e.spent <;> simp_all

theorem seq_upd {σ τ : St} (h : SEq σ τ) (k : Nat) {a b : Option Entry} (hab : spendProj a = spendProj b) :
    SEq (upd σ k a) (upd τ k b) := by
  intro j
  unfold upd
  by_cases hj : j = k
  · simp [hj, hab]
  · simp [hj, h j]

theorem applySpendF_seq (p : Params) (h : Nat) (ins : List Nat) {σ τ : St} (hst : SEq σ τ) :
    OptRel SEq (applySpendF p h ins σ) (applySpendF p h ins τ) := by
  induction ins generalizing σ τ with
  | nil => exact hst
  | cons o os ih =>
    rw [applySpendF_cons, applySpendF_cons]
    have ho := hst o
    cases h1 : σ o with
    | none =>
      cases h2 : τ o with
      | none => trivial
      | some e2 =>
        rw [h1, h2] at ho
        have : spendable p h e2 = false := by
          cases hsp : spendable p h e2
          · rfl
          · have := spendable_unspent hsp
            simp [spendProj, this] at ho
        simp [this, OptRel]
    | some e1 =>
      cases h2 : τ o with
      | none =>
        rw [h1, h2] at ho
        have : spendable p h e1 = false := by
          cases hsp : spendable p h e1
          · rfl
          · have := spendable_unspent hsp
            simp [spendProj, this] at ho
        simp [this, OptRel]
      | some e2 =>
        rw [h1, h2] at ho
        simp only
        rw [spendable_of_proj (p := p) (h := h) ho]
        cases hsp : spendable p h e2
        · simp [OptRel]
        · simp only [if_true]
          apply ih
          apply seq_upd hst
          rw [spendProj_spent rfl, spendProj_spent rfl]

theorem updAll_seq (U : List (Nat × Entry)) {σ τ : St} (hst : SEq σ τ) : SEq (updAll U σ) (updAll U τ) := by
  induction U generalizing σ τ with
  | nil => exact hst
  | cons q U ih => exact ih (seq_upd hst q.1 rfl)

theorem applyTxF_seq (p : Params) (pt : PT) {σ τ : St} (hst : SEq σ τ) :
    OptRel SEq (applyTxF p pt σ) (applyTxF p pt τ) := by
  unfold applyTxF
  have := applySpendF_seq p pt.height pt.tx.ins hst
  cases h1 : applySpendF p pt.height pt.tx.ins σ with
  | none =>
    cases h2 : applySpendF p pt.height pt.tx.ins τ with
    | none => trivial
    | some b => rw [h1, h2] at this; exact this
  | some a =>
    cases h2 : applySpendF p pt.height pt.tx.ins τ with
    | none => rw [h1, h2] at this; exact this
    | some b =>
      rw [h1, h2] at this
      simp only [OptRel, applyOutputF_eq]
      exact updAll_seq _ this

/-- acceptance of a list of transactions, and the spendable projection afterwards, depend
    only on the spendable projection before -/
theorem applyListF_seq (p : Params) (M : List PT) {σ τ : St} (hst : SEq σ τ) :
    OptRel SEq (applyListF p M σ) (applyListF p M τ) := by
  induction M generalizing σ τ with
  | nil => exact hst
  | cons pt M ih =>
    unfold applyListF
    have := applyTxF_seq p pt hst
    cases h1 : applyTxF p pt σ with
    | none =>
      cases h2 : applyTxF p pt τ with
      | none => trivial
      | some b => rw [h1, h2] at this; exact False.elim this
    | some a =>
      cases h2 : applyTxF p pt τ with
      | none => rw [h1, h2] at this; exact False.elim this
      | some b =>
        rw [h1, h2] at this
        exact ih this

/-! ### blocks -/

/-- the transactions of a block with their positions -/
def posTxs (h : Nat) : Bool → List Tx → List PT
  | _, [] => []
  | f, t :: ts => ⟨h, f, t⟩ :: posTxs h false ts

theorem applyBlockF_eq (p : Params) (h : Nat) (f : Bool) (txs : List Tx) (σ : St) :
    applyBlockF p h f txs σ = applyListF p (posTxs h f txs) σ := by
  induction txs generalizing f σ with
  | nil => rfl
  | cons t ts ih =>
    unfold applyBlockF posTxs applyListF applyTxF
    cases applySpendF p h t.ins σ with
    | none => rfl
    | some σ1 => exact ih _ _

theorem posTxs_map_tx (h : Nat) (f : Bool) (txs : List Tx) : (posTxs h f txs).map (·.tx) = txs := by
  induction txs generalizing f with
  | nil => rfl
  | cons t ts ih => simp [posTxs, ih]

end BytomModel.Lemmas.Ledger
