/-
Helper lemmas for M-Pool: association-list maps, the folds inside addTransaction /
RemoveTransaction / addOrphan / removeOrphan / addRely, and the invariant `Inv` with its
preservation by every pool function.
-/
import BytomModel.Model.TxPool

namespace BytomModel.Lemmas.TxPool
open BytomModel.TxPool

/-! ### association lists -/

theorem amGet_amSet {β : Type} (l : List (Nat × β)) (k k' : Nat) (v : β) :
    amGet (amSet l k v) k' = if k' = k then some v else amGet l k' := by
  induction l with
  | nil => simp [amSet, amGet, eq_comm]
  | cons e l ih =>
    obtain ⟨a, b⟩ := e
    unfold amSet
    by_cases h1 : a = k
    · subst h1
      by_cases h2 : k' = a
      · subst h2; simp [amGet]
      · have : ¬ a = k' := fun e => h2 e.symm
        simp [amGet, h2, this]
    · rw [if_neg h1]
      by_cases h4 : a = k'
      · subst h4; simp [amGet, h1]
      · simp [amGet, h4, ih]

theorem amGet_amDel {β : Type} (l : List (Nat × β)) (k k' : Nat) :
    amGet (amDel l k) k' = if k' = k then none else amGet l k' := by
  induction l with
  | nil => simp [amDel, amGet]
  | cons e l ih =>
    obtain ⟨a, b⟩ := e
    unfold amDel
    by_cases h1 : a = k
    · subst h1
      rw [if_pos rfl, ih]
      by_cases h2 : k' = a
      · simp [h2]
      · have : ¬ a = k' := fun e => h2 e.symm
        simp [amGet, h2, this]
    · rw [if_neg h1]
      by_cases h4 : a = k'
      · subst h4; simp [amGet, h1]
      · simp [amGet, h4, ih]

theorem amHas_eq {β : Type} (l : List (Nat × β)) (k : Nat) : amHas l k = (amGet l k).isSome := by
  induction l with
  | nil => rfl
  | cons e l ih =>
    obtain ⟨a, b⟩ := e
    by_cases h : a = k <;> simp [amHas, amGet, h, ih]

theorem mem_amSet {β : Type} (l : List (Nat × β)) (k : Nat) (v : β) (e : Nat × β) :
    e ∈ amSet l k v → e = (k, v) ∨ e ∈ l := by
  induction l with
  | nil => intro h; simp [amSet] at h; exact Or.inl h
  | cons x l ih =>
    obtain ⟨a, b⟩ := x
    unfold amSet
    by_cases h1 : a = k
    · rw [if_pos h1]
      intro h
      rcases List.mem_cons.mp h with h | h
      · exact Or.inl h
      · exact Or.inr (List.mem_cons_of_mem _ h)
    · rw [if_neg h1]
      intro h
      rcases List.mem_cons.mp h with h | h
      · subst h; exact Or.inr (by simp)
      · rcases ih h with h | h
        · exact Or.inl h
        · exact Or.inr (List.mem_cons_of_mem _ h)

theorem amSet_ne_nil {β : Type} (l : List (Nat × β)) (k : Nat) (v : β) : amSet l k v ≠ [] := by
  cases l with
  | nil => simp [amSet]
  | cons x l =>
    obtain ⟨a, b⟩ := x
    unfold amSet
    split <;> simp

theorem mem_amDel {β : Type} (l : List (Nat × β)) (k : Nat) (e : Nat × β) :
    e ∈ amDel l k → e ∈ l ∧ e.1 ≠ k := by
  induction l with
  | nil => intro h; cases h
  | cons x l ih =>
    obtain ⟨a, b⟩ := x
    unfold amDel
    by_cases h1 : a = k
    · rw [if_pos h1]
      intro h
      exact ⟨List.mem_cons_of_mem _ (ih h).1, (ih h).2⟩
    · rw [if_neg h1]
      intro h
      rcases List.mem_cons.mp h with h | h
      · subst h; exact ⟨by simp, h1⟩
      · exact ⟨List.mem_cons_of_mem _ (ih h).1, (ih h).2⟩

theorem amDel_cons {β : Type} (a : Nat) (b : β) (l : List (Nat × β)) (k : Nat) :
    amDel ((a, b) :: l) k = if a = k then amDel l k else (a, b) :: amDel l k := rfl

theorem amDel_idem {β : Type} (l : List (Nat × β)) (k : Nat) : amDel (amDel l k) k = amDel l k := by
  induction l with
  | nil => rfl
  | cons x l ih =>
    obtain ⟨a, b⟩ := x
    rw [amDel_cons]
    by_cases h1 : a = k
    · rw [if_pos h1]; exact ih
    · rw [if_neg h1, amDel_cons, if_neg h1, ih]

theorem foldl_inv {α σ : Type} (P : σ → Prop) (f : σ → α → σ) (l : List α) (init : σ)
    (h0 : P init) (hstep : ∀ a x, x ∈ l → P a → P (f a x)) : P (l.foldl f init) := by
  induction l generalizing init with
  | nil => exact h0
  | cons x xs ih =>
    simp only [List.foldl_cons]
    exact ih _ (hstep init x (by simp) h0) (fun a y hy => hstep a y (List.mem_cons_of_mem _ hy))

/-! ### the folds -/

theorem get_foldSet (id : Nat) (rs : List (Out × Bool)) (u : List (Out × Nat)) (o : Out) :
    amGet (rs.foldl (fun u r => if r.2 then amSet u r.1 id else u) u) o
      = if (o, true) ∈ rs then some id else amGet u o := by
  induction rs generalizing u with
  | nil => simp
  | cons r rs ih =>
    obtain ⟨ro, rf⟩ := r
    simp only [List.foldl_cons]
    rw [ih]
    by_cases h : (o, true) ∈ rs
    · simp [h]
    · cases rf with
      | true =>
        simp only [if_true, h, if_false, List.mem_cons, Prod.mk.injEq, and_true, or_false]
        rw [amGet_amSet]
      | false =>
        simp [h]

theorem get_foldDel (rs : List (Out × Bool)) (u : List (Out × Nat)) (o : Out) :
    amGet (rs.foldl (fun u r => amDel u r.1) u) o
      = if o ∈ rs.map Prod.fst then none else amGet u o := by
  induction rs generalizing u with
  | nil => simp
  | cons r rs ih =>
    simp only [List.foldl_cons]
    rw [ih, amGet_amDel]
    by_cases h : o ∈ rs.map Prod.fst
    · simp [h]
    · by_cases h2 : o = r.1
      · simp [h2]
      · simp [h, h2]

/-! ### universe and invariant -/

/-- ids determine transactions and result ids determine their transaction (and kind) -/
structure WF (U : List Tx) : Prop where
  idInj : ∀ t1 ∈ U, ∀ t2 ∈ U, t1.id = t2.id → t1 = t2
  resOwn : ∀ t1 ∈ U, ∀ t2 ∈ U, ∀ r1 ∈ t1.results, ∀ r2 ∈ t2.results, r1.1 = r2.1 → t1 = t2 ∧ r1 = r2

/-- one index bucket: non-empty, every entry is a registered orphan that spends the bucket's output -/
def GoodBucket (orph : List (Nat × Orphan)) (p : Out) (m : List (Nat × Tx)) : Prop :=
  m ≠ [] ∧ ∀ e ∈ m, p ∈ e.2.spent ∧ ∃ st, amGet orph e.1 = some ⟨e.2, st⟩

structure Inv (U : List Tx) (s : Pool) : Prop where
  poolWF : ∀ t tx, amGet s.pool t = some tx → tx ∈ U ∧ tx.id = t
  utxoSound : ∀ o t, amGet s.utxo o = some t → ∃ tx, amGet s.pool t = some tx ∧ (o, true) ∈ tx.results
  utxoComplete : ∀ t tx, amGet s.pool t = some tx → ∀ o, (o, true) ∈ tx.results → amGet s.utxo o = some t
  orphWF : ∀ id o, amGet s.orphans id = some o → o.tx ∈ U ∧ o.tx.id = id
  index : ∀ p m, amGet s.byPrev p = some m → GoodBucket s.orphans p m

theorem Inv.empty (U : List Tx) : Inv U Pool.empty :=
  ⟨fun _ _ h => by simp [Pool.empty, amGet] at h, fun _ _ h => by simp [Pool.empty, amGet] at h,
   fun _ _ h => by simp [Pool.empty, amGet] at h, fun _ _ h => by simp [Pool.empty, amGet] at h,
   fun _ _ h => by simp [Pool.empty, amGet] at h⟩

theorem inv_addTransaction {U : List Tx} (wf : WF U) (c : Cfg) {s : Pool} (h : Inv U s) {tx : Tx} (htx : tx ∈ U) :
    Inv U (addTransaction c s tx).1 := by
  unfold addTransaction
  split
  · exact h
  · refine ⟨?_, ?_, ?_, h.orphWF, h.index⟩
    · intro t tx' hg
      simp only at hg
      rw [amGet_amSet] at hg
      by_cases e : t = tx.id
      · simp only [e, if_true, Option.some.injEq] at hg
        subst hg; exact ⟨htx, e.symm⟩
      · simp only [e, if_false] at hg
        exact h.poolWF t tx' hg
    · intro o t hg
      simp only at hg ⊢
      rw [get_foldSet] at hg
      by_cases ho : (o, true) ∈ tx.results
      · simp only [ho, if_true, Option.some.injEq] at hg
        subst hg
        exact ⟨tx, by rw [amGet_amSet]; simp, ho⟩
      · simp only [ho, if_false] at hg
        obtain ⟨tx0, hp, hr⟩ := h.utxoSound o t hg
        rw [amGet_amSet]
        by_cases e : t = tx.id
        · have := h.poolWF t tx0 hp
          have : tx0 = tx := wf.idInj tx0 this.1 tx htx (by rw [this.2, e])
          subst this
          exact absurd hr ho
        · exact ⟨tx0, by simp [e, hp], hr⟩
    · intro t tx' hg o ho
      simp only at hg ⊢
      rw [amGet_amSet] at hg
      rw [get_foldSet]
      by_cases e : t = tx.id
      · simp only [e, if_true, Option.some.injEq] at hg
        subst hg
        simp [ho, e]
      · simp only [e, if_false] at hg
        have hw := h.poolWF t tx' hg
        have hno : (o, true) ∉ tx.results := by
          intro hin
          have := (wf.resOwn tx' hw.1 tx htx (o, true) ho (o, true) hin rfl).1
          exact e (by rw [← hw.2, this])
        simp only [hno, if_false]
        exact h.utxoComplete t tx' hg o ho

theorem inv_removeTransaction {U : List Tx} (wf : WF U) {s : Pool} (h : Inv U s) (id : Nat) :
    Inv U (removeTransaction s id) := by
  unfold removeTransaction
  split
  · exact h
  · rename_i tx hp
    have hw := h.poolWF id tx hp
    refine ⟨?_, ?_, ?_, h.orphWF, h.index⟩
    · intro t tx' hg
      simp only at hg
      rw [amGet_amDel] at hg
      by_cases e : t = id
      · simp [e] at hg
      · simp only [e, if_false] at hg
        exact h.poolWF t tx' hg
    · intro o t hg
      simp only at hg ⊢
      rw [get_foldDel] at hg
      by_cases ho : o ∈ tx.results.map Prod.fst
      · simp [ho] at hg
      · simp only [ho, if_false] at hg
        obtain ⟨tx0, hp0, hr⟩ := h.utxoSound o t hg
        rw [amGet_amDel]
        by_cases e : t = id
        · subst e
          rw [hp] at hp0
          cases hp0
          exact absurd (List.mem_map.mpr ⟨(o, true), hr, rfl⟩) ho
        · exact ⟨tx0, by simp [e, hp0], hr⟩
    · intro t tx' hg o ho
      simp only at hg ⊢
      rw [amGet_amDel] at hg
      rw [get_foldDel]
      by_cases e : t = id
      · simp [e] at hg
      · simp only [e, if_false] at hg
        have hw' := h.poolWF t tx' hg
        have hno : o ∉ tx.results.map Prod.fst := by
          intro hin
          obtain ⟨r, hr, hro⟩ := List.mem_map.mp hin
          have := (wf.resOwn tx' hw'.1 tx hw.1 (o, true) ho r hr (by simp [hro])).1
          exact e (by rw [← hw'.2, this, hw.2])
        simp only [hno, if_false]
        exact h.utxoComplete t tx' hg o ho

end BytomModel.Lemmas.TxPool
