/-
C13: the F32 witness as a model history (E = 2, one validator, real maturity parameters:
coinbase outputs mature after 10 blocks).

  b0 ─ b1 ─ b2 ─ b3 ─┬─ b4   passes ValidateBlock, but spends o3, the coinbase output of b3
                     │       (created at height 3, spent at height 4: immature)
                     └─ b5   valid, empty; its hash is lower than b4's

b4 is stored (saveBlock does not look at the utxo set) and, being the highest block, wins the
fork choice; the reorganisation to it fails, so the best block stays b3 and deliver b4 answers
`err`. From then on every delivery asks for the same impossible reorganisation: the valid b5
(same height as b4, lower hash) is stored, answered `err`, and never becomes the best block.
The real node behaves the same way: corpus/node-rules/f32-witnesses.txt.
-/
import BytomModel.Lemmas.C13Complete

namespace BytomModel.Lemmas.C13.Witness
open BytomModel.Node BytomModel.Ledger BytomModel.NodeLedger BytomModel.Lemmas.C13

def g : Header := { id := 0, parent := 4294967295, height := 0, slot := 0, rank := 0, sup := [] }
def hdr (id parent height rank : Nat) : Header :=
  { id := id, parent := parent, height := height, slot := height, rank := rank, sup := [] }
def b1 := hdr 1 0 1 11
def b2 := hdr 2 1 2 12
def b3 := hdr 3 2 3 13
/-- context-invalid: spends the (immature) coinbase output of b3 -/
def b4 := hdr 4 3 4 19
/-- valid sibling of b4 with a lower hash -/
def b5 := hdr 5 3 4 15

/-- breaks a header rule (height 3 on a parent of height 1): used to show that an invalid block
    that arrives BEFORE its parent is dropped when the parent arrives -/
def bx := hdr 6 1 3 16

def mta (ts : Nat) : Meta := { ts := ts, signer := some 0, future := false, bad := false }
def coinbase (tx out amount : Nat) : Tx :=
  { id := tx, ins := [], outs := [{ id := out, kind := .normal, amount := amount }] }

/-- the genesis state with the five blocks defined (not yet delivered) -/
def init : NodeLedger.State :=
  let s := NodeLedger.State.init { epoch := 2, nVal := 1, me := none } {} g []
  { s with
    node := { s.node with defs := [bx, b5, b4, b3, b2, b1, g] },
    metas := [(6, mta 2000), (5, mta 4000), (4, mta 4000), (3, mta 3000), (2, mta 2000), (1, mta 1000),
              (0, { ts := 0, signer := none, future := false, bad := false })],
    blockTxs := [(6, [coinbase 7 7 0]), (5, [coinbase 6 6 0]),
                 (4, [coinbase 4 4 0, { id := 5, ins := [3], outs := [{ id := 5, kind := .normal, amount := 90 }] }]),
                 (3, [coinbase 3 3 100]), (2, [coinbase 2 2 0]), (1, [coinbase 1 1 0]), (0, [])] }

/-- b1, b2, b3, then the context-invalid b4 -/
def history : List Ev := [.deliver b1, .deliver b2, .deliver b3, .deliver b4]

end BytomModel.Lemmas.C13.Witness
