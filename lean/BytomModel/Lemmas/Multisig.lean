/-
The signature/key matching loop of CHECKMULTISIG (`matchSigs`, Model/VM/Ops.lean) is a greedy
subsequence matcher. It answers true exactly when the signatures can be matched, in order,
to a subsequence of the keys — the exchange argument, by induction on the key list.
-/
import BytomModel.Model.VM.Ops
import Mathlib.Data.List.Forall2

namespace BytomModel.Lemmas.Multisig
open BytomModel.VM

/-- `sigs` embed into `keys`: there is a subsequence `ks` of `keys` (order preserved, every key
    used at most once) whose i-th key verifies the i-th signature -/
def Embeds (verify : Bytes → Bytes → Bool) (sigs keys : List Bytes) : Prop :=
  ∃ ks, ks.Sublist keys ∧ List.Forall₂ (fun s k => verify k s = true) sigs ks

theorem embeds_nil (v : Bytes → Bytes → Bool) (keys : List Bytes) : Embeds v [] keys :=
  ⟨[], List.nil_sublist _, List.Forall₂.nil⟩

theorem embeds_cons_nil (v : Bytes → Bytes → Bool) (s : Bytes) (ss : List Bytes) : ¬ Embeds v (s :: ss) [] := by
  rintro ⟨ks, hsub, hf⟩
  have : ks = [] := List.sublist_nil.mp hsub
  subst this
  cases hf

/-- dropping the first key and the signature it would take, or just the key -/
theorem embeds_cons_cons (v : Bytes → Bytes → Bool) (s k : Bytes) (ss ks : List Bytes) :
    Embeds v (s :: ss) (k :: ks) ↔ (v k s = true ∧ Embeds v ss ks) ∨ Embeds v (s :: ss) ks := by
  constructor
  · rintro ⟨l, hsub, hf⟩
    cases hsub with
    | cons _ h => exact Or.inr ⟨l, h, hf⟩
    | cons_cons _ h =>
      cases hf with
      | cons hv hrest => exact Or.inl ⟨hv, _, h, hrest⟩
  · rintro (⟨hv, l, hsub, hf⟩ | ⟨l, hsub, hf⟩)
    · exact ⟨k :: l, hsub.cons_cons k, List.Forall₂.cons hv hf⟩
    · exact ⟨l, hsub.cons k, hf⟩

/-- an embedding of `s :: ss` gives one of `ss` into the same keys -/
theorem embeds_tail (v : Bytes → Bytes → Bool) (s : Bytes) (ss keys : List Bytes)
    (h : Embeds v (s :: ss) keys) : Embeds v ss keys := by
  obtain ⟨l, hsub, hf⟩ := h
  cases hf with
  | @cons _ k _ l' _ hrest => exact ⟨l', (List.sublist_cons_self k l').trans hsub, hrest⟩

/-- **the greedy loop is complete and sound** -/
theorem matchSigs_iff (v : Bytes → Bytes → Bool) : ∀ (keys sigs : List Bytes),
    matchSigs v sigs keys = true ↔ Embeds v sigs keys := by
  intro keys
  induction keys with
  | nil =>
    intro sigs
    cases sigs with
    | nil => simp [matchSigs, embeds_nil]
    | cons s ss => simp [matchSigs, embeds_cons_nil]
  | cons k ks ih =>
    intro sigs
    cases sigs with
    | nil => simp [matchSigs, embeds_nil]
    | cons s ss =>
      rw [embeds_cons_cons]
      by_cases hv : v k s = true
      · simp only [matchSigs, hv, if_true, true_and]
        rw [ih ss]
        constructor
        · exact Or.inl
        · rintro (h | h)
          · exact h
          · exact embeds_tail v s ss ks h     -- exchange: the greedy choice is never worse
      · simp only [matchSigs, hv, if_false, false_and, false_or, Bool.false_eq_true]
        exact ih (s :: ss)

/-- the loop works on the popped lists, i.e. on the reversals of witness order and script
    order; an embedding is invariant under reversing both -/
theorem embeds_reverse (v : Bytes → Bytes → Bool) (sigs keys : List Bytes) :
    Embeds v sigs.reverse keys.reverse ↔ Embeds v sigs keys := by
  constructor
  · rintro ⟨l, hsub, hf⟩
    refine ⟨l.reverse, ?_, ?_⟩
    · have := hsub.reverse
      simpa using this
    · have := List.rel_reverse hf
      simpa using this
  · rintro ⟨l, hsub, hf⟩
    exact ⟨l.reverse, hsub.reverse, List.rel_reverse hf⟩

/-- the number of signatures never exceeds the number of keys in an embedding -/
theorem embeds_length_le (v : Bytes → Bytes → Bool) (sigs keys : List Bytes) (h : Embeds v sigs keys) :
    sigs.length ≤ keys.length := by
  obtain ⟨l, hsub, hf⟩ := h
  rw [hf.length_eq]
  exact hsub.length_le

end BytomModel.Lemmas.Multisig
