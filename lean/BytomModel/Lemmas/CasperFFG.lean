/-
Casper-FFG accountable safety over abstract checkpoints.

The model is deliberately abstract: a checkpoint tree (`Checkpoints`), an arbitrary
(possibly infinite) set of votes cast by a finite validator set, supermajority links
counted in the integer form used by the node (`3 * count > 2 * n`), and the two Casper
slashing conditions.  Main results:

* `quorum_intersection`   : two > 2/3 quorums intersect in > 1/3 of all validators;
* `accountable_safety`    : two conflicting finalized checkpoints imply that more than one
                            third of all validators are slashable;
* `no_conflicting_finalized` : contrapositive form used as the safety statement;
* `accountable_safety_needs_ancestry` : the ancestry side condition on supermajority links
                            is necessary (concrete counterexample without it).
-/
import Mathlib.Data.Fintype.Card
import Mathlib.Data.Finset.Card
import Mathlib.Logic.Function.Iterate
import Mathlib.Tactic.ByContra

namespace BytomModel.Lemmas.CasperFFG

variable {V C : Type}

/-- a block tree seen at checkpoint granularity: every non-genesis checkpoint has a parent
one epoch lower -/
structure Checkpoints (C : Type) where
  parent : C → C
  height : C → Nat            -- in epochs
  genesis : C
  height_genesis : height genesis = 0
  height_parent : ∀ c, c ≠ genesis → height c = height (parent c) + 1

/-- `a` is `b` or an ancestor of `b` -/
def Checkpoints.anc (K : Checkpoints C) (a b : C) : Prop := ∃ n, K.parent^[n] b = a

def Checkpoints.conflicting (K : Checkpoints C) (a b : C) : Prop := ¬ K.anc a b ∧ ¬ K.anc b a

structure Vote (V C : Type) where
  validator : V
  source : C
  target : C

open Classical in
/-- validators that signed the link s → t -/
noncomputable def voters [Fintype V] (votes : Set (Vote V C)) (s t : C) : Finset V :=
  Finset.univ.filter (fun v => (⟨v, s, t⟩ : Vote V C) ∈ votes)

/-- more than 2/3 of ALL validators (integer form used by the node: 3·count > 2·n) -/
def superLink [Fintype V] (votes : Set (Vote V C)) (s t : C) : Prop :=
  3 * (voters votes s t).card > 2 * Fintype.card V

/-- justified: genesis, or the target of a supermajority link from a justified proper
ancestor -/
inductive Justified [Fintype V] (K : Checkpoints C) (votes : Set (Vote V C)) : C → Prop
  | genesis : Justified K votes K.genesis
  | link {s t : C} : Justified K votes s → K.anc s t → K.height s < K.height t →
      superLink votes s t → Justified K votes t

/-- finalized: justified and a DIRECT child is justified by a supermajority link from it -/
def Finalized [Fintype V] (K : Checkpoints C) (votes : Set (Vote V C)) (c : C) : Prop :=
  Justified K votes c ∧ ∃ c', c' ≠ K.genesis ∧ K.parent c' = c ∧ superLink votes c c'

/-- the two Casper commandments: validator v cast two votes that are slashable together -/
def Slashable (K : Checkpoints C) (votes : Set (Vote V C)) (v : V) : Prop :=
  ∃ s1 t1 s2 t2, (⟨v, s1, t1⟩ : Vote V C) ∈ votes ∧ (⟨v, s2, t2⟩ : Vote V C) ∈ votes ∧
    ((t1 ≠ t2 ∧ K.height t1 = K.height t2) ∨
      (K.height s1 < K.height s2 ∧ K.height t2 < K.height t1))

/-! ### ancestry -/

theorem Checkpoints.anc_refl (K : Checkpoints C) (a : C) : K.anc a a := ⟨0, rfl⟩

theorem Checkpoints.anc_trans (K : Checkpoints C) {a b c : C}
    (hab : K.anc a b) (hbc : K.anc b c) : K.anc a c := by
  obtain ⟨n, hn⟩ := hab
  obtain ⟨m, hm⟩ := hbc
  exact ⟨n + m, by rw [Function.iterate_add_apply, hm, hn]⟩

theorem Checkpoints.anc_parent (K : Checkpoints C) {a c : C} (h : K.parent c = a) :
    K.anc a c := ⟨1, h⟩

/-! ### quorums -/

theorem quorum_intersection [Fintype V] [DecidableEq V] (A B : Finset V)
    (hA : 3 * A.card > 2 * Fintype.card V) (hB : 3 * B.card > 2 * Fintype.card V) :
    3 * (A ∩ B).card > Fintype.card V := by
  have h1 := Finset.card_union_add_card_inter A B
  have h2 := Finset.card_le_univ (A ∪ B)
  omega

open Classical in
theorem mem_voters [Fintype V] (votes : Set (Vote V C)) (s t : C) (v : V) :
    v ∈ voters votes s t ↔ (⟨v, s, t⟩ : Vote V C) ∈ votes := by
  unfold voters
  rw [Finset.mem_filter]
  exact ⟨fun h => h.2, fun h => ⟨Finset.mem_univ v, h⟩⟩

open Classical in
/-- two supermajority links that are slashable together make more than a third of the
validators slashable -/
theorem two_links [Fintype V] (K : Checkpoints C) (votes : Set (Vote V C)) {s1 t1 s2 t2 : C}
    (h1 : superLink votes s1 t1) (h2 : superLink votes s2 t2)
    (h : (t1 ≠ t2 ∧ K.height t1 = K.height t2) ∨
      (K.height s1 < K.height s2 ∧ K.height t2 < K.height t1)) :
    3 * (Finset.univ.filter (Slashable K votes)).card > Fintype.card V := by
  have hq := quorum_intersection (voters votes s1 t1) (voters votes s2 t2) h1 h2
  have hsub : voters votes s1 t1 ∩ voters votes s2 t2 ⊆
      Finset.univ.filter (Slashable K votes) := by
    intro v hv
    rw [Finset.mem_inter, mem_voters, mem_voters] at hv
    rw [Finset.mem_filter]
    exact ⟨Finset.mem_univ v, s1, t1, s2, t2, hv.1, hv.2, h⟩
  have hle := Finset.card_le_card hsub
  omega

/-! ### justified checkpoints -/

theorem Justified.eq_genesis_of_height_zero [Fintype V] {K : Checkpoints C}
    {votes : Set (Vote V C)} {x : C} (hx : Justified K votes x) (h0 : K.height x = 0) :
    x = K.genesis := by
  cases hx with
  | genesis => rfl
  | link _ _ hlt _ => omega

open Classical in
/-- two distinct justified checkpoints of equal height: > 1/3 violate the same-height rule -/
theorem Justified.same_height [Fintype V] {K : Checkpoints C} {votes : Set (Vote V C)}
    {x y : C} (hx : Justified K votes x) (hy : Justified K votes y)
    (hne : x ≠ y) (hh : K.height x = K.height y) :
    3 * (Finset.univ.filter (Slashable K votes)).card > Fintype.card V := by
  cases hx with
  | genesis =>
    have := hy.eq_genesis_of_height_zero (by rw [← hh, K.height_genesis])
    exact absurd this.symm hne
  | link hs1 _ hlt1 hl1 =>
    cases hy with
    | genesis =>
      rw [K.height_genesis] at hh
      omega
    | link hs2 _ hlt2 hl2 =>
      exact two_links K votes hl1 hl2 (Or.inl ⟨hne, hh⟩)

open Classical in
/-- core of the Casper FFG safety argument: above a finalized checkpoint `a`, every justified
checkpoint descends from `a`, unless more than a third of the validators are slashable -/
theorem Justified.anc_of_finalized [Fintype V] {K : Checkpoints C} {votes : Set (Vote V C)}
    {a : C} (ha : Finalized K votes a) {x : C} (hx : Justified K votes x)
    (hle : K.height a ≤ K.height x) :
    K.anc a x ∨ 3 * (Finset.univ.filter (Slashable K votes)).card > Fintype.card V := by
  obtain ⟨hja, a', ha'g, ha'p, ha'l⟩ := ha
  have hha' : K.height a' = K.height a + 1 := by
    rw [K.height_parent a' ha'g, ha'p]
  have hanc' : K.anc a a' := K.anc_parent ha'p
  have hja' : Justified K votes a' := Justified.link hja hanc' (by omega) ha'l
  induction hx with
  | genesis =>
    left
    rw [K.height_genesis] at hle
    have : a = K.genesis := hja.eq_genesis_of_height_zero (by omega)
    rw [this]
    exact K.anc_refl _
  | @link s x hs hsx hlt hl ih =>
    by_cases h : K.height a ≤ K.height s
    · rcases ih h with h1 | h1
      · exact Or.inl (K.anc_trans h1 hsx)
      · exact Or.inr h1
    · have hjx : Justified K votes x := Justified.link hs hsx hlt hl
      by_cases hxa : x = a
      · left; rw [hxa]; exact K.anc_refl _
      · by_cases hxa' : x = a'
        · left; rw [hxa']; exact hanc'
        · right
          by_cases e1 : K.height x = K.height a
          · exact hjx.same_height hja hxa e1
          · by_cases e2 : K.height x = K.height a'
            · exact hjx.same_height hja' hxa' e2
            · exact two_links K votes hl ha'l (Or.inr ⟨by omega, by omega⟩)

open Classical in
/-- **Accountable safety** (Casper FFG, Theorem 1): two conflicting finalized checkpoints
imply that strictly more than one third of all validators are slashable. -/
theorem accountable_safety [Fintype V] (K : Checkpoints C) (votes : Set (Vote V C)) {a b : C}
    (ha : Finalized K votes a) (hb : Finalized K votes b) (hc : K.conflicting a b) :
    3 * (Finset.univ.filter (Slashable K votes)).card > Fintype.card V := by
  rcases Nat.le_total (K.height a) (K.height b) with h | h
  · rcases Justified.anc_of_finalized ha hb.1 h with h1 | h1
    · exact absurd h1 hc.1
    · exact h1
  · rcases Justified.anc_of_finalized hb ha.1 h with h1 | h1
    · exact absurd h1 hc.2
    · exact h1

open Classical in
/-- if at most one third of the validators are slashable, finalized checkpoints lie on one
chain -/
theorem no_conflicting_finalized [Fintype V] (K : Checkpoints C) (votes : Set (Vote V C))
    {a b : C} (hs : 3 * (Finset.univ.filter (Slashable K votes)).card ≤ Fintype.card V)
    (ha : Finalized K votes a) (hb : Finalized K votes b) : K.anc a b ∨ K.anc b a := by
  by_contra hcon
  have hc : K.conflicting a b := ⟨fun h => hcon (Or.inl h), fun h => hcon (Or.inr h)⟩
  have := accountable_safety K votes ha hb hc
  omega

/-! ### the ancestry premise of `Justified.link` is necessary -/

/-- `Justified` WITHOUT the ancestry side condition on the link -/
inductive JustifiedNoAnc [Fintype V] (K : Checkpoints C) (votes : Set (Vote V C)) : C → Prop
  | genesis : JustifiedNoAnc K votes K.genesis
  | link {s t : C} : JustifiedNoAnc K votes s → K.height s < K.height t →
      superLink votes s t → JustifiedNoAnc K votes t

def FinalizedNoAnc [Fintype V] (K : Checkpoints C) (votes : Set (Vote V C)) (c : C) : Prop :=
  JustifiedNoAnc K votes c ∧ ∃ c', c' ≠ K.genesis ∧ K.parent c' = c ∧ superLink votes c c'

/-- if every validator signed `s → t` (and there is at least one validator) the link is a
supermajority link -/
theorem superLink_of_all [Fintype V] [Nonempty V] (votes : Set (Vote V C)) (s t : C)
    (h : ∀ v, (⟨v, s, t⟩ : Vote V C) ∈ votes) : superLink votes s t := by
  have huniv : voters votes s t = Finset.univ := by
    ext v
    rw [mem_voters]
    exact ⟨fun _ => Finset.mem_univ v, fun _ => h v⟩
  have hpos : 0 < Fintype.card V := Fintype.card_pos
  unfold superLink
  rw [huniv, Finset.card_univ]
  omega

/-- a property closed under `parent` holds for all ancestors -/
theorem Checkpoints.anc_invariant (K : Checkpoints C) (P : C → Prop)
    (hP : ∀ c, P c → P (K.parent c)) {a b : C} (hb : P b) (h : K.anc a b) : P a := by
  obtain ⟨n, rfl⟩ := h
  induction n with
  | zero => exact hb
  | succ n ih =>
    rw [Function.iterate_succ_apply']
    exact hP _ ih

namespace Counterexample

/-- g=0; a1=1, a2=2 on one branch; b1=3, b2=4, b3=5, b4=6 on the other branch -/
def parent (i : Fin 7) : Fin 7 :=
  match i.val with
  | 0 => 0 | 1 => 0 | 2 => 1 | 3 => 0 | 4 => 3 | 5 => 4 | _ => 5

def height (i : Fin 7) : Nat :=
  match i.val with
  | 0 => 0 | 1 => 1 | 2 => 2 | 3 => 1 | 4 => 2 | 5 => 3 | _ => 4

def K : Checkpoints (Fin 7) where
  parent := parent
  height := height
  genesis := 0
  height_genesis := rfl
  height_parent := by decide

/-- the links signed by the single validator: g→a1, a1→a2, a2→b3 (cross-branch), b3→b4 -/
def link (s t : Fin 7) : Bool :=
  decide ((s.val, t.val) ∈ [(0, 1), (1, 2), (2, 5), (5, 6)])

def votes : Set (Vote (Fin 1) (Fin 7)) := {x | link x.source x.target = true}

theorem superLink_of_link {s t : Fin 7} (h : link s t = true) : superLink votes s t :=
  superLink_of_all votes s t (fun _ => h)

theorem just1 : JustifiedNoAnc K votes 1 :=
  JustifiedNoAnc.link (s := 0) JustifiedNoAnc.genesis (by decide) (superLink_of_link (by decide))

theorem just2 : JustifiedNoAnc K votes 2 :=
  JustifiedNoAnc.link just1 (by decide) (superLink_of_link (by decide))

theorem just5 : JustifiedNoAnc K votes 5 :=
  JustifiedNoAnc.link just2 (by decide) (superLink_of_link (by decide))

theorem fin1 : FinalizedNoAnc K votes 1 :=
  ⟨just1, 2, by decide, by decide, superLink_of_link (by decide)⟩

theorem fin5 : FinalizedNoAnc K votes 5 :=
  ⟨just5, 6, by decide, by decide, superLink_of_link (by decide)⟩

theorem conflicting_1_5 : K.conflicting 1 5 := by
  constructor
  · intro h
    have := K.anc_invariant (fun c => c ≠ 1 ∧ c ≠ 2 ∧ c ≠ 6) (by decide) (b := 5)
      (by decide) h
    exact this.1 rfl
  · intro h
    have := K.anc_invariant (fun c => c = 0 ∨ c = 1) (by decide) (b := 1) (by decide) h
    exact absurd this (by decide)

theorem not_slashable (v : Fin 1) : ¬ Slashable K votes v := by
  rintro ⟨s1, t1, s2, t2, h1, h2, h⟩
  have key : ∀ s1 t1 s2 t2 : Fin 7, link s1 t1 = true → link s2 t2 = true →
      ¬ ((t1 ≠ t2 ∧ height t1 = height t2) ∨
        (height s1 < height s2 ∧ height t2 < height t1)) := by decide
  exact key s1 t1 s2 t2 h1 h2 h

end Counterexample

/-- Without the ancestry premise accountable safety FAILS: a single validator that never
violates a commandment finalizes two conflicting checkpoints (through the cross-branch link
a2 → b3). -/
theorem accountable_safety_needs_ancestry :
    ∃ (K : Checkpoints (Fin 7)) (votes : Set (Vote (Fin 1) (Fin 7))) (a b : Fin 7),
      FinalizedNoAnc K votes a ∧ FinalizedNoAnc K votes b ∧ K.conflicting a b ∧
        ∀ v, ¬ Slashable K votes v :=
  ⟨Counterexample.K, Counterexample.votes, 1, 5, Counterexample.fin1, Counterexample.fin5,
    Counterexample.conflicting_1_5, Counterexample.not_slashable⟩

/-! ### non-vacuity -/

namespace Examples

/-- chain g=0 → c1=1 → c2=2 -/
def chain : Checkpoints (Fin 3) where
  parent := fun i => match i.val with | 0 => 0 | 1 => 0 | _ => 1
  height := fun i => i.val
  genesis := 0
  height_genesis := rfl
  height_parent := by decide

def chainLink (s t : Fin 3) : Bool := decide ((s.val, t.val) ∈ [(0, 1), (1, 2)])

def chainVotes : Set (Vote (Fin 1) (Fin 3)) := {x | chainLink x.source x.target = true}

/-- `Finalized` is inhabited: c1 is finalized by g → c1, c1 → c2 -/
example : Finalized chain chainVotes 1 := by
  have l01 : superLink chainVotes (0 : Fin 3) 1 :=
    superLink_of_all _ _ _ (fun _ => (by decide : chainLink 0 1 = true))
  have l12 : superLink chainVotes (1 : Fin 3) 2 :=
    superLink_of_all _ _ _ (fun _ => (by decide : chainLink 1 2 = true))
  refine ⟨Justified.link (s := 0) Justified.genesis ⟨1, by decide⟩ (by decide) l01, 2,
    by decide, by decide, l12⟩

/-- fork g=0 with two children 1 and 2 of height 1 -/
def fork : Checkpoints (Fin 3) where
  parent := fun _ => 0
  height := fun i => match i.val with | 0 => 0 | _ => 1
  genesis := 0
  height_genesis := rfl
  height_parent := by decide

def forkLink (s t : Fin 3) : Bool := decide ((s.val, t.val) ∈ [(0, 1), (0, 2)])

def forkVotes : Set (Vote (Fin 1) (Fin 3)) := {x | forkLink x.source x.target = true}

/-- a `Slashable` validator: votes g → 1 and g → 2, distinct targets of equal height -/
example : Slashable fork forkVotes (0 : Fin 1) :=
  ⟨0, 1, 0, 2, (by decide : forkLink 0 1 = true), (by decide : forkLink 0 2 = true),
    Or.inl ⟨by decide, by decide⟩⟩

end Examples

end BytomModel.Lemmas.CasperFFG
