/-
The value memory and the Go-slice heap (for every growth function) satisfy the memory laws
used by the gas theorems, so all of C07 holds for both instances of the VM model.
-/
import BytomModel.Model.VM.Heap
import BytomModel.Lemmas.VMMem
import Mathlib.Tactic.Linarith
namespace BytomModel.VM

theorem heapMem_laws (grow : Nat → Nat → Nat) : MemLaws (heapMem grow) where
  len_fresh := by intro m b e; rfl
  read_length_le := by
    intro m a
    show (Heap.read m a).length ≤ a.len
    unfold Heap.read
    simp [List.length_take]

theorem valueMem_laws : MemLaws valueMem where
  len_fresh := by intro m b e; rfl
  read_length_le := by intro m a; exact le_refl _

/-- `append` adds exactly the appended bytes to the length, in place or not -/
theorem heapAppend_len (grow : Nat → Nat → Nat) (h : Heap) (a : Slice) (b : Bytes) :
    (heapAppend grow h a b).2.len = a.len + b.length := by
  unfold heapAppend
  split
  · rename_i hb
    have : b = [] := by simpa using hb
    simp [this]
  · split <;> rfl

theorem heapMemF_laws (grow : Nat → Nat → Nat) : MemLaws (heapMemF grow) where
  len_fresh := by intro m b e; rfl
  read_length_le := by
    intro m a
    show (Heap.read m.heap a).length ≤ a.len
    unfold Heap.read
    simp [List.length_take]

/-- `q` extends `p`: unless an in-place append happened, no array that existed in `p` has
    changed or moved, and none happened before either -/
def HeapExt (p q : FHeap) : Prop :=
  q.inPlace = false → p.inPlace = false ∧ ∃ ext, q.heap.arrays.toList = p.heap.arrays.toList ++ ext

theorem heapExt_rel (grow : Nat → Nat → Nat) : MemRel (heapMemF grow) HeapExt where
  refl := by intro m h; exact ⟨h, [], by simp⟩
  trans := by
    intro a b c hab hbc hc
    obtain ⟨hb, e2, h2⟩ := hbc hc
    obtain ⟨ha, e1, h1⟩ := hab hb
    exact ⟨ha, e1 ++ e2, by rw [h2, h1, List.append_assoc]⟩
  fresh := by
    intro m b e h
    refine ⟨h, [b ++ List.replicate e 0], ?_⟩
    show (m.heap.arrays.push _).toList = _
    simp
  append := by
    intro m a b h
    have h' : (m.inPlace || appendsInPlace a b) = false := h
    simp only [Bool.or_eq_false_iff] at h'
    refine ⟨h'.1, ?_⟩
    show ∃ ext, (heapAppend grow m.heap a b).1.arrays.toList = m.heap.arrays.toList ++ ext
    unfold heapAppend
    split
    · exact ⟨[], by simp⟩
    · rename_i hb
      split
      · rename_i hc
        exfalso
        have : appendsInPlace a b = true := by
          unfold appendsInPlace
          simp [hc]
          simpa using hb
        rw [this] at h'
        exact absurd h'.2 (by simp)
      · exact ⟨[m.heap.read a ++ b ++
            List.replicate (max (grow a.cap (a.len + b.length)) (a.len + b.length) - (a.len + b.length)) 0],
          by show (m.heap.arrays.push _).toList = _; simp⟩

/-- arrays that existed before are read unchanged through an extension -/
theorem HeapExt_getArr (p q : FHeap) (h : HeapExt p q) (hq : q.inPlace = false) (i : Nat)
    (hi : i < p.heap.arrays.size) : q.heap.getArr i = p.heap.getArr i := by
  obtain ⟨_, ext, he⟩ := h hq
  unfold Heap.getArr
  have e1 : q.heap.arrays.getD i [] = (q.heap.arrays.toList[i]?).getD [] := by
    rw [Array.getD_eq_getD_getElem?, Array.getElem?_toList]
  have e2 : p.heap.arrays.getD i [] = (p.heap.arrays.toList[i]?).getD [] := by
    rw [Array.getD_eq_getD_getElem?, Array.getElem?_toList]
  rw [e1, e2, he, List.getElem?_append_left (by simpa using hi)]

end BytomModel.VM
