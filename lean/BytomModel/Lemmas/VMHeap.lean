/-
The value memory and the Go-slice heap (for every growth function) satisfy the memory laws
used by the gas theorems, so all of C07 holds for both instances of the VM model.
-/
import BytomModel.Model.VM.Heap
import Mathlib.Tactic.Linarith
namespace BytomModel.VM

theorem heapMem_laws (grow : Nat → Nat → Nat) : MemLaws (heapMem grow) where
  len_fresh := by intro m b e; rfl
  read_length_le := by
    intro m a
    show (Heap.read m a).length ≤ a.len
    unfold Heap.read
    simp [List.length_take]

theorem valueMem_laws : MemLaws valueMem where
  len_fresh := by intro m b e; rfl
  read_length_le := by intro m a; exact le_refl _

/-- `append` adds exactly the appended bytes to the length, in place or not -/
theorem heapAppend_len (grow : Nat → Nat → Nat) (h : Heap) (a : Slice) (b : Bytes) :
    (heapAppend grow h a b).2.len = a.len + b.length := by
  unfold heapAppend
  split
  · rename_i hb
    have : b = [] := by simpa using hb
    simp [this]
  · split <;> rfl

end BytomModel.VM
