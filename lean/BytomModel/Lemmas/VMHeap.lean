/-
The value memory and the Go-slice heap (for every growth function) satisfy the memory laws
used by the gas theorems, so all of C07 holds for both instances of the VM model.
-/
import BytomModel.Model.VM.Heap
import BytomModel.Lemmas.VMMem
import Mathlib.Tactic.Linarith
namespace BytomModel.VM

theorem heapMem_laws (grow : Nat → Nat → Nat) : MemLaws (heapMem grow) where
  len_fresh := by intro m b e; rfl
  read_length_le := by
    intro m a
    show (Heap.read m a).length ≤ a.len
    unfold Heap.read
    simp [List.length_take]

theorem valueMem_laws : MemLaws valueMem where
  len_fresh := by intro m b e; rfl
  read_length_le := by intro m a; exact le_refl _

/-- `append` adds exactly the appended bytes to the length, in place or not -/
theorem heapAppend_len (grow : Nat → Nat → Nat) (h : Heap) (a : Slice) (b : Bytes) :
    (heapAppend grow h a b).2.len = a.len + b.length := by
  unfold heapAppend
  split
  · rename_i hb
    have : b = [] := by simpa using hb
    simp [this]
  · split <;> rfl

theorem heapMemF_laws (grow : Nat → Nat → Nat) : MemLaws (heapMemF grow) where
  len_fresh := by intro m b e; rfl
  read_length_le := by
    intro m a
    show (Heap.read m.heap a).length ≤ a.len
    unfold Heap.read
    simp [List.length_take]

/-- `h'` extends `h`: every array of `h` is still there, unchanged, at the same index -/
def HeapPrefix (h h' : Heap) : Prop := ∃ ext, h'.arrays.toList = h.arrays.toList ++ ext

theorem HeapPrefix.refl (h : Heap) : HeapPrefix h h := ⟨[], by simp⟩
theorem HeapPrefix.trans {a b c : Heap} (h1 : HeapPrefix a b) (h2 : HeapPrefix b c) : HeapPrefix a c := by
  obtain ⟨e1, h1⟩ := h1
  obtain ⟨e2, h2⟩ := h2
  exact ⟨e1 ++ e2, by rw [h2, h1, List.append_assoc]⟩
theorem HeapPrefix.fresh (h : Heap) (b : Bytes) (e : Nat) : HeapPrefix h (heapFresh h b e).1 :=
  ⟨[b ++ List.replicate e 0], by show (h.arrays.push _).toList = _; simp⟩

theorem HeapPrefix.size_le {h h' : Heap} (hp : HeapPrefix h h') : h.arrays.size ≤ h'.arrays.size := by
  obtain ⟨ext, he⟩ := hp
  have : h'.arrays.toList.length = h.arrays.toList.length + ext.length := by rw [he]; simp
  simp at this; omega

/-- arrays that existed before are read unchanged through an extension -/
theorem HeapPrefix.getArr {h h' : Heap} (hp : HeapPrefix h h') (i : Nat) (hi : i < h.arrays.size) :
    h'.getArr i = h.getArr i := by
  obtain ⟨ext, he⟩ := hp
  unfold Heap.getArr
  have e1 : h'.arrays.getD i [] = (h'.arrays.toList[i]?).getD [] := by
    rw [Array.getD_eq_getD_getElem?, Array.getElem?_toList]
  have e2 : h.arrays.getD i [] = (h.arrays.toList[i]?).getD [] := by
    rw [Array.getD_eq_getD_getElem?, Array.getElem?_toList]
  rw [e1, e2, he, List.getElem?_append_left (by simpa using hi)]

/-- the heap instance of the VM only ever extends the heap -/
theorem heapPrefix_rel (grow : Nat → Nat → Nat) : MemRel (heapMem grow) HeapPrefix where
  refl := HeapPrefix.refl
  trans := fun _ _ _ h1 h2 => h1.trans h2
  fresh := fun m b e => HeapPrefix.fresh m b e

/-- … and on the flagged instance the in-place flag never changes -/
def FlagRel (p q : FHeap) : Prop := q.inPlace = p.inPlace ∧ HeapPrefix p.heap q.heap

theorem flagRel_rel (grow : Nat → Nat → Nat) : MemRel (heapMemF grow) FlagRel where
  refl := fun m => ⟨rfl, HeapPrefix.refl _⟩
  trans := fun _ _ _ h1 h2 => ⟨h2.1.trans h1.1, h1.2.trans h2.2⟩
  fresh := fun m b e => ⟨rfl, HeapPrefix.fresh m.heap b e⟩

end BytomModel.VM
