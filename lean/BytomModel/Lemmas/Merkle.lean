/-
Lemmas about the merkle model: `prevPowerOfTwo` bounds, the tree built from a list
(`Built`), equations of the validator's recursion, the run of a generated proof.
-/
import BytomModel.Model.Merkle
import Mathlib.Tactic.Linarith

namespace BytomModel.Lemmas.Merkle
open BytomModel.Merkle

variable {ι α : Type}

/-! ### prevPowerOfTwo -/

theorem two_pow_and_pred (k : Nat) : 2 ^ k &&& (2 ^ k - 1) = 0 := by
  rw [Nat.and_two_pow_sub_one_eq_mod]; exact Nat.mod_self _

theorem prevPowerOfTwo_pos {n : Nat} (h : 2 ≤ n) : 0 < prevPowerOfTwo n := by
  unfold prevPowerOfTwo
  split
  · omega
  · exact Nat.two_pow_pos _

theorem prevPowerOfTwo_lt {n : Nat} (h : 2 ≤ n) : prevPowerOfTwo n < n := by
  unfold prevPowerOfTwo
  split
  · omega
  · rename_i hne
    have h1 : 2 ^ Nat.log2 n ≤ n := Nat.log2_self_le (by omega)
    rcases Nat.lt_or_ge (2 ^ Nat.log2 n) n with h2 | h2
    · exact h2
    · have : 2 ^ Nat.log2 n = n := Nat.le_antisymm h1 h2
      exfalso; apply hne; rw [← this]; exact two_pow_and_pred _

/-! ### hash assumptions and the tree of a list -/

/-- what the theorems assume about the hash functions (collision freedom and the
    0x00 / 0x01 domain separation; the empty-string hash is neither) -/
structure GoodHash (H : HashFns ι α) : Prop where
  leaf_inj : ∀ x y, H.leafH x = H.leafH y → x = y
  node_inj : ∀ a b c d, H.nodeH a b = H.nodeH c d → a = c ∧ b = d
  leaf_ne_node : ∀ x a b, H.leafH x ≠ H.nodeH a b
  empty_ne_leaf : ∀ x, H.emptyH ≠ H.leafH x
  empty_ne_node : ∀ a b, H.emptyH ≠ H.nodeH a b

/-- `Built H t l`: `t` is a merkle tree over the id list `l` (any split points). -/
inductive Built (H : HashFns ι α) : MTree α → List ι → Prop
  | leaf (x : ι) : Built H (.leaf (H.leafH x)) [x]
  | node {L R : MTree α} {l1 l2 : List ι} : Built H L l1 → Built H R l2 →
      Built H (.node (H.nodeH L.hash R.hash) L R) (l1 ++ l2)

theorem Built.leaves_eq {H : HashFns ι α} {t : MTree α} {l : List ι} (h : Built H t l) :
    t.leaves = l.map H.leafH := by
  induction h with
  | leaf x => rfl
  | node _ _ ih1 ih2 => simp [MTree.leaves, ih1, ih2]

theorem Built.ne_nil {H : HashFns ι α} {t : MTree α} {l : List ι} (h : Built H t l) : l ≠ [] := by
  induction h with
  | leaf x => simp
  | node _ _ ih1 _ => simp [ih1]

theorem Built.hash_ne_empty {H : HashFns ι α} (G : GoodHash H) {t : MTree α} {l : List ι}
    (h : Built H t l) : H.emptyH ≠ t.hash := by
  cases h with
  | leaf x => exact G.empty_ne_leaf x
  | node _ _ => exact G.empty_ne_node _ _

/-- with fuel ≥ length, `buildF` returns a tree over the list and `merkleRootF` its hash -/
theorem buildF_built (H : HashFns ι α) : ∀ (f : Nat) (l : List ι), l.length ≤ f → l ≠ [] →
    ∃ t, buildF H f l = some t ∧ Built H t l ∧ merkleRootF H f l = t.hash := by
  intro f
  induction f with
  | zero =>
    intro l hl hne
    cases l with
    | nil => exact absurd rfl hne
    | cons a r => simp at hl
  | succ f ih =>
    intro l hl hne
    match l, hl, hne with
    | [], _, hne => exact absurd rfl hne
    | [x], _, _ => exact ⟨_, rfl, Built.leaf x, rfl⟩
    | x :: y :: r, hl, _ =>
      have h2 : 2 ≤ (x :: y :: r).length := by simp
      have hpos := prevPowerOfTwo_pos h2
      have hlt := prevPowerOfTwo_lt h2
      generalize hk : prevPowerOfTwo (x :: y :: r).length = k at hpos hlt
      have hlen : (x :: y :: r).length = r.length + 2 := by simp
      obtain ⟨tl, hbl, hBl, hml⟩ := ih ((x :: y :: r).take k)
        (by rw [List.length_take]; omega)
        (by intro h; have := congrArg List.length h; rw [List.length_take] at this; simp at this; omega)
      obtain ⟨tr, hbr, hBr, hmr⟩ := ih ((x :: y :: r).drop k)
        (by rw [List.length_drop]; omega)
        (by intro h; have := congrArg List.length h; rw [List.length_drop] at this; simp at this; omega)
      refine ⟨.node (H.nodeH tl.hash tr.hash) tl tr, ?_, ?_, ?_⟩
      · simp only [buildF, hk, hbl, hbr]
      · have := Built.node hBl hBr
        rwa [List.take_append_drop] at this
      · simp only [merkleRootF, hk, hml, hmr, MTree.hash]

theorem build_built (H : HashFns ι α) (l : List ι) (hne : l ≠ []) :
    ∃ t, build H l = some t ∧ Built H t l ∧ merkleRoot H l = t.hash :=
  buildF_built H l.length l (Nat.le_refl _) hne

theorem build_nil (H : HashFns ι α) : build H ([] : List ι) = none := rfl
theorem merkleRoot_nil (H : HashFns ι α) : merkleRoot H ([] : List ι) = H.emptyH := rfl

/-! ### equations of the validator's recursion -/

section run
variable [DecidableEq α] (H : HashFns ι α)

theorem run_zero (hs : List α) (fs : List Nat) (ms : List α) :
    rootByProofF H 0 hs fs ms = ⟨H.emptyH, hs, fs, ms⟩ := rfl

theorem run_nil_flags (n : Nat) (hs ms : List α) :
    rootByProofF H n hs [] ms = ⟨H.emptyH, hs, [], ms⟩ := by
  cases n <;> rfl

theorem run_nil_hashes (n : Nat) (fs : List Nat) (ms : List α) :
    rootByProofF H n [] fs ms = ⟨H.emptyH, [], fs, ms⟩ := by
  cases n with
  | zero => rfl
  | succ n => cases fs <;> rfl

theorem run_assist (n : Nat) (h : α) (hs : List α) (fs : List Nat) (ms : List α) :
    rootByProofF H (n + 1) (h :: hs) (flagAssist :: fs) ms = ⟨h, hs, fs, ms⟩ := by
  simp [rootByProofF]

theorem run_leaf_nil (n : Nat) (h : α) (hs : List α) (fs : List Nat) :
    rootByProofF H (n + 1) (h :: hs) (flagTxLeaf :: fs) [] = ⟨H.emptyH, h :: hs, fs, []⟩ := by
  simp [rootByProofF, flagTxLeaf, flagAssist]

theorem run_leaf_hit (n : Nat) (h : α) (hs : List α) (fs : List Nat) (ms : List α) :
    rootByProofF H (n + 1) (h :: hs) (flagTxLeaf :: fs) (h :: ms) = ⟨h, hs, fs, ms⟩ := by
  simp [rootByProofF, flagTxLeaf, flagAssist]

theorem run_leaf_miss (n : Nat) (h m : α) (hne : h ≠ m) (hs : List α) (fs : List Nat) (ms : List α) :
    rootByProofF H (n + 1) (h :: hs) (flagTxLeaf :: fs) (m :: ms) = ⟨H.emptyH, h :: hs, fs, m :: ms⟩ := by
  simp [rootByProofF, flagTxLeaf, flagAssist, hne]

theorem run_parent (n : Nat) (h : α) (hs : List α) (fs : List Nat) (ms : List α) :
    rootByProofF H (n + 1) (h :: hs) (flagTxParent :: fs) ms =
      (let a := rootByProofF H n (h :: hs) fs ms
       let b := rootByProofF H n a.hs a.fs a.ms
       ⟨H.nodeH a.hash b.hash, b.hs, b.fs, b.ms⟩) := by
  simp [rootByProofF, flagTxLeaf, flagAssist, flagTxParent]

theorem run_other (n : Nat) (f : Nat) (hf : 3 ≤ f) (h : α) (hs : List α) (fs : List Nat) (ms : List α) :
    rootByProofF H (n + 1) (h :: hs) (f :: fs) ms = ⟨H.emptyH, h :: hs, fs, ms⟩ := by
  have h0 : f ≠ 0 := by omega
  have h1 : f ≠ 1 := by omega
  have h2 : f ≠ 2 := by omega
  simp [rootByProofF, flagTxLeaf, flagAssist, flagTxParent, h0, h1, h2]

/-- case analysis on a flag -/
theorem flag_cases (f : Nat) : f = flagAssist ∨ f = flagTxParent ∨ f = flagTxLeaf ∨ 3 ≤ f := by
  unfold flagAssist flagTxParent flagTxLeaf; omega

end run

/-! ### the run of a generated proof -/

section gen
variable [DecidableEq α] (H : HashFns ι α)

/-- a node is well formed when its stored hash is the interior hash of its children -/
def WF : MTree α → Prop
  | .leaf _ => True
  | .node h l r => h = H.nodeH l.hash r.hash ∧ WF l ∧ WF r

theorem Built.wf {H : HashFns ι α} {t : MTree α} {l : List ι} (h : Built H t l) : WF H t := by
  induction h with
  | leaf x => trivial
  | node _ _ ih1 ih2 => exact ⟨rfl, ih1, ih2⟩

/-- what a parent emits for a child: the child's own proof when it found something, else
    the child's hash as an assist node -/
def side (S : List α) (t : MTree α) : List α × List Nat :=
  if (t.proof S).1.isEmpty then ([t.hash], [flagAssist]) else t.proof S

theorem proof_node (S : List α) (h : α) (l r : MTree α) :
    (MTree.node h l r).proof S =
      if (l.proof S).1.isEmpty && (r.proof S).1.isEmpty then ([], [])
      else ((side S l).1 ++ (side S r).1, flagTxParent :: ((side S l).2 ++ (side S r).2)) := by
  unfold side
  rw [MTree.proof]
  cases hl : (l.proof S).1.isEmpty <;> cases hr : (r.proof S).1.isEmpty <;> simp

theorem side_ne_nil (S : List α) (t : MTree α) : (side S t).1 ≠ [] := by
  unfold side
  split
  · simp
  · rename_i h; intro h'; apply h; simp [h']

/-- the generated proof is empty exactly when no leaf is in the set; and then both lists are -/
theorem proof_nil_iff (S : List α) (t : MTree α) :
    ((t.proof S).1 = [] ↔ t.leaves.filter (· ∈ S) = []) ∧ ((t.proof S).1 = [] → (t.proof S).2 = []) := by
  induction t with
  | leaf h =>
    by_cases hm : h ∈ S <;> simp [MTree.proof, MTree.leaves, hm]
  | node h l r ihl ihr =>
    rw [proof_node]
    have hl := side_ne_nil S l
    by_cases el : (l.proof S).1 = [] <;> by_cases er : (r.proof S).1 = [] <;>
      simp_all [MTree.leaves, List.filter_append]

theorem side_run (S : List α) (t : MTree α) (hwf : WF H t) :
    ∀ (fuel : Nat) (hr : List α) (fr : List Nat) (mr : List α), (side S t).2.length < fuel →
      rootByProofF H fuel ((side S t).1 ++ hr) ((side S t).2 ++ fr) (t.leaves.filter (· ∈ S) ++ mr)
        = ⟨t.hash, hr, fr, mr⟩ := by
  induction t with
  | leaf h =>
    intro fuel hr fr mr hf
    obtain ⟨n, rfl⟩ : ∃ n, fuel = n + 1 := ⟨fuel - 1, by omega⟩
    by_cases hm : h ∈ S
    · simp [side, MTree.proof, MTree.leaves, hm, run_leaf_hit, MTree.hash]
    · simp [side, MTree.proof, MTree.leaves, hm, run_assist, MTree.hash]
  | node h l r ihl ihr =>
    intro fuel hr fr mr hf
    obtain ⟨hh, hwl, hwr⟩ := hwf
    have nl := (proof_nil_iff S l)
    have nr := (proof_nil_iff S r)
    by_cases hemp : ((l.proof S).1.isEmpty && (r.proof S).1.isEmpty) = true
    · -- nothing found below: this node is emitted as an assist by its parent
      have hp : (MTree.node h l r).proof S = ([], []) := by rw [proof_node, if_pos hemp]
      simp only [Bool.and_eq_true, List.isEmpty_iff] at hemp
      have hfil : (MTree.node h l r).leaves.filter (· ∈ S) = [] := by
        simp [MTree.leaves, List.filter_append, nl.1.mp hemp.1, nr.1.mp hemp.2]
      obtain ⟨n, rfl⟩ : ∃ n, fuel = n + 1 := ⟨fuel - 1, by omega⟩
      simp [side, hp, hfil, run_assist, MTree.hash]
    · have hp : (MTree.node h l r).proof S =
          ((side S l).1 ++ (side S r).1, flagTxParent :: ((side S l).2 ++ (side S r).2)) := by
        rw [proof_node, if_neg hemp]
      have hne : ((MTree.node h l r).proof S).1 ≠ [] := by
        rw [hp]; simp [side_ne_nil S l]
      have hs : side S (MTree.node h l r) = (MTree.node h l r).proof S := by
        unfold side; rw [if_neg]; simpa using hne
      rw [hs, hp] at hf ⊢
      simp only [List.length_cons, List.length_append] at hf
      obtain ⟨n, rfl⟩ : ∃ n, fuel = n + 1 := ⟨fuel - 1, by omega⟩
      obtain ⟨h0, hs0, e0⟩ := List.exists_cons_of_ne_nil (side_ne_nil S l)
      have e1 : (side S l).1 ++ (side S r).1 ++ hr = h0 :: (hs0 ++ ((side S r).1 ++ hr)) := by
        rw [e0]; simp
      simp only [List.cons_append]
      rw [e1, run_parent]
      have e2 : h0 :: (hs0 ++ ((side S r).1 ++ hr)) = (side S l).1 ++ ((side S r).1 ++ hr) := by
        rw [e0]; simp
      rw [e2]
      have e3 : (MTree.node h l r).leaves.filter (· ∈ S) ++ mr
          = l.leaves.filter (· ∈ S) ++ (r.leaves.filter (· ∈ S) ++ mr) := by
        simp [MTree.leaves, List.filter_append]
      rw [e3, List.append_assoc (side S l).2]
      simp only []
      rw [ihl hwl n _ _ _ (by omega)]
      simp only []
      rw [ihr hwr n _ _ _ (by omega)]
      simp [MTree.hash, hh]

end gen

/-! ### list facts -/

theorem filter_mem_of_sublist [DecidableEq α] {A B : List α} (hs : B.Sublist A) (hn : A.Nodup) :
    A.filter (· ∈ B) = B := by
  induction hs with
  | slnil => rfl
  | @cons B A a hs ih =>
    rw [List.nodup_cons] at hn
    have : a ∉ B := fun h => hn.1 (hs.subset h)
    simp [List.filter_cons, this, ih hn.2]
  | @cons_cons B A a hs ih =>
    rw [List.nodup_cons] at hn
    rw [List.filter_cons]
    simp only [List.mem_cons, true_or, decide_true, if_true]
    congr 1
    rw [← ih hn.2]
    apply List.filter_congr
    intro x hx
    have : x ≠ a := fun h => hn.1 (h ▸ hx)
    simp [this, ih hn.2]

theorem nodup_map_of_inj {β : Type} {f : ι → β} (hf : ∀ x y, f x = f y → x = y) :
    ∀ {l : List ι}, l.Nodup → (l.map f).Nodup
  | [], _ => List.nodup_nil
  | a :: l, h => by
    rw [List.nodup_cons] at h
    rw [List.map_cons, List.nodup_cons]
    refine ⟨?_, nodup_map_of_inj hf h.2⟩
    intro hm
    obtain ⟨y, hy, e⟩ := List.mem_map.mp hm
    exact h.1 (hf _ _ e ▸ hy)

theorem map_eq_of_inj {β : Type} {f : ι → β} (hf : ∀ x y, f x = f y → x = y) :
    ∀ {l l' : List ι}, l.map f = l'.map f → l = l'
  | [], [], _ => rfl
  | [], _ :: _, h => by simp at h
  | _ :: _, [], h => by simp at h
  | a :: l, b :: l', h => by
    simp only [List.map_cons, List.cons.injEq] at h
    rw [hf _ _ h.1, map_eq_of_inj hf h.2]

/-! ### soundness of the validator's recursion -/

section sound
variable [DecidableEq α] {H : HashFns ι α}

/-- If a run returns the hash of a tree built over `l`, then what it consumed from the related
    hashes is a sub-list of that tree's leaves. -/
theorem run_sound (G : GoodHash H) : ∀ (fuel : Nat) (hs : List α) (fs : List Nat) (ms : List α)
    (t : MTree α) (l : List ι), Built H t l → (∀ m ∈ ms, ∃ x, H.leafH x = m) →
    (rootByProofF H fuel hs fs ms).hash = t.hash →
    ∃ c, ms = c ++ (rootByProofF H fuel hs fs ms).ms ∧ c.Sublist t.leaves := by
  intro fuel
  induction fuel with
  | zero =>
    intro hs fs ms t l hB _ heq
    exact absurd heq (hB.hash_ne_empty G)
  | succ n ih =>
    intro hs fs ms t l hB hms heq
    cases fs with
    | nil => rw [run_nil_flags] at heq; exact absurd heq (hB.hash_ne_empty G)
    | cons f fs' =>
      cases hs with
      | nil => rw [run_nil_hashes] at heq; exact absurd heq (hB.hash_ne_empty G)
      | cons h hs' =>
        rcases flag_cases f with rfl | rfl | rfl | h3
        · rw [run_assist]; exact ⟨[], rfl, List.nil_sublist _⟩
        · rw [run_parent] at heq ⊢
          simp only at heq ⊢
          generalize ha : rootByProofF H n (h :: hs') fs' ms = a at heq ⊢
          generalize hb : rootByProofF H n a.hs a.fs a.ms = b at heq ⊢
          cases hB with
          | leaf x => exact absurd heq.symm (G.leaf_ne_node _ _ _)
          | node hL hR =>
            obtain ⟨e1, e2⟩ := G.node_inj _ _ _ _ heq
            obtain ⟨c1, hc1, s1⟩ := ih (h :: hs') fs' ms _ _ hL hms (by rw [ha]; exact e1)
            rw [ha] at hc1
            have hms1 : ∀ m ∈ a.ms, ∃ x, H.leafH x = m := fun m hm => hms m (by rw [hc1]; simp [hm])
            obtain ⟨c2, hc2, s2⟩ := ih a.hs a.fs a.ms _ _ hR hms1 (by rw [hb]; exact e2)
            rw [hb] at hc2
            refine ⟨c1 ++ c2, ?_, s1.append s2⟩
            rw [List.append_assoc, ← hc2]; exact hc1
        · cases ms with
          | nil => rw [run_leaf_nil] at heq; exact absurd heq (hB.hash_ne_empty G)
          | cons m ms' =>
            by_cases hm : h = m
            · subst hm
              rw [run_leaf_hit] at heq ⊢
              simp only at heq ⊢
              obtain ⟨x, hx⟩ := hms h (by simp)
              cases hB with
              | leaf y =>
                refine ⟨[h], rfl, ?_⟩
                simp only [MTree.hash] at heq
                simp [MTree.leaves, heq]
              | node _ _ => exact absurd (hx.trans heq) (G.leaf_ne_node _ _ _)
            · rw [run_leaf_miss H _ _ _ hm] at heq; exact absurd heq (hB.hash_ne_empty G)
        · rw [run_other H _ _ h3] at heq; exact absurd heq (hB.hash_ne_empty G)

/-- a run that returns the empty-string hash consumed no related hash (given that related hashes
    are leaf hashes) -/
theorem run_empty_consumes_nothing (G : GoodHash H) (fuel : Nat) (hs : List α) (fs : List Nat) (ms : List α)
    (hms : ∀ m ∈ ms, ∃ x, H.leafH x = m)
    (heq : (rootByProofF H fuel hs fs ms).hash = H.emptyH) : (rootByProofF H fuel hs fs ms).ms = ms := by
  cases fuel with
  | zero => rfl
  | succ n =>
    cases fs with
    | nil => rw [run_nil_flags]
    | cons f fs' =>
      cases hs with
      | nil => rw [run_nil_hashes]
      | cons h hs' =>
        rcases flag_cases f with rfl | rfl | rfl | h3
        · rw [run_assist]
        · rw [run_parent] at heq; exact absurd heq.symm (G.empty_ne_node _ _)
        · cases ms with
          | nil => rw [run_leaf_nil]
          | cons m ms' =>
            by_cases hm : h = m
            · subst hm
              rw [run_leaf_hit] at heq
              obtain ⟨x, hx⟩ := hms h (by simp)
              exact absurd (heq.symm.trans hx.symm) (G.empty_ne_leaf x)
            · rw [run_leaf_miss H _ _ _ hm]
        · rw [run_other H _ _ h3]

end sound

/-! ### the hashes a successful run consumes are determined by the flags and the tree -/

section determined
variable [DecidableEq α] {H : HashFns ι α}

/-- the related hashes left over by a run are a suffix of the ones it was given -/
theorem run_ms_suffix : ∀ (fuel : Nat) (hs : List α) (fs : List Nat) (ms : List α),
    ∃ c, ms = c ++ (rootByProofF H fuel hs fs ms).ms := by
  intro fuel
  induction fuel with
  | zero => intro hs fs ms; exact ⟨[], rfl⟩
  | succ n ih =>
    intro hs fs ms
    cases fs with
    | nil => rw [run_nil_flags]; exact ⟨[], rfl⟩
    | cons f fs' =>
      cases hs with
      | nil => rw [run_nil_hashes]; exact ⟨[], rfl⟩
      | cons h hs' =>
        rcases flag_cases f with rfl | rfl | rfl | h3
        · rw [run_assist]; exact ⟨[], rfl⟩
        · rw [run_parent]
          simp only
          obtain ⟨c1, h1⟩ := ih (h :: hs') fs' ms
          generalize rootByProofF H n (h :: hs') fs' ms = a at h1
          obtain ⟨c2, h2⟩ := ih a.hs a.fs a.ms
          exact ⟨c1 ++ c2, by rw [List.append_assoc, ← h2]; exact h1⟩
        · cases ms with
          | nil => rw [run_leaf_nil]; exact ⟨[], rfl⟩
          | cons m ms' =>
            by_cases hm : h = m
            · subst hm; rw [run_leaf_hit]; exact ⟨[h], rfl⟩
            · rw [run_leaf_miss H _ _ _ hm]; exact ⟨[], rfl⟩
        · rw [run_other H _ _ h3]; exact ⟨[], rfl⟩

/-- Two runs with the SAME flags that both return the hash of the same tree consumed the same
    hashes (and the same number of flags), whatever the hash lists were. -/
theorem run_determined (G : GoodHash H) : ∀ (fuel : Nat) (hs1 hs2 : List α) (fs : List Nat) (ms1 ms2 : List α)
    (t : MTree α) (l : List ι), Built H t l →
    (∀ m ∈ ms1, ∃ x, H.leafH x = m) → (∀ m ∈ ms2, ∃ x, H.leafH x = m) →
    (rootByProofF H fuel hs1 fs ms1).hash = t.hash → (rootByProofF H fuel hs2 fs ms2).hash = t.hash →
    ∃ c, hs1 = c ++ (rootByProofF H fuel hs1 fs ms1).hs ∧ hs2 = c ++ (rootByProofF H fuel hs2 fs ms2).hs ∧
      (rootByProofF H fuel hs1 fs ms1).fs = (rootByProofF H fuel hs2 fs ms2).fs := by
  intro fuel
  induction fuel with
  | zero =>
    intro hs1 hs2 fs ms1 ms2 t l hB _ _ h1 _
    exact absurd h1 (hB.hash_ne_empty G)
  | succ n ih =>
    intro hs1 hs2 fs ms1 ms2 t l hB hm1 hm2 h1 h2
    cases fs with
    | nil => rw [run_nil_flags] at h1; exact absurd h1 (hB.hash_ne_empty G)
    | cons f fs' =>
      cases hs1 with
      | nil => rw [run_nil_hashes] at h1; exact absurd h1 (hB.hash_ne_empty G)
      | cons g1 hs1' =>
        cases hs2 with
        | nil => rw [run_nil_hashes] at h2; exact absurd h2 (hB.hash_ne_empty G)
        | cons g2 hs2' =>
          rcases flag_cases f with rfl | rfl | rfl | h3
          · rw [run_assist] at h1 h2 ⊢; rw [run_assist]
            simp only at h1 h2
            subst h1; subst h2
            exact ⟨[t.hash], rfl, rfl, rfl⟩
          · rw [run_parent] at h1 h2 ⊢; rw [run_parent]
            simp only at h1 h2 ⊢
            generalize ha1 : rootByProofF H n (g1 :: hs1') fs' ms1 = a1 at h1 ⊢
            generalize ha2 : rootByProofF H n (g2 :: hs2') fs' ms2 = a2 at h2 ⊢
            cases hB with
            | leaf x => exact absurd h1.symm (G.leaf_ne_node _ _ _)
            | node hL hR =>
              obtain ⟨e1, e2⟩ := G.node_inj _ _ _ _ h1
              obtain ⟨e3, e4⟩ := G.node_inj _ _ _ _ h2
              obtain ⟨c1, p1, p2, p3⟩ := ih (g1 :: hs1') (g2 :: hs2') fs' ms1 ms2 _ _ hL hm1 hm2
                (by rw [ha1]; exact e1) (by rw [ha2]; exact e3)
              rw [ha1] at p1 p3; rw [ha2] at p2 p3
              have hma1 : ∀ m ∈ a1.ms, ∃ x, H.leafH x = m := by
                obtain ⟨c, hc⟩ := run_ms_suffix (H := H) n (g1 :: hs1') fs' ms1
                rw [ha1] at hc
                exact fun m hm => hm1 m (by rw [hc]; simp [hm])
              have hma2 : ∀ m ∈ a2.ms, ∃ x, H.leafH x = m := by
                obtain ⟨c, hc⟩ := run_ms_suffix (H := H) n (g2 :: hs2') fs' ms2
                rw [ha2] at hc
                exact fun m hm => hm2 m (by rw [hc]; simp [hm])
              rw [← p3] at e4 ⊢
              obtain ⟨c2, q1, q2, q3⟩ := ih a1.hs a2.hs a1.fs a1.ms a2.ms _ _ hR hma1 hma2 e2 e4
              refine ⟨c1 ++ c2, ?_, ?_, q3⟩
              · rw [List.append_assoc, ← q1]; exact p1
              · rw [List.append_assoc, ← q2]; exact p2
          · cases ms1 with
            | nil => rw [run_leaf_nil] at h1; exact absurd h1 (hB.hash_ne_empty G)
            | cons m1 ms1' =>
              cases ms2 with
              | nil => rw [run_leaf_nil] at h2; exact absurd h2 (hB.hash_ne_empty G)
              | cons m2 ms2' =>
                by_cases e1 : g1 = m1
                · by_cases e2 : g2 = m2
                  · subst e1; subst e2
                    rw [run_leaf_hit] at h1 h2 ⊢; rw [run_leaf_hit]
                    simp only at h1 h2
                    subst h1; subst h2
                    exact ⟨[t.hash], rfl, rfl, rfl⟩
                  · rw [run_leaf_miss H _ _ _ e2] at h2; exact absurd h2 (hB.hash_ne_empty G)
                · rw [run_leaf_miss H _ _ _ e1] at h1; exact absurd h1 (hB.hash_ne_empty G)
          · rw [run_other H _ _ h3] at h1; exact absurd h1 (hB.hash_ne_empty G)

end determined

/-! ### the free hash algebra: a witness that the hash assumptions are satisfiable -/

inductive FH where
  | e
  | lf (n : Nat)
  | nd (a b : FH)
  deriving DecidableEq, Repr

def freeFns : HashFns Nat FH := ⟨.e, .lf, .nd⟩

theorem free_good : GoodHash freeFns where
  leaf_inj := by intro x y h; cases h; rfl
  node_inj := by intro a b c d h; cases h; exact ⟨rfl, rfl⟩
  leaf_ne_node := by intro x a b h; cases h
  empty_ne_leaf := by intro x h; cases h
  empty_ne_node := by intro a b h; cases h

end BytomModel.Lemmas.Merkle
