/-
C37 — no standstill: under the invariant, whenever some thread is stuck, some thread can move.
(The provider chain of a stuck thread ends in a thread that has an enabled step.)
-/
import BytomModel.Lemmas.SyncSkelDead

namespace BytomModel.SyncSkel

variable {S : Sys} {A : Ann}

/-- a thread that holds a mutex, has announced a write lock, or owes a reply has something to do
    and does not stand at a select -/
theorem busy_not_idle {spec : Option (List (List Stmt))} {u : Thread} (htok : TOK S A spec u)
    (h : (∃ m md, (m, md) ∈ u.held) ∨ (∃ m, u.pw = some m) ∨ (∃ q, u.peer = some q)) :
    u.prog ≠ [] ∧ ∀ arms k, u.prog ≠ .sel arms :: k := by
  rcases h with ⟨m, md, hm⟩ | ⟨m, hm⟩ | ⟨q, hq⟩
  · rcases htok.shape with ⟨X, hX, hc⟩ | ⟨_, _, _, hh, _⟩
    · cases X with
      | nil =>
        have := chkL_nil_empty hc
        simp only [TS.empty, TS.mk.injEq] at this
        rw [this.1] at hm; cases hm
      | cons s X' =>
        refine ⟨by rw [hX]; simp, ?_⟩
        intro arms k hp
        rw [hX] at hp
        simp only [List.cons_append, List.cons.injEq] at hp
        obtain ⟨σ', hs, _⟩ := chkL_cons_some hc
        rw [hp.1] at hs
        exact absurd hs chkS_sel
    · rw [hh] at hm; cases hm
  · obtain ⟨k, hk⟩ := htok.pw_ok m hm
    refine ⟨by rw [hk]; simp, ?_⟩
    intro arms k' hp
    rw [hk] at hp; simp at hp
  · rcases htok.shape with ⟨X, hX, hc⟩ | ⟨_, _, _, _, hpn, _⟩
    · obtain ⟨q1, r⟩ := q
      cases X with
      | nil =>
        rw [hX, hq]
        refine ⟨by simp [replyPart], ?_⟩
        intro arms k hp
        simp [replyPart] at hp
      | cons s X' =>
        refine ⟨by rw [hX]; simp, ?_⟩
        intro arms k hp
        rw [hX] at hp
        simp only [List.cons_append, List.cons.injEq] at hp
        obtain ⟨σ', hs, _⟩ := chkL_cons_some hc
        rw [hp.1] at hs
        exact absurd hs chkS_sel
    · rw [hpn] at hq; cases hq

/-- a daemon standing at its select is not blocked when the channel has a message -/
theorem server_enabled {spec : Option (List (List Stmt))} {c : Config} {j : Nat} {u : Thread} {ch : Chan}
    {arms : List (List Stmt)} {k : List Stmt}
    (hj : c.threads[j]? = some u) (htok : TOK S A spec u) (hp : u.prog = .sel arms :: k) (hserves : Serves u ch)
    (hrep : ∀ r, S.replyOf ch = some r → ∃ (p : Nat) (tp : Thread), c.threads[p]? = some tp ∧ tp.st = .queued ch)
    (hff : S.replyOf ch = none → 0 < c.cnt ch) :
    ¬ Blocked S c j := by
  intro hb
  have hblk := blocked_stepT hj hb
  obtain ⟨pre, arms', rest, hprog, hmem⟩ := hserves
  -- the select it stands at is the one it returns to
  have harms : arms' = arms := by
    rcases tok_head htok hp with ⟨_, σ', _, hc, _⟩ | ⟨_, _, h'⟩ | ⟨arms0, _, hsel, hk, _⟩
    · exact absurd hc chkS_sel
    · rcases not_tail h' with ⟨_, _, _, h1, _⟩ | ⟨_, _, _, h1, _⟩ <;> cases h1
    · cases hsel
      rw [hp, hk] at hprog
      have h1 : ([Stmt.sel arms, Stmt.loop true [Stmt.sel arms]] : List Stmt).getLast? =
          (pre ++ [Stmt.loop true [Stmt.sel arms']]).getLast? := by rw [hprog]
      simp at h1
      exact h1.symm
  subst harms
  obtain ⟨n, hn⟩ := List.mem_iff_getElem?.1 hmem
  cases hr : S.replyOf ch with
  | some r =>
    obtain ⟨p, tp, hpp, hq⟩ := hrep r hr
    have := hblk n p
    simp [stepT, hp, hn, recvStep, hr, hpp, hq] at this
  | none =>
    have := hblk n 0
    simp [stepT, hp, hn, recvStep, hr, hff hr] at this

theorem qlen_pos {c : Config} {ch : Chan} (h : 0 < c.qlen ch) :
    ∃ (p : Nat) (tp : Thread), c.threads[p]? = some tp ∧ tp.st = .queued ch := by
  unfold Config.qlen at h
  obtain ⟨x, hx⟩ := List.exists_mem_of_length_pos h
  obtain ⟨hmem, hst⟩ := List.mem_filter.1 hx
  obtain ⟨p, hp⟩ := List.mem_iff_getElem?.1 hmem
  exact ⟨p, x, hp, by simpa using hst⟩

/-- a provider of a stuck thread has something to do, and if it cannot move it is not merely idle -/
theorem provider_good {c : Config} (hinv : Inv S A c.threads) {i j : Nat} {t u : Thread}
    (hi : c.threads[i]? = some t) (hj : c.threads[j]? = some u) (hstuck : Stuck S c i) (hprov : Provider c i j) :
    u.prog ≠ [] ∧ (Blocked S c j → ¬ AtSelect c j) := by
  have htok := hinv.tok i t hi
  have htoku := hinv.tok j u hj
  have hblk := blocked_stepT hi hstuck.1
  obtain ⟨t', u', ht', hu', hm⟩ := hprov
  rw [hi] at ht'; cases ht'
  rw [hj] at hu'; cases hu'
  have fromBusy : ((∃ m md, (m, md) ∈ u.held) ∨ (∃ m, u.pw = some m) ∨ (∃ q, u.peer = some q)) →
      u.prog ≠ [] ∧ (Blocked S c j → ¬ AtSelect c j) := by
    intro h
    obtain ⟨h1, h2⟩ := busy_not_idle htoku h
    refine ⟨h1, ?_⟩
    rintro _ ⟨u2, arms, k, hu2, hp2⟩
    rw [hj] at hu2; cases hu2
    exact h2 arms k hp2
  have fromServes : ∀ ch, Serves u ch →
      (∀ r, S.replyOf ch = some r → ∃ (p : Nat) (tp : Thread), c.threads[p]? = some tp ∧ tp.st = .queued ch) →
      (S.replyOf ch = none → 0 < c.cnt ch) →
      u.prog ≠ [] ∧ (Blocked S c j → ¬ AtSelect c j) := by
    intro ch hs hrep hff
    refine ⟨?_, ?_⟩
    · obtain ⟨pre, arms, rest, hprog, _⟩ := hs
      rw [hprog]; simp
    · rintro hb ⟨u2, arms, k, hu2, hp2⟩
      rw [hj] at hu2; cases hu2
      exact server_enabled hj htoku hp2 hs hrep hff hb
  cases hp : t.prog with
  | nil => rw [hp] at hm; exact absurd hm (by simp)
  | cons s k =>
    rw [hp] at hm
    cases s with
    | call f => exact absurd hm (by simp)
    | go f => exact absurd hm (by simp)
    | alt bs => exact absurd hm (by simp)
    | loop inf b => exact absurd hm (by simp)
    | sel arms => exact absurd hm (by simp)
    | act a =>
      cases a with
      | lock m =>
        dsimp only at hm
        split at hm
        · rcases hm with h | h
          · exact fromBusy (Or.inl ⟨m, _, h⟩)
          · exact fromBusy (Or.inl ⟨m, _, h⟩)
        · rcases hm with h | h
          · exact fromBusy (Or.inl ⟨m, _, h⟩)
          · exact fromBusy (Or.inr (Or.inl ⟨m, h⟩))
      | rlock m =>
        dsimp only at hm
        rcases hm with h | h
        · exact fromBusy (Or.inl ⟨m, _, h⟩)
        · exact fromBusy (Or.inr (Or.inl ⟨m, h⟩))
      | send ch =>
        dsimp only at hm
        -- the channel is full, and its capacity is at least one
        obtain ⟨_, σ0, _, hc0, _⟩ := head_plain htok hp (by simp) (by simp) (by simp)
        rw [chkS_act] at hc0
        simp only [chkA] at hc0
        split at hc0
        · rename_i hcond
          obtain ⟨_, _, _, hcap, _⟩ := hcond
          have h0 := hblk 0 0
          simp only [stepT, hp] at h0
          refine fromServes ch hm ?_ ?_
          · intro r hr
            rw [hr] at h0
            dsimp only at h0
            split at h0
            · cases h0
            · rename_i hfull
              exact qlen_pos (by omega)
          · intro hr
            rw [hr] at h0
            dsimp only at h0
            split at h0
            · cases h0
            · rename_i hfull
              omega
        · cases hc0
      | recvReply r =>
        dsimp only at hm
        cases hst : t.st with
        | idle => rw [hst] at hm; exact absurd hm (by simp)
        | replied r' => rw [hst] at hm; exact absurd hm (by simp)
        | queued ch =>
          rw [hst] at hm
          obtain ⟨_, _, r0, hr0⟩ := htok.st_ok ch hst
          exact fromServes ch hm (fun _ _ => ⟨i, t, hi, hst⟩) (by intro hn; rw [hr0] at hn; cases hn)
        | served r' =>
          rw [hst] at hm
          obtain ⟨q, hq, _, _⟩ := hm
          exact fromBusy (Or.inr (Or.inr ⟨_, hq⟩))
      | sendReply r =>
        dsimp only at hm
        obtain ⟨r', hpe⟩ := hm
        obtain ⟨tp, htp, hqs, _⟩ := hinv.srv i t j r' hi hpe
        rw [hj] at htp; cases htp
        rcases htoku.shape with ⟨X, hX, hcx⟩ | ⟨_, _, _, _, _, hidle⟩
        · rw [hqs] at hcx
          simp only [pendOf] at hcx
          obtain ⟨k', rfl, _, _⟩ := chkL_pend hcx
          refine ⟨by rw [hX]; simp, ?_⟩
          rintro _ ⟨u2, arms, k2, hu2, hp2⟩
          rw [hj] at hu2; cases hu2
          rw [hX] at hp2; simp at hp2
        · rw [hqs] at hidle; cases hidle
      | unlock m => exact absurd hm (by simp)
      | runlock m => exact absurd hm (by simp)
      | wait m => exact absurd hm (by simp)
      | signal m => exact absurd hm (by simp)
      | recv ch => exact absurd hm (by simp)
      | sendFresh cap => exact absurd hm (by simp)

/-- **no standstill**: whenever some thread is stuck, some thread has an enabled step -/
theorem some_thread_can_step {c : Config} (hinv : Inv S A c.threads) (h : ∃ i, Stuck S c i) :
    ∃ (j n p : Nat) (c' : Config), step S c j n p = some c' := by
  have key : ∀ (n : Nat) (i : Nat) (t : Thread), Stuck S c i → c.threads[i]? = some t → mu A t ≤ n →
      ∃ (j n p : Nat) (c' : Config), step S c j n p = some c' := by
    intro n
    induction n with
    | zero =>
      intro i t hst hi hle
      obtain ⟨j, u, hj, hprov, hlt⟩ := stuck_provider hinv hi hst
      obtain ⟨hne, hsel⟩ := provider_good hinv hi hj hst hprov
      by_cases hb : Blocked S c j
      · have := hlt hb; omega
      · by_cases hex : ∃ (n p : Nat) (c' : Config), step S c j n p = some c'
        · obtain ⟨n, p, c', hs⟩ := hex; exact ⟨j, n, p, c', hs⟩
        · refine absurd ⟨u, hj, hne, ?_⟩ hb
          intro n p
          cases hs : step S c j n p with
          | none => rfl
          | some c' => exact absurd ⟨n, p, c', hs⟩ hex
    | succ n ih =>
      intro i t hst hi hle
      obtain ⟨j, u, hj, hprov, hlt⟩ := stuck_provider hinv hi hst
      obtain ⟨hne, hsel⟩ := provider_good hinv hi hj hst hprov
      by_cases hb : Blocked S c j
      · exact ih j u ⟨hb, hsel hb⟩ hj (by have := hlt hb; omega)
      · by_cases hex : ∃ (n p : Nat) (c' : Config), step S c j n p = some c'
        · obtain ⟨n, p, c', hs⟩ := hex; exact ⟨j, n, p, c', hs⟩
        · refine absurd ⟨u, hj, hne, ?_⟩ hb
          intro n p
          cases hs : step S c j n p with
          | none => rfl
          | some c' => exact absurd ⟨n, p, c', hs⟩ hex
  obtain ⟨i, hst⟩ := h
  obtain ⟨t, hi, _, _⟩ := hst.1
  exact key (mu A t) i t hst hi (Nat.le_refl _)

end BytomModel.SyncSkel
