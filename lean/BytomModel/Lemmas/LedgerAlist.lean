/-
Association-list algebra behind `Ledger.View` / `Ledger.CMap`: `vget`/`vset`/`vdel`
(`cget`/`cset`/`cdel`) behave like a finite map with unique keys.
Core Lean only.
-/
import BytomModel.Model.Ledger
namespace BytomModel.Lemmas.Ledger
open BytomModel.Ledger

variable {α : Type}

def aget (l : List (Nat × α)) (k : Nat) : Option α := (l.find? (fun p => p.1 == k)).map (·.2)
def aset (l : List (Nat × α)) (k : Nat) (e : α) : List (Nat × α) :=
  if l.any (fun p => p.1 == k) then l.map (fun p => if p.1 == k then (k, e) else p) else l ++ [(k, e)]
def adel (l : List (Nat × α)) (k : Nat) : List (Nat × α) := l.filter (fun p => p.1 != k)

theorem vget_eq (v : View) (k : Nat) : vget v k = aget v k := rfl
theorem vset_eq (v : View) (k : Nat) (e : Entry) : vset v k e = aset v k e := rfl
theorem vdel_eq (v : View) (k : Nat) : vdel v k = adel v k := rfl
theorem cget_eq (v : CMap) (k : Nat) : cget v k = aget v k := rfl
theorem cset_eq (v : CMap) (k : Nat) (e : Nat) : cset v k e = aset v k e := rfl
theorem cdel_eq (v : CMap) (k : Nat) : cdel v k = adel v k := rfl

def keys (l : List (Nat × α)) : List Nat := l.map Prod.fst
def NodupKeys (l : List (Nat × α)) : Prop := (keys l).Nodup

@[simp] theorem aget_nil (k : Nat) : aget ([] : List (Nat × α)) k = none := rfl

theorem aget_cons (p : Nat × α) (l : List (Nat × α)) (j : Nat) :
    aget (p :: l) j = if p.1 = j then some p.2 else aget l j := by
  unfold aget
  by_cases h : p.1 = j
  · simp [h]
  · simp [h]

theorem aget_none_iff (l : List (Nat × α)) (k : Nat) : aget l k = none ↔ k ∉ keys l := by
  induction l with
  | nil => simp [keys]
  | cons p l ih =>
    rw [aget_cons]
    by_cases h : p.1 = k
    · subst h; simp [keys]
    · have : ¬ k = p.1 := fun e => h e.symm
      simp [h, ih, keys, this]

theorem aget_some_mem {l : List (Nat × α)} {k : Nat} {e : α} (h : aget l k = some e) : (k, e) ∈ l := by
  induction l with
  | nil => simp at h
  | cons p l ih =>
    rw [aget_cons] at h
    by_cases hp : p.1 = k
    · simp [hp] at h
      have : p = (k, e) := by cases p; simp_all
      simp [this]
    · simp [hp] at h
      exact List.mem_cons_of_mem _ (ih h)

theorem aget_of_mem_nodup {l : List (Nat × α)} {k : Nat} {e : α} (hn : NodupKeys l) (h : (k, e) ∈ l) :
    aget l k = some e := by
  induction l with
  | nil => simp at h
  | cons p l ih =>
    rw [aget_cons]
    have hn' : p.1 ∉ keys l ∧ NodupKeys l := by
      simpa [NodupKeys, keys] using hn
    rcases List.mem_cons.mp h with h | h
    · subst h; simp
    · have : k ∈ keys l := by
        simp only [keys, List.mem_map]
        exact ⟨(k, e), h, rfl⟩
      have hne : ¬ p.1 = k := by
        intro e'; rw [e'] at hn'; exact hn'.1 this
      simp [hne, ih hn'.2 h]

theorem any_key_iff (l : List (Nat × α)) (k : Nat) : l.any (fun p => p.1 == k) = true ↔ k ∈ keys l := by
  simp only [keys, List.any_eq_true, List.mem_map, beq_iff_eq]

theorem aget_map_set (l : List (Nat × α)) (k : Nat) (e : α) (j : Nat) :
    aget (l.map (fun p => if p.1 == k then (k, e) else p)) j =
      if j = k then (if k ∈ keys l then some e else none) else aget l j := by
  induction l with
  | nil => simp [keys]
  | cons p l ih =>
    rw [List.map_cons, aget_cons, aget_cons, ih]
    by_cases hpk : p.1 = k
    · by_cases hj : j = k
      · simp [hpk, hj, keys]
      · have : ¬ k = j := fun e => hj e.symm
        simp [hpk, hj, this]
    · by_cases hj : j = k
      · subst hj
        have : ¬ j = p.1 := fun e => hpk e.symm
        have hm : (j ∈ keys (p :: l)) ↔ (j ∈ keys l) := by
          simp [keys, List.mem_cons, this]
        have hf : (if (p.1 == j) = true then (j, e) else p) = p := by simp [hpk]
        rw [hf]
        simp only [hpk, if_false, if_true]
        by_cases hjl : j ∈ keys l
        · simp [hjl, hm.mpr hjl]
        · have : ¬ j ∈ keys (p :: l) := fun h => hjl (hm.mp h)
          simp [hjl, this]
      · simp [hpk, hj]

theorem aget_append_single (l : List (Nat × α)) (k : Nat) (e : α) (j : Nat) :
    aget (l ++ [(k, e)]) j = match aget l j with
      | some x => some x
      | none => if j = k then some e else none := by
  induction l with
  | nil =>
    simp only [List.nil_append, aget_cons, aget_nil]
    by_cases h : k = j
    · simp [h]
    · have : ¬ j = k := fun e => h e.symm
      simp [h, this]
  | cons p l ih =>
    rw [List.cons_append, aget_cons, aget_cons, ih]
    by_cases h : p.1 = j <;> simp [h]

/-- `vget`/`vset` law: a write is read back, other keys are untouched -/
theorem aget_aset (l : List (Nat × α)) (k : Nat) (e : α) (j : Nat) :
    aget (aset l k e) j = if j = k then some e else aget l j := by
  unfold aset
  by_cases h : l.any (fun p => p.1 == k) = true
  · rw [if_pos h, aget_map_set]
    have := (any_key_iff l k).mp h
    simp [this]
  · rw [if_neg h, aget_append_single]
    have hk : k ∉ keys l := fun hk => h ((any_key_iff l k).mpr hk)
    by_cases hj : j = k
    · subst hj
      simp [(aget_none_iff l j).mpr hk]
    · simp only [hj, if_false]
      cases aget l j <;> rfl

/-- `vget`/`vdel` law -/
theorem aget_adel (l : List (Nat × α)) (k : Nat) (j : Nat) :
    aget (adel l k) j = if j = k then none else aget l j := by
  induction l with
  | nil => simp [adel]
  | cons p l ih =>
    unfold adel at ih ⊢
    rw [List.filter_cons]
    by_cases hp : p.1 = k
    · simp only [hp, bne_self_eq_false, Bool.false_eq_true, if_false, ih, aget_cons]
      by_cases hj : j = k
      · simp [hj]
      · have : ¬ k = j := fun e => hj e.symm
        simp [hj, this]
    · have : (p.1 != k) = true := by simp [hp]
      simp only [this, if_true, aget_cons, ih]
      by_cases hj : j = k
      · subst hj; simp [hp]
      · simp [hj]

theorem keys_aset (l : List (Nat × α)) (k : Nat) (e : α) :
    keys (aset l k e) = if k ∈ keys l then keys l else keys l ++ [k] := by
  unfold aset
  by_cases h : l.any (fun p => p.1 == k) = true
  · have hk := (any_key_iff l k).mp h
    rw [if_pos h, if_pos hk]
    unfold keys
    rw [List.map_map]
    apply List.map_congr_left
    intro p _
    by_cases hp : p.1 = k <;> simp [hp]
  · have hk : k ∉ keys l := fun hk => h ((any_key_iff l k).mpr hk)
    rw [if_neg h, if_neg hk]
    simp [keys]

theorem nodupKeys_aset {l : List (Nat × α)} (h : NodupKeys l) (k : Nat) (e : α) : NodupKeys (aset l k e) := by
  unfold NodupKeys at *
  rw [keys_aset]
  by_cases hk : k ∈ keys l
  · simpa [hk] using h
  · simp only [hk, if_false]
    rw [List.nodup_append]
    refine ⟨h, by simp, ?_⟩
    intro a ha b hb
    simp at hb
    subst hb
    intro e'; subst e'; exact hk ha

theorem nodupKeys_adel {l : List (Nat × α)} (h : NodupKeys l) (k : Nat) : NodupKeys (adel l k) := by
  unfold NodupKeys keys adel at *
  exact (List.filter_sublist.map _).nodup h

theorem nodupKeys_nil : NodupKeys ([] : List (Nat × α)) := by simp [NodupKeys, keys]

/-- a fold of writes / deletes over the entries of a duplicate-free list `v` into `db`
    (the shape of `saveUtxoView`) -/
theorem aget_foldl_save (del : α → Bool) (v : List (Nat × α)) (hv : NodupKeys v) (db : List (Nat × α)) (j : Nat) :
    aget (v.foldl (fun d (p : Nat × α) => if del p.2 then adel d p.1 else aset d p.1 p.2) db) j =
      match aget v j with
      | some e => if del e then none else some e
      | none => aget db j := by
  induction v generalizing db with
  | nil => simp
  | cons p v ih =>
    have hn' : p.1 ∉ keys v ∧ NodupKeys v := by
      simpa [NodupKeys, keys] using hv
    rw [List.foldl_cons, ih hn'.2, aget_cons]
    by_cases hp : p.1 = j
    · subst hp
      rw [(aget_none_iff v p.1).mpr hn'.1]
      by_cases hd : del p.2 = true
      · simp [hd, aget_adel]
      · simp [hd, aget_aset]
    · have : ¬ j = p.1 := fun e => hp e.symm
      simp only [hp, if_false]
      cases hg : aget v j with
      | some e => rfl
      | none =>
        by_cases hd : del p.2 = true
        · simp [hd, aget_adel, this]
        · simp [hd, aget_aset, this]

end BytomModel.Lemmas.Ledger
