/-
M-Pool: `J` over `submit` and whole calm histories; unique keys of the orphan map.
-/
import BytomModel.Lemmas.TxPoolPromote2

namespace BytomModel.Lemmas.TxPool
open BytomModel.TxPool

theorem addTransaction_snd_room (c : Cfg) (s : Pool) (tx : Tx) (h : s.pool.length < c.maxPool) :
    (addTransaction c s tx).2 = true := by
  unfold addTransaction
  have : ¬ s.pool.length ≥ c.maxPool := by omega
  simp [this]

theorem addTransaction_snd_full (c : Cfg) (s : Pool) (tx : Tx) (h : ¬ s.pool.length < c.maxPool) :
    (addTransaction c s tx).2 = false := by
  unfold addTransaction
  have : s.pool.length ≥ c.maxPool := by omega
  simp [this]

theorem J_submit {U : List Tx} (wf : WF U) (nrs : NoRetSpend U) (c : Cfg) {s : Pool} {tx : Tx}
    (hI : Inv U s) (hJ : J c s []) (htx : tx ∈ U) (now : Nat)
    (hfin : (submit c s tx now).1.pool.length < c.maxPool) : J c (submit c s tx now).1 [] := by
  unfold submit at hfin ⊢
  by_cases hg : (amHas s.pool tx.id || s.errs.contains tx.id) = true
  · simp only [hg, if_true]; exact hJ
  · simp only [hg] at hfin ⊢
    by_cases hd : tx.dust = true
    · simp only [hd, if_true]; exact ⟨hJ.idx, hJ.pend, hJ.disj⟩
    · simp only [hd] at hfin ⊢
      have hpool : amGet s.pool tx.id = none := by
        have : amHas s.pool tx.id = false := by
          cases h : amHas s.pool tx.id with
          | false => rfl
          | true => simp [h] at hg
        rw [amHas_eq] at this
        cases h : amGet s.pool tx.id with
        | none => rfl
        | some _ => rw [h] at this; simp at this
      unfold processTransaction at hfin ⊢
      simp only at hfin ⊢
      by_cases hemp : (requireParents c s tx).isEmpty = true
      · simp only [hemp, Bool.not_true, Bool.false_eq_true, if_false] at hfin ⊢
        have hmiss := (requireParents_isEmpty_iff c s tx).mp hemp
        by_cases hroom : s.pool.length < c.maxPool
        · simp only [addTransaction_snd_room c s tx hroom, if_true] at hfin ⊢
          exact J_pooled wf nrs c hI hJ htx hmiss hroom hfin
        · simp only [addTransaction_snd_full c s tx hroom, Bool.false_eq_true, if_false] at hfin ⊢
          rw [addTransaction_full c s tx hroom]; exact hJ
      · have hemp' : (requireParents c s tx).isEmpty = false := by
          cases h : (requireParents c s tx).isEmpty with
          | false => rfl
          | true => exact absurd h hemp
        simp only [hemp', Bool.not_false, if_true]
        apply J_addOrphan wf c hI hJ htx now hpool
        intro hall
        exact hemp ((requireParents_isEmpty_iff c s tx).mpr hall)

/-- a history without `RemoveTransaction` in which the pool stays below its limit after every
    operation -/
def Calm (c : Cfg) : Pool → Nat → List Op → Prop
  | _, _, [] => True
  | s, now, op :: ops =>
    (match op with | .remove _ => False | _ => True) ∧
    (step c s now op).1.pool.length < c.maxPool ∧
    Calm c (step c s now op).1 (now + 1) ops

theorem J_runFrom {U : List Tx} (wf : WF U) (nrs : NoRetSpend U) (c : Cfg) : ∀ (ops : List Op) (s : Pool) (now : Nat),
    Inv U s → J c s [] → (∀ op ∈ ops, OpIn U op) → Calm c s now ops → J c (runFrom c s now ops) []
  | [], _, _, _, hJ, _, _ => by unfold runFrom; exact hJ
  | op :: ops, s, now, hI, hJ, hops, hcalm => by
    unfold runFrom
    obtain ⟨hnr, hroom, hrest⟩ := hcalm
    have hop := hops op (by simp)
    have hI' := inv_step wf c hI now op hop
    have hJ' : J c (step c s now op).1 [] := by
      cases op with
      | submit tx => exact J_submit wf nrs c hI hJ hop now hroom
      | remove id => exact False.elim hnr
      | expire k => exact J_expire c hJ k
    exact J_runFrom wf nrs c ops _ _ hI' hJ' (fun o ho => hops o (List.mem_cons_of_mem _ ho)) hrest

/-! ### the orphan map has unique keys -/

def KeysNodup {β : Type} (l : List (Nat × β)) : Prop := (l.map Prod.fst).Nodup

theorem mem_keys_amSet {β : Type} (l : List (Nat × β)) (k : Nat) (v : β) (x : Nat) :
    x ∈ (amSet l k v).map Prod.fst → x = k ∨ x ∈ l.map Prod.fst := by
  intro h
  obtain ⟨e, he, rfl⟩ := List.mem_map.mp h
  rcases mem_amSet l k v e he with h1 | h1
  · left; rw [h1]
  · right; exact List.mem_map.mpr ⟨e, h1, rfl⟩

theorem amSet_nodup {β : Type} (l : List (Nat × β)) (k : Nat) (v : β) (h : KeysNodup l) : KeysNodup (amSet l k v) := by
  induction l with
  | nil => simp [amSet, KeysNodup]
  | cons x l ih =>
    obtain ⟨a, b⟩ := x
    unfold KeysNodup at h ih ⊢
    simp only [List.map_cons, List.nodup_cons] at h
    unfold amSet
    by_cases e : a = k
    · simp only [e, if_true, List.map_cons, List.nodup_cons]
      rw [← e]; exact h
    · simp only [e, if_false, List.map_cons, List.nodup_cons]
      refine ⟨?_, ih h.2⟩
      intro hin
      rcases mem_keys_amSet l k v a hin with h1 | h1
      · exact e h1
      · exact h.1 h1

theorem amDel_nodup {β : Type} (l : List (Nat × β)) (k : Nat) (h : KeysNodup l) : KeysNodup (amDel l k) := by
  induction l with
  | nil => simp [amDel, KeysNodup]
  | cons x l ih =>
    obtain ⟨a, b⟩ := x
    unfold KeysNodup at h ih ⊢
    simp only [List.map_cons, List.nodup_cons] at h
    rw [amDel_cons]
    split
    · exact ih h.2
    · simp only [List.map_cons, List.nodup_cons]
      refine ⟨?_, ih h.2⟩
      intro hin
      obtain ⟨e, he, hea⟩ := List.mem_map.mp hin
      exact h.1 (List.mem_map.mpr ⟨e, (mem_amDel l k e he).1, hea⟩)

theorem amGet_of_mem_nodup {β : Type} (l : List (Nat × β)) (h : KeysNodup l) (e : Nat × β) (he : e ∈ l) :
    amGet l e.1 = some e.2 := by
  induction l with
  | nil => cases he
  | cons x l ih =>
    obtain ⟨a, b⟩ := x
    unfold KeysNodup at h ih
    simp only [List.map_cons, List.nodup_cons] at h
    rcases List.mem_cons.mp he with h1 | h1
    · subst h1; simp [amGet]
    · have : ¬ a = e.1 := fun ea => h.1 (List.mem_map.mpr ⟨e, h1, ea.symm⟩)
      simp only [amGet, this, if_false]
      exact ih h.2 h1

theorem orph_nodup_addOrphan (c : Cfg) (s : Pool) (tx : Tx) (now : Nat) (req : List Out) (h : KeysNodup s.orphans) :
    KeysNodup (addOrphan c s tx now req).1.orphans := by
  unfold addOrphan
  split
  · exact h
  · exact amSet_nodup _ _ _ h

theorem orph_nodup_removeOrphan (s : Pool) (id : Nat) (h : KeysNodup s.orphans) :
    KeysNodup (removeOrphan s id).orphans := by
  unfold removeOrphan
  split
  · exact h
  · exact amDel_nodup _ _ h

theorem addTransaction_orphans (c : Cfg) (s : Pool) (tx : Tx) : (addTransaction c s tx).1.orphans = s.orphans := by
  unfold addTransaction; split <;> rfl

theorem orph_nodup_processLoop (c : Cfg) : ∀ (f : Nat) (s : Pool) (q : List Tx),
    KeysNodup s.orphans → KeysNodup (processLoop c f s q).orphans
  | 0, _, _, h => by unfold processLoop; exact h
  | _ + 1, _, [], h => by unfold processLoop; exact h
  | f + 1, s, o :: q, h => by
    unfold processLoop
    split
    · apply orph_nodup_processLoop c f
      rw [addTransaction_orphans]
      apply orph_nodup_removeOrphan
      rw [addRely_orphans]; exact h
    · exact orph_nodup_processLoop c f s q h

theorem orph_nodup_step (c : Cfg) (s : Pool) (now : Nat) (op : Op) (h : KeysNodup s.orphans) :
    KeysNodup (step c s now op).1.orphans := by
  cases op with
  | submit tx =>
    simp only [step, submit]
    split
    · exact h
    · split
      · exact h
      · unfold processTransaction
        simp only
        split
        · exact orph_nodup_addOrphan c s tx now _ h
        · split
          · unfold processOrphans
            apply orph_nodup_processLoop
            rw [addRely_orphans, addTransaction_orphans]; exact h
          · rw [addTransaction_orphans]; exact h
  | remove id =>
    simp only [step, removeTransaction]
    split <;> exact h
  | expire k =>
    simp only [step, expire]
    exact foldl_inv (fun s => KeysNodup s.orphans) _ _ _ h (fun a (e : Nat × Orphan) _ ha => orph_nodup_removeOrphan a e.1 ha)

theorem orph_nodup_runFrom (c : Cfg) : ∀ (ops : List Op) (s : Pool) (now : Nat),
    KeysNodup s.orphans → KeysNodup (runFrom c s now ops).orphans
  | [], _, _, h => by unfold runFrom; exact h
  | op :: ops, s, now, h => by
    unfold runFrom
    exact orph_nodup_runFrom c ops _ _ (orph_nodup_step c s now op h)

end BytomModel.Lemmas.TxPool
