/-
Lemmas about the entry-level validator model (`Model/TxEntries`): what the explicit
cross-check loops establish when they succeed.
-/
import BytomModel.Model.TxEntries
import BytomModel.Lemmas.TxValidate

namespace BytomModel.Lemmas.TxEntries
open BytomModel.Fixed BytomModel.Gen.Checked BytomModel.Model.TxValidate BytomModel.Model.TxEntries
open BytomModel.Lemmas.TxValidate

/-- the consumed output holds exactly what the input forwards (asked of spends and vetoes) -/
def PV (i : EIn) : Prop := (i.base.kind = .spend ∨ i.base.kind = .veto) → i.pv = i.wd

theorem checkEntryIn_ok {ctx : Ctx} {tx : ETx} {r : Nat} {g g' : Gas} {i : EIn}
    (h : checkEntryIn ctx tx r g i = .ok g') : PV i ∧ g'.btmValue = g.btmValue := by
  unfold checkEntryIn at h
  split at h
  · rename_i hk
    split at h
    · cases h
    · rename_i g1 hv
      split at h
      · cases h
      · rename_i hpv
        split at h
        · cases h
        · cases h
          exact ⟨fun _ => by simpa using hpv, runVM_btm hv⟩
  · rename_i hk
    split at h
    · cases h
    · split at h
      · cases h
      · rename_i g1 hv
        split at h
        · cases h
        · rename_i hpv
          split at h
          · cases h
          · cases h
            exact ⟨fun _ => by simpa using hpv, runVM_btm hv⟩
  · rename_i hk
    split at h
    · cases h
    · split at h
      · cases h
      · rename_i g1 hv
        split at h
        · cases h
        · cases h
          exact ⟨fun c => by rcases c with c | c <;> simp [hk] at c, runVM_btm hv⟩
  · rename_i hk
    split at h
    · cases h
    · split at h
      · cases h
      · split at h
        · cases h
        · split at h
          · cases h
          · split at h
            · cases h
            · cases h
              exact ⟨fun c => by rcases c with c | c <;> simp [hk] at c, rfl⟩

/-- the source loop: every mux source names an existing input entry whose forwarded value is
    the source's value and — for spends and vetoes — is what the consumed output holds -/
theorem checkSourcesE_ok {ctx : Ctx} {tx : ETx} : ∀ (l : List EIn) (i : Nat) (g g' : Gas) (done : List Nat),
    checkSourcesE ctx tx i g done l = .ok g' →
    (∀ r ∈ done, ∀ inp, tx.ins[r]? = some inp → PV inp) →
    (∀ s ∈ l, ∃ inp, tx.ins[s.msRef]? = some inp ∧ inp.wd = s.ms ∧ PV inp) ∧ g'.btmValue = g.btmValue
  | [], _, g, g', _, h, _ => by
    simp only [checkSourcesE] at h; cases h; simp
  | s :: rest, i, g, g', done, h, hd => by
    simp only [checkSourcesE] at h
    split at h
    · cases h
    · rename_i inp hin
      split at h
      · cases h
      · rename_i g1 hres
        split at h
        · cases h
        split at h
        · cases h
        split at h
        · cases h
        split at h
        · cases h
        rename_i _ _ _ hwd
        have hpv : PV inp ∧ g1.btmValue = g.btmValue := by
          by_cases hc : done.contains s.msRef = true
          · simp only [hc, if_true] at hres
            cases hres
            exact ⟨hd s.msRef (by simpa using hc) inp hin, rfl⟩
          · simp only [hc, Bool.false_eq_true, if_false] at hres
            exact checkEntryIn_ok hres
        have hd' : ∀ r ∈ s.msRef :: done, ∀ inp', tx.ins[r]? = some inp' → PV inp' := by
          intro r hr inp' hin'
          rcases List.mem_cons.mp hr with e | e
          · subst e; rw [hin] at hin'; cases hin'; exact hpv.1
          · exact hd r e inp' hin'
        obtain ⟨a, b⟩ := checkSourcesE_ok rest (i + 1) g1 g' _ h hd'
        refine ⟨?_, by rw [b, hpv.2]⟩
        intro s' hs'
        rcases List.mem_cons.mp hs' with e | e
        · subst e; exact ⟨inp, hin, by simpa using hwd, hpv.1⟩
        · exact a s' e

/-- the destination loop: every mux destination names an existing result entry carrying the
    destination's value -/
theorem checkDestsE_ok {tx : ETx} : ∀ (l : List EOut) (j : Nat), checkDestsE tx j l = .ok () →
    ∀ d ∈ l, ∃ o, tx.outs[d.dstRef]? = some o ∧ o.val = d.dv
  | [], _, _ => by simp
  | d :: rest, j, h => by
    simp only [checkDestsE] at h
    split at h
    · cases h
    · rename_i o ho
      split at h
      · cases h
      split at h
      · cases h
      split at h
      · cases h
      split at h
      · cases h
      rename_i _ _ _ hv
      intro d' hd'
      rcases List.mem_cons.mp hd' with e | e
      · subst e; exact ⟨o, ho, by simpa using hv⟩
      · exact checkDestsE_ok rest (j + 1) h d' e

theorem checkResultsE_spec {ctx : Ctx} {order : PMap → PMap} {tx : ETx} : ∀ {outs : List EOut} {j : Nat} {st st' : Option Gas},
    checkResultsE ctx order tx j st outs = .ok st' →
    (∀ g0, st = some g0 → st' = some g0) ∧
    (st = none → outs ≠ [] → ∃ g, checkMuxE ctx order tx = .ok g ∧ st' = some g) := by
  intro outs
  induction outs with
  | nil => intro j st st' h; simp [checkResultsE] at h; subst h; simp
  | cons o t ih =>
    intro j st st' h
    simp only [checkResultsE] at h
    split at h
    · cases h
    split at h
    · cases h
    split at h
    · cases h
    · rename_i g hg
      split at h
      · cases h
      · split at h
        · cases h
        split at h
        · cases h
        split at h
        · cases h
        split at h
        · cases h
        split at h
        · cases h
        obtain ⟨j1, _⟩ := ih h
        refine ⟨?_, ?_⟩
        · intro g0 e; subst e; simp at hg; subst hg; exact j1 _ rfl
        · intro e _; subst e; simp at hg; exact ⟨g, hg, j1 _ rfl⟩

theorem validateE_ok_mux {ctx : Ctx} {order : PMap → PMap} {tx : ETx} {g : Gas}
    (h : validateE ctx order tx = .ok g) (hne : tx.outs ≠ []) : checkMuxE ctx order tx = .ok g := by
  unfold validateE at h
  split at h
  · cases h
  split at h
  · cases h
  split at h
  · cases h
  split at h
  · cases h
  split at h
  · cases h
  · rename_i st hst
    split at h
    · cases h
    · obtain ⟨_, j2⟩ := checkResultsE_spec hst
      obtain ⟨g1, hm, e⟩ := j2 rfl hne
      subst e; simp at h; subst h; exact hm

end BytomModel.Lemmas.TxEntries
