/-
C17 invariant on the `Micro` steps: every signature slot inside the in-memory checkpoint tree
belongs to a validator order < nVal, is distinct from the other slots of its link, and is backed by a
valid signature that was presented to the node (`Vp`) or is a vote the node posted; every posted vote
is a presented valid signature or the node's own; every justified checkpoint other than genesis
carries a link with a supermajority of such slots.  Core Lean only.
-/
import BytomModel.Lemmas.CasperInv

namespace BytomModel.Node

def SigOK (Vp : Nat → Nat → Nat → Prop) (s : State) (c : Ckpt) (l : SupLink) (sg : Sig) : Prop :=
  sg.slot < s.cfg.nVal ∧ sg.valid = true ∧ (Vp sg.slot l.src c.hash ∨ (sg.slot, l.src, c.hash) ∈ s.posted)

def Inv17 (U : Universe) (Vp : Nat → Nat → Nat → Prop) (cfg0 : Config) (s : State) : Prop :=
  Base U s ∧ s.cfg = cfg0 ∧
  (∀ c ∈ s.tree.flatten, ∀ l ∈ c.sup, (l.sigs.map (·.slot)).Nodup ∧ ∀ sg ∈ l.sigs, SigOK Vp s c l sg) ∧
  (∀ v ∈ s.posted, Vp v.1 v.2.1 v.2.2 ∨ some v.1 = s.cfg.me) ∧
  (∀ c ∈ s.tree.flatten, c.status = .justified → c.hash = U.g ∨ ∃ l ∈ c.sup, isMajority l s.cfg.nVal = true)

theorem isMajority_mono {l l' : SupLink} {n : Nat} (h : l.sigs.length ≤ l'.sigs.length)
    (hm : isMajority l n = true) : isMajority l' n = true := by
  unfold isMajority at *
  simp only [gt_iff_lt, decide_eq_true_eq] at *
  omega

theorem isMajority_default (n : Nat) : isMajority default n = false := by
  have h : (default : SupLink).sigs = [] := rfl
  unfold isMajority
  simp [h]

theorem Micro.preserves_Inv17 {U : Universe} {Vp : Nat → Nat → Nat → Prop} {cfg0 : Config} {s s' : State}
    (hi : Inv17 U Vp cfg0 s) (m : Micro U Vp s s') : Inv17 U Vp cfg0 s' := by
  obtain ⟨hb, hcfg, hsig, hpost, hjust⟩ := hi
  have hb' := Micro.preserves_Base hb m
  have hst := hb.2.2.1
  cases m with
  | frame e =>
    obtain ⟨e1, e2, _, _, e5⟩ := e
    refine ⟨hb', e1 ▸ hcfg, ?_, ?_, ?_⟩
    · intro c hc l hl
      rw [e2] at hc
      obtain ⟨h1, h2⟩ := hsig c hc l hl
      exact ⟨h1, fun sg hsg => by unfold SigOK; rw [e1, e5]; exact h2 sg hsg⟩
    · rw [e5, e1]; exact hpost
    · rw [e2, e1]; exact hjust
  | grow b hbU hm =>
    refine ⟨hb', hcfg, ?_, hpost, ?_⟩
    · intro c hc l hl
      rcases Tree.mem_update hc with hc | ⟨r, hr, rfl⟩
      · exact hsig c hc l hl
      · obtain ⟨hg, _⟩ := hb.grow_target hbU hm hr
        have hsup := (hst _ (Tree.find_mem hr)).2 hg
        simp [increase, hsup] at hl
    · intro c hc hj
      rcases Tree.mem_update hc with hc | ⟨r, hr, rfl⟩
      · exact hjust c hc hj
      · obtain ⟨hg, _⟩ := hb.grow_target hbU hm hr
        exfalso
        simp only [increase] at hj
        split at hj
        · cases hj
        · rw [hg] at hj; cases hj
  | child b pn hbU hm hf =>
    refine ⟨hb', hcfg, ?_, hpost, ?_⟩
    · intro c hc l hl
      rcases Tree.mem_addChild _ _ _ _ hc with hc | rfl
      · exact hsig c hc l hl
      · simp [increase, newCkpt] at hl
    · intro c hc hj
      rcases Tree.mem_addChild _ _ _ _ hc with hc | rfl
      · exact hjust c hc hj
      · exfalso
        simp only [increase, newCkpt] at hj
        split at hj <;> cases hj
  | addSig tgt o src srcH tn shd hshd hshh hf ho h1 h2 h3 hsp hv =>
    refine ⟨hb', hcfg, ?_, hpost, ?_⟩
    · intro c hc l hl
      rcases Tree.mem_update hc with hc | ⟨r, hr, rfl⟩
      · exact hsig c hc l hl
      · have hrm := Tree.find_mem hr
        have hrh : r.ckpt.hash = tgt := by have := Tree.find_pred hr; simpa [byHash] using this
        have hnd := addSupLink_nodup (src := src) (h := srcH) (s := { slot := o, valid := true })
          (fun l hl => (hsig _ hrm l hl).1)
        refine ⟨hnd l hl, ?_⟩
        intro sg hsg
        rcases mem_addSupLink hl with hl | ⟨hls, hsigs⟩
        · exact (hsig _ hrm l hl).2 sg hsg
        · rcases hsigs sg hsg with rfl | ⟨l0, hl0, hl0s, _, hsg0⟩
          · exact ⟨ho, rfl, by rw [hls]; show _ ∨ (o, src, r.ckpt.hash) ∈ s.posted; rw [hrh]; exact hv⟩
          · have := (hsig _ hrm l0 hl0).2 sg hsg0
            unfold SigOK at this ⊢
            rw [hls, ← hl0s]; exact this
    · intro c hc hj
      rcases Tree.mem_update hc with hc | ⟨r, hr, rfl⟩
      · exact hjust c hc hj
      · have hrm := Tree.find_mem hr
        rcases hjust _ hrm hj with h | ⟨l, hl, hmaj⟩
        · exact Or.inl h
        · obtain ⟨l', hl', _, _, hlen⟩ := addSupLink_keeps (src := src) (h := srcH) (s := { slot := o, valid := true })
            (fun l hl => (hsig _ hrm l hl).1) hl
          exact Or.inr ⟨l', hl', isMajority_mono hlen hmaj⟩
  | justify tgt src tn source hd hf hstat hmaj _ _ _ _ _ =>
    refine ⟨hb', hcfg, ?_, hpost, ?_⟩
    · intro c hc l hl
      rcases Tree.mem_update hc with hc | ⟨r, hr, rfl⟩
      · exact hsig c hc l hl
      · exact hsig _ (Tree.find_mem hr) l hl
    · intro c hc hj
      rcases Tree.mem_update hc with hc | ⟨r, hr, rfl⟩
      · exact hjust c hc hj
      · have : r = tn := Option.some.inj (hr.symm.trans hf)
        subst this
        right
        cases hfl : findLink r.ckpt.sup src with
        | none => rw [hfl] at hmaj; simp [isMajority_default] at hmaj
        | some l => rw [hfl] at hmaj; exact ⟨l, (findLink_mem hfl).1, hmaj⟩
  | reroot tgt tn source hd c cs _ _ _ _ _ _ _ _ _ hf =>
    have hsub := Tree.find_sub _ _ _ hf
    refine ⟨hb', hcfg, ?_, hpost, ?_⟩
    · intro x hx l hl
      simp only [Tree.flatten, List.mem_cons] at hx
      rcases hx with rfl | hx
      · exact hsig c (hsub c (by simp [Tree.flatten])) l hl
      · exact hsig x (hsub x (by simp [Tree.flatten, hx])) l hl
    · intro x hx hj
      simp only [Tree.flatten, List.mem_cons] at hx
      rcases hx with rfl | hx
      · cases hj
      · exact hjust x (hsub x (by simp [Tree.flatten, hx])) hj
  | saveTarget _ _ _ => exact ⟨hb', hcfg, hsig, hpost, hjust⟩
  | saveSource _ _ => exact ⟨hb', hcfg, hsig, hpost, hjust⟩
  | storeHeader _ _ => exact ⟨hb', hcfg, hsig, hpost, hjust⟩
  | voteHeader _ _ _ _ _ _ _ => exact ⟨hb', hcfg, hsig, hpost, hjust⟩
  | post v hv =>
    refine ⟨hb', hcfg, ?_, ?_, hjust⟩
    · intro c hc l hl
      obtain ⟨h1, h2⟩ := hsig c hc l hl
      refine ⟨h1, fun sg hsg => ?_⟩
      obtain ⟨q1, q2, q3⟩ := h2 sg hsg
      exact ⟨q1, q2, q3.imp id (fun h => List.mem_append_left _ h)⟩
    · intro w hw
      rcases List.mem_append.mp hw with hw | hw
      · exact hpost w hw
      · simp only [List.mem_singleton] at hw; subst hw; exact hv

theorem Inv17_init (U : Universe) (Vp : Nat → Nat → Nat → Prop) (cfg : Config) (genesis : Header)
    (he : 2 ≤ cfg.epoch) (hg : genesis.id = U.g) (h0 : genesis.height = 0) :
    Inv17 U Vp cfg (State.init cfg genesis) := by
  refine ⟨Base_init U cfg genesis he hg h0, rfl, ?_, ?_, ?_⟩
  · intro c hc
    simp only [State.init, Tree.flatten, Tree.flattenList, List.mem_cons, List.not_mem_nil, or_false] at hc
    subst hc; intro l hl; simp at hl
  · intro v hv; simp [State.init] at hv
  · intro c hc _
    simp only [State.init, Tree.flatten, Tree.flattenList, List.mem_cons, List.not_mem_nil, or_false] at hc
    subst hc; exact Or.inl hg

/-- what a step that makes a checkpoint justified / finalized has checked -/
theorem Micro.justified_step {U : Universe} {Vp : Nat → Nat → Nat → Prop} {s s' : State}
    (hb : Base U s) (m : Micro U Vp s s') (c' : Ckpt) (hc' : c' ∈ s'.tree.flatten) (hj : c'.status = .justified) :
    (∃ c ∈ s.tree.flatten, c.status = .justified ∧ c.hash = c'.hash) ∨
    (∃ source ∈ s.ckpts, source.status = .justified ∧
      ∃ l ∈ c'.sup, l.src = source.hash ∧ isMajority l s.cfg.nVal = true) := by
  have hst := hb.2.2.1
  cases m with
  | frame e => rw [e.2.1] at hc'; exact Or.inl ⟨c', hc', hj, rfl⟩
  | grow b hbU hm =>
    rcases Tree.mem_update hc' with hc | ⟨r, hr, rfl⟩
    · exact Or.inl ⟨c', hc, hj, rfl⟩
    · obtain ⟨hg, _⟩ := hb.grow_target hbU hm hr
      exfalso
      simp only [increase] at hj
      split at hj
      · cases hj
      · rw [hg] at hj; cases hj
  | child b pn hbU hm hf =>
    rcases Tree.mem_addChild _ _ _ _ hc' with hc | rfl
    · exact Or.inl ⟨c', hc, hj, rfl⟩
    · exfalso
      simp only [increase, newCkpt] at hj
      split at hj <;> cases hj
  | addSig tgt o src srcH tn shd hshd hshh hf _ _ _ _ _ _ =>
    rcases Tree.mem_update hc' with hc | ⟨r, hr, rfl⟩
    · exact Or.inl ⟨c', hc, hj, rfl⟩
    · exact Or.inl ⟨r.ckpt, Tree.find_mem hr, hj, rfl⟩
  | justify tgt src tn source hd hf hstat hmaj hsm hsh hsj _ _ =>
    rcases Tree.mem_update hc' with hc | ⟨r, hr, rfl⟩
    · exact Or.inl ⟨c', hc, hj, rfl⟩
    · have : r = tn := Option.some.inj (hr.symm.trans hf)
      subst this
      right
      refine ⟨source, hsm, hsj, ?_⟩
      cases hfl : findLink r.ckpt.sup src with
      | none => rw [hfl] at hmaj; simp [isMajority_default] at hmaj
      | some l => rw [hfl] at hmaj; exact ⟨l, (findLink_mem hfl).1, by rw [(findLink_mem hfl).2, hsh], hmaj⟩
  | reroot tgt tn source hd c cs _ _ _ _ _ _ _ _ _ hf =>
    have hsub := Tree.find_sub _ _ _ hf
    simp only [Tree.flatten, List.mem_cons] at hc'
    rcases hc' with rfl | hx
    · cases hj
    · exact Or.inl ⟨c', hsub c' (by simp [Tree.flatten, hx]), hj, rfl⟩
  | saveTarget _ _ _ => exact Or.inl ⟨c', hc', hj, rfl⟩
  | saveSource _ _ => exact Or.inl ⟨c', hc', hj, rfl⟩
  | storeHeader _ _ => exact Or.inl ⟨c', hc', hj, rfl⟩
  | voteHeader _ _ _ _ _ _ _ => exact Or.inl ⟨c', hc', hj, rfl⟩
  | post _ _ => exact Or.inl ⟨c', hc', hj, rfl⟩

theorem Micro.finalized_step {U : Universe} {Vp : Nat → Nat → Nat → Prop} {s s' : State}
    (hb : Base U s) (m : Micro U Vp s s') (c' : Ckpt) (hc' : c' ∈ s'.tree.flatten) (hj : c'.status = .finalized) :
    (∃ c ∈ s.tree.flatten, c.status = .finalized ∧ c.hash = c'.hash) ∨
    (c' = s'.tree.ckpt ∧ ∃ child ∈ s.tree.flatten, child.status = .justified ∧ child.parentHash = c'.hash ∧
      isMajority ((findLink child.sup c'.hash).getD default) s.cfg.nVal = true ∧
      ∃ source ∈ s.ckpts, source.hash = c'.hash ∧ source.status = .justified) := by
  cases m with
  | frame e => rw [e.2.1] at hc'; exact Or.inl ⟨c', hc', hj, rfl⟩
  | grow b hbU hm =>
    rcases Tree.mem_update hc' with hc | ⟨r, hr, rfl⟩
    · exact Or.inl ⟨c', hc, hj, rfl⟩
    · obtain ⟨hg, _⟩ := hb.grow_target hbU hm hr
      exfalso
      simp only [increase] at hj
      split at hj
      · cases hj
      · rw [hg] at hj; cases hj
  | child b pn hbU hm hf =>
    rcases Tree.mem_addChild _ _ _ _ hc' with hc | rfl
    · exact Or.inl ⟨c', hc, hj, rfl⟩
    · exfalso
      simp only [increase, newCkpt] at hj
      split at hj <;> cases hj
  | addSig tgt o src srcH tn shd hshd hshh hf _ _ _ _ _ _ =>
    rcases Tree.mem_update hc' with hc | ⟨r, hr, rfl⟩
    · exact Or.inl ⟨c', hc, hj, rfl⟩
    · exact Or.inl ⟨r.ckpt, Tree.find_mem hr, hj, rfl⟩
  | justify tgt src tn source hd hf _ _ _ _ _ _ _ =>
    rcases Tree.mem_update hc' with hc | ⟨r, hr, rfl⟩
    · exact Or.inl ⟨c', hc, hj, rfl⟩
    · cases hj
  | reroot tgt tn source hd c cs hft htj htp hmaj hsm hsj _ _ _ hf =>
    have hsub := Tree.find_sub _ _ _ hf
    have hch : c.hash = source.hash := by have := Tree.find_pred hf; simpa [byHash, Tree.ckpt] using this
    simp only [Tree.flatten, List.mem_cons] at hc'
    rcases hc' with rfl | hx
    · right
      refine ⟨rfl, tn.ckpt, Tree.find_mem hft, htj, by simpa [hch] using htp, by simpa [hch] using hmaj,
        source, hsm, by simp [hch], hsj⟩
    · exact Or.inl ⟨c', hsub c' (by simp [Tree.flatten, hx]), hj, rfl⟩
  | saveTarget _ _ _ => exact Or.inl ⟨c', hc', hj, rfl⟩
  | saveSource _ _ => exact Or.inl ⟨c', hc', hj, rfl⟩
  | storeHeader _ _ => exact Or.inl ⟨c', hc', hj, rfl⟩
  | voteHeader _ _ _ _ _ _ _ => exact Or.inl ⟨c', hc', hj, rfl⟩
  | post _ _ => exact Or.inl ⟨c', hc', hj, rfl⟩

end BytomModel.Node
