/-
Map semantics of the ledger views.  A view is read through `vget` only (plus the folds of
`saveView` / `loadSpent`), so every operation of `Model/Ledger` is a function on
`St = Nat → Option Entry`.  During a reorganisation the node works on an in-memory view `w`
layered over the persisted table `db` (entries are pulled in by `getTransactionsUtxo` =
`loadSpent` just before a block is applied / detached); `eff db w` is the state the node
effectively sees, and the lemmas `*_refines` show that the list operations on `w` compute the
function-level operations on `eff db w`.
Core Lean only.
-/
import BytomModel.Lemmas.LedgerAlist
namespace BytomModel.Lemmas.Ledger
open BytomModel.Ledger

abbrev St := Nat → Option Entry

def upd (σ : St) (k : Nat) (e : Option Entry) : St := fun j => if j = k then e else σ j

@[simp] theorem upd_same (σ : St) (k : Nat) (e : Option Entry) : upd σ k e k = e := by simp [upd]
theorem upd_other (σ : St) {k j : Nat} (e : Option Entry) (h : j ≠ k) : upd σ k e j = σ j := by simp [upd, h]

/-! ### function-level operations (same text as the model, `vget`/`vset` replaced) -/

def applySpendF (p : Params) (height : Nat) : List Nat → St → Option St
  | [], σ => some σ
  | o :: os, σ =>
    match σ o with
    | none => none
    | some e =>
      if e.spent then none
      else if e.typ == 1 && e.height + p.coinbasePending > height then none
      else if e.typ == 2 && e.height + p.votePending > height then none
      else applySpendF p height os (upd σ o (some { e with spent := true }))

def applyOutputF (height : Nat) (isCoinbase : Bool) : List TxOut → St → St
  | [], σ => σ
  | o :: os, σ =>
    match utxoType o.kind with
    | none => applyOutputF height isCoinbase os σ
    | some t =>
      if o.amount == 0 then applyOutputF height isCoinbase os σ
      else applyOutputF height isCoinbase os
        (upd σ o.id (some { typ := if isCoinbase then 1 else t, height := height, spent := false }))

def applyBlockF (p : Params) (height : Nat) : Bool → List Tx → St → Option St
  | _, [], σ => some σ
  | first, t :: ts, σ =>
    match applySpendF p height t.ins σ with
    | none => none
    | some σ1 => applyBlockF p height false ts (applyOutputF height first t.outs σ1)

def detachSpendF (kindOf : Nat → OutKind) : List Nat → St → Option St
  | [], σ => some σ
  | o :: os, σ =>
    match utxoType (kindOf o) with
    | none => none
    | some t =>
      match σ o with
      | some e =>
        if !e.spent then none
        else detachSpendF kindOf os (upd σ o (some { e with spent := false }))
      | none => detachSpendF kindOf os (upd σ o (some { typ := t, height := 0, spent := false }))

def detachOutputF : List TxOut → St → St
  | [], σ => σ
  | o :: os, σ =>
    match utxoType o.kind with
    | none => detachOutputF os σ
    | some t =>
      if o.amount == 0 then detachOutputF os σ
      else detachOutputF os (upd σ o.id (some { typ := t, height := 0, spent := true }))

def detachTxF (kindOf : Nat → OutKind) (t : Tx) (σ : St) : Option St :=
  match detachSpendF kindOf t.ins σ with
  | none => none
  | some σ1 => some (detachOutputF t.outs σ1)

/-- detach a list of transactions in the given order -/
def detachListF (kindOf : Nat → OutKind) : List Tx → St → Option St
  | [], σ => some σ
  | t :: ts, σ =>
    match detachTxF kindOf t σ with
    | none => none
    | some σ1 => detachListF kindOf ts σ1

/-! ### the overlay -/

def eff (db w : View) : St := fun k => match vget w k with | some e => some e | none => vget db k

/-- the view holds `o` whenever the table does (`getTransactionsUtxo` has been run for `o`) -/
def Loaded (db w : View) (o : Nat) : Prop := vget w o = none → vget db o = none

theorem eff_nil (db : View) : eff db [] = vget db := by
  funext k; simp [eff, vget_eq]

theorem vget_vset (v : View) (k : Nat) (e : Entry) (j : Nat) :
    vget (vset v k e) j = if j = k then some e else vget v j := by
  rw [vget_eq, vset_eq, aget_aset]; rfl

theorem vget_vdel (v : View) (k : Nat) (j : Nat) :
    vget (vdel v k) j = if j = k then none else vget v j := by
  rw [vget_eq, vdel_eq, aget_adel]; rfl

theorem eff_vset (db w : View) (k : Nat) (e : Entry) : eff db (vset w k e) = upd (eff db w) k (some e) := by
  funext j
  unfold eff upd
  rw [vget_vset]
  by_cases h : j = k <;> simp [h]

theorem eff_of_loaded {db w : View} {o : Nat} (h : Loaded db w o) : eff db w o = vget w o := by
  unfold eff
  cases hv : vget w o with
  | some e => rfl
  | none => simpa using h hv

/-- `w'` arises from `w` by writes only -/
inductive VsetStar : View → View → Prop
  | refl (w : View) : VsetStar w w
  | step {w w' : View} (k : Nat) (e : Entry) : VsetStar (vset w k e) w' → VsetStar w w'

theorem VsetStar.trans {a b c : View} (h1 : VsetStar a b) (h2 : VsetStar b c) : VsetStar a c := by
  induction h1 with
  | refl => exact h2
  | step k e _ ih => exact .step k e (ih h2)

theorem VsetStar.nodup {w w' : View} (h : VsetStar w w') (hn : NodupKeys w) : NodupKeys w' := by
  induction h with
  | refl => exact hn
  | step k e _ ih => exact ih (by rw [vset_eq]; exact nodupKeys_aset hn k e)

theorem VsetStar.loaded {db w w' : View} (h : VsetStar w w') {o : Nat} (hl : Loaded db w o) : Loaded db w' o := by
  induction h with
  | refl => exact hl
  | step k e _ ih =>
    apply ih
    intro hv
    rw [vget_vset] at hv
    by_cases hk : o = k
    · simp [hk] at hv
    · simp only [hk, if_false] at hv
      exact hl hv

/-! ### refinement of the four loops -/

theorem applySpend_star {p : Params} {h : Nat} {ins : List Nat} {w w' : View}
    (hr : applySpend p h ins w = some w') : VsetStar w w' := by
  induction ins generalizing w with
  | nil => simp [applySpend] at hr; subst hr; exact .refl _
  | cons o os ih =>
    unfold applySpend at hr
    split at hr
    · simp at hr
    · split at hr
      · simp at hr
      · split at hr
        · simp at hr
        · split at hr
          · simp at hr
          · exact .step _ _ (ih hr)

theorem applySpend_refines (db : View) (p : Params) (h : Nat) (ins : List Nat) (w : View)
    (hl : ∀ o ∈ ins, Loaded db w o) :
    (applySpend p h ins w).map (eff db) = applySpendF p h ins (eff db w) := by
  induction ins generalizing w with
  | nil => simp [applySpend, applySpendF]
  | cons o os ih =>
    have ho : eff db w o = vget w o := eff_of_loaded (hl o (by simp))
    unfold applySpend applySpendF
    rw [ho]
    cases hv : vget w o with
    | none => simp
    | some e =>
      simp only
      by_cases h1 : e.spent = true
      · simp [h1]
      · by_cases h2 : (e.typ == 1 && decide (e.height + p.coinbasePending > h)) = true
        · simp [h1, h2]
        · by_cases h3 : (e.typ == 2 && decide (e.height + p.votePending > h)) = true
          · simp [h1, h2, h3]
          · simp only [h1, h2, h3, if_false, Bool.false_eq_true]
            rw [ih, eff_vset]
            intro o' ho'
            exact (VsetStar.step o _ (.refl _)).loaded (hl o' (by simp [ho']))

theorem applyOutput_star (h : Nat) (c : Bool) (outs : List TxOut) (w : View) :
    VsetStar w (applyOutput h c outs w) := by
  induction outs generalizing w with
  | nil => exact .refl _
  | cons o os ih =>
    unfold applyOutput
    split
    · exact ih w
    · split
      · exact ih w
      · exact .step _ _ (ih _)

theorem applyOutput_refines (db : View) (h : Nat) (c : Bool) (outs : List TxOut) (w : View) :
    eff db (applyOutput h c outs w) = applyOutputF h c outs (eff db w) := by
  induction outs generalizing w with
  | nil => rfl
  | cons o os ih =>
    unfold applyOutput applyOutputF
    cases hk : utxoType o.kind with
    | none => exact ih w
    | some t =>
      simp only
      by_cases ha : (o.amount == 0) = true
      · simp only [ha, if_true]; exact ih w
      · simp only [ha, if_false, Bool.false_eq_true]; rw [ih, eff_vset]

theorem applyBlockTxs_star {p : Params} {h : Nat} {first : Bool} {txs : List Tx} {w w' : View}
    (hr : applyBlockTxs p h first txs w = some w') : VsetStar w w' := by
  induction txs generalizing w first with
  | nil => simp [applyBlockTxs] at hr; subst hr; exact .refl _
  | cons t ts ih =>
    unfold applyBlockTxs at hr
    split at hr
    · simp at hr
    · rename_i v1 hs
      exact (applySpend_star hs).trans ((applyOutput_star _ _ _ _).trans (ih hr))

theorem applyBlockTxs_refines (db : View) (p : Params) (h : Nat) (first : Bool) (txs : List Tx) (w : View)
    (hl : ∀ t ∈ txs, ∀ o ∈ t.ins, Loaded db w o) :
    (applyBlockTxs p h first txs w).map (eff db) = applyBlockF p h first txs (eff db w) := by
  induction txs generalizing w first with
  | nil => simp [applyBlockTxs, applyBlockF]
  | cons t ts ih =>
    unfold applyBlockTxs applyBlockF
    have hs := applySpend_refines db p h t.ins w (hl t (by simp))
    cases hv : applySpend p h t.ins w with
    | none =>
      rw [hv] at hs
      simp only [Option.map_none] at hs
      simp [← hs]
    | some v1 =>
      rw [hv] at hs
      simp only [Option.map_some] at hs
      simp only [← hs]
      rw [ih, applyOutput_refines]
      intro t' ht' o ho
      exact ((applySpend_star hv).trans (applyOutput_star _ _ _ _)).loaded (hl t' (by simp [ht']) o ho)

theorem detachSpend_star {kindOf : Nat → OutKind} {ins : List Nat} {w w' : View}
    (hr : detachSpend kindOf ins w = some w') : VsetStar w w' := by
  induction ins generalizing w with
  | nil => simp [detachSpend] at hr; subst hr; exact .refl _
  | cons o os ih =>
    unfold detachSpend at hr
    split at hr
    · simp at hr
    · split at hr
      · split at hr
        · simp at hr
        · exact .step _ _ (ih hr)
      · exact .step _ _ (ih hr)

theorem detachSpend_refines (db : View) (kindOf : Nat → OutKind) (ins : List Nat) (w : View)
    (hl : ∀ o ∈ ins, Loaded db w o) :
    (detachSpend kindOf ins w).map (eff db) = detachSpendF kindOf ins (eff db w) := by
  induction ins generalizing w with
  | nil => simp [detachSpend, detachSpendF]
  | cons o os ih =>
    have ho : eff db w o = vget w o := eff_of_loaded (hl o (by simp))
    unfold detachSpend detachSpendF
    rw [ho]
    cases hk : utxoType (kindOf o) with
    | none => simp
    | some t =>
      simp only
      cases hv : vget w o with
      | none =>
        simp only
        rw [ih, eff_vset]
        intro o' ho'
        exact (VsetStar.step o _ (.refl _)).loaded (hl o' (by simp [ho']))
      | some e =>
        simp only
        by_cases h1 : (!e.spent) = true
        · simp [h1]
        · simp only [h1, if_false, Bool.false_eq_true]
          rw [ih, eff_vset]
          intro o' ho'
          exact (VsetStar.step o _ (.refl _)).loaded (hl o' (by simp [ho']))

theorem detachOutput_star (outs : List TxOut) (w : View) : VsetStar w (detachOutput outs w) := by
  induction outs generalizing w with
  | nil => exact .refl _
  | cons o os ih =>
    unfold detachOutput
    split
    · exact ih w
    · split
      · exact ih w
      · exact .step _ _ (ih _)

theorem detachOutput_refines (db : View) (outs : List TxOut) (w : View) :
    eff db (detachOutput outs w) = detachOutputF outs (eff db w) := by
  induction outs generalizing w with
  | nil => rfl
  | cons o os ih =>
    unfold detachOutput detachOutputF
    cases hk : utxoType o.kind with
    | none => exact ih w
    | some t =>
      simp only
      by_cases ha : (o.amount == 0) = true
      · simp only [ha, if_true]; exact ih w
      · simp only [ha, if_false, Bool.false_eq_true]; rw [ih, eff_vset]

/-- the body of `detachBlockTxs`'s fold -/
def detachTx (kindOf : Nat → OutKind) (t : Tx) (w : View) : Option View :=
  match detachSpend kindOf t.ins w with
  | none => none
  | some v1 => some (detachOutput t.outs v1)

def detachList (kindOf : Nat → OutKind) : List Tx → View → Option View
  | [], w => some w
  | t :: ts, w =>
    match detachTx kindOf t w with
    | none => none
    | some w1 => detachList kindOf ts w1

theorem detachBlockTxs_eq (kindOf : Nat → OutKind) (txs : List Tx) (w : View) :
    detachBlockTxs kindOf txs w = detachList kindOf txs.reverse w := by
  unfold detachBlockTxs
  generalize txs.reverse = l
  have none_fix : ∀ l : List Tx, l.foldl (fun (acc : Option View) t =>
      match acc with
      | none => none
      | some v0 =>
        match detachSpend kindOf t.ins v0 with
        | none => none
        | some v1 => some (detachOutput t.outs v1)) none = none := by
    intro l; induction l with
    | nil => rfl
    | cons t ts ih => simpa using ih
  induction l generalizing w with
  | nil => rfl
  | cons t ts ih =>
    rw [List.foldl_cons]
    unfold detachList detachTx
    cases hs : detachSpend kindOf t.ins w with
    | none => simp only [hs]; exact none_fix ts
    | some v1 => simp only [hs]; exact ih (detachOutput t.outs v1)

theorem detachTx_star {kindOf : Nat → OutKind} {t : Tx} {w w' : View}
    (hr : detachTx kindOf t w = some w') : VsetStar w w' := by
  unfold detachTx at hr
  split at hr
  · simp at hr
  · rename_i v1 hs
    simp at hr; subst hr
    exact (detachSpend_star hs).trans (detachOutput_star _ _)

theorem detachTx_refines (db : View) (kindOf : Nat → OutKind) (t : Tx) (w : View)
    (hl : ∀ o ∈ t.ins, Loaded db w o) :
    (detachTx kindOf t w).map (eff db) = detachTxF kindOf t (eff db w) := by
  unfold detachTx detachTxF
  have hs := detachSpend_refines db kindOf t.ins w hl
  cases hv : detachSpend kindOf t.ins w with
  | none => rw [hv] at hs; simp only [Option.map_none] at hs; simp [← hs]
  | some v1 =>
    rw [hv] at hs; simp only [Option.map_some] at hs
    simp [← hs, detachOutput_refines]

theorem detachList_star {kindOf : Nat → OutKind} {ts : List Tx} {w w' : View}
    (hr : detachList kindOf ts w = some w') : VsetStar w w' := by
  induction ts generalizing w with
  | nil => simp [detachList] at hr; subst hr; exact .refl _
  | cons t ts ih =>
    unfold detachList at hr
    split at hr
    · simp at hr
    · rename_i w1 h1
      exact (detachTx_star h1).trans (ih hr)

theorem detachList_refines (db : View) (kindOf : Nat → OutKind) (ts : List Tx) (w : View)
    (hl : ∀ t ∈ ts, ∀ o ∈ t.ins, Loaded db w o) :
    (detachList kindOf ts w).map (eff db) = detachListF kindOf ts (eff db w) := by
  induction ts generalizing w with
  | nil => simp [detachList, detachListF]
  | cons t ts ih =>
    unfold detachList detachListF
    have hs := detachTx_refines db kindOf t w (hl t (by simp))
    cases hv : detachTx kindOf t w with
    | none => rw [hv] at hs; simp only [Option.map_none] at hs; simp [← hs]
    | some w1 =>
      rw [hv] at hs; simp only [Option.map_some] at hs
      simp only [← hs]
      apply ih
      intro t' ht' o ho
      exact (detachTx_star hv).loaded (hl t' (by simp [ht']) o ho)

/-! ### `loadSpent` and `saveView` -/

def loadStep (db : View) (v1 : View) (o : Nat) : View :=
  match vget v1 o with
  | some _ => v1
  | none => match vget db o with
    | some e => vset v1 o e
    | none => v1

theorem loadSpent_eq (db : View) (txs : List Tx) (v : View) :
    loadSpent db txs v = (txs.flatMap (·.ins)).foldl (loadStep db) v := by
  unfold loadSpent
  induction txs generalizing v with
  | nil => rfl
  | cons t ts ih =>
    rw [List.foldl_cons, ih, List.flatMap_cons, List.foldl_append]
    rfl

theorem loadStep_star (db v : View) (o : Nat) : VsetStar v (loadStep db v o) := by
  unfold loadStep
  split
  · exact .refl _
  · split
    · exact .step _ _ (.refl _)
    · exact .refl _

theorem loadStep_eff (db v : View) (o : Nat) : eff db (loadStep db v o) = eff db v := by
  unfold loadStep
  split
  · rfl
  · rename_i hv
    split
    · rename_i e he
      rw [eff_vset]
      funext j
      unfold upd eff
      by_cases hj : j = o
      · subst hj; simp [hv, he]
      · simp [hj]
    · rfl

theorem loadStep_loaded (db v : View) (o : Nat) : Loaded db (loadStep db v o) o := by
  unfold loadStep Loaded
  split
  · rename_i e he; intro h; rw [he] at h; cases h
  · split
    · intro h; rw [vget_vset] at h; simp at h
    · rename_i hd; intro _; exact hd

theorem loadIds_star (db : View) (os : List Nat) (v : View) : VsetStar v (os.foldl (loadStep db) v) := by
  induction os generalizing v with
  | nil => exact .refl _
  | cons o os ih => exact (loadStep_star db v o).trans (ih _)

theorem loadIds_eff (db : View) (os : List Nat) (v : View) : eff db (os.foldl (loadStep db) v) = eff db v := by
  induction os generalizing v with
  | nil => rfl
  | cons o os ih => rw [List.foldl_cons, ih, loadStep_eff]

theorem loadIds_loaded (db : View) (os : List Nat) (v : View) {o : Nat} (ho : o ∈ os) :
    Loaded db (os.foldl (loadStep db) v) o := by
  induction os generalizing v with
  | nil => simp at ho
  | cons o' os ih =>
    rw [List.foldl_cons]
    rcases List.mem_cons.mp ho with h | h
    · subst h
      exact (loadIds_star db os _).loaded (loadStep_loaded db v o)
    · exact ih _ h

theorem loadSpent_star (db : View) (txs : List Tx) (v : View) : VsetStar v (loadSpent db txs v) := by
  rw [loadSpent_eq]; exact loadIds_star _ _ _

theorem loadSpent_eff (db : View) (txs : List Tx) (v : View) : eff db (loadSpent db txs v) = eff db v := by
  rw [loadSpent_eq]; exact loadIds_eff _ _ _

theorem loadSpent_loaded (db : View) (txs : List Tx) (v : View) :
    ∀ t ∈ txs, ∀ o ∈ t.ins, Loaded db (loadSpent db txs v) o := by
  intro t ht o ho
  rw [loadSpent_eq]
  apply loadIds_loaded
  simp only [List.mem_flatMap]
  exact ⟨t, ht, ho⟩

/-- what `saveUtxoView` keeps -/
def keep (e : Entry) : Bool := !(e.spent && e.typ != 1 && e.typ != 2)

theorem vget_saveView (db v : View) (hv : NodupKeys v) (j : Nat) :
    vget (saveView db v) j = match vget v j with
      | some e => if keep e then some e else none
      | none => vget db j := by
  have := aget_foldl_save (fun e : Entry => e.spent && e.typ != 1 && e.typ != 2) v hv db j
  unfold saveView
  rw [vget_eq, vget_eq, vget_eq]
  rw [show (List.foldl (fun d (x : Nat × Entry) =>
        match x with
        | (k, e) => if (e.spent && e.typ != 1 && e.typ != 2) = true then vdel d k else vset d k e) db v)
      = (List.foldl (fun d (p : Nat × Entry) =>
        if (p.2.spent && p.2.typ != 1 && p.2.typ != 2) = true then adel d p.1 else aset d p.1 p.2) db v) from rfl]
  rw [this]
  cases aget v j with
  | none => rfl
  | some e =>
    simp only [keep]
    by_cases h : (e.spent && e.typ != 1 && e.typ != 2) = true <;> simp [h]

end BytomModel.Lemmas.Ledger
