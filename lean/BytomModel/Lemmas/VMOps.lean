/-
Per-opcode gas lemmas: every op handler satisfies `OpOK M k` for its minimal cost `k`
(the reference cost table of C08 / the step lemma of C07).  Generic in the memory; the only
memory law used is `read_length_le`/`len_fresh` (for INVERT).
-/
import BytomModel.Lemmas.VMGas
namespace BytomModel.VM
open OpM
set_option linter.unusedSimpArgs false
set_option linter.unusedVariables false
set_option linter.unnecessarySeqFocus false
set_option linter.unusedTactic false
set_option linter.unreachableTactic false

theorem bigIntInt64_ok_iff (n : Nat) (v : Int) : bigIntInt64 n = .ok v ↔ n < two63 ∧ v = (n : Int) := by
  unfold bigIntInt64 two64 two63
  constructor
  · intro h
    split at h
    · cases h
    · split at h
      · cases h
      · cases h; constructor
        · omega
        · rfl
  · rintro ⟨h1, h2⟩
    subst h2
    rw [if_neg (by omega), if_neg (by omega)]
    rfl

/-- symbolic execution of an op handler (everything becomes implications/conjunctions of
    linear arithmetic), then `omega` -/
syntax "vm_gas" "[" Lean.Parser.Tactic.simpLemma,* "]" : tactic
macro_rules
  | `(tactic| vm_gas [$ts,*]) => `(tactic| (
      simp [bind_run, applyCost_run, pushItem_def, pushItem_imm, popBigInt, popBytes,
        popInt64, pushBytes, pushBool, pushBigInt, pushNth_run, $ts,*] <;>
      (repeat' (first | apply And.intro | intro _)) <;>
      simp_all [OpOK, frameA, stackCost, itemCost, SameCtl, bigIntInt64_ok_iff] <;>
      omega))

section
variable {μ ι : Type} (M : MemOps μ ι) (ctx : Context ι)

theorem opFalse_ok (s : St μ ι) (h : 0 ≤ s.f.runLimit) : OpOK M 1 s (opFalse M s) := by
  obtain ⟨mem, ⟨prog, pc, nextPC, rl, d, data, alt, depth, er⟩⟩ := s
  dsimp only at h
  vm_gas [opFalse]

theorem opPushdata_ok (b : Bytes) (s : St μ ι) (h : 0 ≤ s.f.runLimit) : OpOK M 1 s (opPushdata M b s) := by
  obtain ⟨mem, ⟨prog, pc, nextPC, rl, d, data, alt, depth, er⟩⟩ := s
  dsimp only at h
  vm_gas [opPushdata]

theorem opNop_ok (s : St μ ι) (h : 0 ≤ s.f.runLimit) : OpOK M 1 s ((opNop : OpM (St μ ι) Unit) s) := by
  obtain ⟨mem, ⟨prog, pc, nextPC, rl, d, data, alt, depth, er⟩⟩ := s
  dsimp only at h
  vm_gas [opNop]

theorem opVerify_ok (s : St μ ι) (h : 0 ≤ s.f.runLimit) : OpOK M 1 s (opVerify M s) := by
  obtain ⟨mem, ⟨prog, pc, nextPC, rl, d, data, alt, depth, er⟩⟩ := s
  dsimp only at h
  rcases data with _ | ⟨x1, rest⟩ <;> vm_gas [opVerify]

theorem opFail_ok (s : St μ ι) (h : 0 ≤ s.f.runLimit) : OpOK M 1 s ((opFail : OpM (St μ ι) Unit) s) := by
  obtain ⟨mem, ⟨prog, pc, nextPC, rl, d, data, alt, depth, er⟩⟩ := s
  dsimp only at h
  vm_gas [opFail]

theorem opJump_ok (b : Bytes) (s : St μ ι) (h : 0 ≤ s.f.runLimit) : OpOK M 1 s ((opJump b : OpM (St μ ι) Unit) s) := by
  obtain ⟨mem, ⟨prog, pc, nextPC, rl, d, data, alt, depth, er⟩⟩ := s
  dsimp only at h
  vm_gas [opJump]

theorem opJumpIf_ok (b : Bytes) (s : St μ ι) (h : 0 ≤ s.f.runLimit) : OpOK M 1 s (opJumpIf M b s) := by
  obtain ⟨mem, ⟨prog, pc, nextPC, rl, d, data, alt, depth, er⟩⟩ := s
  dsimp only at h
  rcases data with _ | ⟨x1, rest⟩ <;> vm_gas [opJumpIf]

theorem opToAltStack_ok (s : St μ ι) (h : 0 ≤ s.f.runLimit) : OpOK M 2 s ((opToAltStack : OpM (St μ ι) Unit) s) := by
  obtain ⟨mem, ⟨prog, pc, nextPC, rl, d, data, alt, depth, er⟩⟩ := s
  dsimp only at h
  rcases data with _ | ⟨x1, rest⟩ <;> vm_gas [opToAltStack]

theorem op2Drop_ok (s : St μ ι) (h : 0 ≤ s.f.runLimit) : OpOK M 2 s (op2Drop M s) := by
  obtain ⟨mem, ⟨prog, pc, nextPC, rl, d, data, alt, depth, er⟩⟩ := s
  dsimp only at h
  rcases data with _ | ⟨x1, _ | ⟨x2, rest⟩⟩ <;> vm_gas [op2Drop]

theorem op2Rot_ok (s : St μ ι) (h : 0 ≤ s.f.runLimit) : OpOK M 2 s ((op2Rot : OpM (St μ ι) Unit) s) := by
  obtain ⟨mem, ⟨prog, pc, nextPC, rl, d, data, alt, depth, er⟩⟩ := s
  dsimp only at h
  rcases data with _ | ⟨x1, _ | ⟨x2, _ | ⟨x3, _ | ⟨x4, _ | ⟨x5, _ | ⟨x6, rest⟩⟩⟩⟩⟩⟩ <;> vm_gas [op2Rot]

theorem op2Swap_ok (s : St μ ι) (h : 0 ≤ s.f.runLimit) : OpOK M 2 s ((op2Swap : OpM (St μ ι) Unit) s) := by
  obtain ⟨mem, ⟨prog, pc, nextPC, rl, d, data, alt, depth, er⟩⟩ := s
  dsimp only at h
  rcases data with _ | ⟨x1, _ | ⟨x2, _ | ⟨x3, _ | ⟨x4, rest⟩⟩⟩⟩ <;> vm_gas [op2Swap]

theorem opIfDup_ok (s : St μ ι) (h : 0 ≤ s.f.runLimit) : OpOK M 1 s (opIfDup M s) := by
  obtain ⟨mem, ⟨prog, pc, nextPC, rl, d, data, alt, depth, er⟩⟩ := s
  dsimp only at h
  rcases data with _ | ⟨x1, rest⟩ <;> vm_gas [opIfDup]

theorem opDepth_ok (s : St μ ι) (h : 0 ≤ s.f.runLimit) : OpOK M 1 s (opDepth M s) := by
  obtain ⟨mem, ⟨prog, pc, nextPC, rl, d, data, alt, depth, er⟩⟩ := s
  dsimp only at h
  vm_gas [opDepth]

theorem opDrop_ok (s : St μ ι) (h : 0 ≤ s.f.runLimit) : OpOK M 1 s (opDrop M s) := by
  obtain ⟨mem, ⟨prog, pc, nextPC, rl, d, data, alt, depth, er⟩⟩ := s
  dsimp only at h
  rcases data with _ | ⟨x1, rest⟩ <;> vm_gas [opDrop]

theorem opNip_ok (s : St μ ι) (h : 0 ≤ s.f.runLimit) : OpOK M 1 s (opNip M s) := by
  obtain ⟨mem, ⟨prog, pc, nextPC, rl, d, data, alt, depth, er⟩⟩ := s
  dsimp only at h
  rcases data with _ | ⟨x1, _ | ⟨x2, rest⟩⟩ <;> vm_gas [opNip]

theorem opOver_ok (s : St μ ι) (h : 0 ≤ s.f.runLimit) : OpOK M 1 s (opOver M s) := by
  obtain ⟨mem, ⟨prog, pc, nextPC, rl, d, data, alt, depth, er⟩⟩ := s
  dsimp only at h
  rcases data with _ | ⟨x1, _ | ⟨x2, rest⟩⟩ <;> vm_gas [opOver]

theorem opSwap_ok (s : St μ ι) (h : 0 ≤ s.f.runLimit) : OpOK M 1 s ((opSwap : OpM (St μ ι) Unit) s) := by
  obtain ⟨mem, ⟨prog, pc, nextPC, rl, d, data, alt, depth, er⟩⟩ := s
  dsimp only at h
  rcases data with _ | ⟨x1, _ | ⟨x2, rest⟩⟩ <;> vm_gas [opSwap]

theorem opTuck_ok (s : St μ ι) (h : 0 ≤ s.f.runLimit) : OpOK M 1 s (opTuck M s) := by
  obtain ⟨mem, ⟨prog, pc, nextPC, rl, d, data, alt, depth, er⟩⟩ := s
  dsimp only at h
  rcases data with _ | ⟨x1, _ | ⟨x2, rest⟩⟩ <;> vm_gas [opTuck]

theorem opCat_ok (s : St μ ι) (h : 0 ≤ s.f.runLimit) : OpOK M 4 s (opCat M s) := by
  obtain ⟨mem, ⟨prog, pc, nextPC, rl, d, data, alt, depth, er⟩⟩ := s
  dsimp only at h
  rcases data with _ | ⟨x1, _ | ⟨x2, rest⟩⟩ <;> vm_gas [opCat]

theorem opCatpushdata_ok (s : St μ ι) (h : 0 ≤ s.f.runLimit) : OpOK M 4 s (opCatpushdata M s) := by
  obtain ⟨mem, ⟨prog, pc, nextPC, rl, d, data, alt, depth, er⟩⟩ := s
  dsimp only at h
  rcases data with _ | ⟨x1, _ | ⟨x2, rest⟩⟩ <;> vm_gas [opCatpushdata]

theorem opSubstr_ok (s : St μ ι) (h : 0 ≤ s.f.runLimit) : OpOK M 4 s (opSubstr M s) := by
  obtain ⟨mem, ⟨prog, pc, nextPC, rl, d, data, alt, depth, er⟩⟩ := s
  dsimp only at h
  rcases data with _ | ⟨x1, _ | ⟨x2, _ | ⟨x3, rest⟩⟩⟩ <;> vm_gas [opSubstr]

theorem opLeft_ok (s : St μ ι) (h : 0 ≤ s.f.runLimit) : OpOK M 4 s (opLeft M s) := by
  obtain ⟨mem, ⟨prog, pc, nextPC, rl, d, data, alt, depth, er⟩⟩ := s
  dsimp only at h
  rcases data with _ | ⟨x1, _ | ⟨x2, rest⟩⟩ <;> vm_gas [opLeft]

theorem opRight_ok (s : St μ ι) (h : 0 ≤ s.f.runLimit) : OpOK M 4 s (opRight M s) := by
  obtain ⟨mem, ⟨prog, pc, nextPC, rl, d, data, alt, depth, er⟩⟩ := s
  dsimp only at h
  rcases data with _ | ⟨x1, _ | ⟨x2, rest⟩⟩ <;> vm_gas [opRight]

theorem opSize_ok (s : St μ ι) (h : 0 ≤ s.f.runLimit) : OpOK M 1 s (opSize M s) := by
  obtain ⟨mem, ⟨prog, pc, nextPC, rl, d, data, alt, depth, er⟩⟩ := s
  dsimp only at h
  rcases data with _ | ⟨x1, rest⟩ <;> vm_gas [opSize]

theorem opAnd_ok (s : St μ ι) (h : 0 ≤ s.f.runLimit) : OpOK M 1 s (opAnd M s) := by
  obtain ⟨mem, ⟨prog, pc, nextPC, rl, d, data, alt, depth, er⟩⟩ := s
  dsimp only at h
  rcases data with _ | ⟨x1, _ | ⟨x2, rest⟩⟩ <;> vm_gas [opAnd]

theorem doOr_ok (x : Bool) (s : St μ ι) (h : 0 ≤ s.f.runLimit) : OpOK M 1 s (doOr M x s) := by
  obtain ⟨mem, ⟨prog, pc, nextPC, rl, d, data, alt, depth, er⟩⟩ := s
  dsimp only at h
  rcases data with _ | ⟨x1, _ | ⟨x2, rest⟩⟩ <;> vm_gas [doOr]

theorem opEqual_ok (s : St μ ι) (h : 0 ≤ s.f.runLimit) : OpOK M 1 s (opEqual M s) := by
  obtain ⟨mem, ⟨prog, pc, nextPC, rl, d, data, alt, depth, er⟩⟩ := s
  dsimp only at h
  rcases data with _ | ⟨x1, _ | ⟨x2, rest⟩⟩ <;> vm_gas [opEqual, doEqual]

theorem opEqualVerify_ok (s : St μ ι) (h : 0 ≤ s.f.runLimit) : OpOK M 1 s (opEqualVerify M s) := by
  obtain ⟨mem, ⟨prog, pc, nextPC, rl, d, data, alt, depth, er⟩⟩ := s
  dsimp only at h
  rcases data with _ | ⟨x1, _ | ⟨x2, rest⟩⟩ <;> vm_gas [opEqualVerify, doEqual]

theorem unaryNum_ok (c : Int) (hc : 0 ≤ c) (fn : Nat → Except Err Bytes) (s : St μ ι) (h : 0 ≤ s.f.runLimit) : OpOK M c s (unaryNum M c fn s) := by
  obtain ⟨mem, ⟨prog, pc, nextPC, rl, d, data, alt, depth, er⟩⟩ := s
  dsimp only at h
  rcases data with _ | ⟨x1, rest⟩ <;> vm_gas [unaryNum]

theorem binaryNum_ok (c : Int) (hc : 0 ≤ c) (fn : Nat → Nat → Except Err Bytes) (s : St μ ι) (h : 0 ≤ s.f.runLimit) : OpOK M c s (binaryNum M c fn s) := by
  obtain ⟨mem, ⟨prog, pc, nextPC, rl, d, data, alt, depth, er⟩⟩ := s
  dsimp only at h
  rcases data with _ | ⟨x1, _ | ⟨x2, rest⟩⟩ <;> vm_gas [binaryNum]

theorem opBoolBin_ok (p : Bool → Bool → Bool) (s : St μ ι) (h : 0 ≤ s.f.runLimit) : OpOK M 2 s (opBoolBin M p s) := by
  obtain ⟨mem, ⟨prog, pc, nextPC, rl, d, data, alt, depth, er⟩⟩ := s
  dsimp only at h
  rcases data with _ | ⟨x1, _ | ⟨x2, rest⟩⟩ <;> vm_gas [opBoolBin]

theorem opNumEqualVerify_ok (s : St μ ι) (h : 0 ≤ s.f.runLimit) : OpOK M 2 s (opNumEqualVerify M s) := by
  obtain ⟨mem, ⟨prog, pc, nextPC, rl, d, data, alt, depth, er⟩⟩ := s
  dsimp only at h
  rcases data with _ | ⟨x1, _ | ⟨x2, rest⟩⟩ <;> vm_gas [opNumEqualVerify]

theorem opWithin_ok (s : St μ ι) (h : 0 ≤ s.f.runLimit) : OpOK M 4 s (opWithin M s) := by
  obtain ⟨mem, ⟨prog, pc, nextPC, rl, d, data, alt, depth, er⟩⟩ := s
  dsimp only at h
  rcases data with _ | ⟨x1, _ | ⟨x2, _ | ⟨x3, rest⟩⟩⟩ <;> vm_gas [opWithin]

theorem doHash_ok (hf : Bytes → Bytes) (s : St μ ι) (h : 0 ≤ s.f.runLimit) : OpOK M 64 s (doHash M hf s) := by
  obtain ⟨mem, ⟨prog, pc, nextPC, rl, d, data, alt, depth, er⟩⟩ := s
  dsimp only at h
  rcases data with _ | ⟨x1, rest⟩ <;> vm_gas [doHash]

theorem opHash160_ok (s : St μ ι) (h : 0 ≤ s.f.runLimit) : OpOK M 64 s (opHash160 M ctx s) := by
  obtain ⟨mem, ⟨prog, pc, nextPC, rl, d, data, alt, depth, er⟩⟩ := s
  dsimp only at h
  rcases data with _ | ⟨x1, rest⟩ <;> vm_gas [opHash160]

theorem opCheckSig_ok (s : St μ ι) (h : 0 ≤ s.f.runLimit) : OpOK M 1024 s (opCheckSig M ctx s) := by
  obtain ⟨mem, ⟨prog, pc, nextPC, rl, d, data, alt, depth, er⟩⟩ := s
  dsimp only at h
  rcases data with _ | ⟨x1, _ | ⟨x2, _ | ⟨x3, rest⟩⟩⟩ <;> vm_gas [opCheckSig]

theorem opPick_ok (s : St μ ι) (h : 0 ≤ s.f.runLimit) : OpOK M 2 s (opPick M s) := by
  obtain ⟨mem, ⟨prog, pc, nextPC, rl, d, data, alt, depth, er⟩⟩ := s
  dsimp only at h
  rcases data with _ | ⟨x1, rest⟩ <;> vm_gas [opPick]

theorem opFromAltStack_ok (s : St μ ι) (h : 0 ≤ s.f.runLimit) :
    OpOK M 2 s ((opFromAltStack : OpM (St μ ι) Unit) s) := by
  obtain ⟨mem, ⟨prog, pc, nextPC, rl, d, data, alt, depth, er⟩⟩ := s
  dsimp only at h
  rcases alt with _ | ⟨a, rest⟩ <;> vm_gas [opFromAltStack]

theorem opInvert_ok (L : MemLaws M) (s : St μ ι) (h : 0 ≤ s.f.runLimit) : OpOK M 1 s (opInvert M s) := by
  obtain ⟨mem, ⟨prog, pc, nextPC, rl, d, data, alt, depth, er⟩⟩ := s
  dsimp only at h
  rcases data with _ | ⟨a, rest⟩
  · vm_gas [opInvert]
  · have hl := L.read_length_le mem a
    have hf := L.len_fresh mem (List.map (fun v => ~~~v) (M.read mem a)) 0
    rw [List.length_map] at hf
    vm_gas [opInvert]

theorem opTxSigHash_ok (s : St μ ι) (h : 0 ≤ s.f.runLimit) : OpOK M 256 s (opTxSigHash M ctx s) := by
  obtain ⟨mem, ⟨prog, pc, nextPC, rl, d, data, alt, depth, er⟩⟩ := s
  dsimp only at h
  cases hh : ctx.txSigHash <;> vm_gas [opTxSigHash, hh]

theorem pushCtxItem_ok (x : Option ι) (s : St μ ι) (h : 0 ≤ s.f.runLimit) : OpOK M 1 s (pushCtxItem M x s) := by
  obtain ⟨mem, ⟨prog, pc, nextPC, rl, d, data, alt, depth, er⟩⟩ := s
  dsimp only at h
  cases x <;> vm_gas [pushCtxItem]

theorem pushCtxNum_ok (x : Option Nat) (s : St μ ι) (h : 0 ≤ s.f.runLimit) : OpOK M 1 s (pushCtxNum M x s) := by
  obtain ⟨mem, ⟨prog, pc, nextPC, rl, d, data, alt, depth, er⟩⟩ := s
  dsimp only at h
  cases x <;> vm_gas [pushCtxNum]

theorem opCheckOutput_ok (s : St μ ι) (h : 0 ≤ s.f.runLimit) : OpOK M 16 s (opCheckOutput M ctx s) := by
  obtain ⟨mem, ⟨prog, pc, nextPC, rl, d, data, alt, depth, er⟩⟩ := s
  dsimp only at h
  cases hh : ctx.checkOutput <;>
  rcases data with _ | ⟨a1, _ | ⟨a2, _ | ⟨a3, _ | ⟨a4, _ | ⟨a5, rest⟩⟩⟩⟩⟩ <;> vm_gas [opCheckOutput, hh]

/-! ### list rearrangements -/

theorem stackCost_append (l1 l2 : List ι) :
    stackCost M.len (l1 ++ l2) = stackCost M.len l1 + stackCost M.len l2 := by
  induction l1 with
  | nil => simp [stackCost]
  | cons x xs ih => simp only [List.cons_append, stackCost, ih]; omega

theorem stackCost_rot (data : List ι) (k : Nat) (x : ι) (h : data[k]? = some x) :
    stackCost M.len (x :: (data.take k ++ data.drop (k + 1))) = stackCost M.len data := by
  induction data generalizing k with
  | nil => simp at h
  | cons y ys ih =>
    cases k with
    | zero => simp at h; subst h; simp [stackCost]
    | succ k =>
      simp at h
      have := ih k h
      simp only [stackCost, List.take_succ_cons, List.drop_succ_cons, List.cons_append] at this ⊢
      omega

theorem stackCost_take_drop (data : List ι) (n : Nat) :
    stackCost M.len (data.take n) + stackCost M.len (data.drop n) = stackCost M.len data := by
  rw [← stackCost_append, List.take_append_drop]

theorem rot_ok (n : Int) (s : St μ ι) (h : 0 ≤ s.f.runLimit) : OpOK M 0 s (rot n s) := by
  obtain ⟨mem, ⟨prog, pc, nextPC, rl, d, data, alt, depth, er⟩⟩ := s
  dsimp only at h
  unfold rot
  by_cases h1 : n < 1
  · simp [h1, OpOK, SameCtl]; exact h
  · simp only [h1, if_false, bind_run, getF_run, Res.bindK_ok, opm_ite_apply]
    split
    · simp [OpOK, SameCtl]; exact h
    · cases hk : data[(n - 1).toNat]? with
      | none => simp [hk, OpOK]
      | some x =>
        simp only [hk, modifyF_run, OpOK, frameA, SameCtl]
        rw [stackCost_rot M data _ x hk]
        simp; exact h

theorem opRot_ok (s : St μ ι) (h : 0 ≤ s.f.runLimit) : OpOK M 2 s ((opRot : OpM (St μ ι) Unit) s) := by
  have := OpOK_bind M (applyCost 2) (fun _ => rot 3) s 2 0 (applyCost_ok M 2 (by omega) s h)
    (fun a s1 hs => applyCost_mono M 2 (by omega) s a s1 hs)
    (fun a s1 _ h1 => rot_ok M 3 s1 h1)
  simpa [opRot] using this

theorem popBigInt_imm_ok (s : St μ ι) (h : 0 ≤ s.f.runLimit) :
    OpOK M 0 s (popBigInt M false s) ∧
    (∀ a s1, popBigInt M false s = .ok a s1 → frameA M s1.f ≤ frameA M s.f) := by
  obtain ⟨mem, ⟨prog, pc, nextPC, rl, d, data, alt, depth, er⟩⟩ := s
  dsimp only at h
  rcases data with _ | ⟨x, rest⟩
  · constructor
    · vm_gas []
    · intro a s1 hs; simp [popBigInt, popBytes, bind_run] at hs
  · constructor
    · vm_gas []
    · intro a s1 hs
      simp [popBigInt, popBytes, bind_run] at hs
      cases hx : asBigInt (M.read mem x) with
      | error e => rw [hx] at hs; simp at hs
      | ok n => rw [hx] at hs; simp at hs; obtain ⟨_, rfl⟩ := hs; simp [frameA, stackCost, itemCost]; omega

theorem opRoll_ok (s : St μ ι) (h : 0 ≤ s.f.runLimit) : OpOK M 2 s (opRoll M s) := by
  have h3 : ∀ (n : Nat) (s2 : St μ ι), 0 ≤ s2.f.runLimit →
      OpOK M 0 s2 ((ofExcept (pickOffset n) >>= fun off => rot off) s2) := by
    intro n s2 h2
    rw [bind_run, ofExcept_run]
    cases pickOffset n with
    | error e => simp [OpOK, frameA, SameCtl]; exact h2
    | ok off => simpa using rot_ok M off s2 h2
  have h2 : ∀ (s1 : St μ ι), 0 ≤ s1.f.runLimit →
      OpOK M 0 s1 ((popBigInt M false >>= fun n => ofExcept (pickOffset n) >>= fun off => rot off) s1) := by
    intro s1 h1
    have := OpOK_bind M (popBigInt M false) (fun n => ofExcept (pickOffset n) >>= fun off => rot off) s1 0 0
      (popBigInt_imm_ok M s1 h1).1 (popBigInt_imm_ok M s1 h1).2 (fun n s2 _ hh => h3 n s2 hh)
    simpa using this
  have := OpOK_bind M (applyCost 2) (fun _ => popBigInt M false >>= fun n => ofExcept (pickOffset n) >>= fun off => rot off)
    s 2 0 (applyCost_ok M 2 (by omega) s h) (fun a s1 hs => applyCost_mono M 2 (by omega) s a s1 hs)
    (fun _ s1 _ h1 => h2 s1 h1)
  simpa [opRoll] using this

/-! ### loops -/

theorem dupLoop_ok (idx : Nat) (k : Nat) (s : St μ ι) (h : 0 ≤ s.f.runLimit) :
    OpOK M 0 s (dupLoop M idx k s) := by
  induction k generalizing s with
  | zero =>
    obtain ⟨mem, ⟨prog, pc, nextPC, rl, d, data, alt, depth, er⟩⟩ := s
    dsimp only at h
    simp [dupLoop, OpOK, SameCtl]; exact h
  | succ k ih =>
    have hstep : ∀ x, OpOK M 0 s ((pushItem M x false >>= fun _ => dupLoop M idx k) s) := by
      intro x
      have hp : OpOK M 0 s (pushItem M x false s) := by
        obtain ⟨mem, ⟨prog, pc, nextPC, rl, d, data, alt, depth, er⟩⟩ := s
        dsimp only at h
        vm_gas []
      have hm : ∀ a s1, pushItem M x false s = .ok a s1 → frameA M s1.f ≤ frameA M s.f := by
        intro a s1 hs
        obtain ⟨mem, ⟨prog, pc, nextPC, rl, d, data, alt, depth, er⟩⟩ := s
        rw [pushItem_imm] at hs
        split at hs
        · cases hs
        · cases hs; simp [frameA, stackCost, itemCost]; omega
      have := OpOK_bind M (pushItem M x false) (fun _ => dupLoop M idx k) s 0 0 hp hm (fun _ s1 _ h1 => ih s1 h1)
      simpa using this
    simp only [dupLoop, bind_run, getF_run, Res.bindK_ok]
    cases hx : s.f.data[idx]? with
    | none => simp [OpOK]
    | some x => simpa [bind_run] using hstep x

theorem nDup_ok (n : Nat) (s : St μ ι) (h : 0 ≤ s.f.runLimit) : OpOK M (n : Int) s (nDup M n s) := by
  have h2 : ∀ s1 : St μ ι, 0 ≤ s1.f.runLimit → OpOK M 0 s1
      ((getF >>= fun f => if f.data.length < n then throwE .dataStackUnderflow else dupLoop M (n - 1) n) s1) := by
    intro s1 h1
    simp only [bind_run, getF_run, Res.bindK_ok, opm_ite_apply]
    split
    · obtain ⟨mem, ⟨prog, pc, nextPC, rl, d, data, alt, depth, er⟩⟩ := s1
      simp [OpOK, SameCtl]; exact h1
    · exact dupLoop_ok M _ _ s1 h1
  have := OpOK_bind M (applyCost (Int.ofNat n)) _ s n 0 (applyCost_ok M n (by omega) s h)
    (fun a s1 hs => applyCost_mono M n (by omega) s a s1 hs) (fun _ s1 _ h1 => h2 s1 h1)
  simpa [nDup] using this

theorem op2Over_ok (s : St μ ι) (h : 0 ≤ s.f.runLimit) : OpOK M 2 s (op2Over M s) := by
  have h2 : ∀ s1 : St μ ι, 0 ≤ s1.f.runLimit → OpOK M 0 s1
      ((getF >>= fun f => if f.data.length < 4 then throwE .dataStackUnderflow else dupLoop M 3 2) s1) := by
    intro s1 h1
    simp only [bind_run, getF_run, Res.bindK_ok, opm_ite_apply]
    split
    · obtain ⟨mem, ⟨prog, pc, nextPC, rl, d, data, alt, depth, er⟩⟩ := s1
      simp [OpOK, SameCtl]; exact h1
    · exact dupLoop_ok M _ _ s1 h1
  have := OpOK_bind M (applyCost 2) _ s 2 0 (applyCost_ok M 2 (by omega) s h)
    (fun a s1 hs => applyCost_mono M 2 (by omega) s a s1 hs) (fun _ s1 _ h1 => h2 s1 h1)
  simpa [op2Over] using this

/-! ### CHECKMULTISIG -/

/-- `OpOK` plus: a successful run does not raise the potential -/
def OpMono {α : Type} (k : Int) (s : St μ ι) (r : Res (St μ ι) α) : Prop :=
  OpOK M k s r ∧ ∀ a s1, r = .ok a s1 → frameA M s1.f ≤ frameA M s.f

theorem OpMono_bind {α β : Type} (m : OpM (St μ ι) α) (f : α → OpM (St μ ι) β) (s : St μ ι) (k1 k2 : Int)
    (h1 : OpMono M k1 s (m s))
    (h2 : ∀ a s1, m s = .ok a s1 → 0 ≤ s1.f.runLimit → OpMono M k2 s1 (f a s1)) :
    OpMono M (k1 + k2) s ((m >>= f) s) := by
  constructor
  · exact OpOK_bind M m f s k1 k2 h1.1 h1.2 (fun a s1 hs hr => (h2 a s1 hs hr).1)
  · intro b s2 hb
    rw [bind_run] at hb
    cases hm : m s with
    | panic => rw [hm] at hb; simp at hb
    | err e s1 => rw [hm] at hb; simp at hb
    | ok a s1 =>
      rw [hm] at hb; simp only [Res.bindK_ok] at hb
      have ha := h1.2 a s1 hm
      have hr : 0 ≤ s1.f.runLimit := by
        have := h1.1; rw [hm] at this; exact this.2.1
      have := (h2 a s1 hm hr).2 b s2 hb
      omega

theorem OpMono_popBytes (s : St μ ι) (h : 0 ≤ s.f.runLimit) : OpMono M 0 s (popBytes M true s) := by
  obtain ⟨mem, ⟨prog, pc, nextPC, rl, d, data, alt, depth, er⟩⟩ := s
  dsimp only at h
  rcases data with _ | ⟨x, rest⟩
  · constructor
    · vm_gas []
    · intro a s1 hs; simp [popBytes, bind_run] at hs
  · constructor
    · vm_gas []
    · intro a s1 hs
      simp [popBytes, bind_run] at hs
      obtain ⟨_, rfl⟩ := hs; simp [frameA, stackCost, itemCost]; omega

theorem OpMono_popInt64 (s : St μ ι) (h : 0 ≤ s.f.runLimit) : OpMono M 0 s (popInt64 M true s) := by
  obtain ⟨mem, ⟨prog, pc, nextPC, rl, d, data, alt, depth, er⟩⟩ := s
  dsimp only at h
  rcases data with _ | ⟨x, rest⟩
  · constructor
    · vm_gas []
    · intro a s1 hs; simp [popInt64, popBigInt, popBytes, bind_run] at hs
  · constructor
    · vm_gas []
    · intro a s1 hs
      simp [popInt64, popBigInt, popBytes, bind_run] at hs
      cases hx : asBigInt (M.read mem x) with
      | error e => rw [hx] at hs; simp at hs
      | ok n =>
        rw [hx] at hs; simp at hs
        cases hy : bigIntInt64 n with
        | error e => rw [hy] at hs; simp at hs
        | ok v => rw [hy] at hs; simp at hs; obtain ⟨_, rfl⟩ := hs; simp [frameA, stackCost, itemCost]; omega

theorem OpMono_popN (k : Nat) (s : St μ ι) (h : 0 ≤ s.f.runLimit) : OpMono M 0 s (popN M k s) := by
  induction k generalizing s with
  | zero =>
    obtain ⟨mem, ⟨prog, pc, nextPC, rl, d, data, alt, depth, er⟩⟩ := s
    dsimp only at h
    constructor
    · simp [popN, OpOK, SameCtl]; exact h
    · intro a s1 hs; simp [popN] at hs; obtain ⟨_, rfl⟩ := hs; simp
  | succ k ih =>
    have h2 : ∀ (x : Bytes) (s1 : St μ ι), 0 ≤ s1.f.runLimit →
        OpMono M 0 s1 ((popN M k >>= fun xs => pure (x :: xs)) s1) := by
      intro x s1 h1
      have := OpMono_bind M (popN M k) (fun xs => pure (x :: xs)) s1 0 0 (ih s1 h1)
        (fun a s2 _ hr => by
          constructor
          · obtain ⟨mem, ⟨prog, pc, nextPC, rl, d, data, alt, depth, er⟩⟩ := s2
            simp [OpOK, SameCtl]; exact hr
          · intro b s3 hb; simp at hb; obtain ⟨_, rfl⟩ := hb; simp)
      simpa using this
    have := OpMono_bind M (popBytes M true) (fun x => popN M k >>= fun xs => pure (x :: xs)) s 0 0
      (OpMono_popBytes M s h) (fun x s1 _ hr => h2 x s1 hr)
    simpa [popN] using this

theorem OpMono_applyCost (n : Int) (hn : 0 ≤ n) (s : St μ ι) (h : 0 ≤ s.f.runLimit) :
    OpMono M n s (applyCost n s) :=
  ⟨applyCost_ok M n hn s h, fun a s1 hs => applyCost_mono M n hn s a s1 hs⟩

theorem OpOK_throwE {α : Type} (e : Err) (s : St μ ι) (h : 0 ≤ s.f.runLimit) :
    OpOK M 0 s ((throwE e : OpM (St μ ι) α) s) := by
  obtain ⟨mem, ⟨prog, pc, nextPC, rl, d, data, alt, depth, er⟩⟩ := s
  simp [OpOK, SameCtl]; exact h

theorem pushBool_def_ok (b : Bool) (s : St μ ι) (h : 0 ≤ s.f.runLimit) : OpOK M 0 s (pushBool M b true s) := by
  obtain ⟨mem, ⟨prog, pc, nextPC, rl, d, data, alt, depth, er⟩⟩ := s
  dsimp only at h
  vm_gas []

theorem cmsTail2_ok (np ns : Int) (s : St μ ι) (h : 0 ≤ s.f.runLimit) :
    OpOK M 0 s (cmsTail2 M ctx np ns s) := by
  unfold cmsTail2
  have hfin : ∀ (pubkeys sigs : List Bytes) (msg : Bytes) (s3 : St μ ι), 0 ≤ s3.f.runLimit →
      OpOK M 0 s3 ((if pubkeys.any (fun p => p.length != 32) then pushBool M false true
        else pushBool M (matchSigs (fun p s => ctx.verifySig p msg s) sigs pubkeys) true) s3) := by
    intro pubkeys sigs msg s3 h3
    rw [opm_ite_apply]
    split
    · exact pushBool_def_ok M _ s3 h3
    · exact pushBool_def_ok M _ s3 h3
  have hsigs : ∀ (pubkeys : List Bytes) (msg : Bytes) (s2 : St μ ι), 0 ≤ s2.f.runLimit →
      OpOK M 0 s2 ((popN M ns.toNat >>= fun sigs =>
        if pubkeys.any (fun p => p.length != 32) then pushBool M false true
        else pushBool M (matchSigs (fun p s => ctx.verifySig p msg s) sigs pubkeys) true) s2) := by
    intro pubkeys msg s2 h2
    have := OpOK_bind M (popN M ns.toNat) _ s2 0 0 (OpMono_popN M _ s2 h2).1 (OpMono_popN M _ s2 h2).2
      (fun sigs s3 _ h3 => hfin pubkeys sigs msg s3 h3)
    simpa using this
  have hmsg : ∀ (pubkeys : List Bytes) (s1 : St μ ι), 0 ≤ s1.f.runLimit →
      OpOK M 0 s1 ((popBytes M true >>= fun msg =>
        if msg.length ≠ 32 then throwE .badValue else
        popN M ns.toNat >>= fun sigs =>
        if pubkeys.any (fun p => p.length != 32) then pushBool M false true
        else pushBool M (matchSigs (fun p s => ctx.verifySig p msg s) sigs pubkeys) true) s1) := by
    intro pubkeys s1 h1
    have := OpOK_bind M (popBytes M true) (fun msg =>
        if msg.length ≠ 32 then throwE .badValue else
        popN M ns.toNat >>= fun sigs =>
        if pubkeys.any (fun p => p.length != 32) then pushBool M false true
        else pushBool M (matchSigs (fun p s => ctx.verifySig p msg s) sigs pubkeys) true)
      s1 0 0 (OpMono_popBytes M s1 h1).1 (OpMono_popBytes M s1 h1).2
      (fun msg s2 _ h2 => by
        rw [opm_ite_apply]
        split
        · exact OpOK_throwE M _ s2 h2
        · exact hsigs pubkeys msg s2 h2)
    simpa using this
  have := OpOK_bind M (popN M np.toNat) _ s 0 0 (OpMono_popN M _ s h).1 (OpMono_popN M _ s h).2
    (fun pubkeys s1 _ h1 => hmsg pubkeys s1 h1)
  simpa using this

theorem cmsTail1_ok (np : Int) (hnp : 0 ≤ np) (s : St μ ι) (h : 0 ≤ s.f.runLimit) :
    OpOK M (np * 1024) s (cmsTail1 M ctx np s) := by
  unfold cmsTail1
  have h2 : ∀ s1 : St μ ι, 0 ≤ s1.f.runLimit → OpOK M 0 s1 ((popInt64 M true >>= fun numSigs =>
      if numSigs < 0 ∨ numSigs > np ∨ (np > 0 ∧ numSigs = 0) then throwE .badValue
      else cmsTail2 M ctx np numSigs) s1) := by
    intro s1 h1
    have := OpOK_bind M (popInt64 M true) (fun numSigs =>
        if numSigs < 0 ∨ numSigs > np ∨ (np > 0 ∧ numSigs = 0) then throwE .badValue
        else cmsTail2 M ctx np numSigs) s1 0 0 (OpMono_popInt64 M s1 h1).1 (OpMono_popInt64 M s1 h1).2
      (fun ns s2 _ h2 => by
        rw [opm_ite_apply]
        split
        · exact OpOK_throwE M _ s2 h2
        · exact cmsTail2_ok M ctx np ns s2 h2)
    simpa using this
  have := OpOK_bind M (applyCost (np * 1024)) _ s (np * 1024) 0 (applyCost_ok M _ (by omega) s h)
    (fun a s1 hs => applyCost_mono M _ (by omega) s a s1 hs) (fun _ s1 _ h1 => h2 s1 h1)
  simpa using this

/-- CHECKMULTISIG costs `1024 · numPubkeys`: nothing at all when the key count is zero (F5) -/
theorem opCheckMultiSig_ok (s : St μ ι) (h : 0 ≤ s.f.runLimit) : OpOK M 0 s (opCheckMultiSig M ctx s) := by
  unfold opCheckMultiSig
  have := OpOK_bind M (popInt64 M true)
    (fun np => if np < 0 ∨ np * 1024 > maxInt64 then throwE .badValue else cmsTail1 M ctx np)
    s 0 0 (OpMono_popInt64 M s h).1 (OpMono_popInt64 M s h).2
    (fun np s1 hs h1 => by
      show OpOK M 0 s1 ((if np < 0 ∨ np * 1024 > maxInt64 then throwE .badValue else cmsTail1 M ctx np) s1)
      rw [opm_ite_apply]
      split
      · exact OpOK_throwE M _ s1 h1
      · rename_i hc
        have hnp : 0 ≤ np := by omega
        exact OpOK_mono M (np * 1024) 0 (by omega) s1 _ (cmsTail1_ok M ctx np hnp s1 h1))
  simpa using this

end
end BytomModel.VM
