/-
Base invariant of the casper state, proved on the `Micro` steps of Lemmas/CasperSteps:
heights agree with the block universe, a checkpoint is `growing` exactly while its height is not a
multiple of the epoch length, growing checkpoints carry no sup links, stored headers have the
height of their hash, the root is never growing.  Core Lean only.
-/
import BytomModel.Lemmas.CasperSteps

namespace BytomModel.Node

theorem succ_mod_of_mod_zero {e h : Nat} (he : 2 ≤ e) (h0 : h % e = 0) : (h + 1) % e = 1 := by
  rw [Nat.add_mod, h0, Nat.zero_add, Nat.mod_mod, Nat.mod_eq_of_lt he]

def Base (U : Universe) (s : State) : Prop :=
  2 ≤ s.cfg.epoch ∧
  HU U s.tree ∧
  (∀ c ∈ s.tree.flatten, (c.status = .growing ↔ c.height % s.cfg.epoch ≠ 0) ∧ (c.status = .growing → c.sup = [])) ∧
  (∀ h ∈ s.headers, h.height = U.height h.id) ∧
  s.tree.ckpt.status ≠ .growing

theorem Tree.update_root (p : Ckpt → Bool) (f : Ckpt → Ckpt) (t : Tree) :
    (t.update p f).ckpt = if p t.ckpt then f t.ckpt else t.ckpt := by
  cases t with
  | node c cs => unfold Tree.update; by_cases h : p c <;> simp [h, Tree.ckpt]

/-- in a `Base` state the node a block grows (`Increase`) is a growing one: its parent's height + 1
    is the block's height, which is not ≡ 1 -/
theorem Base.grow_target {U : Universe} {s : State} (hb : Base U s) {b : Header} (hU : HdrU U b)
    (hm : b.height % s.cfg.epoch ≠ 1) {r : Tree} (hr : s.tree.find (byHash b.parent) = some r) :
    r.ckpt.status = .growing ∧ b.height = r.ckpt.height + 1 := by
  obtain ⟨he, hHU, hst, _, _⟩ := hb
  have hrm := Tree.find_mem hr
  have hrh : r.ckpt.hash = b.parent := by have := Tree.find_pred hr; simpa [byHash] using this
  have h1 : b.height = r.ckpt.height + 1 := by
    rw [hHU _ hrm, hrh, hU.2.2, U.height_step _ hU.1, ← hU.2.1]
  refine ⟨?_, h1⟩
  rw [(hst _ hrm).1]
  intro h0
  apply hm
  rw [h1]; exact succ_mod_of_mod_zero he h0

theorem Micro.preserves_Base {U : Universe} {Vp : Nat → Nat → Nat → Prop} {s s' : State}
    (hb : Base U s) (m : Micro U Vp s s') : Base U s' := by
  have hb0 := hb
  obtain ⟨he, hHU, hst, hhd, hroot⟩ := hb
  have hHU' := Micro.preserves_HU U Vp hHU m
  cases m with
  | frame e =>
    obtain ⟨e1, e2, _, e4, _⟩ := e
    exact ⟨e1 ▸ he, hHU', by rw [e1, e2]; exact hst, by rw [e4]; exact hhd, by rw [e2]; exact hroot⟩
  | grow b hbU hm =>
    refine ⟨he, hHU', ?_, hhd, ?_⟩
    · intro x hx
      rcases Tree.mem_update hx with hx | ⟨r, hr, rfl⟩
      · exact hst x hx
      · obtain ⟨hg, hh⟩ := hb0.grow_target hbU hm hr
        have hsup := (hst _ (Tree.find_mem hr)).2 hg
        by_cases h0 : b.height % s.cfg.epoch = 0
        · simp [increase, h0, hsup]
        · simp [increase, h0, hsup, hg]
    · show (s.tree.update _ _).ckpt.status ≠ .growing
      rw [Tree.update_root]
      split
      · rename_i hp
        exfalso
        -- the root would be the growing node
        cases ht : s.tree with
        | node c cs =>
          have hf : s.tree.find (byHash b.parent) = some s.tree := by
            rw [ht]; unfold Tree.find
            have : byHash b.parent c = true := by simpa [ht, Tree.ckpt] using hp
            simp [this]
          exact hroot (hb0.grow_target hbU hm hf).1
      · exact hroot
  | child b pn hbU hm hf =>
    refine ⟨he, hHU', ?_, hhd, ?_⟩
    · intro x hx
      rcases Tree.mem_addChild _ _ _ _ hx with hx | rfl
      · exact hst x hx
      · have h1 : ¬ (b.height % s.cfg.epoch = 0) := by omega
        simp [increase, newCkpt, h1]
    · show (s.tree.addChild _ _).ckpt.status ≠ .growing
      rw [Tree.addChild_root]; exact hroot
  | addSig tgt o src srcH tn shd hshd hshh hf ho h1 h2 h3 hsp hv =>
    refine ⟨he, hHU', ?_, hhd, ?_⟩
    · intro x hx
      rcases Tree.mem_update hx with hx | ⟨r, hr, rfl⟩
      · exact hst x hx
      · have : r = tn := Option.some.inj (hr.symm.trans hf)
        subst this
        have hng : r.ckpt.status ≠ .growing := by
          intro hg; exact ((hst _ (Tree.find_mem hr)).1.mp hg) h2
        exact ⟨(hst _ (Tree.find_mem hr)).1, fun hg => absurd hg hng⟩
    · show (s.tree.update _ _).ckpt.status ≠ .growing
      rw [Tree.update_root]; split <;> exact hroot
  | justify tgt src tn source hd hf hst' _ _ _ _ _ _ =>
    refine ⟨he, hHU', ?_, hhd, ?_⟩
    · intro x hx
      rcases Tree.mem_update hx with hx | ⟨r, hr, rfl⟩
      · exact hst x hx
      · have : r = tn := Option.some.inj (hr.symm.trans hf)
        subst this
        have h0 : r.ckpt.height % s.cfg.epoch = 0 := by
          have := (hst _ (Tree.find_mem hr)).1
          rw [hst'] at this
          simp at this
          exact this
        simp [h0]
    · show (s.tree.update _ _).ckpt.status ≠ .growing
      rw [Tree.update_root]; split
      · simp
      · exact hroot
  | reroot tgt tn source hd c cs _ _ _ _ _ _ hhdr hsh hmod hf =>
    have hsub := Tree.find_sub _ _ _ hf
    have hcm : c ∈ s.tree.flatten := hsub c (by simp [Tree.flatten])
    refine ⟨he, hHU', ?_, hhd, by simp [Tree.ckpt]⟩
    intro x hx
    simp only [Tree.flatten, List.mem_cons] at hx
    rcases hx with rfl | hx
    · have hch : c.hash = source.hash := by have := Tree.find_pred hf; simpa [byHash, Tree.ckpt] using this
      have hhm := lookupHeader_mem hhdr
      have : c.height % s.cfg.epoch = 0 := by
        rw [hHU c hcm, hch, ← hhm.2, ← hhd hd hhm.1]; exact hmod
      simp [this]
    · exact hst x (hsub x (by simp [Tree.flatten, hx]))
  | saveTarget _ _ _ => exact ⟨he, hHU', hst, hhd, hroot⟩
  | saveSource _ _ => exact ⟨he, hHU', hst, hhd, hroot⟩
  | storeHeader h hh =>
    refine ⟨he, hHU', hst, ?_, hroot⟩
    intro x hx
    rcases List.mem_cons.mp hx with rfl | hx
    · exact hh.2.2
    · exact hhd x (List.mem_filter.mp hx).1
  | voteHeader tgt o src srcH ok th hth =>
    refine ⟨he, hHU', hst, ?_, hroot⟩
    intro x hx
    rcases List.mem_cons.mp hx with rfl | hx
    · exact hhd th (lookupHeader_mem hth).1
    · exact hhd x (List.mem_filter.mp hx).1
  | post _ _ => exact ⟨he, hHU', hst, hhd, hroot⟩

theorem Base_init (U : Universe) (cfg : Config) (genesis : Header) (he : 2 ≤ cfg.epoch)
    (hg : genesis.id = U.g) (h0 : genesis.height = 0) : Base U (State.init cfg genesis) := by
  refine ⟨he, ?_, ?_, ?_, by simp [State.init, Tree.ckpt]⟩
  · intro c hc
    simp only [State.init, Tree.flatten, Tree.flattenList, List.mem_cons, List.not_mem_nil, or_false] at hc
    subst hc; simp [hg, U.height_g]
  · intro c hc
    simp only [State.init, Tree.flatten, Tree.flattenList, List.mem_cons, List.not_mem_nil, or_false] at hc
    subst hc; simp
  · intro h hh
    simp only [State.init, List.mem_singleton] at hh
    subst hh; rw [h0, hg, U.height_g]

end BytomModel.Node
