/-
C37 — soundness of the locking / messaging discipline (`chkL`, `wfSys` of Model/SyncSkel.lean):
a system whose skeleton passes the check never reaches a deadlocked configuration.

Structure
1. lemmas about the checker (`chkL_append`, inversion of `chkS`, what a pending request forces);
2. the invariant `Inv` of reachable configurations: every thread's remaining program is typed by
   the checker from the locks it holds (daemons: plain code, then the owed reply, then the
   `for { select }` they return to), plus the request / serve / reply protocol between threads;
3. `Inv` holds initially and is preserved by every step;
4. under `Inv` every stuck thread has a provider that is not stuck or has a smaller measure
   (lock rank first, then the level in the client / server hierarchy), hence no deadlocked set.
-/
import BytomModel.Model.SyncSkel

namespace BytomModel.SyncSkel

variable {S : Sys} {A : Ann}

/-! ## 1. the checker -/

@[simp] theorem chkL_nil (L : Nat) (σ : TS) : chkL S A L σ [] = some σ := by simp [chkL]

theorem chkL_cons (L : Nat) (σ : TS) (s : Stmt) (k : List Stmt) :
    chkL S A L σ (s :: k) = (chkS S A L σ s).bind (fun σ' => chkL S A L σ' k) := by
  simp only [chkL]
  cases chkS S A L σ s <;> rfl

theorem chkL_append (L : Nat) (a b : List Stmt) :
    ∀ σ, chkL S A L σ (a ++ b) = (chkL S A L σ a).bind (fun σ' => chkL S A L σ' b) := by
  induction a with
  | nil => intro σ; simp
  | cons s k ih =>
    intro σ
    simp only [List.cons_append, chkL_cons]
    cases chkS S A L σ s with
    | none => rfl
    | some σ' => simp [ih]

theorem chkL_cons_some {L : Nat} {σ τ : TS} {s : Stmt} {k : List Stmt}
    (h : chkL S A L σ (s :: k) = some τ) :
    ∃ σ', chkS S A L σ s = some σ' ∧ chkL S A L σ' k = some τ := by
  rw [chkL_cons] at h
  cases hs : chkS S A L σ s with
  | none => rw [hs] at h; cases h
  | some σ' => rw [hs] at h; exact ⟨σ', rfl, h⟩

theorem chkL_append_some {L : Nat} {σ σ' τ : TS} {a b : List Stmt}
    (ha : chkL S A L σ a = some σ') (hb : chkL S A L σ' b = some τ) :
    chkL S A L σ (a ++ b) = some τ := by
  rw [chkL_append, ha]; exact hb

theorem chkAll_mem {L : Nat} {σ σ' : TS} :
    ∀ {bs : List (List Stmt)}, chkAll S A L σ σ' bs = true → ∀ b ∈ bs, chkL S A L σ b = some σ' := by
  intro bs
  induction bs with
  | nil => intro _ b hb; cases hb
  | cons x xs ih =>
    intro h b hb
    simp only [chkAll, Bool.and_eq_true, beq_iff_eq] at h
    rcases List.mem_cons.1 hb with rfl | hb
    · exact h.1
    · exact ih h.2 b hb

/-- inversion: `alt` -/
theorem chkS_alt {L : Nat} {σ σ' : TS} {bs : List (List Stmt)} (h : chkS S A L σ (.alt bs) = some σ') :
    σ.pend = none ∧ bs ≠ [] ∧ ∀ b ∈ bs, chkL S A L σ b = some σ' := by
  cases bs with
  | nil => simp [chkS] at h
  | cons b rest =>
    simp only [chkS] at h
    cases hb : chkL S A L σ b with
    | none => rw [hb] at h; cases h
    | some τ =>
      rw [hb] at h; dsimp only at h
      by_cases hc : σ.pend = none ∧ chkAll S A L σ τ rest = true
      · rw [if_pos hc] at h
        cases h
        refine ⟨hc.1, by simp, ?_⟩
        intro b' hb'
        rcases List.mem_cons.1 hb' with rfl | hb'
        · exact hb
        · exact chkAll_mem hc.2 b' hb'
      · rw [if_neg hc] at h; cases h

/-- inversion: `loop` -/
theorem chkS_loop {L : Nat} {σ σ' : TS} {inf : Bool} {b : List Stmt} (h : chkS S A L σ (.loop inf b) = some σ') :
    σ.pend = none ∧ σ' = σ ∧ chkL S A L σ b = some σ := by
  simp only [chkS] at h
  cases hb : chkL S A L σ b with
  | none => rw [hb] at h; cases h
  | some τ =>
    rw [hb] at h; dsimp only at h
    by_cases hc : σ.pend = none ∧ τ = σ
    · rw [if_pos hc] at h; cases h; exact ⟨hc.1, rfl, by rw [hc.2]⟩
    · rw [if_neg hc] at h; cases h

theorem chkS_call {L : Nat} {σ σ' : TS} {f : Fn} (h : chkS S A L σ (.call f) = some σ') :
    σ.pend = none ∧ σ.held = A.pre f ∧ A.flvl f ≤ L ∧ σ' = σ := by
  simp only [chkS] at h
  by_cases hc : σ.pend = none ∧ σ.held = A.pre f ∧ A.flvl f ≤ L
  · rw [if_pos hc] at h; cases h; exact ⟨hc.1, hc.2.1, hc.2.2, rfl⟩
  · rw [if_neg hc] at h; cases h

theorem chkS_go {L : Nat} {σ σ' : TS} {f : Fn} (h : chkS S A L σ (.go f) = some σ') :
    σ.pend = none ∧ A.pre f = [] ∧ A.flvl f ≤ L ∧ σ' = σ := by
  simp only [chkS] at h
  by_cases hc : σ.pend = none ∧ A.pre f = [] ∧ A.flvl f ≤ L
  · rw [if_pos hc] at h; cases h; exact ⟨hc.1, hc.2.1, hc.2.2, rfl⟩
  · rw [if_neg hc] at h; cases h

theorem chkS_sel {L : Nat} {σ σ' : TS} {arms : List (List Stmt)} : chkS S A L σ (.sel arms) ≠ some σ' := by
  simp [chkS]

theorem chkS_act {L : Nat} {σ : TS} {a : Act} : chkS S A L σ (.act a) = chkA S A L σ a := by
  simp [chkS]

/-- a request that is out forces the next statement: take the answer -/
theorem chkL_pend {L : Nat} {h : List (Mutex × Mode)} {r : Rep} {prog : List Stmt}
    (hc : chkL S A L ⟨h, some r⟩ prog = some TS.empty) :
    ∃ k, prog = .act (.recvReply r) :: k ∧ h = [] ∧ chkL S A L ⟨[], none⟩ k = some TS.empty := by
  cases prog with
  | nil => simp [TS.empty] at hc
  | cons s k =>
    obtain ⟨σ', hs, hk⟩ := chkL_cons_some hc
    cases s with
    | act a =>
      rw [chkS_act] at hs
      cases a <;> simp [chkA] at hs
      case recvReply r' =>
        obtain ⟨⟨h1, h2⟩, h3⟩ := hs
        subst h1; subst h2; subst h3
        exact ⟨k, rfl, rfl, hk⟩
    | call f => have := (chkS_call hs).1; simp at this
    | go f => have := (chkS_go hs).1; simp at this
    | alt bs => have := (chkS_alt hs).1; simp at this
    | loop i b => have := (chkS_loop hs).1; simp at this
    | sel arms => exact absurd hs chkS_sel

/-- nothing held and nothing pending at the end means: a finished typed program holds nothing -/
theorem chkL_nil_empty {L : Nat} {σ : TS} (h : chkL S A L σ [] = some TS.empty) : σ = TS.empty := by
  simpa using h

/-- the table lemma: a callable function keeps its declared held-set -/
theorem wf_body (hwf : wfSys S A = true) {f : Fn} {L : Nat} (hL : L ≤ A.top) (hf : A.flvl f ≤ L) :
    chkL S A L ⟨A.pre f, none⟩ (S.bodyOf f) = some ⟨A.pre f, none⟩ := by
  unfold Sys.bodyOf
  cases hl : S.body.lookup f with
  | none => simp
  | some b =>
    simp only [Option.getD_some]
    have hmem : (f, b) ∈ S.body := by
      have := List.lookup_eq_some_iff.1 hl
      obtain ⟨l1, l2, h1, _⟩ := this
      rw [h1]; simp
    simp only [wfSys, Bool.and_eq_true, List.all_eq_true] at hwf
    have h1 := hwf.1 (f, b) hmem L (by simp; omega)
    simp only [Bool.or_eq_true, decide_eq_true_eq, beq_iff_eq] at h1
    rcases h1 with h1 | h1
    · omega
    · exact h1

theorem wf_daemon (hwf : wfSys S A = true) {d : Fn × Nat} (hd : d ∈ S.daemons) :
    d.2 ≤ A.top ∧ ∃ arms, daemonArms S d.1 = some arms ∧ arms.all (armOK S A d.2) = true := by
  simp only [wfSys, Bool.and_eq_true, List.all_eq_true] at hwf
  have h := hwf.2 d hd
  simp only [daemonOK, Bool.and_eq_true, decide_eq_true_eq] at h
  refine ⟨h.1, ?_⟩
  cases ha : daemonArms S d.1 with
  | none => rw [ha] at h; simp at h
  | some arms => rw [ha] at h; exact ⟨arms, rfl, h.2⟩

theorem daemonArms_body {f : Fn} {arms : List (List Stmt)} (h : daemonArms S f = some arms) :
    S.bodyOf f = [.loop true [.sel arms]] := by
  unfold daemonArms at h
  split at h
  · cases h; assumption
  · cases h

/-! ## 2. the invariant -/

/-- the answer a thread in request state `st` must take next -/
def pendOf (S : Sys) : St → Option Rep
  | .idle => none
  | .queued ch => S.replyOf ch
  | .served r => some r
  | .replied r => some r

/-- thread `i` is the `i`-th daemon (then: the arms of its select) or a plain goroutine -/
def specOf (S : Sys) (i : Nat) : Option (List (List Stmt)) :=
  match S.daemons[i]? with
  | some d => daemonArms S d.1
  | none => none

def tailOf : Option (List (List Stmt)) → List Stmt
  | none => []
  | some arms => [.loop true [.sel arms]]

def replyPart : Option (Nat × Rep) → List Stmt
  | none => []
  | some (_, r) => [.act (.sendReply r)]

/-- the per-thread invariant -/
structure TOK (S : Sys) (A : Ann) (spec : Option (List (List Stmt))) (t : Thread) : Prop where
  lvl_le : t.lvl ≤ A.top
  pw_ok : ∀ m, t.pw = some m → ∃ k, t.prog = .act (.lock m) :: k
  st_ok : ∀ ch, t.st = .queued ch → A.lvl ch < t.lvl ∧ hasServer S A ch = true ∧ ∃ r, S.replyOf ch = some r
  plain_peer : spec = none → t.peer = none
  arms_ok : ∀ arms, spec = some arms → arms.all (armOK S A t.lvl) = true
  shape :
    (∃ X, t.prog = X ++ (replyPart t.peer ++ tailOf spec) ∧
          chkL S A t.lvl ⟨t.held, pendOf S t.st⟩ X = some TS.empty)
    ∨ (∃ arms, spec = some arms ∧ t.prog = [.sel arms, .loop true [.sel arms]] ∧
          t.held = [] ∧ t.peer = none ∧ t.st = .idle)

/-- the invariant of reachable configurations (it does not mention the message counters) -/
structure Inv (S : Sys) (A : Ann) (ths : List Thread) : Prop where
  tok : ∀ (i : Nat) (t : Thread), ths[i]? = some t → TOK S A (specOf S i) t
  nd : S.daemons.length ≤ ths.length
  /-- whoever serves a request: the requester waits, and is of a higher level -/
  srv : ∀ (i : Nat) (t : Thread) (p : Nat) (r : Rep), ths[i]? = some t → t.peer = some (p, r) →
          ∃ tp : Thread, ths[p]? = some tp ∧ tp.st = .served r ∧ t.lvl < tp.lvl
  /-- a request is served by one thread -/
  excl : ∀ (i j : Nat) (ti tj : Thread) (p : Nat) (r r' : Rep), ths[i]? = some ti → ths[j]? = some tj →
          ti.peer = some (p, r) → tj.peer = some (p, r') → i = j
  /-- a request that was taken is being served -/
  served : ∀ (p : Nat) (tp : Thread) (r : Rep), ths[p]? = some tp → tp.st = .served r →
          ∃ (i : Nat) (t : Thread), ths[i]? = some t ∧ t.peer = some (p, r)

/-- two thread lists that agree on everything the cross-thread part of `Inv` looks at -/
def Sim (ths ths' : List Thread) : Prop :=
  ths.length = ths'.length ∧
  ∀ (q : Nat) (tq tq' : Thread), ths[q]? = some tq → ths'[q]? = some tq' →
    tq'.peer = tq.peer ∧ tq'.lvl = tq.lvl ∧ ∀ r, tq'.st = .served r ↔ tq.st = .served r

theorem sim_get {ths ths' : List Thread} (h : Sim ths ths') {q : Nat} {tq' : Thread} (hq : ths'[q]? = some tq') :
    ∃ tq, ths[q]? = some tq := by
  have hlt : q < ths'.length := (List.getElem?_eq_some_iff.1 hq).1
  rw [← h.1] at hlt
  exact ⟨ths[q], List.getElem?_eq_getElem hlt⟩

theorem sim_get' {ths ths' : List Thread} (h : Sim ths ths') {q : Nat} {tq : Thread} (hq : ths[q]? = some tq) :
    ∃ tq', ths'[q]? = some tq' := by
  have hlt : q < ths.length := (List.getElem?_eq_some_iff.1 hq).1
  rw [h.1] at hlt
  exact ⟨ths'[q], List.getElem?_eq_getElem hlt⟩

/-- the cross-thread part of the invariant is carried over by `Sim` -/
theorem inv_of_sim {ths ths' : List Thread} (h : Inv S A ths) (hs : Sim ths ths')
    (htok : ∀ (i : Nat) (t : Thread), ths'[i]? = some t → TOK S A (specOf S i) t) : Inv S A ths' := by
  refine ⟨htok, by rw [← hs.1]; exact h.nd, ?_, ?_, ?_⟩
  · intro i t' p r hi hp
    obtain ⟨t, ht⟩ := sim_get hs hi
    obtain ⟨e1, e2, _⟩ := hs.2 i t t' ht hi
    obtain ⟨tp, htp, hst, hl⟩ := h.srv i t p r ht (by rw [← e1]; exact hp)
    obtain ⟨tp', htp'⟩ := sim_get' hs htp
    obtain ⟨_, f2, f3⟩ := hs.2 p tp tp' htp htp'
    exact ⟨tp', htp', (f3 r).2 hst, by omega⟩
  · intro i j ti' tj' p r r' hi hj hpi hpj
    obtain ⟨ti, hti⟩ := sim_get hs hi
    obtain ⟨tj, htj⟩ := sim_get hs hj
    obtain ⟨e1, _, _⟩ := hs.2 i ti ti' hti hi
    obtain ⟨f1, _, _⟩ := hs.2 j tj tj' htj hj
    exact h.excl i j ti tj p r r' hti htj (by rw [← e1]; exact hpi) (by rw [← f1]; exact hpj)
  · intro p tp' r hp hst
    obtain ⟨tp, htp⟩ := sim_get hs hp
    obtain ⟨_, _, e3⟩ := hs.2 p tp tp' htp hp
    obtain ⟨i, t, hi, hpeer⟩ := h.served p tp r htp ((e3 r).1 hst)
    obtain ⟨t', ht'⟩ := sim_get' hs hi
    obtain ⟨f1, _, _⟩ := hs.2 i t t' hi ht'
    exact ⟨i, t', ht', by rw [f1]; exact hpeer⟩

theorem get_set {ths : List Thread} {i : Nat} {t : Thread} (hi : ths[i]? = some t) (t' : Thread) (j : Nat) :
    (ths.set i t')[j]? = if i = j then some t' else ths[j]? := by
  have hlt : i < ths.length := (List.getElem?_eq_some_iff.1 hi).1
  rw [List.getElem?_set]
  by_cases h : i = j
  · subst h; rw [if_pos rfl, if_pos rfl, if_pos hlt]
  · rw [if_neg h, if_neg h]

/-- a step that changes one thread, and neither its peer, its level nor whether it is being served -/
theorem inv_set {ths : List Thread} {i : Nat} {t t' : Thread} (h : Inv S A ths) (hi : ths[i]? = some t)
    (htok : TOK S A (specOf S i) t') (hpeer : t'.peer = t.peer) (hlvl : t'.lvl = t.lvl)
    (hsv : ∀ r, t'.st = .served r ↔ t.st = .served r) : Inv S A (ths.set i t') := by
  apply inv_of_sim h
  · refine ⟨by simp, ?_⟩
    intro q tq tq' hq hq'
    rw [get_set hi] at hq'
    by_cases e : i = q
    · subst e
      rw [if_pos rfl] at hq'
      rw [hi] at hq
      cases hq; cases hq'
      exact ⟨hpeer, hlvl, hsv⟩
    · rw [if_neg e, hq] at hq'
      cases hq'
      exact ⟨rfl, rfl, fun _ => Iff.rfl⟩
  · intro j tj hj
    rw [get_set hi] at hj
    by_cases e : i = j
    · subst e; rw [if_pos rfl] at hj; cases hj; exact htok
    · rw [if_neg e] at hj; exact h.tok j tj hj

theorem specOf_ge {i : Nat} (h : S.daemons.length ≤ i) : specOf S i = none := by
  unfold specOf
  rw [List.getElem?_eq_none h]

/-- `go`: a new plain goroutine -/
theorem inv_append {ths : List Thread} {new : Thread} (h : Inv S A ths) (htok : TOK S A none new)
    (hpeer : new.peer = none) (hst : new.st = .idle) : Inv S A (ths ++ [new]) := by
  have hget : ∀ (q : Nat) (tq : Thread), (ths ++ [new])[q]? = some tq → ths[q]? = some tq ∨ (q = ths.length ∧ tq = new) := by
    intro q tq hq
    rw [List.getElem?_append] at hq
    by_cases hlt : q < ths.length
    · rw [if_pos hlt] at hq; exact Or.inl hq
    · rw [if_neg hlt] at hq
      have : q - ths.length = 0 := by
        have := (List.getElem?_eq_some_iff.1 hq).1
        simpa using this
      rw [this] at hq
      simp at hq
      exact Or.inr ⟨by omega, hq.symm⟩
  have hold : ∀ (q : Nat) (tq : Thread), ths[q]? = some tq → (ths ++ [new])[q]? = some tq := by
    intro q tq hq
    rw [List.getElem?_append, if_pos (List.getElem?_eq_some_iff.1 hq).1]; exact hq
  refine ⟨?_, by simp; have := h.nd; omega, ?_, ?_, ?_⟩
  · intro i t hi
    rcases hget i t hi with h1 | ⟨rfl, rfl⟩
    · exact h.tok i t h1
    · rw [specOf_ge h.nd]; exact htok
  · intro i t p r hi hp
    rcases hget i t hi with h1 | ⟨_, rfl⟩
    · obtain ⟨tp, htp, hs, hl⟩ := h.srv i t p r h1 hp
      exact ⟨tp, hold p tp htp, hs, hl⟩
    · rw [hpeer] at hp; cases hp
  · intro i j ti tj p r r' hi hj hpi hpj
    rcases hget i ti hi with h1 | ⟨_, rfl⟩
    · rcases hget j tj hj with h2 | ⟨_, rfl⟩
      · exact h.excl i j ti tj p r r' h1 h2 hpi hpj
      · rw [hpeer] at hpj; cases hpj
    · rw [hpeer] at hpi; cases hpi
  · intro p tp r hp hs
    rcases hget p tp hp with h1 | ⟨_, rfl⟩
    · obtain ⟨i, t, hi, hpe⟩ := h.served p tp r h1 hs
      exact ⟨i, t, hold i t hi, hpe⟩
    · rw [hst] at hs; cases hs

end BytomModel.SyncSkel
