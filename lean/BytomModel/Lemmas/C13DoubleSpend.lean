/-
C13: in-block double spends.  An output that is spent twice inside one block — twice in one
transaction, or by two transactions with no transaction in between re-creating the same output id
— makes `applyBlockTxs` fail on EVERY starting view: the first spend marks the entry spent, the
mark survives everything up to the second spend, and the second spend is refused.
-/
import BytomModel.Lemmas.C13Ledger
import BytomModel.Lemmas.LedgerAlist

namespace BytomModel.Lemmas.C13
open BytomModel.Ledger BytomModel.Lemmas.Ledger

theorem vget_vset' (v : View) (k : Nat) (e : Entry) (j : Nat) :
    vget (vset v k e) j = if j = k then some e else vget v j := aget_aset v k e j

def SpentIn (v : View) (o : Nat) : Prop := ∃ e, vget v o = some e ∧ e.spent = true

/-- a spent entry stays spent through `applySpend` -/
theorem applySpend_keeps_spent {p : Params} {h : Nat} {o : Nat} :
    ∀ {ins : List Nat} {v v' : View}, SpentIn v o → applySpend p h ins v = some v' → SpentIn v' o
  | [], v, v', hs, e => by cases e; exact hs
  | i :: is, v, v', hs, e => by
    obtain ⟨ei, h1, _, _, _, h5⟩ := applySpend_cons_some e
    apply applySpend_keeps_spent _ h5
    obtain ⟨eo, ho, hsp⟩ := hs
    unfold SpentIn
    rw [vget_vset']
    by_cases hoi : o = i
    · simp only [hoi, if_true]; exact ⟨_, rfl, rfl⟩
    · simp only [hoi, if_false]; exact ⟨eo, ho, hsp⟩

/-- every input of a successful `applySpend` is marked spent in the result -/
theorem applySpend_marks {p : Params} {h : Nat} {o : Nat} :
    ∀ {ins : List Nat} {v v' : View}, applySpend p h ins v = some v' → o ∈ ins → SpentIn v' o
  | [], _, _, _, hm => by cases hm
  | i :: is, v, v', e, hm => by
    obtain ⟨ei, h1, _, _, _, h5⟩ := applySpend_cons_some e
    rcases List.mem_cons.mp hm with hoi | hm'
    · apply applySpend_keeps_spent _ h5
      unfold SpentIn
      rw [vget_vset', hoi]
      simp only [if_true]; exact ⟨_, rfl, rfl⟩
    · exact applySpend_marks h5 hm'

/-- outputs with other ids do not touch the entry of `o` -/
theorem applyOutput_other (height : Nat) (cb : Bool) (o : Nat) :
    ∀ (outs : List TxOut) (v : View), (∀ x, x ∈ outs → x.id ≠ o) → vget (applyOutput height cb outs v) o = vget v o
  | [], _, _ => rfl
  | x :: xs, v, hne => by
    have hx : x.id ≠ o := hne x List.mem_cons_self
    have hxs : ∀ y, y ∈ xs → y.id ≠ o := fun y hy => hne y (List.mem_cons_of_mem _ hy)
    unfold applyOutput
    split
    · exact applyOutput_other height cb o xs v hxs
    · split
      · exact applyOutput_other height cb o xs v hxs
      · rw [applyOutput_other height cb o xs _ hxs, vget_vset']
        have : ¬ o = x.id := fun e => hx e.symm
        simp only [this, if_false]

/-- a spent entry stays spent through transactions that do not create an output with its id -/
theorem applyBlockTxs_keeps_spent {p : Params} {h : Nat} {o : Nat} :
    ∀ {txs : List Tx} {first : Bool} {v v' : View}, SpentIn v o →
      (∀ t, t ∈ txs → ∀ x, x ∈ t.outs → x.id ≠ o) → applyBlockTxs p h first txs v = some v' → SpentIn v' o
  | [], _, v, v', hs, _, e => by cases e; exact hs
  | t :: ts, first, v, v', hs, hne, e => by
    rw [applyBlockTxs_cons] at e
    cases hsp : applySpend p h t.ins v with
    | none => rw [hsp] at e; cases e
    | some v1 =>
      rw [hsp] at e
      apply applyBlockTxs_keeps_spent _ (fun t' ht' => hne t' (List.mem_cons_of_mem _ ht')) e
      have h1 := applySpend_keeps_spent hs hsp
      unfold SpentIn
      rw [applyOutput_other h first o t.outs v1 (hne t List.mem_cons_self)]
      exact h1

/-- the same output twice among the inputs of one transaction: refused on every view -/
theorem same_tx_double_spend {p : Params} {h : Nat} (a b c : List Nat) (o : Nat) (v : View) :
    applySpend p h (a ++ o :: b ++ o :: c) v = none := by
  cases hr : applySpend p h (a ++ o :: b ++ o :: c) v with
  | none => rfl
  | some v' =>
    obtain ⟨vm, hvm, e, he, hunspent, _⟩ := applySpend_some_spendable hr (a ++ o :: b) o c (by simp)
    obtain ⟨e', he', hsp⟩ := applySpend_marks (o := o) hvm (by simp)
    rw [he] at he'; injection he' with he'; rw [he', hsp] at hunspent; cases hunspent

/-- two transactions of one block spend the same output, and no transaction from the first up to
    the second creates an output with that id: refused on every view -/
theorem cross_tx_double_spend {p : Params} {h : Nat} {first : Bool} (pre mid suf : List Tx) (t1 t2 : Tx) (o : Nat)
    (v : View) (h1 : o ∈ t1.ins) (h2 : o ∈ t2.ins)
    (hne : ∀ t, t ∈ t1 :: mid → ∀ x, x ∈ t.outs → x.id ≠ o) :
    applyBlockTxs p h first (pre ++ t1 :: mid ++ t2 :: suf) v = none := by
  cases hr : applyBlockTxs p h first (pre ++ t1 :: mid ++ t2 :: suf) v with
  | none => rfl
  | some v' =>
    exfalso
    obtain ⟨vm, hvm, hin⟩ := applyBlockTxs_some_inputs hr (pre ++ t1 :: mid) t2 suf (by simp)
    -- o is marked spent in vm
    have hspent : SpentIn vm o := by
      cases hpre : applyBlockTxs p h first pre v with
      | none =>
        have := applyBlockTxs_append_none pre (suf := t1 :: mid) hpre
        rw [this] at hvm; cases hvm
      | some vp =>
        rw [applyBlockTxs_append pre hpre, applyBlockTxs_cons] at hvm
        cases hsp : applySpend p h t1.ins vp with
        | none => rw [hsp] at hvm; cases hvm
        | some v1 =>
          rw [hsp] at hvm
          apply applyBlockTxs_keeps_spent _ (fun t ht => hne t (List.mem_cons_of_mem _ ht)) hvm
          unfold SpentIn
          rw [applyOutput_other h _ o t1.outs v1 (hne t1 List.mem_cons_self)]
          exact applySpend_marks hsp h1
    obtain ⟨ipre, isuf, hsplit⟩ := List.append_of_mem h2
    obtain ⟨vi, hvi, e, he, hunspent, _⟩ := hin ipre o isuf hsplit
    obtain ⟨e', he', hsp⟩ := applySpend_keeps_spent hspent hvi
    rw [he] at he'; injection he' with he'; rw [he', hsp] at hunspent; cases hunspent

end BytomModel.Lemmas.C13
