/-
Evaluation of handlers on the value model from an explicitly given state (tactic `vm_eval`),
used for the reference-semantics theorems of C08 about stack and splice opcodes.
-/
import BytomModel.Lemmas.VMRefine
namespace BytomModel.VM
open OpM
set_option linter.unusedSimpArgs false

@[simp] theorem valueMem_len (b : Bytes) : valueMem.len b = b.length := rfl
@[simp] theorem valueMem_read (m : Unit) (b : Bytes) : valueMem.read m b = b := rfl
@[simp] theorem valueMem_fresh (m : Unit) (b : Bytes) (e : Nat) : valueMem.fresh m b e = ((), b) := rfl
theorem dupLoop_zero {μ ι : Type} (M : MemOps μ ι) (idx : Nat) : dupLoop M idx 0 = pure () := rfl
theorem dupLoop_one {μ ι : Type} (M : MemOps μ ι) (idx : Nat) : dupLoop M idx 1 = (do
    let f ← getF
    match f.data[idx]? with
    | some x => do pushItem M x false; dupLoop M idx 0
    | none => panicM) := rfl
theorem dupLoop_two {μ ι : Type} (M : MemOps μ ι) (idx : Nat) : dupLoop M idx 2 = (do
    let f ← getF
    match f.data[idx]? with
    | some x => do pushItem M x false; dupLoop M idx 1
    | none => panicM) := rfl
theorem dupLoop_three {μ ι : Type} (M : MemOps μ ι) (idx : Nat) : dupLoop M idx 3 = (do
    let f ← getF
    match f.data[idx]? with
    | some x => do pushItem M x false; dupLoop M idx 2
    | none => panicM) := rfl

syntax "vm_eval1" "[" Lean.Parser.Tactic.simpLemma,* "]" : tactic
macro_rules
  | `(tactic| vm_eval1 [$ts,*]) => `(tactic| (
      (try simp [bind_run, applyCost_run, pushItem_imm, pushItem_def, pushBytes_imm, pushBytes_def, itemCost, valueMem_len, valueMem_read, valueMem_fresh,
        pop_cons_def, pop_cons_imm, pop_nil, top_cons, top_nil, getF_run, get_run, modifyF_run, readItem_run,
        deferCost_run, Res.bindK_ok, Res.bindK_err, Res.bindK_ite, pure_run, throwE_run, opm_ite_apply,
        List.length_cons, List.length_nil, gt_iff_lt, Int.ofNat_eq_natCast, Nat.cast_one, Nat.cast_ofNat,
        List.getElem?_cons_zero, List.getElem?_cons_succ, $ts,*]) <;>
      (try (split_ifs <;> first | omega | skip))))

syntax "vm_eval" "[" Lean.Parser.Tactic.simpLemma,* "]" : tactic
macro_rules
  | `(tactic| vm_eval [$ts,*]) => `(tactic| (
      vm_eval1 [$ts,*] <;> vm_eval1 [$ts,*] <;> vm_eval1 [$ts,*] <;> vm_eval1 [$ts,*] <;> vm_eval1 [$ts,*] <;> vm_eval1 [$ts,*] <;> vm_eval1 [$ts,*] <;> vm_eval1 [$ts,*] <;> (try simp) <;> (try omega)))

end BytomModel.VM
