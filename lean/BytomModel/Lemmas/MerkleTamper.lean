/-
A replaced flag in a generated merkle proof is detected.  Besides `GoodHash` this needs that no
hash cycles exist (`rk`: a rank that strictly grows from the children to `nodeH a b`) — without it
`nodeH a b = a` would let `[Parent, Assist, Assist]` be replaced by `[Assist, …]`.
-/
import BytomModel.Lemmas.Merkle

namespace BytomModel.Lemmas.Merkle
open BytomModel.Merkle

variable {ι α : Type} [DecidableEq α] {H : HashFns ι α}

/-- rank hypothesis: hashes are well founded along the child relation -/
def Ranked (H : HashFns ι α) (rk : α → Nat) : Prop :=
  ∀ a b, rk a < rk (H.nodeH a b) ∧ rk b < rk (H.nodeH a b)

/-- the first hash a successful run consumes is the hash of a sub-tree: its rank is at most the
    rank of the tree's hash -/
theorem run_first_hash_rank (G : GoodHash H) {rk : α → Nat} (hrk : Ranked H rk) :
    ∀ (fuel : Nat) (g : α) (hs : List α) (fs : List Nat) (ms : List α) (u : MTree α) (l : List ι),
    Built H u l → (∀ m ∈ ms, ∃ x, H.leafH x = m) →
    (rootByProofF H fuel (g :: hs) fs ms).hash = u.hash → rk g ≤ rk u.hash := by
  intro fuel
  induction fuel with
  | zero => intro g hs fs ms u l hB _ h; exact absurd h (hB.hash_ne_empty G)
  | succ n ih =>
    intro g hs fs ms u l hB hms h
    cases fs with
    | nil => rw [run_nil_flags] at h; exact absurd h (hB.hash_ne_empty G)
    | cons f fs' =>
      rcases flag_cases f with rfl | rfl | rfl | h3
      · rw [run_assist] at h; simp only at h; rw [h]
      · rw [run_parent] at h
        simp only at h
        cases hB with
        | leaf x => exact absurd h.symm (G.leaf_ne_node _ _ _)
        | node hL hR =>
          obtain ⟨e1, _⟩ := G.node_inj _ _ _ _ h
          have := ih g hs fs' ms _ _ hL hms e1
          simp only [MTree.hash]
          exact Nat.le_of_lt (Nat.lt_of_le_of_lt this (hrk _ _).1)
      · cases ms with
        | nil => rw [run_leaf_nil] at h; exact absurd h (hB.hash_ne_empty G)
        | cons m ms' =>
          by_cases hm : g = m
          · subst hm; rw [run_leaf_hit] at h; simp only at h; rw [h]
          · rw [run_leaf_miss H _ _ _ hm] at h; exact absurd h (hB.hash_ne_empty G)
      · rw [run_other H _ _ h3] at h; exact absurd h (hB.hash_ne_empty G)

theorem hash_node (h : α) (l r : MTree α) : (MTree.node h l r).hash = h := rfl

theorem getD_append_left' (a b : List Nat) (i d : Nat) (h : i < a.length) : (a ++ b).getD i d = a.getD i d := by
  simp [List.getD_eq_getElem?_getD, List.getElem?_append_left h]

theorem getD_append_right' (a b : List Nat) (i d : Nat) (h : a.length ≤ i) :
    (a ++ b).getD i d = b.getD (i - a.length) d := by
  simp [List.getD_eq_getElem?_getD, List.getElem?_append_right h]

/-- shape of the side proof of a node below which something was found -/
theorem side_node_found (S : List α) (h : α) (l r : MTree α)
    (hf : ¬ (((l.proof S).1.isEmpty && (r.proof S).1.isEmpty) = true)) :
    side S (MTree.node h l r) =
      ((side S l).1 ++ (side S r).1, flagTxParent :: ((side S l).2 ++ (side S r).2)) := by
  have hp : (MTree.node h l r).proof S =
      ((side S l).1 ++ (side S r).1, flagTxParent :: ((side S l).2 ++ (side S r).2)) := by
    rw [proof_node, if_neg hf]
  have hne : ((MTree.node h l r).proof S).1 ≠ [] := by rw [hp]; simp [side_ne_nil S l]
  unfold side; rw [if_neg (by simpa using hne)]; exact hp

/-- side proof of a tree below which nothing was found: one assist node -/
theorem side_nothing (S : List α) (t : MTree α) (hm : t.leaves.filter (· ∈ S) = []) :
    side S t = ([t.hash], [flagAssist]) := by
  unfold side
  rw [if_pos]
  have := (proof_nil_iff S t).1.mpr hm
  simp [this]

/-- the hash of a tree without related leaves is not a related hash -/
theorem hash_not_related (G : GoodHash H) (S : List α) (hS : ∀ y ∈ S, ∃ x, H.leafH x = y)
    {t : MTree α} {l : List ι} (hB : Built H t l) (hm : t.leaves.filter (· ∈ S) = []) : t.hash ∉ S := by
  cases hB with
  | leaf x =>
    intro h
    simp [MTree.leaves, MTree.hash] at hm h
    exact hm h
  | node _ _ =>
    intro h
    obtain ⟨x, hx⟩ := hS _ h
    exact G.leaf_ne_node _ _ _ hx

/-- **stuck head**: the honest proof of a sub-tree, run with a foreign related hash `x` stuck at the
    head, can only succeed when the sub-tree has no related leaf, and then it consumes nothing -/
theorem side_run_stuck (G : GoodHash H) (S : List α) (t : MTree α) (l : List ι) (hB : Built H t l) :
    ∀ (fuel : Nat) (hr : List α) (fr : List Nat) (mr : List α) (x : α), (side S t).2.length < fuel →
      x ∉ t.leaves.filter (· ∈ S) →
      (rootByProofF H fuel ((side S t).1 ++ hr) ((side S t).2 ++ fr)
          (x :: (t.leaves.filter (· ∈ S) ++ mr))).hash = t.hash →
      t.leaves.filter (· ∈ S) = [] ∧
      rootByProofF H fuel ((side S t).1 ++ hr) ((side S t).2 ++ fr) (x :: (t.leaves.filter (· ∈ S) ++ mr))
        = ⟨t.hash, hr, fr, x :: mr⟩ := by
  induction hB with
  | leaf y =>
    intro fuel hr fr mr x hf hx hrun
    obtain ⟨n, rfl⟩ : ∃ n, fuel = n + 1 := ⟨fuel - 1, by omega⟩
    by_cases hm : H.leafH y ∈ S
    · exfalso
      have hne : H.leafH y ≠ x := by
        intro h; apply hx; subst h; simp [MTree.leaves, hm]
      simp [side, MTree.proof, MTree.leaves, hm, run_leaf_miss H _ _ _ hne, MTree.hash] at hrun
      exact G.empty_ne_leaf _ hrun
    · simp [side, MTree.proof, MTree.leaves, hm, run_assist, MTree.hash]
  | @node L R l1 l2 hL hR ihL ihR =>
    intro fuel hr fr mr x hf hx hrun
    by_cases hemp : (((L.proof S).1.isEmpty && (R.proof S).1.isEmpty) = true)
    · simp only [Bool.and_eq_true, List.isEmpty_iff] at hemp
      have hfil : (MTree.node (H.nodeH L.hash R.hash) L R).leaves.filter (· ∈ S) = [] := by
        simp [MTree.leaves, List.filter_append, (proof_nil_iff S L).1.mp hemp.1, (proof_nil_iff S R).1.mp hemp.2]
      obtain ⟨n, rfl⟩ : ∃ n, fuel = n + 1 := ⟨fuel - 1, by omega⟩
      rw [side_nothing S _ hfil, hfil]
      simp [run_assist, MTree.hash]
    · rw [side_node_found S _ L R hemp] at hf hrun ⊢
      simp only [List.length_cons, List.length_append] at hf
      obtain ⟨n, rfl⟩ : ∃ n, fuel = n + 1 := ⟨fuel - 1, by omega⟩
      obtain ⟨h0, hs0, e0⟩ := List.exists_cons_of_ne_nil (side_ne_nil S L)
      have e1 : (side S L).1 ++ (side S R).1 ++ hr = h0 :: (hs0 ++ ((side S R).1 ++ hr)) := by rw [e0]; simp
      have e2 : h0 :: (hs0 ++ ((side S R).1 ++ hr)) = (side S L).1 ++ ((side S R).1 ++ hr) := by rw [e0]; simp
      have e3 : (MTree.node (H.nodeH L.hash R.hash) L R).leaves.filter (· ∈ S)
          = L.leaves.filter (· ∈ S) ++ R.leaves.filter (· ∈ S) := by
        simp [MTree.leaves, List.filter_append]
      rw [e3] at hx hrun ⊢
      simp only [List.mem_append, not_or] at hx
      simp only [List.cons_append] at hrun ⊢
      rw [e1, run_parent, e2, List.append_assoc (side S L).2, List.append_assoc (L.leaves.filter _)] at hrun ⊢
      simp only [hash_node] at hrun ⊢
      obtain ⟨ha, hb⟩ := G.node_inj _ _ _ _ hrun
      obtain ⟨hl0, hla⟩ := ihL n _ _ _ x (by omega) hx.1 ha
      rw [hla] at hb ⊢
      simp only at hb ⊢
      obtain ⟨hr0, hrb⟩ := ihR n _ _ _ x (by omega) hx.2 hb
      rw [hrb]
      simp [hl0, hr0]

/-- **one replaced flag in the honest proof of a sub-tree**: if the run still returns the
    sub-tree's hash then it consumed the same hashes and flags but left one related hash of the
    sub-tree unconsumed. -/
theorem side_run_tampered (G : GoodHash H) {rk : α → Nat} (hrk : Ranked H rk) (S : List α)
    (hS : ∀ y ∈ S, ∃ x, H.leafH x = y) (t : MTree α) (l : List ι) (hB : Built H t l) :
    t.leaves.Nodup →
    ∀ (fuel : Nat) (hr : List α) (fr : List Nat) (mr : List α) (i f' : Nat),
      (side S t).2.length < fuel → (∀ y ∈ mr, y ∈ S) →
      i < (side S t).2.length → f' ≠ (side S t).2.getD i 0 →
      (rootByProofF H fuel ((side S t).1 ++ hr) ((side S t).2.set i f' ++ fr)
          (t.leaves.filter (· ∈ S) ++ mr)).hash = t.hash →
      ∃ x ∈ t.leaves.filter (· ∈ S),
        rootByProofF H fuel ((side S t).1 ++ hr) ((side S t).2.set i f' ++ fr) (t.leaves.filter (· ∈ S) ++ mr)
          = ⟨t.hash, hr, fr, x :: mr⟩ := by
  induction hB with
  | leaf y =>
    intro _ fuel hr fr mr i f' hf hmr hi hne hrun
    obtain ⟨n, rfl⟩ : ∃ n, fuel = n + 1 := ⟨fuel - 1, by omega⟩
    by_cases hm : H.leafH y ∈ S
    · -- honest flag: TxLeaf
      have hside : side S (MTree.leaf (H.leafH y)) = ([H.leafH y], [flagTxLeaf]) := by
        simp [side, MTree.proof, hm]
      rw [hside] at hi hne hrun ⊢
      have hi0 : i = 0 := by simpa using hi
      subst hi0
      simp only [List.set_cons_zero, List.getD_cons_zero, MTree.leaves, List.filter_cons, hm, decide_true,
        if_true, List.filter_nil, List.cons_append, List.nil_append, MTree.hash] at hne hrun ⊢
      rcases flag_cases f' with rfl | rfl | rfl | h3
      · exact ⟨H.leafH y, by simp, by rw [run_assist]⟩
      · exfalso; rw [run_parent] at hrun; exact G.leaf_ne_node _ _ _ hrun.symm
      · exact absurd rfl hne
      · exfalso; rw [run_other H _ _ h3] at hrun; exact G.empty_ne_leaf _ hrun
    · -- honest flag: Assist (this leaf is not related)
      exfalso
      have hfil : (MTree.leaf (H.leafH y)).leaves.filter (· ∈ S) = [] := by simp [MTree.leaves, hm]
      rw [side_nothing S _ hfil] at hi hne hrun
      have hi0 : i = 0 := by simpa using hi
      subst hi0
      rw [hfil] at hrun
      simp only [List.set_cons_zero, List.getD_cons_zero, List.cons_append, List.nil_append, MTree.hash] at hne hrun
      rcases flag_cases f' with rfl | rfl | rfl | h3
      · exact hne rfl
      · rw [run_parent] at hrun; exact G.leaf_ne_node _ _ _ hrun.symm
      · cases mr with
        | nil => rw [run_leaf_nil] at hrun; exact G.empty_ne_leaf _ hrun
        | cons m mr' =>
          have : H.leafH y ≠ m := fun h => hm (h ▸ hmr m (by simp))
          rw [run_leaf_miss H _ _ _ this] at hrun; exact G.empty_ne_leaf _ hrun
      · rw [run_other H _ _ h3] at hrun; exact G.empty_ne_leaf _ hrun
  | @node L R l1 l2 hL hR ihL ihR =>
    intro hnd fuel hr fr mr i f' hf hmr hi hne hrun
    have hBt : Built H (MTree.node (H.nodeH L.hash R.hash) L R) (l1 ++ l2) := Built.node hL hR
    simp only [MTree.leaves] at hnd
    have hndL : L.leaves.Nodup := (List.nodup_append.mp hnd).1
    have hndR : R.leaves.Nodup := (List.nodup_append.mp hnd).2.1
    have hdisj : ∀ a ∈ L.leaves, ∀ b ∈ R.leaves, a ≠ b := (List.nodup_append.mp hnd).2.2
    have e3 : (MTree.node (H.nodeH L.hash R.hash) L R).leaves.filter (· ∈ S)
        = L.leaves.filter (· ∈ S) ++ R.leaves.filter (· ∈ S) := by
      simp [MTree.leaves, List.filter_append]
    by_cases hemp : (((L.proof S).1.isEmpty && (R.proof S).1.isEmpty) = true)
    · -- honest flag: Assist for the whole node
      exfalso
      simp only [Bool.and_eq_true, List.isEmpty_iff] at hemp
      have hfil : (MTree.node (H.nodeH L.hash R.hash) L R).leaves.filter (· ∈ S) = [] := by
        rw [e3, (proof_nil_iff S L).1.mp hemp.1, (proof_nil_iff S R).1.mp hemp.2]; rfl
      have hnotS := hash_not_related G S hS hBt hfil
      rw [side_nothing S _ hfil] at hi hne hrun hf
      have hi0 : i = 0 := by simpa using hi
      subst hi0
      rw [hfil] at hrun
      obtain ⟨n, rfl⟩ : ∃ n, fuel = n + 1 := ⟨fuel - 1, by omega⟩
      simp only [List.set_cons_zero, List.getD_cons_zero, List.cons_append, List.nil_append] at hne hrun
      rcases flag_cases f' with rfl | rfl | rfl | h3
      · exact hne rfl
      · rw [run_parent] at hrun
        simp only [hash_node] at hrun
        obtain ⟨ha, _⟩ := G.node_inj _ _ _ _ hrun
        have := run_first_hash_rank G hrk n _ hr fr mr L l1 hL
          (fun m hm => hS m (hmr m hm)) ha
        have h2 := (hrk L.hash R.hash).1
        omega
      · cases mr with
        | nil => rw [run_leaf_nil] at hrun; exact (hBt.hash_ne_empty G) hrun
        | cons m mr' =>
          have : (MTree.node (H.nodeH L.hash R.hash) L R).hash ≠ m := fun h => hnotS (h ▸ hmr m (by simp))
          rw [run_leaf_miss H _ _ _ this] at hrun; exact (hBt.hash_ne_empty G) hrun
      · rw [run_other H _ _ h3] at hrun; exact (hBt.hash_ne_empty G) hrun
    · -- honest flags: Parent, then the two sides
      rw [side_node_found S _ L R hemp] at hf hi hne hrun ⊢
      simp only [List.length_cons, List.length_append] at hf hi
      obtain ⟨n, rfl⟩ : ∃ n, fuel = n + 1 := ⟨fuel - 1, by omega⟩
      obtain ⟨h0, hs0, e0⟩ := List.exists_cons_of_ne_nil (side_ne_nil S L)
      have e1 : (side S L).1 ++ (side S R).1 ++ hr = h0 :: (hs0 ++ ((side S R).1 ++ hr)) := by rw [e0]; simp
      have e2 : h0 :: (hs0 ++ ((side S R).1 ++ hr)) = (side S L).1 ++ ((side S R).1 ++ hr) := by rw [e0]; simp
      rw [e3] at hrun ⊢
      rw [List.append_assoc (L.leaves.filter _)] at hrun ⊢
      have hmrL : ∀ y ∈ R.leaves.filter (· ∈ S) ++ mr, y ∈ S := by
        intro y hy
        rcases List.mem_append.mp hy with h | h
        · have h' := List.mem_filter.mp h
          exact of_decide_eq_true h'.2
        · exact hmr y h
      -- the honest left run (needed in two of the cases)
      have hleft := fun fr' => side_run H S L hL.wf n ((side S R).1 ++ hr) fr'
        (R.leaves.filter (· ∈ S) ++ mr) (by omega)
      cases i with
      | zero =>
        -- the Parent flag itself was replaced
        exfalso
        simp only [List.set_cons_zero, List.getD_cons_zero, List.cons_append] at hne hrun
        rw [e1] at hrun
        have hmsAll : ∀ m ∈ L.leaves.filter (· ∈ S) ++ (R.leaves.filter (· ∈ S) ++ mr), ∃ x, H.leafH x = m := by
          intro m hm
          rcases List.mem_append.mp hm with h | h
          · have h' := List.mem_filter.mp h
            exact hS m (of_decide_eq_true h'.2)
          · exact hS m (hmrL m h)
        have hrank : rk h0 < rk (H.nodeH L.hash R.hash) := by
          have hl' := hleft ((side S R).2 ++ fr)
          rw [← e2] at hl'
          have := run_first_hash_rank G hrk n h0 (hs0 ++ ((side S R).1 ++ hr))
            ((side S L).2 ++ ((side S R).2 ++ fr))
            (L.leaves.filter (· ∈ S) ++ (R.leaves.filter (· ∈ S) ++ mr)) L l1 hL hmsAll (by rw [hl'])
          exact Nat.lt_of_le_of_lt this (hrk _ _).1
        rcases flag_cases f' with rfl | rfl | rfl | h3
        · rw [run_assist] at hrun
          simp only [hash_node] at hrun
          rw [hrun] at hrank; omega
        · exact hne rfl
        · cases hms : L.leaves.filter (· ∈ S) ++ (R.leaves.filter (· ∈ S) ++ mr) with
          | nil => rw [hms, run_leaf_nil] at hrun; exact (hBt.hash_ne_empty G) hrun
          | cons m ms' =>
            rw [hms] at hrun
            by_cases hhm : h0 = m
            · subst hhm
              rw [run_leaf_hit] at hrun
              simp only [hash_node] at hrun
              rw [hrun] at hrank; omega
            · rw [run_leaf_miss H _ _ _ hhm] at hrun; exact (hBt.hash_ne_empty G) hrun
        · rw [run_other H _ _ h3] at hrun; exact (hBt.hash_ne_empty G) hrun
      | succ j =>
        simp only [List.set_cons_succ, List.getD_cons_succ, List.cons_append] at hne hrun ⊢
        rw [e1, run_parent, e2] at hrun ⊢
        simp only [hash_node] at hrun ⊢
        by_cases hj : j < (side S L).2.length
        · -- the replaced flag is in the left side
          rw [List.set_append_left _ _ hj, List.append_assoc] at hrun ⊢
          obtain ⟨ha, hb⟩ := G.node_inj _ _ _ _ hrun
          have hneL : f' ≠ (side S L).2.getD j 0 := by
            rw [getD_append_left' _ _ _ _ hj] at hne; exact hne
          obtain ⟨x, hxm, hxa⟩ := ihL hndL n _ _ _ j f' (by omega) hmrL hj hneL ha
          rw [hxa] at hb ⊢
          simp only at hb ⊢
          have hxR : x ∉ R.leaves.filter (· ∈ S) := by
            intro h
            exact hdisj x (List.mem_filter.mp hxm).1 x (List.mem_filter.mp h).1 rfl
          obtain ⟨hr0, hrb⟩ := side_run_stuck G S R l2 hR n hr fr mr x (by omega) hxR hb
          rw [hrb]
          exact ⟨x, by simp [hxm], rfl⟩
        · -- the replaced flag is in the right side
          have hj' : (side S L).2.length ≤ j := Nat.le_of_not_lt hj
          rw [List.set_append_right _ _ hj', List.append_assoc, hleft] at hrun ⊢
          simp only at hrun ⊢
          obtain ⟨_, hb⟩ := G.node_inj _ _ _ _ hrun
          have hneR : f' ≠ (side S R).2.getD (j - (side S L).2.length) 0 := by
            rw [getD_append_right' _ _ _ _ hj'] at hne; exact hne
          obtain ⟨x, hxm, hxb⟩ := ihR hndR n hr fr mr (j - (side S L).2.length) f' (by omega) hmr
            (by omega) hneR hb
          rw [hxb]
          exact ⟨x, by simp [hxm], rfl⟩

/-- the free algebra has no hash cycles: rank = size of the term -/
def freeRank : FH → Nat
  | .e => 0
  | .lf _ => 0
  | .nd a b => freeRank a + freeRank b + 1

theorem free_ranked : Ranked freeFns freeRank := by
  intro a b
  simp only [freeFns, freeRank]
  omega

end BytomModel.Lemmas.Merkle
