/-
Lemmas for "one changed character is rejected" on segwit address strings.  An address string
has the shape `hrp ++ '1' :: cs` with `cs` the charset characters of the data (version, program
groups, checksum).  The three places a character can change are treated separately.
-/
import BytomModel.Lemmas.Bech32
import Mathlib.Tactic.Linarith

namespace BytomModel.Lemmas.Address
open BytomModel.Bech32 BytomModel.Lemmas.Bech32

/-! ### small facts -/

theorem lastIndexOf_lt : ∀ (l : Bytes) (c k : Nat), lastIndexOf c l = some k → k < l.length
  | [], _, _, h => by simp [lastIndexOf] at h
  | x :: l, c, k, h => by
    cases hl : lastIndexOf c l with
    | some i =>
      have e : lastIndexOf c (x :: l) = some (i + 1) := by simp [lastIndexOf, hl]
      rw [e] at h; injection h with h
      have := lastIndexOf_lt l c i hl
      simp only [List.length_cons]; omega
    | none =>
      have e : lastIndexOf c (x :: l) = if x = c then some 0 else none := by simp [lastIndexOf, hl]
      rw [e] at h
      split at h
      · injection h with h; simp only [List.length_cons]; omega
      · cases h

theorem ne_map_of_mem {f : Nat → Nat} : ∀ (l : List Nat) (y : Nat), y ∈ l → f y ≠ y → l ≠ l.map f
  | [], _, hy, _ => by simp at hy
  | x :: l, y, hy, hf => by
    intro h
    simp only [List.map_cons, List.cons.injEq] at h
    rcases List.mem_cons.mp hy with rfl | hy'
    · exact hf h.1.symm
    · exact ne_map_of_mem l y hy' hf h.2

/-- a wrong symbol in a verifying data part no longer verifies (see `polymod_single_error`) -/
theorem checksum_single_error (hrp pre post : Bytes) (x x' : Nat) (hx : x < 32) (hx' : x' < 32)
    (hne : x ≠ x') (hv : verifyChecksum hrp (pre ++ x :: post) = true) :
    verifyChecksum hrp (pre ++ x' :: post) = false := by
  unfold verifyChecksum at hv ⊢
  have h1 : polymod (hrpExpand hrp ++ (pre ++ x :: post)) = 1 := by simpa using hv
  have := polymod_single_error (hrpExpand hrp ++ pre) post x x' (by omega) (by omega) hne
  rw [List.append_assoc, List.append_assoc, h1] at this
  simp only [beq_eq_false_iff_ne, ne_eq]
  exact fun h => this h.symm

theorem lastIndexOf_append_not_mem (pre post : Bytes) (c : Nat) (h : c ∉ post) :
    lastIndexOf c (pre ++ post) = lastIndexOf c pre := by
  induction pre with
  | nil => simp [lastIndexOf, lastIndexOf_none post c h]
  | cons x pre ih => simp [lastIndexOf, ih]

theorem toLower_ne_49 (c : Nat) : toLower c = 49 ↔ c = 49 := by
  unfold toLower; split <;> omega

/-- a decode that sees a mixed-case string fails (possibly earlier, with another error) -/
theorem decode_error_of_mixed (s : Bytes) (h1 : s ≠ s.map toLower) (h2 : s ≠ s.map toUpper) :
    ∃ e, decode s = .error e := by
  unfold decode
  split
  · exact ⟨_, rfl⟩
  · split
    · exact ⟨_, rfl⟩
    · simp only
      rw [if_pos ⟨h1, h2⟩]
      exact ⟨_, rfl⟩

theorem decodeSegWit_error {s : Bytes} {e : Err} (h : decode s = .error e) : decodeSegWit s = .error e := by
  unfold decodeSegWit; rw [h]

/-- whatever the prefix test says, an address whose bech32 decoding fails is refused -/
theorem decodeAddress_error_of_decode {s hrp : Bytes} {e : Err} (h : decode s = .error e) :
    ∃ e', decodeAddress s hrp = .error e' := by
  unfold decodeAddress
  cases lastIndexOf 49 s with
  | none => exact ⟨_, rfl⟩
  | some k =>
    simp only
    split
    · split
      · rw [decodeSegWit_error h]; exact ⟨_, rfl⟩
      · exact ⟨_, rfl⟩
    · exact ⟨_, rfl⟩

/-- an address whose prefix (up to the last `1`) has another length than `hrp ++ "1"` is refused -/
theorem decodeAddress_error_of_sep {s hrp : Bytes} (h : ∀ k, lastIndexOf 49 s = some k → k ≠ hrp.length) :
    decodeAddress s hrp = .error .unknownType := by
  unfold decodeAddress
  cases hl : lastIndexOf 49 s with
  | none => rfl
  | some k =>
    simp only
    split
    · rw [if_neg]
      intro he
      have hk := lastIndexOf_lt s 49 k hl
      have := congrArg List.length he
      simp only [List.length_map, List.length_take, List.length_append, List.length_cons, List.length_nil] at this
      exact h k hl (by omega)
    · rfl

theorem charsetIndex_some {c v : Nat} (h : charsetIndex c = some v) : v < 32 ∧ charset.getD v 0 = c := by
  unfold charsetIndex at h
  simp only at h
  split at h
  · rename_i hlt
    injection h with h
    subst h
    refine ⟨hlt, ?_⟩
    have hlen : charset.length = 32 := by decide
    have hlt' : List.idxOf c charset < charset.length := by rw [hlen]; exact hlt
    rw [List.getD_eq_getElem?_getD, List.getElem?_eq_getElem hlt']
    simp only [Option.getD_some]
    exact List.getElem_idxOf hlt'
  · cases h

/-- `toBytes` splits along an append -/
theorem toBytes_append_ok : ∀ (a b : Bytes) (d : Bytes), toBytes (a ++ b) = .ok d →
    ∃ da db, toBytes a = .ok da ∧ toBytes b = .ok db ∧ d = da ++ db
  | [], b, d, h => ⟨[], d, rfl, h, rfl⟩
  | x :: a, b, d, h => by
    simp only [List.cons_append, toBytes] at h ⊢
    cases hx : charsetIndex x with
    | none => rw [hx] at h; cases h
    | some i =>
      rw [hx] at h
      simp only at h ⊢
      cases hr : toBytes (a ++ b) with
      | error e => rw [hr] at h; cases h
      | ok r =>
        rw [hr] at h
        injection h with h
        obtain ⟨da, db, h1, h2, h3⟩ := toBytes_append_ok a b r hr
        refine ⟨i :: da, db, ?_, h2, ?_⟩
        · rw [h1]
        · rw [← h, h3]; rfl

theorem toBytes_cons_ok {x : Nat} {b d : Bytes} (h : toBytes (x :: b) = .ok d) :
    ∃ v db, charsetIndex x = some v ∧ toBytes b = .ok db ∧ d = v :: db := by
  simp only [toBytes] at h
  cases hx : charsetIndex x with
  | none => rw [hx] at h; cases h
  | some i =>
    rw [hx] at h
    simp only at h
    cases hr : toBytes b with
    | error e => rw [hr] at h; cases h
    | ok r => rw [hr] at h; injection h with h; exact ⟨i, r, rfl, rfl, h.symm⟩

/-! ### the three places -/

/-- characters of a value list -/
def chars (vals : Bytes) : Bytes := vals.map (fun b => charset.getD b 0)

theorem chars_props {vals : Bytes} (hv : ∀ b ∈ vals, b < 32) :
    ∀ c ∈ chars vals, 33 ≤ c ∧ c ≤ 126 ∧ toLower c = c ∧ c ≠ 49 := by
  intro c hc
  obtain ⟨b, hb, rfl⟩ := List.mem_map.mp hc
  have := charset_table b (hv b hb)
  exact ⟨this.2.1, this.2.2.1, this.2.2.2.1, this.2.2.2.2⟩

theorem map_toLower_id {l : Bytes} (h : ∀ c ∈ l, toLower c = c) : l.map toLower = l := by
  conv => rhs; rw [← List.map_id l]
  exact List.map_congr_left h

/-- **(C) a changed character in the data part** (version / program / checksum characters). -/
theorem subst_data (hrp v1 v2 : Bytes) (x c : Nat)
    (hlow : ∀ ch ∈ hrp, toLower ch = ch) (hletter : ∃ ch ∈ hrp, 97 ≤ ch ∧ ch ≤ 122)
    (hvals : ∀ b ∈ v1 ++ x :: v2, b < 32)
    (hver : verifyChecksum hrp (v1 ++ x :: v2) = true) (hne : c ≠ charset.getD x 0) :
    ∃ e, decodeAddress (hrp ++ 49 :: (chars v1 ++ c :: chars v2)) hrp = .error e := by
  have hv1 : ∀ b ∈ v1, b < 32 := fun b hb => hvals b (by simp [hb])
  have hv2 : ∀ b ∈ v2, b < 32 := fun b hb => hvals b (by simp [hb])
  have hx : x < 32 := hvals x (by simp)
  have p1 := chars_props hv1
  have p2 := chars_props hv2
  by_cases hc49 : c = 49
  · -- a new '1' in the data part moves the separator
    subst hc49
    apply Exists.intro _
    apply decodeAddress_error_of_sep
    intro k hk
    have e : hrp ++ 49 :: (chars v1 ++ 49 :: chars v2) = (hrp ++ 49 :: chars v1) ++ 49 :: chars v2 := by simp
    rw [e, lastIndexOf_append _ _ _ (fun h => (p2 49 h).2.2.2 rfl)] at hk
    injection hk with hk
    simp only [List.length_append, List.length_cons] at hk
    omega
  · generalize hs' : hrp ++ 49 :: (chars v1 ++ c :: chars v2) = s'
    by_cases hup : 65 ≤ c ∧ c ≤ 90
    · -- an upper-case letter among lower-case ones
      obtain ⟨ch, hch, hl1, hl2⟩ := hletter
      obtain ⟨e, he⟩ := decode_error_of_mixed s'
        (ne_map_of_mem s' c (by rw [← hs']; simp) (by unfold toLower; rw [if_pos hup]; omega))
        (ne_map_of_mem s' ch (by rw [← hs']; simp [hch]) (by unfold toUpper; rw [if_pos ⟨hl1, hl2⟩]; omega))
      exact decodeAddress_error_of_decode he
    · have hcl : toLower c = c := by unfold toLower; rw [if_neg hup]
      have hlower : s'.map toLower = s' := by
        rw [← hs']
        apply map_toLower_id
        intro y hy
        simp only [List.mem_append, List.mem_cons] at hy
        rcases hy with h | rfl | h | rfl | h
        · exact hlow y h
        · decide
        · exact (p1 y h).2.2.1
        · exact hcl
        · exact (p2 y h).2.2.1
      have h49 : 49 ∉ chars v1 ++ c :: chars v2 := by
        intro h
        simp only [List.mem_append, List.mem_cons] at h
        rcases h with h | h | h
        · exact (p1 49 h).2.2.2 rfl
        · exact hc49 h.symm
        · exact (p2 49 h).2.2.2 rfl
      have hlast : lastIndexOf 49 s' = some hrp.length := by
        rw [← hs']; exact lastIndexOf_append hrp _ 49 h49
      have hdec : ∃ e, decode s' = .error e := by
        unfold decode
        split
        · exact ⟨_, rfl⟩
        · split
          · exact ⟨_, rfl⟩
          · simp only [hlower, ne_eq, not_true_eq_false, false_and, if_false, hlast]
            split
            · exact ⟨_, rfl⟩
            · have htake : s'.take hrp.length = hrp := by rw [← hs', List.take_left']; rfl
              have hdrop : s'.drop (hrp.length + 1) = chars v1 ++ c :: chars v2 := by
                rw [← hs']
                have : hrp ++ 49 :: (chars v1 ++ c :: chars v2) = (hrp ++ [49]) ++ (chars v1 ++ c :: chars v2) := by simp
                rw [this]
                have hl : hrp.length + 1 = (hrp ++ [49]).length := by simp
                rw [hl, List.drop_left']; rfl
              rw [htake, hdrop]
              cases hb : toBytes (chars v1 ++ c :: chars v2) with
              | error e => exact ⟨_, rfl⟩
              | ok d =>
                simp only
                obtain ⟨da, db, h1, h2, h3⟩ := toBytes_append_ok _ _ _ hb
                obtain ⟨v', dc, h4, h5, h6⟩ := toBytes_cons_ok h2
                have e1 : da = v1 := by
                  have := toBytes_chars v1 hv1
                  unfold chars at h1; rw [this] at h1; injection h1 with h1; exact h1.symm
                have e2 : dc = v2 := by
                  have := toBytes_chars v2 hv2
                  unfold chars at h5; rw [this] at h5; injection h5 with h5; exact h5.symm
                obtain ⟨hv'lt, hv'c⟩ := charsetIndex_some h4
                have hv'ne : x ≠ v' := by
                  intro h; subst h; exact hne hv'c.symm
                have := checksum_single_error hrp v1 v2 x v' hx hv'lt hv'ne hver
                rw [h3, h6, e1, e2, this]
                exact ⟨_, rfl⟩
      obtain ⟨e, he⟩ := hdec
      exact decodeAddress_error_of_decode he

/-- **(B) a changed separator**: no `1` is left where the prefix would have to end. -/
theorem subst_separator (hrp cs : Bytes) (c : Nat) (hc : c ≠ 49) (h49 : 49 ∉ cs) :
    decodeAddress (hrp ++ c :: cs) hrp = .error .unknownType := by
  apply decodeAddress_error_of_sep
  intro k hk
  rw [lastIndexOf_append_not_mem hrp (c :: cs) 49 (by
    intro h; rcases List.mem_cons.mp h with h | h
    · exact hc h.symm
    · exact h49 h)] at hk
  have := lastIndexOf_lt hrp 49 k hk
  omega

/-- **(A) a changed character in the human-readable part**: either the prefix no longer matches
    the network, or (case change only) the string is mixed-case. -/
theorem subst_hrp (h1 h2 cs : Bytes) (x c : Nat) (hne : c ≠ x)
    (hlow : ∀ ch ∈ h1 ++ x :: h2, toLower ch = ch)
    (hletter : ∃ ch ∈ h1 ++ h2, 97 ≤ ch ∧ ch ≤ 122) (h49 : 49 ∉ cs) :
    ∃ e, decodeAddress ((h1 ++ c :: h2) ++ 49 :: cs) (h1 ++ x :: h2) = .error e := by
  by_cases hcl : toLower c = x
  · -- only the case changed: mixed-case string
    have hcx : toLower c ≠ c := by rw [hcl]; exact fun h => hne h.symm
    have hcu : 65 ≤ c ∧ c ≤ 90 := by
      unfold toLower at hcx; split at hcx
      · assumption
      · exact absurd rfl hcx
    obtain ⟨ch, hch, hl1, hl2⟩ := hletter
    obtain ⟨e, he⟩ := decode_error_of_mixed ((h1 ++ c :: h2) ++ 49 :: cs)
      (ne_map_of_mem _ c (by simp) hcx)
      (ne_map_of_mem _ ch (by rcases List.mem_append.mp hch with h | h <;> simp [h])
        (by unfold toUpper; rw [if_pos ⟨hl1, hl2⟩]; omega))
    exact decodeAddress_error_of_decode he
  · -- the prefix is not the network's
    refine ⟨.unknownType, ?_⟩
    unfold decodeAddress
    have hlast : lastIndexOf 49 ((h1 ++ c :: h2) ++ 49 :: cs) = some (h1 ++ c :: h2).length :=
      lastIndexOf_append _ _ 49 h49
    rw [hlast]
    simp only
    split
    · rw [if_neg]
      intro he
      have htake : ((h1 ++ c :: h2) ++ 49 :: cs).take ((h1 ++ c :: h2).length + 1) = (h1 ++ c :: h2) ++ [49] := by
        have : (h1 ++ c :: h2) ++ 49 :: cs = ((h1 ++ c :: h2) ++ [49]) ++ cs := by simp
        rw [this]
        have hl : (h1 ++ c :: h2).length + 1 = ((h1 ++ c :: h2) ++ [49]).length := by
          simp only [List.length_append, List.length_cons, List.length_nil]
        rw [hl, List.take_left']; rfl
      rw [htake] at he
      simp only [List.map_append, List.map_cons, List.map_nil, List.append_assoc, List.cons_append] at he
      have hl1 : h1.map toLower = h1 := map_toLower_id (fun y hy => hlow y (by simp [hy]))
      rw [hl1] at he
      have he := List.append_cancel_left he
      injection he with he _
      exact hcl he
    · rfl

end BytomModel.Lemmas.Address
