/-
Frame lemmas for the chain part of `Model/Node.lean`: which fields of the state
`ApplyBlock`, `OrphanManage.Add/delete`, `saveBlock` and `tryReorganize` can change, and what
a successful / refused `saveBlock` does to the store and the orphan pool.
-/
import BytomModel.Lemmas.NodePool
open BytomModel.Node BytomModel.Lemmas.NodeAlist BytomModel.Lemmas.NodePool

namespace BytomModel.Lemmas.NodeFrame

/-- `s'` differs from `s` at most in the casper part (checkpoint tree, persisted checkpoint
    records, posted verifications) -/
structure CasperOnly (s s' : State) : Prop where
  cfg : s'.cfg = s.cfg
  defs : s'.defs = s.defs
  headers : s'.headers = s.headers
  storeOrder : s'.storeOrder = s.storeOrder
  index : s'.index = s.index
  best : s'.best = s.best
  statusFin : s'.statusFin = s.statusFin
  orphans : s'.orphans = s.orphans
  prevOrphans : s'.prevOrphans = s.prevOrphans

theorem CasperOnly.rfl' (s : State) : CasperOnly s s := ⟨rfl, rfl, rfl, rfl, rfl, rfl, rfl, rfl, rfl⟩

theorem applyBlock_casperOnly (s : State) (b : Header) : CasperOnly s (s.applyBlock b).1 := by
  unfold State.applyBlock
  dsimp only
  repeat' split
  all_goals first | exact CasperOnly.rfl' _ | exact ⟨rfl, rfl, rfl, rfl, rfl, rfl, rfl, rfl, rfl⟩

/-- `s'` differs from `s` at most in the orphan pool -/
structure PoolOnly (s s' : State) : Prop where
  cfg : s'.cfg = s.cfg
  defs : s'.defs = s.defs
  headers : s'.headers = s.headers
  storeOrder : s'.storeOrder = s.storeOrder
  ckpts : s'.ckpts = s.ckpts
  index : s'.index = s.index
  best : s'.best = s.best
  statusFin : s'.statusFin = s.statusFin
  tree : s'.tree = s.tree
  posted : s'.posted = s.posted

theorem PoolOnly.rfl' (s : State) : PoolOnly s s := ⟨rfl, rfl, rfl, rfl, rfl, rfl, rfl, rfl, rfl, rfl⟩

theorem orphanAdd_poolOnly (s : State) (b : Header) : PoolOnly s (s.orphanAdd b) := by
  unfold State.orphanAdd
  split
  · exact PoolOnly.rfl' s
  · exact ⟨rfl, rfl, rfl, rfl, rfl, rfl, rfl, rfl, rfl, rfl⟩

theorem orphanDelete_poolOnly (s : State) (i : Nat) : PoolOnly s (s.orphanDelete i) := by
  unfold State.orphanDelete
  dsimp only
  repeat' split
  all_goals first | exact PoolOnly.rfl' s | exact ⟨rfl, rfl, rfl, rfl, rfl, rfl, rfl, rfl, rfl, rfl⟩

theorem orphanAdd_orphans (s : State) (b : Header) :
    (s.orphanAdd b).orphans = if s.isOrphan b.id then s.orphans else s.orphans ++ [b] := by
  unfold State.orphanAdd
  split <;> rfl

theorem orphanAdd_prevOrphans (s : State) (b : Header) :
    (s.orphanAdd b).prevOrphans = if s.isOrphan b.id then s.prevOrphans else
      alistSet s.prevOrphans b.parent ((alistGet s.prevOrphans b.parent).getD [] ++ [b.id]) := by
  unfold State.orphanAdd
  split <;> rfl

theorem orphanDelete_orphans (s : State) (i : Nat) :
    (s.orphanDelete i).orphans = s.orphans.filter (fun h => h.id != i) := by
  unfold State.orphanDelete
  dsimp only
  split
  · rename_i e
    symm
    rw [List.filter_eq_self]
    intro h hm
    have := lookupHeader_none.mp e
    simp only [bne_iff_ne, ne_eq]
    intro e'
    exact this (List.mem_map.mpr ⟨h, hm, e'⟩)
  · repeat' split
    all_goals rfl

theorem orphanDelete_prevOrphans (s : State) (i : Nat) :
    (s.orphanDelete i).prevOrphans =
      match lookupHeader s.orphans i with
      | none => s.prevOrphans
      | some b =>
        match alistGet s.prevOrphans b.parent with
        | none => s.prevOrphans
        | some l => if l.length == 1 then alistDel s.prevOrphans b.parent
                    else alistSet s.prevOrphans b.parent (l.erase i) := by
  unfold State.orphanDelete
  dsimp only
  repeat' split
  all_goals first | rfl | simp_all

/-- the pool invariant survives `OrphanManage.Add` -/
theorem poolInv_orphanAdd {s : State} (h : PoolInv s.orphans s.prevOrphans) (b : Header) :
    PoolInv (s.orphanAdd b).orphans (s.orphanAdd b).prevOrphans := by
  rw [orphanAdd_orphans, orphanAdd_prevOrphans]
  by_cases e : s.isOrphan b.id = true
  · simpa [e] using h
  · simp only [e]
    exact h.add b (fun hm => e ((isOrphan_iff s b.id).mpr hm))

/-- the pool invariant survives `OrphanManage.delete` -/
theorem poolInv_orphanDelete {s : State} (h : PoolInv s.orphans s.prevOrphans) (i : Nat) :
    PoolInv (s.orphanDelete i).orphans (s.orphanDelete i).prevOrphans := by
  rw [orphanDelete_orphans, orphanDelete_prevOrphans]
  cases e : lookupHeader s.orphans i with
  | none =>
    have : s.orphans.filter (fun h => h.id != i) = s.orphans := by
      rw [List.filter_eq_self]
      intro x hm
      simp only [bne_iff_ne, ne_eq]
      intro e'
      exact lookupHeader_none.mp e (List.mem_map.mpr ⟨x, hm, e'⟩)
    simpa [this] using h
  | some b => exact h.delete e

/-- the block with id `i` is in the store -/
def stored (s : State) (i : Nat) : Prop := (s.header i).isSome = true

theorem stored_iff {s : State} {i : Nat} : stored s i ↔ i ∈ s.headers.map (·.id) := by
  unfold stored State.header
  exact lookupHeader_isSome

theorem not_stored_iff {s : State} {i : Nat} : ¬ stored s i ↔ s.header i = none := by
  unfold stored
  cases s.header i <;> simp

theorem header_of_stored {s : State} {i : Nat} (h : stored s i) : ∃ hd, s.header i = some hd ∧ hd ∈ s.headers ∧ hd.id = i := by
  unfold stored at h
  cases e : s.header i with
  | none => simp [e] at h
  | some hd => exact ⟨hd, rfl, (lookupHeader_some e).1, (lookupHeader_some e).2⟩

/-- the state `saveBlock` builds after a successful `ApplyBlock`, before the pool entry is deleted -/
def storeBlock (s1 : State) (b : Header) (sup : List SupLink) : State :=
  { s1 with headers := { b with sup := sup } :: s1.headers.filter (fun h => h.id != b.id),
            storeOrder := if s1.storeOrder.contains b.id then s1.storeOrder else s1.storeOrder ++ [b.id] }

theorem saveBlock_false {s : State} {b : Header} (h : (s.saveBlock b).2 = false) :
    CasperOnly s (s.saveBlock b).1 := by
  unfold State.saveBlock at h ⊢
  cases hp : s.header b.parent with
  | none => exact CasperOnly.rfl' s
  | some pb =>
    simp only [hp] at h ⊢
    cases hc : s.prevCheckpointHash s.fuel b.parent with
    | none => exact CasperOnly.rfl' s
    | some ch =>
      simp only [hc] at h ⊢
      cases hg : s.getCheckpoint ch with
      | none => exact CasperOnly.rfl' s
      | some r =>
        simp only [hg] at h ⊢
        have hcas := applyBlock_casperOnly s b
        rcases e : s.applyBlock b with ⟨s1, ok, sup⟩
        rw [e] at h hcas
        cases ok
        · simpa using hcas
        · simp at h

theorem saveBlock_true {s : State} {b : Header} (h : (s.saveBlock b).2 = true) :
    stored s b.parent ∧ (s.applyBlock b).2.1 = true ∧
    (s.saveBlock b).1 = (storeBlock (s.applyBlock b).1 b (s.applyBlock b).2.2).orphanDelete b.id := by
  unfold State.saveBlock at h ⊢
  cases hp : s.header b.parent with
  | none => simp [hp] at h
  | some pb =>
    simp only [hp] at h ⊢
    cases hc : s.prevCheckpointHash s.fuel b.parent with
    | none => simp [hc] at h
    | some ch =>
      simp only [hc] at h ⊢
      cases hg : s.getCheckpoint ch with
      | none => simp [hg] at h
      | some r =>
        simp only [hg] at h ⊢
        rcases e : s.applyBlock b with ⟨s1, ok, sup⟩
        rw [e] at h
        cases ok
        · simp at h
        · refine ⟨by simp [stored, hp], rfl, ?_⟩
          simp [storeBlock]

theorem tryReorganize_frame (s : State) (bh : Nat) :
    let s' := (s.tryReorganize bh).1
    s'.cfg = s.cfg ∧ s'.defs = s.defs ∧ s'.headers = s.headers ∧ s'.storeOrder = s.storeOrder ∧
    s'.ckpts = s.ckpts ∧ s'.tree = s.tree ∧ s'.orphans = s.orphans ∧ s'.prevOrphans = s.prevOrphans ∧
    s'.posted = s.posted := by
  unfold State.tryReorganize
  dsimp only
  repeat' split
  all_goals exact ⟨rfl, rfl, rfl, rfl, rfl, rfl, rfl, rfl, rfl⟩

end BytomModel.Lemmas.NodeFrame
