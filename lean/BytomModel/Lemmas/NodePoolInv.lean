/-
C23 helper layer 2: events and histories of the node-with-mempool model (`Model/NodePool`), the
main chain as the height index up to the best block, the hypotheses about the layers below the
mempool (`BaseSound` = what C10 gives about the persisted utxo set, `IndexStep` = what C11 gives
about the height index across a reorganisation) and the invariant `PInv` with its preservation
by every event.
-/
import BytomModel.Model.NodePool
import BytomModel.Lemmas.PoolSafe

namespace BytomModel.Lemmas.NodePoolInv
open BytomModel.Node BytomModel.Ledger BytomModel.NodeLedger BytomModel.NodePool
open BytomModel.TxPool (amGet amHas amSet amDel removeTransaction)
open BytomModel.Lemmas.TxPool (WF Inv foldl_inv inv_removeTransaction)
open BytomModel.Lemmas.PoolSafe

/-! ### main chain and confirmed transactions -/

def bestHeight (n : Node.State) : Nat := match n.header n.best with | some h => h.height | none => 0

/-- the blocks `Chain.InMainChain` answers true for: index entries at heights ≤ best height -/
def mainBlocks (n : Node.State) : List Nat := (List.range (bestHeight n + 1)).filterMap (alistGet n.index)

/-- non-coinbase transactions of main-chain blocks -/
def confirmedTxs (b : NodeLedger.State) : List Ledger.Tx :=
  (mainBlocks b.node).flatMap (fun blk => (b.txsOf blk).drop 1)

def confirmedIds (b : NodeLedger.State) : List Nat := (confirmedTxs b).map (·.id)

def poolIds (s : NodePool.State) : List Nat := s.pool.pool.map (·.1)

/-- outputs `view.CanSpend` accepts on the persisted utxo set -/
def confOuts (b : NodeLedger.State) : List Nat := (b.utxo.filter (fun p => !p.2.spent)).map (·.1)

theorem cfg_conf (s : NodePool.State) : s.cfg.conf = confOuts s.base := rfl

/-! ### the universe of transactions -/

/-- ids determine transactions, output ids determine their transaction (hash collision freedom) -/
structure WFL (UL : List Ledger.Tx) : Prop where
  idInj : ∀ t1 ∈ UL, ∀ t2 ∈ UL, t1.id = t2.id → t1 = t2
  outOwn : ∀ t1 ∈ UL, ∀ t2 ∈ UL, ∀ o1 ∈ t1.outs, ∀ o2 ∈ t2.outs, o1.id = o2.id → t1 = t2 ∧ o1 = o2

def poolU (UL : List Ledger.Tx) : List TxPool.Tx := UL.map toPoolTx

theorem wf_poolU {UL : List Ledger.Tx} (h : WFL UL) : WF (poolU UL) := by
  constructor
  · intro t1 h1 t2 h2 e
    obtain ⟨a, ha, rfl⟩ := List.mem_map.mp h1
    obtain ⟨b, hb, rfl⟩ := List.mem_map.mp h2
    have : a = b := h.idInj a ha b hb e
    rw [this]
  · intro t1 h1 t2 h2 r1 hr1 r2 hr2 e
    obtain ⟨a, ha, rfl⟩ := List.mem_map.mp h1
    obtain ⟨b, hb, rfl⟩ := List.mem_map.mp h2
    simp only [toPoolTx] at hr1 hr2
    obtain ⟨o1, ho1, rfl⟩ := List.mem_map.mp hr1
    obtain ⟨o2, ho2, rfl⟩ := List.mem_map.mp hr2
    obtain ⟨hab, hoo⟩ := h.outOwn a ha b hb o1 ho1 o2 ho2 e
    subst hab; subst hoo
    exact ⟨rfl, rfl⟩

/-! ### hypotheses about the layers below the mempool -/

/-- **LedgerSound** (what C10 `reorg_spendable_set_eq_replay` provides for reachable states):
    every confirmed non-coinbase transaction belongs to the universe and has an input that the
    persisted utxo set does not offer for spending and that only confirmed transactions create. -/
def BaseSound (UL : List Ledger.Tx) (b : NodeLedger.State) : Prop :=
  ∀ t ∈ confirmedTxs b, t ∈ UL ∧ ∃ o ∈ t.ins, (confOuts b).contains o = false ∧
    ∀ t' ∈ UL, t'.ins ≠ [] → o ∈ t'.outs.map (·.id) → t'.id ∈ confirmedIds b

/-- the attach / detach lists `reorganizeChain` works with when the best block moved away from `old` -/
def reorgLists (post : Node.State) (old : Nat) : Option (List Header × List Header) :=
  match post.header post.best, post.header old with
  | some nb, some ob => post.calcReorg (2 * post.fuel) nb ob [] []
  | _, _ => none

/-- **IndexSound** (what C11 `index_consistent` + `calcReorganize_correct` provide): across one
    step of the chain the main chain only gains attached blocks, and detached blocks were on it -/
def IndexStep (pre post : NodeLedger.State) : Prop :=
  if post.node.best = pre.node.best then ∀ blk ∈ mainBlocks post.node, blk ∈ mainBlocks pre.node
  else match reorgLists post.node pre.node.best with
    | none => ∀ blk ∈ mainBlocks post.node, blk ∈ mainBlocks pre.node
    | some (att, det) =>
      (∀ blk ∈ mainBlocks post.node, blk ∈ mainBlocks pre.node ∨ blk ∈ att.map (·.id)) ∧
      (∀ d ∈ det, d.id ∈ mainBlocks pre.node)

/-! ### events -/

inductive Ev
  /-- the harness names a block (driver line `def`): header, transactions (coinbase first), meta data -/
  | define (hd : Header) (txs : List Ledger.Tx) (m : Option Meta)
  | submit (t : Ledger.Tx)
  | block (b : Header)
  | vote (order src tgt : Nat) (sig : Bool)
  | propose

def addDefs (txdefs : List Ledger.Tx) (txs : List Ledger.Tx) : List Ledger.Tx :=
  txs.foldl (fun acc t => if acc.any (fun x => x.id == t.id) then acc else acc ++ [t]) txdefs

/-- the driver's `def` line on the base layer -/
def defBase (b : NodeLedger.State) (hd : Header) (txs : List Ledger.Tx) (m : Option Meta) : NodeLedger.State :=
  { b with node := { b.node with defs := hd :: b.node.defs },
           blockTxs := (hd.id, txs) :: b.blockTxs,
           metas := (match m with | some x => (hd.id, x) :: b.metas | none => b.metas) }

def stepEv (s : NodePool.State) : Ev → NodePool.State
  | .define hd txs m => { s with base := defBase s.base hd txs m, txdefs := addDefs s.txdefs txs }
  | .submit t => (s.submit t).1
  | .block b => (s.processBlock b).1
  | .vote o src tgt sig => (s.authVerification o src tgt sig).1
  | .propose => s.propose.2

def run (s : NodePool.State) (evs : List Ev) : NodePool.State := evs.foldl stepEv s

def EvOK (UL : List Ledger.Tx) (s : NodePool.State) : Ev → Prop
  | .define hd txs _ => hd.id ∉ mainBlocks s.base.node ∧ ∀ t ∈ txs, t ∈ UL
  | .submit t => t ∈ UL ∧ t.ins ≠ []
  | _ => True

/-- a history whose base layer behaves: ledger sound in every state, index sound across every step -/
def HistOK (UL : List Ledger.Tx) : NodePool.State → List Ev → Prop
  | s, [] => BaseSound UL s.base
  | s, e :: es => BaseSound UL s.base ∧ EvOK UL s e ∧ IndexStep s.base (stepEv s e).base ∧ HistOK UL (stepEv s e) es

/-! ### the invariant -/

def PInv (UL : List Ledger.Tx) (s : NodePool.State) : Prop :=
  Safe (poolU UL) (fun id => id ∈ confirmedIds s.base) s.pool ∧ ∀ t ∈ s.txdefs, t ∈ UL

theorem blocked_of_baseSound {UL : List Ledger.Tx} (wf : WFL UL) {s : NodePool.State} (hb : BaseSound UL s.base) :
    Blocked (poolU UL) s.cfg (fun id => id ∈ confirmedIds s.base) := by
  intro tx htx hk
  obtain ⟨t, ht, rfl⟩ := List.mem_map.mp htx
  obtain ⟨t2, ht2, hid⟩ := List.mem_map.mp hk
  obtain ⟨hU, o, ho, hc, hcre⟩ := hb t2 ht2
  have : t2 = t := wf.idInj t2 hU t ht hid
  subst this
  refine ⟨o, ho, by rw [cfg_conf]; exact hc, ?_⟩
  intro tx' htx' hne hres
  obtain ⟨t', ht', rfl⟩ := List.mem_map.mp htx'
  simp only [toPoolTx] at hres
  obtain ⟨out, hout, he⟩ := List.mem_map.mp hres
  have hoid : out.id = o := by simpa using congrArg Prod.fst he
  exact hcre t' ht' hne (List.mem_map.mpr ⟨out, hout, hoid⟩)

theorem txById_some {s : NodePool.State} {id : Nat} {t : Ledger.Tx} (h : s.txById id = some t) :
    t ∈ s.txdefs ∧ t.id = id := by
  unfold State.txById at h
  refine ⟨List.mem_of_find?_eq_some h, ?_⟩
  have := List.find?_some h
  simpa using this

/-- `Chain.ValidateTx` keeps the invariant; the base layer is untouched -/
theorem submit_base (s : NodePool.State) (t : Ledger.Tx) : (s.submit t).1.base = s.base := by
  unfold State.submit
  simp only
  split <;> rfl

theorem pinv_submit {UL : List Ledger.Tx} (wf : WFL UL) {s : NodePool.State} (h : PInv UL s)
    (hb : BaseSound UL s.base) {t : Ledger.Tx} (ht : t ∈ UL) (hne : t.ins ≠ []) : PInv UL (s.submit t).1 := by
  have hbl := blocked_of_baseSound wf hb
  have hU : toPoolTx t ∈ poolU UL := List.mem_map.mpr ⟨t, ht, rfl⟩
  unfold PInv
  rw [submit_base]
  unfold State.submit
  simp only
  split
  · exact ⟨safe_submit (wf_poolU wf) _ hbl h.1 hU hne _, h.2⟩
  · refine ⟨safe_submit (wf_poolU wf) _ hbl h.1 hU hne _, ?_⟩
    intro x hx
    simp only at hx
    rcases List.mem_append.mp hx with h1 | h1
    · exact h.2 x h1
    · simp only [List.mem_singleton] at h1; subst h1; exact ht

/-! ### pool maintenance after a reorganisation -/

/-- the body of `afterReorg` for given attach / detach lists -/
def reorgPool (s : NodePool.State) (att det : List Header) : NodePool.State :=
  let detTxs := det.flatMap (fun d => (s.base.txsOf d.id).drop 1)
  let attTxs := att.flatMap (fun a => (s.base.txsOf a.id).drop 1)
  let attIds := attTxs.map (·.id)
  let detIds := detTxs.map (·.id)
  let toRemove := attIds.filter (fun i => !detIds.contains i)
  let toRestore := (detIds.filter (fun i => !attIds.contains i)).eraseDups
  let p1 := toRemove.foldl removeTransaction s.pool
  let s1 := { s with pool := p1 }
  (toRestore.mergeSort (· ≤ ·)).foldl (fun st i =>
    match st.txById i with
    | some t => (st.submit t).1
    | none => st) s1

theorem afterReorg_eq (s : NodePool.State) (old : Nat) :
    s.afterReorg old = match reorgLists s.base.node old with
      | none => s
      | some (att, det) => reorgPool s att det := by
  unfold State.afterReorg reorgLists
  dsimp only
  cases h1 : s.base.node.header s.base.node.best with
  | none => rfl
  | some nb =>
    cases h2 : s.base.node.header old with
    | none => rfl
    | some ob =>
      simp only
      cases s.base.node.calcReorg (2 * s.base.node.fuel) nb ob [] [] with
      | none => rfl
      | some p => obtain ⟨att, det⟩ := p; rfl

theorem foldl_remove_sub (ids : List Nat) : ∀ (p : TxPool.Pool) (t : Nat) (tx : TxPool.Tx),
    amGet (ids.foldl removeTransaction p).pool t = some tx → amGet p.pool t = some tx ∧ t ∉ ids := by
  induction ids with
  | nil => intro p t tx h; exact ⟨h, by simp⟩
  | cons i is ih =>
    intro p t tx h
    simp only [List.foldl_cons] at h
    obtain ⟨h1, h2⟩ := ih _ t tx h
    obtain ⟨h3, h4⟩ := removeTransaction_sub p i t tx h1
    exact ⟨h3, by simp [h4, h2]⟩

theorem foldl_remove_safe {U : List TxPool.Tx} (wf : WF U) {K : Nat → Prop} (ids : List Nat) :
    ∀ (p : TxPool.Pool), Safe U K p → Safe U K (ids.foldl removeTransaction p) := by
  induction ids with
  | nil => intro p h; exact h
  | cons i is ih => intro p h; exact ih _ (safe_removeTransaction wf h i)

theorem mem_confirmedIds {b : NodeLedger.State} {id : Nat} :
    id ∈ confirmedIds b ↔ ∃ blk ∈ mainBlocks b.node, ∃ t ∈ (b.txsOf blk).drop 1, t.id = id := by
  unfold confirmedIds confirmedTxs
  constructor
  · intro h
    obtain ⟨t, ht, hid⟩ := List.mem_map.mp h
    obtain ⟨blk, hb, htb⟩ := List.mem_flatMap.mp ht
    exact ⟨blk, hb, t, htb, hid⟩
  · rintro ⟨blk, hb, t, htb, hid⟩
    exact List.mem_map.mpr ⟨t, List.mem_flatMap.mpr ⟨blk, hb, htb⟩, hid⟩

theorem mem_blockIds {b : NodeLedger.State} {hs : List Header} {id : Nat} :
    id ∈ (hs.flatMap (fun d => (b.txsOf d.id).drop 1)).map (·.id) ↔
      ∃ d ∈ hs, ∃ t ∈ (b.txsOf d.id).drop 1, t.id = id := by
  constructor
  · intro h
    obtain ⟨t, ht, hid⟩ := List.mem_map.mp h
    obtain ⟨d, hd, htd⟩ := List.mem_flatMap.mp ht
    exact ⟨d, hd, t, htd, hid⟩
  · rintro ⟨d, hd, t, htd, hid⟩
    exact List.mem_map.mpr ⟨t, List.mem_flatMap.mpr ⟨d, hd, htd⟩, hid⟩

/-- the restore loop: every re-validated transaction goes through `Chain.ValidateTx` -/
theorem restore_pinv {UL : List Ledger.Tx} (wf : WFL UL) (ids : List Nat) :
    ∀ (st : NodePool.State), PInv UL st → BaseSound UL st.base →
      (∀ i ∈ ids, ∀ t ∈ UL, t.id = i → t.ins ≠ []) →
      PInv UL (ids.foldl (fun st i => match st.txById i with
        | some t => (st.submit t).1
        | none => st) st) ∧
      (ids.foldl (fun st i => match st.txById i with
        | some t => (st.submit t).1
        | none => st) st).base = st.base := by
  induction ids with
  | nil => intro st h _ _; exact ⟨h, rfl⟩
  | cons i is ih =>
    intro st h hb hne
    simp only [List.foldl_cons]
    have hne' : ∀ j ∈ is, ∀ t ∈ UL, t.id = j → t.ins ≠ [] := fun j hj => hne j (List.mem_cons_of_mem _ hj)
    cases hq : st.txById i with
    | none => simp only; exact ih st h hb hne'
    | some t =>
      simp only
      obtain ⟨hmem, hid⟩ := txById_some hq
      have htU := h.2 t hmem
      have h1 := pinv_submit wf h hb htU (hne i (by simp) t htU hid)
      have hbase := submit_base st t
      obtain ⟨r1, r2⟩ := ih _ h1 (hbase ▸ hb) hne'
      exact ⟨r1, r2.trans hbase⟩

/-- **pool maintenance at the end of `reorganizeChain` re-establishes the invariant for the new
    main chain** -/
theorem pinv_reorgPool {UL : List Ledger.Tx} (wf : WFL UL) (pre : NodeLedger.State) {s : NodePool.State}
    (hpool : Safe (poolU UL) (fun id => id ∈ confirmedIds pre) s.pool) (hdefs : ∀ t ∈ s.txdefs, t ∈ UL)
    (hpre : BaseSound UL pre) (hpost : BaseSound UL s.base) (hbt : s.base.blockTxs = pre.blockTxs)
    (att det : List Header)
    (hmain : ∀ blk ∈ mainBlocks s.base.node, blk ∈ mainBlocks pre.node ∨ blk ∈ att.map (·.id))
    (hdet : ∀ d ∈ det, d.id ∈ mainBlocks pre.node) :
    PInv UL (reorgPool s att det) ∧ (reorgPool s att det).base = s.base := by
  have htx : ∀ blk, s.base.txsOf blk = pre.txsOf blk := by
    intro blk; unfold NodeLedger.State.txsOf; rw [hbt]
  unfold reorgPool
  simp only
  -- the state after the removals
  have hs1 : PInv UL { s with pool := (List.filter (fun i => !((det.flatMap (fun d => (s.base.txsOf d.id).drop 1)).map (·.id)).contains i)
        ((att.flatMap (fun a => (s.base.txsOf a.id).drop 1)).map (·.id))).foldl removeTransaction s.pool } := by
    refine ⟨⟨(foldl_remove_safe (wf_poolU wf) _ _ hpool).inv, ?_, ?_⟩, hdefs⟩
    · intro id tx hg hk
      simp only at hg hk
      obtain ⟨hin, hnot⟩ := foldl_remove_sub _ _ _ _ hg
      have hnpre : id ∉ confirmedIds pre := hpool.noK id tx hin
      obtain ⟨blk, hblk, t, ht, hid⟩ := mem_confirmedIds.mp hk
      rcases hmain blk hblk with hm | hm
      · exact hnpre (mem_confirmedIds.mpr ⟨blk, hm, t, (htx blk) ▸ ht, hid⟩)
      · obtain ⟨a, ha, hab⟩ := List.mem_map.mp hm
        have hatt : id ∈ (att.flatMap (fun a => (s.base.txsOf a.id).drop 1)).map (·.id) :=
          mem_blockIds.mpr ⟨a, ha, t, by rw [hab]; exact ht, hid⟩
        by_cases hd : id ∈ (det.flatMap (fun d => (s.base.txsOf d.id).drop 1)).map (·.id)
        · obtain ⟨d, hdm, t', ht', hid'⟩ := mem_blockIds.mp hd
          exact hnpre (mem_confirmedIds.mpr ⟨d.id, hdet d hdm, t', (htx d.id) ▸ ht', hid'⟩)
        · apply hnot
          refine List.mem_filter.mpr ⟨hatt, ?_⟩
          simp only [Bool.not_eq_true', List.contains_eq_mem, decide_eq_false_iff_not]
          exact hd
    · intro id tx hg
      exact hpool.nonEmpty id tx (foldl_remove_sub _ _ _ _ hg).1
  have hne : ∀ i ∈ (((det.flatMap (fun d => (s.base.txsOf d.id).drop 1)).map (·.id)).filter
        (fun i => !((att.flatMap (fun a => (s.base.txsOf a.id).drop 1)).map (·.id)).contains i)).eraseDups.mergeSort (· ≤ ·),
      ∀ t ∈ UL, t.id = i → t.ins ≠ [] := by
    intro i hi t ht hid
    have hi1 := List.mem_eraseDups.mp (List.mem_mergeSort.mp hi)
    obtain ⟨d, hdm, t', ht', hid'⟩ := mem_blockIds.mp (List.mem_filter.mp hi1).1
    have hconf : t' ∈ confirmedTxs pre :=
      List.mem_flatMap.mpr ⟨d.id, hdet d hdm, (htx d.id) ▸ ht'⟩
    obtain ⟨hU', o, ho, _⟩ := hpre t' hconf
    have : t' = t := wf.idInj t' hU' t ht (hid'.trans hid.symm)
    subst this
    intro hnil
    rw [hnil] at ho
    cases ho
  exact restore_pinv wf _ _ hs1 hpost hne

/-! ### one event -/

theorem settle_blockTxs (pre : NodeLedger.State) (post : Node.State) (r : Res) :
    (pre.settle post r).1.blockTxs = pre.blockTxs := by
  unfold NodeLedger.State.settle
  split
  · rfl
  · split
    · split
      · split <;> rfl
      · rfl
    · rfl

theorem ite_blockTxs (c : Bool) (b : NodeLedger.State) (x : NodeLedger.State × Res) (hx : x.1.blockTxs = b.blockTxs) :
    (if c then (b, Res.err) else x).1.blockTxs = b.blockTxs := by
  cases c <;> simp [hx]

theorem processBlock_blockTxs (b : NodeLedger.State) (h : Header) : (b.processBlock h).1.blockTxs = b.blockTxs := by
  unfold NodeLedger.State.processBlock
  simp only
  exact settle_blockTxs _ _ _

theorem authVerification_blockTxs (b : NodeLedger.State) (o src tgt : Nat) (sg : Bool) :
    (b.authVerification o src tgt sg).1.blockTxs = b.blockTxs := by
  unfold NodeLedger.State.authVerification
  exact settle_blockTxs _ _ _

theorem confirmed_sub {pre post : NodeLedger.State} (hbt : post.blockTxs = pre.blockTxs)
    (hm : ∀ blk ∈ mainBlocks post.node, blk ∈ mainBlocks pre.node) :
    ∀ id, id ∈ confirmedIds post → id ∈ confirmedIds pre := by
  intro id h
  obtain ⟨blk, hblk, t, ht, hid⟩ := mem_confirmedIds.mp h
  have htx : post.txsOf blk = pre.txsOf blk := by unfold NodeLedger.State.txsOf; rw [hbt]
  exact mem_confirmedIds.mpr ⟨blk, hm blk hblk, t, htx ▸ ht, hid⟩

/-- a step of the chain (`processBlock` / `AuthVerification`) followed by the pool maintenance -/
theorem pinv_step {UL : List Ledger.Tx} (wf : WFL UL) {s : NodePool.State} (h : PInv UL s)
    (f : NodeLedger.State → NodeLedger.State × Res) (hbt : (f s.base).1.blockTxs = s.base.blockTxs)
    (hpre : BaseSound UL s.base) (hpost : BaseSound UL (f s.base).1) (hix : IndexStep s.base (f s.base).1) :
    PInv UL (s.step f).1 ∧ (s.step f).1.base = (f s.base).1 := by
  unfold State.step
  simp only
  unfold IndexStep at hix
  by_cases hbest : (f s.base).1.node.best = s.base.node.best
  · simp only [hbest, if_true] at hix
    simp only [hbest, bne_self_eq_false, Bool.false_eq_true, if_false]
    refine ⟨⟨h.1.mono (fun id _ _ hk => confirmed_sub hbt hix id hk), h.2⟩, ?_⟩
    first | rfl | trivial
  · simp only [hbest, if_false] at hix
    have hne : ((f s.base).1.node.best != s.base.node.best) = true := by simpa using hbest
    simp only [hne, if_true]
    rw [afterReorg_eq]
    simp only
    cases hr : reorgLists (f s.base).1.node s.base.node.best with
    | none =>
      simp only [hr] at hix
      refine ⟨⟨h.1.mono (fun id _ _ hk => confirmed_sub hbt hix id hk), h.2⟩, ?_⟩
      first | rfl | trivial
    | some ad =>
      obtain ⟨att, det⟩ := ad
      simp only [hr] at hix
      exact pinv_reorgPool wf s.base (s := { s with base := (f s.base).1 }) h.1 h.2 hpre hpost hbt att det hix.1 hix.2

/-! ### the proposer's removals -/

theorem propose_base (s : NodePool.State) : s.propose.2.base = s.base := by
  unfold State.propose; rfl

theorem propose_txdefs (s : NodePool.State) : s.propose.2.txdefs = s.txdefs := by
  unfold State.propose; rfl

theorem ite_pool (P : TxPool.Pool → Prop) (c : Bool) (a a' : List Nat) (v v' : View) (p p' : TxPool.Pool)
    (h1 : P p) (h2 : P p') : P (if c then (a, v, p) else (a', v', p')).2.2 := by
  cases c
  · simpa using h2
  · simpa using h1

theorem pinv_propose {UL : List Ledger.Tx} (wf : WFL UL) {s : NodePool.State} (h : PInv UL s) : PInv UL s.propose.2 := by
  unfold PInv
  rw [propose_base, propose_txdefs]
  refine ⟨?_, h.2⟩
  unfold State.propose
  simp only
  apply foldl_inv (fun (acc : List Nat × View × TxPool.Pool) =>
    Safe (poolU UL) (fun id => id ∈ confirmedIds s.base) acc.2.2)
  · exact h.1
  · rintro ⟨inc, view, pool⟩ id _ hp
    simp only at hp ⊢
    cases s.txById id with
    | none => exact hp
    | some t =>
      simp only
      exact ite_pool _ _ _ _ _ _ _ _ hp (safe_removeTransaction (wf_poolU wf) hp id)

/-! ### defining a block -/

theorem addDefs_mem {UL : List Ledger.Tx} (txs : List Ledger.Tx) (htx : ∀ t ∈ txs, t ∈ UL) :
    ∀ (defs : List Ledger.Tx), (∀ t ∈ defs, t ∈ UL) → ∀ t ∈ addDefs defs txs, t ∈ UL := by
  unfold addDefs
  induction txs with
  | nil => intro defs h; exact h
  | cons x xs ih =>
    intro defs h
    simp only [List.foldl_cons]
    apply ih (fun t ht => htx t (List.mem_cons_of_mem _ ht))
    split
    · exact h
    · intro t ht
      rcases List.mem_append.mp ht with h1 | h1
      · exact h t h1
      · simp only [List.mem_singleton] at h1; subst h1; exact htx _ (by simp)

theorem pinv_define {UL : List Ledger.Tx} {s : NodePool.State} (h : PInv UL s) (hd : Header) (txs : List Ledger.Tx)
    (m : Option Meta) (hok : EvOK UL s (.define hd txs m)) : PInv UL (stepEv s (.define hd txs m)) := by
  obtain ⟨hfresh, htx⟩ := hok
  unfold PInv stepEv
  simp only
  refine ⟨?_, addDefs_mem txs htx _ h.2⟩
  have hsame : ∀ id, id ∈ confirmedIds (defBase s.base hd txs m) → id ∈ confirmedIds s.base := by
    intro id hk
    obtain ⟨blk, hblk, t, ht, hid⟩ := mem_confirmedIds.mp hk
    have hblk' : blk ∈ mainBlocks s.base.node := hblk
    have hneq : blk ≠ hd.id := fun e => hfresh (e ▸ hblk')
    refine mem_confirmedIds.mpr ⟨blk, hblk', t, ?_, hid⟩
    have : (defBase s.base hd txs m).txsOf blk = s.base.txsOf blk := by
      unfold NodeLedger.State.txsOf defBase
      simp only
      rw [List.find?_cons_of_neg]
      simpa using fun e => hneq e.symm
    rw [this] at ht
    exact ht
  exact h.1.mono (fun id _ _ hk => hsame id hk)

/-! ### whole histories -/

theorem restore_base (ids : List Nat) : ∀ (st : NodePool.State),
    (ids.foldl (fun st i => match st.txById i with
        | some t => (st.submit t).1
        | none => st) st).base = st.base := by
  induction ids with
  | nil => intro st; rfl
  | cons i is ih =>
    intro st
    simp only [List.foldl_cons]
    cases st.txById i with
    | none => exact ih st
    | some t => exact (ih _).trans (submit_base st t)

theorem reorgPool_base (s : NodePool.State) (att det : List Header) : (reorgPool s att det).base = s.base := by
  unfold reorgPool
  simp only
  rw [restore_base]

theorem afterReorg_base (s : NodePool.State) (old : Nat) : (s.afterReorg old).base = s.base := by
  rw [afterReorg_eq]
  split
  · rfl
  · exact reorgPool_base _ _ _

theorem step_base (s : NodePool.State) (f : NodeLedger.State → NodeLedger.State × Res) :
    (s.step f).1.base = (f s.base).1 := by
  unfold State.step
  simp only
  split
  · rw [afterReorg_base]
  · rfl

theorem pinv_stepEv {UL : List Ledger.Tx} (wf : WFL UL) {s : NodePool.State} (h : PInv UL s) (e : Ev)
    (hpre : BaseSound UL s.base) (hok : EvOK UL s e) (hix : IndexStep s.base (stepEv s e).base)
    (hpost : BaseSound UL (stepEv s e).base) : PInv UL (stepEv s e) := by
  cases e with
  | define hd txs m => exact pinv_define h hd txs m hok
  | submit t => exact pinv_submit wf h hpre hok.1 hok.2
  | block b =>
    have hbase : (stepEv s (.block b)).base = (s.base.processBlock b).1 := step_base s _
    rw [hbase] at hix hpost
    exact (pinv_step wf h (fun x => x.processBlock b) (processBlock_blockTxs _ _) hpre hpost hix).1
  | vote o src tgt sg =>
    have hbase : (stepEv s (.vote o src tgt sg)).base = (s.base.authVerification o src tgt sg).1 := step_base s _
    rw [hbase] at hix hpost
    exact (pinv_step wf h (fun x => x.authVerification o src tgt sg) (authVerification_blockTxs _ _ _ _ _) hpre hpost hix).1
  | propose => exact pinv_propose wf h

theorem pinv_run {UL : List Ledger.Tx} (wf : WFL UL) : ∀ (evs : List Ev) (s : NodePool.State),
    PInv UL s → HistOK UL s evs → PInv UL (run s evs) := by
  intro evs
  induction evs with
  | nil => intro s h _; exact h
  | cons e es ih =>
    intro s h hok
    obtain ⟨hpre, hev, hix, hrest⟩ := hok
    have hpost : BaseSound UL (stepEv s e).base := by
      cases es with
      | nil => exact hrest
      | cons e' es' => exact hrest.1
    unfold run
    simp only [List.foldl_cons]
    exact ih _ (pinv_stepEv wf h e hpre hev hix hpost) hrest

/-- pool ids are exactly the keys `amGet` finds -/
theorem mem_keys_amGet {β : Type} (l : List (Nat × β)) (k : Nat) : k ∈ l.map (·.1) → ∃ v, amGet l k = some v := by
  induction l with
  | nil => intro h; cases h
  | cons e l ih =>
    intro h
    obtain ⟨a, b⟩ := e
    unfold amGet
    by_cases e1 : a = k
    · exact ⟨b, by simp [e1]⟩
    · simp only [e1, if_false]
      apply ih
      simp only [List.map_cons, List.mem_cons] at h
      rcases h with h | h
      · exact absurd h.symm e1
      · exact h

/-! ### the two phases of the pool maintenance, separately -/

def attIdsOf (s : NodePool.State) (att : List Header) : List Nat := (att.flatMap (fun a => (s.base.txsOf a.id).drop 1)).map (·.id)
def detIdsOf (s : NodePool.State) (det : List Header) : List Nat := (det.flatMap (fun d => (s.base.txsOf d.id).drop 1)).map (·.id)

/-- `txsToRemove`: transactions of attached blocks that were not in a detached block -/
def toRemove (s : NodePool.State) (att det : List Header) : List Nat :=
  (attIdsOf s att).filter (fun i => !(detIdsOf s det).contains i)

/-- `txsToRestore`: transactions of detached blocks that are not in an attached block (Go map
    iteration order; here ascending id) -/
def toRestore (s : NodePool.State) (att det : List Header) : List Nat :=
  (((detIdsOf s det).filter (fun i => !(attIdsOf s att).contains i)).eraseDups).mergeSort (· ≤ ·)

/-- the pool after the `RemoveTransaction` loop -/
def removed (s : NodePool.State) (att det : List Header) : TxPool.Pool :=
  (toRemove s att det).foldl removeTransaction s.pool

/-- the `ValidateTx` loop over the transactions to restore -/
def restore (ids : List Nat) (st : NodePool.State) : NodePool.State :=
  ids.foldl (fun st i => match st.txById i with
    | some t => (st.submit t).1
    | none => st) st

theorem reorgPool_phases (s : NodePool.State) (att det : List Header) :
    reorgPool s att det = restore (toRestore s att det) { s with pool := removed s att det } := rfl

theorem foldl_remove_keep (ids : List Nat) : ∀ (p : TxPool.Pool) (t : Nat), t ∉ ids →
    amGet (ids.foldl removeTransaction p).pool t = amGet p.pool t := by
  induction ids with
  | nil => intro p t _; rfl
  | cons i is ih =>
    intro p t h
    simp only [List.foldl_cons]
    rw [ih _ t (fun hh => h (List.mem_cons_of_mem _ hh))]
    exact removeTransaction_keep p i t (fun e => h (by simp [e]))

theorem foldl_remove_gone (ids : List Nat) (p : TxPool.Pool) (t : Nat) (h : t ∈ ids) :
    amGet (ids.foldl removeTransaction p).pool t = none := by
  cases hg : amGet (ids.foldl removeTransaction p).pool t with
  | none => rfl
  | some tx => exact absurd h (foldl_remove_sub ids p t tx hg).2

/-! ### the base layer evolves on its own (used to check `HistOK` on concrete histories) -/

def baseStep (b : NodeLedger.State) : Ev → NodeLedger.State
  | .define hd txs m => defBase b hd txs m
  | .submit _ => b
  | .block h => (b.processBlock h).1
  | .vote o src tgt sg => (b.authVerification o src tgt sg).1
  | .propose => b

theorem stepEv_base (s : NodePool.State) (e : Ev) : (stepEv s e).base = baseStep s.base e := by
  cases e with
  | define hd txs m => rfl
  | submit t => exact submit_base s t
  | block h => exact step_base s _
  | vote o src tgt sg => exact step_base s _
  | propose => exact propose_base s

def EvOKb (UL : List Ledger.Tx) (b : NodeLedger.State) : Ev → Prop
  | .define hd txs _ => hd.id ∉ mainBlocks b.node ∧ ∀ t ∈ txs, t ∈ UL
  | .submit t => t ∈ UL ∧ t.ins ≠ []
  | _ => True

def HistOKb (UL : List Ledger.Tx) : NodeLedger.State → List Ev → Prop
  | b, [] => BaseSound UL b
  | b, e :: es => BaseSound UL b ∧ EvOKb UL b e ∧ IndexStep b (baseStep b e) ∧ HistOKb UL (baseStep b e) es

theorem histOK_of_base {UL : List Ledger.Tx} : ∀ (evs : List Ev) (s : NodePool.State),
    HistOKb UL s.base evs → HistOK UL s evs := by
  intro evs
  induction evs with
  | nil => intro s h; exact h
  | cons e es ih =>
    intro s h
    obtain ⟨h1, h2, h3, h4⟩ := h
    refine ⟨h1, ?_, ?_, ?_⟩
    · cases e <;> exact h2
    · rw [stepEv_base]; exact h3
    · apply ih; rw [stepEv_base]; exact h4

deriving instance DecidableEq for Ledger.TxOut
deriving instance DecidableEq for Ledger.Tx

instance (UL : List Ledger.Tx) (b : NodeLedger.State) : Decidable (BaseSound UL b) := by
  unfold BaseSound; infer_instance

instance (pre post : NodeLedger.State) : Decidable (IndexStep pre post) :=
  if h : post.node.best = pre.node.best then
    decidable_of_iff (∀ blk ∈ mainBlocks post.node, blk ∈ mainBlocks pre.node)
      (by unfold IndexStep; rw [if_pos h])
  else
    match hr : reorgLists post.node pre.node.best with
    | none => decidable_of_iff (∀ blk ∈ mainBlocks post.node, blk ∈ mainBlocks pre.node)
        (by unfold IndexStep; rw [if_neg h, hr])
    | some (att, det) => decidable_of_iff
        ((∀ blk ∈ mainBlocks post.node, blk ∈ mainBlocks pre.node ∨ blk ∈ att.map (·.id)) ∧
          (∀ d ∈ det, d.id ∈ mainBlocks pre.node))
        (by unfold IndexStep; rw [if_neg h, hr])

instance (UL : List Ledger.Tx) (b : NodeLedger.State) : (e : Ev) → Decidable (EvOKb UL b e)
  | .define hd txs _ => inferInstanceAs (Decidable (hd.id ∉ mainBlocks b.node ∧ ∀ t ∈ txs, t ∈ UL))
  | .submit t => inferInstanceAs (Decidable (t ∈ UL ∧ t.ins ≠ []))
  | .block _ => isTrue trivial
  | .vote _ _ _ _ => isTrue trivial
  | .propose => isTrue trivial

instance histOKbDec (UL : List Ledger.Tx) : (b : NodeLedger.State) → (evs : List Ev) → Decidable (HistOKb UL b evs)
  | b, [] => inferInstanceAs (Decidable (BaseSound UL b))
  | b, e :: es =>
    have := histOKbDec UL (baseStep b e) es
    inferInstanceAs (Decidable (BaseSound UL b ∧ EvOKb UL b e ∧ IndexStep b (baseStep b e) ∧ HistOKb UL (baseStep b e) es))

instance (UL : List Ledger.Tx) : Decidable (WFL UL) :=
  decidable_of_iff ((∀ t1 ∈ UL, ∀ t2 ∈ UL, t1.id = t2.id → t1 = t2) ∧
      (∀ t1 ∈ UL, ∀ t2 ∈ UL, ∀ o1 ∈ t1.outs, ∀ o2 ∈ t2.outs, o1.id = o2.id → t1 = t2 ∧ o1 = o2))
    ⟨fun h => ⟨h.1, h.2⟩, fun h => ⟨h.1, h.2⟩⟩

end BytomModel.Lemmas.NodePoolInv
