/-
M-Pool: the promotion invariant `J` through `processOrphans`, `submit`, `expire` and whole
histories without `RemoveTransaction` in which the pool never reaches its limit.
-/
import BytomModel.Lemmas.TxPoolPromote

namespace BytomModel.Lemmas.TxPool
open BytomModel.TxPool

/-- validated transactions only spend OriginalOutputs: an output of the universe that is spent by
    a transaction of the universe is an original (indexable) one -/
def NoRetSpend (U : List Tx) : Prop :=
  ∀ t1 ∈ U, ∀ t2 ∈ U, ∀ r ∈ t2.results, r.1 ∈ t1.spent → r.2 = true

/-- clauses (2b), (4) — modulo the transactions still waiting in the `processOrphans` queue `q` —
    and (3) -/
structure J (c : Cfg) (s : Pool) (q : List Tx) : Prop where
  idx : ∀ id o, amGet s.orphans id = some o → ∀ p ∈ o.tx.spent, Unavail c s p → Indexed s.byPrev p id
  pend : ∀ id o, amGet s.orphans id = some o → (∃ p ∈ o.tx.spent, Unavail c s p) ∨ o.tx ∈ q
  disj : ∀ id o, amGet s.orphans id = some o → amGet s.pool id = none

theorem J_empty (c : Cfg) : J c Pool.empty [] :=
  ⟨fun _ _ h => by simp [Pool.empty, amGet] at h, fun _ _ h => by simp [Pool.empty, amGet] at h,
   fun _ _ h => by simp [Pool.empty, amGet] at h⟩

/-- the abstract effect of pooling `o` (outputs become available, its buckets are queued, it is no
    longer an orphan) re-establishes `J` for the new queue -/
theorem J_after {U : List Tx} (wf : WF U) (nrs : NoRetSpend U) (c : Cfg) {s s' : Pool} {Q q' : List Tx} {o : Tx}
    (hI : Inv U s) (hJ : J c s Q) (ho : o ∈ U)
    (ha : ∀ p, amGet s'.utxo p = if (p, true) ∈ o.results then some o.id else amGet s.utxo p)
    (hb : ∀ id', id' ≠ o.id → ∀ p, p ∉ o.results.map Prod.fst → Indexed s.byPrev p id' → Indexed s'.byPrev p id')
    (hc : ∀ k, amGet s'.orphans k = if k = o.id then none else amGet s.orphans k)
    (hd : ∀ k, amGet s'.pool k = if k = o.id then some o else amGet s.pool k)
    (he0 : ∀ x ∈ Q, x = o ∨ x ∈ q')
    (he : ∀ r ∈ o.results, ∀ m, amGet s.byPrev r.1 = some m → ∀ e ∈ m, e.2 ∈ q') :
    J c s' q' := by
  have _ := wf
  have old : ∀ k o', amGet s'.orphans k = some o' → k ≠ o.id ∧ amGet s.orphans k = some o' := by
    intro k o' h
    rw [hc] at h
    by_cases e : k = o.id
    · simp [e] at h
    · simp only [e, if_false] at h; exact ⟨e, h⟩
  refine ⟨?_, ?_, ?_⟩
  · intro k o' hk p hp hu
    obtain ⟨hne, hk0⟩ := old k o' hk
    have hu' := hu.2
    rw [ha] at hu'
    have hnot : (p, true) ∉ o.results := by
      intro hin; simp [hin] at hu'
    simp only [hnot, if_false] at hu'
    have hidx := hJ.idx k o' hk0 p hp ⟨hu.1, hu'⟩
    apply hb k hne p _ hidx
    intro hin
    obtain ⟨r, hr, hrp⟩ := List.mem_map.mp hin
    have hw := hI.orphWF k o' hk0
    have := nrs o'.tx hw.1 o ho r hr (by rw [hrp]; exact hp)
    apply hnot
    rw [← hrp, ← this]
    exact hr
  · intro k o' hk
    obtain ⟨hne, hk0⟩ := old k o' hk
    have hw := hI.orphWF k o' hk0
    rcases hJ.pend k o' hk0 with ⟨p, hp, hu⟩ | hq
    · by_cases hs' : amGet s'.utxo p = none
      · exact Or.inl ⟨p, hp, hu.1, hs'⟩
      · right
        rw [ha] at hs'
        have hin : (p, true) ∈ o.results := by
          by_cases h : (p, true) ∈ o.results
          · exact h
          · simp only [h, if_false] at hs'; exact absurd hu.2 hs'
        obtain ⟨m, hm, hmk⟩ := hJ.idx k o' hk0 p hp hu
        cases hmk' : amGet m k with
        | none => exact absurd hmk' hmk
        | some tx'' =>
          have hmem := mem_of_amGet' m k tx'' hmk'
          obtain ⟨_, st, hst⟩ := (hI.index p m hm).2 (k, tx'') hmem
          simp only at hst
          rw [hk0] at hst
          have : o'.tx = tx'' := by cases hst; rfl
          rw [this]
          exact he (p, true) hin m hm (k, tx'') hmem
    · rcases he0 _ hq with h | h
      · exfalso; apply hne; rw [← hw.2, h]
      · exact Or.inr h
  · intro k o' hk
    obtain ⟨hne, hk0⟩ := old k o' hk
    rw [hd]
    simp only [hne, if_false]
    exact hJ.disj k o' hk0

theorem addTransaction_room (c : Cfg) (s : Pool) (tx : Tx) (h : s.pool.length < c.maxPool) :
    (addTransaction c s tx).1 =
      (⟨amSet s.pool tx.id tx, tx.results.foldl (fun u r => if r.2 then amSet u r.1 tx.id else u) s.utxo,
        s.orphans, s.byPrev, s.errs⟩ : Pool) := by
  unfold addTransaction
  have : ¬ s.pool.length ≥ c.maxPool := by omega
  simp [this]

theorem addTransaction_full (c : Cfg) (s : Pool) (tx : Tx) (h : ¬ s.pool.length < c.maxPool) :
    (addTransaction c s tx).1 = s := by
  unfold addTransaction
  have : s.pool.length ≥ c.maxPool := by omega
  simp [this]

theorem addTransaction_pool_mono (c : Cfg) (s : Pool) (tx : Tx) : s.pool.length ≤ (addTransaction c s tx).1.pool.length := by
  by_cases h : s.pool.length < c.maxPool
  · rw [addTransaction_room c s tx h]; exact amSet_length_ge _ _ _
  · rw [addTransaction_full c s tx h]; exact Nat.le_refl _

theorem processLoop_pool_mono (c : Cfg) : ∀ (f : Nat) (s : Pool) (q : List Tx),
    s.pool.length ≤ (processLoop c f s q).pool.length
  | 0, _, _ => by unfold processLoop; exact Nat.le_refl _
  | _ + 1, _, [] => by unfold processLoop; exact Nat.le_refl _
  | f + 1, s, o :: q => by
    unfold processLoop
    split
    · have h1 := processLoop_pool_mono c f (addTransaction c (removeOrphan (addRely s q o).1 o.id) o).1 (addRely s q o).2
      have h2 := addTransaction_pool_mono c (removeOrphan (addRely s q o).1 o.id) o
      rw [removeOrphan_pool, addRely_pool] at h2
      exact Nat.le_trans h2 h1
    · exact processLoop_pool_mono c f s q

/-- one promotion inside the queue loop -/
theorem J_promote {U : List Tx} (wf : WF U) (nrs : NoRetSpend U) (c : Cfg) {s : Pool} {q : List Tx} {o : Tx}
    (hI : Inv U s) (hJ : J c s (o :: q)) (ho : o ∈ U)
    (hroom : (removeOrphan (addRely s q o).1 o.id).pool.length < c.maxPool) :
    J c (addTransaction c (removeOrphan (addRely s q o).1 o.id) o).1 (addRely s q o).2 := by
  rw [addTransaction_room c _ o hroom]
  have hq := addRely_queue o o.results s q
  apply J_after wf nrs c hI hJ ho
  · intro p
    simp only
    rw [get_foldSet, removeOrphan_utxo, addRely_utxo]
  · intro id' hne p hp hidx
    simp only
    apply removeOrphan_keeps _ _ _ hne
    obtain ⟨m, hm, hin⟩ := hidx
    exact ⟨m, by rw [addRely_byPrev]; simp only [hp, if_false]; exact hm, hin⟩
  · intro k
    simp only
    rw [removeOrphan_orphans, addRely_orphans]
  · intro k
    simp only
    rw [amGet_amSet, removeOrphan_pool, addRely_pool]
  · intro x hx
    rcases List.mem_cons.mp hx with h | h
    · exact Or.inl h
    · exact Or.inr (hq.1 x h)
  · exact hq.2.1

/-- the queue loop run to exhaustion -/
theorem J_processLoop {U : List Tx} (wf : WF U) (nrs : NoRetSpend U) (c : Cfg) : ∀ (f : Nat) (s : Pool) (q : List Tx),
    Inv U s → J c s q → (∀ x ∈ q, x ∈ U) → entries s.byPrev + q.length < f →
    (processLoop c f s q).pool.length < c.maxPool → J c (processLoop c f s q) []
  | 0, _, _, _, _, _, hf, _ => by omega
  | _ + 1, _, [], _, hJ, _, _, _ => by unfold processLoop; exact hJ
  | f + 1, s, o :: q, hI, hJ, hq, hf, hfin => by
    unfold processLoop at hfin ⊢
    have ho : o ∈ U := hq o (by simp)
    have hq' : ∀ x ∈ q, x ∈ U := fun x hx => hq x (List.mem_cons_of_mem _ hx)
    by_cases hemp : (requireParents c s o).isEmpty = true
    · simp only [hemp, if_true] at hfin ⊢
      have hroom : (removeOrphan (addRely s q o).1 o.id).pool.length < c.maxPool := by
        by_cases h : (removeOrphan (addRely s q o).1 o.id).pool.length < c.maxPool
        · exact h
        · exfalso
          rw [addTransaction_full c _ o h] at hfin
          have := processLoop_pool_mono c f (removeOrphan (addRely s q o).1 o.id) (addRely s q o).2
          omega
      have h1 := inv_addRely hI q hq' o
      have h2 := inv_removeOrphan h1.1 o.id
      have h3 := inv_addTransaction wf c h2 ho
      have hJ3 := J_promote wf nrs c hI hJ ho hroom
      have hm := (addRely_queue o o.results s q).2.2
      have hm2 := removeOrphan_entries (addRely s q o).1 o.id
      apply J_processLoop wf nrs c f _ _ h3 hJ3 h1.2 _ hfin
      rw [addTransaction_room c _ o hroom]
      simp only [List.length_cons] at hf
      have hm' : entries (addRely s q o).1.byPrev + (addRely s q o).2.length ≤ entries s.byPrev + q.length := hm
      simp only
      omega
    · simp only [hemp] at hfin ⊢
      have hJq : J c s q := by
        refine ⟨hJ.idx, ?_, hJ.disj⟩
        intro k o' hk
        rcases hJ.pend k o' hk with h | h
        · exact Or.inl h
        · rcases List.mem_cons.mp h with h | h
          · left
            have hne : ¬ ∀ p ∈ o.spent, ¬ Unavail c s p := fun hall =>
              hemp ((requireParents_isEmpty_iff c s o).mpr hall)
            rw [h]
            apply Classical.byContradiction
            intro hcon
            apply hne
            intro p hp hu
            exact hcon ⟨p, hp, hu⟩
          · exact Or.inr h
      apply J_processLoop wf nrs c f s q hI hJq hq' _ hfin
      simp only [List.length_cons] at hf
      omega

/-- the pooled path of `processTransaction` -/
theorem J_pooled {U : List Tx} (wf : WF U) (nrs : NoRetSpend U) (c : Cfg) {s : Pool} {tx : Tx}
    (hI : Inv U s) (hJ : J c s []) (htx : tx ∈ U) (hmiss : ∀ p ∈ tx.spent, ¬ Unavail c s p)
    (hroom : s.pool.length < c.maxPool)
    (hfin : (processOrphans c (addTransaction c s tx).1 tx).pool.length < c.maxPool) :
    J c (processOrphans c (addTransaction c s tx).1 tx) [] := by
  unfold processOrphans at hfin ⊢
  have hI1 := inv_addTransaction wf c hI htx
  have hq := addRely_queue tx tx.results (addTransaction c s tx).1 []
  have hnot : amGet s.orphans tx.id = none := by
    cases h : amGet s.orphans tx.id with
    | none => rfl
    | some o' =>
      exfalso
      have hw := hI.orphWF tx.id o' h
      have : o'.tx = tx := wf.idInj o'.tx hw.1 tx htx hw.2
      rcases hJ.pend tx.id o' h with ⟨p, hp, hu⟩ | hq
      · rw [this] at hp; exact hmiss p hp hu
      · cases hq
  have hbp : (addTransaction c s tx).1.byPrev = s.byPrev := by rw [addTransaction_room c s tx hroom]
  have hJ1 : J c (addRely (addTransaction c s tx).1 [] tx).1 (addRely (addTransaction c s tx).1 [] tx).2 := by
    apply J_after wf nrs c hI hJ htx
    · intro p
      rw [addRely_utxo, addTransaction_room c s tx hroom]
      simp only
      rw [get_foldSet]
    · intro id' _ p hp hidx
      obtain ⟨m, hm, hin⟩ := hidx
      exact ⟨m, by rw [addRely_byPrev]; simp only [hp, if_false]; rw [hbp]; exact hm, hin⟩
    · intro k
      rw [addRely_orphans, addTransaction_room c s tx hroom]
      simp only
      by_cases e : k = tx.id
      · simp [e, hnot]
      · simp [e]
    · intro k
      rw [addRely_pool, addTransaction_room c s tx hroom]
      simp only
      rw [amGet_amSet]
    · intro x hx; cases hx
    · intro r hr m hm e he
      exact hq.2.1 r hr m (by rw [hbp]; exact hm) e he
  have h1 := inv_addRely hI1 [] (by intro x hx; cases hx) tx
  apply J_processLoop wf nrs c _ _ _ h1.1 hJ1 h1.2 _ hfin
  have hm : entries (addRely (addTransaction c s tx).1 [] tx).1.byPrev + (addRely (addTransaction c s tx).1 [] tx).2.length
      ≤ entries (addTransaction c s tx).1.byPrev + 0 := hq.2.2
  omega

theorem J_removeOrphan (c : Cfg) {s : Pool} (hJ : J c s []) (id : Nat) : J c (removeOrphan s id) [] := by
  have old : ∀ k o', amGet (removeOrphan s id).orphans k = some o' → k ≠ id ∧ amGet s.orphans k = some o' := by
    intro k o' h
    rw [removeOrphan_orphans] at h
    by_cases e : k = id
    · simp [e] at h
    · simp only [e, if_false] at h; exact ⟨e, h⟩
  refine ⟨?_, ?_, ?_⟩
  · intro k o' hk p hp hu
    obtain ⟨hne, hk0⟩ := old k o' hk
    unfold Unavail at hu
    rw [removeOrphan_utxo] at hu
    exact removeOrphan_keeps s id k hne p (hJ.idx k o' hk0 p hp hu)
  · intro k o' hk
    obtain ⟨_, hk0⟩ := old k o' hk
    rcases hJ.pend k o' hk0 with ⟨p, hp, hu⟩ | h
    · exact Or.inl ⟨p, hp, by unfold Unavail at hu ⊢; rw [removeOrphan_utxo]; exact hu⟩
    · cases h
  · intro k o' hk
    obtain ⟨_, hk0⟩ := old k o' hk
    rw [removeOrphan_pool]
    exact hJ.disj k o' hk0

theorem J_expire (c : Cfg) {s : Pool} (hJ : J c s []) (k : Nat) : J c (expire s k) [] := by
  unfold expire
  exact foldl_inv (fun s => J c s []) _ _ _ hJ (fun a e _ ha => J_removeOrphan c ha e.1)

theorem J_addOrphan {U : List Tx} (wf : WF U) (c : Cfg) {s : Pool} {tx : Tx} (hI : Inv U s) (hJ : J c s [])
    (htx : tx ∈ U) (now : Nat) (hpool : amGet s.pool tx.id = none)
    (hmiss : ¬ ∀ p ∈ tx.spent, ¬ Unavail c s p) :
    J c (addOrphan c s tx now (requireParents c s tx)).1 [] := by
  unfold addOrphan
  split
  · exact hJ
  · have old : ∀ k o', amGet (amSet s.orphans tx.id ⟨tx, now⟩) k = some o' →
        (k = tx.id ∧ o' = ⟨tx, now⟩) ∨ (k ≠ tx.id ∧ amGet s.orphans k = some o') := by
      intro k o' h
      rw [amGet_amSet] at h
      by_cases e : k = tx.id
      · simp only [e, if_true, Option.some.injEq] at h
        exact Or.inl ⟨e, h.symm⟩
      · simp only [e, if_false] at h; exact Or.inr ⟨e, h⟩
    refine ⟨?_, ?_, ?_⟩
    · intro k o' hk p hp hu
      simp only at hk ⊢
      rcases old k o' hk with ⟨e1, e2⟩ | ⟨_, hk0⟩
      · subst e2; subst e1
        have hpm : p ∈ missing c s tx := by
          unfold missing
          refine List.mem_filter.mpr ⟨hp, ?_⟩
          unfold Unavail at hu
          rw [amHas_eq, hu.1, hu.2]; rfl
        obtain ⟨m, hm, hin⟩ := addOrphan_fold_mem tx.id tx (requireParents c s tx) s.byPrev p (Or.inl hpm)
        exact ⟨m, hm, amGet_ne_none_of_mem m tx.id tx hin⟩
      · exact addFold_keeps tx.id tx k _ _ p (hJ.idx k o' hk0 p hp hu)
    · intro k o' hk
      simp only at hk ⊢
      rcases old k o' hk with ⟨_, e2⟩ | ⟨_, hk0⟩
      · subst e2
        left
        apply Classical.byContradiction
        intro hcon
        apply hmiss
        intro p hp hu
        exact hcon ⟨p, hp, hu⟩
      · exact hJ.pend k o' hk0
    · intro k o' hk
      simp only at hk ⊢
      rcases old k o' hk with ⟨e1, _⟩ | ⟨_, hk0⟩
      · rw [e1]; exact hpool
      · exact hJ.disj k o' hk0

end BytomModel.Lemmas.TxPool
