/-
Lemmas for the BIP-39 entropy ↔ word-index arithmetic.
-/
import BytomModel.Model.Mnemonic
import Mathlib.Tactic.Linarith
import Mathlib.Tactic.Ring

namespace BytomModel.Lemmas.Mnemonic
open BytomModel.Mnemonic

/-! ### big-endian bytes -/

theorem fromBytes_foldl (l : Bytes) (a : Nat) :
    l.foldl (fun acc x => acc * 256 + x) a = a * 256 ^ l.length + fromBytes l := by
  induction l generalizing a with
  | nil => simp [fromBytes]
  | cons x l ih =>
    simp only [List.foldl_cons, List.length_cons, fromBytes]
    rw [ih, ih (0 * 256 + x)]
    ring

theorem fromBytes_append_singleton (l : Bytes) (x : Nat) : fromBytes (l ++ [x]) = fromBytes l * 256 + x := by
  unfold fromBytes; rw [List.foldl_append]; rfl

theorem fromBytes_lt : ∀ (l : Bytes), (∀ b ∈ l, b < 256) → fromBytes l < 256 ^ l.length := by
  intro l
  induction l using List.reverseRecOn' with
  | nil => intro _; simp [fromBytes]
  | append_singleton l x ih =>
    intro h
    rw [fromBytes_append_singleton]
    have h1 := ih (fun b hb => h b (by simp [hb]))
    have h2 : x < 256 := h x (by simp)
    simp only [List.length_append, List.length_cons, List.length_nil, Nat.pow_succ]
    omega
where
  /-- reverse induction, proved here to stay within core -/
  List.reverseRecOn' {α : Type} {motive : List α → Prop} (l : List α) (nil : motive [])
      (append_singleton : ∀ (l : List α) (a : α), motive l → motive (l ++ [a])) : motive l := by
    have : ∀ r : List α, motive r.reverse := by
      intro r
      induction r with
      | nil => exact nil
      | cons a r ih => rw [List.reverse_cons]; exact append_singleton _ _ ih
    have h := this l.reverse
    rwa [List.reverse_reverse] at h

theorem toBytesN_length (n x : Nat) : (toBytesN n x).length = n := by
  induction n generalizing x with
  | zero => rfl
  | succ n ih => simp [toBytesN, ih]

theorem toBytesN_zero (n : Nat) : toBytesN n 0 = List.replicate n 0 := by
  induction n with
  | zero => rfl
  | succ n ih =>
    simp only [toBytesN, Nat.zero_div, Nat.zero_mod, ih]
    exact (List.replicate_succ' ..).symm

/-- fixed-length big-endian bytes invert `fromBytes` -/
theorem toBytesN_fromBytes : ∀ (l : Bytes), (∀ b ∈ l, b < 256) → toBytesN l.length (fromBytes l) = l := by
  intro l
  induction l using fromBytes_lt.List.reverseRecOn' with
  | nil => intro _; rfl
  | append_singleton l x ih =>
    intro h
    have h2 : x < 256 := h x (by simp)
    rw [fromBytes_append_singleton]
    simp only [List.length_append, List.length_cons, List.length_nil, toBytesN]
    have e1 : (fromBytes l * 256 + x) / 256 = fromBytes l := by omega
    have e2 : (fromBytes l * 256 + x) % 256 = x := by omega
    rw [e1, e2, ih (fun b hb => h b (by simp [hb]))]

/-- `padByteSlice(big.Int.Bytes(), len)` is the fixed-length big-endian representation -/
theorem pad_minBytesF : ∀ (len x f : Nat), x < 256 ^ len → x < f →
    (minBytesF f x).length ≤ len ∧
    toBytesN len x = List.replicate (len - (minBytesF f x).length) 0 ++ minBytesF f x := by
  intro len
  induction len with
  | zero =>
    intro x f hx hf
    have : x = 0 := by simpa using hx
    subst this
    obtain ⟨f', rfl⟩ : ∃ f', f = f' + 1 := ⟨f - 1, by omega⟩
    simp [minBytesF, toBytesN]
  | succ len ih =>
    intro x f hx hf
    obtain ⟨f', rfl⟩ : ∃ f', f = f' + 1 := ⟨f - 1, by omega⟩
    by_cases h0 : x = 0
    · subst h0
      simp only [minBytesF, if_true, List.length_nil, Nat.sub_zero, List.append_nil]
      exact ⟨by omega, toBytesN_zero _⟩
    · simp only [minBytesF, h0, if_false, toBytesN]
      have hx' : x / 256 < 256 ^ len := by
        rw [Nat.pow_succ] at hx
        exact Nat.div_lt_of_lt_mul (by rw [Nat.mul_comm]; exact hx)
      obtain ⟨i1, i2⟩ := ih (x / 256) f' hx' (by omega)
      constructor
      · simp only [List.length_append, List.length_cons, List.length_nil]; omega
      · rw [i2]
        simp only [List.length_append, List.length_cons, List.length_nil, List.append_assoc]
        congr 2
        omega

theorem pad_minBytes (len x : Nat) (hx : x < 256 ^ len) : padByteSlice (minBytes x) len = toBytesN len x := by
  obtain ⟨h1, h2⟩ := pad_minBytesF len x (x + 1) hx (by omega)
  unfold padByteSlice minBytes
  split
  · rename_i hle
    have : (minBytesF (x + 1) x).length = len := by omega
    rw [h2, this]; simp
  · exact h2.symm

/-! ### the checksum bits -/

/-- the bit of the checksum byte shifted in at step `i` -/
def ckBit (first i : Nat) : Nat := if (first &&& (1 <<< (7 - i))) % 256 > 0 then 1 else 0

theorem or_one (a : Nat) : a * 2 ||| 1 = a * 2 + 1 := by
  have := Nat.shiftLeft_add_eq_or_of_lt (i := 1) (b := 1) (by decide) a
  rw [Nat.shiftLeft_eq] at this
  simpa using this.symm

theorem ck_fold (first : Nat) : ∀ (l : List Nat) (acc : Nat),
    l.foldl (fun acc i => if (first &&& (1 <<< (7 - i))) % 256 > 0 then acc * 2 ||| 1 else acc * 2) acc
      = acc * 2 ^ l.length + l.foldl (fun acc i => acc * 2 + ckBit first i) 0 := by
  intro l
  induction l using fromBytes_lt.List.reverseRecOn' with
  | nil => intro acc; simp
  | append_singleton l i ih =>
    intro acc
    rw [List.foldl_append, List.foldl_append, ih]
    simp only [List.foldl_cons, List.foldl_nil, List.length_append, List.length_cons, List.length_nil,
      Nat.pow_succ]
    unfold ckBit
    split
    · rw [or_one]; ring
    · ring

/-- finite table: the `bits` shifted-in bits are the top `bits` bits of the checksum byte -/
def ckTableOK : Bool :=
  (List.range 9).all fun bits => (List.range 256).all fun first =>
    decide ((List.range bits).foldl (fun acc i => acc * 2 + ckBit first i) 0 = first / 2 ^ (8 - bits))

theorem ckTableOK_true : ckTableOK = true := by decide +kernel

theorem ck_table : ∀ bits, bits ≤ 8 → ∀ first, first < 256 →
    (List.range bits).foldl (fun acc i => acc * 2 + ckBit first i) 0 = first / 2 ^ (8 - bits) := by
  intro bits hb first hf
  have h := ckTableOK_true
  unfold ckTableOK at h
  rw [List.all_eq_true] at h
  have h1 := h bits (List.mem_range.mpr (by omega))
  rw [List.all_eq_true] at h1
  exact of_decide_eq_true (h1 first (List.mem_range.mpr hf))

theorem addChecksumInt_eq (ck : Bytes → Nat) (data : Bytes) (hck : ck data < 256) (hl : data.length / 4 ≤ 8) :
    addChecksumInt ck data = fromBytes data * 2 ^ (data.length / 4) + ck data / 2 ^ (8 - data.length / 4) := by
  unfold addChecksumInt
  simp only
  rw [ck_fold, List.length_range, ck_table _ hl _ hck]

/-! ### base-2048 digits -/

theorem digits2048_length (n x : Nat) : (digits2048 n x).length = n := by
  induction n generalizing x with
  | zero => rfl
  | succ n ih => simp [digits2048, ih]

theorem digits2048_lt (n x : Nat) : ∀ d ∈ digits2048 n x, d < 2048 := by
  induction n generalizing x with
  | zero => intro d hd; simp [digits2048] at hd
  | succ n ih =>
    intro d hd
    simp only [digits2048, List.mem_append, List.mem_singleton] at hd
    rcases hd with h | rfl
    · exact ih _ d h
    · have : (2047 : Nat) = 2 ^ 11 - 1 := by decide
      rw [this, Nat.and_two_pow_sub_one_eq_mod]; omega

theorem go_append : ∀ (a b : List (Option Nat)) (acc : Nat),
    entropyFromIdx.go (a ++ b) acc =
      match entropyFromIdx.go a acc with
      | some acc' => entropyFromIdx.go b acc'
      | none => none
  | [], b, acc => by simp [entropyFromIdx.go]
  | none :: a, b, acc => by simp [entropyFromIdx.go]
  | some i :: a, b, acc => by
    simp only [List.cons_append, entropyFromIdx.go]
    exact go_append a b _

theorem or_digit (b i : Nat) (hi : i < 2048) : (b * 2048 ||| (i % 65536)) = b * 2048 + i := by
  have e : i % 65536 = i := by omega
  rw [e]
  have := Nat.shiftLeft_add_eq_or_of_lt (i := 11) (b := i) (by omega) b
  rw [Nat.shiftLeft_eq] at this
  simpa using this.symm

/-- reading the digits back gives the number (mod 2048^n) shifted behind the accumulator -/
theorem go_digits : ∀ (n x acc : Nat),
    entropyFromIdx.go ((digits2048 n x).map some) acc = some (acc * 2048 ^ n + x % 2048 ^ n) := by
  intro n
  induction n with
  | zero => intro x acc; simp [digits2048, entropyFromIdx.go, Nat.mod_one]
  | succ n ih =>
    intro x acc
    simp only [digits2048, List.map_append, List.map_cons, List.map_nil]
    rw [go_append, ih]
    simp only [entropyFromIdx.go]
    have e : x &&& 2047 = x % 2048 := by
      have : (2047 : Nat) = 2 ^ 11 - 1 := by decide
      rw [this, Nat.and_two_pow_sub_one_eq_mod]
    rw [e, or_digit _ _ (by omega)]
    congr 1
    have hm : x % 2048 ^ (n + 1) = x % 2048 + 2048 * (x / 2048 % 2048 ^ n) := by
      rw [Nat.pow_succ, Nat.mul_comm (2048 ^ n)]; exact Nat.mod_mul
    rw [hm, Nat.pow_succ]
    ring

end BytomModel.Lemmas.Mnemonic
