/-
Helper lemmas for C33 (loop invariants of `Model.Sync.loop`, the shape of a non-error
answer of `locateHeaders`).  The property theorems are in `Props/C33.lean`.
-/
import BytomModel.Model.Sync
import Mathlib.Tactic.Ring

namespace BytomModel.Lemmas.Sync
open BytomModel.Model.Sync

structure WF (c : Chain) : Prop where
  atHeight : ∀ i h, c.byHeight i = some h → h.height = i ∧ c.byHash h.id = some h
  byHashId : ∀ id h, c.byHash id = some h → h.id = id

/-- the main index has an entry for every height below `n` -/
def Contiguous (c : Chain) (n : Nat) : Prop := ∀ i, i < n → c.byHeight i ≠ none

def incr (l : List Header) : Prop := l.Pairwise (fun a b => a.height < b.height)

/-! ### helper lemmas (private: not counted as property obligations) -/

theorem inMain_of_byHeight {c : Chain} (w : WF c) {i : Nat} {h : Header} (hh : c.byHeight i = some h) :
    inMain c h.id = true := by
  have ⟨h1, h2⟩ := w.atHeight i h hh
  unfold inMain
  rw [h2]; simp only
  rw [h1, hh]; simp

theorem findStart_main {c : Chain} {loc : List Nat} {h : Header} (hf : findStart c loc = some h) :
    inMain c h.id = true ∧ ∃ id ∈ loc, c.byHash id = some h := by
  induction loc with
  | nil => simp [findStart] at hf
  | cons id rest ih =>
    unfold findStart at hf
    split at hf
    · rename_i h' hb
      split at hf
      · rename_i hm
        cases hf
        exact ⟨hm, id, by simp, hb⟩
      · have ⟨a, j, hj, hb'⟩ := ih hf
        exact ⟨a, j, by simp [hj], hb'⟩
    · have ⟨a, j, hj, hb'⟩ := ih hf
      exact ⟨a, j, by simp [hj], hb'⟩

theorem loop_length {c : Chain} {stop : Header} {skip : Nat} :
    ∀ (fuel index : Nat) (l : List Header), loop c stop skip fuel index = some l → l.length ≤ fuel := by
  intro fuel
  induction fuel with
  | zero => intro index l h; simp [loop] at h; simp [h]
  | succ n ih =>
    intro index l h
    unfold loop at h
    simp only at h
    split at h
    · cases h; simp
    · split at h
      · cases h
      · rename_i hd hb
        split at h
        · cases h
        · rename_i rest hr
          cases h
          have := ih _ _ hr
          simp; omega

theorem loop_items {c : Chain} (w : WF c) {stop : Header} {skip : Nat} :
    ∀ (fuel index : Nat) (l : List Header), loop c stop skip fuel index = some l →
      ∀ h ∈ l, h = stop ∨ (inMain c h.id = true ∧ h.height < stop.height) := by
  intro fuel
  induction fuel with
  | zero => intro index l h; simp [loop] at h; simp [h]
  | succ n ih =>
    intro index l h
    unfold loop at h
    simp only at h
    split at h
    · cases h; intro x hx; simp at hx; exact Or.inl hx
    · rename_i hlt
      split at h
      · cases h
      · rename_i hd hb
        split at h
        · cases h
        · rename_i rest hr
          cases h
          intro x hx
          simp at hx
          rcases hx with rfl | hx
          · right
            refine ⟨inMain_of_byHeight w hb, ?_⟩
            have := (w.atHeight _ _ hb).1
            omega
          · exact ih _ _ hr x hx

/-- the loop only ever moves to a strictly larger index (the `next <= index` test), so the
    heights strictly increase — for EVERY skip value -/
theorem loop_sorted {c : Chain} (w : WF c) {stop : Header} {skip : Nat} :
    ∀ (fuel index : Nat) (l : List Header), index < stop.height → loop c stop skip fuel index = some l →
      incr l ∧ ∀ h ∈ l, index < h.height := by
  intro fuel
  induction fuel with
  | zero => intro index l _ h; simp [loop] at h; simp [h, incr]
  | succ n ih =>
    intro index l hi h
    unfold loop at h
    simp only at h
    split at h
    · cases h
      refine ⟨by simp [incr], ?_⟩
      intro x hx; simp at hx; subst hx; exact hi
    · rename_i hlt
      split at h
      · cases h
      · rename_i hd hb
        split at h
        · cases h
        · rename_i rest hr
          cases h
          have hh := (w.atHeight _ _ hb).1
          have ⟨s1, s2⟩ := ih _ _ (by omega) hr
          refine ⟨?_, ?_⟩
          · unfold incr; rw [List.pairwise_cons]
            exact ⟨fun y hy => by have := s2 y hy; omega, s1⟩
          · intro x hx; simp at hx
            rcases hx with rfl | hx
            · omega
            · have := s2 x hx; omega

theorem loop_no_error {c : Chain} {stop : Header} {skip : Nat} (hc : Contiguous c stop.height) :
    ∀ (fuel index : Nat), loop c stop skip fuel index ≠ none := by
  intro fuel
  induction fuel with
  | zero => intro index; simp [loop]
  | succ n ih =>
    intro index
    unfold loop
    simp only
    split
    · simp
    · rename_i hlt
      split
      · rename_i hb; exact absurd hb (hc _ (by omega))
      · split
        · rename_i hr; exact absurd hr (ih _)
        · simp

/-- shape of a non-error answer -/
theorem locate_cases {c : Chain} {loc : List Nat} {stop skip maxNum : Nat} {l : List Header}
    (h : locateHeaders c loc stop skip maxNum = .ok l) :
    ∃ g sh, c.byHeight 0 = some g ∧ c.byHash stop = some sh ∧
      let start := (findStart c loc).getD g
      (l = [] ∨
       (inMain c stop = true ∧ sh.height = start.height ∧ l = [start]) ∨
       (inMain c stop = true ∧ start.height < sh.height ∧
          ∃ rest, loop c sh skip (iterations maxNum) start.height = some rest ∧ l = start :: rest)) := by
  unfold locateHeaders at h
  split at h
  · cases h
  · rename_i g hg
    simp only at h
    split at h
    · cases h
    · rename_i sh hsh
      refine ⟨g, sh, hg, hsh, ?_⟩
      simp only
      split at h
      · cases h; exact Or.inl rfl
      · rename_i hcond
        simp only [Bool.or_eq_true, Bool.not_eq_true', decide_eq_true_eq, not_or, Bool.not_eq_false, Nat.not_lt] at hcond
        split at h
        · rename_i heq
          cases h
          exact Or.inr (Or.inl ⟨hcond.1, by simpa using heq, rfl⟩)
        · rename_i hne
          split at h
          · cases h
          · rename_i rest hr
            cases h
            refine Or.inr (Or.inr ⟨hcond.1, ?_, rest, hr, rfl⟩)
            have : ¬ sh.height = ((findStart c loc).getD g).height := by simpa using hne
            omega

theorem start_main {c : Chain} (w : WF c) {loc : List Nat} {g : Header} (hg : c.byHeight 0 = some g) :
    inMain c ((findStart c loc).getD g).id = true := by
  cases hf : findStart c loc with
  | none => simpa using inMain_of_byHeight w hg
  | some h => simpa using (findStart_main hf).1

theorem fetch_prefix {hasBlock : Nat → Bool} {tmo : Nat} :
    ∀ (hs : List Header) (k : Nat) (bs : List Header), fetchBlocks hasBlock tmo hs k = some bs →
      bs <+: hs ∧ (hs ≠ [] → bs ≠ []) := by
  intro hs
  induction hs with
  | nil => intro k bs h; simp [fetchBlocks] at h; simp [h]
  | cons x rest ih =>
    intro k bs h
    unfold fetchBlocks at h
    split at h
    · cases h
    · split at h
      · cases h; simp [List.prefix_cons_iff]
      · split at h
        · cases h
        · rename_i r hr
          cases h
          have := (ih _ _ hr).1
          simp [List.prefix_cons_iff, this]


theorem loop_progression {c : Chain} (w : WF c) {stop : Header} {skip : Nat} (hs : skip < two64) (hu : stop.height ≤ two64) :
    ∀ (fuel index : Nat) (l : List Header), index < stop.height → loop c stop skip fuel index = some l →
      (∀ k (hk : k < l.length), l[k] = stop ∨ l[k].height = index + (k + 1) * (skip + 1)) ∧
      (l.getLast? = some stop ∨ l.length = fuel) := by
  intro fuel
  induction fuel with
  | zero => intro index l _ h; simp [loop] at h; simp [h]
  | succ n ih =>
    intro index l hi h
    unfold loop at h
    simp only at h
    split at h
    · cases h
      exact ⟨fun k hk => Or.inl (by simp at hk; subst hk; rfl), Or.inl rfl⟩
    · rename_i hlt
      -- the step was taken: `next > index`, so `index + skip + 1` did not wrap
      have hadv : advance index skip = index + skip + 1 := by
        unfold advance two64 at *; omega
      split at h
      · cases h
      · rename_i hd hb
        split at h
        · cases h
        · rename_i rest hr
          cases h
          have hh := (w.atHeight _ _ hb).1
          have ⟨p1, p2⟩ := ih _ _ (by omega) hr
          refine ⟨?_, ?_⟩
          · intro k hk
            cases k with
            | zero => right; simp; omega
            | succ k =>
              simp only [List.getElem_cons_succ]
              rcases p1 k (by simpa using hk) with e | e
              · exact Or.inl e
              · right; rw [e, hadv]; ring
          · rcases p2 with e | e
            · left
              cases rest with
              | nil => simp at e
              | cons a r => simpa [List.getLast?_cons_cons] using e
            · right; simp [e]

end BytomModel.Lemmas.Sync
