/-
C37 — every step preserves the invariant.
-/
import BytomModel.Lemmas.SyncSkelInv

namespace BytomModel.SyncSkel

variable {S : Sys} {A : Ann}

theorem threads_set (c : Config) (i : Nat) (t : Thread) : (c.set i t).threads = c.threads.set i t := rfl

/-- the statement at the head is plain code (typed by the checker) -/
theorem head_plain {spec : Option (List (List Stmt))} {t : Thread} (h : TOK S A spec t)
    {s : Stmt} {k : List Stmt} (hp : t.prog = s :: k)
    (h1 : ∀ r, s ≠ .act (.sendReply r)) (h2 : ∀ arms, s ≠ .loop true [.sel arms]) (h3 : ∀ arms, s ≠ .sel arms) :
    ∃ X' σ', k = X' ++ (replyPart t.peer ++ tailOf spec) ∧
        chkS S A t.lvl ⟨t.held, pendOf S t.st⟩ s = some σ' ∧ chkL S A t.lvl σ' X' = some TS.empty := by
  rcases tok_head h hp with h' | ⟨_, _, h'⟩ | ⟨arms, _, h', _⟩
  · exact h'
  · rcases not_tail h' with ⟨q, r, _, hs, _⟩ | ⟨arms, _, _, hs, _⟩
    · exact absurd hs (h1 r)
    · exact absurd hs (h2 arms)
  · exact absurd h' (h3 arms)

theorem stepT_inv_call (hwf : wfSys S A = true) {c c' : Config} {i n p : Nat} {t : Thread} {f : Fn} {k : List Stmt}
    (hinv : Inv S A c.threads) (hi : c.threads[i]? = some t) (hp : t.prog = .call f :: k)
    (hs : stepT S c i n p t = some c') : Inv S A c'.threads := by
  have htok := hinv.tok i t hi
  simp only [stepT, hp, Option.some.injEq] at hs
  subst hs
  obtain ⟨X', σ', hk, hc, hX⟩ := head_plain htok hp (by simp) (by simp) (by simp)
  obtain ⟨e1, e2, e3, rfl⟩ := chkS_call hc
  rw [threads_set]
  refine inv_set hinv hi ?_ rfl rfl (fun _ => Iff.rfl)
  refine tok_local htok hp rfl rfl ?_ ?_ (S.bodyOf f) rfl hk ?_
  · intro m hm
    have := pw_none_of_head htok hp (by simp)
    rw [this] at hm; cases hm
  · intro ch hq; exact htok.st_ok ch hq
  · dsimp only at e1 e2
    have hb := wf_body hwf htok.lvl_le e3
    rw [← e2] at hb
    refine chkL_append_some (σ' := ⟨t.held, none⟩) ?_ ?_
    · dsimp only; rw [e1]; exact hb
    · rw [← e1]; exact hX

/-- a step of thread `i` inside its plain code that keeps its peer, level and served-ness -/
theorem inv_local {ths : List Thread} {i : Nat} {t t' : Thread} {s : Stmt} {k : List Stmt}
    (hinv : Inv S A ths) (hi : ths[i]? = some t) (hp : t.prog = s :: k)
    (h1 : ∀ r, s ≠ .act (.sendReply r)) (h2 : ∀ arms, s ≠ .loop true [.sel arms]) (h3 : ∀ arms, s ≠ .sel arms)
    (hl : t'.lvl = t.lvl) (hpe : t'.peer = t.peer) (hsv : ∀ r, t'.st = .served r ↔ t.st = .served r)
    (hpw : ∀ m, t'.pw = some m → ∃ k', t'.prog = .act (.lock m) :: k')
    (hst : ∀ ch, t'.st = .queued ch → A.lvl ch < t.lvl ∧ hasServer S A ch = true ∧ ∃ r, S.replyOf ch = some r)
    (P : List Stmt) (hprog : t'.prog = P ++ k)
    (hchk : ∀ σ' X', chkS S A t.lvl ⟨t.held, pendOf S t.st⟩ s = some σ' → chkL S A t.lvl σ' X' = some TS.empty →
        chkL S A t.lvl ⟨t'.held, pendOf S t'.st⟩ (P ++ X') = some TS.empty) :
    Inv S A (ths.set i t') := by
  have htok := hinv.tok i t hi
  obtain ⟨X', σ', hk, hc, hX⟩ := head_plain htok hp h1 h2 h3
  exact inv_set hinv hi (tok_local htok hp hl hpe hpw hst P hprog hk (hchk σ' X' hc hX)) hpe hl hsv

/-- the announced-writer flag is clear unless the head is that `lock` -/
theorem pw_vac {spec : Option (List (List Stmt))} {t : Thread} (h : TOK S A spec t)
    {s : Stmt} {k : List Stmt} (hp : t.prog = s :: k) (hs : ∀ m, s ≠ .act (.lock m)) (prog' : List Stmt) :
    ∀ m, t.pw = some m → ∃ k', prog' = .act (.lock m) :: k' := by
  intro m hm
  rw [pw_none_of_head h hp hs] at hm; cases hm

theorem stepT_inv_go (hwf : wfSys S A = true) {c c' : Config} {i n p : Nat} {t : Thread} {f : Fn} {k : List Stmt}
    (hinv : Inv S A c.threads) (hi : c.threads[i]? = some t) (hp : t.prog = .go f :: k)
    (hs : stepT S c i n p t = some c') : Inv S A c'.threads := by
  have htok := hinv.tok i t hi
  simp only [stepT, hp, Option.some.injEq] at hs
  subst hs
  obtain ⟨X', σ', hk, hc, hX⟩ := head_plain htok hp (by simp) (by simp) (by simp)
  obtain ⟨e1, e2, e3, rfl⟩ := chkS_go hc
  dsimp only
  apply inv_append
  · refine inv_local hinv hi hp (by simp) (by simp) (by simp) rfl rfl (fun _ => Iff.rfl)
      (pw_vac htok hp (by simp) _) (fun ch hq => htok.st_ok ch hq) [] rfl ?_
    intro σ'' X'' hc' hX'
    obtain ⟨_, _, _, rfl⟩ := chkS_go hc'
    exact hX'
  · have hb := wf_body hwf htok.lvl_le e3
    rw [e2] at hb
    refine ⟨htok.lvl_le, (by intro m hm; cases hm), (by intro ch hq; cases hq), fun _ => rfl,
      (by intro arms ha; cases ha), Or.inl ⟨S.bodyOf f, by simp [mkThread, replyPart, tailOf], hb⟩⟩
  · rfl
  · rfl

theorem stepT_inv_alt {c c' : Config} {i n p : Nat} {t : Thread} {bs : List (List Stmt)} {k : List Stmt}
    (hinv : Inv S A c.threads) (hi : c.threads[i]? = some t) (hp : t.prog = .alt bs :: k)
    (hs : stepT S c i n p t = some c') : Inv S A c'.threads := by
  have htok := hinv.tok i t hi
  simp only [stepT, hp] at hs
  cases hb : bs[n]? with
  | none => rw [hb] at hs; cases hs
  | some b =>
    rw [hb] at hs
    simp only [Option.some.injEq] at hs
    subst hs
    rw [threads_set]
    refine inv_local hinv hi hp (by simp) (by simp) (by simp) rfl rfl (fun _ => Iff.rfl)
      (pw_vac htok hp (by simp) _) (fun ch hq => htok.st_ok ch hq) b rfl ?_
    intro σ' X' hc hX
    obtain ⟨_, _, hall⟩ := chkS_alt hc
    exact chkL_append_some (hall b (List.mem_of_getElem? hb)) hX

theorem stepT_inv_loop {c c' : Config} {i n p : Nat} {t : Thread} {inf : Bool} {b k : List Stmt}
    (hinv : Inv S A c.threads) (hi : c.threads[i]? = some t) (hp : t.prog = .loop inf b :: k)
    (hplain : ∀ arms, Stmt.loop inf b ≠ .loop true [.sel arms])
    (hs : stepT S c i n p t = some c') : Inv S A c'.threads := by
  have htok := hinv.tok i t hi
  simp only [stepT, hp] at hs
  by_cases hn : n = 0
  · rw [if_pos hn] at hs
    cases inf with
    | true => simp at hs
    | false =>
      simp only [Bool.false_eq_true, if_false, Option.some.injEq] at hs
      subst hs
      rw [threads_set]
      refine inv_local hinv hi hp (by simp) hplain (by simp) rfl rfl (fun _ => Iff.rfl)
        (pw_vac htok hp (by simp) _) (fun ch hq => htok.st_ok ch hq) [] rfl ?_
      intro σ' X' hc hX
      obtain ⟨_, rfl, _⟩ := chkS_loop hc
      exact hX
  · rw [if_neg hn] at hs
    simp only [Option.some.injEq] at hs
    subst hs
    rw [threads_set]
    refine inv_local hinv hi hp (by simp) hplain (by simp) rfl rfl (fun _ => Iff.rfl)
      (pw_vac htok hp (by simp) _) (fun ch hq => htok.st_ok ch hq) (b ++ [.loop inf b]) (by simp) ?_
    intro σ' X' hc hX
    obtain ⟨_, rfl, hb⟩ := chkS_loop hc
    rw [List.append_assoc]
    refine chkL_append_some hb ?_
    simp only [List.singleton_append]
    rw [chkL_cons, hc]; exact hX

theorem chkL_cons_of {L : Nat} {σ σ' τ : TS} {s : Stmt} {k : List Stmt}
    (h1 : chkS S A L σ s = some σ') (h2 : chkL S A L σ' k = some τ) : chkL S A L σ (s :: k) = some τ := by
  rw [chkL_cons, h1]; exact h2

/-- all the actions that only touch the acting thread (locks, Cond, sends, taking a buffered reply) -/
theorem stepT_inv_act {c c' : Config} {i n p : Nat} {t : Thread} {a : Act} {k : List Stmt}
    (hinv : Inv S A c.threads) (hi : c.threads[i]? = some t) (hp : t.prog = .act a :: k)
    (ha1 : ∀ r, a ≠ .sendReply r) (ha2 : ∀ ch, a ≠ .recv ch)
    (hs : stepT S c i n p t = some c') : Inv S A c'.threads := by
  have htok := hinv.tok i t hi
  have hloc : ∀ (t' : Thread) (P : List Stmt), t'.lvl = t.lvl → t'.peer = t.peer →
      (∀ r, t'.st = .served r ↔ t.st = .served r) →
      (∀ m, t'.pw = some m → ∃ k', t'.prog = .act (.lock m) :: k') →
      (∀ ch, t'.st = .queued ch → A.lvl ch < t.lvl ∧ hasServer S A ch = true ∧ ∃ r, S.replyOf ch = some r) →
      t'.prog = P ++ k →
      (∀ σ' X', chkA S A t.lvl ⟨t.held, pendOf S t.st⟩ a = some σ' → chkL S A t.lvl σ' X' = some TS.empty →
        chkL S A t.lvl ⟨t'.held, pendOf S t'.st⟩ (P ++ X') = some TS.empty) →
      Inv S A (c.threads.set i t') := by
    intro t' P hl hpe hsv hpw hst hprog hchk
    refine inv_local hinv hi hp (by intro r; simp; exact ha1 r) (by simp) (by simp) hl hpe hsv hpw hst P hprog ?_
    intro σ' X' hc hX
    rw [chkS_act] at hc
    exact hchk σ' X' hc hX
  cases a with
  | lock m =>
    simp only [stepT, hp] at hs
    by_cases hpw : t.pw = some m
    · rw [if_pos hpw] at hs
      split at hs
      · cases hs
      · simp only [Option.some.injEq] at hs
        subst hs
        rw [threads_set]
        refine hloc _ [] rfl rfl (fun _ => Iff.rfl) (by intro m' hm'; cases hm') (fun ch hq => htok.st_ok ch hq) rfl ?_
        intro σ' X' hc hX
        simp only [chkA] at hc
        split at hc
        · cases hc; exact hX
        · cases hc
    · rw [if_neg hpw] at hs
      split at hs
      · cases hs
      · simp only [Option.some.injEq] at hs
        subst hs
        rw [threads_set]
        refine hloc _ [.act (.lock m)] rfl rfl (fun _ => Iff.rfl) ?_ (fun ch hq => htok.st_ok ch hq) (by simp) ?_
        · intro m' hm'
          simp only [Option.some.injEq] at hm'
          subst hm'
          exact ⟨k, rfl⟩
        · intro σ' X' hc hX
          exact chkL_cons_of (by rw [chkS_act]; exact hc) hX
  | rlock m =>
    simp only [stepT, hp] at hs
    split at hs
    · cases hs
    · simp only [Option.some.injEq] at hs
      subst hs
      rw [threads_set]
      refine hloc _ [] rfl rfl (fun _ => Iff.rfl) (pw_vac htok hp (by simp) _) (fun ch hq => htok.st_ok ch hq) rfl ?_
      intro σ' X' hc hX
      simp only [chkA] at hc
      split at hc
      · cases hc; exact hX
      · cases hc
  | unlock m =>
    simp only [stepT, hp] at hs
    split at hs
    · simp only [Option.some.injEq] at hs
      subst hs
      rw [threads_set]
      refine hloc _ [] rfl rfl (fun _ => Iff.rfl) (pw_vac htok hp (by simp) _) (fun ch hq => htok.st_ok ch hq) rfl ?_
      intro σ' X' hc hX
      simp only [chkA] at hc
      split at hc
      · cases hc; exact hX
      · cases hc
    · cases hs
  | runlock m =>
    simp only [stepT, hp] at hs
    split at hs
    · simp only [Option.some.injEq] at hs
      subst hs
      rw [threads_set]
      refine hloc _ [] rfl rfl (fun _ => Iff.rfl) (pw_vac htok hp (by simp) _) (fun ch hq => htok.st_ok ch hq) rfl ?_
      intro σ' X' hc hX
      simp only [chkA] at hc
      split at hc
      · cases hc; exact hX
      · cases hc
    · cases hs
  | wait m =>
    simp only [stepT, hp] at hs
    split at hs
    · simp only [Option.some.injEq] at hs
      subst hs
      rw [threads_set]
      refine hloc _ [.act (.lock m)] rfl rfl (fun _ => Iff.rfl) (pw_vac htok hp (by simp) _)
        (fun ch hq => htok.st_ok ch hq) (by simp) ?_
      intro σ' X' hc hX
      simp only [chkA] at hc
      split at hc
      · rename_i hcond
        cases hc
        obtain ⟨hpn, hheld, hrk⟩ := hcond
        refine chkL_cons_of (σ' := ⟨[(m, .W)], none⟩) ?_ ?_
        · rw [chkS_act]
          simp only [chkA, hheld, List.erase_cons_head, hpn]
          simp [rankOK, hrk]
        · rw [hheld, hpn] at hX; exact hX
      · cases hc
    · cases hs
  | signal m =>
    simp only [stepT, hp, Option.some.injEq] at hs
    subst hs
    rw [threads_set]
    refine hloc _ [] rfl rfl (fun _ => Iff.rfl) (pw_vac htok hp (by simp) _) (fun ch hq => htok.st_ok ch hq) rfl ?_
    intro σ' X' hc hX
    simp only [chkA] at hc
    split at hc
    · cases hc; exact hX
    · cases hc
  | sendFresh cap =>
    simp only [stepT, hp] at hs
    split at hs
    · simp only [Option.some.injEq] at hs
      subst hs
      rw [threads_set]
      refine hloc _ [] rfl rfl (fun _ => Iff.rfl) (pw_vac htok hp (by simp) _) (fun ch hq => htok.st_ok ch hq) rfl ?_
      intro σ' X' hc hX
      simp only [chkA] at hc
      split at hc
      · cases hc; exact hX
      · cases hc
    · cases hs
  | send ch =>
    -- the discipline at the head
    obtain ⟨X0, σ0, _, hc0, _⟩ := head_plain htok hp (by simp) (by simp) (by simp)
    rw [chkS_act] at hc0
    simp only [chkA] at hc0
    split at hc0
    · rename_i hcond
      obtain ⟨hpn, hheld, hlv, hcap, hsrv⟩ := hcond
      have hidle : t.st = .idle := st_idle_of_pend htok hpn
      simp only [stepT, hp] at hs
      cases hr : S.replyOf ch with
      | some r =>
        rw [hr] at hs
        dsimp only at hs
        split at hs
        · simp only [Option.some.injEq] at hs
          subst hs
          rw [threads_set]
          refine hloc _ [] rfl rfl ?_ (pw_vac htok hp (by simp) _) ?_ rfl ?_
          · intro r'; simp [hidle]
          · intro ch' hq
            simp only [St.queued.injEq] at hq
            subst hq
            exact ⟨hlv, hsrv, r, hr⟩
          · intro σ' X' hc hX
            simp only [chkA] at hc
            split at hc
            · cases hc
              simp only [pendOf, List.nil_append]
              exact hX
            · cases hc
        · cases hs
      | none =>
        rw [hr] at hs
        dsimp only at hs
        split at hs
        · simp only [Option.some.injEq] at hs
          subst hs
          dsimp only
          rw [threads_set]
          refine hloc _ [] rfl rfl (fun _ => Iff.rfl) (pw_vac htok hp (by simp) _) (fun ch hq => htok.st_ok ch hq) rfl ?_
          intro σ' X' hc hX
          simp only [chkA] at hc
          split at hc
          · cases hc
            rw [hr] at hX
            rw [hpn]
            exact hX
          · cases hc
        · cases hs
    · cases hc0
  | recv ch => exact absurd rfl (ha2 ch)
  | sendReply r => exact absurd rfl (ha1 r)
  | recvReply r =>
    simp only [stepT, hp] at hs
    split at hs
    · rename_i hrep
      simp only [Option.some.injEq] at hs
      subst hs
      rw [threads_set]
      refine hloc _ [] rfl rfl ?_ (pw_vac htok hp (by simp) _) ?_ rfl ?_
      · intro r'; simp [hrep]
      · intro ch' hq; cases hq
      · intro σ' X' hc hX
        simp only [chkA] at hc
        split at hc
        · rename_i hcond
          cases hc
          simp only [pendOf, List.nil_append]
          rw [hcond.2]
          rw [hcond.2] at hX
          exact hX
        · cases hc
    · cases hs

end BytomModel.SyncSkel
