/-
C37 — every step preserves the invariant.
-/
import BytomModel.Lemmas.SyncSkelInv

namespace BytomModel.SyncSkel

variable {S : Sys} {A : Ann}

theorem threads_set (c : Config) (i : Nat) (t : Thread) : (c.set i t).threads = c.threads.set i t := rfl

/-- the statement at the head is plain code (typed by the checker) -/
theorem head_plain {spec : Option (List (List Stmt))} {t : Thread} (h : TOK S A spec t)
    {s : Stmt} {k : List Stmt} (hp : t.prog = s :: k)
    (h1 : ∀ r, s ≠ .act (.sendReply r)) (h2 : ∀ arms, s ≠ .loop true [.sel arms]) (h3 : ∀ arms, s ≠ .sel arms) :
    ∃ X' σ', k = X' ++ (replyPart t.peer ++ tailOf spec) ∧
        chkS S A t.lvl ⟨t.held, pendOf S t.st⟩ s = some σ' ∧ chkL S A t.lvl σ' X' = some TS.empty := by
  rcases tok_head h hp with h' | ⟨_, _, h'⟩ | ⟨arms, _, h', _⟩
  · exact h'
  · rcases not_tail h' with ⟨q, r, _, hs, _⟩ | ⟨arms, _, _, hs, _⟩
    · exact absurd hs (h1 r)
    · exact absurd hs (h2 arms)
  · exact absurd h' (h3 arms)

theorem stepT_inv_call (hwf : wfSys S A = true) {c c' : Config} {i n p : Nat} {t : Thread} {f : Fn} {k : List Stmt}
    (hinv : Inv S A c.threads) (hi : c.threads[i]? = some t) (hp : t.prog = .call f :: k)
    (hs : stepT S c i n p t = some c') : Inv S A c'.threads := by
  have htok := hinv.tok i t hi
  simp only [stepT, hp, Option.some.injEq] at hs
  subst hs
  obtain ⟨X', σ', hk, hc, hX⟩ := head_plain htok hp (by simp) (by simp) (by simp)
  obtain ⟨e1, e2, e3, rfl⟩ := chkS_call hc
  rw [threads_set]
  refine inv_set hinv hi ?_ rfl rfl (fun _ => Iff.rfl)
  refine tok_local htok hp rfl rfl ?_ ?_ (S.bodyOf f) rfl hk ?_
  · intro m hm
    have := pw_none_of_head htok hp (by simp)
    rw [this] at hm; cases hm
  · intro ch hq; exact htok.st_ok ch hq
  · dsimp only at e1 e2
    have hb := wf_body hwf htok.lvl_le e3
    rw [← e2] at hb
    refine chkL_append_some (σ' := ⟨t.held, none⟩) ?_ ?_
    · dsimp only; rw [e1]; exact hb
    · rw [← e1]; exact hX

/-- a step of thread `i` inside its plain code that keeps its peer, level and served-ness -/
theorem inv_local {ths : List Thread} {i : Nat} {t t' : Thread} {s : Stmt} {k : List Stmt}
    (hinv : Inv S A ths) (hi : ths[i]? = some t) (hp : t.prog = s :: k)
    (h1 : ∀ r, s ≠ .act (.sendReply r)) (h2 : ∀ arms, s ≠ .loop true [.sel arms]) (h3 : ∀ arms, s ≠ .sel arms)
    (hl : t'.lvl = t.lvl) (hpe : t'.peer = t.peer) (hsv : ∀ r, t'.st = .served r ↔ t.st = .served r)
    (hpw : ∀ m, t'.pw = some m → ∃ k', t'.prog = .act (.lock m) :: k')
    (hst : ∀ ch, t'.st = .queued ch → A.lvl ch < t.lvl ∧ hasServer S A ch = true ∧ ∃ r, S.replyOf ch = some r)
    (P : List Stmt) (hprog : t'.prog = P ++ k)
    (hchk : ∀ σ' X', chkS S A t.lvl ⟨t.held, pendOf S t.st⟩ s = some σ' → chkL S A t.lvl σ' X' = some TS.empty →
        chkL S A t.lvl ⟨t'.held, pendOf S t'.st⟩ (P ++ X') = some TS.empty) :
    Inv S A (ths.set i t') := by
  have htok := hinv.tok i t hi
  obtain ⟨X', σ', hk, hc, hX⟩ := head_plain htok hp h1 h2 h3
  exact inv_set hinv hi (tok_local htok hp hl hpe hpw hst P hprog hk (hchk σ' X' hc hX)) hpe hl hsv

/-- the announced-writer flag is clear unless the head is that `lock` -/
theorem pw_vac {spec : Option (List (List Stmt))} {t : Thread} (h : TOK S A spec t)
    {s : Stmt} {k : List Stmt} (hp : t.prog = s :: k) (hs : ∀ m, s ≠ .act (.lock m)) (prog' : List Stmt) :
    ∀ m, t.pw = some m → ∃ k', prog' = .act (.lock m) :: k' := by
  intro m hm
  rw [pw_none_of_head h hp hs] at hm; cases hm

theorem stepT_inv_go (hwf : wfSys S A = true) {c c' : Config} {i n p : Nat} {t : Thread} {f : Fn} {k : List Stmt}
    (hinv : Inv S A c.threads) (hi : c.threads[i]? = some t) (hp : t.prog = .go f :: k)
    (hs : stepT S c i n p t = some c') : Inv S A c'.threads := by
  have htok := hinv.tok i t hi
  simp only [stepT, hp, Option.some.injEq] at hs
  subst hs
  obtain ⟨X', σ', hk, hc, hX⟩ := head_plain htok hp (by simp) (by simp) (by simp)
  obtain ⟨e1, e2, e3, rfl⟩ := chkS_go hc
  dsimp only
  apply inv_append
  · refine inv_local hinv hi hp (by simp) (by simp) (by simp) rfl rfl (fun _ => Iff.rfl)
      (pw_vac htok hp (by simp) _) (fun ch hq => htok.st_ok ch hq) [] rfl ?_
    intro σ'' X'' hc' hX'
    obtain ⟨_, _, _, rfl⟩ := chkS_go hc'
    exact hX'
  · have hb := wf_body hwf htok.lvl_le e3
    rw [e2] at hb
    refine ⟨htok.lvl_le, (by intro m hm; cases hm), (by intro ch hq; cases hq), fun _ => rfl,
      (by intro arms ha; cases ha), Or.inl ⟨S.bodyOf f, by simp [mkThread, replyPart, tailOf], hb⟩⟩
  · rfl
  · rfl

theorem stepT_inv_alt {c c' : Config} {i n p : Nat} {t : Thread} {bs : List (List Stmt)} {k : List Stmt}
    (hinv : Inv S A c.threads) (hi : c.threads[i]? = some t) (hp : t.prog = .alt bs :: k)
    (hs : stepT S c i n p t = some c') : Inv S A c'.threads := by
  have htok := hinv.tok i t hi
  simp only [stepT, hp] at hs
  cases hb : bs[n]? with
  | none => rw [hb] at hs; cases hs
  | some b =>
    rw [hb] at hs
    simp only [Option.some.injEq] at hs
    subst hs
    rw [threads_set]
    refine inv_local hinv hi hp (by simp) (by simp) (by simp) rfl rfl (fun _ => Iff.rfl)
      (pw_vac htok hp (by simp) _) (fun ch hq => htok.st_ok ch hq) b rfl ?_
    intro σ' X' hc hX
    obtain ⟨_, _, hall⟩ := chkS_alt hc
    exact chkL_append_some (hall b (List.mem_of_getElem? hb)) hX

theorem stepT_inv_loop {c c' : Config} {i n p : Nat} {t : Thread} {inf : Bool} {b k : List Stmt}
    (hinv : Inv S A c.threads) (hi : c.threads[i]? = some t) (hp : t.prog = .loop inf b :: k)
    (hplain : ∀ arms, Stmt.loop inf b ≠ .loop true [.sel arms])
    (hs : stepT S c i n p t = some c') : Inv S A c'.threads := by
  have htok := hinv.tok i t hi
  simp only [stepT, hp] at hs
  by_cases hn : n = 0
  · rw [if_pos hn] at hs
    cases inf with
    | true => simp at hs
    | false =>
      simp only [Bool.false_eq_true, if_false, Option.some.injEq] at hs
      subst hs
      rw [threads_set]
      refine inv_local hinv hi hp (by simp) hplain (by simp) rfl rfl (fun _ => Iff.rfl)
        (pw_vac htok hp (by simp) _) (fun ch hq => htok.st_ok ch hq) [] rfl ?_
      intro σ' X' hc hX
      obtain ⟨_, rfl, _⟩ := chkS_loop hc
      exact hX
  · rw [if_neg hn] at hs
    simp only [Option.some.injEq] at hs
    subst hs
    rw [threads_set]
    refine inv_local hinv hi hp (by simp) hplain (by simp) rfl rfl (fun _ => Iff.rfl)
      (pw_vac htok hp (by simp) _) (fun ch hq => htok.st_ok ch hq) (b ++ [.loop inf b]) (by simp) ?_
    intro σ' X' hc hX
    obtain ⟨_, rfl, hb⟩ := chkS_loop hc
    rw [List.append_assoc]
    refine chkL_append_some hb ?_
    simp only [List.singleton_append]
    rw [chkL_cons, hc]; exact hX

theorem chkL_cons_of {L : Nat} {σ σ' τ : TS} {s : Stmt} {k : List Stmt}
    (h1 : chkS S A L σ s = some σ') (h2 : chkL S A L σ' k = some τ) : chkL S A L σ (s :: k) = some τ := by
  rw [chkL_cons, h1]; exact h2

/-- all the actions that only touch the acting thread (locks, Cond, sends, taking a buffered reply) -/
theorem stepT_inv_act {c c' : Config} {i n p : Nat} {t : Thread} {a : Act} {k : List Stmt}
    (hinv : Inv S A c.threads) (hi : c.threads[i]? = some t) (hp : t.prog = .act a :: k)
    (ha1 : ∀ r, a ≠ .sendReply r) (ha2 : ∀ ch, a ≠ .recv ch)
    (hs : stepT S c i n p t = some c') : Inv S A c'.threads := by
  have htok := hinv.tok i t hi
  have hloc : ∀ (t' : Thread) (P : List Stmt), t'.lvl = t.lvl → t'.peer = t.peer →
      (∀ r, t'.st = .served r ↔ t.st = .served r) →
      (∀ m, t'.pw = some m → ∃ k', t'.prog = .act (.lock m) :: k') →
      (∀ ch, t'.st = .queued ch → A.lvl ch < t.lvl ∧ hasServer S A ch = true ∧ ∃ r, S.replyOf ch = some r) →
      t'.prog = P ++ k →
      (∀ σ' X', chkA S A t.lvl ⟨t.held, pendOf S t.st⟩ a = some σ' → chkL S A t.lvl σ' X' = some TS.empty →
        chkL S A t.lvl ⟨t'.held, pendOf S t'.st⟩ (P ++ X') = some TS.empty) →
      Inv S A (c.threads.set i t') := by
    intro t' P hl hpe hsv hpw hst hprog hchk
    refine inv_local hinv hi hp (by intro r; simp; exact ha1 r) (by simp) (by simp) hl hpe hsv hpw hst P hprog ?_
    intro σ' X' hc hX
    rw [chkS_act] at hc
    exact hchk σ' X' hc hX
  cases a with
  | lock m =>
    simp only [stepT, hp] at hs
    by_cases hpw : t.pw = some m
    · rw [if_pos hpw] at hs
      split at hs
      · cases hs
      · simp only [Option.some.injEq] at hs
        subst hs
        rw [threads_set]
        refine hloc _ [] rfl rfl (fun _ => Iff.rfl) (by intro m' hm'; cases hm') (fun ch hq => htok.st_ok ch hq) rfl ?_
        intro σ' X' hc hX
        simp only [chkA] at hc
        split at hc
        · cases hc; exact hX
        · cases hc
    · rw [if_neg hpw] at hs
      split at hs
      · cases hs
      · simp only [Option.some.injEq] at hs
        subst hs
        rw [threads_set]
        refine hloc _ [.act (.lock m)] rfl rfl (fun _ => Iff.rfl) ?_ (fun ch hq => htok.st_ok ch hq) (by simp) ?_
        · intro m' hm'
          simp only [Option.some.injEq] at hm'
          subst hm'
          exact ⟨k, rfl⟩
        · intro σ' X' hc hX
          exact chkL_cons_of (by rw [chkS_act]; exact hc) hX
  | rlock m =>
    simp only [stepT, hp] at hs
    split at hs
    · cases hs
    · simp only [Option.some.injEq] at hs
      subst hs
      rw [threads_set]
      refine hloc _ [] rfl rfl (fun _ => Iff.rfl) (pw_vac htok hp (by simp) _) (fun ch hq => htok.st_ok ch hq) rfl ?_
      intro σ' X' hc hX
      simp only [chkA] at hc
      split at hc
      · cases hc; exact hX
      · cases hc
  | unlock m =>
    simp only [stepT, hp] at hs
    split at hs
    · simp only [Option.some.injEq] at hs
      subst hs
      rw [threads_set]
      refine hloc _ [] rfl rfl (fun _ => Iff.rfl) (pw_vac htok hp (by simp) _) (fun ch hq => htok.st_ok ch hq) rfl ?_
      intro σ' X' hc hX
      simp only [chkA] at hc
      split at hc
      · cases hc; exact hX
      · cases hc
    · cases hs
  | runlock m =>
    simp only [stepT, hp] at hs
    split at hs
    · simp only [Option.some.injEq] at hs
      subst hs
      rw [threads_set]
      refine hloc _ [] rfl rfl (fun _ => Iff.rfl) (pw_vac htok hp (by simp) _) (fun ch hq => htok.st_ok ch hq) rfl ?_
      intro σ' X' hc hX
      simp only [chkA] at hc
      split at hc
      · cases hc; exact hX
      · cases hc
    · cases hs
  | wait m =>
    simp only [stepT, hp] at hs
    split at hs
    · simp only [Option.some.injEq] at hs
      subst hs
      rw [threads_set]
      refine hloc _ [.act (.lock m)] rfl rfl (fun _ => Iff.rfl) (pw_vac htok hp (by simp) _)
        (fun ch hq => htok.st_ok ch hq) (by simp) ?_
      intro σ' X' hc hX
      simp only [chkA] at hc
      split at hc
      · rename_i hcond
        cases hc
        obtain ⟨hpn, hheld, hrk⟩ := hcond
        refine chkL_cons_of (σ' := ⟨[(m, .W)], none⟩) ?_ ?_
        · rw [chkS_act]
          simp only [chkA, hheld, List.erase_cons_head, hpn]
          simp [rankOK, hrk]
        · rw [hheld, hpn] at hX; exact hX
      · cases hc
    · cases hs
  | signal m =>
    simp only [stepT, hp, Option.some.injEq] at hs
    subst hs
    rw [threads_set]
    refine hloc _ [] rfl rfl (fun _ => Iff.rfl) (pw_vac htok hp (by simp) _) (fun ch hq => htok.st_ok ch hq) rfl ?_
    intro σ' X' hc hX
    simp only [chkA] at hc
    split at hc
    · cases hc; exact hX
    · cases hc
  | sendFresh cap =>
    simp only [stepT, hp] at hs
    split at hs
    · simp only [Option.some.injEq] at hs
      subst hs
      rw [threads_set]
      refine hloc _ [] rfl rfl (fun _ => Iff.rfl) (pw_vac htok hp (by simp) _) (fun ch hq => htok.st_ok ch hq) rfl ?_
      intro σ' X' hc hX
      simp only [chkA] at hc
      split at hc
      · cases hc; exact hX
      · cases hc
    · cases hs
  | send ch =>
    -- the discipline at the head
    obtain ⟨X0, σ0, _, hc0, _⟩ := head_plain htok hp (by simp) (by simp) (by simp)
    rw [chkS_act] at hc0
    simp only [chkA] at hc0
    split at hc0
    · rename_i hcond
      obtain ⟨hpn, hheld, hlv, hcap, hsrv⟩ := hcond
      have hidle : t.st = .idle := st_idle_of_pend htok hpn
      simp only [stepT, hp] at hs
      cases hr : S.replyOf ch with
      | some r =>
        rw [hr] at hs
        dsimp only at hs
        split at hs
        · simp only [Option.some.injEq] at hs
          subst hs
          rw [threads_set]
          refine hloc _ [] rfl rfl ?_ (pw_vac htok hp (by simp) _) ?_ rfl ?_
          · intro r'; simp [hidle]
          · intro ch' hq
            simp only [St.queued.injEq] at hq
            subst hq
            exact ⟨hlv, hsrv, r, hr⟩
          · intro σ' X' hc hX
            simp only [chkA] at hc
            split at hc
            · cases hc
              simp only [pendOf, List.nil_append]
              exact hX
            · cases hc
        · cases hs
      | none =>
        rw [hr] at hs
        dsimp only at hs
        split at hs
        · simp only [Option.some.injEq] at hs
          subst hs
          dsimp only
          rw [threads_set]
          refine hloc _ [] rfl rfl (fun _ => Iff.rfl) (pw_vac htok hp (by simp) _) (fun ch hq => htok.st_ok ch hq) rfl ?_
          intro σ' X' hc hX
          simp only [chkA] at hc
          split at hc
          · cases hc
            rw [hr] at hX
            rw [hpn]
            exact hX
          · cases hc
        · cases hs
    · cases hc0
  | recv ch => exact absurd rfl (ha2 ch)
  | sendReply r => exact absurd rfl (ha1 r)
  | recvReply r =>
    simp only [stepT, hp] at hs
    split at hs
    · rename_i hrep
      simp only [Option.some.injEq] at hs
      subst hs
      rw [threads_set]
      refine hloc _ [] rfl rfl ?_ (pw_vac htok hp (by simp) _) ?_ rfl ?_
      · intro r'; simp [hrep]
      · intro ch' hq; cases hq
      · intro σ' X' hc hX
        simp only [chkA] at hc
        split at hc
        · rename_i hcond
          cases hc
          simp only [pendOf, List.nil_append]
          rw [hcond.2]
          rw [hcond.2] at hX
          exact hX
        · cases hc
    · cases hs

/-! ## steps that involve two threads: taking a request, answering it -/

theorem get_set2 {ths : List Thread} {i p : Nat} {t tp : Thread} (hi : ths[i]? = some t) (hp : ths[p]? = some tp)
    (a b : Thread) (j : Nat) :
    ((ths.set p a).set i b)[j]? = if i = j then some b else if p = j then some a else ths[j]? := by
  have hlt : i < (ths.set p a).length := by
    rw [List.length_set]; exact (List.getElem?_eq_some_iff.1 hi).1
  rw [List.getElem?_set]
  by_cases e : i = j
  · subst e; rw [if_pos rfl, if_pos rfl, if_pos hlt]
  · rw [if_neg e, if_neg e]; exact get_set hp a j

/-- a daemon takes the request of `p` out of its channel -/
theorem inv_take {ths : List Thread} {i p : Nat} {t tp t' : Thread} {r : Rep} {ch : Chan}
    (hinv : Inv S A ths) (hi : ths[i]? = some t) (hp : ths[p]? = some tp) (hne : i ≠ p)
    (htp : tp.st = .queued ch) (hr : S.replyOf ch = some r) (htpe : t.peer = none) (htst : t.st = .idle)
    (hlv : t.lvl = A.lvl ch)
    (htok' : TOK S A (specOf S i) t') (hpe' : t'.peer = some (p, r)) (hl' : t'.lvl = t.lvl) (hst' : t'.st = .idle) :
    Inv S A ((ths.set p { tp with st := .served r }).set i t') := by
  have hg := get_set2 hi hp { tp with st := .served r } t'
  have htokp := hinv.tok p tp hp
  have htokp' : TOK S A (specOf S p) { tp with st := .served r } := by
    refine ⟨htokp.lvl_le, htokp.pw_ok, (by intro ch' hq; cases hq), htokp.plain_peer, htokp.arms_ok, ?_⟩
    rcases htokp.shape with ⟨X, hX, hc⟩ | ⟨arms, _, _, _, _, hidle⟩
    · refine Or.inl ⟨X, hX, ?_⟩
      rw [htp] at hc
      simp only [pendOf, hr] at hc
      simpa only [pendOf] using hc
    · rw [htp] at hidle; cases hidle
  have hlt : t.lvl < tp.lvl := by rw [hlv]; exact (htokp.st_ok ch htp).1
  refine ⟨?_, by simp only [List.length_set]; exact hinv.nd, ?_, ?_, ?_⟩
  · intro j tj hj
    rw [hg] at hj
    by_cases e1 : i = j
    · subst e1; rw [if_pos rfl] at hj; cases hj; exact htok'
    · rw [if_neg e1] at hj
      by_cases e2 : p = j
      · subst e2; rw [if_pos rfl] at hj; cases hj; exact htokp'
      · rw [if_neg e2] at hj; exact hinv.tok j tj hj
  · intro j tj q r'' hj hpeer
    rw [hg] at hj
    by_cases e1 : i = j
    · subst e1
      rw [if_pos rfl] at hj; cases hj
      rw [hpe'] at hpeer
      simp only [Option.some.injEq, Prod.mk.injEq] at hpeer
      obtain ⟨rfl, rfl⟩ := hpeer
      refine ⟨{ tp with st := .served r }, ?_, rfl, by rw [hl']; exact hlt⟩
      rw [hg, if_neg hne, if_pos rfl]
    · rw [if_neg e1] at hj
      -- the old thread at j has the same peer and level
      have hold : ∃ tj0, ths[j]? = some tj0 ∧ tj0.peer = tj.peer ∧ tj0.lvl = tj.lvl := by
        by_cases e2 : p = j
        · subst e2; rw [if_pos rfl] at hj; cases hj; exact ⟨tp, hp, rfl, rfl⟩
        · rw [if_neg e2] at hj; exact ⟨tj, hj, rfl, rfl⟩
      obtain ⟨tj0, hj0, hpe0, hl0⟩ := hold
      obtain ⟨tq, hq, hqs, hql⟩ := hinv.srv j tj0 q r'' hj0 (by rw [hpe0]; exact hpeer)
      have hqi : i ≠ q := by
        intro e; subst e; rw [hi] at hq; cases hq; rw [htst] at hqs; cases hqs
      have hqp : p ≠ q := by
        intro e; subst e; rw [hp] at hq; cases hq; rw [htp] at hqs; cases hqs
      exact ⟨tq, by rw [hg, if_neg hqi, if_neg hqp]; exact hq, hqs, by omega⟩
  · intro j1 j2 t1 t2 q r1 r2 h1 h2 hp1 hp2
    rw [hg] at h1 h2
    -- a thread other than i that serves q served it before; nobody served p before
    have key : ∀ (j : Nat) (tj : Thread) (rr : Rep), i ≠ j →
        (if p = j then some ({ tp with st := .served r } : Thread) else ths[j]?) = some tj →
        tj.peer = some (q, rr) → q ≠ p ∧ ∃ tj0, ths[j]? = some tj0 ∧ tj0.peer = some (q, rr) := by
      intro j tj rr _ hj hpj
      have hold : ∃ tj0, ths[j]? = some tj0 ∧ tj0.peer = some (q, rr) := by
        by_cases e2 : p = j
        · subst e2; rw [if_pos rfl] at hj; cases hj; exact ⟨tp, hp, hpj⟩
        · rw [if_neg e2] at hj; exact ⟨tj, hj, hpj⟩
      obtain ⟨tj0, hj0, hpe0⟩ := hold
      refine ⟨?_, tj0, hj0, hpe0⟩
      intro e; subst e
      obtain ⟨tq, hq, hqs, _⟩ := hinv.srv j tj0 q rr hj0 hpe0
      rw [hp] at hq; cases hq; rw [htp] at hqs; cases hqs
    by_cases e1 : i = j1
    · by_cases e2 : i = j2
      · rw [← e1, ← e2]
      · subst e1
        rw [if_pos rfl] at h1; cases h1
        rw [if_neg e2] at h2
        rw [hpe'] at hp1
        simp only [Option.some.injEq, Prod.mk.injEq] at hp1
        obtain ⟨rfl, rfl⟩ := hp1
        exact absurd rfl (key j2 t2 r2 e2 h2 hp2).1
    · rw [if_neg e1] at h1
      by_cases e2 : i = j2
      · subst e2
        rw [if_pos rfl] at h2; cases h2
        rw [hpe'] at hp2
        simp only [Option.some.injEq, Prod.mk.injEq] at hp2
        obtain ⟨rfl, rfl⟩ := hp2
        exact absurd rfl (key j1 t1 r1 e1 h1 hp1).1
      · rw [if_neg e2] at h2
        obtain ⟨_, a1, ha1, hpa1⟩ := key j1 t1 r1 e1 h1 hp1
        obtain ⟨_, a2, ha2, hpa2⟩ := key j2 t2 r2 e2 h2 hp2
        exact hinv.excl j1 j2 a1 a2 q r1 r2 ha1 ha2 hpa1 hpa2
  · intro q tq r'' hq hqs
    rw [hg] at hq
    by_cases e1 : i = q
    · subst e1; rw [if_pos rfl] at hq; cases hq; rw [hst'] at hqs; cases hqs
    · rw [if_neg e1] at hq
      by_cases e2 : p = q
      · subst e2
        rw [if_pos rfl] at hq; cases hq
        simp only [St.served.injEq] at hqs
        subst hqs
        exact ⟨i, t', by rw [hg, if_pos rfl], hpe'⟩
      · rw [if_neg e2] at hq
        obtain ⟨j, tj, hj, hpj⟩ := hinv.served q tq r'' hq hqs
        have hji : i ≠ j := by
          intro e; subst e; rw [hi] at hj; cases hj; rw [htpe] at hpj; cases hpj
        by_cases e3 : p = j
        · subst e3
          rw [hp] at hj; cases hj
          exact ⟨p, { tp with st := .served r }, by rw [hg, if_neg hji, if_pos rfl], hpj⟩
        · exact ⟨j, tj, by rw [hg, if_neg hji, if_neg e3]; exact hj, hpj⟩

/-- a daemon hands the answer to `p` -/
theorem inv_reply {ths : List Thread} {i p : Nat} {t tp t' tp' : Thread} {r : Rep}
    (hinv : Inv S A ths) (hi : ths[i]? = some t) (hp : ths[p]? = some tp)
    (hpeer : t.peer = some (p, r)) (htst : t.st = .idle)
    (htok' : TOK S A (specOf S i) t') (hpe' : t'.peer = none) (hst' : t'.st = .idle)
    (htokp' : TOK S A (specOf S p) tp') (hpp : tp'.peer = tp.peer) (hlp : tp'.lvl = tp.lvl)
    (hsp : ∀ r', tp'.st ≠ .served r') :
    Inv S A ((ths.set p tp').set i t') := by
  have hg := get_set2 hi hp tp' t'
  -- a thread other than i in the new list: the old one at the same place has the same peer and level
  have hold : ∀ (j : Nat) (tj : Thread), i ≠ j → (if p = j then some tp' else ths[j]?) = some tj →
      ∃ tj0, ths[j]? = some tj0 ∧ tj0.peer = tj.peer ∧ tj0.lvl = tj.lvl := by
    intro j tj _ hj
    by_cases e2 : p = j
    · subst e2; rw [if_pos rfl] at hj; cases hj; exact ⟨tp, hp, hpp.symm, hlp.symm⟩
    · rw [if_neg e2] at hj; exact ⟨tj, hj, rfl, rfl⟩
  refine ⟨?_, by simp only [List.length_set]; exact hinv.nd, ?_, ?_, ?_⟩
  · intro j tj hj
    rw [hg] at hj
    by_cases e1 : i = j
    · subst e1; rw [if_pos rfl] at hj; cases hj; exact htok'
    · rw [if_neg e1] at hj
      by_cases e2 : p = j
      · subst e2; rw [if_pos rfl] at hj; cases hj; exact htokp'
      · rw [if_neg e2] at hj; exact hinv.tok j tj hj
  · intro j tj q r'' hj hpj
    rw [hg] at hj
    by_cases e1 : i = j
    · subst e1; rw [if_pos rfl] at hj; cases hj; rw [hpe'] at hpj; cases hpj
    · rw [if_neg e1] at hj
      obtain ⟨tj0, hj0, hpe0, hl0⟩ := hold j tj e1 hj
      obtain ⟨tq, hq, hqs, hql⟩ := hinv.srv j tj0 q r'' hj0 (by rw [hpe0]; exact hpj)
      have hqi : i ≠ q := by
        intro e; subst e; rw [hi] at hq; cases hq; rw [htst] at hqs; cases hqs
      have hqp : p ≠ q := by
        intro e; subst e
        exact e1 (hinv.excl i j t tj0 p r r'' hi hj0 hpeer (by rw [hpe0]; exact hpj))
      exact ⟨tq, by rw [hg, if_neg hqi, if_neg hqp]; exact hq, hqs, by omega⟩
  · intro j1 j2 t1 t2 q r1 r2 h1 h2 hp1 hp2
    rw [hg] at h1 h2
    by_cases e1 : i = j1
    · subst e1; rw [if_pos rfl] at h1; cases h1; rw [hpe'] at hp1; cases hp1
    · by_cases e2 : i = j2
      · subst e2; rw [if_pos rfl] at h2; cases h2; rw [hpe'] at hp2; cases hp2
      · rw [if_neg e1] at h1; rw [if_neg e2] at h2
        obtain ⟨a1, ha1, hpa1, _⟩ := hold j1 t1 e1 h1
        obtain ⟨a2, ha2, hpa2, _⟩ := hold j2 t2 e2 h2
        exact hinv.excl j1 j2 a1 a2 q r1 r2 ha1 ha2 (by rw [hpa1]; exact hp1) (by rw [hpa2]; exact hp2)
  · intro q tq r'' hq hqs
    rw [hg] at hq
    by_cases e1 : i = q
    · subst e1; rw [if_pos rfl] at hq; cases hq; rw [hst'] at hqs; cases hqs
    · rw [if_neg e1] at hq
      by_cases e2 : p = q
      · subst e2; rw [if_pos rfl] at hq; cases hq; exact absurd hqs (hsp r'')
      · rw [if_neg e2] at hq
        obtain ⟨j, tj, hj, hpj⟩ := hinv.served q tq r'' hq hqs
        have hji : i ≠ j := by
          intro e; subst e; rw [hi] at hj; cases hj; rw [hpeer] at hpj
          simp only [Option.some.injEq, Prod.mk.injEq] at hpj
          exact e2 hpj.1
        by_cases e3 : p = j
        · subst e3
          rw [hp] at hj; cases hj
          exact ⟨p, tp', by rw [hg, if_neg hji, if_pos rfl], by rw [hpp]; exact hpj⟩
        · exact ⟨j, tj, by rw [hg, if_neg hji, if_neg e3]; exact hj, hpj⟩

theorem armOK_recv {L : Nat} {ch : Chan} {rest : List Stmt} (h : armOK S A L (.act (.recv ch) :: rest) = true) :
    A.lvl ch = L ∧ 1 ≤ S.cap ch ∧
    ((S.replyOf ch = none ∧ chkL S A L TS.empty rest = some TS.empty) ∨
     (∃ r mid, S.replyOf ch = some r ∧ rest = mid ++ [.act (.sendReply r)] ∧ chkL S A L TS.empty mid = some TS.empty)) := by
  simp only [armOK, Bool.and_eq_true, beq_iff_eq, decide_eq_true_eq] at h
  obtain ⟨⟨h1, h2⟩, h3⟩ := h
  refine ⟨h1, h2, ?_⟩
  cases hr : S.replyOf ch with
  | none =>
    rw [hr] at h3
    simp only [beq_iff_eq] at h3
    exact Or.inl ⟨rfl, h3⟩
  | some r =>
    rw [hr] at h3
    simp only [Bool.and_eq_true, beq_iff_eq] at h3
    obtain ⟨ys, hys⟩ := List.getLast?_eq_some_iff.1 h3.1
    refine Or.inr ⟨r, ys, rfl, hys, ?_⟩
    have := h3.2
    rw [hys] at this
    simpa using this

/-- a daemon at its select (or at the head of `for x := range ch`) takes a message -/
theorem recvStep_inv {c c' : Config} {i p : Nat} {t : Thread} {ch : Chan} {rest : List Stmt} {arms : List (List Stmt)}
    (hinv : Inv S A c.threads) (hi : c.threads[i]? = some t) (hspec : specOf S i = some arms)
    (hmem : (.act (.recv ch) :: rest) ∈ arms) (hheld : t.held = []) (hpeer : t.peer = none) (hst : t.st = .idle)
    (hpw : t.pw = none)
    (hs : recvStep S c i t ch (rest ++ [.loop true [.sel arms]]) p = some c') : Inv S A c'.threads := by
  have htok := hinv.tok i t hi
  rw [hspec] at htok
  have harm : armOK S A t.lvl (.act (.recv ch) :: rest) = true :=
    List.all_eq_true.1 (htok.arms_ok arms rfl) _ hmem
  obtain ⟨hlv, _, hcase⟩ := armOK_recv harm
  unfold recvStep at hs
  rcases hcase with ⟨hr, hchk⟩ | ⟨r, mid, hr, hrest, hchk⟩
  · rw [hr] at hs
    dsimp only at hs
    split at hs
    · simp only [Option.some.injEq] at hs
      subst hs
      dsimp only
      rw [threads_set]
      refine inv_set hinv hi ?_ rfl rfl (fun _ => Iff.rfl)
      rw [hspec]
      refine ⟨htok.lvl_le, (by intro m hm; rw [hpw] at hm; cases hm), htok.st_ok, htok.plain_peer, htok.arms_ok, ?_⟩
      refine Or.inl ⟨rest, by simp [hpeer, replyPart, tailOf], ?_⟩
      dsimp only
      rw [hheld, hst]
      exact hchk
    · cases hs
  · rw [hr] at hs
    dsimp only at hs
    cases hp : c.threads[p]? with
    | none => rw [hp] at hs; cases hs
    | some tp =>
      rw [hp] at hs
      dsimp only at hs
      split at hs
      · rename_i hq
        simp only [Option.some.injEq] at hs
        subst hs
        simp only [threads_set]
        have hne : i ≠ p := by
          intro e; subst e; rw [hi] at hp; cases hp; rw [hst] at hq; cases hq
        refine inv_take hinv hi hp hne hq hr hpeer hst hlv.symm ?_ rfl rfl hst
        rw [hspec]
        refine ⟨htok.lvl_le, (by intro m hm; rw [hpw] at hm; cases hm), htok.st_ok, (by intro hn; cases hn),
          htok.arms_ok, ?_⟩
        refine Or.inl ⟨mid, by simp [hrest, replyPart, tailOf], ?_⟩
        dsimp only
        rw [hheld, hst]
        exact hchk
      · cases hs

theorem stepT_inv_sel {c c' : Config} {i n p : Nat} {t : Thread} {arms : List (List Stmt)} {k : List Stmt}
    (hinv : Inv S A c.threads) (hi : c.threads[i]? = some t) (hp : t.prog = .sel arms :: k)
    (hs : stepT S c i n p t = some c') : Inv S A c'.threads := by
  have htok := hinv.tok i t hi
  rcases tok_head htok hp with ⟨_, σ', _, hc, _⟩ | ⟨_, _, h'⟩ | ⟨arms', hspec, hsel, hk, hheld, hpeer, hst⟩
  · exact absurd hc chkS_sel
  · rcases not_tail h' with ⟨_, _, _, h1, _⟩ | ⟨_, _, _, h1, _⟩ <;> cases h1
  · cases hsel
    subst hk
    have hpw := pw_none_of_head htok hp (by simp)
    simp only [stepT, hp] at hs
    split at hs
    · rename_i ch rest harm
      exact recvStep_inv hinv hi hspec (List.mem_of_getElem? harm) hheld hpeer hst hpw hs
    · cases hs

/-- a daemon comes back to the head of its `for { select }` -/
theorem stepT_inv_tail {c c' : Config} {i n p : Nat} {t : Thread} {arms : List (List Stmt)} {k : List Stmt}
    (hinv : Inv S A c.threads) (hi : c.threads[i]? = some t) (hp : t.prog = .loop true [.sel arms] :: k)
    (hs : stepT S c i n p t = some c') : Inv S A c'.threads := by
  have htok := hinv.tok i t hi
  rcases tok_head htok hp with ⟨_, σ', _, hc, _⟩ | ⟨hheld, hst, h'⟩ | ⟨_, _, h1, _⟩
  · obtain ⟨_, _, hb⟩ := chkS_loop hc
    obtain ⟨_, hsel, _⟩ := chkL_cons_some hb
    exact absurd hsel chkS_sel
  · rcases not_tail h' with ⟨_, _, _, h1, _⟩ | ⟨arms', hpeer, hspec, h1, hk⟩
    · cases h1
    · cases h1
      subst hk
      simp only [stepT, hp] at hs
      by_cases hn : n = 0
      · rw [if_pos hn] at hs; simp at hs
      · rw [if_neg hn] at hs
        simp only [Option.some.injEq] at hs
        subst hs
        rw [threads_set]
        refine inv_set hinv hi ?_ rfl rfl (fun _ => Iff.rfl)
        refine ⟨htok.lvl_le, pw_vac htok hp (by simp) _, htok.st_ok, htok.plain_peer, htok.arms_ok, ?_⟩
        exact Or.inr ⟨arms, hspec, rfl, hheld, hpeer, hst⟩
  · cases h1

/-- a daemon answers the request it is serving -/
theorem stepT_inv_sendReply {c c' : Config} {i n p : Nat} {t : Thread} {r : Rep} {k : List Stmt}
    (hinv : Inv S A c.threads) (hi : c.threads[i]? = some t) (hp : t.prog = .act (.sendReply r) :: k)
    (hs : stepT S c i n p t = some c') : Inv S A c'.threads := by
  have htok := hinv.tok i t hi
  rcases tok_head htok hp with ⟨_, σ', _, hc, _⟩ | ⟨hheld, hst, h'⟩ | ⟨_, _, h1, _⟩
  · rw [chkS_act] at hc; simp [chkA] at hc
  · rcases not_tail h' with ⟨q, r0, hpeer, h1, hk⟩ | ⟨_, _, _, h1, _⟩
    · cases h1
      obtain ⟨tp, hq, hqs, hql⟩ := hinv.srv i t q r hi hpeer
      have hne : i ≠ q := by
        intro e; subst e; rw [hi] at hq; cases hq; omega
      have htokq := hinv.tok q tp hq
      -- the requester stands at its receive
      have hshape : ∃ kq, tp.prog = .act (.recvReply r) :: kq ∧ tp.held = [] ∧
          ∃ X, kq = X ++ (replyPart tp.peer ++ tailOf (specOf S q)) ∧
            chkL S A tp.lvl ⟨[], none⟩ X = some TS.empty := by
        rcases htokq.shape with ⟨X, hX, hcx⟩ | ⟨_, _, _, _, _, hidle⟩
        · rw [hqs] at hcx
          simp only [pendOf] at hcx
          obtain ⟨k', rfl, hh, hk'⟩ := chkL_pend hcx
          exact ⟨k' ++ (replyPart tp.peer ++ tailOf (specOf S q)), by rw [hX]; rfl, hh, k', rfl, hk'⟩
        · rw [hqs] at hidle; cases hidle
      obtain ⟨kq, hprogq, hheldq, X, hkq, hchkq⟩ := hshape
      have htok' : TOK S A (specOf S i) { t with prog := k, peer := none } := by
        refine ⟨htok.lvl_le, pw_vac htok hp (by simp) _, htok.st_ok, fun _ => rfl, htok.arms_ok, ?_⟩
        refine Or.inl ⟨[], by simp [hk, replyPart], ?_⟩
        dsimp only
        rw [hheld, hst]; rfl
      have hpwq : tp.pw = none := pw_none_of_head htokq hprogq (by simp)
      simp only [stepT, hp, hpeer, if_true, hq, hqs] at hs
      split at hs
      · -- rendezvous
        rw [hprogq] at hs
        dsimp only at hs
        simp only [if_true, Option.some.injEq] at hs
        subst hs
        simp only [threads_set]
        refine inv_reply hinv hi hq hpeer hst htok' rfl hst ?_ rfl rfl (by intro r' h; cases h)
        refine ⟨htokq.lvl_le, (by intro m hm; rw [hpwq] at hm; cases hm), (by intro ch h; cases h),
          htokq.plain_peer, htokq.arms_ok, ?_⟩
        exact Or.inl ⟨X, hkq, by dsimp only; rw [hheldq]; exact hchkq⟩
      · -- the answer is buffered
        simp only [Option.some.injEq] at hs
        subst hs
        simp only [threads_set]
        refine inv_reply hinv hi hq hpeer hst htok' rfl hst ?_ rfl rfl (by intro r' h; cases h)
        refine ⟨htokq.lvl_le, htokq.pw_ok, (by intro ch h; cases h), htokq.plain_peer, htokq.arms_ok, ?_⟩
        rcases htokq.shape with ⟨X', hX', hcx'⟩ | ⟨_, _, _, _, _, hidle⟩
        · refine Or.inl ⟨X', hX', ?_⟩
          rw [hqs] at hcx'
          simpa only [pendOf] using hcx'
        · rw [hqs] at hidle; cases hidle
    · cases h1
  · cases h1

/-- **every step preserves the invariant** -/
theorem step_inv (hwf : wfSys S A = true) {c c' : Config} {i n p : Nat} (hinv : Inv S A c.threads)
    (hs : step S c i n p = some c') : Inv S A c'.threads := by
  unfold step at hs
  cases hi : c.threads[i]? with
  | none => rw [hi] at hs; cases hs
  | some t =>
    rw [hi] at hs
    dsimp only at hs
    cases hp : t.prog with
    | nil => simp [stepT, hp] at hs
    | cons s k =>
      cases s with
      | call f => exact stepT_inv_call hwf hinv hi hp hs
      | go f => exact stepT_inv_go hwf hinv hi hp hs
      | alt bs => exact stepT_inv_alt hinv hi hp hs
      | sel arms => exact stepT_inv_sel hinv hi hp hs
      | loop inf b =>
        by_cases hd : ∃ arms, Stmt.loop inf b = .loop true [.sel arms]
        · obtain ⟨arms, hd⟩ := hd
          rw [hd] at hp
          exact stepT_inv_tail hinv hi hp hs
        · exact stepT_inv_loop hinv hi hp (fun arms e => hd ⟨arms, e⟩) hs
      | act a =>
        cases a with
        | sendReply r => exact stepT_inv_sendReply hinv hi hp hs
        | recv ch =>
          have htok := hinv.tok i t hi
          rcases tok_head htok hp with ⟨_, σ', _, hc, _⟩ | ⟨_, _, h'⟩ | ⟨_, _, h1, _⟩
          · rw [chkS_act] at hc; simp [chkA] at hc
          · rcases not_tail h' with ⟨_, _, _, h1, _⟩ | ⟨_, _, _, h1, _⟩ <;> cases h1
          · cases h1
        | lock m => exact stepT_inv_act hinv hi hp (by simp) (by simp) hs
        | unlock m => exact stepT_inv_act hinv hi hp (by simp) (by simp) hs
        | rlock m => exact stepT_inv_act hinv hi hp (by simp) (by simp) hs
        | runlock m => exact stepT_inv_act hinv hi hp (by simp) (by simp) hs
        | wait m => exact stepT_inv_act hinv hi hp (by simp) (by simp) hs
        | signal m => exact stepT_inv_act hinv hi hp (by simp) (by simp) hs
        | send ch => exact stepT_inv_act hinv hi hp (by simp) (by simp) hs
        | recvReply r => exact stepT_inv_act hinv hi hp (by simp) (by simp) hs
        | sendFresh cap => exact stepT_inv_act hinv hi hp (by simp) (by simp) hs

theorem reach_inv (hwf : wfSys S A = true) {c₀ c : Config} (h0 : Inv S A c₀.threads) (hr : Reach S c₀ c) :
    Inv S A c.threads := by
  induction hr with
  | refl => exact h0
  | step i n p _ hs ih => exact step_inv hwf ih hs

end BytomModel.SyncSkel
