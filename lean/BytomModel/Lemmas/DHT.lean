/-
Helper lemmas for C34: per-bucket invariants of the routing-table model and their
preservation by the bucket-level bodies of add / stuff / delete / deleteReplace / bump.
The property theorems are in `Props/C34.lean`.
-/
import BytomModel.Model.DHT
import Mathlib.Data.List.Basic

namespace BytomModel.Lemmas.DHT
open BytomModel.Model.DHT

/-! ### list facts -/

theorem filter_ne_self (l : List Nat) (n : Nat) (h : n ∉ l) : l.filter (· ≠ n) = l := by
  rw [List.filter_eq_self]
  intro x hx
  have : x ≠ n := fun e => h (e ▸ hx)
  simpa using this

theorem filter_ne_length_nodup (l : List Nat) (n : Nat) (h : l.Nodup) :
    l.length ≤ (l.filter (· ≠ n)).length + 1 := by
  induction l with
  | nil => simp
  | cons a rest ih =>
    rw [List.nodup_cons] at h
    rw [List.filter_cons]
    by_cases ha : a = n
    · subst ha
      rw [filter_ne_self rest a h.1]
      simp
    · have := ih h.2
      have hd : decide (a ≠ n) = true := by simpa using ha
      rw [if_pos hd, List.length_cons, List.length_cons]
      omega

theorem filter_ne_length_of_not_mem (l : List Nat) (n : Nat) (h : n ∉ l) : (l.filter (· ≠ n)).length = l.length := by
  rw [filter_ne_self l n h]

theorem mem_filter_ne {l : List Nat} {n x : Nat} : x ∈ l.filter (· ≠ n) ↔ x ∈ l ∧ x ≠ n := by
  simp [List.mem_filter]

theorem not_mem_dropLast_of_getLast {l : List Nat} {a : Nat} (h : l.getLast? = some a) (hn : l.Nodup) : a ∉ l.dropLast := by
  have e := List.dropLast_append_getLast? a (by rw [Option.mem_def]; exact h)
  rw [← e, List.nodup_append] at hn
  intro hm
  exact hn.2.2 a hm a (by simp) rfl

theorem mem_of_mem_dropLast' {l : List Nat} {a : Nat} (h : a ∈ l.dropLast) : a ∈ l :=
  (List.dropLast_sublist l).subset h

/-! ### per-bucket invariants -/

/-- the part of the property that holds unconditionally, for bucket `i` -/
structure BInv (dist : Nat → Nat) (me i : Nat) (b : Bucket) : Prop where
  len : b.entries.length ≤ bucketSize
  eDist : ∀ n ∈ b.entries, dist n = i
  eSelf : me ∉ b.entries
  rLen : b.replacements.length ≤ bucketSize
  rDist : ∀ n ∈ b.replacements, dist n = i
  rSelf : me ∉ b.replacements

/-- entries pairwise distinct (with the facts about `replacements` needed to carry it along) -/
structure Distinct (b : Bucket) : Prop where
  e : b.entries.Nodup
  r : b.replacements.Nodup
  disj : ∀ n ∈ b.entries, n ∉ b.replacements

/-! #### bump -/

theorem bump_binv {dist self i} {b : Bucket} (n : Nat) (h : BInv dist self i b) : BInv dist self i (bump b n).1 := by
  unfold bump
  split
  · rename_i hm
    refine ⟨?_, ?_, ?_, h.rLen, h.rDist, h.rSelf⟩
    · simp [List.length_erase_of_mem hm]
      have := h.len
      have : 0 < b.entries.length := List.length_pos_of_mem hm
      omega
    · intro x hx; simp at hx
      rcases hx with rfl | hx
      · exact h.eDist _ hm
      · exact h.eDist _ (List.mem_of_mem_erase hx)
    · intro hs; simp at hs
      rcases hs with rfl | hs
      · exact h.eSelf hm
      · exact h.eSelf (List.mem_of_mem_erase hs)
  · exact h

theorem bump_len (b : Bucket) (n : Nat) : (bump b n).1.entries.length = b.entries.length := by
  unfold bump
  split
  · rename_i hm
    have : 0 < b.entries.length := List.length_pos_of_mem hm
    simp [List.length_erase_of_mem hm]; omega
  · rfl

theorem bump_repl (b : Bucket) (n : Nat) : (bump b n).1.replacements = b.replacements := by
  unfold bump; split <;> rfl

theorem bump_distinct {b : Bucket} (n : Nat) (h : Distinct b) : Distinct (bump b n).1 := by
  unfold bump
  split
  · rename_i hm
    refine ⟨?_, h.r, ?_⟩
    · simp only [List.nodup_cons]
      refine ⟨?_, h.e.erase n⟩
      rw [h.e.mem_erase_iff]; simp
    · intro x hx; simp at hx
      rcases hx with rfl | hx
      · exact h.disj _ hm
      · exact h.disj _ (List.mem_of_mem_erase hx)
  · exact h

/-! #### add -/

theorem addB_binv {dist self i} {b : Bucket} {n : Nat} (h : BInv dist self i b) (hd : dist n = i) (hs : n ≠ self) :
    BInv dist self i (addB b n).1 := by
  unfold addB
  split
  · exact bump_binv n h
  · split
    · rename_i hlt
      have hfl := List.length_filter_le (· ≠ n) b.replacements
      have := h.rLen
      refine ⟨?_, ?_, ?_, by simp only; omega, fun x hx => h.rDist _ (mem_filter_ne.mp hx).1,
        fun hx => h.rSelf (mem_filter_ne.mp hx).1⟩
      · simp only [List.length_cons]; unfold bucketSize at *; omega
      · intro x hx; simp only [List.mem_cons] at hx
        rcases hx with rfl | hx
        · exact hd
        · exact h.eDist _ hx
      · intro hm; simp only [List.mem_cons] at hm
        rcases hm with rfl | hm
        · exact hs rfl
        · exact h.eSelf hm
    · have hsub : ∀ x ∈ (b.replacements.filter (· ≠ n)) ++ [n], dist x = i ∧ x ≠ self := by
        intro x hx; simp at hx
        rcases hx with ⟨hx, _⟩ | rfl
        · exact ⟨h.rDist _ hx, fun e => h.rSelf (e ▸ hx)⟩
        · exact ⟨hd, hs⟩
      have hlen : ((b.replacements.filter (· ≠ n)) ++ [n]).length ≤ bucketSize + 1 := by
        have := List.length_filter_le (· ≠ n) b.replacements
        have := h.rLen
        simp only [List.length_append, List.length_cons, List.length_nil]; omega
      refine ⟨h.len, h.eDist, h.eSelf, ?_, ?_, ?_⟩
      · simp only
        split
        · simp only [List.length_tail]; omega
        · omega
      · intro x hx; simp only at hx
        split at hx
        · exact (hsub x (List.mem_of_mem_tail hx)).1
        · exact (hsub x hx).1
      · intro hx; simp only at hx
        split at hx
        · exact (hsub _ (List.mem_of_mem_tail hx)).2 rfl
        · exact (hsub _ hx).2 rfl

theorem addB_len (b : Bucket) (n : Nat) : ((addB b n).1.entries.length : Int) = b.entries.length + (addB b n).2.1 := by
  unfold addB
  split
  · simp [bump_len]
  · split
    · simp
    · simp

theorem addB_distinct {b : Bucket} {n : Nat} (h : Distinct b) : Distinct (addB b n).1 := by
  unfold addB
  split
  · exact bump_distinct n h
  · rename_i hne
    split
    · rename_i hlt
      refine ⟨?_, h.r.sublist List.filter_sublist, ?_⟩
      · simp only [List.nodup_cons]; exact ⟨hne, h.e⟩
      · intro x hx hr; simp only [List.mem_cons] at hx
        have hr' := mem_filter_ne.mp hr
        rcases hx with rfl | hx
        · exact hr'.2 rfl
        · exact h.disj _ hx hr'.1
    · have hnd : ((b.replacements.filter (· ≠ n)) ++ [n]).Nodup := by
        rw [List.nodup_append]
        refine ⟨h.r.sublist List.filter_sublist, by simp, ?_⟩
        intro a ha c hc; simp at hc; subst hc
        exact (mem_filter_ne.mp ha).2
      have hmem : ∀ x ∈ (b.replacements.filter (· ≠ n)) ++ [n], x ∈ b.replacements ∨ x = n := by
        intro x hx; simp at hx
        rcases hx with ⟨hx, _⟩ | rfl
        · exact Or.inl hx
        · exact Or.inr rfl
      refine ⟨h.e, ?_, ?_⟩
      · simp only
        split
        · exact hnd.sublist (List.tail_sublist _)
        · exact hnd
      · intro x hx hr; simp only at hr
        have : x ∈ (b.replacements.filter (· ≠ n)) ++ [n] := by
          split at hr
          · exact List.mem_of_mem_tail hr
          · exact hr
        rcases hmem x this with h1 | rfl
        · exact h.disj x hx h1
        · exact hne hx

/-! #### stuff -/

theorem stuffB_binv {dist self i} {b : Bucket} {n : Nat} (h : BInv dist self i b) (hd : dist n = i) (hs : n ≠ self) :
    BInv dist self i (stuffB b n).1 := by
  unfold stuffB
  split
  · exact h
  · split
    · rename_i hlt
      have hfl := List.length_filter_le (· ≠ n) b.replacements
      have := h.rLen
      refine ⟨?_, ?_, ?_, by simp only; omega, fun x hx => h.rDist _ (mem_filter_ne.mp hx).1,
        fun hx => h.rSelf (mem_filter_ne.mp hx).1⟩
      · simp only [List.length_append, List.length_cons, List.length_nil]; unfold bucketSize at *; omega
      · intro x hx; simp only [List.mem_append, List.mem_singleton] at hx
        rcases hx with hx | rfl
        · exact h.eDist _ hx
        · exact hd
      · intro hm; simp only [List.mem_append, List.mem_singleton] at hm
        rcases hm with hm | rfl
        · exact h.eSelf hm
        · exact hs rfl
    · exact h

theorem stuffB_len (b : Bucket) (n : Nat) : ((stuffB b n).1.entries.length : Int) = b.entries.length + (stuffB b n).2 := by
  unfold stuffB
  split
  · simp
  · split <;> simp

theorem stuffB_distinct {b : Bucket} {n : Nat} (h : Distinct b) : Distinct (stuffB b n).1 := by
  unfold stuffB
  split
  · exact h
  · rename_i hne
    split
    · rename_i hlt
      refine ⟨?_, h.r.sublist List.filter_sublist, ?_⟩
      · rw [List.nodup_append]
        refine ⟨h.e, by simp, ?_⟩
        intro a ha c hc; simp at hc; subst hc
        intro e; subst e; exact hne ha
      · intro x hx hr; simp only [List.mem_append, List.mem_singleton] at hx
        have hr' := mem_filter_ne.mp hr
        rcases hx with hx | rfl
        · exact h.disj _ hx hr'.1
        · exact hr'.2 rfl
    · exact h

/-! #### delete -/

theorem deleteB_binv {dist self i} {b : Bucket} (n : Nat) (h : BInv dist self i b) : BInv dist self i (deleteB b n).1 := by
  unfold deleteB
  split
  · rename_i hm
    refine ⟨?_, ?_, ?_, h.rLen, h.rDist, h.rSelf⟩
    · have := h.len; simp [List.length_erase_of_mem hm]; omega
    · intro x hx; exact h.eDist _ (List.mem_of_mem_erase hx)
    · intro hs; exact h.eSelf (List.mem_of_mem_erase hs)
  · refine ⟨h.len, h.eDist, h.eSelf, ?_, ?_, ?_⟩
    · have := List.length_filter_le (· ≠ n) b.replacements
      have := h.rLen
      simp only [delRepl]; omega
    · intro x hx; exact h.rDist _ (mem_filter_ne.mp hx).1
    · intro hs; exact h.rSelf (mem_filter_ne.mp hs).1

theorem deleteB_len (b : Bucket) (n : Nat) : ((deleteB b n).1.entries.length : Int) = b.entries.length + (deleteB b n).2 := by
  unfold deleteB
  split
  · rename_i hm
    have : 0 < b.entries.length := List.length_pos_of_mem hm
    simp [List.length_erase_of_mem hm]; omega
  · simp [delRepl]

theorem deleteB_distinct {b : Bucket} (n : Nat) (h : Distinct b) : Distinct (deleteB b n).1 := by
  unfold deleteB
  split
  · exact ⟨h.e.erase n, h.r, fun x hx => h.disj _ (List.mem_of_mem_erase hx)⟩
  · exact ⟨h.e, h.r.sublist List.filter_sublist, fun x hx hr => h.disj x hx (mem_filter_ne.mp hr).1⟩

/-! #### deleteReplace -/

theorem deleteReplaceB_binv {dist self i} {b : Bucket} (n : Nat) (h : BInv dist self i b) :
    BInv dist self i (deleteReplaceB b n).1 := by
  have he : ∀ x ∈ b.entries.filter (· ≠ n), x ∈ b.entries := fun x hx => (mem_filter_ne.mp hx).1
  have hr : ∀ x ∈ b.replacements.filter (· ≠ n), x ∈ b.replacements := fun x hx => (mem_filter_ne.mp hx).1
  have hel := List.length_filter_le (· ≠ n) b.entries
  have hrl := List.length_filter_le (· ≠ n) b.replacements
  have := h.len
  have := h.rLen
  have plain : BInv dist self i { entries := b.entries.filter (· ≠ n), replacements := b.replacements.filter (· ≠ n) } :=
    ⟨by simp only; omega, fun x hx => h.eDist _ (he x hx), fun hs => h.eSelf (he _ hs),
     by simp only; omega, fun x hx => h.rDist _ (hr x hx), fun hs => h.rSelf (hr _ hs)⟩
  unfold deleteReplaceB
  simp only
  split
  · rename_i last hl
    have hlm : last ∈ b.replacements := hr _ (List.mem_of_getLast? hl)
    split
    · rename_i hlt
      refine ⟨?_, ?_, ?_, ?_, ?_, ?_⟩
      · simp only [List.length_cons]; unfold bucketSize at *; omega
      · intro x hx; simp at hx
        rcases hx with rfl | hx
        · exact h.rDist _ hlm
        · exact h.eDist _ hx.1
      · intro hs; simp at hs
        rcases hs with rfl | hs
        · exact h.rSelf hlm
        · exact h.eSelf hs.1
      · simp only [List.length_dropLast]; omega
      · intro x hx; exact h.rDist _ (hr x (mem_of_mem_dropLast' hx))
      · intro hs; exact h.rSelf (hr _ (mem_of_mem_dropLast' hs))
    · exact plain
  · exact plain

theorem deleteReplaceB_len (b : Bucket) (n : Nat) :
    ((deleteReplaceB b n).1.entries.length : Int) = b.entries.length + (deleteReplaceB b n).2 := by
  have hel := List.length_filter_le (· ≠ n) b.entries
  unfold deleteReplaceB
  simp only
  split
  · split
    · simp only [List.length_cons]; omega
    · simp only; omega
  · simp only; omega

theorem deleteReplaceB_distinct {b : Bucket} (n : Nat) (h : Distinct b) : Distinct (deleteReplaceB b n).1 := by
  have hnr : (b.replacements.filter (· ≠ n)).Nodup := h.r.sublist List.filter_sublist
  have hne : (b.entries.filter (· ≠ n)).Nodup := h.e.sublist List.filter_sublist
  have plain : Distinct { entries := b.entries.filter (· ≠ n), replacements := b.replacements.filter (· ≠ n) } :=
    ⟨hne, hnr, fun x hx hr => h.disj x (mem_filter_ne.mp hx).1 (mem_filter_ne.mp hr).1⟩
  unfold deleteReplaceB
  simp only
  split
  · rename_i last hl
    have hlm : last ∈ b.replacements := (mem_filter_ne.mp (List.mem_of_getLast? hl)).1
    split
    · refine ⟨?_, hnr.sublist (List.dropLast_sublist _), ?_⟩
      · simp only [List.nodup_cons]
        refine ⟨?_, hne⟩
        intro hm
        exact h.disj _ (mem_filter_ne.mp hm).1 hlm
      · intro x hx hr; simp at hx
        rcases hx with rfl | hx
        · exact not_mem_dropLast_of_getLast hl hnr hr
        · exact h.disj x hx.1 (mem_filter_ne.mp (mem_of_mem_dropLast' hr)).1
    · exact plain
  · exact plain

/-! ### table level -/

theorem total_put_ge (f : Nat → Bucket) (i : Nat) (b : Bucket) :
    ∀ k, k ≤ i → total (fun j => if j = i then b else f j) k = total f k := by
  intro k
  induction k with
  | zero => intro _; rfl
  | succ k ih =>
    intro hk
    have : k ≠ i := by omega
    simp [total, this, ih (by omega)]

theorem total_put_lt (f : Nat → Bucket) (i : Nat) (b : Bucket) :
    ∀ k, i < k → total (fun j => if j = i then b else f j) k + (f i).entries.length = total f k + b.entries.length := by
  intro k
  induction k with
  | zero => intro h; omega
  | succ k ih =>
    intro hk
    by_cases e : k = i
    · subst e
      simp [total, total_put_ge f k b k (Nat.le_refl _)]; omega
    · have := ih (by omega)
      simp [total, e]; omega

/-- the unconditional part of the property, for the whole table -/
structure Inv (dist : Nat → Nat) (t : Table) : Prop where
  bucket : ∀ i, BInv dist t.self i (t.buckets i)
  count : t.count = ((total t.buckets nBuckets : Nat) : Int)

theorem inv_put {dist : Nat → Nat} {t : Table} (h : Inv dist t) (i : Nat) (hi : i < nBuckets) (b : Bucket) (δ : Int)
    (hb : BInv dist t.self i b) (hlen : (b.entries.length : Int) = (t.buckets i).entries.length + δ) :
    Inv dist (t.put i b δ) := by
  constructor
  · intro j
    show BInv dist t.self j (if j = i then b else t.buckets j)
    split
    · rename_i e; subst e; exact hb
    · exact h.bucket j
  · show t.count + δ = ((total (fun j => if j = i then b else t.buckets j) nBuckets : Nat) : Int)
    have := total_put_lt t.buckets i b nBuckets hi
    have := h.count
    omega

theorem forall_put {P : Bucket → Prop} {t : Table} (h : ∀ j, P (t.buckets j)) (i : Nat) (b : Bucket) (δ : Int) (hb : P b) :
    ∀ j, P ((t.put i b δ).buckets j) := by
  intro j
  show P (if j = i then b else t.buckets j)
  split
  · exact hb
  · exact h j

end BytomModel.Lemmas.DHT
