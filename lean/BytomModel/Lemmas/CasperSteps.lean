/-
Refinement of the node model's event functions (`processBlock`, `authVerification`) into a small
transition system `Micro` whose steps carry, as explicit guards, what the code has checked at the
moment it mutates the casper state (tree, persisted checkpoint records, stored headers, posted
messages).  `event_refines`: every non-restart event is a finite sequence of `Micro` steps.
The invariants of C16 / C17 / C18 are then proved step by step on `Micro`.

Block universe (`Universe`): the hash of a block determines its parent and height, and a block
that passes `ValidateBlock` has height = parent height + 1 (the model's `saveBlock` is the path of
blocks that pass validation).  `Vp order src tgt` : "a VALID signature of validator `order` for the
link src → tgt has been presented to the node" (by a verification message or inside a block header).
-/
import BytomModel.Lemmas.CasperTree

namespace BytomModel.Node

structure Universe where
  g : Nat
  parent : Nat → Nat
  height : Nat → Nat
  height_g : height g = 0
  height_step : ∀ id, id ≠ g → height id = height (parent id) + 1

/-- the header agrees with the block universe -/
def HdrU (U : Universe) (b : Header) : Prop :=
  b.id ≠ U.g ∧ b.parent = U.parent b.id ∧ b.height = U.height b.id

/-- … and every slot flagged valid in its sup links is a valid signature that was presented -/
def HdrOK (U : Universe) (Vp : Nat → Nat → Nat → Prop) (b : Header) : Prop :=
  HdrU U b ∧ ∀ l ∈ b.sup, ∀ sg ∈ l.sigs, sg.valid = true → Vp sg.slot l.src b.id

/-- `verifySpanHeight` alone -/
def spanBad (order srcH tgtH : Nat) (c : Ckpt) : Bool :=
  c.height != tgtH &&
    c.sup.any (fun l => hasSlot l order &&
      ((c.height < tgtH && l.srcHeight > srcH) || (c.height > tgtH && l.srcHeight < srcH)))

def spanOK (tree : Tree) (order srcH tgtH : Nat) : Bool := !(tree.flatten.any (spanBad order srcH tgtH))

theorem spanOK_iff {tree : Tree} {o srcH tgtH : Nat} :
    spanOK tree o srcH tgtH = true ↔ ∀ c ∈ tree.flatten, spanBad o srcH tgtH c = false := by
  unfold spanOK
  simp only [Bool.not_eq_eq_eq_not, Bool.not_true, List.any_eq_false]
  constructor
  · intro h c hc; simpa using h c hc
  · intro h c hc; simp [h c hc]

theorem verify_true {s : State} {tree : Tree} {o src srcH tgt tgtH : Nat} {ok : Bool}
    (h : s.verifyVerification tree o src srcH tgt tgtH ok = true) :
    srcH % s.cfg.epoch = 0 ∧ tgtH % s.cfg.epoch = 0 ∧ srcH < tgtH ∧ ok = true ∧ spanOK tree o srcH tgtH = true := by
  unfold State.verifyVerification at h
  simp only at h
  split at h
  · cases h
  · rename_i h1
    split at h
    · cases h
    · rename_i h2
      split at h
      · cases h
      · rename_i h3
        split at h
        · cases h
        · simp only [Bool.or_eq_true, bne_iff_ne, ne_eq, not_or, Decidable.not_not] at h1
          refine ⟨h1.1, h1.2, by omega, by simpa using h3, ?_⟩
          unfold spanOK spanBad
          exact h

/-- the five fields the casper layer is about -/
def CoreEq (s s' : State) : Prop :=
  s'.cfg = s.cfg ∧ s'.tree = s.tree ∧ s'.ckpts = s.ckpts ∧ s'.headers = s.headers ∧ s'.posted = s.posted

inductive Micro (U : Universe) (Vp : Nat → Nat → Nat → Prop) : State → State → Prop
  /-- anything that leaves cfg, tree, records, headers and posted messages alone -/
  | frame {s s'} : CoreEq s s' → Micro U Vp s s'
  /-- `Checkpoint.Increase` on the node whose hash is the block's parent -/
  | grow {s} (b : Header) : HdrU U b → b.height % s.cfg.epoch ≠ 1 →
      Micro U Vp s { s with tree := s.tree.update (byHash b.parent) (fun c => increase s.cfg.epoch c b) }
  /-- `newChild` + `Increase` for the first block of an epoch -/
  | child {s} (b : Header) (pn : Tree) : HdrU U b → b.height % s.cfg.epoch = 1 →
      s.tree.find (byHash b.parent) = some pn →
      Micro U Vp s { s with tree := s.tree.addChild (byHash b.parent) (increase s.cfg.epoch (newCkpt pn.ckpt) b) }
  /-- `Checkpoint.AddVerification`: one signature slot enters the tree -/
  | addSig {s} (tgt order src srcH : Nat) (tn : Tree) (shd : Header) :
      s.header src = some shd → shd.height = srcH →
      s.tree.find (byHash tgt) = some tn → order < s.cfg.nVal →
      srcH % s.cfg.epoch = 0 → tn.ckpt.height % s.cfg.epoch = 0 → srcH < tn.ckpt.height →
      spanOK s.tree order srcH tn.ckpt.height = true →
      (Vp order src tgt ∨ (order, src, tgt) ∈ s.posted) →
      Micro U Vp s { s with tree := s.tree.update (byHash tgt) (fun c => { c with sup := addSupLink c.sup src srcH { slot := order, valid := true } }) }
  /-- `setJustified` -/
  | justify {s} (tgt src : Nat) (tn : Tree) (source : CkptRec) (hd : Header) :
      s.tree.find (byHash tgt) = some tn → tn.ckpt.status = .unjustified →
      isMajority ((findLink tn.ckpt.sup src).getD default) s.cfg.nVal = true →
      source ∈ s.ckpts → source.hash = src → source.status = .justified →
      s.header src = some hd → source.height = hd.height →
      Micro U Vp s { s with tree := s.tree.update (byHash tgt) (fun c => { c with status := .justified }) }
  /-- `setFinalized`: the tree is re-rooted at the source of the link that justified its direct child -/
  | reroot {s} (tgt : Nat) (tn : Tree) (source : CkptRec) (hd : Header) (c : Ckpt) (cs : List Tree) :
      s.tree.find (byHash tgt) = some tn → tn.ckpt.status = .justified → tn.ckpt.parentHash = source.hash →
      isMajority ((findLink tn.ckpt.sup source.hash).getD default) s.cfg.nVal = true →
      source ∈ s.ckpts → source.status = .justified →
      s.header source.hash = some hd → source.height = hd.height → hd.height % s.cfg.epoch = 0 →
      s.tree.find (byHash source.hash) = some (.node c cs) →
      Micro U Vp s { s with tree := .node { c with status := .finalized } cs }
  | saveTarget {s} (tgt : Nat) (tn : Tree) : s.tree.find (byHash tgt) = some tn →
      Micro U Vp s { s with ckpts := saveCkpt s.ckpts tn.ckpt.toRec }
  | saveSource {s} (r : CkptRec) : (r.status = .justified ∨ r.status = .finalized) →
      Micro U Vp s { s with ckpts := saveCkpt s.ckpts r }
  | storeHeader {s} (h : Header) : HdrU U h →
      Micro U Vp s { s with headers := h :: s.headers.filter (fun x => x.id != h.id) }
  /-- `saveVerificationToHeader` -/
  | voteHeader {s} (tgt order src srcH : Nat) (ok : Bool) (th : Header) : s.header tgt = some th →
      Micro U Vp s { s with headers := { th with sup := addSupLinkH th.sup src srcH { slot := order, valid := ok } } :: s.headers.filter (fun h => h.id != tgt) }
  | post {s} (v : Nat × Nat × Nat) : (Vp v.1 v.2.1 v.2.2 ∨ some v.1 = s.cfg.me) →
      Micro U Vp s { s with posted := s.posted ++ [v] }

inductive MicroStar (U : Universe) (Vp : Nat → Nat → Nat → Prop) : State → State → Prop
  | refl (s) : MicroStar U Vp s s
  | tail {s s1 s2} : MicroStar U Vp s s1 → Micro U Vp s1 s2 → MicroStar U Vp s s2

theorem MicroStar.trans {U Vp} {a b c : State} (h1 : MicroStar U Vp a b) (h2 : MicroStar U Vp b c) :
    MicroStar U Vp a c := by
  induction h2 with
  | refl => exact h1
  | tail _ hm ih => exact .tail ih hm

theorem MicroStar.single {U Vp} {a b : State} (h : Micro U Vp a b) : MicroStar U Vp a b :=
  .tail (.refl a) h

/-- an invariant of the micro steps is an invariant of their sequences -/
theorem MicroStar.invariant {U Vp} {I : State → Prop}
    (hstep : ∀ s s', I s → Micro U Vp s s' → I s') {a b : State} (h : MicroStar U Vp a b) (ha : I a) : I b := by
  induction h with
  | refl => exact ha
  | tail _ hm ih => exact hstep _ _ ih hm

/-! ### the pieces -/

/-- the state with tree and records replaced: the functions of the model thread these two -/
abbrev State.wt (s : State) (t : Tree) (c : List CkptRec) : State := { s with tree := t, ckpts := c }

theorem lookupHeader_mem {hs : List Header} {id : Nat} {h : Header} (e : lookupHeader hs id = some h) :
    h ∈ hs ∧ h.id = id := by
  unfold lookupHeader at e
  exact ⟨List.mem_of_find?_eq_some e, by simpa using List.find?_some e⟩

section
variable (U : Universe) (Vp : Nat → Nat → Nat → Prop)

theorem ensureNode_micro (s : State) (hH : ∀ h ∈ s.headers, h.id ≠ U.g → HdrU U h)
    (hg : ∀ h ∈ s.headers, h.id = U.g → h.height = 0) :
    ∀ (fuel : Nat) (tree : Tree) (hash : Nat) (tree' : Tree), s.ensureNode fuel tree hash = some tree' →
      MicroStar U Vp { s with tree := tree } { s with tree := tree' } := by
  intro fuel
  induction fuel with
  | zero => intro tree hash tree' h; simp [State.ensureNode] at h
  | succ fuel ih =>
    intro tree hash tree' h
    unfold State.ensureNode at h
    split at h
    · cases h; exact .refl _
    · split at h
      · cases h
      · rename_i b hb
        split at h
        · cases h
        · rename_i hmod
          split at h
          · cases h
          · rename_i tree1 h1
            have hb' := lookupHeader_mem hb
            have hbU : HdrU U b := by
              apply hH b hb'.1
              intro hbg
              have := hg b hb'.1 hbg
              simp [this] at hmod
            have ihm := ih tree b.parent tree1 h1
            simp only [bne_self_eq_false, Bool.false_eq_true, if_false] at h
            split at h
            · rename_i hm1
              split at h
              · cases h
              · rename_i p hp
                cases h
                refine .tail ihm ?_
                exact Micro.child (s := { s with tree := tree1 }) b p hbU (by simpa using hm1) hp
            · rename_i hm1
              cases h
              refine .tail ihm ?_
              exact Micro.grow (s := { s with tree := tree1 }) b hbU (by simpa using hm1)


/-- every node's height is the height of its hash in the block universe -/
def HU (t : Tree) : Prop := ∀ c ∈ t.flatten, c.height = U.height c.hash

theorem Micro.preserves_HU {s s' : State} (h : HU U s.tree) (m : Micro U Vp s s') : HU U s'.tree := by
  cases m with
  | frame e => rw [e.2.1]; exact h
  | grow b hb _ =>
    intro x hx
    rcases Tree.mem_update hx with hx | ⟨r, _, rfl⟩
    · exact h x hx
    · simp [increase, hb.2.2]
  | child b pn hb _ _ =>
    intro x hx
    rcases Tree.mem_addChild _ _ _ _ hx with hx | rfl
    · exact h x hx
    · simp [increase, hb.2.2]
  | addSig tgt o src srcH tn shd _ _ hf =>
    intro x hx
    rcases Tree.mem_update hx with hx | ⟨r, hr, rfl⟩
    · exact h x hx
    · exact h r.ckpt (Tree.find_mem hr)
  | justify tgt src tn source hd hf =>
    intro x hx
    rcases Tree.mem_update hx with hx | ⟨r, hr, rfl⟩
    · exact h x hx
    · exact h r.ckpt (Tree.find_mem hr)
  | reroot tgt tn source hd c cs _ _ _ _ _ _ _ _ _ hf =>
    intro x hx
    have hsub := Tree.find_sub _ _ _ hf
    simp only [Tree.flatten, List.mem_cons] at hx
    rcases hx with rfl | hx
    · exact h c (hsub c (by simp [Tree.flatten]))
    · exact h x (hsub x (by simp [Tree.flatten, hx]))
  | saveTarget _ _ _ => exact h
  | saveSource _ _ => exact h
  | storeHeader _ _ => exact h
  | voteHeader _ _ _ _ _ _ _ => exact h
  | post _ _ => exact h

theorem MicroStar.preserves_HU {a b : State} (m : MicroStar U Vp a b) (h : HU U a.tree) : HU U b.tree :=
  MicroStar.invariant (I := fun s => HU U s.tree) (fun _ _ hs hm => Micro.preserves_HU U Vp hs hm) m h

theorem find_update_none {p : Ckpt → Bool} {f : Ckpt → Ckpt} {t : Tree} (h : t.find p = none) :
    (t.update p f).find p = none := by
  have h1 : (t.update p f).flatten.find? p = none := by
    rw [Tree.update_of_find_none h]; exact Tree.find_none_flatten h
  cases h2 : (t.update p f).find p with
  | none => rfl
  | some r => rw [Tree.find_some_ckpt h2] at h1; cases h1

theorem addVerification_micro (s : State) (t : Tree) (c : List CkptRec) (tgt o src srcH : Nat) (tn : Tree)
    (t' : Tree) (srcs : List CkptRec)
    (h : s.addVerification t c tgt o src srcH = some (t', srcs))
    (hfind : t.find (byHash tgt) = some tn) (ho : o < s.cfg.nVal)
    (h1 : srcH % s.cfg.epoch = 0) (h2 : tn.ckpt.height % s.cfg.epoch = 0) (h3 : srcH < tn.ckpt.height)
    (hspan : spanOK t o srcH tn.ckpt.height = true)
    (hv : Vp o src tgt ∨ (o, src, tgt) ∈ s.posted)
    (hsrcH : ∀ hd, s.header src = some hd → hd.height = srcH) :
    MicroStar U Vp (s.wt t c) (s.wt t' c) ∧ (∀ r ∈ srcs, r.status = .justified ∨ r.status = .finalized) := by
  unfold State.addVerification at h
  split at h
  · cases h
  · rename_i source hsource
    -- the source record
    have hsrc : ∃ hd, s.header src = some hd ∧ source ∈ c ∧ source.hash = src ∧ source.height = hd.height := by
      split at hsource
      · cases hsource
      · rename_i hd hhd
        have hm := List.mem_of_find?_eq_some hsource
        have hp := List.find?_some hsource
        simp only [Bool.and_eq_true, beq_iff_eq] at hp
        exact ⟨hd, hhd, hm, hp.2, hp.1⟩
    obtain ⟨hd, hhd, hsm, hsh, hsht⟩ := hsrc
    simp only at h
    -- step 1: the signature
    have m1 : Micro U Vp (s.wt t c) (s.wt (t.update (byHash tgt)
        (fun c => { c with sup := addSupLink c.sup src srcH { slot := o, valid := true } })) c) :=
      Micro.addSig (s := s.wt t c) tgt o src srcH tn hd hhd (hsrcH hd hhd) hfind ho h1 h2 h3 hspan hv
    obtain ⟨tn1, hfind1, htn1⟩ := Tree.find_update_ckpt (f := fun c => { c with sup := addSupLink c.sup src srcH { slot := o, valid := true } })
      hfind (by have := Tree.find_pred hfind; simpa [byHash] using this)
    rw [hfind1] at h
    simp only at h
    split at h
    · cases h
      exact ⟨.single m1, by simp⟩
    · rename_i hcond
      simp only [Bool.or_eq_true, bne_iff_ne, ne_eq, Bool.not_eq_true', not_or, Decidable.not_not,
        Bool.not_eq_false] at hcond
      obtain ⟨⟨hst, hmaj⟩, hsj⟩ := hcond
      have m2 : Micro U Vp (s.wt (t.update (byHash tgt)
          (fun c => { c with sup := addSupLink c.sup src srcH { slot := o, valid := true } })) c)
          (s.wt ((t.update (byHash tgt)
          (fun c => { c with sup := addSupLink c.sup src srcH { slot := o, valid := true } })).update (byHash tgt)
            (fun c => { c with status := .justified })) c) :=
        Micro.justify (s := s.wt _ c) tgt src tn1 source hd hfind1 hst hmaj hsm hsh hsj hhd hsht
      have m12 := MicroStar.tail (.single m1) m2
      split at h
      · rename_i hpar
        have hpar' : tn1.ckpt.parentHash = source.hash := by simpa using hpar
        split at h
        · cases h
          exact ⟨m12, by simp⟩
        · rename_i newRoot hnr
          cases h
          refine ⟨?_, by simp⟩
          cases newRoot with
          | node rc rcs =>
            obtain ⟨tn2, hfind2, htn2⟩ := Tree.find_update_ckpt (f := fun c => { c with status := .justified })
              hfind1 (by have := Tree.find_pred hfind1; simpa [byHash] using this)
            refine .tail m12 ?_
            refine Micro.reroot (s := s.wt _ c) tgt tn2 source hd rc rcs hfind2 (by rw [htn2]) (by rw [htn2]; exact hpar')
              (by rw [htn2]; simpa [hsh] using hmaj) hsm hsj (by rw [hsh]; exact hhd) hsht
              (by rw [hsrcH hd hhd]; exact h1) hnr
      · cases h
        exact ⟨m12, by simp [hsj]⟩


/-- `t'` is `t` up to: nodes dropped, statuses changed, sup links of nodes with hash `tgt` changed -/
def Shape (tgt : Nat) (t t' : Tree) : Prop :=
  ∀ x ∈ t'.flatten, ∃ y ∈ t.flatten, x.hash = y.hash ∧ x.height = y.height ∧ (x.sup = y.sup ∨ y.hash = tgt)

theorem Shape.refl (tgt : Nat) (t : Tree) : Shape tgt t t := fun x hx => ⟨x, hx, rfl, rfl, Or.inl rfl⟩

theorem Shape.trans {tgt : Nat} {a b c : Tree} (h1 : Shape tgt a b) (h2 : Shape tgt b c) : Shape tgt a c := by
  intro x hx
  obtain ⟨y, hy, e1, e2, e3⟩ := h2 x hx
  obtain ⟨z, hz, f1, f2, f3⟩ := h1 y hy
  refine ⟨z, hz, e1.trans f1, e2.trans f2, ?_⟩
  rcases e3 with e3 | e3
  · rcases f3 with f3 | f3
    · exact Or.inl (e3.trans f3)
    · exact Or.inr f3
  · exact Or.inr (f1 ▸ e3)

theorem Shape.update_sup {tgt : Nat} (t : Tree) (g : List SupLink → List SupLink) :
    Shape tgt t (t.update (byHash tgt) (fun c => { c with sup := g c.sup })) := by
  intro x hx
  rcases Tree.mem_update hx with hx | ⟨r, hr, rfl⟩
  · exact ⟨x, hx, rfl, rfl, Or.inl rfl⟩
  · refine ⟨r.ckpt, Tree.find_mem hr, rfl, rfl, Or.inr ?_⟩
    have := Tree.find_pred hr
    simpa [byHash] using this

theorem Shape.update_status {tgt : Nat} (t : Tree) (p : Ckpt → Bool) (st : Status) :
    Shape tgt t (t.update p (fun c => { c with status := st })) := by
  intro x hx
  rcases Tree.mem_update hx with hx | ⟨r, hr, rfl⟩
  · exact ⟨x, hx, rfl, rfl, Or.inl rfl⟩
  · exact ⟨r.ckpt, Tree.find_mem hr, rfl, rfl, Or.inl rfl⟩

theorem Shape.reroot {tgt : Nat} {t : Tree} {p : Ckpt → Bool} {c : Ckpt} {cs : List Tree} (st : Status)
    (hf : t.find p = some (.node c cs)) : Shape tgt t (.node { c with status := st } cs) := by
  intro x hx
  have hsub := Tree.find_sub _ _ _ hf
  simp only [Tree.flatten, List.mem_cons] at hx
  rcases hx with rfl | hx
  · exact ⟨c, hsub c (by simp [Tree.flatten]), rfl, rfl, Or.inl rfl⟩
  · exact ⟨x, hsub x (by simp [Tree.flatten, hx]), rfl, rfl, Or.inl rfl⟩

theorem addVerification_shape (s : State) (t : Tree) (c : List CkptRec) (tgt o src srcH : Nat)
    (t' : Tree) (srcs : List CkptRec)
    (h : s.addVerification t c tgt o src srcH = some (t', srcs)) : Shape tgt t t' := by
  unfold State.addVerification at h
  split at h
  · cases h
  · simp only at h
    have s1 := Shape.update_sup (tgt := tgt) t (fun sup => addSupLink sup src srcH { slot := o, valid := true })
    split at h
    · cases h
    · split at h
      · cases h; exact s1
      · have s2 := s1.trans (Shape.update_status (tgt := tgt) _ (byHash tgt) .justified)
        split at h
        · split at h
          · cases h; exact s2
          · rename_i newRoot hnr
            cases h
            cases newRoot with
            | node rc rcs => exact s2.trans (Shape.reroot .finalized hnr)
        · cases h; exact s2

theorem spanOK_of_shape {tgt H : Nat} {t t' : Tree} (hs : Shape tgt t t')
    (hH : ∀ x ∈ t.flatten, x.hash = tgt → x.height = H) {o sH : Nat}
    (h : spanOK t o sH H = true) : spanOK t' o sH H = true := by
  rw [spanOK_iff] at h ⊢
  intro x hx
  obtain ⟨y, hy, e1, e2, e3⟩ := hs x hx
  have hy' := h y hy
  rcases e3 with e3 | e3
  · unfold spanBad at hy' ⊢; rw [e2, e3]; exact hy'
  · have : x.height = H := by rw [e2]; exact hH y hy e3
    unfold spanBad; simp [this]


theorem saveSources_micro (s : State) (t : Tree) : ∀ (srcs : List CkptRec) (c : List CkptRec),
    (∀ r ∈ srcs, r.status = .justified ∨ r.status = .finalized) →
    MicroStar U Vp (s.wt t c) (s.wt t (srcs.foldl saveCkpt c))
  | [], c, _ => .refl _
  | r :: rs, c, h => by
    have m : Micro U Vp (s.wt t c) (s.wt t (saveCkpt c r)) :=
      Micro.saveSource (s := s.wt t c) r (h r List.mem_cons_self)
    exact (MicroStar.single m).trans (saveSources_micro s t rs _ (fun r hr => h r (List.mem_cons_of_mem _ hr)))

theorem addVerification_some_find {s : State} {t : Tree} {c : List CkptRec} {tgt o src srcH : Nat}
    {res : Tree × List CkptRec} (h : s.addVerification t c tgt o src srcH = some res) :
    ∃ tn, t.find (byHash tgt) = some tn := by
  cases hf : t.find (byHash tgt) with
  | some tn => exact ⟨tn, rfl⟩
  | none =>
    exfalso
    unfold State.addVerification at h
    split at h
    · cases h
    · simp only at h
      rw [find_update_none hf] at h
      cases h

theorem addAll_micro (s : State) (tgt : Nat) (l : SupLink) (source : CkptRec) (H : Nat)
    (hsrcH : ∀ hd, s.header l.src = some hd → hd.height = source.height)
    (hUH : U.height tgt = H) :
    ∀ (os : List Nat) (t : Tree) (c a : List CkptRec) (t' : Tree) (c' a' : List CkptRec),
      HU U t →
      (∀ o ∈ os, o < s.cfg.nVal ∧ source.height % s.cfg.epoch = 0 ∧ H % s.cfg.epoch = 0 ∧ source.height < H ∧
        spanOK t o source.height H = true ∧ (Vp o l.src tgt ∨ (o, l.src, tgt) ∈ s.posted)) →
      State.applySupLinks.addAll s tgt l source os t c a = some (t', c', a') →
      MicroStar U Vp (s.wt t c) (s.wt t' c') ∧
        (∀ r ∈ a', r ∈ a ∨ r.status = .justified ∨ r.status = .finalized) := by
  intro os
  induction os with
  | nil =>
    intro t c a t' c' a' _ _ h
    simp only [State.applySupLinks.addAll, Option.some.injEq, Prod.mk.injEq] at h
    obtain ⟨rfl, rfl, rfl⟩ := h
    exact ⟨.refl _, fun r hr => Or.inl hr⟩
  | cons o os ih =>
    intro t c a t' c' a' hU hos h
    unfold State.applySupLinks.addAll at h
    split at h
    · cases h
    · rename_i t1 srcs hav
      obtain ⟨tn, hfind⟩ := addVerification_some_find hav
      have htgt : tn.ckpt.hash = tgt := by have := Tree.find_pred hfind; simpa [byHash] using this
      have hH : tn.ckpt.height = H := by rw [hU _ (Tree.find_mem hfind), htgt, hUH]
      obtain ⟨ho1, h1, h2, h3, ho2, ho3⟩ := hos o List.mem_cons_self
      obtain ⟨m1, hs1⟩ := addVerification_micro U Vp s t c tgt o l.src source.height tn t1 srcs hav hfind ho1 h1
        (by rw [hH]; exact h2) (by rw [hH]; exact h3) (by rw [hH]; exact ho2) ho3 hsrcH
      have m2 := saveSources_micro U Vp s t1 srcs c hs1
      have hU1 : HU U t1 := MicroStar.preserves_HU U Vp m1 hU
      have hshape := addVerification_shape s t c tgt o l.src source.height t1 srcs hav
      have hHt : ∀ x ∈ t.flatten, x.hash = tgt → x.height = H := by
        intro x hx hxt; rw [hU x hx, hxt, hUH]
      obtain ⟨m3, ha⟩ := ih t1 (srcs.foldl saveCkpt c) (a ++ srcs) t' c' a' hU1
        (fun o' ho' => by
          obtain ⟨p1, q1, q2, q3, p2, p3⟩ := hos o' (List.mem_cons_of_mem _ ho')
          exact ⟨p1, q1, q2, q3, spanOK_of_shape hshape hHt p2, p3⟩) h
      refine ⟨(m1.trans m2).trans m3, fun r hr => ?_⟩
      rcases ha r hr with ha | ha
      · rcases List.mem_append.mp ha with ha | ha
        · exact Or.inl ha
        · exact Or.inr (hs1 r ha)
      · exact Or.inr ha


theorem applySupLinks_micro (s : State) (tgt : Nat) :
    ∀ (ls : List SupLink) (t : Tree) (c a : List CkptRec) (t' : Tree) (c' a' : List CkptRec) (ok : Bool),
      HU U t →
      (∀ l ∈ ls, ∀ sg ∈ l.sigs, sg.valid = true → Vp sg.slot l.src tgt ∨ (sg.slot, l.src, tgt) ∈ s.posted) →
      s.applySupLinks tgt ls t c a = (t', c', a', ok) →
      MicroStar U Vp (s.wt t c) (s.wt t' c') ∧
        (∀ r ∈ a', r ∈ a ∨ r.status = .justified ∨ r.status = .finalized) := by
  intro ls
  induction ls with
  | nil =>
    intro t c a t' c' a' ok _ _ h
    simp only [State.applySupLinks, Prod.mk.injEq] at h
    obtain ⟨rfl, rfl, rfl, _⟩ := h
    exact ⟨.refl _, fun r hr => Or.inl hr⟩
  | cons l ls ih =>
    intro t c a t' c' a' ok hU hV h
    have hV' : ∀ l ∈ ls, ∀ sg ∈ l.sigs, sg.valid = true → Vp sg.slot l.src tgt ∨ (sg.slot, l.src, tgt) ∈ s.posted :=
      fun l hl => hV l (List.mem_cons_of_mem _ hl)
    unfold State.applySupLinks at h
    split at h
    · exact ih t c a t' c' a' ok hU hV' h
    · rename_i source hsource
      have hsrcH : ∀ hd, s.header l.src = some hd → hd.height = source.height := by
        intro hd hhd
        rw [hhd] at hsource
        have hp := List.find?_some hsource
        simp only [Bool.and_eq_true, beq_iff_eq] at hp
        exact hp.1.symm
      split at h
      · exact ih t c a t' c' a' ok hU hV' h
      · split at h
        · simp only [Prod.mk.injEq] at h
          obtain ⟨rfl, rfl, rfl, _⟩ := h
          exact ⟨.refl _, fun r hr => Or.inl hr⟩
        · rename_i tn hfind
          simp only at h
          split at h
          · simp only [Prod.mk.injEq] at h
            obtain ⟨rfl, rfl, rfl, _⟩ := h
            exact ⟨.refl _, fun r hr => Or.inl hr⟩
          · rename_i t1 c1 a1 hall
            have htgt : tn.ckpt.hash = tgt := by have := Tree.find_pred hfind; simpa [byHash] using this
            have hUH : U.height tgt = tn.ckpt.height := by rw [hU _ (Tree.find_mem hfind), htgt]
            obtain ⟨m1, ha1⟩ := addAll_micro U Vp s tgt l source tn.ckpt.height hsrcH hUH _ t c a t1 c1 a1 hU
              (fun o ho => by
                rw [List.mem_mergeSort] at ho
                obtain ⟨sg, hsg, rfl⟩ := List.mem_map.mp ho
                obtain ⟨hsg1, hsg2⟩ := List.mem_filter.mp hsg
                simp only [Bool.and_eq_true, decide_eq_true_eq] at hsg2
                obtain ⟨q1, q2, q3, q4, q5⟩ := verify_true hsg2.2
                exact ⟨hsg2.1, q1, q2, q3, q5, hV l List.mem_cons_self sg hsg1 q4⟩) hall
            have hU1 : HU U t1 := MicroStar.preserves_HU U Vp m1 hU
            obtain ⟨m2, ha2⟩ := ih t1 c1 a1 t' c' a' ok hU1 hV' h
            refine ⟨m1.trans m2, fun r hr => ?_⟩
            rcases ha2 r hr with h | h
            · exact ha1 r h
            · exact Or.inr h

end

/-! ### `applyBlock`, cut in two at the point where the tree has a node for the block -/

/-- `applyMyVerification`: the block's sup links with the node's own vote, and the posted messages -/
def ownVote (s : State) (b : Header) (tree1 : Tree) (target : Ckpt) : List SupLink × List (Nat × Nat × Nat) :=
  match s.cfg.me with
  | none => (b.sup, s.posted)
  | some me =>
    if isRoot tree1 b.id then (b.sup, s.posted) else
    match lastJustifiedAncestor tree1 b.id with
    | none => (b.sup, s.posted)
    | some src =>
      if me ≥ s.cfg.nVal then (b.sup, s.posted)
      else if target.sup.any (fun l => hasSlot l me) then (b.sup, s.posted)
      else if !(({ s with tree := tree1 } : State).verifyVerification tree1 me src.hash src.height b.id b.height true) then (b.sup, s.posted)
      else (addSupLinkH b.sup src.hash src.height { slot := me, valid := true },
            s.posted ++ [(me, src.hash, b.id)])

def applyRest (s : State) (b : Header) (tree1 : Tree) : State × Bool × List SupLink :=
  let s1 := { s with tree := tree1 }
  match tree1.find (byHash b.id) with
  | none => (s1, false, b.sup)
  | some tn =>
    let target := tn.ckpt
    if target.status == .growing then (s1, true, b.sup)
    else
      let (sup1, posted1) := ownVote s b tree1 target
      let s2 := { s1 with posted := posted1 }
      let (tree2, ckpts2, aff, ok) := s2.applySupLinks b.id sup1 tree1 s2.ckpts []
      if !ok then
        ({ s2 with tree := tree2, ckpts := ckpts2 }, false, sup1)
      else
        let ckpts3 := saveAffected tree2 ckpts2 b.id aff
        ({ s2 with tree := tree2, ckpts := ckpts3 }, true, sup1)

def applyTree1 (s : State) (b : Header) (tree0 : Tree) : Tree :=
  if b.height % s.cfg.epoch == 1 then
    match tree0.find (byHash b.parent) with
    | some p => tree0.addChild (byHash b.parent) (increase s.cfg.epoch (newCkpt p.ckpt) b)
    | none => tree0
  else tree0.update (byHash b.parent) (fun c => increase s.cfg.epoch c b)

theorem applyBlock_eq (s : State) (b : Header) : s.applyBlock b =
    match s.tree.find (byHash b.id) with
    | some tn => (s, true, mergeSup b.sup tn.ckpt.sup)
    | none =>
      match s.ensureNode s.fuel s.tree b.parent with
      | none => (s, false, b.sup)
      | some tree0 => applyRest s b (applyTree1 s b tree0) := by
  rfl

theorem ownVote_cases (s : State) (b : Header) (tree1 : Tree) (target : Ckpt) :
    ownVote s b tree1 target = (b.sup, s.posted) ∨
    ∃ me src, s.cfg.me = some me ∧ me < s.cfg.nVal ∧ lastJustifiedAncestor tree1 b.id = some src ∧
      ({ s with tree := tree1 } : State).verifyVerification tree1 me src.hash src.height b.id b.height true = true ∧
      ownVote s b tree1 target = (addSupLinkH b.sup src.hash src.height { slot := me, valid := true },
        s.posted ++ [(me, src.hash, b.id)]) := by
  unfold ownVote
  split
  · exact Or.inl rfl
  · rename_i me hme
    split
    · exact Or.inl rfl
    · split
      · exact Or.inl rfl
      · rename_i src hsrc
        split
        · exact Or.inl rfl
        · rename_i hlt
          split
          · exact Or.inl rfl
          · split
            · exact Or.inl rfl
            · rename_i hv
              exact Or.inr ⟨me, src, hme, by omega, hsrc, by simpa using hv, rfl⟩

section
variable (U : Universe) (Vp : Nat → Nat → Nat → Prop)

theorem saveAffected_micro (s : State) (t : Tree) (c : List CkptRec) (tgt : Nat) (aff : List CkptRec)
    (ha : ∀ r ∈ aff, r.status = .justified ∨ r.status = .finalized) :
    MicroStar U Vp (s.wt t c) (s.wt t (saveAffected t c tgt aff)) := by
  unfold saveAffected
  split
  · rename_i tn hfind
    have m : Micro U Vp (s.wt t c) (s.wt t (saveCkpt c tn.ckpt.toRec)) := Micro.saveTarget (s := s.wt t c) tgt tn hfind
    exact (MicroStar.single m).trans (saveSources_micro U Vp s t aff _ ha)
  · exact saveSources_micro U Vp s t aff _ ha

theorem applyRest_micro (s : State) (b : Header) (tree1 : Tree) (hU : HU U tree1) (hb : HdrOK U Vp b) :
    MicroStar U Vp { s with tree := tree1 } (applyRest s b tree1).1 := by
  unfold applyRest
  simp only
  split
  · exact .refl _
  · rename_i tn hfind
    split
    · exact .refl _
    · -- the own vote
      have key : ∀ (sup1 : List SupLink) (posted1 : List (Nat × Nat × Nat)),
          (∀ l ∈ sup1, ∀ sg ∈ l.sigs, sg.valid = true → Vp sg.slot l.src b.id ∨ (sg.slot, l.src, b.id) ∈ posted1) →
          MicroStar U Vp { s with tree := tree1 } { s with tree := tree1, posted := posted1 } →
          MicroStar U Vp { s with tree := tree1 }
            (match ({ s with tree := tree1, posted := posted1 } : State).applySupLinks b.id sup1 tree1 s.ckpts [] with
              | (tree2, ckpts2, aff, ok) =>
                if !ok then
                  (({ s with tree := tree2, posted := posted1, ckpts := ckpts2 } : State), false, sup1)
                else
                  (({ s with tree := tree2, posted := posted1, ckpts := saveAffected tree2 ckpts2 b.id aff } : State), true, sup1)).1 := by
        intro sup1 posted1 hV m0
        generalize hres : ({ s with tree := tree1, posted := posted1 } : State).applySupLinks b.id sup1 tree1 s.ckpts [] = res
        obtain ⟨tree2, ckpts2, aff, ok⟩ := res
        obtain ⟨m1, ha⟩ := applySupLinks_micro U Vp ({ s with tree := tree1, posted := posted1 } : State) b.id sup1 tree1 s.ckpts []
          tree2 ckpts2 aff ok hU hV hres
        simp only
        split
        · exact m0.trans m1
        · have ha' : ∀ r ∈ aff, r.status = .justified ∨ r.status = .finalized := by
            intro r hr
            rcases ha r hr with h | h
            · cases h
            · exact h
          have m2 := saveAffected_micro U Vp ({ s with tree := tree1, posted := posted1 } : State) tree2 ckpts2 b.id aff ha'
          exact (m0.trans m1).trans m2
      rcases ownVote_cases s b tree1 tn.ckpt with h | ⟨me, src, hme, _, _, _, h⟩
      · rw [h]
        exact key b.sup s.posted (fun l hl sg hsg hv => Or.inl (hb.2 l hl sg hsg hv)) (.refl _)
      · rw [h]
        refine key _ _ ?_ ?_
        · intro l hl sg hsg hv
          rcases mem_addSupLinkH hl with hl | ⟨hls, _, hsigs⟩
          · exact Or.inl (hb.2 l hl sg hsg hv)
          · rcases hsigs sg hsg with rfl | ⟨l0, hl0, hl0s, _, hsg0⟩
            · right; simp [hls]
            · left; rw [hls, ← hl0s]; exact hb.2 l0 hl0 sg hsg0 hv
        · exact .single (Micro.post (s := { s with tree := tree1 }) (me, src.hash, b.id) (Or.inr hme.symm))


/-- what the decomposition needs to know about the state it starts from -/
def Pre (s : State) : Prop :=
  (∀ h ∈ s.headers, h.id ≠ U.g → HdrU U h) ∧ (∀ h ∈ s.headers, h.id = U.g → h.height = 0) ∧
  (∀ h ∈ s.orphans, HdrOK U Vp h) ∧ HU U s.tree

theorem applyTree1_micro (s : State) (b : Header) (tree0 : Tree) (hb : HdrU U b) :
    MicroStar U Vp { s with tree := tree0 } { s with tree := applyTree1 s b tree0 } := by
  unfold applyTree1
  split
  · rename_i h1
    split
    · rename_i p hp
      exact .single (Micro.child (s := { s with tree := tree0 }) b p hb (by simpa using h1) hp)
    · exact .refl _
  · rename_i h1
    exact .single (Micro.grow (s := { s with tree := tree0 }) b hb (by simpa using h1))

theorem applyBlock_micro (s : State) (b : Header) (hp : Pre U Vp s) (hb : HdrOK U Vp b) :
    MicroStar U Vp s (s.applyBlock b).1 := by
  rw [applyBlock_eq]
  split
  · exact .refl _
  · split
    · exact .refl _
    · rename_i tree0 hens
      have m0 : MicroStar U Vp s { s with tree := tree0 } :=
        ensureNode_micro U Vp s hp.1 hp.2.1 s.fuel s.tree b.parent tree0 hens
      have m1 := applyTree1_micro U Vp s b tree0 hb.1
      have hU1 : HU U (applyTree1 s b tree0) := MicroStar.preserves_HU U Vp (m0.trans m1) hp.2.2.2
      exact (m0.trans m1).trans (applyRest_micro U Vp s b _ hU1 hb)

theorem applyBlock_frame (s : State) (b : Header) :
    (s.applyBlock b).1.headers = s.headers ∧ (s.applyBlock b).1.orphans = s.orphans ∧
    (s.applyBlock b).1.cfg = s.cfg := by
  rw [applyBlock_eq]
  split
  · exact ⟨rfl, rfl, rfl⟩
  · split
    · exact ⟨rfl, rfl, rfl⟩
    · unfold applyRest
      simp only
      split
      · exact ⟨rfl, rfl, rfl⟩
      · split
        · exact ⟨rfl, rfl, rfl⟩
        · split <;> exact ⟨rfl, rfl, rfl⟩

theorem orphanDelete_core (s : State) (id : Nat) : CoreEq s (s.orphanDelete id) := by
  unfold State.orphanDelete
  split
  · exact ⟨rfl, rfl, rfl, rfl, rfl⟩
  · simp only
    split
    · exact ⟨rfl, rfl, rfl, rfl, rfl⟩
    · split <;> exact ⟨rfl, rfl, rfl, rfl, rfl⟩

theorem orphanDelete_orphans (s : State) (id : Nat) : ∀ h ∈ (s.orphanDelete id).orphans, h ∈ s.orphans := by
  unfold State.orphanDelete
  split
  · intro h hh; exact hh
  · simp only
    split
    · intro h hh; exact (List.mem_filter.mp hh).1
    · split <;> (intro h hh; exact (List.mem_filter.mp hh).1)

/-- `store.SaveBlock` -/
def storeHdr (s1 : State) (b : Header) (sup : List SupLink) : State :=
  { s1 with headers := { b with sup := sup } :: s1.headers.filter (fun h => h.id != b.id), storeOrder := if s1.storeOrder.contains b.id then s1.storeOrder else s1.storeOrder ++ [b.id] }

theorem storeHdr_micro (s1 : State) (b : Header) (sup : List SupLink) (hb : HdrU U b) :
    MicroStar U Vp s1 (storeHdr s1 b sup) := by
  have hh : HdrU U { b with sup := sup } := hb
  have m1 : Micro U Vp s1 { s1 with headers := { b with sup := sup } :: s1.headers.filter (fun h => h.id != b.id) } :=
    Micro.storeHeader (s := s1) { b with sup := sup } hh
  exact (MicroStar.single m1).tail (Micro.frame ⟨rfl, rfl, rfl, rfl, rfl⟩)

theorem saveBlock_micro (s : State) (b : Header) (hp : Pre U Vp s) (hb : HdrOK U Vp b) :
    MicroStar U Vp s (s.saveBlock b).1 ∧ Pre U Vp (s.saveBlock b).1 := by
  unfold State.saveBlock
  split
  · exact ⟨.refl _, hp⟩
  · split
    · exact ⟨.refl _, hp⟩
    · split
      · exact ⟨.refl _, hp⟩
      · have m0 := applyBlock_micro U Vp s b hp hb
        obtain ⟨f1, f2, _⟩ := applyBlock_frame s b
        generalize s.applyBlock b = res at m0 f1 f2
        obtain ⟨s1, ok, sup⟩ := res
        simp only at m0 f1 f2 ⊢
        have hU1 : HU U s1.tree := MicroStar.preserves_HU U Vp m0 hp.2.2.2
        split
        · refine ⟨m0, ?_, ?_, ?_, hU1⟩
          · intro h hh; exact hp.1 h (f1 ▸ hh)
          · intro h hh; exact hp.2.1 h (f1 ▸ hh)
          · intro h hh; exact hp.2.2.1 h (f2 ▸ hh)
        · show MicroStar U Vp s ((storeHdr s1 b sup).orphanDelete b.id) ∧ Pre U Vp ((storeHdr s1 b sup).orphanDelete b.id)
          have m1 := storeHdr_micro U Vp s1 b sup hb.1
          have hc := orphanDelete_core (storeHdr s1 b sup) b.id
          have m3 := Micro.frame (U := U) (Vp := Vp) hc
          have hmem : ∀ h ∈ ((storeHdr s1 b sup).orphanDelete b.id).headers,
              h = { b with sup := sup } ∨ h ∈ s.headers := by
            intro h hh'
            rw [hc.2.2.2.1] at hh'
            rcases List.mem_cons.mp hh' with rfl | hm
            · exact Or.inl rfl
            · exact Or.inr (by rw [← f1]; exact (List.mem_filter.mp hm).1)
          refine ⟨(m0.trans m1).tail m3, ?_, ?_, ?_, ?_⟩
          · intro h hh' hg
            rcases hmem h hh' with rfl | hm
            · exact hb.1
            · exact hp.1 h hm hg
          · intro h hh' hg
            rcases hmem h hh' with rfl | hm
            · exact absurd hg hb.1.1
            · exact hp.2.1 h hm hg
          · intro h hh'
            have := orphanDelete_orphans _ _ h hh'
            exact hp.2.2.1 h (by rw [← f2]; exact this)
          · rw [hc.2.1]; exact hU1

theorem Pre.orphanDelete {s : State} (hp : Pre U Vp s) (id : Nat) : Pre U Vp (s.orphanDelete id) := by
  have hc := orphanDelete_core s id
  refine ⟨?_, ?_, ?_, ?_⟩
  · intro h hh; exact hp.1 h (hc.2.2.2.1 ▸ hh)
  · intro h hh; exact hp.2.1 h (hc.2.2.2.1 ▸ hh)
  · intro h hh; exact hp.2.2.1 h (orphanDelete_orphans s id h hh)
  · rw [hc.2.1]; exact hp.2.2.2

theorem saveSubBlock_micro : ∀ (fuel : Nat) (s : State) (id : Nat), Pre U Vp s →
    MicroStar U Vp s (State.saveSubBlock fuel s id) ∧ Pre U Vp (State.saveSubBlock fuel s id) := by
  intro fuel
  induction fuel with
  | zero => intro s id hp; exact ⟨.refl _, hp⟩
  | succ fuel ih =>
    intro s id hp
    unfold State.saveSubBlock
    split
    · exact ⟨.refl _, hp⟩
    · rename_i waiting _
      -- the fold over the waiting list
      have key : ∀ (ws : List Nat) (st : State), Pre U Vp st →
          MicroStar U Vp st (ws.foldl (fun st o =>
            match lookupHeader st.orphans o with
            | none => st
            | some ob =>
              let (st1, ok) := st.saveBlock ob
              if !ok then st1.orphanDelete o else State.saveSubBlock fuel st1 o) st) ∧
          Pre U Vp (ws.foldl (fun st o =>
            match lookupHeader st.orphans o with
            | none => st
            | some ob =>
              let (st1, ok) := st.saveBlock ob
              if !ok then st1.orphanDelete o else State.saveSubBlock fuel st1 o) st) := by
        intro ws
        induction ws with
        | nil => intro st hst; exact ⟨.refl _, hst⟩
        | cons o ws ihw =>
          intro st hst
          simp only [List.foldl_cons]
          have step : MicroStar U Vp st (match lookupHeader st.orphans o with
              | none => st
              | some ob =>
                let (st1, ok) := st.saveBlock ob
                if !ok then st1.orphanDelete o else State.saveSubBlock fuel st1 o) ∧
              Pre U Vp (match lookupHeader st.orphans o with
              | none => st
              | some ob =>
                let (st1, ok) := st.saveBlock ob
                if !ok then st1.orphanDelete o else State.saveSubBlock fuel st1 o) := by
            split
            · exact ⟨.refl _, hst⟩
            · rename_i ob hob
              have hobOK := hst.2.2.1 ob (lookupHeader_mem hob).1
              obtain ⟨m1, p1⟩ := saveBlock_micro U Vp st ob hst hobOK
              generalize st.saveBlock ob = res at m1 p1
              obtain ⟨st1, ok⟩ := res
              simp only at m1 p1 ⊢
              split
              · exact ⟨m1.tail (Micro.frame (orphanDelete_core st1 o)), Pre.orphanDelete U Vp p1 o⟩
              · obtain ⟨m2, p2⟩ := ih st1 o p1
                exact ⟨m1.trans m2, p2⟩
          obtain ⟨m1, p1⟩ := step
          obtain ⟨m2, p2⟩ := ihw _ p1
          exact ⟨m1.trans m2, p2⟩
      exact key waiting s hp

theorem tryReorganize_core (s : State) (h : Nat) : CoreEq s (s.tryReorganize h).1 := by
  unfold State.tryReorganize
  split
  · exact ⟨rfl, rfl, rfl, rfl, rfl⟩
  · split
    · split <;> exact ⟨rfl, rfl, rfl, rfl, rfl⟩
    · exact ⟨rfl, rfl, rfl, rfl, rfl⟩

theorem tryReorganize_orphans (s : State) (h : Nat) : (s.tryReorganize h).1.orphans = s.orphans := by
  unfold State.tryReorganize
  split
  · rfl
  · split
    · split <;> rfl
    · rfl

theorem Pre.of_core {s s' : State} (hp : Pre U Vp s) (hc : CoreEq s s') (ho : s'.orphans = s.orphans) : Pre U Vp s' := by
  obtain ⟨_, e2, _, e4, _⟩ := hc
  refine ⟨?_, ?_, ?_, ?_⟩
  · intro h hh; exact hp.1 h (e4 ▸ hh)
  · intro h hh; exact hp.2.1 h (e4 ▸ hh)
  · intro h hh; exact hp.2.2.1 h (ho ▸ hh)
  · rw [e2]; exact hp.2.2.2

/-- `processBlock` after the "already processed" test -/
def procRest (s : State) (b : Header) : State × Res :=
  if (s.header b.parent).isNone then
    (s.orphanAdd b, .orphan)
  else
    let (s1, ok) := s.saveBlock b
    if !ok then (s1, .err) else
    let s2 := State.saveSubBlock s1.fuel s1 b.id
    let (s3, ok3) := s2.tryReorganize s2.bestChain
    (s3, if ok3 then .ok else .err)

def alreadyDone (s : State) (b : Header) : Bool :=
  ((s.header b.id).isSome || s.isOrphan b.id) &&
    decide ((match s.header s.best with | some h => h.height | none => 0) ≥ b.height)

theorem processBlock_eq (s : State) (b : Header) : s.processBlock b =
    if alreadyDone s b then (s, if s.isOrphan b.id then .orphan else .ok) else procRest s b := by
  rfl

theorem processBlock_micro (s : State) (b : Header) (hp : Pre U Vp s) (hb : HdrOK U Vp b) :
    MicroStar U Vp s (s.processBlock b).1 ∧ Pre U Vp (s.processBlock b).1 := by
  rw [processBlock_eq]
  split
  · exact ⟨.refl _, hp⟩
  · unfold procRest
    split
    · refine ⟨.single (Micro.frame ?_), ?_⟩
      · unfold State.orphanAdd; split <;> exact ⟨rfl, rfl, rfl, rfl, rfl⟩
      · unfold State.orphanAdd
        split
        · exact hp
        · refine ⟨hp.1, hp.2.1, ?_, hp.2.2.2⟩
          intro h hh
          rcases List.mem_append.mp hh with hh | hh
          · exact hp.2.2.1 h hh
          · simp only [List.mem_singleton] at hh; subst hh; exact hb
    · obtain ⟨m1, p1⟩ := saveBlock_micro U Vp s b hp hb
      generalize s.saveBlock b = res at m1 p1
      obtain ⟨s1, ok⟩ := res
      simp only at m1 p1 ⊢
      split
      · exact ⟨m1, p1⟩
      · obtain ⟨m2, p2⟩ := saveSubBlock_micro U Vp s1.fuel s1 b.id p1
        have hc := tryReorganize_core (State.saveSubBlock s1.fuel s1 b.id) (State.saveSubBlock s1.fuel s1 b.id).bestChain
        have ho := tryReorganize_orphans (State.saveSubBlock s1.fuel s1 b.id) (State.saveSubBlock s1.fuel s1 b.id).bestChain
        exact ⟨(m1.trans m2).tail (Micro.frame hc), Pre.of_core U Vp p2 hc ho⟩

/-! ### `authVerification` -/

def hasVote (target : Ckpt) (src order : Nat) : Bool :=
  target.sup.any (fun l => l.src == src && hasSlot l order)

/-- `saveVerificationToHeader` + `tryRollback` -/
def authTail (s : State) (order src tgt : Nat) (sigOk : Bool) (source : CkptRec) (tree' : Tree) (srcs : List CkptRec) : State × Res :=
  let ckpts' := saveAffected tree' s.ckpts tgt srcs
  match s.header tgt with
  | none => ({ s with tree := tree', ckpts := ckpts', posted := s.posted ++ [(order, src, tgt)] }, .err)
  | some th =>
    let th' := { th with sup := addSupLinkH th.sup src source.height { slot := order, valid := sigOk } }
    let s1 := { s with tree := tree', ckpts := ckpts', posted := s.posted ++ [(order, src, tgt)], headers := th' :: s.headers.filter (fun h => h.id != tgt) }
    let newBest := s1.bestChain
    if newBest == s.bestChain then (s1, .ok) else
    let (s2, ok) := s1.tryReorganize newBest
    (s2, if ok then .ok else .err)

def authCore (s : State) (order src tgt : Nat) (sigOk : Bool) (source : CkptRec) : State × Res :=
  match s.addVerification s.tree s.ckpts tgt order src source.height with
  | none => (s, .err)
  | some (tree', srcs) => authTail s order src tgt sigOk source tree' srcs

theorem authVerification_eq (s : State) (order src tgt : Nat) (sigOk : Bool) :
    s.authVerification order src tgt sigOk =
    match s.tree.find (byHash tgt) with
    | none => (s, .ok)
    | some tn =>
      match s.getCheckpoint src with
      | none => (s, .err)
      | some source =>
        if isRoot s.tree tgt then (s, .err) else
        if order ≥ s.cfg.nVal then (s, .err) else
        if hasVote tn.ckpt src order then (s, .ok) else
        if !(s.verifyVerification s.tree order src source.height tgt tn.ckpt.height sigOk) then (s, .err) else
        authCore s order src tgt sigOk source := by
  rfl

theorem getCheckpoint_some {s : State} {hash : Nat} {r : CkptRec} (h : s.getCheckpoint hash = some r) :
    ∃ hd, s.header hash = some hd ∧ r.height = hd.height ∧ r.hash = hash ∧ r ∈ s.ckpts := by
  unfold State.getCheckpoint at h
  split at h
  · cases h
  · rename_i hd hhd
    unfold State.ckptRec at h
    have hp := List.find?_some h
    simp only [Bool.and_eq_true, beq_iff_eq] at hp
    exact ⟨hd, hhd, hp.1, hp.2, List.mem_of_find?_eq_some h⟩

theorem authVerification_micro (s : State) (order src tgt : Nat) (sigOk : Bool) (hp : Pre U Vp s)
    (hv : sigOk = true → Vp order src tgt) :
    MicroStar U Vp s (s.authVerification order src tgt sigOk).1 ∧ Pre U Vp (s.authVerification order src tgt sigOk).1 := by
  rw [authVerification_eq]
  split
  · exact ⟨.refl _, hp⟩
  · rename_i tn hfind
    split
    · exact ⟨.refl _, hp⟩
    · rename_i source hsource
      obtain ⟨hd, hhd, hsh, _, _⟩ := getCheckpoint_some hsource
      split
      · exact ⟨.refl _, hp⟩
      · split
        · exact ⟨.refl _, hp⟩
        · rename_i hord
          split
          · exact ⟨.refl _, hp⟩
          · split
            · exact ⟨.refl _, hp⟩
            · rename_i hver
              have hver' : s.verifyVerification s.tree order src source.height tgt tn.ckpt.height sigOk = true := by
                simpa using hver
              obtain ⟨q1, q2, q3, q4, q5⟩ := verify_true hver'
              unfold authCore
              split
              · exact ⟨.refl _, hp⟩
              · rename_i tree' srcs hav
                obtain ⟨m1, hs1⟩ := addVerification_micro U Vp s s.tree s.ckpts tgt order src source.height tn tree' srcs hav
                  hfind (by omega) q1 q2 q3 q5 (Or.inl (hv q4)) (fun hd' hhd' => by rw [hhd] at hhd'; cases hhd'; exact hsh.symm)
                have m2 := saveAffected_micro U Vp s tree' s.ckpts tgt srcs hs1
                have m12 : MicroStar U Vp s (s.wt tree' (saveAffected tree' s.ckpts tgt srcs)) := m1.trans m2
                have m3 : Micro U Vp (s.wt tree' (saveAffected tree' s.ckpts tgt srcs))
                    { s with tree := tree', ckpts := saveAffected tree' s.ckpts tgt srcs, posted := s.posted ++ [(order, src, tgt)] } :=
                  Micro.post (s := s.wt tree' (saveAffected tree' s.ckpts tgt srcs)) (order, src, tgt) (Or.inl (hv q4))
                have hU' : HU U tree' := MicroStar.preserves_HU U Vp m1 hp.2.2.2
                unfold authTail
                simp only
                split
                · exact ⟨m12.tail m3, hp.1, hp.2.1, hp.2.2.1, hU'⟩
                · rename_i th hth
                  have m4 : Micro U Vp { s with tree := tree', ckpts := saveAffected tree' s.ckpts tgt srcs, posted := s.posted ++ [(order, src, tgt)] }
                      { s with tree := tree', ckpts := saveAffected tree' s.ckpts tgt srcs, posted := s.posted ++ [(order, src, tgt)], headers := { th with sup := addSupLinkH th.sup src source.height { slot := order, valid := sigOk } } :: s.headers.filter (fun h => h.id != tgt) } :=
                    Micro.voteHeader (s := { s with tree := tree', ckpts := saveAffected tree' s.ckpts tgt srcs, posted := s.posted ++ [(order, src, tgt)] }) tgt order src source.height sigOk th hth
                  have hth' := lookupHeader_mem hth
                  have p1 : Pre U Vp { s with tree := tree', ckpts := saveAffected tree' s.ckpts tgt srcs, posted := s.posted ++ [(order, src, tgt)], headers := { th with sup := addSupLinkH th.sup src source.height { slot := order, valid := sigOk } } :: s.headers.filter (fun h => h.id != tgt) } := by
                    refine ⟨?_, ?_, hp.2.2.1, hU'⟩
                    · intro h hh hg
                      rcases List.mem_cons.mp hh with rfl | hm
                      · exact hp.1 th hth'.1 hg
                      · exact hp.1 h (List.mem_filter.mp hm).1 hg
                    · intro h hh hg
                      rcases List.mem_cons.mp hh with rfl | hm
                      · exact hp.2.1 th hth'.1 hg
                      · exact hp.2.1 h (List.mem_filter.mp hm).1 hg
                  split
                  · exact ⟨(m12.tail m3).tail m4, p1⟩
                  · have hc := tryReorganize_core { s with tree := tree', ckpts := saveAffected tree' s.ckpts tgt srcs, posted := s.posted ++ [(order, src, tgt)], headers := { th with sup := addSupLinkH th.sup src source.height { slot := order, valid := sigOk } } :: s.headers.filter (fun h => h.id != tgt) }
                      (State.bestChain { s with tree := tree', ckpts := saveAffected tree' s.ckpts tgt srcs, posted := s.posted ++ [(order, src, tgt)], headers := { th with sup := addSupLinkH th.sup src source.height { slot := order, valid := sigOk } } :: s.headers.filter (fun h => h.id != tgt) })
                    have ho := tryReorganize_orphans { s with tree := tree', ckpts := saveAffected tree' s.ckpts tgt srcs, posted := s.posted ++ [(order, src, tgt)], headers := { th with sup := addSupLinkH th.sup src source.height { slot := order, valid := sigOk } } :: s.headers.filter (fun h => h.id != tgt) }
                      (State.bestChain { s with tree := tree', ckpts := saveAffected tree' s.ckpts tgt srcs, posted := s.posted ++ [(order, src, tgt)], headers := { th with sup := addSupLinkH th.sup src source.height { slot := order, valid := sigOk } } :: s.headers.filter (fun h => h.id != tgt) })
                    exact ⟨((m12.tail m3).tail m4).tail (Micro.frame hc), Pre.of_core U Vp p1 hc ho⟩

end

/-! ### events and runs (what the driver `Drv/Node.lean` does with the op lines) -/

inductive Event
  | define (h : Header)                              -- `def`: the harness names a block (only `defs` changes: ranks)
  | deliver (b : Header)                             -- `deliver`: `processBlock`
  | vote (order src tgt : Nat) (sigOk : Bool)        -- `vote`: `authVerification`
  | restart                                          -- `restart`: `NewChain` on the stored data

def step (s : State) : Event → State
  | .define h => { s with defs := h :: s.defs }
  | .deliver b => (s.processBlock b).1
  | .vote o src tgt ok => (s.authVerification o src tgt ok).1
  | .restart => match s.restart with | some s' => s' | none => s

def run (s : State) (evs : List Event) : State := evs.foldl step s

theorem run_append (s : State) (a b : List Event) : run s (a ++ b) = run (run s a) b := by
  simp [run, List.foldl_append]

/-- the event is one the block universe allows, it is not a restart, and signatures flagged valid are
    valid signatures that were presented -/
def Event.ok (U : Universe) (Vp : Nat → Nat → Nat → Prop) : Event → Prop
  | .define _ => True
  | .deliver b => HdrOK U Vp b
  | .vote o src tgt ok => ok = true → Vp o src tgt
  | .restart => False

section
variable (U : Universe) (Vp : Nat → Nat → Nat → Prop)

theorem event_refines (s : State) (e : Event) (hp : Pre U Vp s) (he : e.ok U Vp) :
    MicroStar U Vp s (step s e) ∧ Pre U Vp (step s e) := by
  cases e with
  | define h => exact ⟨.single (Micro.frame ⟨rfl, rfl, rfl, rfl, rfl⟩), hp⟩
  | deliver b => exact processBlock_micro U Vp s b hp he
  | vote o src tgt ok => exact authVerification_micro U Vp s o src tgt ok hp he
  | restart => exact absurd he id

theorem run_refines (evs : List Event) : ∀ (s : State), Pre U Vp s → (∀ e ∈ evs, e.ok U Vp) →
    MicroStar U Vp s (run s evs) ∧ Pre U Vp (run s evs) := by
  induction evs with
  | nil => intro s hp _; exact ⟨.refl _, hp⟩
  | cons e evs ih =>
    intro s hp he
    obtain ⟨m1, p1⟩ := event_refines U Vp s e hp (he e List.mem_cons_self)
    obtain ⟨m2, p2⟩ := ih (step s e) p1 (fun e' h' => he e' (List.mem_cons_of_mem _ h'))
    exact ⟨m1.trans m2, p2⟩

theorem Pre_init (cfg : Config) (genesis : Header) (hg : genesis.id = U.g) (h0 : genesis.height = 0) :
    Pre U Vp (State.init cfg genesis) := by
  refine ⟨?_, ?_, ?_, ?_⟩
  · intro h hh hne
    simp only [State.init, List.mem_singleton] at hh
    subst hh; exact absurd hg hne
  · intro h hh _
    simp only [State.init, List.mem_singleton] at hh
    subst hh; exact h0
  · intro h hh; simp [State.init] at hh
  · intro c hc
    simp only [State.init, Tree.flatten, Tree.flattenList, List.mem_cons, List.not_mem_nil, or_false] at hc
    subst hc
    simp [hg, U.height_g]

/-- an invariant of the micro steps that holds initially holds after every run without restart -/
theorem run_invariant {I : State → Prop} (hstep : ∀ s s', I s → Micro U Vp s s' → I s')
    (cfg : Config) (genesis : Header) (hg : genesis.id = U.g) (h0 : genesis.height = 0)
    (hinit : I (State.init cfg genesis)) (evs : List Event) (hev : ∀ e ∈ evs, e.ok U Vp) :
    I (run (State.init cfg genesis) evs) :=
  MicroStar.invariant hstep (run_refines U Vp evs _ (Pre_init U Vp cfg genesis hg h0) hev).1 hinit

end

end BytomModel.Node
