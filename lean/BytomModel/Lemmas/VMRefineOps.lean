/-
Handler-level refinement: every opcode handler on the heap commutes with the abstraction
`absSt` that reads all slices back as byte strings.
-/
import BytomModel.Lemmas.VMRefine
namespace BytomModel.VM
open OpM
set_option linter.unusedSimpArgs false
set_option linter.unusedVariables false
set_option linter.unnecessarySeqFocus false
set_option linter.unusedTactic false
set_option linter.unreachableTactic false
set_option maxHeartbeats 1000000
variable (g : Nat → Nat → Nat)

def CtxSim (h : Heap) (cH : Context Slice) (cv : Context Bytes) : Prop := CtxValid h cH ∧ cv = absCtx h cH

/-- a heap handler and a value handler commute with the abstraction -/
def OpSim (cH : Context Slice) (cv : Context Bytes)
    (opH : OpM (St Heap Slice) Unit) (opV : OpM (St Unit Bytes) Unit) : Prop :=
  ∀ s, FrameValid s.mem s.f → CtxSim s.mem cH cv →
    ResPP (fun _ s' => opV (absSt s) = .ok () (absSt s') ∧ HeapPrefix s.mem s'.mem ∧ FrameValid s'.mem s'.f)
          (fun e s' => opV (absSt s) = .err e (absSt s') ∧ HeapPrefix s.mem s'.mem ∧ FrameValid s'.mem s'.f)
          (opV (absSt s) = .panic) (opH s)

theorem Valid.len_eq {h : Heap} {x : Slice} (hv : Valid h x) : (h.read x).length = x.len := hv

syntax "vm_sim" "[" Lean.Parser.Tactic.simpLemma,* "]" : tactic
macro_rules
  | `(tactic| vm_sim [$ts,*]) => `(tactic| (
      simp [FrameValid, CtxSim, CtxValid, heapMem] at * <;>
      simp [bind_run, applyCost_run, pushItem_def, pushItem_imm, popBigInt, popBytes,
        popInt64, pushBytes_imm, pushBytes_def, pushBool, pushBigInt, pushNth_run, absSt, absFrame, itemCost, heapMem, valueMem,
        FrameValid, HeapPrefix.refl, HeapPrefix.fresh, Valid.len_eq, *, $ts,*] <;>
      (repeat' (first | apply And.intro | intro _)) <;>
      (try simp_all [HeapPrefix.refl, HeapPrefix.fresh, read_fresh_old, Valid_fresh_old, map_read_fresh_old, Valid.len_eq]) <;>
      (try omega) <;>
      (try (split_ifs <;> (try split_ifs) <;> first | omega | rfl |
        simp_all [HeapPrefix.refl, HeapPrefix.fresh, read_fresh_old, Valid_fresh_old, map_read_fresh_old, Valid.len_eq]))))


theorem opFalse_sim (cH : Context Slice) (cv : Context Bytes) :
    OpSim cH cv (opFalse (heapMem g)) (opFalse valueMem) := by
  intro s hv hc
  obtain ⟨h, ⟨prog, pc, nextPC, rl, d, data, alt, depth, er⟩⟩ := s
  vm_sim [opFalse]

theorem opPushdata_sim (cH : Context Slice) (cv : Context Bytes) (b : Bytes) :
    OpSim cH cv (opPushdata (heapMem g) b) (opPushdata valueMem b) := by
  intro s hv hc
  obtain ⟨h, ⟨prog, pc, nextPC, rl, d, data, alt, depth, er⟩⟩ := s
  vm_sim [opPushdata]

theorem opNop_sim (cH : Context Slice) (cv : Context Bytes) :
    OpSim cH cv ((opNop : OpM (St _ _) Unit)) ((opNop : OpM (St _ _) Unit)) := by
  intro s hv hc
  obtain ⟨h, ⟨prog, pc, nextPC, rl, d, data, alt, depth, er⟩⟩ := s
  vm_sim [opNop]

theorem opVerify_sim (cH : Context Slice) (cv : Context Bytes) :
    OpSim cH cv (opVerify (heapMem g)) (opVerify valueMem) := by
  intro s hv hc
  obtain ⟨h, ⟨prog, pc, nextPC, rl, d, data, alt, depth, er⟩⟩ := s
  rcases data with _ | ⟨x1, rest⟩ <;> vm_sim [opVerify]

theorem opFail_sim (cH : Context Slice) (cv : Context Bytes) :
    OpSim cH cv ((opFail : OpM (St _ _) Unit)) ((opFail : OpM (St _ _) Unit)) := by
  intro s hv hc
  obtain ⟨h, ⟨prog, pc, nextPC, rl, d, data, alt, depth, er⟩⟩ := s
  vm_sim [opFail]

theorem opJump_sim (cH : Context Slice) (cv : Context Bytes) (b : Bytes) :
    OpSim cH cv ((opJump b : OpM (St _ _) Unit)) ((opJump b : OpM (St _ _) Unit)) := by
  intro s hv hc
  obtain ⟨h, ⟨prog, pc, nextPC, rl, d, data, alt, depth, er⟩⟩ := s
  vm_sim [opJump]

theorem opJumpIf_sim (cH : Context Slice) (cv : Context Bytes) (b : Bytes) :
    OpSim cH cv (opJumpIf (heapMem g) b) (opJumpIf valueMem b) := by
  intro s hv hc
  obtain ⟨h, ⟨prog, pc, nextPC, rl, d, data, alt, depth, er⟩⟩ := s
  rcases data with _ | ⟨x1, rest⟩ <;> vm_sim [opJumpIf]

theorem opToAltStack_sim (cH : Context Slice) (cv : Context Bytes) :
    OpSim cH cv ((opToAltStack : OpM (St _ _) Unit)) ((opToAltStack : OpM (St _ _) Unit)) := by
  intro s hv hc
  obtain ⟨h, ⟨prog, pc, nextPC, rl, d, data, alt, depth, er⟩⟩ := s
  rcases data with _ | ⟨x1, rest⟩ <;> vm_sim [opToAltStack]

theorem op2Drop_sim (cH : Context Slice) (cv : Context Bytes) :
    OpSim cH cv (op2Drop (heapMem g)) (op2Drop valueMem) := by
  intro s hv hc
  obtain ⟨h, ⟨prog, pc, nextPC, rl, d, data, alt, depth, er⟩⟩ := s
  rcases data with _ | ⟨x1, _ | ⟨x2, rest⟩⟩ <;> vm_sim [op2Drop]

theorem op2Rot_sim (cH : Context Slice) (cv : Context Bytes) :
    OpSim cH cv ((op2Rot : OpM (St _ _) Unit)) ((op2Rot : OpM (St _ _) Unit)) := by
  intro s hv hc
  obtain ⟨h, ⟨prog, pc, nextPC, rl, d, data, alt, depth, er⟩⟩ := s
  rcases data with _ | ⟨x1, _ | ⟨x2, _ | ⟨x3, _ | ⟨x4, _ | ⟨x5, _ | ⟨x6, rest⟩⟩⟩⟩⟩⟩ <;> vm_sim [op2Rot]

theorem op2Swap_sim (cH : Context Slice) (cv : Context Bytes) :
    OpSim cH cv ((op2Swap : OpM (St _ _) Unit)) ((op2Swap : OpM (St _ _) Unit)) := by
  intro s hv hc
  obtain ⟨h, ⟨prog, pc, nextPC, rl, d, data, alt, depth, er⟩⟩ := s
  rcases data with _ | ⟨x1, _ | ⟨x2, _ | ⟨x3, _ | ⟨x4, rest⟩⟩⟩⟩ <;> vm_sim [op2Swap]

theorem opIfDup_sim (cH : Context Slice) (cv : Context Bytes) :
    OpSim cH cv (opIfDup (heapMem g)) (opIfDup valueMem) := by
  intro s hv hc
  obtain ⟨h, ⟨prog, pc, nextPC, rl, d, data, alt, depth, er⟩⟩ := s
  rcases data with _ | ⟨x1, rest⟩ <;> vm_sim [opIfDup]

theorem opDepth_sim (cH : Context Slice) (cv : Context Bytes) :
    OpSim cH cv (opDepth (heapMem g)) (opDepth valueMem) := by
  intro s hv hc
  obtain ⟨h, ⟨prog, pc, nextPC, rl, d, data, alt, depth, er⟩⟩ := s
  vm_sim [opDepth]

theorem opDrop_sim (cH : Context Slice) (cv : Context Bytes) :
    OpSim cH cv (opDrop (heapMem g)) (opDrop valueMem) := by
  intro s hv hc
  obtain ⟨h, ⟨prog, pc, nextPC, rl, d, data, alt, depth, er⟩⟩ := s
  rcases data with _ | ⟨x1, rest⟩ <;> vm_sim [opDrop]

theorem opNip_sim (cH : Context Slice) (cv : Context Bytes) :
    OpSim cH cv (opNip (heapMem g)) (opNip valueMem) := by
  intro s hv hc
  obtain ⟨h, ⟨prog, pc, nextPC, rl, d, data, alt, depth, er⟩⟩ := s
  rcases data with _ | ⟨x1, _ | ⟨x2, rest⟩⟩ <;> vm_sim [opNip]

theorem opOver_sim (cH : Context Slice) (cv : Context Bytes) :
    OpSim cH cv (opOver (heapMem g)) (opOver valueMem) := by
  intro s hv hc
  obtain ⟨h, ⟨prog, pc, nextPC, rl, d, data, alt, depth, er⟩⟩ := s
  rcases data with _ | ⟨x1, _ | ⟨x2, rest⟩⟩ <;> vm_sim [opOver]

theorem opSwap_sim (cH : Context Slice) (cv : Context Bytes) :
    OpSim cH cv ((opSwap : OpM (St _ _) Unit)) ((opSwap : OpM (St _ _) Unit)) := by
  intro s hv hc
  obtain ⟨h, ⟨prog, pc, nextPC, rl, d, data, alt, depth, er⟩⟩ := s
  rcases data with _ | ⟨x1, _ | ⟨x2, rest⟩⟩ <;> vm_sim [opSwap]

theorem opTuck_sim (cH : Context Slice) (cv : Context Bytes) :
    OpSim cH cv (opTuck (heapMem g)) (opTuck valueMem) := by
  intro s hv hc
  obtain ⟨h, ⟨prog, pc, nextPC, rl, d, data, alt, depth, er⟩⟩ := s
  rcases data with _ | ⟨x1, _ | ⟨x2, rest⟩⟩ <;> vm_sim [opTuck]

theorem opCat_sim (cH : Context Slice) (cv : Context Bytes) :
    OpSim cH cv (opCat (heapMem g)) (opCat valueMem) := by
  intro s hv hc
  obtain ⟨h, ⟨prog, pc, nextPC, rl, d, data, alt, depth, er⟩⟩ := s
  rcases data with _ | ⟨x1, _ | ⟨x2, rest⟩⟩ <;> vm_sim [opCat]

theorem opCatpushdata_sim (cH : Context Slice) (cv : Context Bytes) :
    OpSim cH cv (opCatpushdata (heapMem g)) (opCatpushdata valueMem) := by
  intro s hv hc
  obtain ⟨h, ⟨prog, pc, nextPC, rl, d, data, alt, depth, er⟩⟩ := s
  rcases data with _ | ⟨x1, _ | ⟨x2, rest⟩⟩ <;> vm_sim [opCatpushdata]

theorem opSize_sim (cH : Context Slice) (cv : Context Bytes) :
    OpSim cH cv (opSize (heapMem g)) (opSize valueMem) := by
  intro s hv hc
  obtain ⟨h, ⟨prog, pc, nextPC, rl, d, data, alt, depth, er⟩⟩ := s
  rcases data with _ | ⟨x1, rest⟩ <;> vm_sim [opSize]

theorem opInvert_sim (cH : Context Slice) (cv : Context Bytes) :
    OpSim cH cv (opInvert (heapMem g)) (opInvert valueMem) := by
  intro s hv hc
  obtain ⟨h, ⟨prog, pc, nextPC, rl, d, data, alt, depth, er⟩⟩ := s
  rcases data with _ | ⟨x1, rest⟩ <;> vm_sim [opInvert]

theorem opAnd_sim (cH : Context Slice) (cv : Context Bytes) :
    OpSim cH cv (opAnd (heapMem g)) (opAnd valueMem) := by
  intro s hv hc
  obtain ⟨h, ⟨prog, pc, nextPC, rl, d, data, alt, depth, er⟩⟩ := s
  rcases data with _ | ⟨x1, _ | ⟨x2, rest⟩⟩ <;> vm_sim [opAnd]

theorem doOr_sim (cH : Context Slice) (cv : Context Bytes) (x : Bool) :
    OpSim cH cv (doOr (heapMem g) x) (doOr valueMem x) := by
  intro s hv hc
  obtain ⟨h, ⟨prog, pc, nextPC, rl, d, data, alt, depth, er⟩⟩ := s
  rcases data with _ | ⟨x1, _ | ⟨x2, rest⟩⟩ <;> vm_sim [doOr]

theorem opEqual_sim (cH : Context Slice) (cv : Context Bytes) :
    OpSim cH cv (opEqual (heapMem g)) (opEqual valueMem) := by
  intro s hv hc
  obtain ⟨h, ⟨prog, pc, nextPC, rl, d, data, alt, depth, er⟩⟩ := s
  rcases data with _ | ⟨x1, _ | ⟨x2, rest⟩⟩ <;> vm_sim [opEqual, doEqual]

theorem opEqualVerify_sim (cH : Context Slice) (cv : Context Bytes) :
    OpSim cH cv (opEqualVerify (heapMem g)) (opEqualVerify valueMem) := by
  intro s hv hc
  obtain ⟨h, ⟨prog, pc, nextPC, rl, d, data, alt, depth, er⟩⟩ := s
  rcases data with _ | ⟨x1, _ | ⟨x2, rest⟩⟩ <;> vm_sim [opEqualVerify, doEqual]

theorem unaryNum_sim (cH : Context Slice) (cv : Context Bytes) (c : Int) (fn : Nat → Except Err Bytes) :
    OpSim cH cv (unaryNum (heapMem g) c fn) (unaryNum valueMem c fn) := by
  intro s hv hc
  obtain ⟨h, ⟨prog, pc, nextPC, rl, d, data, alt, depth, er⟩⟩ := s
  rcases data with _ | ⟨x1, rest⟩ <;> vm_sim [unaryNum]

theorem binaryNum_sim (cH : Context Slice) (cv : Context Bytes) (c : Int) (fn : Nat → Nat → Except Err Bytes) :
    OpSim cH cv (binaryNum (heapMem g) c fn) (binaryNum valueMem c fn) := by
  intro s hv hc
  obtain ⟨h, ⟨prog, pc, nextPC, rl, d, data, alt, depth, er⟩⟩ := s
  rcases data with _ | ⟨x1, _ | ⟨x2, rest⟩⟩ <;> vm_sim [binaryNum]

theorem opBoolBin_sim (cH : Context Slice) (cv : Context Bytes) (p : Bool → Bool → Bool) :
    OpSim cH cv (opBoolBin (heapMem g) p) (opBoolBin valueMem p) := by
  intro s hv hc
  obtain ⟨h, ⟨prog, pc, nextPC, rl, d, data, alt, depth, er⟩⟩ := s
  rcases data with _ | ⟨x1, _ | ⟨x2, rest⟩⟩ <;> vm_sim [opBoolBin]

theorem opNumEqualVerify_sim (cH : Context Slice) (cv : Context Bytes) :
    OpSim cH cv (opNumEqualVerify (heapMem g)) (opNumEqualVerify valueMem) := by
  intro s hv hc
  obtain ⟨h, ⟨prog, pc, nextPC, rl, d, data, alt, depth, er⟩⟩ := s
  rcases data with _ | ⟨x1, _ | ⟨x2, rest⟩⟩ <;> vm_sim [opNumEqualVerify]

theorem opWithin_sim (cH : Context Slice) (cv : Context Bytes) :
    OpSim cH cv (opWithin (heapMem g)) (opWithin valueMem) := by
  intro s hv hc
  obtain ⟨h, ⟨prog, pc, nextPC, rl, d, data, alt, depth, er⟩⟩ := s
  rcases data with _ | ⟨x1, _ | ⟨x2, _ | ⟨x3, rest⟩⟩⟩ <;> vm_sim [opWithin]

theorem doHash_sim (cH : Context Slice) (cv : Context Bytes) (hf : Bytes → Bytes) :
    OpSim cH cv (doHash (heapMem g) hf) (doHash valueMem hf) := by
  intro s hv hc
  obtain ⟨h, ⟨prog, pc, nextPC, rl, d, data, alt, depth, er⟩⟩ := s
  rcases data with _ | ⟨x1, rest⟩ <;> vm_sim [doHash]

theorem nDup1_sim (cH : Context Slice) (cv : Context Bytes) :
    OpSim cH cv (nDup (heapMem g) 1) (nDup valueMem 1) := by
  intro s hv hc
  obtain ⟨h, ⟨prog, pc, nextPC, rl, d, data, alt, depth, er⟩⟩ := s
  rcases data with _ | ⟨x1, rest⟩ <;> vm_sim [nDup, dupLoop]

theorem nDup2_sim (cH : Context Slice) (cv : Context Bytes) :
    OpSim cH cv (nDup (heapMem g) 2) (nDup valueMem 2) := by
  intro s hv hc
  obtain ⟨h, ⟨prog, pc, nextPC, rl, d, data, alt, depth, er⟩⟩ := s
  rcases data with _ | ⟨x1, _ | ⟨x2, rest⟩⟩ <;> vm_sim [nDup, dupLoop]

theorem nDup3_sim (cH : Context Slice) (cv : Context Bytes) :
    OpSim cH cv (nDup (heapMem g) 3) (nDup valueMem 3) := by
  intro s hv hc
  obtain ⟨h, ⟨prog, pc, nextPC, rl, d, data, alt, depth, er⟩⟩ := s
  rcases data with _ | ⟨x1, _ | ⟨x2, _ | ⟨x3, rest⟩⟩⟩ <;> vm_sim [nDup, dupLoop]

theorem op2Over_sim (cH : Context Slice) (cv : Context Bytes) :
    OpSim cH cv (op2Over (heapMem g)) (op2Over valueMem) := by
  intro s hv hc
  obtain ⟨h, ⟨prog, pc, nextPC, rl, d, data, alt, depth, er⟩⟩ := s
  rcases data with _ | ⟨x1, _ | ⟨x2, _ | ⟨x3, _ | ⟨x4, rest⟩⟩⟩⟩ <;> vm_sim [op2Over, dupLoop]

theorem opFromAltStack_sim (cH : Context Slice) (cv : Context Bytes) :
    OpSim cH cv (opFromAltStack : OpM (St _ _) Unit) (opFromAltStack : OpM (St _ _) Unit) := by
  intro s hv hc
  obtain ⟨h, ⟨prog, pc, nextPC, rl, d, data, alt, depth, er⟩⟩ := s
  rcases alt with _ | ⟨x1, rest⟩ <;> vm_sim [opFromAltStack]

theorem opHash160_sim (cH : Context Slice) (cv : Context Bytes) :
    OpSim cH cv (opHash160 (heapMem g) cH) (opHash160 valueMem cv) := by
  intro s hv hc
  obtain ⟨h, ⟨prog, pc, nextPC, rl, d, data, alt, depth, er⟩⟩ := s
  obtain ⟨hc1, rfl⟩ := hc
  rcases data with _ | ⟨x1, rest⟩ <;> vm_sim [opHash160, absCtx]

theorem opCheckSig_sim (cH : Context Slice) (cv : Context Bytes) :
    OpSim cH cv (opCheckSig (heapMem g) cH) (opCheckSig valueMem cv) := by
  intro s hv hc
  obtain ⟨h, ⟨prog, pc, nextPC, rl, d, data, alt, depth, er⟩⟩ := s
  obtain ⟨hc1, rfl⟩ := hc
  rcases data with _ | ⟨x1, _ | ⟨x2, _ | ⟨x3, rest⟩⟩⟩ <;> vm_sim [opCheckSig, absCtx]

theorem opTxSigHash_sim (cH : Context Slice) (cv : Context Bytes) :
    OpSim cH cv (opTxSigHash (heapMem g) cH) (opTxSigHash valueMem cv) := by
  intro s hv hc
  obtain ⟨h, ⟨prog, pc, nextPC, rl, d, data, alt, depth, er⟩⟩ := s
  obtain ⟨hc1, rfl⟩ := hc
  cases hh : cH.txSigHash <;> vm_sim [opTxSigHash, absCtx, hh]

theorem pushCtxNum_sim (cH : Context Slice) (cv : Context Bytes) (x : Option Nat) :
    OpSim cH cv (pushCtxNum (heapMem g) x) (pushCtxNum valueMem x) := by
  intro s hv hc
  obtain ⟨h, ⟨prog, pc, nextPC, rl, d, data, alt, depth, er⟩⟩ := s
  cases x <;> vm_sim [pushCtxNum]

theorem pushCtxItem_sim (cH : Context Slice) (cv : Context Bytes) (xH : Option Slice) (xV : Option Bytes)
    (hx : ∀ h, CtxSim h cH cv → (∀ y, xH = some y → Valid h y) ∧ xV = xH.map h.read) :
    OpSim cH cv (pushCtxItem (heapMem g) xH) (pushCtxItem valueMem xV) := by
  intro s hv hc
  obtain ⟨h, ⟨prog, pc, nextPC, rl, d, data, alt, depth, er⟩⟩ := s
  obtain ⟨hx1, rfl⟩ := hx h hc
  cases xH with
  | none => vm_sim [pushCtxItem]
  | some y =>
    have hy := hx1 y rfl
    vm_sim [pushCtxItem]

theorem opCheckOutput_sim (cH : Context Slice) (cv : Context Bytes) :
    OpSim cH cv (opCheckOutput (heapMem g) cH) (opCheckOutput valueMem cv) := by
  intro s hv hc
  obtain ⟨h, ⟨prog, pc, nextPC, rl, d, data, alt, depth, er⟩⟩ := s
  obtain ⟨hc1, rfl⟩ := hc
  cases hh : cH.checkOutput <;>
  rcases data with _ | ⟨x1, _ | ⟨x2, _ | ⟨x3, _ | ⟨x4, _ | ⟨x5, rest⟩⟩⟩⟩⟩ <;>
  vm_sim [opCheckOutput, absCtx, hh, List.map_reverse]

end BytomModel.VM
