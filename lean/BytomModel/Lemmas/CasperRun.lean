/-
Runs of the node model used by Props/C16, C17, C18: which event lists the unbounded theorems
quantify over, and the instance `presented evs` of the "valid signature was presented" predicate.
Core Lean only.
-/
import BytomModel.Lemmas.CasperSteps

namespace BytomModel.Node

/-- a valid signature of validator `o` for src → tgt was presented to the node during `evs`:
    in a verification message, or in a header sup link of a delivered copy of block `tgt` -/
def presented (evs : List Event) (o src tgt : Nat) : Prop :=
  Event.vote o src tgt true ∈ evs ∨
  ∃ b l sg, Event.deliver b ∈ evs ∧ l ∈ b.sup ∧ sg ∈ l.sigs ∧ b.id = tgt ∧ l.src = src ∧ sg.slot = o ∧ sg.valid = true

/-- delivered blocks are blocks of the universe `U` (hash ↦ parent, height; height = parent height + 1);
    their sup links are unconstrained; restarts are allowed -/
def BlocksOK (U : Universe) (evs : List Event) : Prop :=
  ∀ e ∈ evs, match e with
    | .deliver b => HdrU U b
    | _ => True

/-- `BlocksOK` and no restart -/
def RunOK (U : Universe) (evs : List Event) : Prop :=
  ∀ e ∈ evs, match e with
    | .deliver b => HdrU U b
    | .restart => False
    | _ => True

theorem RunOK.of_blocksOK {U : Universe} {evs : List Event} (hb : BlocksOK U evs) (hnr : Event.restart ∉ evs) :
    RunOK U evs := by
  intro e hem
  have := hb e hem
  cases e with
  | define _ => trivial
  | deliver b => exact this
  | vote _ _ _ _ => trivial
  | restart => exact hnr hem

theorem RunOK.events_ok {U : Universe} {evs : List Event} (h : RunOK U evs) :
    ∀ e ∈ evs, e.ok U (presented evs) := by
  intro e he
  have := h e he
  cases e with
  | define _ => trivial
  | deliver b =>
    exact ⟨this, fun l hl sg hsg hv => Or.inr ⟨b, l, sg, he, hl, hsg, rfl, rfl, rfl, hv⟩⟩
  | vote o src tgt ok =>
    intro hok; subst hok; exact Or.inl he
  | restart => exact absurd this id

theorem RunOK.append_left {U : Universe} {a b : List Event} (h : RunOK U (a ++ b)) : RunOK U a :=
  fun e he => h e (List.mem_append_left _ he)

/-- every run without restart is a finite sequence of `Micro` steps -/
theorem run_refines_micro (U : Universe) (cfg : Config) (genesis : Header) (evs : List Event)
    (hg : genesis.id = U.g) (h0 : genesis.height = 0) (hr : RunOK U evs) :
    MicroStar U (presented evs) (State.init cfg genesis) (run (State.init cfg genesis) evs) :=
  (run_refines U (presented evs) evs _ (Pre_init U _ cfg genesis hg h0) hr.events_ok).1

/-- … and so is every later part of it -/
theorem run_suffix_refines_micro (U : Universe) (cfg : Config) (genesis : Header) (evs1 evs2 : List Event)
    (hg : genesis.id = U.g) (h0 : genesis.height = 0) (hr : RunOK U (evs1 ++ evs2)) :
    MicroStar U (presented (evs1 ++ evs2)) (run (State.init cfg genesis) evs1) (run (State.init cfg genesis) (evs1 ++ evs2)) := by
  have hok := hr.events_ok
  obtain ⟨_, p1⟩ := run_refines U (presented (evs1 ++ evs2)) evs1 _ (Pre_init U _ cfg genesis hg h0)
    (fun e he => hok e (List.mem_append_left _ he))
  rw [run_append]
  exact (run_refines U (presented (evs1 ++ evs2)) evs2 _ p1 (fun e he => hok e (List.mem_append_right _ he))).1

end BytomModel.Node
