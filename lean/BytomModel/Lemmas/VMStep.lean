/-
Step-level gas lemmas: ParseOp facts, the dispatch (`execOp_ok`: every defined opcode takes
at least `baseCost op` from the potential), CHECKPREDICATE's prelude, and `frameStep`.
-/
import BytomModel.Lemmas.VMOps
namespace BytomModel.VM
open OpM
set_option linter.unusedSimpArgs false
set_option linter.unusedVariables false
set_option linter.unnecessarySeqFocus false
set_option linter.unusedTactic false
set_option linter.unreachableTactic false

/-! ### ParseOp -/

theorem parseData_ok {prog : Bytes} {l pc op len hdr : Nat} {inst : Inst}
    (h : parseData prog l pc op len hdr = .ok inst) :
    inst.op = op ∧ inst.len = len ∧ pc + len ≤ l := by
  unfold parseData at h
  simp only at h
  split at h
  · cases h
  · split at h
    · cases h
    · cases h; exact ⟨rfl, rfl, by omega⟩

theorem parseOpL_ok {plen : Nat} {prog : Bytes} {pc : Nat} {inst : Inst}
    (h : parseOpL plen prog pc = .ok inst) :
    pc < plen % two32 ∧ 1 ≤ inst.len ∧ pc + inst.len ≤ plen % two32 ∧
    inst.op = (prog.getD pc 0).toNat := by
  unfold parseOpL at h
  simp only at h
  split at h
  · cases h
  · split at h
    · cases h
    · rename_i h1 h2
      have hpc : pc < plen % two32 := by omega
      split at h
      · cases h; exact ⟨hpc, by simp, by simp; omega, rfl⟩
      · split at h
        · obtain ⟨a, b, c⟩ := parseData_ok h
          exact ⟨hpc, by omega, by omega, a⟩
        · split at h
          · split at h
            · cases h
            · obtain ⟨a, b, c⟩ := parseData_ok h
              exact ⟨hpc, by omega, by omega, by omega⟩
          · split at h
            · split at h
              · cases h
              · obtain ⟨a, b, c⟩ := parseData_ok h
                exact ⟨hpc, by omega, by omega, by omega⟩
            · split at h
              · split at h
                · cases h
                · split at h
                  · cases h
                  · obtain ⟨a, b, c⟩ := parseData_ok h
                    exact ⟨hpc, by omega, by omega, by omega⟩
              · split at h
                · obtain ⟨a, b, c⟩ := parseData_ok h
                  exact ⟨hpc, by omega, by omega, a⟩
                · cases h; exact ⟨hpc, by simp, by simp; omega, rfl⟩

theorem parseOpL_op_lt {plen : Nat} {prog : Bytes} {pc : Nat} {inst : Inst}
    (h : parseOpL plen prog pc = .ok inst) : inst.op < 256 := by
  rw [(parseOpL_ok h).2.2.2]
  exact (prog.getD pc 0).toNat_lt

section
variable {μ ι : Type} (M : MemOps μ ι) (ctx : Context ι)

/-! ### dispatch -/

theorem execOp_ok (L : MemLaws M) (op : Nat) (data : Bytes) (s : St μ ι) (h : 0 ≤ s.f.runLimit)
    (hdef : isDefinedOp op = true) (hcp : op ≠ 0xc0) :
    OpOK M (baseCost op) s (execOp M ctx op data s) := by
  unfold execOp
  split
  · rename_i h0; subst h0; exact opFalse_ok M s h
  · split
    · rename_i h1 h2
      have : baseCost op = 1 := by unfold baseCost; rw [if_pos (by omega)]
      rw [this]; exact opPushdata_ok M data s h
    · split
      · rename_i h1 h2 h3
        have : baseCost op = 1 := by unfold baseCost; rw [if_pos (by omega)]
        rw [this]; exact opPushdata_ok M data s h
      · split
        · exact OpOK_mono M 1 _ (by decide) s _ (opNop_ok M s h)
        · exact OpOK_mono M 1 _ (by decide) s _ (opJump_ok M data s h)
        · exact OpOK_mono M 1 _ (by decide) s _ (opJumpIf_ok M data s h)
        · exact OpOK_mono M 1 _ (by decide) s _ (opVerify_ok M s h)
        · exact OpOK_mono M 1 _ (by decide) s _ (opFail_ok M s h)
        · exact OpOK_mono M 2 _ (by decide) s _ (opToAltStack_ok M s h)
        · exact OpOK_mono M 2 _ (by decide) s _ (opFromAltStack_ok M s h)
        · exact OpOK_mono M 2 _ (by decide) s _ (op2Drop_ok M s h)
        · exact OpOK_mono M 2 _ (by decide) s _ (nDup_ok M 2 s h)
        · exact OpOK_mono M 3 _ (by decide) s _ (nDup_ok M 3 s h)
        · exact OpOK_mono M 2 _ (by decide) s _ (op2Over_ok M s h)
        · exact OpOK_mono M 2 _ (by decide) s _ (op2Rot_ok M s h)
        · exact OpOK_mono M 2 _ (by decide) s _ (op2Swap_ok M s h)
        · exact OpOK_mono M 1 _ (by decide) s _ (opIfDup_ok M s h)
        · exact OpOK_mono M 1 _ (by decide) s _ (opDepth_ok M s h)
        · exact OpOK_mono M 1 _ (by decide) s _ (opDrop_ok M s h)
        · exact OpOK_mono M 1 _ (by decide) s _ (nDup_ok M 1 s h)
        · exact OpOK_mono M 1 _ (by decide) s _ (opNip_ok M s h)
        · exact OpOK_mono M 1 _ (by decide) s _ (opOver_ok M s h)
        · exact OpOK_mono M 2 _ (by decide) s _ (opPick_ok M s h)
        · exact OpOK_mono M 2 _ (by decide) s _ (opRoll_ok M s h)
        · exact OpOK_mono M 2 _ (by decide) s _ (opRot_ok M s h)
        · exact OpOK_mono M 1 _ (by decide) s _ (opSwap_ok M s h)
        · exact OpOK_mono M 1 _ (by decide) s _ (opTuck_ok M s h)
        · exact OpOK_mono M 4 _ (by decide) s _ (opCat_ok M s h)
        · exact OpOK_mono M 4 _ (by decide) s _ (opSubstr_ok M s h)
        · exact OpOK_mono M 4 _ (by decide) s _ (opLeft_ok M s h)
        · exact OpOK_mono M 4 _ (by decide) s _ (opRight_ok M s h)
        · exact OpOK_mono M 1 _ (by decide) s _ (opSize_ok M s h)
        · exact OpOK_mono M 1 _ (by decide) s _ (opInvert_ok M L s h)
        · exact OpOK_mono M 1 _ (by decide) s _ (opAnd_ok M s h)
        · exact OpOK_mono M 1 _ (by decide) s _ (doOr_ok M _ s h)
        · exact OpOK_mono M 1 _ (by decide) s _ (doOr_ok M _ s h)
        · exact OpOK_mono M 1 _ (by decide) s _ (opEqual_ok M s h)
        · exact OpOK_mono M 1 _ (by decide) s _ (opEqualVerify_ok M s h)
        · exact OpOK_mono M 4 _ (by decide) s _ (opCatpushdata_ok M s h)
        · exact OpOK_mono M 2 _ (by decide) s _ (unaryNum_ok M 2 (by omega) _ s h)
        · exact OpOK_mono M 2 _ (by decide) s _ (unaryNum_ok M 2 (by omega) _ s h)
        · exact OpOK_mono M 2 _ (by decide) s _ (unaryNum_ok M 2 (by omega) _ s h)
        · exact OpOK_mono M 2 _ (by decide) s _ (unaryNum_ok M 2 (by omega) _ s h)
        · exact OpOK_mono M 2 _ (by decide) s _ (unaryNum_ok M 2 (by omega) _ s h)
        · exact OpOK_mono M 2 _ (by decide) s _ (unaryNum_ok M 2 (by omega) _ s h)
        · exact OpOK_mono M 2 _ (by decide) s _ (binaryNum_ok M 2 (by omega) _ s h)
        · exact OpOK_mono M 2 _ (by decide) s _ (binaryNum_ok M 2 (by omega) _ s h)
        · exact OpOK_mono M 8 _ (by decide) s _ (binaryNum_ok M 8 (by omega) _ s h)
        · exact OpOK_mono M 8 _ (by decide) s _ (binaryNum_ok M 8 (by omega) _ s h)
        · exact OpOK_mono M 8 _ (by decide) s _ (binaryNum_ok M 8 (by omega) _ s h)
        · exact OpOK_mono M 8 _ (by decide) s _ (binaryNum_ok M 8 (by omega) _ s h)
        · exact OpOK_mono M 8 _ (by decide) s _ (binaryNum_ok M 8 (by omega) _ s h)
        · exact OpOK_mono M 2 _ (by decide) s _ (opBoolBin_ok M _ s h)
        · exact OpOK_mono M 2 _ (by decide) s _ (opBoolBin_ok M _ s h)
        · exact OpOK_mono M 2 _ (by decide) s _ (binaryNum_ok M 2 (by omega) _ s h)
        · exact OpOK_mono M 2 _ (by decide) s _ (opNumEqualVerify_ok M s h)
        · exact OpOK_mono M 2 _ (by decide) s _ (binaryNum_ok M 2 (by omega) _ s h)
        · exact OpOK_mono M 2 _ (by decide) s _ (binaryNum_ok M 2 (by omega) _ s h)
        · exact OpOK_mono M 2 _ (by decide) s _ (binaryNum_ok M 2 (by omega) _ s h)
        · exact OpOK_mono M 2 _ (by decide) s _ (binaryNum_ok M 2 (by omega) _ s h)
        · exact OpOK_mono M 2 _ (by decide) s _ (binaryNum_ok M 2 (by omega) _ s h)
        · exact OpOK_mono M 2 _ (by decide) s _ (binaryNum_ok M 2 (by omega) _ s h)
        · exact OpOK_mono M 2 _ (by decide) s _ (binaryNum_ok M 2 (by omega) _ s h)
        · exact OpOK_mono M 4 _ (by decide) s _ (opWithin_ok M s h)
        · exact OpOK_mono M 64 _ (by decide) s _ (doHash_ok M _ s h)
        · exact OpOK_mono M 64 _ (by decide) s _ (doHash_ok M _ s h)
        · exact OpOK_mono M 64 _ (by decide) s _ (opHash160_ok M ctx s h)
        · exact OpOK_mono M 1024 _ (by decide) s _ (opCheckSig_ok M ctx s h)
        · exact OpOK_mono M 0 _ (by decide) s _ (opCheckMultiSig_ok M ctx s h)
        · exact OpOK_mono M 256 _ (by decide) s _ (opTxSigHash_ok M ctx s h)
        · exact OpOK_mono M 16 _ (by decide) s _ (opCheckOutput_ok M ctx s h)
        · exact OpOK_mono M 1 _ (by decide) s _ (pushCtxItem_ok M _ s h)
        · exact OpOK_mono M 1 _ (by decide) s _ (pushCtxNum_ok M _ s h)
        · exact OpOK_mono M 1 _ (by decide) s _ (pushCtxItem_ok M _ s h)
        · exact OpOK_mono M 1 _ (by decide) s _ (pushCtxNum_ok M _ s h)
        · exact OpOK_mono M 1 _ (by decide) s _ (pushCtxItem_ok M _ s h)
        · exact OpOK_mono M 1 _ (by decide) s _ (pushCtxItem_ok M _ s h)
        · exact OpOK_mono M 1 _ (by decide) s _ (pushCtxNum_ok M _ s h)
        · simp [OpOK]

/-! ### CHECKPREDICATE prelude -/

def PreludeOK (s : St μ ι) : Res (St μ ι) (ChildSpec ι) → Prop :=
  ResP (fun c s' => frameA M s'.f - s'.f.deferred + 64 + c.limit ≤ frameA M s.f - s.f.deferred ∧
      0 ≤ s'.f.runLimit ∧ 0 ≤ c.limit ∧ s'.f.deferred + 216 ≤ s.f.deferred ∧
      c.n ≤ s'.f.data.length ∧ SameCtl s.f s'.f ∧ s'.f.nextPC = s.f.nextPC)
    (fun _ s' => frameA M s'.f ≤ frameA M s.f ∧ 0 ≤ s'.f.runLimit ∧ SameCtl s.f s'.f)

theorem cpPrelude_ok (s : St μ ι) (h : 0 ≤ s.f.runLimit) : PreludeOK M s (cpPrelude M s) := by
  obtain ⟨mem, ⟨prog, pc, nextPC, rl, d, data, alt, depth, er⟩⟩ := s
  dsimp only at h
  rcases data with _ | ⟨x1, _ | ⟨x2, _ | ⟨x3, rest⟩⟩⟩ <;>
  simp [PreludeOK, cpPrelude, bind_run, applyCost_run, popBigInt, popBytes, popInt64] <;>
  (repeat' (first | apply And.intro | intro _)) <;>
  simp_all [frameA, stackCost, itemCost, SameCtl, bigIntInt64_ok_iff] <;>
  omega

end
end BytomModel.VM
