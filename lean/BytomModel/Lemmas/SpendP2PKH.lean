/-
C02: `Verify` of the pay-to-public-key-hash signature program
  DUP HASH160 <h:20> EQUALVERIFY TXSIGHASH SWAP CHECKSIG
for arbitrary arguments: verdict = `p2pkhSpec`.
-/
import BytomModel.Lemmas.SpendRun

namespace BytomModel.Lemmas.SpendExec
open BytomModel.VM OpM

/-- `vmutil.P2PKHSigProgram(h)` for a 20-byte `h` (tied to the real builder in Ties/C02) -/
def p2pkhCode (h : Bytes) : Bytes := [0x76, 0xab, 0x14] ++ h ++ [0x88, 0xae, 0x7c, 0xac]

/-- the verdict of the program as a function of the witness (`none` = accepted) -/
def p2pkhSpec (hash160 : Bytes → Bytes) (verify : Bytes → Bytes → Bytes → Bool) (h sigHash : Bytes) (args : List Bytes) :
    Option Err :=
  match args.reverse with
  | [] => some .dataStackUnderflow
  | pk :: r =>
    if hash160 pk ≠ h then some .verifyFailed
    else match r with
      | [] => some .dataStackUnderflow
      | sg :: _ => if pk.length = 32 ∧ verify pk sigHash sg = true then none else some .falseVMResult

section
variable (h : Bytes) (hh : h.length = 20)
include hh

theorem p2pkh_len : (p2pkhCode h).length = 27 := by simp [p2pkhCode, hh]
theorem p2pkh_len_ok : (p2pkhCode h).length ≤ maxInt32 := by rw [p2pkh_len h hh]; decide

theorem pp0 : parseOpL (p2pkhCode h).length (p2pkhCode h) 0 = .ok ⟨0x76, 1, []⟩ :=
  parse_plain' _ [] (0xab :: 0x14 :: (h ++ [0x88, 0xae, 0x7c, 0xac])) 0x76 0 0x76 (by simp [p2pkhCode]) rfl (by decide)
    (p2pkh_len_ok h hh) (by decide) (by decide) (by decide) (by decide)

theorem pp1 : parseOpL (p2pkhCode h).length (p2pkhCode h) 1 = .ok ⟨0xab, 1, []⟩ :=
  parse_plain' _ [0x76] (0x14 :: (h ++ [0x88, 0xae, 0x7c, 0xac])) 0xab 1 0xab (by simp [p2pkhCode]) rfl (by decide)
    (p2pkh_len_ok h hh) (by decide) (by decide) (by decide) (by decide)

theorem pp2 : parseOpL (p2pkhCode h).length (p2pkhCode h) 2 = .ok ⟨h.length, 1 + h.length, h⟩ :=
  parse_push' _ [0x76, 0xab] h [0x88, 0xae, 0x7c, 0xac] 0x14 2 (by simp [p2pkhCode]) rfl (by rw [hh]; decide)
    (by omega) (by omega) (p2pkh_len_ok h hh)

theorem pp23 : parseOpL (p2pkhCode h).length (p2pkhCode h) 23 = .ok ⟨0x88, 1, []⟩ :=
  parse_plain' _ ([0x76, 0xab, 0x14] ++ h) [0xae, 0x7c, 0xac] 0x88 23 0x88 (by simp [p2pkhCode]) (by simp [hh]) (by decide)
    (p2pkh_len_ok h hh) (by decide) (by decide) (by decide) (by decide)

theorem pp24 : parseOpL (p2pkhCode h).length (p2pkhCode h) 24 = .ok ⟨0xae, 1, []⟩ :=
  parse_plain' _ ([0x76, 0xab, 0x14] ++ h ++ [0x88]) [0x7c, 0xac] 0xae 24 0xae (by simp [p2pkhCode]) (by simp [hh]) (by decide)
    (p2pkh_len_ok h hh) (by decide) (by decide) (by decide) (by decide)

theorem pp25 : parseOpL (p2pkhCode h).length (p2pkhCode h) 25 = .ok ⟨0x7c, 1, []⟩ :=
  parse_plain' _ ([0x76, 0xab, 0x14] ++ h ++ [0x88, 0xae]) [0xac] 0x7c 25 0x7c (by simp [p2pkhCode]) (by simp [hh]) (by decide)
    (p2pkh_len_ok h hh) (by decide) (by decide) (by decide) (by decide)

theorem pp26 : parseOpL (p2pkhCode h).length (p2pkhCode h) 26 = .ok ⟨0xac, 1, []⟩ :=
  parse_plain' _ ([0x76, 0xab, 0x14] ++ h ++ [0x88, 0xae, 0x7c]) [] 0xac 26 0xac (by simp [p2pkhCode]) (by simp [hh]) (by decide)
    (p2pkh_len_ok h hh) (by decide) (by decide) (by decide) (by decide)

/-- the verdict on the data stack (top first) -/
def p2pkhSpecS (hash160 : Bytes → Bytes) (verify : Bytes → Bytes → Bytes → Bool) (h sigHash : Bytes) (stack : List Bytes) :
    Option Err :=
  match stack with
  | [] => some .dataStackUnderflow
  | pk :: r =>
    if hash160 pk ≠ h then some .verifyFailed
    else match r with
      | [] => some .dataStackUnderflow
      | sg :: _ => if pk.length = 32 ∧ verify pk sigHash sg = true then none else some .falseVMResult

omit hh in
theorem p2pkhSpec_eq (hash160 : Bytes → Bytes) (verify : Bytes → Bytes → Bytes → Bool) (sigHash : Bytes) (args : List Bytes) :
    p2pkhSpec hash160 verify h sigHash args = p2pkhSpecS hash160 verify h sigHash args.reverse := rfl

/-- the whole run of one VM executing the program on `stack` -/
theorem p2pkh_frame (ctx : Context Bytes) (sigHash : Bytes) (hsh : ctx.txSigHash = some sigHash) (hsl : sigHash.length = 32)
    (hr : ∀ x, (ctx.ripemd160 x).length = 20) (stack : List Bytes) (np : Nat) (rl df : Int) (alt : List Bytes) (d : Nat)
    (e : Bool) (hgas : 1500 + stackCost List.length stack ≤ rl) :
    ∃ k g f' er, k ≤ 7 ∧ FSteps ctx k ⟨p2pkhCode h, 0, np, rl, df, stack, alt, d, e⟩ g ∧ FFinal ctx g f' er ∧
      verdict f' er = p2pkhSpecS ctx.ripemd160 ctx.verifySig h sigHash stack := by
  have hlen := p2pkh_len_ok h hh
  have hl27 := p2pkh_len h hh
  cases stack with
  | nil =>
    have ff := ffail ctx _ 0 np rl df [] alt d e _ _ _ (pp0 h hh) (by decide) (by decide) .dataStackUnderflow _
        (by rw [e76]; exact dup_empty _ _ _ _ _ _ _ (by simp [stackCost] at hgas; omega)) hlen (by omega)
    exact ⟨0, _, _, _, by omega, .refl _, ff, rfl⟩
  | cons pk r =>
    have hrn := stackCost_nonneg r
    simp only [stackCost] at hgas
    have hH := hr pk
    -- DUP
    have c1 := fstep ctx _ 0 np rl df (pk :: r) alt d e _ _ _ (pp0 h hh) (by decide) (by decide) _ _ _
      (by rw [e76]; exact dup_ok _ _ _ _ _ _ _ pk r (by omega)) (by omega) hlen (by omega)
    -- HASH160
    have c2 := c1.trans (fstep ctx _ _ _ _ _ _ _ _ _ _ _ _ (pp1 h hh) (by decide) (by decide) _ _ _
      (by rw [eab]; exact hash160_ok ctx _ _ _ _ _ _ _ pk (pk :: r) (by omega)) (by omega) hlen (by omega))
    -- push h
    have c3 := c2.trans (fstep ctx _ _ _ _ _ _ _ _ _ _ _ _ (pp2 h hh) (by rw [hh]; decide) (by rw [hh]; decide) _ _ _
      (by rw [epush ctx h h.length (by omega) (by omega)]; exact pushdata_ok _ _ _ _ _ _ _ h _ (by omega)) (by omega) hlen
      (by omega))
    have hev := equalverify_run (p2pkhCode h) (0 + 1 + 1 + (1 + h.length)) (0 + 1 + 1 + (1 + h.length) + 1)
      (rl - (9 + pk.length) - 0 - (64 + (ctx.ripemd160 pk).length) - 0 - (9 + h.length) - 0) alt d e
      (ctx.ripemd160 pk) h (pk :: r) (by omega)
    by_cases hhash : ctx.ripemd160 pk = h
    · rw [if_pos hhash] at hev
      -- EQUALVERIFY
      have c4 := c3.trans (fstep ctx _ _ _ _ _ _ _ _ _ _ _ _ (by rw [hh]; exact pp23 h hh) (by decide) (by decide) _ _ _
        (by rw [e88]; exact hev) (by omega) hlen (by omega))
      -- TXSIGHASH
      have c5 := c4.trans (fstep ctx _ _ _ _ _ _ _ _ _ _ _ _ (by rw [hh]; exact pp24 h hh) (by decide) (by decide) _ _ _
        (by rw [eae]; exact txsighash_ok ctx _ _ _ _ _ _ _ sigHash hsh _ (by omega)) (by omega) hlen (by omega))
      -- SWAP
      have c6 := c5.trans (fstep ctx _ _ _ _ _ _ _ _ _ _ _ _ (by rw [hh]; exact pp25 h hh) (by decide) (by decide) _ _ _
        (by rw [e7c]; exact swap_ok _ _ _ _ _ _ _ sigHash pk r (by omega)) (by omega) hlen (by omega))
      cases r with
      | nil =>
        -- CHECKSIG finds no signature
        have ff := c6.fail _ _ _ (by rw [hh]; exact pp26 h hh) (by decide) (by decide) .dataStackUnderflow _
          (by rw [eac]; exact checksig_underflow2 ctx _ _ _ _ _ _ _ pk sigHash (by omega)) hlen (by omega)
        exact ⟨_, _, _, _, by omega, c6, ff, by simp [verdict, p2pkhSpecS, hhash]⟩
      | cons sg r' =>
        have hcs := checksig_run ctx (p2pkhCode h) (0 + 1 + 1 + (1 + h.length) + 1 + 1 + 1)
          (0 + 1 + 1 + (1 + h.length) + 1 + 1 + 1 + 1)
          (rl - (9 + pk.length) - 0 - (64 + (ctx.ripemd160 pk).length) - 0 - (9 + h.length) - 0 - 1 -
            ((min (ctx.ripemd160 pk).length h.length : Nat) : Int) - (0 - (8 + h.length) - (8 + (ctx.ripemd160 pk).length)) -
            (264 + sigHash.length) - 0 - 1 - 0) alt d e pk sigHash sg r' (by omega)
        have hne : ¬ sigHash.length ≠ 32 := by omega
        rw [if_neg hne] at hcs
        have hbb : ∀ b : Bool, ((boolBytes b).length : Int) ≤ 1 := by intro b; cases b <;> simp [boolBytes]
        have c7 := c6.trans (fstep ctx _ _ _ _ _ _ _ _ _ _ _ _ (by rw [hh]; exact pp26 h hh) (by decide) (by decide) _ _ _
          (by rw [eac]; exact hcs) (by have := hbb (if pk.length ≠ 32 then false else ctx.verifySig pk sigHash sg); omega)
          hlen (by omega))
        have fin := c7.done hlen (by rw [hl27, hh])
        refine ⟨_, _, _, _, by omega, c7, fin, ?_⟩
        · simp only [verdict, falseResult, p2pkhSpecS, hhash, ne_eq, not_true_eq_false, if_false, vread]
          by_cases hp : pk.length = 32
          · by_cases hv : ctx.verifySig pk sigHash sg = true
            · simp [hp, hv, boolBytes, asBool]
            · simp [hp, hv, boolBytes, asBool]
          · simp [hp, boolBytes, asBool]
    · rw [if_neg hhash] at hev
      have ff := c3.fail _ _ _ (by rw [hh]; exact pp23 h hh) (by decide) (by decide) .verifyFailed _
        (by rw [e88]; exact hev) hlen (by omega)
      exact ⟨_, _, _, _, by omega, c3, ff, by simp [verdict, p2pkhSpecS, hhash]⟩

/-- **`vm.Verify` of the P2PKH signature program**: for every witness, with enough gas and
    fuel, the verdict is `p2pkhSpec` -/
theorem p2pkh_verify (ctx : Context Bytes) (sigHash : Bytes) (hcode : ctx.code = p2pkhCode h) (hv : ctx.vmVersion = 1)
    (hsh : ctx.txSigHash = some sigHash) (hsl : sigHash.length = 32) (hr : ∀ x, (ctx.ripemd160 x).length = 20)
    (G : Int) (hg : stackCost List.length ctx.stateData + 2 * stackCost List.length ctx.arguments + 1500 ≤ G)
    (fuel : Nat) (hfuel : 8 ≤ fuel) :
    ∃ r, verifyFuel valueMem ctx fuel () G = some r ∧
      r.err = p2pkhSpec ctx.ripemd160 ctx.verifySig h sigHash ctx.arguments := by
  have h1 := stackCost_nonneg ctx.stateData
  have h2 := stackCost_nonneg ctx.arguments
  obtain ⟨k, g, f', er, hk, hs, hfin, hver⟩ := p2pkh_frame h hh ctx sigHash hsh hsl hr ctx.arguments.reverse 0
    (G - stackCost List.length ctx.stateData - stackCost List.length ctx.arguments) 0 ctx.stateData.reverse 0
    (expansionReserved ctx) (by rw [stackCost_reverse]; omega)
  rw [← hcode] at hs
  refine ⟨_, verify_of_frame ctx G hv (by omega) k g f' er hs hfin fuel (by omega), ?_⟩
  rw [p2pkhSpec_eq]
  exact hver

end
end BytomModel.Lemmas.SpendExec
