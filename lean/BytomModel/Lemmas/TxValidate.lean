/-
Lemmas about M-TxVal (`Model/TxValidate`): the parity map, the checked folds of the mux
case (they compute the TRUE integer sums whenever they succeed — via the C31 exactness
theorems about the regenerated `Gen/Checked`), the parity loop and its independence of the
iteration order, preservation of `btmValue` by the later stages, and `Fee()`.
-/
import BytomModel.Model.TxValidate
import BytomModel.Props.C31

namespace BytomModel.Lemmas.TxValidate
open BytomModel.Fixed BytomModel.Gen.Checked BytomModel.Model.TxValidate
open BytomModel.Props.C31 (Exact addInt64_exact subInt64_exact)

/-! ### checked add / sub succeed only with the exact result -/

theorem addInt64_ok {x y : Int} (hx : inI 64 x) (hy : inI 64 y) (h : (AddInt64 x y).2 = true) :
    (AddInt64 x y).1 = x + y ∧ inI 64 (x + y) := by
  have e := addInt64_exact x y hx hy
  unfold Exact at e
  by_cases f : inI 64 (x + y)
  · rw [e.1 f]; exact ⟨rfl, f⟩
  · rw [e.2 f] at h; simp at h

theorem subInt64_ok {x y : Int} (hx : inI 64 x) (hy : inI 64 y) (h : (SubInt64 x y).2 = true) :
    (SubInt64 x y).1 = x - y ∧ inI 64 (x - y) := by
  have e := subInt64_exact x y hx hy
  unfold Exact at e
  by_cases f : inI 64 (x - y)
  · rw [e.1 f]; exact ⟨rfl, f⟩
  · rw [e.2 f] at h; simp at h

theorem addInt64_fits {x y : Int} (hx : inI 64 x) (hy : inI 64 y) (f : inI 64 (x + y)) :
    AddInt64 x y = (x + y, true) := by
  have e := addInt64_exact x y hx hy
  unfold Exact at e
  exact e.1 f

theorem subInt64_fits {x y : Int} (hx : inI 64 x) (hy : inI 64 y) (f : inI 64 (x - y)) :
    SubInt64 x y = (x - y, true) := by
  have e := subInt64_exact x y hx hy
  unfold Exact at e
  exact e.1 f

theorem inI64_iff (x : Int) : inI 64 x ↔ (-9223372036854775808 ≤ x ∧ x < 9223372036854775808) := by
  unfold inI; simp

theorem inI64_zero : inI 64 0 := by rw [inI64_iff]; omega

theorem inI64_amount {n : Nat} (h : ¬ n > maxInt64) : inI 64 (n : Int) := by
  rw [inI64_iff]; unfold maxInt64 at h; omega

/-! ### the parity map -/

theorem pget_pset_same (m : PMap) (a : Nat) (v : Int) : pget (pset m a v) a = some v := by
  induction m with
  | nil => simp [pset, pget]
  | cons p t ih =>
    obtain ⟨b, w⟩ := p
    by_cases h : b = a
    · simp [pset, pget, h]
    · simp [pset, pget, h, ih]

theorem pget_pset_other (m : PMap) {a b : Nat} (v : Int) (h : a ≠ b) : pget (pset m a v) b = pget m b := by
  induction m with
  | nil => simp [pset, pget, h]
  | cons p t ih =>
    obtain ⟨c, w⟩ := p
    by_cases hc : c = a
    · subst hc; simp [pset, pget, h]
    · by_cases hb : c = b
      · subst hb; simp [pset, pget, hc]
      · simp [pset, pget, hc, hb, ih]

def keys (m : PMap) : List Nat := m.map Prod.fst

theorem pget_none_iff (m : PMap) (a : Nat) : pget m a = none ↔ a ∉ keys m := by
  induction m with
  | nil => simp [pget, keys]
  | cons p t ih =>
    obtain ⟨b, w⟩ := p
    by_cases h : b = a
    · simp [pget, keys, h]
    · have h' : ¬ a = b := fun e => h e.symm
      simp only [pget, h, if_false, ih, keys, List.map_cons, List.mem_cons, h', false_or]

theorem pget_mem {m : PMap} {a : Nat} {v : Int} (h : pget m a = some v) : (a, v) ∈ m := by
  induction m with
  | nil => simp [pget] at h
  | cons p t ih =>
    obtain ⟨b, w⟩ := p
    by_cases hb : b = a
    · simp [pget, hb] at h; subst hb; subst h; simp
    · simp [pget, hb] at h; exact List.mem_cons_of_mem _ (ih h)

theorem mem_pget {m : PMap} (hn : (keys m).Nodup) {a : Nat} {v : Int} (h : (a, v) ∈ m) : pget m a = some v := by
  induction m with
  | nil => simp at h
  | cons p t ih =>
    obtain ⟨b, w⟩ := p
    simp only [keys, List.map_cons, List.nodup_cons] at hn
    rcases List.mem_cons.mp h with e | e
    · cases e; simp [pget]
    · have hk : a ∈ keys t := List.mem_map.mpr ⟨(a, v), e, rfl⟩
      have hb : b ≠ a := fun e' => hn.1 (e' ▸ hk)
      simp [pget, hb]; exact ih hn.2 e

theorem keys_pset (m : PMap) (a : Nat) (v : Int) :
    keys (pset m a v) = if a ∈ keys m then keys m else keys m ++ [a] := by
  induction m with
  | nil => simp [pset, keys]
  | cons p t ih =>
    obtain ⟨b, w⟩ := p
    by_cases h : b = a
    · subst h; simp [pset, keys]
    · have h' : ¬ a = b := fun e => h e.symm
      simp only [pset, h, if_false, keys, List.map_cons, List.mem_cons, h', false_or]
      have := ih
      simp only [keys] at this
      rw [this]
      split <;> simp_all

theorem nodup_pset {m : PMap} (a : Nat) (v : Int) (h : (keys m).Nodup) : (keys (pset m a v)).Nodup := by
  rw [keys_pset]
  split
  · exact h
  · rename_i hn
    rw [List.nodup_append]
    refine ⟨h, by simp, ?_⟩
    intro x hx y hy
    simp at hy; subst hy
    intro e; subst e; exact hn hx

def InRange (m : PMap) : Prop := ∀ a v, pget m a = some v → inI 64 v

theorem inRange_nil : InRange [] := by intro a v h; simp [pget] at h

theorem inRange_pset {m : PMap} {a : Nat} {v : Int} (h : InRange m) (hv : inI 64 v) : InRange (pset m a v) := by
  intro b w hb
  by_cases e : a = b
  · subst e; rw [pget_pset_same] at hb; cases hb; exact hv
  · rw [pget_pset_other m v e] at hb; exact h b w hb

theorem inRange_getD {m : PMap} (h : InRange m) (a : Nat) : inI 64 ((pget m a).getD 0) := by
  cases e : pget m a with
  | none => exact inI64_zero
  | some v => exact h a v e

/-- every listed value is an int64 (stated on members, so it survives permutation) -/
def InRange' (m : PMap) : Prop := ∀ p ∈ m, inI 64 p.2

theorem inRange'_of {m : PMap} (h : InRange m) (hn : (keys m).Nodup) : InRange' m := by
  intro p hp
  obtain ⟨a, v⟩ := p
  exact h a v (mem_pget hn hp)

/-! ### true sums -/

/-- true (unbounded) sum of the amounts of asset `a` -/
def sumOf (a : Nat) : List (Nat × Nat) → Nat
  | [] => 0
  | (b, v) :: t => (if b = a then v else 0) + sumOf a t

theorem sumOf_zero_of_not_mem {a : Nat} {l : List (Nat × Nat)} (h : a ∉ l.map Prod.fst) : sumOf a l = 0 := by
  induction l with
  | nil => rfl
  | cons p t ih =>
    obtain ⟨b, v⟩ := p
    simp only [List.map_cons, List.mem_cons, not_or] at h
    have hb : ¬ b = a := fun e => h.1 e.symm
    simp [sumOf, hb, ih h.2]

/-- first loop: on success every entry is the true sum, no amount exceeds MaxInt64, keys grow
    by exactly the source assets -/
theorem addSources_spec {l : List (Nat × Nat)} : ∀ {m m' : PMap}, addSources m l = .ok m' → InRange m → (keys m).Nodup →
    InRange m' ∧ (keys m').Nodup ∧
    (∀ a, ((pget m' a).getD 0 : Int) = (pget m a).getD 0 + (sumOf a l : Nat)) ∧
    (∀ a, a ∈ keys m' ↔ a ∈ keys m ∨ a ∈ l.map Prod.fst) ∧
    (∀ p ∈ l, p.2 ≤ maxInt64) := by
  induction l with
  | nil =>
    intro m m' h hr hn
    simp [addSources] at h; subst h
    simp [sumOf, hr, hn]
  | cons p t ih =>
    intro m m' h hr hn
    obtain ⟨a, amt⟩ := p
    simp only [addSources] at h
    split at h
    · cases h
    · rename_i hamt
      split at h
      · cases h
      · rename_i hok
        have hok' : (AddInt64 ((pget m a).getD 0) (amt : Int)).2 = true := by
          cases e : (AddInt64 ((pget m a).getD 0) (amt : Int)).2 <;> simp_all
        obtain ⟨hv, hfit⟩ := addInt64_ok (inRange_getD hr a) (inI64_amount hamt) hok'
        obtain ⟨r1, r2, r3, r4, r5⟩ := ih h (inRange_pset hr (hv ▸ hfit)) (nodup_pset a _ hn)
        refine ⟨r1, r2, ?_, ?_, ?_⟩
        · intro b
          rw [r3 b]
          by_cases e : a = b
          · subst e; rw [pget_pset_same]; simp [sumOf, hv]; omega
          · rw [pget_pset_other m _ e]; simp [sumOf, e]
        · intro b
          rw [r4 b, keys_pset]
          by_cases e : a = b
          · subst e; split <;> simp_all
          · have e' : ¬ b = a := fun x => e x.symm
            split <;> simp [e']
        · intro p hp
          rcases List.mem_cons.mp hp with e | e
          · subst e; simpa using Nat.le_of_not_gt hamt
          · exact r5 p e

/-- second loop: on success every entry is (old − true sum of destinations), every destination
    asset had a key, keys are unchanged -/
theorem subDests_spec {l : List (Nat × Nat)} : ∀ {m m' : PMap}, subDests m l = .ok m' → InRange m → (keys m).Nodup →
    InRange m' ∧ (keys m').Nodup ∧
    (∀ a, ((pget m' a).getD 0 : Int) = (pget m a).getD 0 - (sumOf a l : Nat)) ∧
    (∀ a, a ∈ keys m' ↔ a ∈ keys m) ∧
    (∀ p ∈ l, p.1 ∈ keys m ∧ p.2 ≤ maxInt64) := by
  induction l with
  | nil =>
    intro m m' h hr hn
    simp [subDests] at h; subst h
    simp [sumOf, hr, hn]
  | cons p t ih =>
    intro m m' h hr hn
    obtain ⟨a, amt⟩ := p
    simp only [subDests] at h
    split at h
    · cases h
    · rename_i sum hsum
      split at h
      · cases h
      · rename_i hamt
        split at h
        · cases h
        · rename_i hok
          have hok' : (SubInt64 sum (amt : Int)).2 = true := by
            cases e : (SubInt64 sum (amt : Int)).2 <;> simp_all
          obtain ⟨hv, hfit⟩ := subInt64_ok (hr a sum hsum) (inI64_amount hamt) hok'
          obtain ⟨r1, r2, r3, r4, r5⟩ := ih h (inRange_pset hr (hv ▸ hfit)) (nodup_pset a _ hn)
          have hak : a ∈ keys m := by
            by_contra hc
            rw [← pget_none_iff] at hc; rw [hc] at hsum; cases hsum
          have hkeys : ∀ b, b ∈ keys (pset m a (SubInt64 sum (amt : Int)).1) ↔ b ∈ keys m := by
            intro b; rw [keys_pset]; simp [hak]
          refine ⟨r1, r2, ?_, ?_, ?_⟩
          · intro b
            rw [r3 b]
            by_cases e : a = b
            · subst e; rw [pget_pset_same, hsum]; simp [sumOf, hv]; omega
            · rw [pget_pset_other m _ e]; simp [sumOf, e]
          · intro b; rw [r4 b, hkeys b]
          · intro p hp
            rcases List.mem_cons.mp hp with e | e
            · subst e; exact ⟨hak, Nat.le_of_not_gt hamt⟩
            · exact ⟨(hkeys _).mp (r5 p e).1, (r5 p e).2⟩

/-! ### the parity loop -/

theorem setGas_ok {g g' : Gas} {v sz : Int} (h : setGas g v sz = .ok g') (hv : inI 64 v) :
    0 ≤ v ∧ g'.btmValue = v.toNat := by
  unfold setGas at h
  split at h
  · cases h
  · rename_i hneg
    dsimp only at h
    split at h
    · cases h
    · split at h
      · cases h
      · cases h
        refine ⟨by omega, ?_⟩
        simp only
        rw [inI64_iff] at hv
        unfold wrapU
        rw [Int.emod_eq_of_lt (by omega) (by omega)]

/-- what a successful parity loop establishes, whatever the order of the entries -/
theorem parityLoop_ok {sz : Int} : ∀ {m : PMap} {g g' : Gas}, parityLoop sz g m = .ok g' → InRange' m →
    (∀ p ∈ m, (p.1 = btm → 0 ≤ p.2) ∧ (p.1 ≠ btm → p.2 = 0)) ∧
    ((∀ p ∈ m, p.1 ≠ btm) → g' = g) ∧
    (∀ v, (btm, v) ∈ m → (keys m).Nodup → g'.btmValue = v.toNat) := by
  intro m
  induction m with
  | nil =>
    intro g g' h _
    simp [parityLoop] at h
    simp [h]
  | cons p t ih =>
    intro g g' h hr
    obtain ⟨a, x⟩ := p
    have hrt : InRange' t := fun q hq => hr q (List.mem_cons_of_mem _ hq)
    simp only [parityLoop] at h
    split at h
    · rename_i ha
      split at h
      · cases h
      · rename_i g1 hs
        obtain ⟨h0, hb⟩ := setGas_ok hs (hr (a, x) (by simp))
        obtain ⟨i1, i2, i3⟩ := ih h hrt
        refine ⟨?_, ?_, ?_⟩
        · intro p hp
          rcases List.mem_cons.mp hp with e | e
          · subst e; exact ⟨fun _ => h0, fun c => absurd ha c⟩
          · exact i1 p e
        · intro hall; exact absurd ha (hall (a, x) (by simp))
        · intro v hv hn
          simp only [keys, List.map_cons, List.nodup_cons] at hn
          rcases List.mem_cons.mp hv with e | e
          · cases e
            have : ∀ p ∈ t, p.1 ≠ btm := by
              intro p hp c
              apply hn.1
              rw [ha]; rw [← c]; exact List.mem_map.mpr ⟨p, hp, rfl⟩
            rw [i2 this]; exact hb
          · exfalso; apply hn.1; rw [ha]; exact List.mem_map.mpr ⟨(btm, v), e, rfl⟩
    · rename_i ha
      split at h
      · cases h
      · rename_i hx
        obtain ⟨i1, i2, i3⟩ := ih h hrt
        refine ⟨?_, ?_, ?_⟩
        · intro p hp
          rcases List.mem_cons.mp hp with e | e
          · subst e; exact ⟨fun c => absurd c ha, fun _ => by simpa using hx⟩
          · exact i1 p e
        · intro hall; exact i2 (fun p hp => hall p (List.mem_cons_of_mem _ hp))
        · intro v hv hn
          simp only [keys, List.map_cons, List.nodup_cons] at hn
          rcases List.mem_cons.mp hv with e | e
          · cases e; exact absurd rfl ha
          · exact i3 v e hn.2

/-- `setGas` does not look at the gas state it overwrites, except for `gasUsed` -/
theorem setGas_indep {g1 g2 g1' : Gas} {v sz : Int} (h : setGas g1 v sz = .ok g1') (e : g1.gasUsed = g2.gasUsed) :
    setGas g2 v sz = .ok g1' := by
  unfold setGas at h ⊢
  split
  · rename_i c; simp [c] at h
  · rename_i c
    simp only [c, if_false] at h
    dsimp only at h ⊢
    split
    · rename_i c2; simp [c2] at h
    · rename_i c2
      simp only [c2] at h
      split
      · rename_i c3; simp [c3] at h
      · rename_i c3
        simp only [c3] at h
        rw [← e]; exact h

/-- The parity loop gives the same answer for every iteration order of a map with distinct
    keys: Go's random `range parity` order cannot change an accepted transaction's verdict
    or gas state. -/
theorem parityLoop_perm {sz : Int} {m m' : PMap} (hp : m.Perm m') :
    (keys m).Nodup → ∀ g g', parityLoop sz g m = .ok g' → parityLoop sz g m' = .ok g' := by
  induction hp with
  | nil => intro _ g g' h; exact h
  | cons x _ ih =>
    intro hn g g' h
    obtain ⟨a, v⟩ := x
    simp only [keys, List.map_cons, List.nodup_cons] at hn
    simp only [parityLoop] at h ⊢
    split
    · rename_i ha
      simp only [ha, if_true] at h
      split at h
      · cases h
      · rename_i g1 hs
        first | exact ih hn.2 _ _ h | (rw [hs]; exact ih hn.2 _ _ h)
    · rename_i ha
      simp only [ha, if_false] at h
      split
      · rename_i hv; simp [hv] at h
      · rename_i hv
        simp only [hv, if_false] at h
        exact ih hn.2 _ _ h
  | swap x y l =>
    intro hn g g' h
    obtain ⟨a, v⟩ := x
    obtain ⟨b, w⟩ := y
    simp only [keys, List.map_cons, List.nodup_cons, List.mem_cons, not_or] at hn
    have hab : b ≠ a := hn.1.1
    simp only [parityLoop] at h ⊢
    by_cases ha : a = btm
    · have hb : b ≠ btm := fun c => hab (c.trans ha.symm)
      simp only [ha, hb, if_true, if_false] at h ⊢
      split at h
      · cases h
      · rename_i hw
        simp only [hw, if_false]
        exact h
    · by_cases hb : b = btm
      · simp only [ha, hb, if_true, if_false] at h ⊢
        split at h
        · cases h
        · rename_i g1 hs
          split at h
          · cases h
          · rename_i hv
            simp only [hv, if_false, hs]
            exact h
      · simp only [ha, hb, if_false] at h ⊢
        split at h
        · cases h
        · rename_i hw
          split at h
          · cases h
          · rename_i hv
            simp only [hv, hw, if_false]
            exact h
  | trans p1 _ ih1 ih2 =>
    intro hn g g' h
    exact ih2 ((List.Perm.nodup_iff (p1.map Prod.fst)).mp hn) _ _ (ih1 hn _ _ h)

/-! ### later stages keep `btmValue` -/

theorem updateUsage_btm {g g' : Gas} {l : Int} (h : updateUsage g l = .ok g') : g'.btmValue = g.btmValue := by
  unfold updateUsage at h
  split at h
  · cases h
  · dsimp only at h
    split at h
    · cases h
    · split at h
      · cases h
      · cases h; rfl

theorem runVM_btm {g g' : Gas} {i : Input} (h : runVM g i = .ok g') : g'.btmValue = g.btmValue := by
  unfold runVM at h
  split at h
  · cases h
  · exact updateUsage_btm h

theorem checkInput_btm {ctx : Ctx} {s0 : Nat} {lc : Bool} {idx : Nat} {g g' : Gas} {i : Input}
    (h : checkInput ctx s0 lc idx g i = .ok g') : g'.btmValue = g.btmValue := by
  unfold checkInput at h
  split at h
  · exact runVM_btm h
  · exact runVM_btm h
  · split at h
    · cases h
    · exact runVM_btm h
  · split at h
    · cases h
    · split at h
      · cases h
      · split at h
        · cases h
        · split at h
          · cases h
          · split at h
            · cases h
            · cases h; rfl

theorem checkInputs_btm {ctx : Ctx} {s0 : Nat} : ∀ {l : List Input} {idx : Nat} {g g' : Gas},
    checkInputs ctx s0 idx g l = .ok g' → g'.btmValue = g.btmValue := by
  intro l
  induction l with
  | nil => intro idx g g' h; simp [checkInputs] at h; rw [h]
  | cons i t ih =>
    intro idx g g' h
    simp only [checkInputs] at h
    split at h
    · cases h
    · rename_i g1 h1
      rw [ih h, checkInput_btm h1]

theorem chargeStorageGas_btm {g g' : Gas} (h : chargeStorageGas g = .ok g') : g'.btmValue = g.btmValue := by
  unfold chargeStorageGas at h
  dsimp only at h
  split at h
  · cases h
  · split at h
    · cases h
    · cases h; rfl

/-! ### the results loop reaches the mux exactly once -/

theorem checkResults_spec {ctx : Ctx} {order : PMap → PMap} {tx : Tx} : ∀ {outs : List Output} {st st' : Option Gas},
    checkResults ctx order tx st outs = .ok st' →
    (∀ g0, st = some g0 → st' = some g0) ∧
    (st = none → outs ≠ [] → ∃ g, checkMux ctx order tx = .ok g ∧ st' = some g) := by
  intro outs
  induction outs with
  | nil => intro st st' h; simp [checkResults] at h; subst h; simp
  | cons o t ih =>
    intro st st' h
    simp only [checkResults] at h
    split at h
    · cases h
    · split at h
      · cases h
      · rename_i g hg
        split at h
        · cases h
        · split at h
          · cases h
          · obtain ⟨j1, _⟩ := ih h
            refine ⟨?_, ?_⟩
            · intro g0 e; subst e; simp at hg; subst hg; exact j1 _ rfl
            · intro e _; subst e; simp at hg; exact ⟨g, hg, j1 _ rfl⟩

theorem validateTx_ok_mux {ctx : Ctx} {order : PMap → PMap} {tx : Tx} {g : Gas}
    (h : validateTx ctx order tx = .ok g) (hne : tx.outputs ≠ []) : checkMux ctx order tx = .ok g := by
  unfold validateTx at h
  split at h
  · cases h
  split at h
  · cases h
  split at h
  · cases h
  split at h
  · cases h
  split at h
  · cases h
  · rename_i st hst
    split at h
    · cases h
    · obtain ⟨_, j2⟩ := checkResults_spec hst
      obtain ⟨g1, hm, e⟩ := j2 rfl hne
      subst e; simp at h; subst h; exact hm

/-! ### Fee() -/

/-- true BTM total of the non-coinbase inputs -/
def btmIn : List Input → Nat
  | [] => 0
  | i :: t => (if i.kind ≠ .coinbase ∧ i.asset = btm then i.amount else 0) + btmIn t

def btmOut : List Output → Nat
  | [] => 0
  | o :: t => (if o.asset = btm then o.amount else 0) + btmOut t

theorem feeIn_eq : ∀ (l : List Input) (acc : Nat), acc + btmIn l < 2 ^ 64 → feeIn l acc = acc + btmIn l := by
  intro l
  induction l with
  | nil => intro acc _; simp [feeIn, btmIn]
  | cons i t ih =>
    intro acc h
    by_cases c : i.kind ≠ .coinbase ∧ i.asset = btm
    · have h' : acc + (i.amount + btmIn t) < 2 ^ 64 := by simpa [btmIn, c] using h
      simp only [feeIn, btmIn, if_pos c]
      rw [Nat.mod_eq_of_lt (by omega), ih _ (by omega)]; omega
    · have h' : acc + btmIn t < 2 ^ 64 := by simpa [btmIn, c] using h
      simp only [feeIn, btmIn, if_neg c]
      rw [ih _ h']; omega

theorem feeOut_eq : ∀ (l : List Output) (acc : Nat), acc + btmOut l < 2 ^ 64 → feeOut l acc = acc + btmOut l := by
  intro l
  induction l with
  | nil => intro acc _; simp [feeOut, btmOut]
  | cons o t ih =>
    intro acc h
    by_cases c : o.asset = btm
    · have h' : acc + (o.amount + btmOut t) < 2 ^ 64 := by simpa [btmOut, c] using h
      simp only [feeOut, btmOut, if_pos c]
      rw [Nat.mod_eq_of_lt (by omega), ih _ (by omega)]; omega
    · have h' : acc + btmOut t < 2 ^ 64 := by simpa [btmOut, c] using h
      simp only [feeOut, btmOut, if_neg c]
      rw [ih _ h']; omega

theorem fee_eq (tx : Tx) (hi : btmIn tx.inputs < 2 ^ 64) (ho : btmOut tx.outputs ≤ btmIn tx.inputs) :
    fee tx = btmIn tx.inputs - btmOut tx.outputs := by
  unfold fee
  rw [feeIn_eq _ 0 (by omega), feeOut_eq _ 0 (by omega)]
  simp only [Nat.zero_add]
  split <;> omega

end BytomModel.Lemmas.TxValidate
