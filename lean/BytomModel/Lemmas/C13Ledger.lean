/-
C13, ledger side: what a successful `applySpend` / `applyBlockTxs` / `ledgerReorg` implies.

`applySpend` succeeds only if every spent output, in the view at the moment it is spent,
exists, is unspent, is not an immature coinbase output and is not a still-locked vote output
(`Spendable`); `applyBlockTxs` succeeds only if every transaction's `applySpend` succeeds in the
view left by the transactions before it; `ledgerReorg` succeeds only if every attached block's
`applyBlockTxs` succeeds in the view left by the detached and the earlier attached blocks.
-/
import BytomModel.Model.NodeLedger

namespace BytomModel.Lemmas.C13
open BytomModel.Ledger BytomModel.Node BytomModel.NodeLedger

/-- the four attach-time spend rules for one output in one view -/
def Spendable (p : Params) (height : Nat) (v : View) (o : Nat) : Prop :=
  ∃ e, vget v o = some e ∧ e.spent = false ∧
    ¬ (e.typ = 1 ∧ e.height + p.coinbasePending > height) ∧
    ¬ (e.typ = 2 ∧ e.height + p.votePending > height)

/-- one step of `applySpend`, as an equation -/
theorem applySpend_cons (p : Params) (h o : Nat) (os : List Nat) (v : View) :
    applySpend p h (o :: os) v =
      match vget v o with
      | none => none
      | some e =>
        if e.spent then none
        else if e.typ == 1 && e.height + p.coinbasePending > h then none
        else if e.typ == 2 && e.height + p.votePending > h then none
        else applySpend p h os (vset v o { e with spent := true }) := by
  rfl

/-- the first spend of a successful `applySpend` was allowed, and the rest succeeded on the
    view with that output marked spent -/
theorem applySpend_cons_some {p : Params} {h o : Nat} {os : List Nat} {v v' : View}
    (hs : applySpend p h (o :: os) v = some v') :
    ∃ e, vget v o = some e ∧ e.spent = false ∧
      ¬ (e.typ = 1 ∧ e.height + p.coinbasePending > h) ∧
      ¬ (e.typ = 2 ∧ e.height + p.votePending > h) ∧
      applySpend p h os (vset v o { e with spent := true }) = some v' := by
  rw [applySpend_cons] at hs
  cases hg : vget v o with
  | none => rw [hg] at hs; cases hs
  | some e =>
    rw [hg] at hs
    simp only at hs
    by_cases h1 : e.spent = true
    · simp [h1] at hs
    · by_cases h2 : (e.typ == 1 && decide (e.height + p.coinbasePending > h)) = true
      · simp [h1, h2] at hs
      · by_cases h3 : (e.typ == 2 && decide (e.height + p.votePending > h)) = true
        · simp [h1, h2, h3] at hs
        · simp only [h1, h2, h3] at hs
          refine ⟨e, rfl, by simpa using h1, ?_, ?_, by simpa using hs⟩
          · intro ⟨a, b⟩; apply h2; simp [a, b]
          · intro ⟨a, b⟩; apply h3; simp [a, b]

theorem applySpend_head_spendable {p : Params} {h o : Nat} {os : List Nat} {v v' : View}
    (hs : applySpend p h (o :: os) v = some v') : Spendable p h v o := by
  obtain ⟨e, h1, h2, h3, h4, _⟩ := applySpend_cons_some hs
  exact ⟨e, h1, h2, h3, h4⟩

/-- every input of a successful `applySpend` was `Spendable` in the view at the moment it was
    spent (the view after the inputs before it) -/
theorem applySpend_some_spendable {p : Params} {h : Nat} :
    ∀ {ins : List Nat} {v v' : View}, applySpend p h ins v = some v' →
      ∀ (pre : List Nat) (o : Nat) (suf : List Nat), ins = pre ++ o :: suf →
        ∃ vm, applySpend p h pre v = some vm ∧ Spendable p h vm o
  | [], _, _, _, pre, o, suf, e => by cases pre <;> cases e
  | i :: is, v, v', hs, [], o, suf, e => by
    injection e with e1 e2
    subst e1
    exact ⟨v, rfl, applySpend_head_spendable hs⟩
  | i :: is, v, v', hs, q :: pre, o, suf, e => by
    injection e with e1 e2
    subst e1
    obtain ⟨en, h1, h2, h3, h4, h5⟩ := applySpend_cons_some hs
    obtain ⟨vm, hvm, hsp⟩ := applySpend_some_spendable h5 pre o suf e2
    refine ⟨vm, ?_, hsp⟩
    rw [applySpend_cons, h1]
    simp only
    have c2 : (en.typ == 1 && decide (en.height + p.coinbasePending > h)) = false := by
      cases hc : (en.typ == 1 && decide (en.height + p.coinbasePending > h)) with
      | false => rfl
      | true => exfalso; apply h3; simpa using hc
    have c3 : (en.typ == 2 && decide (en.height + p.votePending > h)) = false := by
      cases hc : (en.typ == 2 && decide (en.height + p.votePending > h)) with
      | false => rfl
      | true => exfalso; apply h4; simpa using hc
    simp [h2, c2, c3, hvm]

/-! ### the four rules, each as a refusal -/

/-- rule 1: an output that is not in the view (missing) cannot be spent -/
theorem applySpend_missing {p : Params} {h o : Nat} {os : List Nat} {v : View}
    (hm : vget v o = none) : applySpend p h (o :: os) v = none := by
  rw [applySpend_cons, hm]

/-- rule 2: an output that is already spent cannot be spent -/
theorem applySpend_spent {p : Params} {h o : Nat} {os : List Nat} {v : View} {e : Entry}
    (hg : vget v o = some e) (hsp : e.spent = true) : applySpend p h (o :: os) v = none := by
  rw [applySpend_cons, hg]; simp [hsp]

/-- rule 3: a coinbase output younger than `CoinbasePendingBlockNumber` cannot be spent -/
theorem applySpend_immature {p : Params} {h o : Nat} {os : List Nat} {v : View} {e : Entry}
    (hg : vget v o = some e) (ht : e.typ = 1) (hy : e.height + p.coinbasePending > h) :
    applySpend p h (o :: os) v = none := by
  rw [applySpend_cons, hg]
  by_cases hsp : e.spent = true
  · simp [hsp]
  · simp [hsp, ht, hy]

/-- rule 4: a vote output younger than the vote pending number cannot be spent (vetoed) -/
theorem applySpend_locked {p : Params} {h o : Nat} {os : List Nat} {v : View} {e : Entry}
    (hg : vget v o = some e) (ht : e.typ = 2) (hy : e.height + p.votePending > h) :
    applySpend p h (o :: os) v = none := by
  rw [applySpend_cons, hg]
  by_cases hsp : e.spent = true
  · simp [hsp]
  · simp [hsp, ht, hy]

/-- a prefix of the inputs already fails ⇒ the whole list fails -/
theorem applySpend_append_none {p : Params} {h : Nat} :
    ∀ (pre : List Nat) {suf : List Nat} {v : View}, applySpend p h pre v = none →
      applySpend p h (pre ++ suf) v = none
  | [], _, _, hn => by cases hn
  | o :: pre, suf, v, hn => by
    rw [List.cons_append, applySpend_cons]
    rw [applySpend_cons] at hn
    cases hg : vget v o with
    | none => rfl
    | some e =>
      rw [hg] at hn
      simp only at hn ⊢
      by_cases h1 : e.spent = true
      · simp [h1]
      · by_cases h2 : (e.typ == 1 && decide (e.height + p.coinbasePending > h)) = true
        · simp [h1, h2]
        · by_cases h3 : (e.typ == 2 && decide (e.height + p.votePending > h)) = true
          · simp [h1, h2, h3]
          · simp only [h1, h2, h3] at hn ⊢
            simp only [Bool.false_eq_true, if_false] at hn ⊢
            exact applySpend_append_none pre hn

theorem applySpend_append {p : Params} {h : Nat} :
    ∀ (pre : List Nat) {suf : List Nat} {v vm : View}, applySpend p h pre v = some vm →
      applySpend p h (pre ++ suf) v = applySpend p h suf vm
  | [], _, _, _, hs => by cases hs; rfl
  | o :: pre, suf, v, vm, hs => by
    obtain ⟨e, h1, h2, h3, h4, h5⟩ := applySpend_cons_some hs
    rw [List.cons_append, applySpend_cons, h1]
    have c2 : (e.typ == 1 && decide (e.height + p.coinbasePending > h)) = false := by
      cases hc : (e.typ == 1 && decide (e.height + p.coinbasePending > h)) with
      | false => rfl
      | true => exfalso; apply h3; simpa using hc
    have c3 : (e.typ == 2 && decide (e.height + p.votePending > h)) = false := by
      cases hc : (e.typ == 2 && decide (e.height + p.votePending > h)) with
      | false => rfl
      | true => exfalso; apply h4; simpa using hc
    simp only [h2, c2, c3, Bool.false_eq_true, if_false]
    exact applySpend_append pre h5

/-- an input that is not `Spendable` at its turn makes `applySpend` fail -/
theorem applySpend_not_spendable {p : Params} {h : Nat} {pre suf : List Nat} {o : Nat} {v vm : View}
    (hpre : applySpend p h pre v = some vm) (hbad : ¬ Spendable p h vm o) :
    applySpend p h (pre ++ o :: suf) v = none := by
  rw [applySpend_append pre hpre]
  cases hr : applySpend p h (o :: suf) vm with
  | none => rfl
  | some v' => exact absurd (applySpend_head_spendable hr) hbad

/-! ### blocks -/

theorem applyBlockTxs_cons (p : Params) (h : Nat) (first : Bool) (t : Tx) (ts : List Tx) (v : View) :
    applyBlockTxs p h first (t :: ts) v =
      match applySpend p h t.ins v with
      | none => none
      | some v1 => applyBlockTxs p h false ts (applyOutput h first t.outs v1) := by
  rfl

/-- `TxOK p h first v txs pre t`: inside the block `txs = pre ++ t :: _` applied on view `v`,
    the transactions before `t` succeeded and every input of `t` is spendable at its turn -/
def InputsSpendable (p : Params) (h : Nat) (v : View) (ins : List Nat) : Prop :=
  ∀ (pre : List Nat) (o : Nat) (suf : List Nat), ins = pre ++ o :: suf →
    ∃ vm, applySpend p h pre v = some vm ∧ Spendable p h vm o

/-- `applyBlockTxs` succeeds only if every transaction, in the view left by the transactions
    before it, spends only spendable outputs -/
theorem applyBlockTxs_some_inputs {p : Params} {h : Nat} :
    ∀ {txs : List Tx} {first : Bool} {v v' : View}, applyBlockTxs p h first txs v = some v' →
      ∀ (pre : List Tx) (t : Tx) (suf : List Tx), txs = pre ++ t :: suf →
        ∃ vm, applyBlockTxs p h first pre v = some vm ∧ InputsSpendable p h vm t.ins
  | [], _, _, _, _, pre, t, suf, e => by cases pre <;> cases e
  | x :: xs, first, v, v', hs, [], t, suf, e => by
    injection e with e1 e2
    subst e1
    refine ⟨v, rfl, ?_⟩
    rw [applyBlockTxs_cons] at hs
    cases hsp : applySpend p h x.ins v with
    | none => rw [hsp] at hs; cases hs
    | some v1 => exact fun pre o suf e => applySpend_some_spendable hsp pre o suf e
  | x :: xs, first, v, v', hs, q :: pre, t, suf, e => by
    injection e with e1 e2
    subst e1
    rw [applyBlockTxs_cons] at hs
    cases hsp : applySpend p h x.ins v with
    | none => rw [hsp] at hs; cases hs
    | some v1 =>
      rw [hsp] at hs
      obtain ⟨vm, hvm, hin⟩ := applyBlockTxs_some_inputs hs pre t suf e2
      refine ⟨vm, ?_, hin⟩
      rw [applyBlockTxs_cons, hsp]
      exact hvm

theorem applyBlockTxs_append {p : Params} {h : Nat} :
    ∀ (pre : List Tx) {suf : List Tx} {first : Bool} {v vm : View},
      applyBlockTxs p h first pre v = some vm →
      applyBlockTxs p h first (pre ++ suf) v = applyBlockTxs p h (first && pre.isEmpty) suf vm
  | [], _, first, _, _, hs => by cases hs; simp
  | x :: xs, suf, first, v, vm, hs => by
    rw [applyBlockTxs_cons] at hs
    rw [List.cons_append, applyBlockTxs_cons]
    cases hsp : applySpend p h x.ins v with
    | none => rw [hsp] at hs; cases hs
    | some v1 =>
      rw [hsp] at hs
      simp only
      rw [applyBlockTxs_append xs hs]
      simp

theorem applyBlockTxs_append_none {p : Params} {h : Nat} :
    ∀ (pre : List Tx) {suf : List Tx} {first : Bool} {v : View},
      applyBlockTxs p h first pre v = none → applyBlockTxs p h first (pre ++ suf) v = none
  | [], _, _, _, hn => by cases hn
  | x :: xs, suf, first, v, hn => by
    rw [applyBlockTxs_cons] at hn
    rw [List.cons_append, applyBlockTxs_cons]
    cases hsp : applySpend p h x.ins v with
    | none => rfl
    | some v1 =>
      rw [hsp] at hn
      exact applyBlockTxs_append_none xs hn

/-- a transaction with an input that is not spendable at its turn makes the block fail -/
theorem applyBlockTxs_bad_input {p : Params} {h : Nat} {pre suf : List Tx} {t : Tx} {first : Bool}
    {v vm vi : View} {ipre isuf : List Nat} {o : Nat}
    (hpre : applyBlockTxs p h first pre v = some vm)
    (hins : t.ins = ipre ++ o :: isuf) (hip : applySpend p h ipre vm = some vi)
    (hbad : ¬ Spendable p h vi o) :
    applyBlockTxs p h first (pre ++ t :: suf) v = none := by
  rw [applyBlockTxs_append pre hpre, applyBlockTxs_cons, hins, applySpend_not_spendable hip hbad]

/-! ### reorganisation -/

/-- the attach loop of `ledgerReorg` -/
def attachStep (s : NodeLedger.State) (acc : Option (View × CMap)) (a : Header) : Option (View × CMap) :=
  match acc with
  | none => none
  | some (v, ca) =>
    let txs := s.txsOf a.id
    match applyBlockTxs s.params a.height true txs (loadSpent s.utxo txs v) with
    | none => none
    | some v' => some (v', contractAttach txs ca)

/-- the detach loop of `ledgerReorg` -/
def detachStep (s : NodeLedger.State) (acc : Option (View × CMap)) (d : Header) : Option (View × CMap) :=
  match acc with
  | none => none
  | some (v, cd) =>
    let txs := s.txsOf d.id
    match detachBlockTxs s.kindOf txs (loadSpent s.utxo txs v) with
    | none => none
    | some v' => some (v', contractDetach txs cd)

theorem ledgerReorg_eq (s : NodeLedger.State) (att det : List Header) :
    s.ledgerReorg att det =
      match det.foldl (detachStep s) (some (([] : View), ([] : CMap))) with
      | none => none
      | some (v1, cdet) =>
        match att.foldl (attachStep s) (some (v1, ([] : CMap))) with
        | none => none
        | some (v2, catt) => some (saveView s.utxo v2, saveContracts s.contracts catt cdet) := by
  rfl

theorem foldl_attach_none (s : NodeLedger.State) : ∀ (att : List Header), att.foldl (attachStep s) none = none
  | [] => rfl
  | _ :: as => by rw [List.foldl_cons]; exact foldl_attach_none s as

/-- the attach loop succeeds only if every block's transactions pass `applyBlockTxs` on the
    view left by the blocks before it (completed by the stored entries of the outputs it spends) -/
theorem foldl_attach_some {s : NodeLedger.State} :
    ∀ {att : List Header} {acc r : View × CMap}, att.foldl (attachStep s) (some acc) = some r →
      ∀ (pre : List Header) (a : Header) (suf : List Header), att = pre ++ a :: suf →
        ∃ vb cb v', pre.foldl (attachStep s) (some acc) = some (vb, cb) ∧
          applyBlockTxs s.params a.height true (s.txsOf a.id) (loadSpent s.utxo (s.txsOf a.id) vb) = some v'
  | [], _, _, _, pre, a, suf, e => by cases pre <;> cases e
  | x :: xs, (v, ca), r, hs, [], a, suf, e => by
    injection e with e1 e2
    subst e1
    rw [List.foldl_cons] at hs
    cases hb : applyBlockTxs s.params x.height true (s.txsOf x.id) (loadSpent s.utxo (s.txsOf x.id) v) with
    | none =>
      have : attachStep s (some (v, ca)) x = none := by simp only [attachStep, hb]
      rw [this, foldl_attach_none] at hs; cases hs
    | some v' => exact ⟨v, ca, v', rfl, hb⟩
  | x :: xs, (v, ca), r, hs, q :: pre, a, suf, e => by
    injection e with e1 e2
    subst e1
    rw [List.foldl_cons] at hs
    cases hb : applyBlockTxs s.params x.height true (s.txsOf x.id) (loadSpent s.utxo (s.txsOf x.id) v) with
    | none =>
      have : attachStep s (some (v, ca)) x = none := by simp only [attachStep, hb]
      rw [this, foldl_attach_none] at hs; cases hs
    | some v' =>
      have hx : attachStep s (some (v, ca)) x = some (v', contractAttach (s.txsOf x.id) ca) := by
        simp only [attachStep, hb]
      rw [hx] at hs
      obtain ⟨vb, cb, v2, h1, h2⟩ := foldl_attach_some hs pre a suf e2
      exact ⟨vb, cb, v2, by rw [List.foldl_cons, hx]; exact h1, h2⟩

/-- `ledgerReorg` succeeds only if every attached block passes `applyBlockTxs` at its turn -/
theorem ledgerReorg_some_attached {s : NodeLedger.State} {att det : List Header} {r : View × CMap}
    (hr : s.ledgerReorg att det = some r) :
    ∀ (pre : List Header) (a : Header) (suf : List Header), att = pre ++ a :: suf →
      ∃ vb v', applyBlockTxs s.params a.height true (s.txsOf a.id) (loadSpent s.utxo (s.txsOf a.id) vb) = some v' := by
  intro pre a suf e
  rw [ledgerReorg_eq] at hr
  cases hd : det.foldl (detachStep s) (some (([] : View), ([] : CMap))) with
  | none => rw [hd] at hr; cases hr
  | some d =>
    obtain ⟨v1, cdet⟩ := d
    rw [hd] at hr
    simp only at hr
    cases ha : att.foldl (attachStep s) (some (v1, ([] : CMap))) with
    | none => rw [ha] at hr; cases hr
    | some r2 =>
      obtain ⟨vb, _, v', _, h2⟩ := foldl_attach_some ha pre a suf e
      exact ⟨vb, v', h2⟩

/-- a block that fails `applyBlockTxs` at its turn makes the reorganisation fail -/
theorem ledgerReorg_none_of_attach_fails {s : NodeLedger.State} {att det : List Header}
    (h : ∃ pre a suf, att = pre ++ a :: suf ∧
      ∀ vb, applyBlockTxs s.params a.height true (s.txsOf a.id) (loadSpent s.utxo (s.txsOf a.id) vb) = none) :
    s.ledgerReorg att det = none := by
  obtain ⟨pre, a, suf, e, hn⟩ := h
  cases hr : s.ledgerReorg att det with
  | none => rfl
  | some r =>
    obtain ⟨vb, v', hv⟩ := ledgerReorg_some_attached hr pre a suf e
    rw [hn vb] at hv; cases hv

/-- extension of the best block by one block: the ledger part is `applyBlockTxs` of that block
    on the stored entries of the outputs it spends -/
theorem ledgerReorg_single (s : NodeLedger.State) (a : Header) :
    s.ledgerReorg [a] [] =
      match applyBlockTxs s.params a.height true (s.txsOf a.id) (loadSpent s.utxo (s.txsOf a.id) []) with
      | none => none
      | some v' => some (saveView s.utxo v', saveContracts s.contracts (contractAttach (s.txsOf a.id) []) []) := by
  rw [ledgerReorg_eq]
  simp only [List.foldl_nil, List.foldl_cons, attachStep]
  cases applyBlockTxs s.params a.height true (s.txsOf a.id) (loadSpent s.utxo (s.txsOf a.id) []) <;> rfl

end BytomModel.Lemmas.C13
