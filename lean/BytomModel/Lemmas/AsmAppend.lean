/-
Compositionality of parsing (C09; used by the standard-program theorems): decoding depends only
on the bytes of the instruction itself.
-/
import BytomModel.Lemmas.Asm

namespace BytomModel.Lemmas.Asm
open BytomModel.Asm BytomModel.Gen

theorem specData_append {op : UInt8} {k n : Nat} {r : Bytes} {i : Inst} (t : Bytes)
    (h : specData op k n r = .ok i) : specData op k n (r ++ t) = .ok i := by
  obtain ⟨hn, rfl⟩ := specData_ok h
  unfold specData
  have : n ≤ (r ++ t).length := by simp; omega
  simp only [this, if_true, List.take_append_of_le_length hn]

/-- a successfully decoded instruction is decoded the same whatever follows it and wherever it
    stands, as long as the program counter stays inside the uint32 range -/
theorem specOp_append {pc pc' : Nat} {s : Bytes} {i : Inst} (t : Bytes)
    (h : specOp pc s = .ok i) (hpc : pc' + s.length < 4294967296) : specOp pc' (s ++ t) = .ok i := by
  cases s with
  | nil => simp [specOp] at h
  | cons op rest =>
  unfold specOp at h ⊢
  simp only [List.cons_append] at h ⊢
  by_cases b1 : Ops.OP_1 ≤ op.toNat ∧ op.toNat ≤ Ops.OP_16
  · simpa only [b1, and_self, if_true] using h
  simp only [b1, if_false] at h ⊢
  by_cases b2 : Ops.OP_DATA_1 ≤ op.toNat ∧ op.toNat ≤ Ops.OP_DATA_75
  · simp only [b2, and_self, if_true] at h ⊢
    exact specData_append t h
  simp only [b2, if_false] at h ⊢
  by_cases b3 : op.toNat = Ops.OP_PUSHDATA1
  · simp only [b3, if_true] at h ⊢
    cases rest with
    | nil => simp at h
    | cons n r => exact specData_append t h
  simp only [b3, if_false] at h ⊢
  by_cases b4 : op.toNat = Ops.OP_PUSHDATA2
  · simp only [b4, if_true] at h ⊢
    match rest, h with
    | [], h => simp at h
    | [_], h => simp at h
    | a :: b :: r, h => exact specData_append t h
  simp only [b4, if_false] at h ⊢
  by_cases b5 : op.toNat = Ops.OP_PUSHDATA4
  · simp only [b5, if_true] at h ⊢
    match rest, h, hpc with
    | [], h, _ => simp at h
    | [_], h, _ => simp at h
    | [_, _], h, _ => simp at h
    | [_, _, _], h, _ => simp at h
    | a :: b :: c :: d :: r, h, hpc =>
      simp only [List.cons_append] at h ⊢
      split at h
      · cases h
      · have hfit := (specData_ok h).1
        have : ¬ (4294967296 ≤ pc' + 5 + le32 a b c d) := by
          simp only [List.length_cons] at hpc; omega
        simp only [this, if_false]
        exact specData_append t h
  simp only [b5, if_false] at h ⊢
  by_cases b6 : op.toNat = Ops.OP_JUMP ∨ op.toNat = Ops.OP_JUMPIF
  · simp only [b6, if_true] at h ⊢
    exact specData_append t h
  simpa only [b6, if_false] using h

theorem specProg_append (f : Nat) : ∀ (g pc pc' : Nat) (a b : Bytes) (ia ib : List Inst),
    specProg f pc a = .ok ia → specProg g (pc' + a.length) b = .ok ib →
    pc' + a.length < 4294967296 → specProg (f + g) pc' (a ++ b) = .ok (ia ++ ib) := by
  induction f with
  | zero => intro g pc pc' a b ia ib h; simp [specProg] at h
  | succ f ih =>
    intro g pc pc' a b ia ib ha hb hpc
    cases a with
    | nil =>
      unfold specProg at ha
      simp only [] at ha
      injection ha with ha; subst ha
      simp only [List.nil_append, List.length_nil, Nat.add_zero] at hb ⊢
      have := specProg_mono g pc' b ib (f + 1) hb
      rwa [Nat.add_comm g (f + 1)] at this
    | cons x t =>
      have e : f + 1 + g = (f + g) + 1 := by omega
      rw [e]
      unfold specProg at ha
      simp only [] at ha
      cases hsp : specOp pc (x :: t) with
      | error e' => rw [hsp] at ha; cases ha
      | ok i =>
        rw [hsp] at ha
        simp only [] at ha
        cases hrec : specProg f (pc + i.len) ((x :: t).drop i.len) with
        | error e' => rw [hrec] at ha; cases ha
        | ok rest =>
          rw [hrec] at ha
          injection ha with ha; subst ha
          obtain ⟨hle, henc⟩ := specOp_ok hsp
          have hsp' := specOp_append (pc' := pc') b hsp (by omega)
          have hd : ((x :: t) ++ b).drop i.len = (x :: t).drop i.len ++ b := by
            rw [List.drop_append_of_le_length hle]
          have hlen2 : pc' + i.len + ((x :: t).drop i.len).length = pc' + (x :: t).length := by
            rw [List.length_drop]; omega
          have := ih g (pc + i.len) (pc' + i.len) ((x :: t).drop i.len) b rest ib hrec
            (by rw [hlen2]; exact hb) (by rw [hlen2]; exact hpc)
          have e2 : (x :: t) ++ b = x :: (t ++ b) := rfl
          rw [e2] at hsp' hd ⊢
          conv => lhs; unfold specProg
          simp only [hsp']
          rw [hd, this]
          rfl

/-- a successful decoding does not depend on the program counter it is run at -/
theorem specProg_rebase (f : Nat) : ∀ (pc pc' : Nat) (s : Bytes) (is : List Inst),
    specProg f pc s = .ok is → pc' + s.length < 4294967296 → specProg f pc' s = .ok is := by
  induction f with
  | zero => intro pc pc' s is h; simp [specProg] at h
  | succ f ih =>
    intro pc pc' s is h hpc
    cases s with
    | nil => exact h
    | cons x t =>
      unfold specProg at h ⊢
      simp only [] at h ⊢
      cases hsp : specOp pc (x :: t) with
      | error e' => rw [hsp] at h; cases h
      | ok i =>
        rw [hsp] at h
        simp only [] at h
        cases hrec : specProg f (pc + i.len) ((x :: t).drop i.len) with
        | error e' => rw [hrec] at h; cases h
        | ok rest =>
          rw [hrec] at h
          obtain ⟨hle, henc⟩ := specOp_ok hsp
          have hsp' := specOp_append (pc' := pc') [] hsp hpc
          rw [List.append_nil] at hsp'
          have := ih (pc + i.len) (pc' + i.len) ((x :: t).drop i.len) rest hrec (by
            rw [List.length_drop]; omega)
          simp only [hsp', this]
          exact h

/-- `s.length + 1` units of fuel are always enough -/
theorem specProg_enough (f : Nat) : ∀ (g pc : Nat) (s : Bytes) (is : List Inst),
    specProg f pc s = .ok is → s.length < g → specProg g pc s = .ok is := by
  induction f with
  | zero => intro g pc s is h; simp [specProg] at h
  | succ f ih =>
    intro g pc s is h hg
    cases g with
    | zero => omega
    | succ g =>
      cases s with
      | nil => exact h
      | cons x t =>
        unfold specProg at h ⊢
        simp only [] at h ⊢
        cases hsp : specOp pc (x :: t) with
        | error e' => rw [hsp] at h; cases h
        | ok i =>
          rw [hsp] at h
          simp only [] at h ⊢
          cases hrec : specProg f (pc + i.len) ((x :: t).drop i.len) with
          | error e' => rw [hrec] at h; cases h
          | ok rest =>
            rw [hrec] at h
            obtain ⟨hle, henc⟩ := specOp_ok hsp
            have hpos := henc.pos
            have := ih g (pc + i.len) ((x :: t).drop i.len) rest hrec (by
              rw [List.length_drop]; simp only [List.length_cons] at hg ⊢; omega)
            rw [this]
            exact h

/-- **parse_append.** Parsing is compositional: if `a` and `b` parse, `a ++ b` parses to the
    concatenation of their instruction lists -/
theorem parseProgram_append (a b : Bytes) (ia ib : List Inst) (hlen : (a ++ b).length ≤ maxInt32)
    (ha : parseProgram a = .ok ia) (hb : parseProgram b = .ok ib) :
    parseProgram (a ++ b) = .ok (ia ++ ib) := by
  have hl := hlen
  simp only [List.length_append, maxInt32] at hl
  rw [parseProgram_eq a (by unfold maxInt32; omega)] at ha
  rw [parseProgram_eq b (by unfold maxInt32; omega)] at hb
  have hb' : specProg (b.length + 1) (0 + a.length) b = .ok ib :=
    specProg_rebase _ _ _ _ _ hb (by omega)
  have := specProg_append (a.length + 1) (b.length + 1) 0 0 a b ia ib ha hb' (by omega)
  rw [parseProgram_eq _ hlen]
  exact specProg_enough _ _ _ _ _ this (Nat.lt_succ_self _)

end BytomModel.Lemmas.Asm
