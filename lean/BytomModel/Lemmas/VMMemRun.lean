/-
Memory footprint of whole executions: dispatch, `step`, CHECKPREDICATE, `run`, the initial
pushes of `Verify` — all change the memory only through `fresh`.
-/
import BytomModel.Lemmas.VMMem
import BytomModel.Model.VM.Run
namespace BytomModel.VM
open OpM
set_option linter.unusedVariables false

section
variable {μ ι : Type} {M : MemOps μ ι} {R : μ → μ → Prop} (H : MemRel M R) (ctx : Context ι)
include H

theorem MemR_execOp (op : Nat) (data : Bytes) : MemR R (execOp M ctx op data) := by
  unfold execOp
  split
  · exact MemR_opFalse H
  · split
    · exact MemR_opPushdata H _
    · split
      · exact MemR_opPushdata H _
      · split
        · exact MemR_opNop H
        · exact MemR_opJump H _
        · exact MemR_opJumpIf H _
        · exact MemR_opVerify H
        · exact MemR_opFail H
        · exact MemR_opToAltStack H
        · exact MemR_opFromAltStack H
        · exact MemR_op2Drop H
        · exact MemR_nDup H _
        · exact MemR_nDup H _
        · exact MemR_op2Over H
        · exact MemR_op2Rot H
        · exact MemR_op2Swap H
        · exact MemR_opIfDup H
        · exact MemR_opDepth H
        · exact MemR_opDrop H
        · exact MemR_nDup H _
        · exact MemR_opNip H
        · exact MemR_opOver H
        · exact MemR_opPick H
        · exact MemR_opRoll H
        · exact MemR_opRot H
        · exact MemR_opSwap H
        · exact MemR_opTuck H
        · exact MemR_opCat H
        · exact MemR_opSubstr H
        · exact MemR_opLeft H
        · exact MemR_opRight H
        · exact MemR_opSize H
        · exact MemR_opInvert H
        · exact MemR_opAnd H
        · exact MemR_doOr H _
        · exact MemR_doOr H _
        · exact MemR_opEqual H
        · exact MemR_opEqualVerify H
        · exact MemR_opCatpushdata H
        · exact MemR_unaryNum H _ _
        · exact MemR_unaryNum H _ _
        · exact MemR_unaryNum H _ _
        · exact MemR_unaryNum H _ _
        · exact MemR_unaryNum H _ _
        · exact MemR_unaryNum H _ _
        · exact MemR_binaryNum H _ _
        · exact MemR_binaryNum H _ _
        · exact MemR_binaryNum H _ _
        · exact MemR_binaryNum H _ _
        · exact MemR_binaryNum H _ _
        · exact MemR_binaryNum H _ _
        · exact MemR_binaryNum H _ _
        · exact MemR_opBoolBin H _
        · exact MemR_opBoolBin H _
        · exact MemR_binaryNum H _ _
        · exact MemR_opNumEqualVerify H
        · exact MemR_binaryNum H _ _
        · exact MemR_binaryNum H _ _
        · exact MemR_binaryNum H _ _
        · exact MemR_binaryNum H _ _
        · exact MemR_binaryNum H _ _
        · exact MemR_binaryNum H _ _
        · exact MemR_binaryNum H _ _
        · exact MemR_opWithin H
        · exact MemR_doHash H _
        · exact MemR_doHash H _
        · exact MemR_opHash160 H ctx
        · exact MemR_opCheckSig H ctx
        · exact MemR_opCheckMultiSig H ctx
        · exact MemR_opTxSigHash H ctx
        · exact MemR_opCheckOutput H ctx
        · exact MemR_pushCtxItem H _
        · exact MemR_pushCtxNum H _
        · exact MemR_pushCtxItem H _
        · exact MemR_pushCtxNum H _
        · exact MemR_pushCtxItem H _
        · exact MemR_pushCtxItem H _
        · exact MemR_pushCtxNum H _
        · exact MemR_panicM

theorem MemR_cpPrelude : MemR R (cpPrelude M) := by memr_op H [cpPrelude]
theorem MemR_cpPostlude (child : Frame ι) (e : Option Err) : MemR R (cpPostlude M child e) := by
  memr_op H [cpPostlude]
theorem MemR_epilogue : MemR R (epilogue : OpM (St μ ι) Unit) := by memr_op H [epilogue]

theorem MemR_frameStep : MemR R (frameStep M ctx) := by
  unfold frameStep
  refine MemR_bind H _ _ (MemR_get H) (fun s => ?_)
  refine MemR_bind H _ _ (MemR_ofExcept H _) (fun inst => ?_)
  refine MemR_bind H _ _ (MemR_modifyF H _) (fun _ => ?_)
  refine MemR_ite _ _ _ ?_ ?_
  · refine MemR_ite _ _ _ (MemR_throwE H _) ?_
    refine MemR_bind H _ _ (MemR_modifyF H _) (fun _ => ?_)
    exact MemR_bind H _ _ (MemR_applyCost H _) (fun _ => MemR_pure H _)
  · refine MemR_bind H _ _ (MemR_modifyF H _) (fun _ => ?_)
    refine MemR_ite _ _ _ ?_ ?_
    · exact MemR_bind H _ _ (MemR_cpPrelude H) (fun _ => MemR_pure H _)
    · refine MemR_bind H _ _ (MemR_execOp H ctx _ _) (fun _ => ?_)
      exact MemR_bind H _ _ (MemR_epilogue H) (fun _ => MemR_pure H _)

/-- `R` along one small step of the machine -/
def StepR (R : μ → μ → Prop) (m : Machine μ ι) : Machine μ ι ⊕ Final μ ι → Prop
  | .inl m' => R m.mem m'.mem
  | .inr (.done mem' _ _) => R m.mem mem'
  | .inr .panic => True

theorem finish_memR (mem0 mem : μ) (hm : R mem0 mem) (child : Frame ι) (e : Option Err)
    (cur0 : Frame ι) (ps0 ps : List (Frame ι)) :
    StepR R ⟨mem0, cur0, ps0⟩ (finish M mem child e ps) := by
  induction ps generalizing mem child e with
  | nil => exact hm
  | cons p ps ih =>
    unfold finish
    have h1 : MemR R (do cpPostlude M child e; epilogue : OpM (St μ ι) Unit) :=
      MemR_bind H _ _ (MemR_cpPostlude H child e) (fun _ => MemR_epilogue H)
    have h2 := h1.h ⟨mem, p⟩
    cases hr : (do cpPostlude M child e; epilogue : OpM (St μ ι) Unit) ⟨mem, p⟩ with
    | panic => trivial
    | ok u s =>
      rw [hr] at h2
      simp only [ResP_ok] at h2
      exact H.trans _ _ _ hm h2
    | err e' s =>
      rw [hr] at h2
      simp only [ResP_err] at h2
      exact ih s.mem (H.trans _ _ _ hm h2) s.f (some e')

theorem smallStep_memR (m : Machine μ ι) : StepR R m (smallStep M ctx m) := by
  obtain ⟨mem0, cur, parents⟩ := m
  unfold smallStep
  dsimp only
  split
  · exact finish_memR H mem0 mem0 (H.refl _) cur none cur parents parents
  · have h1 := (MemR_frameStep H ctx).h ⟨mem0, cur⟩
    cases hs : frameStep M ctx ⟨mem0, cur⟩ with
    | panic => trivial
    | ok a s =>
      rw [hs] at h1
      simp only [ResP_ok] at h1
      cases a with
      | continue_ => exact h1
      | enterChild c => exact h1
    | err e s =>
      rw [hs] at h1
      simp only [ResP_err] at h1
      exact finish_memR H mem0 s.mem h1 s.f (some e) cur parents parents

theorem runFuel_memR (n : Nat) (m : Machine μ ι) (mem' : μ) (f : Frame ι) (e : Option Err)
    (h : runFuel M ctx n m = some (.done mem' f e)) : R m.mem mem' := by
  induction n generalizing m with
  | zero => simp [runFuel] at h
  | succ n ih =>
    unfold runFuel at h
    have hs := smallStep_memR H ctx m
    cases hm : smallStep M ctx m with
    | inr fin =>
      rw [hm] at h hs
      simp at h
      subst h
      exact hs
    | inl m' =>
      rw [hm] at h hs
      exact H.trans _ _ _ hs (ih m' h)

theorem pushAll_memR (push : ι → OpM (St μ ι) Unit) (hp : ∀ x, MemR R (push x)) (xs : List ι) :
    MemR R (pushAll push xs) := by
  induction xs with
  | nil => unfold pushAll; exact MemR_pure H _
  | cons x xs ih => unfold pushAll; exact MemR_bind H _ _ (hp x) (fun _ => ih)

theorem initPushes_memR : MemR R (initPushes M ctx) := by
  unfold initPushes
  exact MemR_bind H _ _ (pushAll_memR H _ (MemR_pushAlt H) _)
    (fun _ => pushAll_memR H _ (fun x => MemR_pushItem H x false) _)

/-- the memory `Verify` ends with is `R`-related to the memory it started with -/
theorem verifyFuel_memR (fuel : Nat) (mem : μ) (limit : Int) (r : VerifyResult μ ι) (mem' : μ) (f : Frame ι)
    (h : verifyFuel M ctx fuel mem limit = some r) (hf : r.final = some (mem', f)) : R mem mem' := by
  unfold verifyFuel at h
  split at h
  · simp at h; subst h; simp at hf
  · have hi := (initPushes_memR H ctx).h ⟨mem, initFrame ctx limit⟩
    cases hx : initPushes M ctx ⟨mem, initFrame ctx limit⟩ with
    | panic => rw [hx] at h; simp at h; subst h; simp at hf
    | err e s =>
      rw [hx] at h hi
      simp at h; subst h
      simp at hf hi
      rw [← hf.1]; exact hi
    | ok u s =>
      rw [hx] at h hi
      simp only [ResP_ok] at hi
      simp only at h
      cases hr : runFuel M ctx fuel ⟨s.mem, s.f, []⟩ with
      | none => rw [hr] at h; simp at h
      | some fin =>
        rw [hr] at h
        cases fin with
        | panic => simp at h; subst h; simp at hf
        | done m2 f2 e2 =>
          simp at h; subst h
          simp at hf
          have := runFuel_memR H ctx fuel _ m2 f2 e2 hr
          rw [← hf.1]
          exact H.trans _ _ _ hi this

end
end BytomModel.VM
