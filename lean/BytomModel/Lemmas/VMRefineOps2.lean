/-
Handler-level refinement, part 2: the handlers with slices, indices and loops.
-/
import BytomModel.Lemmas.VMRefineOps
namespace BytomModel.VM
open OpM
set_option linter.unusedSimpArgs false
set_option linter.unusedVariables false
set_option linter.unnecessarySeqFocus false
set_option linter.unusedTactic false
set_option linter.unreachableTactic false
set_option maxHeartbeats 1000000
variable (g : Nat → Nat → Nat)

@[simp] theorem len_heapSlice (s : Slice) (lo hi : Nat) : (heapSlice s lo hi).len = hi - lo := rfl

theorem bigIntInt64_of_lt (n : Nat) (h : n < two63) : bigIntInt64 n = .ok (n : Int) :=
  (bigIntInt64_ok_iff n n).2 ⟨h, rfl⟩

syntax "vm_sim64" "[" Lean.Parser.Tactic.simpLemma,* "]" : tactic
macro_rules
  | `(tactic| vm_sim64 [$ts,*]) => `(tactic| (
      simp [FrameValid, CtxSim, CtxValid, heapMem] at * <;>
      simp [bind_run, applyCost_run, pushItem_def, pushItem_imm, popBigInt, popBytes,
        popInt64, pushBytes_imm, pushBytes_def, pushBool, pushBigInt, pushNth_run, absSt, absFrame, itemCost, heapMem, valueMem,
        FrameValid, HeapPrefix.refl, HeapPrefix.fresh, Valid.len_eq, bigIntInt64_ok_iff, *, $ts,*] <;>
      (repeat' (first | apply And.intro | intro _)) <;>
      (try subst_vars) <;>
      (try simp_all [HeapPrefix.refl, HeapPrefix.fresh, read_fresh_old, Valid_fresh_old,
        map_read_fresh_old, Valid.len_eq, len_heapSlice, bigIntInt64_of_lt]) <;>
      (try simp_all (disch := omega) [read_slice, Valid_slice, len_heapSlice, Valid.len_eq]) <;>
      (try omega) <;>
      (try (split_ifs <;> (try split_ifs) <;> first | omega | rfl |
        (simp_all [HeapPrefix.refl, HeapPrefix.fresh, read_fresh_old, Valid_fresh_old,
          map_read_fresh_old, Valid.len_eq, len_heapSlice, bigIntInt64_of_lt] <;>
         (try simp_all (disch := omega) [read_slice, Valid_slice, len_heapSlice, Valid.len_eq]) <;> (try omega)))) <;>
      (try (first
        | (apply Valid_slice <;> first | omega | (simp_all; done))
        | (rw [read_slice] <;> first | omega | (simp_all; done) | (simp; done))
        | (constructor <;> first | omega | (rw [read_slice] <;> first | omega | (simp_all; done) | (simp; done)))))))

theorem opLeft_sim (cH : Context Slice) (cv : Context Bytes) :
    OpSim cH cv (opLeft (heapMem g)) (opLeft valueMem) := by
  intro s hv hc
  obtain ⟨h, ⟨prog, pc, nextPC, rl, d, data, alt, depth, er⟩⟩ := s
  rcases data with _ | ⟨x1, _ | ⟨x2, rest⟩⟩ <;> vm_sim64 [opLeft]

theorem opRight_sim (cH : Context Slice) (cv : Context Bytes) :
    OpSim cH cv (opRight (heapMem g)) (opRight valueMem) := by
  intro s hv hc
  obtain ⟨h, ⟨prog, pc, nextPC, rl, d, data, alt, depth, er⟩⟩ := s
  rcases data with _ | ⟨x1, _ | ⟨x2, rest⟩⟩ <;> vm_sim64 [opRight]

theorem opSubstr_sim (cH : Context Slice) (cv : Context Bytes) :
    OpSim cH cv (opSubstr (heapMem g)) (opSubstr valueMem) := by
  intro s hv hc
  obtain ⟨h, ⟨prog, pc, nextPC, rl, d, data, alt, depth, er⟩⟩ := s
  rcases data with _ | ⟨x1, _ | ⟨x2, _ | ⟨x3, rest⟩⟩⟩ <;> vm_sim64 [opSubstr]

/-! ### composition: simulation for handlers returning a (memory-independent) value -/

def OpSimA {α : Type} (cH : Context Slice) (cv : Context Bytes)
    (opH : OpM (St Heap Slice) α) (opV : OpM (St Unit Bytes) α) : Prop :=
  ∀ s, FrameValid s.mem s.f → CtxSim s.mem cH cv →
    ResPP (fun a s' => opV (absSt s) = .ok a (absSt s') ∧ HeapPrefix s.mem s'.mem ∧ FrameValid s'.mem s'.f)
          (fun e s' => opV (absSt s) = .err e (absSt s') ∧ HeapPrefix s.mem s'.mem ∧ FrameValid s'.mem s'.f)
          (opV (absSt s) = .panic) (opH s)

theorem OpSim_iff_A (cH : Context Slice) (cv : Context Bytes) (x : OpM (St Heap Slice) Unit)
    (y : OpM (St Unit Bytes) Unit) : OpSim cH cv x y ↔ OpSimA cH cv x y := Iff.rfl

theorem CtxSim.prefix {h h' : Heap} (hp : HeapPrefix h h') {cH : Context Slice} {cv : Context Bytes}
    (hc : CtxSim h cH cv) : CtxSim h' cH cv :=
  ⟨hc.1.prefix hp, by rw [absCtx_prefix hp hc.1]; exact hc.2⟩

theorem OpSimA_bind {α β : Type} (cH : Context Slice) (cv : Context Bytes)
    (m1 : OpM (St Heap Slice) α) (m2 : OpM (St Unit Bytes) α)
    (f1 : α → OpM (St Heap Slice) β) (f2 : α → OpM (St Unit Bytes) β)
    (hm : OpSimA cH cv m1 m2) (hf : ∀ a, OpSimA cH cv (f1 a) (f2 a)) :
    OpSimA cH cv (m1 >>= f1) (m2 >>= f2) := by
  intro s hv hc
  have h1 := hm s hv hc
  rw [bind_run, bind_run]
  cases hr : m1 s with
  | panic => rw [hr] at h1; simp only [ResPP_panic] at h1; simp [h1]
  | err e s1 =>
    rw [hr] at h1; simp only [ResPP_err] at h1
    simp [h1.1]; exact h1.2
  | ok a s1 =>
    rw [hr] at h1; simp only [ResPP_ok] at h1
    obtain ⟨e1, p1, v1⟩ := h1
    have h2 := hf a s1 v1 (hc.prefix p1)
    simp only [Res.bindK_ok, e1]
    cases hr2 : f1 a s1 with
    | panic => rw [hr2] at h2; simp only [ResPP_panic] at h2; simpa using h2
    | err e s2 =>
      rw [hr2] at h2; simp only [ResPP_err] at h2
      simp only [ResPP_err]
      exact ⟨h2.1, p1.trans h2.2.1, h2.2.2⟩
    | ok b s2 =>
      rw [hr2] at h2; simp only [ResPP_ok] at h2
      simp only [ResPP_ok]
      exact ⟨h2.1, p1.trans h2.2.1, h2.2.2⟩

theorem OpSimA_ite {α : Type} (cH : Context Slice) (cv : Context Bytes) (c : Prop) [Decidable c]
    (x1 y1 : OpM (St Heap Slice) α) (x2 y2 : OpM (St Unit Bytes) α)
    (hx : OpSimA cH cv x1 x2) (hy : OpSimA cH cv y1 y2) :
    OpSimA cH cv (if c then x1 else y1) (if c then x2 else y2) := by
  split <;> assumption

theorem OpSimA_pure {α : Type} (cH : Context Slice) (cv : Context Bytes) (a : α) :
    OpSimA cH cv (pure a) (pure a) := by
  intro s hv hc
  simp [HeapPrefix.refl, hv]

theorem OpSimA_throwE {α : Type} (cH : Context Slice) (cv : Context Bytes) (e : Err) :
    OpSimA cH cv (throwE e : OpM _ α) (throwE e) := by
  intro s hv hc
  simp [HeapPrefix.refl, hv]

theorem OpSimA_ofExcept {α : Type} (cH : Context Slice) (cv : Context Bytes) (x : Except Err α) :
    OpSimA cH cv (ofExcept x) (ofExcept x) := by
  intro s hv hc
  cases x <;> simp [HeapPrefix.refl, hv]

theorem OpSimA_applyCost (cH : Context Slice) (cv : Context Bytes) (n : Int) :
    OpSimA cH cv (applyCost n) (applyCost n) := by
  intro s hv hc
  obtain ⟨h, ⟨prog, pc, nextPC, rl, d, data, alt, depth, er⟩⟩ := s
  vm_sim []

theorem OpSimA_popBytes (cH : Context Slice) (cv : Context Bytes) (df : Bool) :
    OpSimA cH cv (popBytes (heapMem g) df) (popBytes valueMem df) := by
  intro s hv hc
  obtain ⟨h, ⟨prog, pc, nextPC, rl, d, data, alt, depth, er⟩⟩ := s
  cases df <;> rcases data with _ | ⟨x1, rest⟩ <;> vm_sim []

theorem OpSimA_popBigInt (cH : Context Slice) (cv : Context Bytes) (d : Bool) :
    OpSimA cH cv (popBigInt (heapMem g) d) (popBigInt valueMem d) :=
  OpSimA_bind cH cv _ _ _ _ (OpSimA_popBytes g cH cv d) (fun b => OpSimA_ofExcept cH cv _)

theorem OpSimA_popInt64 (cH : Context Slice) (cv : Context Bytes) (d : Bool) :
    OpSimA cH cv (popInt64 (heapMem g) d) (popInt64 valueMem d) :=
  OpSimA_bind cH cv _ _ _ _ (OpSimA_popBigInt g cH cv d) (fun b => OpSimA_ofExcept cH cv _)

theorem OpSimA_popN (cH : Context Slice) (cv : Context Bytes) (k : Nat) :
    OpSimA cH cv (popN (heapMem g) k) (popN valueMem k) := by
  induction k with
  | zero => exact OpSimA_pure cH cv _
  | succ k ih =>
    exact OpSimA_bind cH cv _ _ _ _ (OpSimA_popBytes g cH cv true)
      (fun x => OpSimA_bind cH cv _ _ _ _ ih (fun xs => OpSimA_pure cH cv _))

theorem OpSimA_pushBool (cH : Context Slice) (cv : Context Bytes) (b df : Bool) :
    OpSimA cH cv (pushBool (heapMem g) b df) (pushBool valueMem b df) := by
  intro s hv hc
  obtain ⟨h, ⟨prog, pc, nextPC, rl, d, data, alt, depth, er⟩⟩ := s
  cases df <;> vm_sim []

end BytomModel.VM
