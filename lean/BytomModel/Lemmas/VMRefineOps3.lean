/-
Handler-level refinement, part 3: CHECKMULTISIG, ROT/ROLL/PICK, and the dispatch.
-/
import BytomModel.Lemmas.VMRefineOps2
namespace BytomModel.VM
open OpM
set_option linter.unusedSimpArgs false
set_option linter.unusedVariables false
set_option linter.unnecessarySeqFocus false
set_option linter.unusedTactic false
set_option linter.unreachableTactic false
set_option maxHeartbeats 1000000
variable (g : Nat → Nat → Nat)

theorem cmsTail2_sim (cH : Context Slice) (cv : Context Bytes) (hcv : cv.verifySig = cH.verifySig) (np ns : Int) :
    OpSimA cH cv (cmsTail2 (heapMem g) cH np ns) (cmsTail2 valueMem cv np ns) := by
  unfold cmsTail2
  refine OpSimA_bind cH cv _ _ _ _ (OpSimA_popN g cH cv _) (fun pubkeys => ?_)
  refine OpSimA_bind cH cv _ _ _ _ (OpSimA_popBytes g cH cv true) (fun msg => ?_)
  refine OpSimA_ite cH cv _ _ _ _ _ (OpSimA_throwE cH cv _) ?_
  refine OpSimA_bind cH cv _ _ _ _ (OpSimA_popN g cH cv _) (fun sigs => ?_)
  rw [hcv]
  exact OpSimA_ite cH cv _ _ _ _ _ (OpSimA_pushBool g cH cv _ _) (OpSimA_pushBool g cH cv _ _)

theorem cmsTail1_sim (cH : Context Slice) (cv : Context Bytes) (hcv : cv.verifySig = cH.verifySig) (np : Int) :
    OpSimA cH cv (cmsTail1 (heapMem g) cH np) (cmsTail1 valueMem cv np) := by
  unfold cmsTail1
  refine OpSimA_bind cH cv _ _ _ _ (OpSimA_applyCost cH cv _) (fun _ => ?_)
  refine OpSimA_bind cH cv _ _ _ _ (OpSimA_popInt64 g cH cv true) (fun ns => ?_)
  exact OpSimA_ite cH cv _ _ _ _ _ (OpSimA_throwE cH cv _) (cmsTail2_sim g cH cv hcv np ns)

theorem opCheckMultiSig_sim (cH : Context Slice) (cv : Context Bytes) (hcv : cv.verifySig = cH.verifySig) :
    OpSimA cH cv (opCheckMultiSig (heapMem g) cH) (opCheckMultiSig valueMem cv) := by
  unfold opCheckMultiSig
  refine OpSimA_bind cH cv _ _ _ _ (OpSimA_popInt64 g cH cv true) (fun np => ?_)
  exact OpSimA_ite cH cv _ _ _ _ _ (OpSimA_throwE cH cv _) (cmsTail1_sim g cH cv hcv np)

theorem valid_of_getElem? {h : Heap} {l : List Slice} (hl : ∀ a ∈ l, Valid h a) {i : Nat} {x : Slice}
    (hx : l[i]? = some x) : Valid h x := hl x (List.mem_of_getElem? hx)

/-- `rot`: a list rearrangement, identical on both sides -/
theorem rot_sim (cH : Context Slice) (cv : Context Bytes) (n : Int) :
    OpSimA cH cv (rot n : OpM (St Heap Slice) Unit) (rot n) := by
  intro s hv hc
  obtain ⟨h, ⟨prog, pc, nextPC, rl, d, data, alt, depth, er⟩⟩ := s
  obtain ⟨hv1, hv2, hv3⟩ := hv
  dsimp only at hv1 hv2 hv3
  unfold rot
  by_cases h1 : n < 1
  · simp [h1, HeapPrefix.refl, FrameValid, hv1]; exact ⟨hv2, hv3⟩
  · simp only [h1, if_false, bind_run, getF_run, Res.bindK_ok, opm_ite_apply, absSt, absFrame, List.length_map]
    by_cases h2 : (data.length : Int) < n
    · simp [h2, HeapPrefix.refl, FrameValid, hv1, absSt, absFrame]; exact ⟨hv2, hv3⟩
    · simp only [h2, if_false, List.getElem?_map]
      cases hk : data[(n - 1).toNat]? with
      | none => simp
      | some x =>
        simp only [Option.map_some, modifyF_run, ResPP_ok, absSt, absFrame, List.map_cons, List.map_append,
          List.map_take, List.map_drop]
        refine ⟨trivial, HeapPrefix.refl _, hv1, ?_, hv3⟩
        intro y hy
        rcases List.mem_cons.mp hy with rfl | hy
        · exact valid_of_getElem? hv2 hk
        · rcases List.mem_append.mp hy with hy | hy
          · exact hv2 y (List.mem_of_mem_take hy)
          · exact hv2 y (List.mem_of_mem_drop hy)

theorem opRot_sim (cH : Context Slice) (cv : Context Bytes) :
    OpSimA cH cv (opRot : OpM (St Heap Slice) Unit) (opRot : OpM (St Unit Bytes) Unit) := by
  unfold opRot
  exact OpSimA_bind cH cv _ _ _ _ (OpSimA_applyCost cH cv _) (fun _ => rot_sim cH cv 3)

theorem opRoll_sim (cH : Context Slice) (cv : Context Bytes) :
    OpSimA cH cv (opRoll (heapMem g)) (opRoll valueMem) := by
  unfold opRoll
  refine OpSimA_bind cH cv _ _ _ _ (OpSimA_applyCost cH cv _) (fun _ => ?_)
  refine OpSimA_bind cH cv _ _ _ _ (OpSimA_popBigInt g cH cv false) (fun n => ?_)
  exact OpSimA_bind cH cv _ _ _ _ (OpSimA_ofExcept cH cv _) (fun off => rot_sim cH cv off)

/-- pushing a copy of the i-th item -/
theorem pickTail_sim (cH : Context Slice) (cv : Context Bytes) (off : Int) :
    OpSimA cH cv
      (do let f ← getF
          if (f.data.length : Int) < off then throwE .dataStackUnderflow
          else if off ≤ 0 then panicM
          else pushNth (heapMem g) f.data (off - 1).toNat : OpM (St Heap Slice) Unit)
      (do let f ← getF
          if (f.data.length : Int) < off then throwE .dataStackUnderflow
          else if off ≤ 0 then panicM
          else pushNth valueMem f.data (off - 1).toNat : OpM (St Unit Bytes) Unit) := by
  intro s hv hc
  obtain ⟨h, ⟨prog, pc, nextPC, rl, d, data, alt, depth, er⟩⟩ := s
  obtain ⟨hv1, hv2, hv3⟩ := hv
  dsimp only at hv1 hv2 hv3
  simp only [bind_run, getF_run, Res.bindK_ok, opm_ite_apply, absSt, absFrame, List.length_map]
  by_cases h1 : (data.length : Int) < off
  · simp [h1, HeapPrefix.refl, FrameValid, hv1, absSt, absFrame]; exact ⟨hv2, hv3⟩
  · simp only [h1, if_false]
    by_cases h2 : off ≤ 0
    · simp [h2]
    · simp only [h2, if_false, pushNth_run, List.getElem?_map]
      cases hk : data[(off - 1).toNat]? with
      | none => simp
      | some x =>
        have hx : Valid h x := valid_of_getElem? hv2 hk
        have hl : (h.read x).length = x.len := hx
        simp only [Option.map_some, optionK_some, pushItem_imm, itemCost, heapMem, valueMem, hl]
        by_cases h3 : 8 + (x.len : Int) > rl
        · simp [h3, HeapPrefix.refl, FrameValid, hv1, absSt, absFrame]; exact ⟨hv2, hv3⟩
        · simp only [h3, if_false, ResPP_ok, absSt, absFrame, List.map_cons]
          refine ⟨trivial, HeapPrefix.refl _, hv1, ?_, hv3⟩
          intro y hy
          rcases List.mem_cons.mp hy with rfl | hy
          · exact hx
          · exact hv2 y hy

theorem opPick_sim (cH : Context Slice) (cv : Context Bytes) :
    OpSimA cH cv (opPick (heapMem g)) (opPick valueMem) := by
  unfold opPick
  refine OpSimA_bind cH cv _ _ _ _ (OpSimA_applyCost cH cv _) (fun _ => ?_)
  refine OpSimA_bind cH cv _ _ _ _ (OpSimA_popBigInt g cH cv false) (fun n => ?_)
  exact OpSimA_bind cH cv _ _ _ _ (OpSimA_ofExcept cH cv _) (fun off => pickTail_sim g cH cv off)

/-- the function-valued and scalar fields of the two contexts agree -/
def CtxFun (cH : Context Slice) (cv : Context Bytes) : Prop :=
  cv.sha256 = cH.sha256 ∧ cv.sha3 = cH.sha3 ∧ cv.verifySig = cH.verifySig ∧ cv.amount = cH.amount ∧
  cv.destPos = cH.destPos ∧ cv.blockHeight = cH.blockHeight

theorem CtxFun_of_sim {h : Heap} {cH : Context Slice} {cv : Context Bytes} (hc : CtxSim h cH cv) : CtxFun cH cv := by
  rw [hc.2]; exact ⟨rfl, rfl, rfl, rfl, rfl, rfl⟩

theorem OpSimA_panicM {α : Type} (cH : Context Slice) (cv : Context Bytes) :
    OpSimA cH cv (panicM : OpM _ α) panicM := by
  intro s hv hc; simp

/-- **every opcode handler commutes with the abstraction** -/
theorem execOp_sim (cH : Context Slice) (cv : Context Bytes) (hf : CtxFun cH cv) (op : Nat) (data : Bytes) :
    OpSimA cH cv (execOp (heapMem g) cH op data) (execOp valueMem cv op data) := by
  unfold execOp
  split
  · exact opFalse_sim g cH cv
  · split
    · exact opPushdata_sim g cH cv _
    · split
      · exact opPushdata_sim g cH cv _
      · split
        · exact opNop_sim cH cv
        · exact opJump_sim cH cv _
        · exact opJumpIf_sim g cH cv _
        · exact opVerify_sim g cH cv
        · exact opFail_sim cH cv
        · exact opToAltStack_sim cH cv
        · exact opFromAltStack_sim cH cv
        · exact op2Drop_sim g cH cv
        · exact nDup2_sim g cH cv
        · exact nDup3_sim g cH cv
        · exact op2Over_sim g cH cv
        · exact op2Rot_sim cH cv
        · exact op2Swap_sim cH cv
        · exact opIfDup_sim g cH cv
        · exact opDepth_sim g cH cv
        · exact opDrop_sim g cH cv
        · exact nDup1_sim g cH cv
        · exact opNip_sim g cH cv
        · exact opOver_sim g cH cv
        · exact opPick_sim g cH cv
        · exact opRoll_sim g cH cv
        · exact opRot_sim cH cv
        · exact opSwap_sim cH cv
        · exact opTuck_sim g cH cv
        · exact opCat_sim g cH cv
        · exact opSubstr_sim g cH cv
        · exact opLeft_sim g cH cv
        · exact opRight_sim g cH cv
        · exact opSize_sim g cH cv
        · exact opInvert_sim g cH cv
        · exact opAnd_sim g cH cv
        · exact doOr_sim g cH cv _
        · exact doOr_sim g cH cv _
        · exact opEqual_sim g cH cv
        · exact opEqualVerify_sim g cH cv
        · exact opCatpushdata_sim g cH cv
        · exact unaryNum_sim g cH cv _ _
        · exact unaryNum_sim g cH cv _ _
        · exact unaryNum_sim g cH cv _ _
        · exact unaryNum_sim g cH cv _ _
        · exact unaryNum_sim g cH cv _ _
        · exact unaryNum_sim g cH cv _ _
        · exact binaryNum_sim g cH cv _ _
        · exact binaryNum_sim g cH cv _ _
        · exact binaryNum_sim g cH cv _ _
        · exact binaryNum_sim g cH cv _ _
        · exact binaryNum_sim g cH cv _ _
        · exact binaryNum_sim g cH cv _ _
        · exact binaryNum_sim g cH cv _ _
        · exact opBoolBin_sim g cH cv _
        · exact opBoolBin_sim g cH cv _
        · exact binaryNum_sim g cH cv _ _
        · exact opNumEqualVerify_sim g cH cv
        · exact binaryNum_sim g cH cv _ _
        · exact binaryNum_sim g cH cv _ _
        · exact binaryNum_sim g cH cv _ _
        · exact binaryNum_sim g cH cv _ _
        · exact binaryNum_sim g cH cv _ _
        · exact binaryNum_sim g cH cv _ _
        · exact binaryNum_sim g cH cv _ _
        · exact opWithin_sim g cH cv
        · exact by rw [hf.1]; exact doHash_sim g cH cv _
        · exact by rw [hf.2.1]; exact doHash_sim g cH cv _
        · exact opHash160_sim g cH cv
        · exact opCheckSig_sim g cH cv
        · exact opCheckMultiSig_sim g cH cv hf.2.2.1
        · exact opTxSigHash_sim g cH cv
        · exact opCheckOutput_sim g cH cv
        · exact pushCtxItem_sim g cH cv _ _ (fun h hc => ⟨hc.1.2.2.1, by rw [hc.2]; rfl⟩)
        · exact by rw [hf.2.2.2.1]; exact pushCtxNum_sim g cH cv _
        · exact pushCtxItem_sim g cH cv _ _ (fun h hc => ⟨fun y hy => by cases hy; exact hc.1.1, by rw [hc.2]; rfl⟩)
        · exact by rw [hf.2.2.2.2.1]; exact pushCtxNum_sim g cH cv _
        · exact pushCtxItem_sim g cH cv _ _ (fun h hc => ⟨fun y hy => by cases hy; exact hc.1.2.1, by rw [hc.2]; rfl⟩)
        · exact pushCtxItem_sim g cH cv _ _ (fun h hc => ⟨hc.1.2.2.2.1, by rw [hc.2]; rfl⟩)
        · exact by rw [hf.2.2.2.2.2]; exact pushCtxNum_sim g cH cv _
        · exact OpSimA_panicM cH cv

end BytomModel.VM
