/-
Events of the node (`processBlock`, `AuthVerification`, restart) and the orphan-pool
invariant: case analysis of `processBlock`, frame of `AuthVerification` / restart, and
`Inv` is preserved by every event.
-/
import BytomModel.Lemmas.NodeOrphans
open BytomModel.Node BytomModel.Lemmas.NodeAlist BytomModel.Lemmas.NodePool BytomModel.Lemmas.NodeFrame
open BytomModel.Lemmas.NodeOrphans

namespace BytomModel.Lemmas.NodeEvents

def bestHeight (s : State) : Nat := match s.header s.best with | some h => h.height | none => 0

/-- `processBlock` answers "already processed" -/
def Early (s : State) (b : Header) : Prop :=
  ((s.header b.id).isSome || s.isOrphan b.id) = true ∧ bestHeight s ≥ b.height

/-- the state after `saveBlock b` succeeded and the waiting orphans were connected -/
def connect (s : State) (b : Header) : State :=
  State.saveSubBlock (s.saveBlock b).1.fuel (s.saveBlock b).1 b.id

theorem processBlock_eq (s : State) (b : Header) :
    s.processBlock b =
      if (((s.header b.id).isSome || s.isOrphan b.id) && decide (bestHeight s ≥ b.height)) = true then
        (s, if s.isOrphan b.id then .orphan else .ok)
      else if (s.header b.parent).isNone then (s.orphanAdd b, .orphan)
      else if (!(s.saveBlock b).2) = true then ((s.saveBlock b).1, .err)
      else (((connect s b).tryReorganize (connect s b).bestChain).1,
            if ((connect s b).tryReorganize (connect s b).bestChain).2 then .ok else .err) := by
  unfold State.processBlock bestHeight connect
  rfl

theorem processBlock_cases (s : State) (b : Header) :
    (Early s b ∧ (s.processBlock b).1 = s ∧ (s.processBlock b).2 = (if s.isOrphan b.id then .orphan else .ok)) ∨
    (¬ Early s b ∧ ¬ stored s b.parent ∧ s.processBlock b = (s.orphanAdd b, .orphan)) ∨
    (¬ Early s b ∧ stored s b.parent ∧ (s.saveBlock b).2 = false ∧ s.processBlock b = ((s.saveBlock b).1, .err)) ∨
    (¬ Early s b ∧ stored s b.parent ∧ (s.saveBlock b).2 = true ∧
      (s.processBlock b).1 = ((connect s b).tryReorganize (connect s b).bestChain).1 ∧
      (s.processBlock b).2 = (if ((connect s b).tryReorganize (connect s b).bestChain).2 then .ok else .err)) := by
  rw [processBlock_eq]
  by_cases he : Early s b
  · left
    have : (((s.header b.id).isSome || s.isOrphan b.id) && decide (bestHeight s ≥ b.height)) = true := by
      simp only [Bool.and_eq_true, decide_eq_true_eq]; exact he
    rw [if_pos this]
    exact ⟨he, rfl, rfl⟩
  · right
    have : ¬ (((s.header b.id).isSome || s.isOrphan b.id) && decide (bestHeight s ≥ b.height)) = true := by
      simp only [Bool.and_eq_true, decide_eq_true_eq]; exact he
    rw [if_neg this]
    by_cases hp : stored s b.parent
    · right
      have hp' : ¬ (s.header b.parent).isNone = true := by
        unfold stored at hp
        cases e : s.header b.parent <;> simp_all
      rw [if_neg hp']
      cases hok : (s.saveBlock b).2 with
      | false =>
        left
        refine ⟨he, hp, rfl, ?_⟩
        simp
      | true =>
        right
        refine ⟨he, hp, rfl, ?_⟩
        simp
    · left
      have hp' : (s.header b.parent).isNone = true := by
        unfold stored at hp
        cases e : s.header b.parent <;> simp_all
      rw [if_pos hp']
      exact ⟨he, hp, rfl⟩

@[simp] theorem tryReorganize_cfg (s : State) (h : Nat) : (s.tryReorganize h).1.cfg = s.cfg := (tryReorganize_frame s h).1
@[simp] theorem tryReorganize_defs (s : State) (h : Nat) : (s.tryReorganize h).1.defs = s.defs := (tryReorganize_frame s h).2.1
@[simp] theorem tryReorganize_headers (s : State) (h : Nat) : (s.tryReorganize h).1.headers = s.headers := (tryReorganize_frame s h).2.2.1
@[simp] theorem tryReorganize_ckpts (s : State) (h : Nat) : (s.tryReorganize h).1.ckpts = s.ckpts := (tryReorganize_frame s h).2.2.2.2.1
@[simp] theorem tryReorganize_tree (s : State) (h : Nat) : (s.tryReorganize h).1.tree = s.tree := (tryReorganize_frame s h).2.2.2.2.2.1
@[simp] theorem tryReorganize_orphans (s : State) (h : Nat) : (s.tryReorganize h).1.orphans = s.orphans := (tryReorganize_frame s h).2.2.2.2.2.2.1
@[simp] theorem tryReorganize_prevOrphans (s : State) (h : Nat) : (s.tryReorganize h).1.prevOrphans = s.prevOrphans := (tryReorganize_frame s h).2.2.2.2.2.2.2.1

/-- `AuthVerification` leaves the pool alone; the store keeps its ids (the target's header may
    get a new sup link) -/
theorem authVerification_frame (s : State) (o src tgt : Nat) (g : Bool) :
    (s.authVerification o src tgt g).1.orphans = s.orphans ∧
    (s.authVerification o src tgt g).1.prevOrphans = s.prevOrphans ∧
    (s.authVerification o src tgt g).1.cfg = s.cfg ∧
    (s.authVerification o src tgt g).1.defs = s.defs ∧
    ((s.authVerification o src tgt g).1.headers = s.headers ∨
      ∃ th sup, s.header tgt = some th ∧
        (s.authVerification o src tgt g).1.headers = { th with sup := sup } :: s.headers.filter (fun h => h.id != tgt)) := by
  unfold State.authVerification
  dsimp only
  repeat' split
  all_goals first
    | exact ⟨rfl, rfl, rfl, rfl, Or.inl rfl⟩
    | exact ⟨rfl, rfl, rfl, rfl, Or.inr ⟨_, _, ‹_›, rfl⟩⟩
    | exact ⟨by simp, by simp, by simp, by simp, Or.inr ⟨_, _, ‹_›, (tryReorganize_headers _ _).trans rfl⟩⟩

theorem inv_orphanAdd {U : Universe} {s : State} (hI : Inv U s) {b : Header} (hb : Coh U b)
    (hns : ¬ stored s b.id) : Inv U (s.orphanAdd b) := by
  have hp := orphanAdd_poolOnly s b
  have hst : ∀ i, stored (s.orphanAdd b) i ↔ stored s i := fun i => by rw [stored_iff, stored_iff, hp.headers]
  have ho := orphanAdd_orphans s b
  refine ⟨poolInv_orphanAdd hI.pool b, ?_, ?_, by rw [hp.headers]; exact hI.cohH, ?_⟩
  · intro o hm
    rw [hst]
    rw [ho] at hm
    by_cases e : s.isOrphan b.id = true
    · rw [if_pos e] at hm; exact hI.disjoint o hm
    · rw [if_neg e, List.mem_append] at hm
      rcases hm with hm | hm
      · exact hI.disjoint o hm
      · simp at hm; subst hm; exact hns
  · intro x hm
    rw [hst]
    rw [hp.headers] at hm
    exact hI.closed x hm
  · intro o hm
    rw [ho] at hm
    by_cases e : s.isOrphan b.id = true
    · rw [if_pos e] at hm; exact hI.cohO o hm
    · rw [if_neg e, List.mem_append] at hm
      rcases hm with hm | hm
      · exact hI.cohO o hm
      · simp at hm; subst hm; exact hb

/-- a delivered copy of a stored block whose parent is not stored has height 0 -/
theorem stored_parent_of_stored {U : Universe} {s : State} (hI : Inv U s) {b : Header} (hb : Coh U b)
    (hs : stored s b.id) : b.height = 0 ∨ stored s b.parent := by
  unfold stored State.header at hs
  cases e : lookupHeader s.headers b.id with
  | none => simp [e] at hs
  | some h =>
    obtain ⟨hm, hid⟩ := lookupHeader_some e
    have hc := hI.cohH h hm
    have hpe : h.parent = b.parent := by rw [hc.1, hb.1, hid]
    have hhe : h.height = b.height := by rw [hc.2, hb.2, hid]
    rcases hI.closed h hm with e0 | e0
    · exact Or.inl (hhe ▸ e0)
    · exact Or.inr (hpe ▸ e0)

theorem inv_tryReorganize {U : Universe} {s : State} (hI : Inv U s) (h : Nat) : Inv U (s.tryReorganize h).1 :=
  hI.of_eq (by simp) (by simp) (by simp)

/-- the connected state satisfies the invariant, for every amount of fuel -/
theorem ssb_grow {U : Universe} {s : State} (hI : Inv U s) {a : Nat} (ha : stored s a) (fuel : Nat) :
    Grow U s (State.saveSubBlock fuel s a) :=
  (ssbSpec (U := U) (R := fun _ => True) (fun _ _ _ _ _ => trivial) fuel s a hI trivial ha).1

/-- **`processBlock` preserves the orphan-pool invariant** -/
theorem inv_processBlock {U : Universe} {s : State} (hI : Inv U s) {b : Header} (hb : Coh U b) :
    Inv U (s.processBlock b).1 := by
  rcases processBlock_cases s b with ⟨_, e, _⟩ | ⟨he, hp, e⟩ | ⟨_, _, _, e⟩ | ⟨_, _, hok, e, _⟩
  · rw [e]; exact hI
  · rw [e]
    by_cases ho : s.isOrphan b.id = true
    · have : s.orphanAdd b = s := by unfold State.orphanAdd; rw [if_pos ho]
      rw [this]; exact hI
    · apply inv_orphanAdd hI hb
      intro hs
      rcases stored_parent_of_stored hI hb hs with h0 | h0
      · apply he
        unfold stored at hs
        exact ⟨by simp [hs], by omega⟩
      · exact hp h0
  · rw [e]; exact inv_saveBlock hI hb
  · rw [e]
    apply inv_tryReorganize
    exact (ssb_grow (inv_saveBlock hI hb) ((stored_saveBlock_true hok _).mpr (Or.inl rfl)) _).inv

theorem inv_replace_header {U : Universe} {s s' : State} (hI : Inv U s) (ho : s'.orphans = s.orphans)
    (hp : s'.prevOrphans = s.prevOrphans) {tgt : Nat} {th : Header} {sup : List SupLink} (ht : s.header tgt = some th)
    (hh : s'.headers = { th with sup := sup } :: s.headers.filter (fun h => h.id != tgt)) : Inv U s' := by
  obtain ⟨htm, hid⟩ := lookupHeader_some ht
  subst hid
  have hst : ∀ i, stored s' i ↔ stored s i := by
    intro i
    rw [stored_iff, stored_iff, hh]
    rw [mem_cons_filter_ids { th with sup := sup } s.headers i]
    constructor
    · rintro (e | e)
      · rw [e]; exact List.mem_map.mpr ⟨th, htm, rfl⟩
      · exact e
    · exact Or.inr
  refine ⟨by rw [ho, hp]; exact hI.pool, ?_, ?_, ?_, by rw [ho]; exact hI.cohO⟩
  · intro o hm; rw [hst]; rw [ho] at hm; exact hI.disjoint o hm
  · intro x hm
    rw [hst]
    rw [hh, List.mem_cons] at hm
    rcases hm with e | hm
    · rw [e]; exact hI.closed th htm
    · exact hI.closed x (List.mem_filter.mp hm).1
  · intro x hm
    rw [hh, List.mem_cons] at hm
    rcases hm with e | hm
    · rw [e]; exact hI.cohH th htm
    · exact hI.cohH x (List.mem_filter.mp hm).1

/-- **`AuthVerification` preserves the orphan-pool invariant** -/
theorem inv_authVerification {U : Universe} {s : State} (hI : Inv U s) (o src tgt : Nat) (g : Bool) :
    Inv U (s.authVerification o src tgt g).1 := by
  obtain ⟨ho, hp, _, _, hh | ⟨th, sup, ht, hh⟩⟩ := authVerification_frame s o src tgt g
  · exact hI.of_eq hh ho hp
  · exact inv_replace_header hI ho hp ht hh

theorem restart_frame {s s' : State} (h : s.restart = some s') :
    s'.orphans = [] ∧ s'.prevOrphans = [] ∧ s'.headers = s.headers ∧ s'.cfg = s.cfg ∧ s'.defs = s.defs := by
  unfold State.restart at h
  dsimp only at h
  repeat' split at h
  all_goals first
    | (simp at h; done)
    | (simp only [Option.some.injEq] at h; subst h; exact ⟨rfl, rfl, rfl, rfl, rfl⟩)
    | (simp only [Option.some.injEq] at h
       subst h
       -- `NewChain` re-applies the best block: `ApplyBlock` touches the casper part only
       exact ⟨(applyBlock_casperOnly _ _).orphans, (applyBlock_casperOnly _ _).prevOrphans,
         (applyBlock_casperOnly _ _).headers, (applyBlock_casperOnly _ _).cfg, (applyBlock_casperOnly _ _).defs⟩)

/-- **a restart preserves the orphan-pool invariant** (the pool is empty afterwards) -/
theorem inv_restart {U : Universe} {s s' : State} (hI : Inv U s) (h : s.restart = some s') : Inv U s' := by
  obtain ⟨ho, hp, hh, _, _⟩ := restart_frame h
  have hst : ∀ i, stored s' i ↔ stored s i := fun i => by rw [stored_iff, stored_iff, hh]
  refine ⟨by rw [ho, hp]; exact PoolInv.empty, ?_, ?_, by rw [hh]; exact hI.cohH, ?_⟩
  · intro o hm; rw [ho] at hm; simp at hm
  · intro x hm; rw [hst]; rw [hh] at hm; exact hI.closed x hm
  · intro o hm; rw [ho] at hm; simp at hm

end BytomModel.Lemmas.NodeEvents
