/-
Lemmas about the association lists (`alistGet` / `alistSet` / `alistDel`) of `Model/Node.lean`.
-/
import BytomModel.Model.Node
import Mathlib.Data.List.Nodup
open BytomModel.Node

namespace BytomModel.Lemmas.NodeAlist

/-! ### association lists -/
section alist
variable {α : Type}

def keys (l : List (Nat × α)) : List Nat := l.map (·.1)

theorem alistGet_nil (k : Nat) : alistGet ([] : List (Nat × α)) k = none := rfl

theorem alistGet_cons (p : Nat × α) (l : List (Nat × α)) (k : Nat) :
    alistGet (p :: l) k = if p.1 = k then some p.2 else alistGet l k := by
  unfold alistGet
  by_cases h : p.1 = k <;> simp [h]

theorem alistGet_eq_none {l : List (Nat × α)} {k : Nat} : alistGet l k = none ↔ k ∉ keys l := by
  induction l with
  | nil => simp [alistGet_nil, keys]
  | cons p l ih =>
    rw [alistGet_cons]
    by_cases h : p.1 = k
    · simp [h, keys]
    · simp only [h, if_false, ih, keys, List.map_cons, List.mem_cons, not_or]
      exact ⟨fun x => ⟨fun e => h e.symm, x⟩, fun x => x.2⟩

theorem alistGet_mapset (l : List (Nat × α)) (k : Nat) (v : α) (k' : Nat) :
    alistGet (l.map (fun p => if p.1 == k then (k, v) else p)) k' =
      if k' = k then (alistGet l k).map (fun _ => v) else alistGet l k' := by
  induction l with
  | nil => simp [alistGet_nil]
  | cons p l ih =>
    simp only [List.map_cons, alistGet_cons, ih]
    by_cases hp : p.1 = k
    · by_cases h : k' = k
      · simp [hp, h]
      · have : ¬ k = k' := fun e => h e.symm
        simp [hp, h, this]
    · by_cases h : k' = k
      · subst h
        simp [hp]
      · by_cases h1 : p.1 = k' <;> simp [hp, h, h1]

theorem alistGet_append_single (l : List (Nat × α)) (k : Nat) (v : α) (k' : Nat) :
    alistGet (l ++ [(k, v)]) k' = (alistGet l k').or (if k' = k then some v else none) := by
  induction l with
  | nil =>
    simp only [List.nil_append, alistGet_cons, alistGet_nil, Option.none_or]
    by_cases h : k' = k
    · simp [h]
    · have : ¬ k = k' := fun e => h e.symm
      simp [h, this]
  | cons p l ih =>
    simp only [List.cons_append, alistGet_cons, ih]
    by_cases h1 : p.1 = k' <;> simp [h1]

theorem any_key_iff (l : List (Nat × α)) (k : Nat) : (l.any fun p => p.1 == k) = true ↔ k ∈ keys l := by
  simp only [List.any_eq_true, beq_iff_eq, keys, List.mem_map]

theorem alistGet_set (l : List (Nat × α)) (k : Nat) (v : α) (k' : Nat) :
    alistGet (alistSet l k v) k' = if k' = k then some v else alistGet l k' := by
  unfold alistSet
  by_cases ha : (l.any fun p => p.1 == k) = true
  · simp only [ha, if_true, alistGet_mapset]
    by_cases h : k' = k
    · subst h
      have hk := (any_key_iff l k').mp ha
      cases hg : alistGet l k' with
      | none => exact absurd hk (alistGet_eq_none.mp hg)
      | some x => simp
    · simp [h]
  · rw [if_neg ha, alistGet_append_single]
    by_cases h : k' = k
    · subst h
      have hk : k' ∉ keys l := fun hk => ha ((any_key_iff l k').mpr hk)
      simp [alistGet_eq_none.mpr hk]
    · simp [h]

theorem keys_set (l : List (Nat × α)) (k : Nat) (v : α) :
    keys (alistSet l k v) = if k ∈ keys l then keys l else keys l ++ [k] := by
  unfold alistSet keys
  by_cases ha : (l.any fun p => p.1 == k) = true
  · have hm : k ∈ l.map (·.1) := by
      simp only [List.any_eq_true, beq_iff_eq] at ha
      obtain ⟨p, hp, e⟩ := ha
      exact List.mem_map.mpr ⟨p, hp, e⟩
    simp only [ha, if_true, hm]
    rw [List.map_map]
    apply List.map_congr_left
    intro p _
    by_cases e : p.1 = k <;> simp [e]
  · have hm : k ∉ l.map (·.1) := by
      intro hm
      apply ha
      obtain ⟨p, hp, e⟩ := List.mem_map.mp hm
      simp only [List.any_eq_true, beq_iff_eq]
      exact ⟨p, hp, e⟩
    simp [ha, hm]

theorem keys_set_nodup {l : List (Nat × α)} (h : (keys l).Nodup) (k : Nat) (v : α) :
    (keys (alistSet l k v)).Nodup := by
  rw [keys_set]
  by_cases hm : k ∈ keys l
  · simpa [hm] using h
  · simp only [hm, if_false]
    rw [List.nodup_append]
    refine ⟨h, by simp, ?_⟩
    intro a ha b hb
    simp at hb
    subst hb
    intro e; subst e; exact hm ha

theorem alistGet_del (l : List (Nat × α)) (k k' : Nat) :
    alistGet (alistDel l k) k' = if k' = k then none else alistGet l k' := by
  unfold alistDel
  induction l with
  | nil => simp [alistGet_nil]
  | cons p l ih =>
    by_cases hp : p.1 = k
    · simp only [List.filter_cons, hp, bne_self_eq_false, Bool.false_eq_true, if_false, ih, alistGet_cons]
      by_cases h : k' = k
      · simp [h]
      · have : ¬ k = k' := fun e => h e.symm
        simp [h, this]
    · have : (p.1 != k) = true := by simpa using hp
      simp only [List.filter_cons, this, if_true, alistGet_cons, ih]
      by_cases h1 : p.1 = k'
      · have : ¬ k' = k := fun e => hp (h1.trans e)
        simp [h1, this]
      · simp [h1]

theorem keys_del_nodup {l : List (Nat × α)} (h : (keys l).Nodup) (k : Nat) :
    (keys (alistDel l k)).Nodup := by
  unfold alistDel keys
  exact h.sublist ((List.filter_sublist).map _)

theorem alistGet_some_mem {l : List (Nat × α)} {k : Nat} {v : α} (h : alistGet l k = some v) : (k, v) ∈ l := by
  induction l with
  | nil => simp [alistGet_nil] at h
  | cons p l ih =>
    rw [alistGet_cons] at h
    by_cases e : p.1 = k
    · simp only [e, if_true, Option.some.injEq] at h
      have : p = (k, v) := by cases p; simp_all
      simp [this]
    · simp only [e, if_false] at h
      exact List.mem_cons_of_mem _ (ih h)

theorem alistGet_of_mem {l : List (Nat × α)} (hn : (keys l).Nodup) {k : Nat} {v : α} (h : (k, v) ∈ l) :
    alistGet l k = some v := by
  induction l with
  | nil => simp at h
  | cons p l ih =>
    rw [alistGet_cons]
    simp only [keys, List.map_cons, List.nodup_cons] at hn
    rcases List.mem_cons.mp h with e | h'
    · subst e; simp
    · have : p.1 ≠ k := by
        intro e
        apply hn.1
        rw [e]
        exact List.mem_map.mpr ⟨(k, v), h', rfl⟩
      simp only [this, if_false]
      exact ih hn.2 h'
end alist
end BytomModel.Lemmas.NodeAlist
