/-
C27: the witness materialization loop hands CHECKMULTISIG a list of signatures it accepts,
whichever `quorum` of the `n` key holders signed.
-/
import BytomModel.Model.Builder
import BytomModel.Lemmas.Multisig

set_option linter.unusedSimpArgs false
set_option linter.unusedVariables false

namespace BytomModel.Lemmas.Materialize
open BytomModel.Model.Builder BytomModel.Lemmas.Multisig BytomModel.VM

/-- slot i is empty or a signature the i-th key verifies -/
def SlotsOK (verify : Bytes → Bytes → Bool) (slots keys : List Bytes) : Prop :=
  List.Forall₂ (fun s k => s.isEmpty = true ∨ verify k s = true) slots keys

theorem materialize_spec (verify : Bytes → Bytes → Bool) : ∀ (q : Nat) (slots keys : List Bytes),
    SlotsOK verify slots keys →
    (materializeSigs q slots).length = min q (signedCount slots) ∧
    Embeds verify (materializeSigs q slots) keys := by
  intro q slots
  induction slots generalizing q with
  | nil =>
    intro keys _
    cases q <;> simp [materializeSigs, signedCount, embeds_nil]
  | cons s rest ih =>
    intro keys h
    cases h with
    | @cons _ k _ ks hk hrest =>
      cases q with
      | zero => simp [materializeSigs, embeds_nil]
      | succ q =>
        by_cases he : s.isEmpty = true
        · obtain ⟨h1, ks', hsub, hf⟩ := ih (q + 1) ks hrest
          refine ⟨?_, ks', hsub.trans (List.sublist_cons_self k ks), ?_⟩
          · simp [materializeSigs, he, signedCount, List.filter_cons] at h1 ⊢; exact h1
          · simpa [materializeSigs, he] using hf
        · have hv : verify k s = true := by
            rcases hk with hk | hk
            · exact absurd hk he
            · exact hk
          obtain ⟨h1, ks', hsub, hf⟩ := ih q ks hrest
          refine ⟨?_, k :: ks', hsub.cons_cons k, ?_⟩
          · simp only [materializeSigs, he, Bool.false_eq_true, if_false, List.length_cons, signedCount,
              List.filter_cons, Bool.not_false, if_true] at h1 ⊢
            omega
          · simp only [materializeSigs, he, Bool.false_eq_true, if_false]
            exact List.Forall₂.cons hv hf

end BytomModel.Lemmas.Materialize
