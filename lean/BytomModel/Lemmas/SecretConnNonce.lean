/-
Nonce arithmetic of the secret connection: `incrNonce` is +1 modulo 256^len on the
big-endian value, `advance n k` is +2k, the two directions of a connection use nonces of
different parity; and the ordering lemmas behind the handshake's `sort32`.
-/
import BytomModel.Model.SecretConn

namespace BytomModel.Lemmas.SecretConnNonce
open BytomModel.SecretConn

/-- little-endian value -/
def valLE : Bytes → Nat
  | [] => 0
  | b :: bs => b.toNat + 256 * valLE bs

/-- big-endian value of a nonce -/
def val (n : Bytes) : Nat := valLE n.reverse

theorem valLE_lt (l : Bytes) : valLE l < 256 ^ l.length := by
  induction l with
  | nil => simp [valLE]
  | cons b bs ih =>
    simp only [valLE, List.length_cons, Nat.pow_succ]
    have := b.toNat_lt
    omega

theorem incrLE_length (l : Bytes) : (incrLE l).length = l.length := by
  induction l with
  | nil => rfl
  | cons b bs ih => simp only [incrLE]; split <;> simp [ih]

theorem valLE_incrLE (l : Bytes) : valLE (incrLE l) = (valLE l + 1) % 256 ^ l.length := by
  induction l with
  | nil => simp [incrLE, valLE]
  | cons b bs ih =>
    simp only [incrLE]
    have hb := valLE_lt bs
    have hpos : 0 < 256 ^ bs.length := Nat.pow_pos (by decide)
    split
    · rename_i h
      subst h
      simp only [valLE, ih, List.length_cons, Nat.pow_succ]
      have : (255 : UInt8).toNat = 255 := rfl
      have h0 : (0 : UInt8).toNat = 0 := rfl
      rw [this, h0]
      -- 256 * ((v+1) % P) = (255 + 256 v + 1) % (P*256)
      have : (255 + 256 * valLE bs + 1) = 256 * (valLE bs + 1) := by omega
      rw [this, Nat.mul_comm (256 ^ bs.length) 256, Nat.mul_mod_mul_left]
      omega
    · rename_i h
      have hlt : b.toNat < 255 := by
        have := b.toNat_lt
        have hne : b.toNat ≠ 255 := fun e => h (UInt8.toNat_inj.mp (by rw [e]; rfl))
        omega
      have hb1 : (b + 1).toNat = b.toNat + 1 := by
        rw [UInt8.toNat_add]; simp; omega
      simp only [valLE, hb1, List.length_cons, Nat.pow_succ]
      rw [Nat.mod_eq_of_lt]
      · omega
      · have : b.toNat + 1 + 256 * valLE bs < 256 * 256 ^ bs.length := by
          have : valLE bs + 1 ≤ 256 ^ bs.length := hb
          calc b.toNat + 1 + 256 * valLE bs < 256 + 256 * valLE bs := by omega
            _ = 256 * (valLE bs + 1) := by omega
            _ ≤ 256 * 256 ^ bs.length := Nat.mul_le_mul_left _ this
        rw [Nat.mul_comm]; omega

theorem incrNonce_length (n : Bytes) : (incrNonce n).length = n.length := by
  simp [incrNonce, incrLE_length]

/-- `incrNonce` is +1 modulo 256^len on the big-endian value -/
theorem val_incrNonce (n : Bytes) : val (incrNonce n) = (val n + 1) % 256 ^ n.length := by
  simp [val, incrNonce, valLE_incrLE]

theorem incr2Nonce_length (n : Bytes) : (incr2Nonce n).length = n.length := by
  simp [incr2Nonce, incrNonce_length]

theorem val_incr2Nonce (n : Bytes) : val (incr2Nonce n) = (val n + 2) % 256 ^ n.length := by
  simp only [incr2Nonce, val_incrNonce, incrNonce_length]
  rw [Nat.add_mod, Nat.mod_mod, ← Nat.add_mod]

theorem advance_length (n : Bytes) (k : Nat) : (advance n k).length = n.length := by
  induction k generalizing n with
  | zero => rfl
  | succ k ih => simp [advance, ih, incr2Nonce_length]

/-- `advance n k` is +2k modulo 256^len -/
theorem val_advance (n : Bytes) (k : Nat) : val (advance n k) = (val n + 2 * k) % 256 ^ n.length := by
  induction k generalizing n with
  | zero =>
    simp only [advance, Nat.mul_zero, Nat.add_zero]
    exact (Nat.mod_eq_of_lt (by simpa [val] using valLE_lt n.reverse)).symm
  | succ k ih =>
    simp only [advance]
    rw [ih, val_incr2Nonce, incr2Nonce_length, Nat.add_mod, Nat.mod_mod, ← Nat.add_mod]
    congr 1; omega

theorem mod_lt_two (z P : Nat) (h : z < 2 * P) : z % P = if z < P then z else z - P := by
  split
  · rename_i h1; exact Nat.mod_eq_of_lt h1
  · rw [Nat.mod_eq_sub_mod (by omega), Nat.mod_eq_of_lt (by omega)]

theorem add_mod_cancel_iff (a x y P : Nat) (hP : 0 < P) : (a + x) % P = (a + y) % P ↔ x % P = y % P := by
  rw [Nat.add_mod a x, Nat.add_mod a y]
  have ha := Nat.mod_lt a hP
  have hx := Nat.mod_lt x hP
  have hy := Nat.mod_lt y hP
  generalize a % P = a' at *
  generalize x % P = x' at *
  generalize y % P = y' at *
  rw [mod_lt_two _ P (by omega), mod_lt_two _ P (by omega)]
  constructor
  · intro h; split at h <;> split at h <;> omega
  · intro h; subst h; rfl

theorem valLE_inj : ∀ (a b : Bytes), a.length = b.length → valLE a = valLE b → a = b
  | [], [], _, _ => rfl
  | [], _ :: _, h, _ => by simp at h
  | _ :: _, [], h, _ => by simp at h
  | x :: xs, y :: ys, h, hv => by
    simp only [valLE] at hv
    have hx := x.toNat_lt
    have hy := y.toNat_lt
    have h1 : x.toNat = y.toNat := by omega
    have h2 : valLE xs = valLE ys := by omega
    rw [UInt8.toNat_inj.mp h1, valLE_inj xs ys (by simpa using h) h2]

theorem val_inj (a b : Bytes) (hl : a.length = b.length) (hv : val a = val b) : a = b := by
  have := valLE_inj a.reverse b.reverse (by simpa using hl) hv
  simpa using this

/-- two frames of one direction get the same nonce only when their indices differ by a
    multiple of 256^len / 2 (2^191 for 24-byte nonces): no reuse before that many frames -/
theorem advance_eq_iff (n : Bytes) (i j : Nat) (hlen : 0 < n.length) :
    advance n i = advance n j ↔ (2 * i) % 256 ^ n.length = (2 * j) % 256 ^ n.length := by
  constructor
  · intro h
    have := congrArg val h
    rw [val_advance, val_advance] at this
    exact (add_mod_cancel_iff (val n) (2 * i) (2 * j) _ (Nat.pow_pos (by decide))).mp this
  · intro h
    apply val_inj _ _ (by rw [advance_length, advance_length])
    rw [val_advance, val_advance]
    exact (add_mod_cancel_iff (val n) (2 * i) (2 * j) _ (Nat.pow_pos (by decide))).mpr h

/-! ### parity: the two directions never share a nonce -/

theorem pow256_even (k : Nat) (h : 0 < k) : 256 ^ k % 2 = 0 := by
  cases k with
  | zero => omega
  | succ k => rw [Nat.pow_succ]; omega

theorem val_advance_parity (n : Bytes) (k : Nat) (hlen : 0 < n.length) :
    val (advance n k) % 2 = val n % 2 := by
  rw [val_advance]
  have he := pow256_even n.length hlen
  have : 2 ∣ 256 ^ n.length := Nat.dvd_of_mod_eq_zero he
  rw [Nat.mod_mod_of_dvd _ this]
  omega

theorem valLE_flip_head (b : UInt8) (bs : Bytes) : valLE ((b ^^^ 1) :: bs) % 2 ≠ valLE (b :: bs) % 2 := by
  simp only [valLE]
  have : (b ^^^ 1).toNat % 2 ≠ b.toNat % 2 := by
    rw [UInt8.toNat_xor]
    have h1 : (1 : UInt8).toNat = 1 := rfl
    rw [h1, Nat.xor_comm]
    have := Nat.testBit_xor 1 b.toNat 0
    simp only [Nat.testBit_zero] at this
    intro e
    rw [e] at this
    revert this
    cases h : b.toNat % 2 <;> simp_all
    all_goals omega
  omega

theorem flipLast_reverse : ∀ (n : Bytes), n ≠ [] → ∃ b bs, n.reverse = b :: bs ∧ (flipLast n).reverse = (b ^^^ 1) :: bs
  | [], h => absurd rfl h
  | [b], _ => ⟨b, [], rfl, rfl⟩
  | b :: c :: cs, _ => by
    obtain ⟨x, xs, h1, h2⟩ := flipLast_reverse (c :: cs) (by simp)
    refine ⟨x, xs ++ [b], ?_, ?_⟩
    · simp only [List.reverse_cons] at h1 ⊢; rw [h1]; rfl
    · simp only [flipLast, List.reverse_cons] at h2 ⊢; rw [h2]; rfl

theorem flipLast_length : ∀ (n : Bytes), (flipLast n).length = n.length
  | [] => rfl
  | [_] => rfl
  | b :: c :: cs => by simp [flipLast, flipLast_length (c :: cs)]

theorem val_flipLast_parity (n : Bytes) (h : n ≠ []) : val (flipLast n) % 2 ≠ val n % 2 := by
  obtain ⟨b, bs, h1, h2⟩ := flipLast_reverse n h
  simp only [val, h1, h2]
  exact valLE_flip_head b bs

/-! ### `bytes.Compare` -/

theorem lexLt_irrefl : ∀ (a : Bytes), lexLt a a = false
  | [] => rfl
  | x :: xs => by simp [lexLt, lexLt_irrefl xs]

theorem lexLt_asymm : ∀ (a b : Bytes), lexLt a b = true → lexLt b a = false
  | [], [], h => by simp [lexLt] at h
  | [], _ :: _, _ => rfl
  | _ :: _, [], h => by simp [lexLt] at h
  | x :: xs, y :: ys, h => by
    simp only [lexLt] at h ⊢
    by_cases h1 : x < y
    · have : ¬ y < x := by
        rw [UInt8.lt_iff_toNat_lt] at *; omega
      simp [this, h1]
    · simp only [h1, if_false] at h
      by_cases h2 : y < x
      · simp [h2] at h
      · simp only [h2, if_false] at h ⊢
        simp only [h1, if_false]
        exact lexLt_asymm xs ys h

theorem lexLt_total : ∀ (a b : Bytes), a ≠ b → lexLt a b = true ∨ lexLt b a = true
  | [], [], h => absurd rfl h
  | [], _ :: _, _ => Or.inl rfl
  | _ :: _, [], _ => Or.inr rfl
  | x :: xs, y :: ys, h => by
    simp only [lexLt]
    by_cases h1 : x < y
    · left; simp [h1]
    · by_cases h2 : y < x
      · right; simp [h2]
      · have hxy : x = y := by
          apply UInt8.toNat_inj.mp
          rw [UInt8.lt_iff_toNat_lt] at h1 h2; omega
        subst hxy
        have hne : xs ≠ ys := fun e => h (by rw [e])
        simp only [h1, if_false]
        exact lexLt_total xs ys hne

end BytomModel.Lemmas.SecretConnNonce
