/-
Helper lemmas about Go fixed-width arithmetic (`Model/Fixed`), width-generic.
Mathlib is imported here only for `nlinarith`, `interval_cases`, `by_contra`.
-/
import BytomModel.Model.Fixed
import Mathlib.Tactic.Linarith
import Mathlib.Tactic.Ring
import Mathlib.Tactic.IntervalCases

namespace BytomModel.Lemmas.Arith
open BytomModel.Fixed

theorem two_pow_succ_pred (n : Nat) (hn : 0 < n) : (2:Int) ^ n = 2 * 2 ^ (n-1) := by
  have : n = (n - 1) + 1 := by omega
  conv => lhs; rw [this, Int.pow_succ]
  omega

theorem wrapI_id (n : Nat) (x : Int) (hn : 0 < n) (h : inI n x) : wrapI n x = x := by
  unfold wrapI; unfold inI at h
  rw [two_pow_succ_pred n hn]
  have hp : (0:Int) < 2 ^ (n-1) := Int.pow_pos (by decide)
  rw [Int.emod_eq_of_lt (by omega) (by omega)]; omega

theorem wrapU_id (n : Nat) (x : Int) (h : inU n x) : wrapU n x = x := by
  unfold wrapU; unfold inU at h
  exact Int.emod_eq_of_lt h.1 h.2

/-- The four-way signed multiplication guard of `checked.MulIntN`, with `N = 2^(n-1)`:
    it fires exactly when the true product leaves `[-N, N)`. -/
theorem mul_guard (N a b : Int) (hN : 0 < N) (ha : -N ≤ a ∧ a < N) (hb : -N ≤ b ∧ b < N) :
    ((((a > 0 ∧ b > 0) ∧ a > Int.tdiv (N-1) b) ∨ ((a > 0 ∧ b ≤ 0) ∧ b < Int.tdiv (-N) a)) ∨
      ((a ≤ 0 ∧ b > 0) ∧ a < Int.tdiv (-N) b)) ∨ ((a < 0 ∧ b ≤ 0) ∧ b < Int.tdiv (N-1) a)
    ↔ ¬ (-N ≤ a * b ∧ a * b < N) := by
  rcases Int.lt_trichotomy a 0 with ha0 | ha0 | ha0
  · rcases lt_or_ge 0 b with hb0 | hb0
    · have e : Int.tdiv (-N) b = -(N / b) := by
        rw [Int.neg_tdiv, Int.tdiv_eq_ediv_of_nonneg (by omega)]
      have k : N / b < -a ↔ N < (-a) * b := Int.ediv_lt_iff_lt_mul hb0
      have s : a * b < 0 := by nlinarith
      rw [e]
      constructor
      · intro h; have : N < (-a) * b := by apply k.mp; omega
        intro hh; nlinarith
      · intro h
        have : N < (-a) * b := by
          by_contra hc
          apply h; constructor <;> nlinarith
        have := k.mpr this
        omega
    · have e : Int.tdiv (N-1) a = -((N-1) / (-a)) := by
        have : a = -(-a) := by omega
        conv => lhs; rw [this, Int.tdiv_neg, Int.tdiv_eq_ediv_of_nonneg (by omega)]
      have k : (N-1) / (-a) < -b ↔ N-1 < (-b) * (-a) := Int.ediv_lt_iff_lt_mul (by omega)
      have s : 0 ≤ a * b := by nlinarith
      rw [e]
      constructor
      · intro h; have : N - 1 < (-b) * (-a) := by apply k.mp; omega
        intro hh; nlinarith
      · intro h
        have : N - 1 < (-b) * (-a) := by
          by_contra hc
          apply h; constructor <;> nlinarith
        have := k.mpr this
        omega
  · subst ha0
    have z : (0:Int) * b = 0 := by simp
    rw [z]
    constructor
    · rintro (((h | h) | h) | h)
      · omega
      · omega
      · have e : Int.tdiv (-N) b = -(N / b) := by
          rw [Int.neg_tdiv, Int.tdiv_eq_ediv_of_nonneg (by omega)]
        have : 0 ≤ N / b := Int.ediv_nonneg (by omega) (by omega)
        omega
      · omega
    · intro h; omega
  · rcases lt_or_ge 0 b with hb0 | hb0
    · have e : Int.tdiv (N-1) b = (N-1) / b := Int.tdiv_eq_ediv_of_nonneg (by omega)
      have k : (N-1) / b < a ↔ N-1 < a * b := Int.ediv_lt_iff_lt_mul hb0
      have s : 0 < a * b := by nlinarith
      rw [e]
      constructor
      · intro h; have : N - 1 < a * b := by apply k.mp; omega
        intro hh; omega
      · intro h
        have : N - 1 < a * b := by
          by_contra hc
          apply h; constructor <;> omega
        have := k.mpr this
        omega
    · have e : Int.tdiv (-N) a = -(N / a) := by
        rw [Int.neg_tdiv, Int.tdiv_eq_ediv_of_nonneg (by omega)]
      have k : N / a < -b ↔ N < (-b) * a := Int.ediv_lt_iff_lt_mul ha0
      have s : a * b ≤ 0 := by nlinarith
      rw [e]
      constructor
      · intro h; have : N < (-b) * a := by apply k.mp; omega
        intro hh; nlinarith
      · intro h
        have : N < (-b) * a := by
          by_contra hc
          apply h; constructor <;> nlinarith
        have := k.mpr this
        omega

/-- The quotients appearing inside the guard stay inside the type, so the wraps the
    translator puts around them are identities. -/
theorem tdiv_bounds (x y N : Int) (hN : 0 < N) (hx : -N ≤ x ∧ x < N) (hy : y ≠ 0) (hne : ¬ (x = -N ∧ y = -1)) :
    -N ≤ Int.tdiv x y ∧ Int.tdiv x y < N := by
  rcases lt_or_ge x 0 with hx0 | hx0 <;> rcases lt_or_ge y 0 with hy0 | hy0
  · -- x<0, y<0 : tdiv = (-x)/(-y) ≥ 0
    have e : Int.tdiv x y = (-x) / (-y) := by
      have h1 : x = -(-x) := by omega
      have h2 : y = -(-y) := by omega
      conv => lhs; rw [h1, h2, Int.neg_tdiv, Int.tdiv_neg, Int.tdiv_eq_ediv_of_nonneg (by omega)]
      omega
    rw [e]
    have h0 : 0 ≤ (-x) / (-y) := Int.ediv_nonneg (by omega) (by omega)
    have h1 : (-x) / (-y) ≤ -x := Int.ediv_le_self _ (by omega)
    constructor
    · omega
    · by_cases hy1 : y = -1
      · subst hy1
        have : x ≠ -N := fun h => hne ⟨h, rfl⟩
        simp; omega
      · have : (-x) / (-y) < N := by
          apply (Int.ediv_lt_iff_lt_mul (by omega)).mpr
          have hy2 : 2 ≤ -y := by omega
          have : N * 2 ≤ N * (-y) := Int.mul_le_mul_of_nonneg_left hy2 (by omega)
          omega
        exact this
  · -- x<0, y>0 : tdiv = -((-x)/y)
    have hy1 : 0 < y := by omega
    have e : Int.tdiv x y = -((-x) / y) := by
      have h1 : x = -(-x) := by omega
      conv => lhs; rw [h1, Int.neg_tdiv, Int.tdiv_eq_ediv_of_nonneg (by omega)]
    rw [e]
    have h0 : 0 ≤ (-x) / y := Int.ediv_nonneg (by omega) (by omega)
    have h1 : (-x) / y ≤ -x := Int.ediv_le_self _ (by omega)
    omega
  · -- x≥0, y<0
    have e : Int.tdiv x y = -(x / (-y)) := by
      have h2 : y = -(-y) := by omega
      conv => lhs; rw [h2, Int.tdiv_neg, Int.tdiv_eq_ediv_of_nonneg hx0]
    rw [e]
    have h0 : 0 ≤ x / (-y) := Int.ediv_nonneg hx0 (by omega)
    have h1 : x / (-y) ≤ x := Int.ediv_le_self _ hx0
    omega
  · have hy1 : 0 < y := by omega
    rw [Int.tdiv_eq_ediv_of_nonneg hx0]
    have h0 : 0 ≤ x / y := Int.ediv_nonneg hx0 (by omega)
    have h1 : x / y ≤ x := Int.ediv_le_self _ hx0
    omega

theorem tdiv_min_neg_one (N : Int) : Int.tdiv (-N) (-1) = N := by
  simp

theorem tmod_bounds (x y N : Int) (hy : -N ≤ y ∧ y < N) (hy0 : y ≠ 0) :
    -N ≤ Int.tmod x y ∧ Int.tmod x y < N := by
  rcases lt_or_ge y 0 with h | h
  · have e : Int.tmod x y = Int.tmod x (-y) := (Int.tmod_neg x y).symm
    have h1 := Int.tmod_lt_of_pos x (b := -y) (by omega)
    have h2 := Int.lt_tmod_of_pos x (b := -y) (by omega)
    omega
  · have h1 := Int.tmod_lt_of_pos x (b := y) (by omega)
    have h2 := Int.lt_tmod_of_pos x (b := y) (by omega)
    omega

end BytomModel.Lemmas.Arith
