/-
The orphan machinery of `Model/Node.lean` (`processBlock` / `saveBlock` / `saveSubBlock`):
the state invariant `Inv`, and what a run of `saveSubBlock` does — the store only grows, the
pool loses exactly the blocks that got stored (`Grow`), every newly stored block was a pool
member hanging (inside the pool) under the connected block (`Sound`), and every pool member
whose parent is the connected block or got stored is stored too unless `saveBlock` refused it
(`Complete`) — proved for every amount of fuel by induction over the nested recursion
(`ssbSpec`), with the loop invariant `FoldInv` of the `for` loop over the copied waiting list.
-/
import BytomModel.Lemmas.NodeFrame
open BytomModel.Node BytomModel.Lemmas.NodeAlist BytomModel.Lemmas.NodePool BytomModel.Lemmas.NodeFrame

namespace BytomModel.Lemmas.NodeOrphans

/-- the universe of blocks: ids are hashes, so an id determines the parent id and the height -/
structure Universe where
  parent : Nat → Nat
  height : Nat → Nat

/-- the header is a copy of the universe's block with this id (sup links may differ) -/
def Coh (U : Universe) (h : Header) : Prop := h.parent = U.parent h.id ∧ h.height = U.height h.id

/-- the orphan-pool invariant of the node state -/
structure Inv (U : Universe) (s : State) : Prop where
  pool : PoolInv s.orphans s.prevOrphans
  disjoint : ∀ o ∈ s.orphans, ¬ stored s o.id
  closed : ∀ h ∈ s.headers, h.height = 0 ∨ stored s h.parent
  cohH : ∀ h ∈ s.headers, Coh U h
  cohO : ∀ h ∈ s.orphans, Coh U h

theorem Inv.of_eq {U : Universe} {s s' : State} (h : Inv U s) (hh : s'.headers = s.headers)
    (ho : s'.orphans = s.orphans) (hp : s'.prevOrphans = s.prevOrphans) : Inv U s' := by
  have hst : ∀ i, stored s' i ↔ stored s i := fun i => by rw [stored_iff, stored_iff, hh]
  refine ⟨by rw [ho, hp]; exact h.pool, ?_, ?_, by rw [hh]; exact h.cohH, by rw [ho]; exact h.cohO⟩
  · intro o hm; rw [hst]; rw [ho] at hm; exact h.disjoint o hm
  · intro x hm; rw [hst]; rw [hh] at hm; exact h.closed x hm

theorem mem_cons_filter_ids (h : Header) (hs : List Header) (i : Nat) :
    i ∈ (h :: hs.filter (fun x => x.id != h.id)).map (·.id) ↔ i = h.id ∨ i ∈ hs.map (·.id) := by
  simp only [List.map_cons, List.mem_cons, List.mem_map, List.mem_filter, bne_iff_ne, ne_eq]
  constructor
  · rintro (e | ⟨x, ⟨hx, _⟩, e⟩)
    · exact Or.inl e
    · exact Or.inr ⟨x, hx, e⟩
  · rintro (e | ⟨x, hx, e⟩)
    · exact Or.inl e
    · by_cases e' : i = h.id
      · exact Or.inl e'
      · exact Or.inr ⟨x, ⟨hx, by rw [e]; exact e'⟩, e⟩

/-- everything a successful `saveBlock` does to the store and the pool -/
theorem saveBlock_true_fields {s : State} {b : Header} (h : (s.saveBlock b).2 = true) :
    stored s b.parent ∧ (s.saveBlock b).1.cfg = s.cfg ∧ (s.saveBlock b).1.defs = s.defs ∧
    (∃ sup, (s.saveBlock b).1.headers = { b with sup := sup } :: s.headers.filter (fun h => h.id != b.id)) ∧
    (s.saveBlock b).1.orphans = s.orphans.filter (fun h => h.id != b.id) ∧
    (PoolInv s.orphans s.prevOrphans → PoolInv (s.saveBlock b).1.orphans (s.saveBlock b).1.prevOrphans) := by
  obtain ⟨hp, _, he⟩ := saveBlock_true h
  have hc := applyBlock_casperOnly s b
  rw [he]
  set s1 := (s.applyBlock b).1
  set sup := (s.applyBlock b).2.2
  have hpo := orphanDelete_poolOnly (storeBlock s1 b sup) b.id
  refine ⟨hp, ?_, ?_, ⟨sup, ?_⟩, ?_, ?_⟩
  · rw [hpo.cfg]; exact hc.cfg
  · rw [hpo.defs]; exact hc.defs
  · rw [hpo.headers]; simp only [storeBlock]; rw [hc.headers]
  · rw [orphanDelete_orphans]; simp only [storeBlock]; rw [hc.orphans]
  · intro hpi
    apply poolInv_orphanDelete
    simp only [storeBlock]
    rw [hc.orphans, hc.prevOrphans]
    exact hpi

theorem stored_saveBlock_true {s : State} {b : Header} (h : (s.saveBlock b).2 = true) (i : Nat) :
    stored (s.saveBlock b).1 i ↔ i = b.id ∨ stored s i := by
  obtain ⟨_, _, _, ⟨sup, hh⟩, _, _⟩ := saveBlock_true_fields h
  rw [stored_iff, stored_iff, hh]
  exact mem_cons_filter_ids { b with sup := sup } s.headers i

theorem stored_saveBlock_false {s : State} {b : Header} (h : (s.saveBlock b).2 = false) (i : Nat) :
    stored (s.saveBlock b).1 i ↔ stored s i := by
  rw [stored_iff, stored_iff, (saveBlock_false h).headers]

/-- `saveBlock` (accepted or refused) preserves the invariant -/
theorem inv_saveBlock {U : Universe} {s : State} (hI : Inv U s) {b : Header} (hb : Coh U b) :
    Inv U (s.saveBlock b).1 := by
  cases hok : (s.saveBlock b).2 with
  | false =>
    have hc := saveBlock_false hok
    exact hI.of_eq hc.headers hc.orphans hc.prevOrphans
  | true =>
    obtain ⟨hp, _, _, ⟨sup, hh⟩, ho, hpool⟩ := saveBlock_true_fields hok
    have hst := stored_saveBlock_true hok
    refine ⟨hpool hI.pool, ?_, ?_, ?_, ?_⟩
    · intro o hm
      rw [ho, List.mem_filter] at hm
      rw [hst]
      rintro (e | e)
      · simp [e] at hm
      · exact hI.disjoint o hm.1 e
    · intro x hm
      rw [hh, List.mem_cons] at hm
      rcases hm with e | hm
      · right; rw [hst, e]; exact Or.inr hp
      · rcases hI.closed x (List.mem_filter.mp hm).1 with e | e
        · exact Or.inl e
        · right; rw [hst]; exact Or.inr e
    · intro x hm
      rw [hh, List.mem_cons] at hm
      rcases hm with e | hm
      · rw [e]; exact hb
      · exact hI.cohH x (List.mem_filter.mp hm).1
    · intro x hm
      rw [ho] at hm
      exact hI.cohO x (List.mem_filter.mp hm).1

/-- `OrphanManage.delete` (dropping a refused orphan) preserves the invariant -/
theorem inv_orphanDelete {U : Universe} {s : State} (hI : Inv U s) (i : Nat) : Inv U (s.orphanDelete i) := by
  have hp := orphanDelete_poolOnly s i
  have hst : ∀ j, stored (s.orphanDelete i) j ↔ stored s j := fun j => by rw [stored_iff, stored_iff, hp.headers]
  have ho := orphanDelete_orphans s i
  refine ⟨poolInv_orphanDelete hI.pool i, ?_, ?_, by rw [hp.headers]; exact hI.cohH, ?_⟩
  · intro o hm; rw [hst]; rw [ho] at hm; exact hI.disjoint o (List.mem_filter.mp hm).1
  · intro x hm; rw [hst]; rw [hp.headers] at hm; exact hI.closed x hm
  · intro o hm; rw [ho] at hm; exact hI.cohO o (List.mem_filter.mp hm).1

/-! ### what a run of block connections does: `Grow`, soundness, completeness -/

/-- `i` was stored between `s` and `s'` -/
def NewS (s s' : State) (i : Nat) : Prop := stored s' i ∧ ¬ stored s i

/-- the pool member `x` of `s` left the pool between `s` and `s'` (stored, or dropped after a refusal) -/
def Gone (s s' : State) (x : Header) : Prop := x ∈ s.orphans ∧ x ∉ s'.orphans

/-- `s'` is `s` after some pool members were connected or dropped: the store only grows and the
    pool of `s'` is a sublist of the pool of `s` (same arrival order) -/
structure Grow (U : Universe) (s s' : State) : Prop where
  inv : Inv U s'
  cfg : s'.cfg = s.cfg
  defs : s'.defs = s.defs
  mono : ∀ i, stored s i → stored s' i
  sub : s'.orphans.Sublist s.orphans

theorem Grow.refl {U : Universe} {s : State} (hI : Inv U s) : Grow U s s :=
  ⟨hI, rfl, rfl, fun _ h => h, List.Sublist.refl _⟩

theorem Grow.mem {U : Universe} {s s' : State} (h : Grow U s s') {x : Header} (hx : x ∈ s'.orphans) :
    x ∈ s.orphans := h.sub.subset hx

theorem Grow.trans {U : Universe} {s st s' : State} (h1 : Grow U s st) (h2 : Grow U st s') : Grow U s s' :=
  ⟨h2.inv, by rw [h2.cfg, h1.cfg], by rw [h2.defs, h1.defs], fun i hi => h2.mono i (h1.mono i hi),
   h2.sub.trans h1.sub⟩

theorem grow_saveBlock {U : Universe} {s : State} (hI : Inv U s) {b : Header} (hb : Coh U b) :
    Grow U s (s.saveBlock b).1 := by
  have hinv := inv_saveBlock hI hb
  cases hok : (s.saveBlock b).2 with
  | false =>
    have hc := saveBlock_false hok
    have hst := stored_saveBlock_false hok
    exact ⟨hinv, hc.cfg, hc.defs, fun i hi => (hst i).mpr hi, by rw [hc.orphans]⟩
  | true =>
    obtain ⟨_, hcfg, hdefs, _, ho, _⟩ := saveBlock_true_fields hok
    have hst := stored_saveBlock_true hok
    exact ⟨hinv, hcfg, hdefs, fun i hi => (hst i).mpr (Or.inr hi), by rw [ho]; exact List.filter_sublist⟩

theorem grow_orphanDelete {U : Universe} {s : State} (hI : Inv U s) (i : Nat) : Grow U s (s.orphanDelete i) := by
  have hp := orphanDelete_poolOnly s i
  refine ⟨inv_orphanDelete hI i, hp.cfg, hp.defs, ?_, by rw [orphanDelete_orphans]; exact List.filter_sublist⟩
  intro j hj
  rw [stored_iff] at hj ⊢
  rw [hp.headers]; exact hj

/-- every block stored between `s` and `s'` was a pool member, and every pool member that left the
    pool (stored or dropped) hung under a parent satisfying `A` or stored between `s` and `s'` -/
structure Sound (A : Nat → Prop) (s s' : State) : Prop where
  wasPool : ∀ i, NewS s s' i → ∃ h ∈ s.orphans, h.id = i
  gone : ∀ x, Gone s s' x → A x.parent ∨ NewS s s' x.parent

theorem Sound.refl (A : Nat → Prop) (s : State) : Sound A s s :=
  ⟨fun _ h => absurd h.1 h.2, fun _ h => absurd h.1 h.2⟩

/-- `saveBlock` refused `x` although its parent was stored, in a state satisfying `R` -/
def Refused (R : State → Prop) (x : Header) : Prop :=
  ∃ st, R st ∧ stored st x.parent ∧ (st.saveBlock x).2 = false

/-- every pool member whose parent is `a` or was stored between `s` and `s'` has left the pool: it is
    stored in `s'`, or `saveBlock` refused it (and it was dropped) -/
def Complete (R : State → Prop) (a : Nat) (s s' : State) : Prop :=
  ∀ x ∈ s.orphans, (x.parent = a ∨ NewS s s' x.parent) → x ∉ s'.orphans ∧ (¬ stored s' x.id → Refused R x)

/-- the body of the loop of `saveSubBlock` -/
def visit (fuel : Nat) (st : State) (o : Nat) : State :=
  match lookupHeader st.orphans o with
  | none => st
  | some ob =>
    let (st1, ok) := st.saveBlock ob
    if !ok then st1.orphanDelete o else State.saveSubBlock fuel st1 o

theorem saveSubBlock_succ (fuel : Nat) (s : State) (a : Nat) :
    State.saveSubBlock (fuel + 1) s a =
      match alistGet s.prevOrphans a with
      | none => s
      | some w => w.foldl (visit fuel) s := rfl

theorem saveSubBlock_zero (s : State) (a : Nat) : State.saveSubBlock 0 s a = s := rfl

theorem visit_some {fuel : Nat} {st : State} {o : Nat} {ob : Header} (h : lookupHeader st.orphans o = some ob) :
    visit fuel st o = if (st.saveBlock ob).2 then State.saveSubBlock fuel (st.saveBlock ob).1 o
                      else (st.saveBlock ob).1.orphanDelete o := by
  unfold visit
  rw [h]
  cases hok : (st.saveBlock ob).2 <;> simp [hok]

/-- `R` is closed under what the loop does to the state -/
structure LoopClosed (R : State → Prop) : Prop where
  save : ∀ st ob, R st → ob ∈ st.orphans → stored st ob.parent → R (st.saveBlock ob).1
  drop : ∀ st o, R st → R (st.orphanDelete o)

/-- what `saveSubBlock` with this much fuel achieves, for every state and every stored block -/
def SsbSpec (U : Universe) (R : State → Prop) (fuel : Nat) : Prop :=
  ∀ s a, Inv U s → R s → stored s a →
    Grow U s (State.saveSubBlock fuel s a) ∧ R (State.saveSubBlock fuel s a) ∧
    Sound (· = a) s (State.saveSubBlock fuel s a) ∧
    (s.orphans.length ≤ fuel → Complete R a s (State.saveSubBlock fuel s a))

/-- the loop invariant of `saveSubBlock s a`: `st` is the current state, `w` the ids still to visit -/
structure FoldInv (U : Universe) (R : State → Prop) (a : Nat) (s : State) (bound : Prop) (st : State)
    (w : List Nat) : Prop where
  inv0 : Inv U s
  grow : Grow U s st
  r : R st
  sound : Sound (· = a) s st
  waiting : ∀ o ∈ w, ∃ h ∈ st.orphans, h.id = o ∧ h.parent = a
  nodup : w.Nodup
  complete : bound → ∀ x ∈ s.orphans, ((x.parent = a ∧ x.id ∉ w) ∨ NewS s st x.parent) →
    x ∉ st.orphans ∧ (¬ stored st x.id → Refused R x)

theorem uniq_of_inv {U : Universe} {st : State} (hI : Inv U st) {x y : Header} (hx : x ∈ st.orphans)
    (hy : y ∈ st.orphans) (e : x.id = y.id) : x = y :=
  List.inj_on_of_nodup_map hI.pool.nodup hx hy e

theorem foldInv_step {U : Universe} {R : State → Prop} (hR : LoopClosed R)
    {fuel : Nat} (ih : SsbSpec U R fuel) {a : Nat} {s st : State} (ha : stored s a) {o : Nat} {w : List Nat}
    (h : FoldInv U R a s (s.orphans.length ≤ fuel + 1) st (o :: w)) :
    FoldInv U R a s (s.orphans.length ≤ fuel + 1) (visit fuel st o) w := by
  obtain ⟨ob, hobm, hobid, hobp⟩ := h.waiting o (List.mem_cons_self ..)
  have hIst := h.grow.inv
  have hlook : lookupHeader st.orphans o = some ob := by
    rw [← hobid]; exact lookupHeader_of_mem hIst.pool.nodup hobm
  rw [visit_some hlook]
  have hcoh : Coh U ob := hIst.cohO ob hobm
  have g1 : Grow U st (st.saveBlock ob).1 := grow_saveBlock hIst hcoh
  have hsta : stored st a := h.grow.mono a ha
  have r1 : R (st.saveBlock ob).1 := hR.save st ob h.r hobm (hobp ▸ hsta)
  have hnd := List.nodup_cons.mp h.nodup
  have hnso : ¬ stored st o := by rw [← hobid]; exact hIst.disjoint ob hobm
  have hobs : ob ∈ s.orphans := h.grow.mem hobm
  -- a pool member of `s` with id `o` is `ob`
  have huniq : ∀ x ∈ s.orphans, x.id = o → x = ob := fun x hx e => uniq_of_inv h.inv0 hx hobs (by rw [e, hobid])
  cases hok : (st.saveBlock ob).2 with
  | false =>
    simp only [Bool.false_eq_true, if_false]
    have hc := saveBlock_false hok
    have hst1 := stored_saveBlock_false hok
    have gd := grow_orphanDelete g1.inv o
    have hpo := orphanDelete_poolOnly (st.saveBlock ob).1 o
    have hst : ∀ i, stored ((st.saveBlock ob).1.orphanDelete o) i ↔ stored st i := by
      intro i; rw [stored_iff, hpo.headers, ← stored_iff]; exact hst1 i
    have hor : ((st.saveBlock ob).1.orphanDelete o).orphans = st.orphans.filter (fun x => x.id != o) := by
      rw [orphanDelete_orphans, hc.orphans]
    have hmem : ∀ x, x ∈ ((st.saveBlock ob).1.orphanDelete o).orphans ↔ x ∈ st.orphans ∧ x.id ≠ o := by
      intro x; rw [hor, List.mem_filter]; simp
    refine ⟨h.inv0, (h.grow.trans g1).trans gd, hR.drop _ _ r1, ⟨?_, ?_⟩, ?_, hnd.2, ?_⟩
    · intro i hi
      exact h.sound.wasPool i ⟨(hst i).mp hi.1, hi.2⟩
    · intro x hx
      by_cases hxst : x ∈ st.orphans
      · have : x.id = o := by
          by_contra hne
          exact hx.2 ((hmem x).mpr ⟨hxst, hne⟩)
        have : x = ob := huniq x hx.1 this
        subst this
        exact Or.inl hobp
      · rcases h.sound.gone x ⟨hx.1, hxst⟩ with e | e
        · exact Or.inl e
        · exact Or.inr ⟨(hst _).mpr e.1, e.2⟩
    · intro o' ho'
      obtain ⟨h', hm', hid', hp'⟩ := h.waiting o' (List.mem_cons_of_mem _ ho')
      have hne : o' ≠ o := fun e => hnd.1 (e ▸ ho')
      exact ⟨h', (hmem h').mpr ⟨hm', by rw [hid']; exact hne⟩, hid', hp'⟩
    · intro hb x hx hcase
      have key : x ∉ st.orphans ∧ (¬ stored st x.id → Refused R x) →
          x ∉ ((st.saveBlock ob).1.orphanDelete o).orphans ∧
          (¬ stored ((st.saveBlock ob).1.orphanDelete o) x.id → Refused R x) :=
        fun k => ⟨fun hm => k.1 ((hmem x).mp hm).1, fun hn => k.2 (fun e => hn ((hst _).mpr e))⟩
      rcases hcase with ⟨hpa, hnw⟩ | hnew
      · by_cases e : x.id = o
        · have : x = ob := huniq x hx e
          subst this
          refine ⟨fun hm => ((hmem x).mp hm).2 e, fun _ => ⟨st, h.r, by rw [hpa]; exact hsta, hok⟩⟩
        · exact key (h.complete hb x hx (Or.inl ⟨hpa, by simp [e, hnw]⟩))
      · exact key (h.complete hb x hx (Or.inr ⟨(hst _).mp hnew.1, hnew.2⟩))
  | true =>
    simp only [if_true]
    have hst := stored_saveBlock_true hok
    obtain ⟨_, _, _, _, ho1, _⟩ := saveBlock_true_fields hok
    have hmem1 : ∀ x, x ∈ (st.saveBlock ob).1.orphans ↔ x ∈ st.orphans ∧ x.id ≠ o := by
      intro x; rw [ho1, List.mem_filter, hobid]; simp
    have hst1o : stored (st.saveBlock ob).1 o := (hst o).mpr (Or.inl hobid.symm)
    obtain ⟨g2, r2, snd2, cmp2⟩ := ih (st.saveBlock ob).1 o g1.inv r1 hst1o
    have g01 := h.grow.trans g1
    have hnewo : NewS s (State.saveSubBlock fuel (st.saveBlock ob).1 o) o :=
      ⟨g2.mono o hst1o, fun e => hnso (h.grow.mono o e)⟩
    refine ⟨h.inv0, g01.trans g2, r2, ⟨?_, ?_⟩, ?_, hnd.2, ?_⟩
    · intro i hi
      by_cases e : stored st i
      · exact h.sound.wasPool i ⟨e, hi.2⟩
      · by_cases e1 : stored (st.saveBlock ob).1 i
        · rcases (hst i).mp e1 with e2 | e2
          · exact ⟨ob, hobs, e2.symm⟩
          · exact absurd e2 e
        · obtain ⟨x, hx, hid⟩ := snd2.wasPool i ⟨hi.1, e1⟩
          exact ⟨x, g01.mem hx, hid⟩
    · intro x hx
      by_cases hxst : x ∈ st.orphans
      · by_cases hx1 : x ∈ (st.saveBlock ob).1.orphans
        · rcases snd2.gone x ⟨hx1, hx.2⟩ with e | e
          · exact Or.inr (e ▸ hnewo)
          · exact Or.inr ⟨e.1, fun k => e.2 (g01.mono _ k)⟩
        · have : x.id = o := by
            by_contra hne
            exact hx1 ((hmem1 x).mpr ⟨hxst, hne⟩)
          have : x = ob := huniq x hx.1 this
          subst this
          exact Or.inl hobp
      · rcases h.sound.gone x ⟨hx.1, hxst⟩ with e | e
        · exact Or.inl e
        · exact Or.inr ⟨g2.mono _ (g1.mono _ e.1), e.2⟩
    · intro o' ho'
      obtain ⟨h', hm', hid', hp'⟩ := h.waiting o' (List.mem_cons_of_mem _ ho')
      have hne : o' ≠ o := fun e => hnd.1 (e ▸ ho')
      have hm1 : h' ∈ (st.saveBlock ob).1.orphans := (hmem1 h').mpr ⟨hm', by rw [hid']; exact hne⟩
      refine ⟨h', ?_, hid', hp'⟩
      by_contra hgone
      rcases snd2.gone h' ⟨hm1, hgone⟩ with e | e
      · rw [hp'] at e; exact hnso (e ▸ hsta)
      · rw [hp'] at e; exact e.2 (g1.mono a hsta)
    · intro hb x hx hcase
      have hlen : (st.saveBlock ob).1.orphans.length ≤ fuel := by
        have h1 : (st.saveBlock ob).1.orphans.length < st.orphans.length := by
          rw [ho1]
          apply List.length_filter_lt_length_iff_exists.mpr
          exact ⟨ob, hobm, by simp⟩
        have h2 : st.orphans.length ≤ s.orphans.length := h.grow.sub.length_le
        omega
      have cmp2' := cmp2 hlen
      have key : x ∉ st.orphans ∧ (¬ stored st x.id → Refused R x) →
          x ∉ (State.saveSubBlock fuel (st.saveBlock ob).1 o).orphans ∧
          (¬ stored (State.saveSubBlock fuel (st.saveBlock ob).1 o) x.id → Refused R x) :=
        fun k => ⟨fun hm => k.1 ((g1.trans g2).mem hm), fun hn => k.2 (fun e => hn (g2.mono _ (g1.mono _ e)))⟩
      rcases hcase with ⟨hpa, hnw⟩ | hnew
      · by_cases e : x.id = o
        · have : x = ob := huniq x hx e
          subst this
          refine ⟨fun hm => ((hmem1 x).mp (g2.mem hm)).2 e, fun hn => absurd (g2.mono _ (e ▸ hst1o)) hn⟩
        · exact key (h.complete hb x hx (Or.inl ⟨hpa, by simp [e, hnw]⟩))
      · by_cases e : stored st x.parent
        · exact key (h.complete hb x hx (Or.inr ⟨e, hnew.2⟩))
        · -- the parent was stored during this visit, so `x` was still in the pool when it began
          have hxst : x ∈ st.orphans := by
            by_contra hgone
            rcases h.sound.gone x ⟨hx, hgone⟩ with e1 | e1
            · exact e (e1 ▸ hsta)
            · exact e e1.1
          have hx1 : x ∈ (st.saveBlock ob).1.orphans := by
            refine (hmem1 x).mpr ⟨hxst, ?_⟩
            intro e1
            have : x = ob := huniq x hx e1
            subst this
            exact e (hobp ▸ hsta)
          by_cases e2 : x.parent = o
          · exact cmp2' x hx1 (Or.inl e2)
          · refine cmp2' x hx1 (Or.inr ⟨hnew.1, ?_⟩)
            rw [hst]; rintro (e3 | e3)
            · exact e2 (e3.trans hobid)
            · exact e e3

theorem foldInv_foldl {U : Universe} {R : State → Prop} (hR : LoopClosed R)
    {fuel : Nat} (ih : SsbSpec U R fuel) {a : Nat} {s : State} (ha : stored s a) (w : List Nat) :
    ∀ st, FoldInv U R a s (s.orphans.length ≤ fuel + 1) st w →
      FoldInv U R a s (s.orphans.length ≤ fuel + 1) (w.foldl (visit fuel) st) [] := by
  induction w with
  | nil => intro st h; exact h
  | cons o w ihw => intro st h; exact ihw _ (foldInv_step hR ih ha h)

/-- the waiting list `saveSubBlock` copies is the group of the connected block -/
theorem waiting_eq_group {U : Universe} {s : State} (hI : Inv U s) {a : Nat} {w : List Nat}
    (h : alistGet s.prevOrphans a = some w) : w = group s.orphans a := by
  rw [hI.pool.get] at h
  by_cases e : group s.orphans a = []
  · simp [e] at h
  · simpa [e] using h.symm

theorem foldInv_init {U : Universe} {R : State → Prop} {a : Nat} {s : State} (hI : Inv U s) (hr : R s) (bound : Prop) :
    FoldInv U R a s bound s (group s.orphans a) := by
  refine ⟨hI, Grow.refl hI, hr, Sound.refl _ _, ?_, group_nodup hI.pool.nodup a, ?_⟩
  · intro o ho
    obtain ⟨h, hm, hp, hid⟩ := mem_group.mp ho
    exact ⟨h, hm, hid, hp⟩
  · intro _ x hx hcase
    rcases hcase with ⟨hpa, hnw⟩ | hnew
    · exact absurd (mem_group.mpr ⟨x, hx, hpa, rfl⟩) hnw
    · exact absurd hnew.1 hnew.2

theorem ssbSpec {U : Universe} {R : State → Prop} (hR : LoopClosed R) : ∀ fuel, SsbSpec U R fuel := by
  intro fuel
  induction fuel with
  | zero =>
    intro s a hI hr _
    rw [saveSubBlock_zero]
    refine ⟨Grow.refl hI, hr, Sound.refl _ _, ?_⟩
    intro hl x hx
    have : s.orphans = [] := List.eq_nil_of_length_eq_zero (by omega)
    rw [this] at hx
    simp at hx
  | succ fuel ih =>
    intro s a hI hr ha
    rw [saveSubBlock_succ]
    cases hg : alistGet s.prevOrphans a with
    | none =>
      simp only
      refine ⟨Grow.refl hI, hr, Sound.refl _ _, ?_⟩
      intro _ x hx hcase
      rcases hcase with hpa | hnew
      · have hm : x.id ∈ group s.orphans a := mem_group.mpr ⟨x, hx, hpa, rfl⟩
        rw [hI.pool.get] at hg
        simp [List.ne_nil_of_mem hm] at hg
      · exact absurd hnew.1 hnew.2
    | some w =>
      simp only
      have hw := waiting_eq_group hI hg
      subst hw
      have hf := foldInv_foldl hR ih ha _ s (foldInv_init hI hr _)
      refine ⟨hf.grow, hf.r, hf.sound, ?_⟩
      intro hl x hx hcase
      refine hf.complete hl x hx ?_
      rcases hcase with hpa | hnew
      · exact Or.inl ⟨hpa, by simp⟩
      · exact Or.inr hnew

theorem loopClosed_true : LoopClosed (fun _ => True) := ⟨fun _ _ _ _ _ => trivial, fun _ _ _ => trivial⟩

end BytomModel.Lemmas.NodeOrphans
