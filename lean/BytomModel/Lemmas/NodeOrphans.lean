/-
The orphan machinery of `Model/Node.lean` (`processBlock` / `saveBlock` / `saveSubBlock`):
the state invariant `Inv`, and what a run of `saveSubBlock` does — the store only grows, the
pool loses exactly the blocks that got stored (`Grow`), every newly stored block was a pool
member hanging (inside the pool) under the connected block (`Sound`), and every pool member
whose parent is the connected block or got stored is stored too unless `saveBlock` refused it
(`Complete`) — proved for every amount of fuel by induction over the nested recursion
(`ssbSpec`), with the loop invariant `FoldInv` of the `for` loop over the copied waiting list.
-/
import BytomModel.Lemmas.NodeFrame
open BytomModel.Node BytomModel.Lemmas.NodeAlist BytomModel.Lemmas.NodePool BytomModel.Lemmas.NodeFrame

namespace BytomModel.Lemmas.NodeOrphans

/-- the universe of blocks: ids are hashes, so an id determines the parent id and the height -/
structure Universe where
  parent : Nat → Nat
  height : Nat → Nat

/-- the header is a copy of the universe's block with this id (sup links may differ) -/
def Coh (U : Universe) (h : Header) : Prop := h.parent = U.parent h.id ∧ h.height = U.height h.id

/-- the orphan-pool invariant of the node state -/
structure Inv (U : Universe) (s : State) : Prop where
  pool : PoolInv s.orphans s.prevOrphans
  disjoint : ∀ o ∈ s.orphans, ¬ stored s o.id
  closed : ∀ h ∈ s.headers, h.height = 0 ∨ stored s h.parent
  cohH : ∀ h ∈ s.headers, Coh U h
  cohO : ∀ h ∈ s.orphans, Coh U h

theorem Inv.of_eq {U : Universe} {s s' : State} (h : Inv U s) (hh : s'.headers = s.headers)
    (ho : s'.orphans = s.orphans) (hp : s'.prevOrphans = s.prevOrphans) : Inv U s' := by
  have hst : ∀ i, stored s' i ↔ stored s i := fun i => by rw [stored_iff, stored_iff, hh]
  refine ⟨by rw [ho, hp]; exact h.pool, ?_, ?_, by rw [hh]; exact h.cohH, by rw [ho]; exact h.cohO⟩
  · intro o hm; rw [hst]; rw [ho] at hm; exact h.disjoint o hm
  · intro x hm; rw [hst]; rw [hh] at hm; exact h.closed x hm

theorem mem_cons_filter_ids (h : Header) (hs : List Header) (i : Nat) :
    i ∈ (h :: hs.filter (fun x => x.id != h.id)).map (·.id) ↔ i = h.id ∨ i ∈ hs.map (·.id) := by
  simp only [List.map_cons, List.mem_cons, List.mem_map, List.mem_filter, bne_iff_ne, ne_eq]
  constructor
  · rintro (e | ⟨x, ⟨hx, _⟩, e⟩)
    · exact Or.inl e
    · exact Or.inr ⟨x, hx, e⟩
  · rintro (e | ⟨x, hx, e⟩)
    · exact Or.inl e
    · by_cases e' : i = h.id
      · exact Or.inl e'
      · exact Or.inr ⟨x, ⟨hx, by rw [e]; exact e'⟩, e⟩

/-- everything a successful `saveBlock` does to the store and the pool -/
theorem saveBlock_true_fields {s : State} {b : Header} (h : (s.saveBlock b).2 = true) :
    stored s b.parent ∧ (s.saveBlock b).1.cfg = s.cfg ∧ (s.saveBlock b).1.defs = s.defs ∧
    (∃ sup, (s.saveBlock b).1.headers = { b with sup := sup } :: s.headers.filter (fun h => h.id != b.id)) ∧
    (s.saveBlock b).1.orphans = s.orphans.filter (fun h => h.id != b.id) ∧
    (PoolInv s.orphans s.prevOrphans → PoolInv (s.saveBlock b).1.orphans (s.saveBlock b).1.prevOrphans) := by
  obtain ⟨hp, _, he⟩ := saveBlock_true h
  have hc := applyBlock_casperOnly s b
  rw [he]
  set s1 := (s.applyBlock b).1
  set sup := (s.applyBlock b).2.2
  have hpo := orphanDelete_poolOnly (storeBlock s1 b sup) b.id
  refine ⟨hp, ?_, ?_, ⟨sup, ?_⟩, ?_, ?_⟩
  · rw [hpo.cfg]; exact hc.cfg
  · rw [hpo.defs]; exact hc.defs
  · rw [hpo.headers]; simp only [storeBlock]; rw [hc.headers]
  · rw [orphanDelete_orphans]; simp only [storeBlock]; rw [hc.orphans]
  · intro hpi
    apply poolInv_orphanDelete
    simp only [storeBlock]
    rw [hc.orphans, hc.prevOrphans]
    exact hpi

theorem stored_saveBlock_true {s : State} {b : Header} (h : (s.saveBlock b).2 = true) (i : Nat) :
    stored (s.saveBlock b).1 i ↔ i = b.id ∨ stored s i := by
  obtain ⟨_, _, _, ⟨sup, hh⟩, _, _⟩ := saveBlock_true_fields h
  rw [stored_iff, stored_iff, hh]
  exact mem_cons_filter_ids { b with sup := sup } s.headers i

theorem stored_saveBlock_false {s : State} {b : Header} (h : (s.saveBlock b).2 = false) (i : Nat) :
    stored (s.saveBlock b).1 i ↔ stored s i := by
  rw [stored_iff, stored_iff, (saveBlock_false h).headers]

/-- `saveBlock` (accepted or refused) preserves the invariant -/
theorem inv_saveBlock {U : Universe} {s : State} (hI : Inv U s) {b : Header} (hb : Coh U b) :
    Inv U (s.saveBlock b).1 := by
  cases hok : (s.saveBlock b).2 with
  | false =>
    have hc := saveBlock_false hok
    exact hI.of_eq hc.headers hc.orphans hc.prevOrphans
  | true =>
    obtain ⟨hp, _, _, ⟨sup, hh⟩, ho, hpool⟩ := saveBlock_true_fields hok
    have hst := stored_saveBlock_true hok
    refine ⟨hpool hI.pool, ?_, ?_, ?_, ?_⟩
    · intro o hm
      rw [ho, List.mem_filter] at hm
      rw [hst]
      rintro (e | e)
      · simp [e] at hm
      · exact hI.disjoint o hm.1 e
    · intro x hm
      rw [hh, List.mem_cons] at hm
      rcases hm with e | hm
      · right; rw [hst, e]; exact Or.inr hp
      · rcases hI.closed x (List.mem_filter.mp hm).1 with e | e
        · exact Or.inl e
        · right; rw [hst]; exact Or.inr e
    · intro x hm
      rw [hh, List.mem_cons] at hm
      rcases hm with e | hm
      · rw [e]; exact hb
      · exact hI.cohH x (List.mem_filter.mp hm).1
    · intro x hm
      rw [ho] at hm
      exact hI.cohO x (List.mem_filter.mp hm).1

/-! ### what a run of block connections does: `Grow`, soundness, completeness -/

/-- `i` was stored between `s` and `s'` -/
def NewS (s s' : State) (i : Nat) : Prop := stored s' i ∧ ¬ stored s i

/-- `s'` is `s` after some pool members were connected: the store only grows and the pool of
    `s'` is the pool of `s` without the blocks that are stored now (same arrival order) -/
structure Grow (U : Universe) (s s' : State) : Prop where
  inv : Inv U s'
  cfg : s'.cfg = s.cfg
  defs : s'.defs = s.defs
  mono : ∀ i, stored s i → stored s' i
  pool : s'.orphans = s.orphans.filter (fun h => !(s'.header h.id).isSome)

theorem Grow.refl {U : Universe} {s : State} (hI : Inv U s) : Grow U s s := by
  refine ⟨hI, rfl, rfl, fun _ h => h, ?_⟩
  symm
  rw [List.filter_eq_self]
  intro h hm
  have := hI.disjoint h hm
  unfold stored at this
  simpa using this

theorem Grow.mem_orphans {U : Universe} {s s' : State} (h : Grow U s s') (x : Header) :
    x ∈ s'.orphans ↔ x ∈ s.orphans ∧ ¬ stored s' x.id := by
  rw [h.pool, List.mem_filter]
  unfold stored
  simp

theorem Grow.trans {U : Universe} {s st s' : State} (h1 : Grow U s st) (h2 : Grow U st s') : Grow U s s' := by
  refine ⟨h2.inv, by rw [h2.cfg, h1.cfg], by rw [h2.defs, h1.defs], fun i hi => h2.mono i (h1.mono i hi), ?_⟩
  rw [h2.pool, h1.pool, List.filter_filter]
  apply List.filter_congr
  intro x _
  have := h2.mono x.id
  unfold stored at this
  cases e1 : (st.header x.id).isSome <;> cases e2 : (s'.header x.id).isSome <;> simp_all

theorem grow_saveBlock {U : Universe} {s : State} (hI : Inv U s) {b : Header} (hb : Coh U b) :
    Grow U s (s.saveBlock b).1 := by
  have hinv := inv_saveBlock hI hb
  cases hok : (s.saveBlock b).2 with
  | false =>
    have hc := saveBlock_false hok
    have hst := stored_saveBlock_false hok
    refine ⟨hinv, hc.cfg, hc.defs, fun i hi => (hst i).mpr hi, ?_⟩
    rw [hc.orphans]
    symm
    rw [List.filter_eq_self]
    intro h hm
    have := hI.disjoint h hm
    rw [← hst] at this
    unfold stored at this
    simpa using this
  | true =>
    obtain ⟨_, hcfg, hdefs, _, ho, _⟩ := saveBlock_true_fields hok
    have hst := stored_saveBlock_true hok
    refine ⟨hinv, hcfg, hdefs, fun i hi => (hst i).mpr (Or.inr hi), ?_⟩
    rw [ho]
    apply List.filter_congr
    intro x hm
    have h1 := hI.disjoint x hm
    have h2 := hst x.id
    unfold stored at h1 h2
    by_cases e : x.id = b.id
    · have : (((s.saveBlock b).1.header x.id).isSome) = true := h2.mpr (Or.inl e)
      rw [this]; simp [e]
    · have : ¬ (((s.saveBlock b).1.header x.id).isSome) = true := by
        rw [h2]; rintro (e' | e'); exact e e'; exact h1 e'
      simp [e, this]

/-- every block stored between `s` and `s'` was a pool member whose parent satisfies `A` or was
    itself stored between `s` and `s'` -/
def Sound (A : Nat → Prop) (s s' : State) : Prop :=
  ∀ i, NewS s s' i → ∃ h ∈ s.orphans, h.id = i ∧ (A h.parent ∨ NewS s s' h.parent)

theorem Sound.refl (A : Nat → Prop) (s : State) : Sound A s s := fun _ h => absurd h.1 h.2

theorem Sound.trans {U : Universe} {A A' : Nat → Prop} {s st s' : State} (g1 : Grow U s st) (g2 : Grow U st s')
    (h1 : Sound A s st) (h2 : Sound A' st s') (hA : ∀ p, A' p → A p ∨ NewS s s' p) : Sound A s s' := by
  intro i hi
  by_cases e : stored st i
  · obtain ⟨h, hm, hid, hp⟩ := h1 i ⟨e, hi.2⟩
    refine ⟨h, hm, hid, ?_⟩
    rcases hp with hp | hp
    · exact Or.inl hp
    · exact Or.inr ⟨g2.mono _ hp.1, hp.2⟩
  · obtain ⟨h, hm, hid, hp⟩ := h2 i ⟨hi.1, e⟩
    refine ⟨h, ((g1.mem_orphans h).mp hm).1, hid, ?_⟩
    rcases hp with hp | hp
    · exact hA _ hp
    · exact Or.inr ⟨hp.1, fun x => hp.2 (g1.mono _ x)⟩

/-- `saveBlock` refused `x` although its parent was stored, in a state satisfying `R` -/
def Refused (R : State → Prop) (x : Header) : Prop :=
  ∃ st, R st ∧ stored st x.parent ∧ (st.saveBlock x).2 = false

/-- every pool member whose parent is `a` or was stored between `s` and `s'` is stored in `s'`,
    unless `saveBlock` refused it -/
def Complete (R : State → Prop) (a : Nat) (s s' : State) : Prop :=
  ∀ x ∈ s.orphans, (x.parent = a ∨ NewS s s' x.parent) → ¬ stored s' x.id → Refused R x

/-- the body of the loop of `saveSubBlock` -/
def visit (fuel : Nat) (st : State) (o : Nat) : State :=
  match lookupHeader st.orphans o with
  | none => st
  | some ob =>
    let (st1, ok) := st.saveBlock ob
    if !ok then st1 else State.saveSubBlock fuel st1 o

theorem saveSubBlock_succ (fuel : Nat) (s : State) (a : Nat) :
    State.saveSubBlock (fuel + 1) s a =
      match alistGet s.prevOrphans a with
      | none => s
      | some w => w.foldl (visit fuel) s := rfl

theorem saveSubBlock_zero (s : State) (a : Nat) : State.saveSubBlock 0 s a = s := rfl

theorem visit_some {fuel : Nat} {st : State} {o : Nat} {ob : Header} (h : lookupHeader st.orphans o = some ob) :
    visit fuel st o = if (st.saveBlock ob).2 then State.saveSubBlock fuel (st.saveBlock ob).1 o
                      else (st.saveBlock ob).1 := by
  unfold visit
  rw [h]
  cases hok : (st.saveBlock ob).2 <;> simp [hok]

/-- what `saveSubBlock` with this much fuel achieves, for every state and every stored block -/
def SsbSpec (U : Universe) (R : State → Prop) (fuel : Nat) : Prop :=
  ∀ s a, Inv U s → R s → stored s a →
    Grow U s (State.saveSubBlock fuel s a) ∧ R (State.saveSubBlock fuel s a) ∧
    Sound (· = a) s (State.saveSubBlock fuel s a) ∧
    (s.orphans.length ≤ fuel → Complete R a s (State.saveSubBlock fuel s a))

/-- the loop invariant of `saveSubBlock s a`: `st` is the current state, `w` the ids still to visit -/
structure FoldInv (U : Universe) (R : State → Prop) (a : Nat) (s : State) (bound : Prop) (st : State)
    (w : List Nat) : Prop where
  grow : Grow U s st
  r : R st
  sound : Sound (· = a) s st
  waiting : ∀ o ∈ w, ∃ h ∈ st.orphans, h.id = o ∧ h.parent = a
  nodup : w.Nodup
  complete : bound → ∀ x ∈ s.orphans, ((x.parent = a ∧ x.id ∉ w) ∨ NewS s st x.parent) →
    ¬ stored st x.id → Refused R x

theorem uniq_of_inv {U : Universe} {st : State} (hI : Inv U st) {x y : Header} (hx : x ∈ st.orphans)
    (hy : y ∈ st.orphans) (e : x.id = y.id) : x = y :=
  List.inj_on_of_nodup_map hI.pool.nodup hx hy e

theorem foldInv_step {U : Universe} {R : State → Prop} (hR : ∀ st ob, R st → ob ∈ st.orphans → stored st ob.parent → R (st.saveBlock ob).1)
    {fuel : Nat} (ih : SsbSpec U R fuel) {a : Nat} {s st : State} (ha : stored s a) {o : Nat} {w : List Nat}
    (h : FoldInv U R a s (s.orphans.length ≤ fuel + 1) st (o :: w)) :
    FoldInv U R a s (s.orphans.length ≤ fuel + 1) (visit fuel st o) w := by
  obtain ⟨ob, hobm, hobid, hobp⟩ := h.waiting o (List.mem_cons_self ..)
  have hIst := h.grow.inv
  have hlook : lookupHeader st.orphans o = some ob := by
    rw [← hobid]; exact lookupHeader_of_mem hIst.pool.nodup hobm
  rw [visit_some hlook]
  have hcoh : Coh U ob := hIst.cohO ob hobm
  have g1 : Grow U st (st.saveBlock ob).1 := grow_saveBlock hIst hcoh
  have hsta : stored st a := h.grow.mono a ha
  have r1 : R (st.saveBlock ob).1 := hR st ob h.r hobm (hobp ▸ hsta)
  have hnd := List.nodup_cons.mp h.nodup
  have hnso : ¬ stored st o := by rw [← hobid]; exact hIst.disjoint ob hobm
  cases hok : (st.saveBlock ob).2 with
  | false =>
    simp only [Bool.false_eq_true, if_false]
    have hst := stored_saveBlock_false hok
    have snd1 : Sound (fun _ => False) st (st.saveBlock ob).1 := fun i hi => absurd ((hst i).mp hi.1) hi.2
    refine ⟨h.grow.trans g1, r1, Sound.trans h.grow g1 h.sound snd1 (fun _ f => f.elim), ?_, hnd.2, ?_⟩
    · intro o' ho'
      obtain ⟨h', hm', hid', hp'⟩ := h.waiting o' (List.mem_cons_of_mem _ ho')
      refine ⟨h', (g1.mem_orphans h').mpr ⟨hm', ?_⟩, hid', hp'⟩
      rw [hst]; exact hIst.disjoint h' hm'
    · intro hb x hx hcase hns
      have hns0 : ¬ stored st x.id := fun e => hns ((hst _).mpr e)
      rcases hcase with ⟨hpa, hnw⟩ | hnew
      · by_cases e : x.id = o
        · have hxst : x ∈ st.orphans := (h.grow.mem_orphans x).mpr ⟨hx, hns0⟩
          have : x = ob := uniq_of_inv hIst hxst hobm (by rw [e, hobid])
          subst this
          exact ⟨st, h.r, by rw [hpa]; exact hsta, hok⟩
        · exact h.complete hb x hx (Or.inl ⟨hpa, by simp [e, hnw]⟩) hns0
      · exact h.complete hb x hx (Or.inr ⟨(hst _).mp hnew.1, hnew.2⟩) hns0
  | true =>
    simp only [if_true]
    have hst := stored_saveBlock_true hok
    have hst1o : stored (st.saveBlock ob).1 o := (hst o).mpr (Or.inl hobid.symm)
    obtain ⟨g2, r2, snd2, cmp2⟩ := ih (st.saveBlock ob).1 o g1.inv r1 hst1o
    have g01 := h.grow.trans g1
    have snd1 : Sound (· = a) st (st.saveBlock ob).1 := by
      intro i hi
      have : i = ob.id := by
        rcases (hst i).mp hi.1 with e | e
        · exact e
        · exact absurd e hi.2
      exact ⟨ob, hobm, this.symm, Or.inl hobp⟩
    have snd01 : Sound (· = a) s (st.saveBlock ob).1 := Sound.trans h.grow g1 h.sound snd1 (fun _ f => Or.inl f)
    have hnewo : NewS s (State.saveSubBlock fuel (st.saveBlock ob).1 o) o :=
      ⟨g2.mono o hst1o, fun e => hnso (h.grow.mono o e)⟩
    refine ⟨g01.trans g2, r2, Sound.trans g01 g2 snd01 snd2 (fun p hp => Or.inr (hp ▸ hnewo)), ?_, hnd.2, ?_⟩
    · intro o' ho'
      obtain ⟨h', hm', hid', hp'⟩ := h.waiting o' (List.mem_cons_of_mem _ ho')
      have hne : o' ≠ o := fun e => hnd.1 (e ▸ ho')
      have hns0 : ¬ stored st o' := by rw [← hid']; exact hIst.disjoint h' hm'
      have hns1 : ¬ stored (st.saveBlock ob).1 o' := by
        rw [hst]; rintro (e | e)
        · exact hne (e.trans hobid)
        · exact hns0 e
      refine ⟨h', ((g1.trans g2).mem_orphans h').mpr ⟨hm', ?_⟩, hid', hp'⟩
      rw [hid']
      intro hs'
      obtain ⟨h'', hm'', hid'', hp''⟩ := snd2 o' ⟨hs', hns1⟩
      have hm''st : h'' ∈ st.orphans := ((g1.mem_orphans h'').mp hm'').1
      have : h'' = h' := uniq_of_inv hIst hm''st hm' (by rw [hid'', hid'])
      subst this
      rw [hp'] at hp''
      rcases hp'' with e | e
      · exact hnso (e ▸ hsta)
      · exact e.2 (g1.mono a hsta)
    · intro hb x hx hcase hns'
      have hns1 : ¬ stored (st.saveBlock ob).1 x.id := fun e => hns' (g2.mono _ e)
      have hns0 : ¬ stored st x.id := fun e => hns1 (g1.mono _ e)
      have hx1 : x ∈ (st.saveBlock ob).1.orphans := (g01.mem_orphans x).mpr ⟨hx, hns1⟩
      have hlen : (st.saveBlock ob).1.orphans.length ≤ fuel := by
        have h1 : (st.saveBlock ob).1.orphans.length < st.orphans.length := by
          rw [g1.pool]
          apply List.length_filter_lt_length_iff_exists.mpr
          refine ⟨ob, hobm, ?_⟩
          have : stored (st.saveBlock ob).1 ob.id := by rw [hobid]; exact hst1o
          unfold stored at this
          simp [this]
        have h2 : st.orphans.length ≤ s.orphans.length := by
          rw [h.grow.pool]; exact List.length_filter_le _ _
        omega
      have cmp2' := cmp2 hlen
      rcases hcase with ⟨hpa, hnw⟩ | hnew
      · by_cases e : x.id = o
        · exact absurd (e ▸ hst1o) hns1
        · exact h.complete hb x hx (Or.inl ⟨hpa, by simp [e, hnw]⟩) hns0
      · by_cases e : stored st x.parent
        · exact h.complete hb x hx (Or.inr ⟨e, hnew.2⟩) hns0
        · by_cases e2 : x.parent = o
          · exact cmp2' x hx1 (Or.inl e2) hns'
          · refine cmp2' x hx1 (Or.inr ⟨hnew.1, ?_⟩) hns'
            rw [hst]; rintro (e3 | e3)
            · exact e2 (e3.trans hobid)
            · exact e e3

theorem foldInv_foldl {U : Universe} {R : State → Prop} (hR : ∀ st ob, R st → ob ∈ st.orphans → stored st ob.parent → R (st.saveBlock ob).1)
    {fuel : Nat} (ih : SsbSpec U R fuel) {a : Nat} {s : State} (ha : stored s a) (w : List Nat) :
    ∀ st, FoldInv U R a s (s.orphans.length ≤ fuel + 1) st w →
      FoldInv U R a s (s.orphans.length ≤ fuel + 1) (w.foldl (visit fuel) st) [] := by
  induction w with
  | nil => intro st h; exact h
  | cons o w ihw => intro st h; exact ihw _ (foldInv_step hR ih ha h)

/-- the waiting list `saveSubBlock` copies is the group of the connected block -/
theorem waiting_eq_group {U : Universe} {s : State} (hI : Inv U s) {a : Nat} {w : List Nat}
    (h : alistGet s.prevOrphans a = some w) : w = group s.orphans a := by
  rw [hI.pool.get] at h
  by_cases e : group s.orphans a = []
  · simp [e] at h
  · simpa [e] using h.symm

theorem foldInv_init {U : Universe} {R : State → Prop} {a : Nat} {s : State} (hI : Inv U s) (hr : R s) (bound : Prop) :
    FoldInv U R a s bound s (group s.orphans a) := by
  refine ⟨Grow.refl hI, hr, Sound.refl _ _, ?_, group_nodup hI.pool.nodup a, ?_⟩
  · intro o ho
    obtain ⟨h, hm, hp, hid⟩ := mem_group.mp ho
    exact ⟨h, hm, hid, hp⟩
  · intro _ x hx hcase _
    rcases hcase with ⟨hpa, hnw⟩ | hnew
    · exact absurd (mem_group.mpr ⟨x, hx, hpa, rfl⟩) hnw
    · exact absurd hnew.1 hnew.2

theorem ssbSpec {U : Universe} {R : State → Prop} (hR : ∀ st ob, R st → ob ∈ st.orphans → stored st ob.parent → R (st.saveBlock ob).1) :
    ∀ fuel, SsbSpec U R fuel := by
  intro fuel
  induction fuel with
  | zero =>
    intro s a hI hr _
    rw [saveSubBlock_zero]
    refine ⟨Grow.refl hI, hr, Sound.refl _ _, ?_⟩
    intro hl x hx
    have : s.orphans = [] := List.eq_nil_of_length_eq_zero (by omega)
    rw [this] at hx
    simp at hx
  | succ fuel ih =>
    intro s a hI hr ha
    rw [saveSubBlock_succ]
    cases hg : alistGet s.prevOrphans a with
    | none =>
      simp only
      refine ⟨Grow.refl hI, hr, Sound.refl _ _, ?_⟩
      intro _ x hx hcase _
      rcases hcase with hpa | hnew
      · have hm : x.id ∈ group s.orphans a := mem_group.mpr ⟨x, hx, hpa, rfl⟩
        rw [hI.pool.get] at hg
        simp [List.ne_nil_of_mem hm] at hg
      · exact absurd hnew.1 hnew.2
    | some w =>
      simp only
      have hw := waiting_eq_group hI hg
      subst hw
      have hf := foldInv_foldl hR ih ha _ s (foldInv_init hI hr _)
      refine ⟨hf.grow, hf.r, hf.sound, ?_⟩
      intro hl x hx hcase hns
      refine hf.complete hl x hx ?_ hns
      rcases hcase with hpa | hnew
      · exact Or.inl ⟨hpa, by simp⟩
      · exact Or.inr hnew

end BytomModel.Lemmas.NodeOrphans
