/-
Parsing is injective (C09): the instruction list determines the program, byte for byte.
`instBytes i` re-encodes an instruction from its fields exactly as it stood in the program.
-/
import BytomModel.Lemmas.Asm

namespace BytomModel.Lemmas.Asm
open BytomModel.Asm BytomModel.Gen

/-- the bytes an instruction returned by ParseOp was read from -/
def instBytes (i : Inst) : Bytes :=
  if IsSmallInt i.op then [i.op]
  else if i.op.toNat = Ops.OP_PUSHDATA1 then i.op :: byte i.data.length :: i.data
  else if i.op.toNat = Ops.OP_PUSHDATA2 then
    i.op :: byte (i.data.length % 256) :: byte (i.data.length / 256 % 256) :: i.data
  else if i.op.toNat = Ops.OP_PUSHDATA4 then i.op :: (le32Bytes i.data.length ++ i.data)
  else i.op :: i.data

theorem byte_toNat_self (b : UInt8) : byte b.toNat = b := by unfold byte; exact UInt8.ofNat_toNat

theorem take_len_of_le {r : Bytes} {n : Nat} (h : n ≤ r.length) : (r.take n).length = n := by
  rw [List.length_take]; omega

theorem specOp_bytes {pc : Nat} {s : Bytes} {i : Inst} (h : specOp pc s = .ok i) :
    s.take i.len = instBytes i := by
  cases s with
  | nil => simp [specOp] at h
  | cons op rest =>
  unfold specOp at h
  simp only [] at h
  by_cases b1 : Ops.OP_1 ≤ op.toNat ∧ op.toNat ≤ Ops.OP_16
  · simp only [b1, and_self, if_true] at h
    injection h with h; subst h
    have : IsSmallInt op := b1
    simp [instBytes, this]
  simp only [b1, if_false] at h
  have ns : ¬ IsSmallInt op := b1
  by_cases b2 : Ops.OP_DATA_1 ≤ op.toNat ∧ op.toNat ≤ Ops.OP_DATA_75
  · simp only [b2, and_self, if_true] at h
    obtain ⟨hn, rfl⟩ := specData_ok h
    simp only [Ops.OP_DATA_1, Ops.OP_DATA_75] at b2
    have c3 : ¬ op.toNat = Ops.OP_PUSHDATA1 := by simp only [Ops.OP_PUSHDATA1]; omega
    have c4 : ¬ op.toNat = Ops.OP_PUSHDATA2 := by simp only [Ops.OP_PUSHDATA2]; omega
    have c5 : ¬ op.toNat = Ops.OP_PUSHDATA4 := by simp only [Ops.OP_PUSHDATA4]; omega
    simp [instBytes, ns, c3, c4, c5]
  simp only [b2, if_false] at h
  by_cases b3 : op.toNat = Ops.OP_PUSHDATA1
  · simp only [b3, if_true] at h
    cases rest with
    | nil => simp at h
    | cons n r =>
      simp only [] at h
      obtain ⟨hn, rfl⟩ := specData_ok h
      simp only [instBytes, ns, if_false, b3, if_true, take_len_of_le hn, byte_toNat_self]
      simp
  simp only [b3, if_false] at h
  by_cases b4 : op.toNat = Ops.OP_PUSHDATA2
  · simp only [b4, if_true] at h
    match rest, h with
    | [], h => simp at h
    | [_], h => simp at h
    | a :: b :: r, h =>
      simp only [] at h
      obtain ⟨hn, rfl⟩ := specData_ok h
      have c3 : ¬ op.toNat = Ops.OP_PUSHDATA1 := b3
      have ha := a.toNat_lt
      have hb := b.toNat_lt
      have e1 : le16 a b % 256 = a.toNat := by unfold le16; omega
      have e2 : le16 a b / 256 % 256 = b.toNat := by unfold le16; omega
      simp only [instBytes, ns, if_false, c3, b4, if_true, take_len_of_le hn, e1, e2, byte_toNat_self]
      simp [Ops.OP_PUSHDATA1, Ops.OP_PUSHDATA2]
  simp only [b4, if_false] at h
  by_cases b5 : op.toNat = Ops.OP_PUSHDATA4
  · simp only [b5, if_true] at h
    match rest, h with
    | [], h => simp at h
    | [_], h => simp at h
    | [_, _], h => simp at h
    | [_, _, _], h => simp at h
    | a :: b :: c :: d :: r, h =>
      simp only [] at h
      split at h
      · cases h
      obtain ⟨hn, rfl⟩ := specData_ok h
      have ha := a.toNat_lt
      have hb := b.toNat_lt
      have hc := c.toNat_lt
      have hd := d.toNat_lt
      have e1 : le32 a b c d % 256 = a.toNat := by unfold le32; omega
      have e2 : le32 a b c d / 256 % 256 = b.toNat := by unfold le32; omega
      have e3 : le32 a b c d / 65536 % 256 = c.toNat := by unfold le32; omega
      have e4 : le32 a b c d / 16777216 % 256 = d.toNat := by unfold le32; omega
      simp only [instBytes, ns, if_false, b3, b4, b5, if_true, take_len_of_le hn, le32Bytes, e1, e2, e3, e4,
        byte_toNat_self]
      simp [Ops.OP_PUSHDATA1, Ops.OP_PUSHDATA2, Ops.OP_PUSHDATA4]
  simp only [b5, if_false] at h
  by_cases b6 : op.toNat = Ops.OP_JUMP ∨ op.toNat = Ops.OP_JUMPIF
  · simp only [b6, if_true] at h
    obtain ⟨hn, rfl⟩ := specData_ok h
    simp [instBytes, ns, b3, b4, b5]
  simp only [b6, if_false] at h
  injection h with h; subst h
  simp [instBytes, ns, b3, b4, b5]

theorem specProg_bytes (fuel : Nat) : ∀ (pc : Nat) (s : Bytes) (is : List Inst),
    specProg fuel pc s = .ok is → s = (is.map instBytes).flatten := by
  induction fuel with
  | zero => intro pc s is h; simp [specProg] at h
  | succ fuel ih =>
    intro pc s is h
    unfold specProg at h
    cases s with
    | nil => simp only [] at h; injection h with h; subst h; rfl
    | cons b t =>
      simp only [] at h
      cases hsp : specOp pc (b :: t) with
      | error e => rw [hsp] at h; cases h
      | ok i =>
        rw [hsp] at h
        simp only [] at h
        cases hrec : specProg fuel (pc + i.len) ((b :: t).drop i.len) with
        | error e => rw [hrec] at h; cases h
        | ok rest =>
          rw [hrec] at h
          injection h with h; subst h
          have h1 := specOp_bytes hsp
          have h2 := ih _ _ _ hrec
          simp only [List.map_cons, List.flatten_cons]
          rw [← h1, ← h2, List.take_append_drop]

/-- a plain one-byte opcode parses to an instruction without data -/
theorem specOp_plain_inv {pc : Nat} {s : Bytes} {i : Inst} (h : specOp pc s = .ok i) (hp : IsPlain i.op) :
    i.data = [] ∧ i.len = 1 := by
  cases s with
  | nil => simp [specOp] at h
  | cons op tl =>
    have hop : i.op = op := by
      obtain ⟨_, henc⟩ := specOp_ok h
      have hh := henc.head
      have hpos := henc.pos
      cases hl : i.len with
      | zero => omega
      | succ k => rw [hl] at hh; simpa using hh.symm
    rw [hop] at hp
    rw [specOp_plain tl hp] at h
    injection h with h; subst h; exact ⟨rfl, rfl⟩

/-- an instruction whose opcode is the one PushDataBytes chooses for its (non-empty) data is
    encoded exactly as PushDataBytes encodes that data -/
theorem instBytes_canonical (i : Inst) (hd : 0 < i.data.length) (hl : i.data.length < 4294967296)
    (hop : i.op = pushOp i.data.length) : instBytes i = pushDataBytes i.data := by
  have hn := pushOp_toNat i.data.length
  rw [← hop] at hn
  have h0 : ¬ i.data.length = 0 := by omega
  simp only [h0, if_false] at hn
  have c1 : ¬ (Ops.OP_1 ≤ i.op.toNat ∧ i.op.toNat ≤ Ops.OP_16) := by
    simp only [Ops.OP_1]; split at hn <;> (try split at hn) <;> (try split at hn) <;> omega
  have ns : ¬ IsSmallInt i.op := c1
  unfold instBytes pushDataBytes
  simp only [ns, h0, if_false]
  by_cases h1 : i.data.length ≤ 75
  · simp only [h1, if_true] at hn ⊢
    have e : u8 (u8 (Ops.OP_DATA_1 + u8 i.data.length) + 255) = i.data.length := by
      simp only [u8, Ops.OP_DATA_1]; omega
    have c3 : ¬ i.op.toNat = Ops.OP_PUSHDATA1 := by simp only [Ops.OP_PUSHDATA1]; omega
    have c4 : ¬ i.op.toNat = Ops.OP_PUSHDATA2 := by simp only [Ops.OP_PUSHDATA2]; omega
    have c5 : ¬ i.op.toNat = Ops.OP_PUSHDATA4 := by simp only [Ops.OP_PUSHDATA4]; omega
    simp only [c3, c4, c5, if_false, e]
    rw [hop]; simp [pushOp, h0, h1]
  simp only [h1, if_false] at hn ⊢
  by_cases h2 : i.data.length < 256
  · simp only [h2, if_true] at hn ⊢
    have c3 : i.op.toNat = Ops.OP_PUSHDATA1 := by simp only [Ops.OP_PUSHDATA1]; omega
    have e : u8 i.data.length = i.data.length := by simp only [u8]; omega
    rw [if_pos c3, e, hop]
    simp [pushOp, h0, h1, h2]
  simp only [h2, if_false] at hn ⊢
  by_cases h3 : i.data.length < 65536
  · simp only [h3, if_true] at hn ⊢
    have c3 : ¬ i.op.toNat = Ops.OP_PUSHDATA1 := by simp only [Ops.OP_PUSHDATA1]; omega
    have c4 : i.op.toNat = Ops.OP_PUSHDATA2 := by simp only [Ops.OP_PUSHDATA2]; omega
    simp only [c3, if_false]
    rw [if_pos c4, hop]
    simp [pushOp, h0, h1, h2, h3]
  simp only [h3, if_false] at hn ⊢
  have c3 : ¬ i.op.toNat = Ops.OP_PUSHDATA1 := by simp only [Ops.OP_PUSHDATA1]; omega
  have c4 : ¬ i.op.toNat = Ops.OP_PUSHDATA2 := by simp only [Ops.OP_PUSHDATA2]; omega
  have c5 : i.op.toNat = Ops.OP_PUSHDATA4 := by simp only [Ops.OP_PUSHDATA4]; omega
  have e : u32 i.data.length = i.data.length := u32_id hl
  simp only [c3, c4, if_false]
  rw [if_pos c5, e, hop]
  simp [pushOp, h0, h1, h2, h3]

end BytomModel.Lemmas.Asm
