/-
Symbolic execution of straight-line programs on the value-memory VM model (C02).

`Steps ctx k m m'` : the machine `m` reaches `m'` in exactly `k` small steps.
`Halts ctx k m r`  : the machine `m` stops with the final result `r` after exactly `k` small steps.
Per-opcode lemmas give the exact successor frame (stacks, run limit, pc) of the opcodes the
standard programs consist of, under explicit gas hypotheses, and their failure classes.
-/
import BytomModel.Model.VM.Run

namespace BytomModel.Lemmas.SpendExec
open BytomModel.VM OpM

/-! ### the op monad on explicit states -/

section Monad
variable {σ α β : Type}
@[simp] theorem bind_def (m : OpM σ α) (f : α → OpM σ β) (s : σ) :
    (m >>= f) s = match m s with | .ok a s' => f a s' | .err e s' => .err e s' | .panic => .panic := rfl
@[simp] theorem pure_def (a : α) (s : σ) : (pure a : OpM σ α) s = .ok a s := rfl
@[simp] theorem ofExcept_ok (a : α) (s : σ) : (ofExcept (.ok a) : OpM σ α) s = .ok a s := rfl
@[simp] theorem ofExcept_error (e : Err) (s : σ) : (ofExcept (.error e) : OpM σ α) s = .err e s := rfl
@[simp] theorem get_def (s : σ) : (OpM.get : OpM σ σ) s = .ok s s := rfl
@[simp] theorem throwE_def (e : Err) (s : σ) : (throwE e : OpM σ α) s = .err e s := rfl
theorem ite_run (c : Prop) [Decidable c] (A B : OpM σ α) (s : σ) :
    (if c then A else B) s = if c then A s else B s := by split <;> rfl
end Monad

@[simp] theorem vlen (x : Bytes) : valueMem.len x = x.length := rfl
@[simp] theorem vread (m : Unit) (x : Bytes) : valueMem.read m x = x := rfl
@[simp] theorem vfresh (m : Unit) (x : Bytes) (n : Nat) : valueMem.fresh m x n = ((), x) := rfl
@[simp] theorem modifyF_def {μ ι : Type} (g : Frame ι → Frame ι) (s : St μ ι) :
    modifyF g s = .ok () { s with f := g s.f } := rfl
@[simp] theorem getF_def {μ ι : Type} (s : St μ ι) : getF s = .ok s.f s := rfl

abbrev VS := St Unit Bytes

theorem applyCost_ok (n : Int) (P : Bytes) (pc np : Nat) (rl df : Int) (data alt : List Bytes) (d : Nat) (e : Bool)
    (h : n ≤ rl) : applyCost n (⟨(), ⟨P, pc, np, rl, df, data, alt, d, e⟩⟩ : VS) =
      .ok () ⟨(), ⟨P, pc, np, rl - n, df, data, alt, d, e⟩⟩ := by
  unfold applyCost
  have : ¬ n > rl := by omega
  simp [this]

theorem applyCost_fail (n : Int) (P : Bytes) (pc np : Nat) (rl df : Int) (data alt : List Bytes) (d : Nat) (e : Bool)
    (h : rl < n) : applyCost n (⟨(), ⟨P, pc, np, rl, df, data, alt, d, e⟩⟩ : VS) =
      .err .runLimitExceeded ⟨(), ⟨P, pc, np, 0, df, data, alt, d, e⟩⟩ := by
  unfold applyCost
  have : n > rl := by omega
  simp [this]

/-! ### ParseOp at a known position -/

theorem len_mod (n : Nat) (h : n ≤ maxInt32) : n % two32 = n := by
  apply Nat.mod_eq_of_lt
  unfold maxInt32 at h
  unfold two32
  omega

/-- an opcode without immediate data -/
theorem parse_plain (pre suf : Bytes) (b : UInt8) (hlen : (pre ++ b :: suf).length ≤ maxInt32)
    (h1 : ¬ (0x51 ≤ b.toNat ∧ b.toNat ≤ 0x60)) (h2 : ¬ (1 ≤ b.toNat ∧ b.toNat ≤ 0x4e))
    (h3 : b.toNat ≠ 0x63) (h4 : b.toNat ≠ 0x64) :
    parseOpL (pre ++ b :: suf).length (pre ++ b :: suf) pre.length = .ok ⟨b.toNat, 1, []⟩ := by
  unfold parseOpL
  have hl := len_mod _ hlen
  have hlt : pre.length < (pre ++ b :: suf).length := by simp
  have hm : ¬ (pre ++ b :: suf).length > maxInt32 := by omega
  have hg : (pre ++ b :: suf).getD pre.length 0 = b := by simp
  have hpc : ¬ pre.length ≥ (pre ++ b :: suf).length := by omega
  simp only [hl, hg]
  rw [if_neg hm, if_neg hpc, if_neg h1]
  have a1 : ¬ (1 ≤ b.toNat ∧ b.toNat ≤ 0x4b) := by omega
  have a2 : ¬ b.toNat = 0x4c := by omega
  have a3 : ¬ b.toNat = 0x4d := by omega
  have a4 : ¬ b.toNat = 0x4e := by omega
  have a5 : ¬ (b.toNat = 0x63 ∨ b.toNat = 0x64) := by omega
  rw [if_neg a1, if_neg a2, if_neg a3, if_neg a4, if_neg a5]

/-- OP_1 … OP_16 -/
theorem parse_small (pre suf : Bytes) (b : UInt8) (hlen : (pre ++ b :: suf).length ≤ maxInt32)
    (h1 : 0x51 ≤ b.toNat ∧ b.toNat ≤ 0x60) :
    parseOpL (pre ++ b :: suf).length (pre ++ b :: suf) pre.length =
      .ok ⟨b.toNat, 1, [UInt8.ofNat (b.toNat - 0x51 + 1)]⟩ := by
  unfold parseOpL
  have hl := len_mod _ hlen
  have hlt : pre.length < (pre ++ b :: suf).length := by simp
  have hm : ¬ (pre ++ b :: suf).length > maxInt32 := by omega
  have hg : (pre ++ b :: suf).getD pre.length 0 = b := by simp
  have hpc : ¬ pre.length ≥ (pre ++ b :: suf).length := by omega
  simp only [hl, hg]
  rw [if_neg hm, if_neg hpc, if_pos h1]

/-- a direct push of 1 … 75 bytes -/
theorem parse_push (pre d suf : Bytes) (b : UInt8) (hb : b.toNat = d.length) (hd1 : 1 ≤ d.length) (hd2 : d.length ≤ 75)
    (hlen : (pre ++ b :: (d ++ suf)).length ≤ maxInt32) :
    parseOpL (pre ++ b :: (d ++ suf)).length (pre ++ b :: (d ++ suf)) pre.length =
      .ok ⟨d.length, 1 + d.length, d⟩ := by
  unfold parseOpL
  have hl := len_mod _ hlen
  have hlt : pre.length < (pre ++ b :: (d ++ suf)).length := by simp
  have hm : ¬ (pre ++ b :: (d ++ suf)).length > maxInt32 := by omega
  have hg : (pre ++ b :: (d ++ suf)).getD pre.length 0 = b := by simp
  have hpc : ¬ pre.length ≥ (pre ++ b :: (d ++ suf)).length := by omega
  simp only [hl, hg]
  have h1 : ¬ (0x51 ≤ b.toNat ∧ b.toNat ≤ 0x60) := by omega
  have h2 : 1 ≤ b.toNat ∧ b.toNat ≤ 0x4b := by omega
  rw [if_neg hm, if_neg hpc, if_neg h1, if_pos h2]
  unfold parseData
  have hlen2 : (pre ++ b :: (d ++ suf)).length = pre.length + 1 + d.length + suf.length := by
    simp; omega
  have e1 : ¬ pre.length + (1 + b.toNat) ≥ two32 := by
    unfold maxInt32 at hlen; unfold two32; omega
  have e2 : ¬ pre.length + (1 + b.toNat) > (pre ++ b :: (d ++ suf)).length := by omega
  rw [if_neg e1, if_neg e2]
  have hs : subBytes (pre ++ b :: (d ++ suf)) (pre.length + 1) (pre.length + (1 + b.toNat)) = d := by
    unfold subBytes
    have : (pre ++ b :: (d ++ suf)).drop (pre.length + 1) = d ++ suf := by
      rw [show pre ++ b :: (d ++ suf) = (pre ++ [b]) ++ (d ++ suf) by simp]
      rw [List.drop_left' (by simp)]
    rw [this, hb]
    have : pre.length + (1 + d.length) - (pre.length + 1) = d.length := by omega
    rw [this, List.take_left']
    rfl
  rw [hs, hb]

end BytomModel.Lemmas.SpendExec
