/-
C16 structural invariant of the checkpoint tree: every checkpoint below a node descends (in the
block universe) from that node's block, and growing checkpoints have no children.  Proved on the
`Micro` steps.  Consequences: the root (= last finalized checkpoint) only moves to descendants of
itself, and the fork-choice result descends from it.  Core Lean only.
-/
import BytomModel.Lemmas.CasperInv

namespace BytomModel.Node

/-- the `n`-th ancestor of block `b` -/
def ancN (U : Universe) : Nat → Nat → Nat
  | 0, b => b
  | n + 1, b => ancN U n (U.parent b)

/-- `a` is `b` or an ancestor of `b` in the block universe -/
def UAnc (U : Universe) (a b : Nat) : Prop := ∃ n, ancN U n b = a

theorem UAnc.refl (U : Universe) (a : Nat) : UAnc U a a := ⟨0, rfl⟩

theorem ancN_add (U : Universe) (n m b : Nat) : ancN U (n + m) b = ancN U n (ancN U m b) := by
  induction m generalizing b with
  | zero => rfl
  | succ m ih => show ancN U (n + m + 1) b = _; simp only [ancN]; exact ih _

theorem UAnc.trans {U : Universe} {a b c : Nat} (h1 : UAnc U a b) (h2 : UAnc U b c) : UAnc U a c := by
  obtain ⟨n, hn⟩ := h1
  obtain ⟨m, hm⟩ := h2
  exact ⟨n + m, by rw [ancN_add, hm, hn]⟩

theorem UAnc.parent {U : Universe} {a b : Nat} (h : U.parent b = a) : UAnc U a b := ⟨1, by simp [ancN, h]⟩

mutual
/-- everything below a node descends from the node's block; growing checkpoints are leaves -/
def Tree.Desc (U : Universe) : Tree → Prop
  | .node c cs => (∀ m ∈ Tree.flattenList cs, UAnc U c.hash m.hash) ∧ (c.status = .growing → cs = []) ∧ Tree.DescList U cs
def Tree.DescList (U : Universe) : List Tree → Prop
  | [] => True
  | t :: ts => t.Desc U ∧ Tree.DescList U ts
end

theorem Tree.Desc.root {U : Universe} {t : Tree} (h : t.Desc U) : ∀ m ∈ t.flatten, UAnc U t.ckpt.hash m.hash := by
  cases t with
  | node c cs =>
    unfold Tree.Desc at h
    intro m hm
    simp only [Tree.flatten, List.mem_cons] at hm
    rcases hm with rfl | hm
    · exact UAnc.refl _ _
    · exact h.1 m hm

mutual
theorem Tree.Desc.find {U : Universe} (p : Ckpt → Bool) : ∀ (t r : Tree), t.Desc U → t.find p = some r → r.Desc U
  | .node c cs, r, hd, hf => by
    unfold Tree.find at hf
    by_cases hp : p c
    · simp only [hp, if_true, Option.some.injEq] at hf
      subst hf; exact hd
    · simp only [hp, Bool.false_eq_true, if_false] at hf
      unfold Tree.Desc at hd
      exact Tree.DescList.find p cs r hd.2.2 hf
theorem Tree.DescList.find {U : Universe} (p : Ckpt → Bool) : ∀ (ts : List Tree) (r : Tree),
    Tree.DescList U ts → Tree.findList p ts = some r → r.Desc U
  | [], r, _, hf => by simp [Tree.findList] at hf
  | t :: ts, r, hd, hf => by
    unfold Tree.findList at hf
    unfold Tree.DescList at hd
    cases ht : t.find p with
    | some r' =>
      simp only [ht, Option.some.injEq] at hf
      subst hf
      exact Tree.Desc.find p t r' hd.1 ht
    | none =>
      simp only [ht] at hf
      exact Tree.DescList.find p ts r hd.2 hf
end

theorem Tree.updateList_nil (p : Ckpt → Bool) (f : Ckpt → Ckpt) : Tree.updateList p f [] = [] := by
  simp [Tree.updateList]

theorem Tree.addChildList_nil (p : Ckpt → Bool) (ch : Ckpt) : Tree.addChildList p ch [] = [] := by
  simp [Tree.addChildList]

mutual
theorem Tree.Desc.update {U : Universe} (p : Ckpt → Bool) (f : Ckpt → Ckpt) : ∀ (t : Tree), t.Desc U →
    (∀ c ∈ t.flatten, p c = true → UAnc U c.hash (f c).hash) →
    (∀ c ∈ t.flatten, p c = true → c.status = .growing ∨ ((f c).hash = c.hash ∧ ((f c).status = .growing → c.status = .growing))) →
    (t.update p f).Desc U
  | .node c cs, hd, h1, h2 => by
    unfold Tree.Desc at hd
    unfold Tree.update
    by_cases hp : p c
    · simp only [hp, if_true]
      unfold Tree.Desc
      rcases h2 c (by simp [Tree.flatten]) hp with hg | ⟨hh, hs⟩
      · have := hd.2.1 hg
        subst this
        exact ⟨by simp [Tree.flattenList], fun _ => rfl, by simp [Tree.DescList]⟩
      · exact ⟨by rw [hh]; exact hd.1, fun hg => hd.2.1 (hs hg), hd.2.2⟩
    · simp only [hp, Bool.false_eq_true, if_false]
      unfold Tree.Desc
      refine ⟨?_, ?_, ?_⟩
      · intro m hm
        rw [Tree.updateList_flatten] at hm
        rcases mem_updFirst hm with hm | ⟨x, hx, rfl⟩
        · exact hd.1 m hm
        · have hxm := List.mem_of_find?_eq_some hx
          have hxp := List.find?_some hx
          exact (hd.1 x hxm).trans (h1 x (by simp [Tree.flatten, hxm]) hxp)
      · intro hg; rw [hd.2.1 hg]; exact Tree.updateList_nil p f
      · exact Tree.DescList.update p f cs hd.2.2
          (fun x hx => h1 x (by simp [Tree.flatten, hx]))
          (fun x hx => h2 x (by simp [Tree.flatten, hx]))
theorem Tree.DescList.update {U : Universe} (p : Ckpt → Bool) (f : Ckpt → Ckpt) : ∀ (ts : List Tree), Tree.DescList U ts →
    (∀ c ∈ Tree.flattenList ts, p c = true → UAnc U c.hash (f c).hash) →
    (∀ c ∈ Tree.flattenList ts, p c = true → c.status = .growing ∨ ((f c).hash = c.hash ∧ ((f c).status = .growing → c.status = .growing))) →
    Tree.DescList U (Tree.updateList p f ts)
  | [], _, _, _ => by simp [Tree.updateList, Tree.DescList]
  | t :: ts, hd, h1, h2 => by
    unfold Tree.DescList at hd
    unfold Tree.updateList
    cases ht : t.find p with
    | some r =>
      simp only
      unfold Tree.DescList
      exact ⟨Tree.Desc.update p f t hd.1
        (fun x hx => h1 x (by simp [Tree.flattenList, hx]))
        (fun x hx => h2 x (by simp [Tree.flattenList, hx])), hd.2⟩
    | none =>
      simp only
      unfold Tree.DescList
      exact ⟨hd.1, Tree.DescList.update p f ts hd.2
        (fun x hx => h1 x (by simp [Tree.flattenList, hx]))
        (fun x hx => h2 x (by simp [Tree.flattenList, hx]))⟩
end

mutual
/-- refined membership: the new child only appears when some node satisfies `p` -/
theorem Tree.mem_addChild' (p : Ckpt → Bool) (ch : Ckpt) : ∀ (t : Tree) (x : Ckpt),
    x ∈ (t.addChild p ch).flatten → x ∈ t.flatten ∨ (x = ch ∧ ∃ d ∈ t.flatten, p d = true)
  | .node c cs, x, h => by
    unfold Tree.addChild at h
    by_cases hp : p c
    · simp only [hp, if_true, Tree.flatten, List.mem_cons] at h
      rcases h with h | h
      · left; simp [Tree.flatten, h]
      · rw [Tree.flattenList_append] at h
        rcases List.mem_append.mp h with h | h
        · left; simp [Tree.flatten, h]
        · right
          refine ⟨by simpa [Tree.flattenList, Tree.flatten] using h, c, by simp [Tree.flatten], hp⟩
    · simp only [hp, Bool.false_eq_true, if_false, Tree.flatten, List.mem_cons] at h
      rcases h with h | h
      · left; simp [Tree.flatten, h]
      · rcases Tree.mem_addChildList' p ch cs x h with h | ⟨h, d, hd, hpd⟩
        · left; simp [Tree.flatten, h]
        · exact Or.inr ⟨h, d, by simp [Tree.flatten, hd], hpd⟩
theorem Tree.mem_addChildList' (p : Ckpt → Bool) (ch : Ckpt) : ∀ (ts : List Tree) (x : Ckpt),
    x ∈ Tree.flattenList (Tree.addChildList p ch ts) →
    x ∈ Tree.flattenList ts ∨ (x = ch ∧ ∃ d ∈ Tree.flattenList ts, p d = true)
  | [], x, h => by simp [Tree.addChildList, Tree.flattenList] at h
  | t :: ts, x, h => by
    unfold Tree.addChildList at h
    cases ht : t.find p with
    | some r =>
      simp only [ht, Tree.flattenList] at h
      rcases List.mem_append.mp h with h | h
      · rcases Tree.mem_addChild' p ch t x h with h | ⟨h, d, hd, hpd⟩
        · left; simp [Tree.flattenList, h]
        · exact Or.inr ⟨h, d, by simp [Tree.flattenList, hd], hpd⟩
      · left; simp [Tree.flattenList, h]
    | none =>
      simp only [ht, Tree.flattenList] at h
      rcases List.mem_append.mp h with h | h
      · left; simp [Tree.flattenList, h]
      · rcases Tree.mem_addChildList' p ch ts x h with h | ⟨h, d, hd, hpd⟩
        · left; simp [Tree.flattenList, h]
        · exact Or.inr ⟨h, d, by simp [Tree.flattenList, hd], hpd⟩
end

theorem Tree.DescList.append {U : Universe} : ∀ (as bs : List Tree), Tree.DescList U as → Tree.DescList U bs →
    Tree.DescList U (as ++ bs)
  | [], bs, _, hb => hb
  | a :: as, bs, ha, hb => by
    unfold Tree.DescList at ha
    show Tree.DescList U (a :: (as ++ bs))
    unfold Tree.DescList
    exact ⟨ha.1, Tree.DescList.append as bs ha.2 hb⟩

mutual
theorem Tree.Desc.addChild {U : Universe} (p : Ckpt → Bool) (ch : Ckpt) : ∀ (t : Tree), t.Desc U →
    (∀ c ∈ t.flatten, p c = true → UAnc U c.hash ch.hash ∧ c.status ≠ .growing) →
    (t.addChild p ch).Desc U
  | .node c cs, hd, h1 => by
    unfold Tree.Desc at hd
    unfold Tree.addChild
    by_cases hp : p c
    · simp only [hp, if_true]
      unfold Tree.Desc
      obtain ⟨hc1, hc2⟩ := h1 c (by simp [Tree.flatten]) hp
      refine ⟨?_, fun hg => absurd hg hc2, ?_⟩
      · intro m hm
        rw [Tree.flattenList_append] at hm
        rcases List.mem_append.mp hm with hm | hm
        · exact hd.1 m hm
        · have : m = ch := by simpa [Tree.flattenList, Tree.flatten] using hm
          rw [this]; exact hc1
      · apply Tree.DescList.append _ _ hd.2.2
        unfold Tree.DescList Tree.Desc
        exact ⟨⟨by simp [Tree.flattenList], fun _ => rfl, by simp [Tree.DescList]⟩, by simp [Tree.DescList]⟩
    · simp only [hp, Bool.false_eq_true, if_false]
      unfold Tree.Desc
      refine ⟨?_, ?_, ?_⟩
      · intro m hm
        rcases Tree.mem_addChildList' p ch cs m hm with hm | ⟨rfl, d, hdm, hpd⟩
        · exact hd.1 m hm
        · exact (hd.1 d hdm).trans (h1 d (by simp [Tree.flatten, hdm]) hpd).1
      · intro hg; rw [hd.2.1 hg]; exact Tree.addChildList_nil p ch
      · exact Tree.DescList.addChild p ch cs hd.2.2 (fun x hx => h1 x (by simp [Tree.flatten, hx]))
theorem Tree.DescList.addChild {U : Universe} (p : Ckpt → Bool) (ch : Ckpt) : ∀ (ts : List Tree), Tree.DescList U ts →
    (∀ c ∈ Tree.flattenList ts, p c = true → UAnc U c.hash ch.hash ∧ c.status ≠ .growing) →
    Tree.DescList U (Tree.addChildList p ch ts)
  | [], _, _ => by simp [Tree.addChildList, Tree.DescList]
  | t :: ts, hd, h1 => by
    unfold Tree.DescList at hd
    unfold Tree.addChildList
    cases ht : t.find p with
    | some r =>
      simp only
      unfold Tree.DescList
      exact ⟨Tree.Desc.addChild p ch t hd.1 (fun x hx => h1 x (by simp [Tree.flattenList, hx])), hd.2⟩
    | none =>
      simp only
      unfold Tree.DescList
      exact ⟨hd.1, Tree.DescList.addChild p ch ts hd.2 (fun x hx => h1 x (by simp [Tree.flattenList, hx]))⟩
end

theorem mod_zero_of_succ_mod_one {e h : Nat} (he : 2 ≤ e) (h1 : (h + 1) % e = 1) : h % e = 0 := by
  have hlt : h % e < e := Nat.mod_lt _ (by omega)
  rw [Nat.add_mod, Nat.mod_eq_of_lt (a := 1) he] at h1
  by_cases hk : h % e + 1 < e
  · rw [Nat.mod_eq_of_lt hk] at h1; omega
  · have : h % e + 1 = e := by omega
    rw [this, Nat.mod_self] at h1; omega

/-- the C16 structural invariant -/
def Inv16 (U : Universe) (s : State) : Prop := Base U s ∧ s.tree.Desc U

theorem Micro.preserves_Inv16 {U : Universe} {Vp : Nat → Nat → Nat → Prop} {s s' : State}
    (hi : Inv16 U s) (m : Micro U Vp s s') : Inv16 U s' := by
  obtain ⟨hb, hd⟩ := hi
  refine ⟨Micro.preserves_Base hb m, ?_⟩
  obtain ⟨he, hHU, hst, _, _⟩ := hb
  cases m with
  | frame e => rw [e.2.1]; exact hd
  | grow b hbU hm =>
    -- every node whose hash is the block's parent has the parent's height, hence is growing
    have hgrow : ∀ c ∈ s.tree.flatten, byHash b.parent c = true → c.status = .growing := by
      intro c hc hp
      have hch : c.hash = b.parent := by simpa [byHash] using hp
      rw [(hst c hc).1]
      intro h0
      apply hm
      have : b.height = c.height + 1 := by
        rw [hHU c hc, hch, hbU.2.2, U.height_step _ hbU.1, ← hbU.2.1]
      rw [this]; exact succ_mod_of_mod_zero he h0
    apply Tree.Desc.update _ _ _ hd
    · intro c hc hp
      have hch : c.hash = b.parent := by simpa [byHash] using hp
      exact UAnc.parent (by simp [increase, hch, hbU.2.1])
    · intro c hc hp; exact Or.inl (hgrow c hc hp)
  | child b pn hbU hm hf =>
    apply Tree.Desc.addChild _ _ _ hd
    intro c hc hp
    have hch : c.hash = b.parent := by simpa [byHash] using hp
    refine ⟨UAnc.parent (by simp [increase, hch, hbU.2.1]), ?_⟩
    intro hg
    have hne := (hst c hc).1.mp hg
    apply hne
    have : b.height = c.height + 1 := by
      rw [hHU c hc, hch, hbU.2.2, U.height_step _ hbU.1, ← hbU.2.1]
    rw [this] at hm
    exact mod_zero_of_succ_mod_one he hm
  | addSig tgt o src srcH tn shd hshd hshh hf _ _ _ _ _ _ =>
    apply Tree.Desc.update _ _ _ hd
    · intro c _ _; exact UAnc.refl _ _
    · intro c _ _; exact Or.inr ⟨rfl, fun h => h⟩
  | justify tgt src tn source hd' hf _ _ _ _ _ _ _ =>
    apply Tree.Desc.update _ _ _ hd
    · intro c _ _; exact UAnc.refl _ _
    · intro c _ _; exact Or.inr ⟨rfl, fun h => by cases h⟩
  | reroot tgt tn source hd' c cs _ _ _ _ _ _ _ _ _ hf =>
    have := Tree.Desc.find _ _ _ hd hf
    unfold Tree.Desc at this ⊢
    refine ⟨this.1, ?_, this.2.2⟩
    intro h; simp at h
  | saveTarget _ _ _ => exact hd
  | saveSource _ _ => exact hd
  | storeHeader _ _ => exact hd
  | voteHeader _ _ _ _ _ _ _ => exact hd
  | post _ _ => exact hd

theorem Inv16_init (U : Universe) (cfg : Config) (genesis : Header) (he : 2 ≤ cfg.epoch)
    (hg : genesis.id = U.g) (h0 : genesis.height = 0) : Inv16 U (State.init cfg genesis) := by
  refine ⟨Base_init U cfg genesis he hg h0, ?_⟩
  simp [State.init, Tree.Desc, Tree.DescList, Tree.flattenList]

/-- one step moves the root (= last finalized checkpoint) only to a descendant of itself, and only by
    `reroot`, to a node of the current tree -/
theorem Micro.root_step {U : Universe} {Vp : Nat → Nat → Nat → Prop} {s s' : State}
    (hi : Inv16 U s) (m : Micro U Vp s s') :
    (s'.tree.ckpt.hash = s.tree.ckpt.hash ∨
      ∃ r, s.tree.find (byHash s'.tree.ckpt.hash) = some r ∧ s'.tree.ckpt.status = .finalized ∧
        s'.tree.children = r.children) ∧
    UAnc U s.tree.ckpt.hash s'.tree.ckpt.hash := by
  obtain ⟨hb, hd⟩ := hi
  have key : s'.tree.ckpt.hash = s.tree.ckpt.hash →
      (s'.tree.ckpt.hash = s.tree.ckpt.hash ∨
        ∃ r, s.tree.find (byHash s'.tree.ckpt.hash) = some r ∧ s'.tree.ckpt.status = .finalized ∧
          s'.tree.children = r.children) ∧ UAnc U s.tree.ckpt.hash s'.tree.ckpt.hash :=
    fun h => ⟨Or.inl h, h ▸ UAnc.refl _ _⟩
  cases m with
  | frame e => apply key; rw [e.2.1]
  | grow b hbU hm =>
    apply key
    show (s.tree.update _ _).ckpt.hash = _
    rw [Tree.update_root]
    split
    · rename_i hp
      exfalso
      cases ht : s.tree with
      | node c cs =>
        have hf : s.tree.find (byHash b.parent) = some s.tree := by
          rw [ht]; unfold Tree.find
          have : byHash b.parent c = true := by simpa [ht, Tree.ckpt] using hp
          simp [this]
        exact hb.2.2.2.2 (hb.grow_target hbU hm hf).1
    · rfl
  | child b pn hbU hm hf =>
    apply key
    show (s.tree.addChild _ _).ckpt.hash = _
    rw [Tree.addChild_root]
  | addSig tgt o src srcH tn shd hshd hshh hf _ _ _ _ _ _ =>
    apply key
    show (s.tree.update _ _).ckpt.hash = _
    rw [Tree.update_root]; split <;> rfl
  | justify tgt src tn source hd' hf _ _ _ _ _ _ _ =>
    apply key
    show (s.tree.update _ _).ckpt.hash = _
    rw [Tree.update_root]; split <;> rfl
  | reroot tgt tn source hd' c cs _ _ _ _ _ _ _ _ _ hf =>
    have hch : c.hash = source.hash := by have := Tree.find_pred hf; simpa [byHash, Tree.ckpt] using this
    refine ⟨Or.inr ⟨.node c cs, ?_, rfl, rfl⟩, ?_⟩
    · show s.tree.find (byHash c.hash) = _
      rw [hch]; exact hf
    · exact hd.root c (Tree.find_mem hf)
  | saveTarget _ _ _ => exact key rfl
  | saveSource _ _ => exact key rfl
  | storeHeader _ _ => exact key rfl
  | voteHeader _ _ _ _ _ _ _ => exact key rfl
  | post _ _ => exact key rfl

/-- growing < unjustified < justified < finalized -/
def Status.rank : Status → Nat
  | .growing => 0 | .unjustified => 1 | .justified => 2 | .finalized => 3

/-- one step never moves a status backwards: every checkpoint of the new tree is a checkpoint of the
    old tree with the same or a later status (same hash, unless it was still growing), or a brand-new
    growing checkpoint without sup links -/
theorem Micro.status_step {U : Universe} {Vp : Nat → Nat → Nat → Prop} {s s' : State}
    (hb : Base U s) (m : Micro U Vp s s') :
    ∀ c' ∈ s'.tree.flatten,
      (∃ c ∈ s.tree.flatten, c.status.rank ≤ c'.status.rank ∧ (c.hash = c'.hash ∨ c.status = .growing)) ∨
      (c'.status = .growing ∧ c'.sup = []) := by
  intro c' hc'
  have self : c' ∈ s.tree.flatten → (∃ c ∈ s.tree.flatten, c.status.rank ≤ c'.status.rank ∧ (c.hash = c'.hash ∨ c.status = .growing)) ∨
      (c'.status = .growing ∧ c'.sup = []) := fun h => Or.inl ⟨c', h, Nat.le_refl _, Or.inl rfl⟩
  cases m with
  | frame e => rw [e.2.1] at hc'; exact self hc'
  | grow b hbU hm =>
    rcases Tree.mem_update hc' with hc | ⟨r, hr, rfl⟩
    · exact self hc
    · obtain ⟨hg, _⟩ := hb.grow_target hbU hm hr
      exact Or.inl ⟨r.ckpt, Tree.find_mem hr, by rw [hg]; exact Nat.zero_le _, Or.inr hg⟩
  | child b pn hbU hm hf =>
    rcases Tree.mem_addChild _ _ _ _ hc' with hc | rfl
    · exact self hc
    · right
      have h1 : ¬ (b.height % s.cfg.epoch = 0) := by have := hb.1; omega
      simp [increase, newCkpt, h1]
  | addSig tgt o src srcH tn shd hshd hshh hf _ _ _ _ _ _ =>
    rcases Tree.mem_update hc' with hc | ⟨r, hr, rfl⟩
    · exact self hc
    · exact Or.inl ⟨r.ckpt, Tree.find_mem hr, Nat.le_refl _, Or.inl rfl⟩
  | justify tgt src tn source hd' hf hst _ _ _ _ _ _ =>
    rcases Tree.mem_update hc' with hc | ⟨r, hr, rfl⟩
    · exact self hc
    · have : r = tn := Option.some.inj (hr.symm.trans hf)
      subst this
      exact Or.inl ⟨r.ckpt, Tree.find_mem hr, by rw [hst]; simp [Status.rank], Or.inl rfl⟩
  | reroot tgt tn source hd' c cs _ _ _ _ _ _ _ _ _ hf =>
    have hsub := Tree.find_sub _ _ _ hf
    simp only [Tree.flatten, List.mem_cons] at hc'
    rcases hc' with rfl | hx
    · refine Or.inl ⟨c, hsub c (by simp [Tree.flatten]), ?_, Or.inl rfl⟩
      cases c.status <;> simp [Status.rank]
    · exact self (hsub c' (by simp [Tree.flatten, hx]))
  | saveTarget _ _ _ => exact self hc'
  | saveSource _ _ => exact self hc'
  | storeHeader _ _ => exact self hc'
  | voteHeader _ _ _ _ _ _ _ => exact self hc'
  | post _ _ => exact self hc'

theorem tryReorganize_ok {s s' : State} {h : Nat} (e : s.tryReorganize h = (s', true)) :
    s'.best = h ∧ s'.tree = s.tree := by
  unfold State.tryReorganize at e
  split at e
  · rename_i hb
    simp only [Prod.mk.injEq, and_true] at e
    subst e
    exact ⟨by simpa using hb, rfl⟩
  · split at e
    · split at e
      · simp at e
      · simp only [Prod.mk.injEq, and_true] at e
        subst e
        exact ⟨rfl, rfl⟩
    · simp at e

end BytomModel.Node
