/-
C23 helper layer 3: the keys of `tp.pool` stay pairwise distinct (it is a Go map), and the
notification log defined as the difference of the pool's key set between consecutive states
alternates add / remove for every transaction id.
-/
import BytomModel.Lemmas.NodePoolInv

namespace BytomModel.Lemmas.PoolKeys
open BytomModel.Node BytomModel.Ledger BytomModel.NodeLedger BytomModel.NodePool
open BytomModel.TxPool (amGet amSet amDel removeTransaction addTransaction processLoop)
open BytomModel.Lemmas.TxPool (foldl_inv)
open BytomModel.Lemmas.PoolSafe BytomModel.Lemmas.NodePoolInv

/-! ### keys of association lists -/

theorem amSet_keys {β : Type} (l : List (Nat × β)) (k : Nat) (v : β) :
    (amSet l k v).map (·.1) = if k ∈ l.map (·.1) then l.map (·.1) else l.map (·.1) ++ [k] := by
  induction l with
  | nil => simp [amSet]
  | cons e l ih =>
    obtain ⟨a, b⟩ := e
    unfold amSet
    by_cases h : a = k
    · simp [h]
    · simp only [h, if_false, List.map_cons, ih, List.mem_cons]
      have : ¬ k = a := fun e => h e.symm
      by_cases hk : k ∈ l.map (·.1)
      · simp [hk]
      · simp [hk, this]

theorem amDel_keys {β : Type} (l : List (Nat × β)) (k : Nat) :
    (amDel l k).map (·.1) = (l.map (·.1)).filter (fun x => x != k) := by
  induction l with
  | nil => rfl
  | cons e l ih =>
    obtain ⟨a, b⟩ := e
    unfold amDel
    by_cases h : a = k
    · simp [h, ih]
    · simp [h, ih]

theorem amSet_nodup {β : Type} (l : List (Nat × β)) (k : Nat) (v : β) (h : (l.map (·.1)).Nodup) :
    ((amSet l k v).map (·.1)).Nodup := by
  rw [amSet_keys]
  split
  · exact h
  · rename_i hk
    rw [List.nodup_append]
    refine ⟨h, by simp, ?_⟩
    intro a ha b hb
    simp only [List.mem_singleton] at hb
    subst hb
    intro e; subst e; exact hk ha

theorem amDel_nodup {β : Type} (l : List (Nat × β)) (k : Nat) (h : (l.map (·.1)).Nodup) :
    ((amDel l k).map (·.1)).Nodup := by
  rw [amDel_keys]
  exact h.filter _

/-! ### the pool's keys are distinct in every state -/

def PK (p : TxPool.Pool) : Prop := (p.pool.map (·.1)).Nodup

theorem pk_of_pool {p p' : TxPool.Pool} (h : PK p) (e : p'.pool = p.pool) : PK p' := by
  unfold PK; rw [e]; exact h

theorem pk_addTransaction (c : TxPool.Cfg) {p : TxPool.Pool} (h : PK p) (tx : TxPool.Tx) : PK (addTransaction c p tx).1 := by
  unfold addTransaction
  split
  · exact h
  · exact amSet_nodup _ _ _ h

theorem pk_removeTransaction {p : TxPool.Pool} (h : PK p) (id : Nat) : PK (removeTransaction p id) := by
  unfold removeTransaction
  split
  · exact h
  · exact amDel_nodup _ _ h

theorem pk_processLoop (c : TxPool.Cfg) : ∀ (f : Nat) (p : TxPool.Pool) (q : List TxPool.Tx), PK p → PK (processLoop c f p q)
  | 0, _, _, h => by unfold processLoop; exact h
  | _ + 1, _, [], h => by unfold processLoop; exact h
  | f + 1, p, o :: q, h => by
    unfold processLoop
    split
    · apply pk_processLoop c f
      apply pk_addTransaction
      exact pk_of_pool (pk_of_pool h (addRely_pool p q o).1) (removeOrphan_pool _ _).1
    · exact pk_processLoop c f p q h

theorem pk_submitPool (c : TxPool.Cfg) {p : TxPool.Pool} (h : PK p) (tx : TxPool.Tx) (now : Nat) :
    PK (TxPool.submit c p tx now).1 := by
  unfold TxPool.submit
  split
  · exact h
  · split
    · exact h
    · unfold TxPool.processTransaction
      simp only
      split
      · exact pk_of_pool h (addOrphan_pool c p tx now _).1
      · split
        · unfold TxPool.processOrphans
          apply pk_processLoop
          exact pk_of_pool (pk_addTransaction c h tx) (addRely_pool _ [] tx).1
        · exact pk_addTransaction c h tx

theorem pk_submit {s : NodePool.State} (h : PK s.pool) (t : Ledger.Tx) : PK (s.submit t).1.pool := by
  unfold State.submit
  simp only
  split <;> exact pk_submitPool _ h _ _

theorem pk_restore (ids : List Nat) : ∀ (st : NodePool.State), PK st.pool → PK (restore ids st).pool := by
  unfold restore
  induction ids with
  | nil => intro st h; exact h
  | cons i is ih =>
    intro st h
    simp only [List.foldl_cons]
    cases st.txById i with
    | none => exact ih st h
    | some t => exact ih _ (pk_submit h t)

theorem pk_foldl_remove (ids : List Nat) : ∀ (p : TxPool.Pool), PK p → PK (ids.foldl removeTransaction p) := by
  induction ids with
  | nil => intro p h; exact h
  | cons i is ih => intro p h; exact ih _ (pk_removeTransaction h i)

theorem pk_afterReorg {s : NodePool.State} (h : PK s.pool) (old : Nat) : PK (s.afterReorg old).pool := by
  rw [afterReorg_eq]
  split
  · exact h
  · rw [reorgPool_phases]
    apply pk_restore
    exact pk_foldl_remove _ _ h

theorem pk_step {s : NodePool.State} (h : PK s.pool) (f : NodeLedger.State → NodeLedger.State × Res) :
    PK (s.step f).1.pool := by
  unfold State.step
  simp only
  split
  · exact pk_afterReorg (s := { s with base := (f s.base).1 }) h _
  · exact h

theorem pk_propose {s : NodePool.State} (h : PK s.pool) : PK s.propose.2.pool := by
  unfold State.propose
  simp only
  apply foldl_inv (fun (acc : List Nat × View × TxPool.Pool) => PK acc.2.2)
  · exact h
  · rintro ⟨inc, view, pool⟩ id _ hp
    simp only at hp ⊢
    cases s.txById id with
    | none => exact hp
    | some t =>
      simp only
      exact ite_pool _ _ _ _ _ _ _ _ hp (pk_removeTransaction hp id)

theorem pk_stepEv {s : NodePool.State} (h : PK s.pool) (e : Ev) : PK (stepEv s e).pool := by
  cases e with
  | define hd txs m => exact h
  | submit t => exact pk_submit h t
  | block b => exact pk_step h _
  | vote o src tgt sg => exact pk_step h _
  | propose => exact pk_propose h

/-! ### the notification log -/

/-- what the driver prints (and what agrees with the dispatcher's MsgNewTx / MsgRemoveTx stream):
    ids that entered the pool (`true`) and ids that left it (`false`) between two dumps -/
def diffLog (a b : List Nat) : List (Bool × Nat) :=
  (b.filter (fun i => !a.contains i)).map (fun i => (true, i)) ++
  (a.filter (fun i => !b.contains i)).map (fun i => (false, i))

def evLog : NodePool.State → List Ev → List (Bool × Nat)
  | _, [] => []
  | s, e :: es => diffLog (poolIds s) (poolIds (stepEv s e)) ++ evLog (stepEv s e) es

/-- the notifications about one transaction id, in order -/
def idLog (id : Nat) (l : List (Bool × Nat)) : List Bool := (l.filter (fun x => x.2 == id)).map (·.1)

/-- alternating sequence whose first element is `next` -/
def Alt : Bool → List Bool → Prop
  | _, [] => True
  | next, b :: bs => b = next ∧ Alt (!next) bs

theorem idLog_append (id : Nat) (a b : List (Bool × Nat)) : idLog id (a ++ b) = idLog id a ++ idLog id b := by
  unfold idLog; simp

theorem idLog_part (id : Nat) (c : Bool) (q : Nat → Bool) : ∀ (l : List Nat), l.Nodup →
    idLog id ((l.filter q).map (fun i => (c, i))) = if id ∈ l ∧ q id = true then [c] else []
  | [], _ => by simp [idLog]
  | x :: l, hn => by
    have hx : x ∉ l := (List.nodup_cons.mp hn).1
    have ih := idLog_part id c q l (List.nodup_cons.mp hn).2
    by_cases hq : q x = true
    · rw [List.filter_cons_of_pos hq, List.map_cons]
      have : idLog id ((c, x) :: (l.filter q).map (fun i => (c, i))) =
          (if x = id then [c] else []) ++ idLog id ((l.filter q).map (fun i => (c, i))) := by
        unfold idLog
        by_cases e : x = id
        · simp [e]
        · simp [e]
      rw [this, ih]
      by_cases e : x = id
      · subst e
        simp [hx, hq]
      · have e' : ¬ id = x := fun h => e h.symm
        simp [e, e']
    · rw [List.filter_cons_of_neg hq, ih]
      by_cases e : id = x
      · subst e
        simp [hx, hq]
      · simp [e]

theorem idLog_diff (id : Nat) (a b : List Nat) (ha : a.Nodup) (hb : b.Nodup) :
    idLog id (diffLog a b) =
      if id ∉ a ∧ id ∈ b then [true] else if id ∈ a ∧ id ∉ b then [false] else [] := by
  unfold diffLog
  rw [idLog_append, idLog_part id true _ b hb, idLog_part id false _ a ha]
  by_cases h1 : id ∈ a <;> by_cases h2 : id ∈ b <;> simp [h1, h2]

/-- **every transaction id's notifications alternate, starting with an addition when the id is
    not pooled at the start (with a removal when it is)** -/
theorem alt_evLog (id : Nat) : ∀ (evs : List Ev) (s : NodePool.State), PK s.pool →
    Alt (decide (id ∉ poolIds s)) (idLog id (evLog s evs))
  | [], _, _ => trivial
  | e :: es, s, h => by
    have h' := pk_stepEv h e
    have ih := alt_evLog id es (stepEv s e) h'
    unfold evLog
    rw [idLog_append, idLog_diff id (poolIds s) (poolIds (stepEv s e)) h h']
    by_cases h1 : id ∈ poolIds s <;> by_cases h2 : id ∈ poolIds (stepEv s e)
    · simpa [h1, h2] using ih
    · simp only [h1, h2, not_true_eq_false, not_false_eq_true, and_true, and_false, and_self, if_false, if_true,
        List.singleton_append, decide_false]
      exact ⟨rfl, by simpa [h2] using ih⟩
    · simp only [h1, h2, not_false_eq_true, and_self, if_true, List.singleton_append, decide_true]
      exact ⟨rfl, by simpa [h2] using ih⟩
    · simpa [h1, h2] using ih

end BytomModel.Lemmas.PoolKeys
